/-
  DDProofs.SatBasic — common ground of the C10 / C18 proofs: case analysis of a
  reference, reachability `Reach`, dependence on a level `dependsOn`, the key lemma
  `node_depends_on_own_level`, and list lemmas (`sortNat`, pigeonhole).
-/
import DD.Ops
import DDProofs.Canon
import DDProofs.Inv
open Std

namespace DD

/-! ### references: terminal or stored node -/

theorem Tbl.Mem.cases {t : Tbl} {u : Int} (h : t.Mem u) :
    u.natAbs = 1 ∨ (u.natAbs ≠ 1 ∧ ∃ n, t.succ[u.natAbs]? = some n) := by
  by_cases h1 : u.natAbs = 1
  · exact Or.inl h1
  · rcases h with h | h
    · exact absurd h h1
    · exact Or.inr ⟨h1, Option.isSome_iff_exists.mp h⟩

theorem Tbl.Mem.of_node {t : Tbl} {u : Int} {n : Nd} (h : t.succ[u.natAbs]? = some n) : t.Mem u :=
  Or.inr (by simp [Tbl.node?, h])

theorem Tbl.Mem.of_node_nat {t : Tbl} {u : Nat} {n : Nd} (h : t.succ[u]? = some n) : t.Mem (u : Int) :=
  Or.inr (by simp [Tbl.node?, h])

theorem WF.node_ne_one {t : Tbl} (hw : WF t) {u : Nat} {n : Nd} (h : t.succ[u]? = some n) : u ≠ 1 := by
  have := hw.ge_two u n h; omega

theorem WF.lo_ne_zero {t : Tbl} (hw : WF t) {u : Nat} {n : Nd} (h : t.succ[u]? = some n) : n.lo ≠ 0 :=
  mem_ne_zero hw (hw.lo_mem u n h)

theorem WF.hi_ne_zero {t : Tbl} (hw : WF t) {u : Nat} {n : Nd} (h : t.succ[u]? = some n) : n.hi ≠ 0 :=
  mem_ne_zero hw (hw.hi_mem u n h)

theorem WF.zero_test {t : Tbl} (hw : WF t) {u : Nat} {n : Nd} (h : t.succ[u]? = some n) :
    (n.lo = 0 || n.hi = 0) = false := by
  simp [hw.lo_ne_zero h, hw.hi_ne_zero h]

theorem levelOf_node' {t : Tbl} {u : Int} {n : Nd} (h1 : u.natAbs ≠ 1) (hn : t.succ[u.natAbs]? = some n) :
    t.levelOf u = n.lvl := levelOf_node t u n h1 hn

theorem den_term {t : Tbl} {u : Int} (h1 : u.natAbs = 1) (a : Asg) : den t u a = decide (0 < u) := by
  rcases abs_one h1 with h | h <;> subst h
  · simp [den_one]
  · simp [den_neg_one]

/-! ### dependence on a level -/

/-- the function of `u` depends on the variable at level `i` -/
def dependsOn (t : Tbl) (u : Int) (i : Nat) : Prop :=
  ∃ a, den t u (upd a i true) ≠ den t u (upd a i false)

theorem upd_comm (a : Asg) (i j : Nat) (b c : Bool) (h : i ≠ j) :
    upd (upd a i b) j c = upd (upd a j c) i b := by
  funext k; unfold upd; by_cases h1 : k = j <;> by_cases h2 : k = i <;> simp [h1, h2] <;> omega

theorem upd_eq_self (a : Asg) (i : Nat) : upd a i (a i) = a := by
  funext k; unfold upd; by_cases h : k = i <;> simp [h]

theorem dependsOn_term {t : Tbl} {u : Int} (h1 : u.natAbs = 1) (i : Nat) : ¬ dependsOn t u i := by
  rintro ⟨a, h⟩; exact h (by rw [den_term h1, den_term h1])

theorem dependsOn_lt {t : Tbl} (hw : WF t) {u : Int} (hm : t.Mem u) {i : Nat} (h : i < t.levelOf u) :
    ¬ dependsOn t u i := by
  rintro ⟨a, hd⟩
  exact hd (by rw [den_indep' t hw u hm i true a h, den_indep' t hw u hm i false a h])

theorem dependsOn_neg {t : Tbl} (hw : WF t) {u : Int} (hm : t.Mem u) (i : Nat) :
    dependsOn t (-u) i ↔ dependsOn t u i := by
  unfold dependsOn
  constructor <;> rintro ⟨a, h⟩ <;> refine ⟨a, ?_⟩
  · intro h'; apply h; rw [den_neg t hw u _ hm, den_neg t hw u _ hm, h']
  · rw [den_neg t hw u _ hm, den_neg t hw u _ hm]; intro h'; apply h
    simpa using h'

/-- KEY LEMMA: a stored node's function depends on the node's own level
(`lo ≠ hi`, canonicity gives `den lo ≠ den hi`, both independent of the level). -/
theorem node_depends_on_own_level {t : Tbl} (hw : WFU t) {u : Int} {n : Nd}
    (h1 : u.natAbs ≠ 1) (hn : t.succ[u.natAbs]? = some n) : dependsOn t u n.lvl := by
  have hW := hw.toWF
  have hne : ¬ ∀ a, den t n.lo a = den t n.hi a := by
    rw [canonical t hw n.lo n.hi (hW.lo_mem _ _ hn) (hW.hi_mem _ _ hn)]
    exact hW.lo_ne_hi _ _ hn
  have ⟨a, ha⟩ : ∃ a, den t n.lo a ≠ den t n.hi a := by
    apply Classical.byContradiction
    intro hc; apply hne; intro a
    apply Classical.byContradiction
    intro h; exact hc ⟨a, h⟩
  refine ⟨a, ?_⟩
  rw [den_node t hW u n _ h1 hn, den_node t hW u n _ h1 hn]
  simp only [upd_same, if_true]
  rw [den_indep' t hW n.hi (hW.hi_mem _ _ hn) n.lvl true a (hW.hi_lt _ _ hn),
      den_indep' t hW n.lo (hW.lo_mem _ _ hn) n.lvl false a (hW.lo_lt _ _ hn)]
  intro h; apply ha
  cases hd : decide (u < 0) <;> simp [hd] at h <;> simp [h]

/-- below its own level a node depends on exactly what its children depend on -/
theorem dependsOn_node {t : Tbl} (hw : WF t) {u : Int} {n : Nd}
    (h1 : u.natAbs ≠ 1) (hn : t.succ[u.natAbs]? = some n) {i : Nat} (hi : i ≠ n.lvl) :
    dependsOn t u i ↔ dependsOn t n.lo i ∨ dependsOn t n.hi i := by
  have hl : ∀ (a : Asg) b, (upd a i b) n.lvl = a n.lvl := fun a b => upd_other a i n.lvl b (Ne.symm hi)
  constructor
  · rintro ⟨a, h⟩
    rw [den_node t hw u n _ h1 hn, den_node t hw u n _ h1 hn, hl, hl] at h
    by_cases ha : a n.lvl = true
    · right; refine ⟨a, ?_⟩; intro h'; apply h; simp [ha, h']
    · left; refine ⟨a, ?_⟩; intro h'; apply h; simp [ha, h']
  · rintro (⟨a, h⟩ | ⟨a, h⟩)
    · refine ⟨upd a n.lvl false, ?_⟩
      rw [den_node t hw u n _ h1 hn, den_node t hw u n _ h1 hn, hl, hl]
      simp only [upd_same]
      rw [← upd_comm _ _ _ _ _ hi, ← upd_comm _ _ _ _ _ hi,
        den_indep' t hw n.lo (hw.lo_mem _ _ hn) n.lvl false _ (hw.lo_lt _ _ hn),
        den_indep' t hw n.lo (hw.lo_mem _ _ hn) n.lvl false _ (hw.lo_lt _ _ hn)]
      intro h'; apply h; simpa using h'
    · refine ⟨upd a n.lvl true, ?_⟩
      rw [den_node t hw u n _ h1 hn, den_node t hw u n _ h1 hn, hl, hl]
      simp only [upd_same, if_true]
      rw [← upd_comm _ _ _ _ _ hi, ← upd_comm _ _ _ _ _ hi,
        den_indep' t hw n.hi (hw.hi_mem _ _ hn) n.lvl true _ (hw.hi_lt _ _ hn),
        den_indep' t hw n.hi (hw.hi_mem _ _ hn) n.lvl true _ (hw.hi_lt _ _ hn)]
      intro h'; apply h; simpa using h'

end DD
