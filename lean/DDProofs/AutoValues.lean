/-
  DDProofs.AutoValues — what the methods of `dd.autoref` RETURN: the node under the new
  `Function`, the truth value of a comparison, the variable / children / size seen through
  a `Function`.  (The invariant side — registry, counters, live meanings — is in
  AutoProofs / AutoTemps / AutoCore / AutoDyn.)
-/
import DDProofs.AutoDynTotal
import DDProps.C01
import DDProps.C18
open Std

namespace DD

variable {off : Bool}

/-! ### evaluation steps -/

theorem AM.bind_ok {x : AM α} {f : α → AM β} {a a1 : AMgr} {v : α} (h : x a = (.ok v, a1)) :
    (x >>= f) a = f v a1 := by
  rw [AM.bind_eq, h]

theorem nodeOwn_eval {a : AMgr} {h : Nat} {u : Int} (hu : a.handles[h]? = some u) :
    nodeOwn h a = (.ok u, a) := by
  unfold nodeOwn; rw [hu]

theorem nodeSame_eval {a : AMgr} {h : Nat} {u : Int} (hu : a.handles[h]? = some u) :
    nodeSame h a = (.ok u, a) := by
  unfold nodeSame; rw [hu]

theorem optNodeSame_eval {a : AMgr} {h : Nat} {u : Int} (hu : a.handles[h]? = some u) :
    optNode nodeSame (some h) a = (.ok (some u), a) := by
  show (nodeSame h >>= fun u => pure (some u)) a = _
  rw [AM.bind_ok (nodeSame_eval hu)]
  rfl

theorem liftM_eval {op : M α} {a : AMgr} {r : Except Err α} {m' : Mgr} (he : op a.m = (r, m')) :
    AM.liftM op a = (r, { a with m := m' }) := by
  unfold AM.liftM; rw [he]

theorem ne_of_some_none {t : TreeMap Nat Int} {x y : Nat} {v : Int} (hx : t[x]? = some v)
    (hy : t[y]? = none) : x ≠ y := fun h => by rw [h, hy] at hx; cases hx

/-! ### `Function._apply` -/

/-- `f.<op>(g)`: when the core operation returns `r`, the method returns `r` and the new
`Function` sits on `r` -/
theorem fApply_eval (a : AMgr) (hi : AInv off a) (op : String) (hs ho h : Nat)
    (hf : a.handles.contains h = false) (u v r : Int) (m1 : Mgr)
    (hu : a.handles[hs]? = some u) (hv : a.handles[ho]? = some v)
    (hk : CoreKeepsAt off a.m (apply op u (some v) none))
    (he : apply op u (some v) none a.m = (.ok r, m1)) (hr : m1.tbl.Mem r) :
    ∃ a', fApply op hs (some ho) h a = (.ok r, a') ∧ a'.m.tbl = m1.tbl ∧
      a'.handles = a.handles.insert h r := by
  have h1 := liftM_eval (a := a) he
  obtain ⟨i1, _, _⟩ := liftM_total a hk hi _ _ h1
  obtain ⟨a', hw, _, ht, hh, _⟩ := wrapF_spec { a with m := m1 } h r i1 hf hr
  refine ⟨a', ?_, ht, hh⟩
  unfold fApply
  rw [AM.bind_ok (nodeOwn_eval hu), AM.bind_ok (optNodeSame_eval hv), AM.bind_ok h1,
    AM.bind_ok hw]
  rfl

/-- `~f` -/
theorem fApply_not_eval (a : AMgr) (hi : AInv off a) (op : String) (hc : docConn op = some .not)
    (hall : Gen.allOps.contains op = true) (hs h : Nat)
    (hf : a.handles.contains h = false) (u : Int) (hu : a.handles[hs]? = some u) :
    ∃ a', fApply op hs none h a = (.ok (-u), a') ∧ a'.m.tbl = a.m.tbl ∧
      a'.handles = a.handles.insert h (-u) := by
  obtain ⟨he, hm, _⟩ := apply_not_spec a.m hi.inv op hc hall u (hi.hmem hs u hu)
  have h1 := liftM_eval (a := a) he
  obtain ⟨a', hw, _, ht, hh, _⟩ := wrapF_spec a h (-u) hi hf hm
  refine ⟨a', ?_, ht, hh⟩
  unfold fApply
  rw [AM.bind_ok (nodeOwn_eval hu)]
  rw [AM.bind_ok (show optNode nodeSame none a = (.ok none, a) from rfl), AM.bind_ok h1,
    AM.bind_ok hw]
  rfl

/-! ### comparisons -/

/-- what `__le__` needs of the disjunction in the current mode: it returns, it is one of the
operations that keep the invariant, and its result means `v ∨ w` by name -/
def OrOk (off : Bool) : Prop :=
  ∀ (b : AMgr), AInv off b → Two off b → ∀ (j1 j2 : Nat) (v w : Int), b.handles[j1]? = some v →
    b.handles[j2]? = some w →
    CoreKeepsAt off b.m (apply "or" v (some w) none) ∧
    ∃ r m', apply "or" v (some w) none b.m = (.ok r, m') ∧ m'.tbl.Mem r ∧
      ∀ σ, denN m'.tbl r σ = (denN b.m.tbl v σ || denN b.m.tbl w σ)

/-- references that agree as functions of the variable names agree as functions of the levels -/
theorem den_of_denN_auto {t : Tbl} (hw : WF t) (hO : OrderOK t) (u v : Int) (hu : t.Mem u)
    (hv : t.Mem v) (h : ∀ σ, denN t u σ = denN t v σ) : ∀ a, den t u a = den t v a := by
  intro a
  rw [← den_unlift hw hO u hu a (fun _ => false), ← den_unlift hw hO v hv a (fun _ => false)]
  exact h _

/-- a stored reference is the terminal `1` exactly when it is true for every assignment of
the variable names -/
theorem eq_one_iff_denN {t : Tbl} (hw : WFU t) (hO : OrderOK t) (r : Int) (hr : t.Mem r) :
    r = 1 ↔ ∀ σ, denN t r σ = true := by
  constructor
  · intro h σ; subst h; exact den_one _ _
  · intro h
    refine (canonical t hw r 1 hr (Or.inl rfl)).mp (den_of_denN_auto hw.toWF hO r 1 hr (Or.inl rfl) ?_)
    intro σ
    rw [h σ]; exact (den_one _ _).symm

/-- two stored references are equal exactly when they mean the same function of the
variable names -/
theorem eq_iff_denN {t : Tbl} (hw : WFU t) (hO : OrderOK t) (u v : Int) (hu : t.Mem u)
    (hv : t.Mem v) : u = v ↔ ∀ σ, denN t u σ = denN t v σ := by
  constructor
  · intro h σ; subst h; rfl
  · intro h
    exact (canonical t hw u v hu hv).mp (den_of_denN_auto hw.toWF hO u v hu hv h)

/-- `f <= g` returns, and returns the node of `g | ~f` compared with the terminal -/
theorem fLe_eval (hor : OrOk off) (a : AMgr) (hi : AInv off a) (h2 : Two off a) (hs ho : Nat) (u v : Int)
    (hu : a.handles[hs]? = some u) (hv : a.handles[ho]? = some v) :
    ∃ (b : Bool) (a' : AMgr), fLe hs ho a = (.ok b, a') ∧
      (b = true ↔ ∀ σ, denN a.m.tbl u σ = true → denN a.m.tbl v σ = true) := by
  have hmu := hi.hmem hs u hu
  -- t1 = ~f
  obtain ⟨t1, hf1, hn1⟩ := freshH_spec a
  obtain ⟨he1, hm1, _⟩ := apply_not_spec a.m hi.inv "not" (by decide) (by decide) u hmu
  have h1 := liftM_eval (a := a) he1
  obtain ⟨a2, hw2, i2, ht2, hh2, _⟩ := wrapF_spec a t1 (-u) hi (contains_false_of_none hn1) hm1
  have hl2 : a2.handles[t1]? = some (-u) := by rw [hh2]; exact TreeMap.getElem?_insert_self
  have h1o : ho ≠ t1 := ne_of_some_none hv hn1
  have hv2 : a2.handles[ho]? = some v := by rw [hh2, getElem?_insert_ne _ _ _ _ h1o]; exact hv
  -- t2 = g | t1
  obtain ⟨t2, hf2, hn2⟩ := freshH_spec a2
  obtain ⟨hk, r, m3, he3, hr3, hd3⟩ := hor a2 i2 (h2.of_tbl ht2) ho t1 v (-u) hv2 hl2
  have h3 := liftM_eval (a := a2) he3
  obtain ⟨i3, _, _⟩ := liftM_total a2 hk i2 _ _ h3
  obtain ⟨a4, hw4, i4, ht4, hh4, _⟩ :=
    wrapF_spec { a2 with m := m3 } t2 r i3 (contains_false_of_none hn2) hr3
  have hor4 : fLeOr ho (-u) t2 a2 = (.ok r, a4) := by
    unfold fLeOr
    rw [AM.bind_ok (nodeSame_eval hv2), AM.bind_ok h3, AM.bind_ok hw4]
    rfl
  have h12 : t1 ≠ t2 := ne_of_some_none hl2 hn2
  have hl4 : a4.handles[t1]? = some (-u) := by
    rw [hh4, getElem?_insert_ne _ _ _ _ h12]; exact hl2
  have hl4' : a4.handles[t2]? = some r := by rw [hh4]; exact TreeMap.getElem?_insert_self
  -- t1 released
  obtain ⟨a5, hd5, i5, ht5, hh5, _⟩ := drop_spec a4 t1 (-u) i4 hl4
  have hl5 : a5.handles[t2]? = some r := by
    rw [hh5, getElem?_erase_ne _ _ _ (Ne.symm h12)]; exact hl4'
  -- t3 = true
  obtain ⟨t3, hf3, hn3⟩ := freshH_spec a5
  obtain ⟨a6, hw6, i6, ht6, hh6, _⟩ :=
    wrap_spec a5 t3 1 i5 (contains_false_of_none hn3) (Or.inl rfl)
  have h23 : t2 ≠ t3 := ne_of_some_none hl5 hn3
  have hl6 : a6.handles[t2]? = some r := by
    rw [hh6, getElem?_insert_ne _ _ _ _ h23]; exact hl5
  have hl6' : a6.handles[t3]? = some 1 := by rw [hh6]; exact TreeMap.getElem?_insert_self
  obtain ⟨a7, hd7, i7, ht7, hh7, _⟩ := drop_spec a6 t2 r i6 hl6
  have hl7 : a7.handles[t3]? = some 1 := by
    rw [hh7, getElem?_erase_ne _ _ _ (Ne.symm h23)]; exact hl6'
  obtain ⟨a8, hd8, _⟩ := drop_spec a7 t3 1 i7 hl7
  refine ⟨r == 1, a8, ?_, ?_⟩
  · unfold fLe
    rw [AM.bind_ok (nodeOwn_eval hu), AM.bind_ok hf1, AM.bind_ok h1, AM.bind_ok hw2,
      AM.bind_ok hf2]
    have hfin : AM.finally' (fLeOr ho (-u) t2) (drop t1) a2 = (.ok r, a5) := by
      rw [AM.finally_eq, hor4, hd5]
    rw [AM.bind_ok hfin, AM.bind_ok hf3]
    have hon : AM.onErr (wrap t3 1) (drop t2) a5 = (.ok (), a6) := by
      rw [AM.onErr_eq, hw6]
    rw [AM.bind_ok hon, AM.bind_ok hd7, AM.bind_ok hd8]
    rfl
  · have ht : m3.tbl = a4.m.tbl := ht4.symm
    have hO3 : OrderOK m3.tbl := i3.order
    have hW3 : WFU m3.tbl := i3.inv.wf
    have hiff := eq_one_iff_denN hW3 hO3 r hr3
    have hn : ∀ σ, denN a.m.tbl (-u) σ = !denN a.m.tbl u σ :=
      fun σ => den_neg a.m.tbl hi.inv.wf.toWF u _ hmu
    rw [beq_iff_eq, hiff]
    constructor
    · intro h σ hu1
      have := h σ
      rw [hd3 σ, ht2, hn σ, hu1] at this
      simpa using this
    · intro h σ
      rw [hd3 σ, ht2, hn σ]
      cases hx : denN a.m.tbl u σ with
      | false => simp
      | true => simp [h σ hx]

/-- every binary propositional alias, in both modes: the core operation returns, keeps the
invariant, and its result is the documented connective of the operands BY NAME -/
theorem applyBin_ok : ∀ (off : Bool) (b : AMgr), AInv off b → Two off b → ∀ (op : String) (c : Conn),
    docConn op = some c → c.arity = 2 → c ≠ .forall_ → c ≠ .exists_ →
    Gen.allOps.contains op = true → ∀ (j1 j2 : Nat) (v w : Int), b.handles[j1]? = some v →
    b.handles[j2]? = some w →
    CoreKeepsAt off b.m (apply op v (some w) none) ∧
    ∃ r m', apply op v (some w) none b.m = (.ok r, m') ∧ m'.tbl.Mem r ∧
      ∀ σ, denN m'.tbl r σ = c.eval (denN b.m.tbl v σ) (denN b.m.tbl w σ) false
  | true => by
    intro b hb _ op c hc h2 hq1 hq2 hall j1 j2 v w hv hw
    refine ⟨(apply_keepsOff op v (some w) none).at b.m, ?_⟩
    obtain ⟨r, m', he, _, _, hr, hfr, hd⟩ :=
      apply_binary_spec b.m hb.inv (hb.mode rfl) op c hc h2 hq1 hq2 hall v w
        (hb.hmem j1 v hv) (hb.hmem j2 w hw)
    refine ⟨r, m', he, hr, fun σ => ?_⟩
    have hl : m'.tbl.lift σ = b.m.tbl.lift σ := by
      funext i; unfold Tbl.lift Tbl.nameOf; rw [hfr.l2v]
    show den m'.tbl r (m'.tbl.lift σ) = _
    rw [hd, hl]
    rfl
  | false => by
    intro b hb ht op c hc h2 hq1 hq2 hall j1 j2 v w hv hw
    have h := C09_apply_binary_transparent (hext b) b.m (hb.minv.dynInv (ht rfl)) op c hc h2 hq1 hq2 hall
      v w (heldX_of_handle b hv) (heldX_of_handle b hw)
    refine ⟨keepsAtDyn_of b hb h, ?_⟩
    obtain ⟨r, m', he, hp⟩ := h
    exact ⟨r, m', he, hp.doc.1, fun σ => hp.doc.2 σ⟩

theorem orOk_all (off : Bool) : OrOk off := fun b hb ht j1 j2 v w hv hw =>
  applyBin_ok off b hb ht "or" .or (by decide) (by decide) (by decide) (by decide) (by decide)
    j1 j2 v w hv hw

/-- `f.<op>(g)` for a binary propositional alias, both modes: returns; the new `Function`
sits on the node the core operation returned; that node means the documented connective of
the operands by name -/
theorem fApply_binary_value (a : AMgr) (hi : AInv off a) (ht : Two off a) (op : String) (c : Conn)
    (hc : docConn op = some c) (h2 : c.arity = 2) (hq1 : c ≠ .forall_) (hq2 : c ≠ .exists_)
    (hall : Gen.allOps.contains op = true) (hs ho h : Nat)
    (hf : a.handles.contains h = false) (u v : Int)
    (hu : a.handles[hs]? = some u) (hv : a.handles[ho]? = some v) :
    ∃ (r : Int) (a' : AMgr), fApply op hs (some ho) h a = (.ok r, a') ∧
      a'.handles = a.handles.insert h r ∧
      (∃ m1, apply op u (some v) none a.m = (.ok r, m1) ∧ a'.m.tbl = m1.tbl) ∧
      a'.m.tbl.Mem r ∧
      ∀ σ, denN a'.m.tbl r σ = c.eval (denN a.m.tbl u σ) (denN a.m.tbl v σ) false := by
  obtain ⟨hk, r, m1, he, hr, hd⟩ := applyBin_ok off a hi ht op c hc h2 hq1 hq2 hall hs ho u v hu hv
  obtain ⟨a', hx, ht, hh⟩ := fApply_eval a hi op hs ho h hf u v r m1 hu hv hk he hr
  exact ⟨r, a', hx, hh, ⟨m1, he, ht⟩, by rw [ht]; exact hr, fun σ => by rw [ht]; exact hd σ⟩

/-- `f == g`: a comparison of the two integers -/
theorem fEq_eval (a : AMgr) (hs ho : Nat) (u v : Int)
    (hu : a.handles[hs]? = some u) (hv : a.handles[ho]? = some v) :
    fEq hs ho a = (.ok (u == v), a) := by
  unfold fEq
  rw [AM.bind_ok (nodeOwn_eval hu), AM.bind_ok (nodeSame_eval hv)]
  rfl

theorem fNe_eval (a : AMgr) (hs ho : Nat) (u v : Int)
    (hu : a.handles[hs]? = some u) (hv : a.handles[ho]? = some v) :
    fNe hs ho a = (.ok (!(u == v)), a) := by
  unfold fNe
  rw [AM.bind_ok (nodeSame_eval hv), AM.bind_ok (fEq_eval a hs ho u v hu hv)]
  rfl

theorem fLe_keepsAll : ∀ off (hs ho : Nat), AKeeps0 off (fLe hs ho)
  | true, hs, ho => fLe_keepsOff hs ho
  | false, hs, ho => fLe_keepsDynTotal hs ho

theorem fLt_keepsAll : ∀ off (hs ho : Nat), AKeeps0 off (fLt hs ho)
  | true, hs, ho => fLt_keepsOff hs ho
  | false, hs, ho => fLt_keepsDynTotal hs ho

/-- `f < g` returns `f <= g and f != g` -/
theorem fLt_eval (a : AMgr) (hi : AInv off a) (h2 : Two off a) (hs ho : Nat) (u v : Int)
    (hu : a.handles[hs]? = some u) (hv : a.handles[ho]? = some v) :
    ∃ (b : Bool) (a' : AMgr), fLt hs ho a = (.ok b, a') ∧
      (b = true ↔ (∀ σ, denN a.m.tbl u σ = true → denN a.m.tbl v σ = true) ∧
        ¬ ∀ σ, denN a.m.tbl u σ = denN a.m.tbl v σ) := by
  obtain ⟨b, a1, he, hb⟩ := fLe_eval (orOk_all off) a hi h2 hs ho u v hu hv
  obtain ⟨_, hsame, _⟩ := fLe_keepsAll off hs ho a hi _ _ he
  have hq := eq_iff_denN hi.inv.wf hi.order u v (hi.hmem hs u hu) (hi.hmem ho v hv)
  cases b with
  | false =>
    refine ⟨false, a1, ?_, ?_⟩
    · unfold fLt; rw [AM.bind_ok he]; rfl
    · constructor
      · intro h; cases h
      · intro h; exact hb.mpr h.1
  | true =>
    have hu1 : a1.handles[hs]? = some u := by rw [hsame]; exact hu
    have hv1 : a1.handles[ho]? = some v := by rw [hsame]; exact hv
    refine ⟨!(u == v), a1, ?_, ?_⟩
    · unfold fLt; rw [AM.bind_ok he]; exact fNe_eval a1 hs ho u v hu1 hv1
    · rw [← hq]
      have := hb.mp rfl
      simp only [Bool.not_eq_true', beq_eq_false_iff_ne, ne_eq]
      exact ⟨fun h => ⟨this, h⟩, fun h => h.2⟩

/-! ### looking through a `Function` -/

theorem succOf_node {t : Tbl} {u : Int} {n : Nd} (h1 : u.natAbs ≠ 1) (hn : t.succ[u.natAbs]? = some n) :
    succOf t u = .ok (n.lvl, some (n.lo, n.hi)) := by
  unfold succOf
  rw [if_neg h1, hn]

theorem varAtLevel_eval {m : Mgr} (hO : OrderOK m.tbl) {i : Nat} (hi : i < m.tbl.nvars) :
    varAtLevel (i : Int) m = (.ok (m.tbl.nameOf i), m) := by
  obtain ⟨x, hx⟩ := hO.total i hi
  have hn : ¬ ((i : Int) < 0) := by omega
  simp [varAtLevel, bind, M.bind', M.get, hn, M.ofOption, hx, Tbl.nameOf, pure, M.pure']

/-- `f.var` on a non-terminal node: the name at the level of the node -/
theorem fVar_eval (a : AMgr) (hi : AInv off a) (hs : Nat) (u : Int) (n : Nd)
    (hu : a.handles[hs]? = some u) (h1 : u.natAbs ≠ 1) (hn : a.m.tbl.succ[u.natAbs]? = some n) :
    fVar hs a = (.ok (some (a.m.tbl.nameOf n.lvl)), a) := by
  have hl : n.lvl < a.m.tbl.nvars := hi.inv.wf.toWF.lvl_lt _ _ hn
  have h2 : (AM.liftE fun m => succOf m.tbl u) a = (.ok (n.lvl, some (n.lo, n.hi)), a) := by
    show (succOf a.m.tbl u, a) = _; rw [succOf_node h1 hn]
  have h3 := liftM_eval (a := a) (varAtLevel_eval hi.order hl)
  unfold fVar
  rw [AM.bind_ok (nodeOwn_eval hu), AM.bind_ok h2]
  show (AM.liftM (varAtLevel (n.lvl : Int)) >>= fun v => pure (some v)) a = _
  rw [AM.bind_ok h3]
  rfl

theorem fLevel_eval (a : AMgr) (hs : Nat) (u : Int) (n : Nd)
    (hu : a.handles[hs]? = some u) (h1 : u.natAbs ≠ 1) (hn : a.m.tbl.succ[u.natAbs]? = some n) :
    fLevel hs a = (.ok n.lvl, a) := by
  have h2 : (AM.liftE fun m => succOf m.tbl u) a = (.ok (n.lvl, some (n.lo, n.hi)), a) := by
    show (succOf a.m.tbl u, a) = _; rw [succOf_node h1 hn]
  unfold fLevel
  rw [AM.bind_ok (nodeOwn_eval hu), AM.bind_ok h2]
  rfl

/-- `f.low` / `f.high` on a non-terminal node: a new `Function` on the stored child -/
theorem fChild_eval (a : AMgr) (hi : AInv off a) (high : Bool) (hs h : Nat) (u : Int) (n : Nd)
    (hf : a.handles.contains h = false)
    (hu : a.handles[hs]? = some u) (h1 : u.natAbs ≠ 1) (hn : a.m.tbl.succ[u.natAbs]? = some n) :
    ∃ a', fChild high hs h a = (.ok (some (if high then n.hi else n.lo)), a') ∧
      a'.m.tbl = a.m.tbl ∧ a'.handles = a.handles.insert h (if high then n.hi else n.lo) := by
  have h2 : (AM.liftE fun m => succOf m.tbl u) a = (.ok (n.lvl, some (n.lo, n.hi)), a) := by
    show (succOf a.m.tbl u, a) = _; rw [succOf_node h1 hn]
  have hm : a.m.tbl.Mem (if high then n.hi else n.lo) := by
    cases high
    · exact hi.inv.wf.toWF.lo_mem _ _ hn
    · exact hi.inv.wf.toWF.hi_mem _ _ hn
  obtain ⟨a', hw, _, ht, hh, _⟩ := wrapF_spec a h _ hi hf hm
  refine ⟨a', ?_, ht, hh⟩
  unfold fChild
  rw [AM.bind_ok (nodeOwn_eval hu), AM.bind_ok h2]
  show (wrapF h (if high then n.hi else n.lo) >>= fun _ => pure (some (if high then n.hi else n.lo))) a = _
  rw [AM.bind_ok hw]
  rfl

/-- `len(f)` / `f.dag_size`: the number of nodes reachable from the node of `f` -/
theorem fLen_eval (a : AMgr) (hi : AInv off a) (hs : Nat) (u : Int) (hu : a.handles[hs]? = some u) :
    ∃ l : List Nat, fLen hs a = (.ok l.length, a) ∧ l.Pairwise (· < ·) ∧
      (∀ v, v ∈ l ↔ Reach a.m.tbl u.natAbs v) ∧ 1 ∈ l := by
  obtain ⟨l, he, hp, hr, h1⟩ := C18_descendants_spec a.m.tbl hi.inv.wf.toWF [u]
    (fun r hr => by cases hr with | head => exact hi.hmem hs u hu | tail _ h => cases h)
  refine ⟨l, ?_, hp, fun v => ?_, h1 (by simp)⟩
  · have h2 : (AM.liftE fun m => descendants m.tbl [u]) a = (.ok l, a) := by
      show (descendants a.m.tbl [u], a) = _; rw [he]
    unfold fLen
    rw [AM.bind_ok (nodeOwn_eval hu), AM.bind_ok h2]
    rfl
  · rw [hr v]; simp

theorem nodeAny_eval {a : AMgr} {h : Nat} {u : Int} (hu : a.handles[h]? = some u) :
    nodeAny h a = (.ok u, a) := by
  unfold nodeAny; rw [hu]

/-- `bdd.succ(u)` on a non-terminal node: the level and two new `Function`s on the stored
children -/
theorem aSucc_eval (a : AMgr) (hi : AInv off a) (hu h1 h2 : Nat) (hne : h1 ≠ h2)
    (hf1 : a.handles.contains h1 = false) (hf2 : a.handles.contains h2 = false)
    (u : Int) (n : Nd) (hl : a.handles[hu]? = some u) (h1' : u.natAbs ≠ 1)
    (hn : a.m.tbl.succ[u.natAbs]? = some n) :
    ∃ a', aSucc hu h1 h2 a = (.ok (n.lvl, some (n.lo, n.hi)), a') ∧ a'.m.tbl = a.m.tbl ∧
      a'.handles = (a.handles.insert h1 n.lo).insert h2 n.hi := by
  have hp : (AM.liftE fun m => succOf m.tbl u) a = (.ok (n.lvl, some (n.lo, n.hi)), a) := by
    show (succOf a.m.tbl u, a) = _; rw [succOf_node h1' hn]
  obtain ⟨a1, hw1, i1, ht1, hh1, _⟩ := wrap_spec a h1 n.lo hi hf1 (hi.inv.wf.toWF.lo_mem _ _ hn)
  have hf2' : a1.handles.contains h2 = false := by
    rw [hh1, TreeMap.contains_insert, hf2]
    simp [Nat.compare_eq_eq, hne]
  obtain ⟨a2, hw2, _, ht2, hh2, _⟩ := wrap_spec a1 h2 n.hi i1 hf2'
    (by rw [ht1]; exact hi.inv.wf.toWF.hi_mem _ _ hn)
  refine ⟨a2, ?_, ht2.trans ht1, by rw [hh2, hh1]⟩
  have hsw : aSuccWrap h1 h2 n.lo n.hi a = (.ok (), a2) := by
    unfold aSuccWrap
    rw [AM.bind_ok hw1, AM.onErr_eq, hw2]
  unfold aSucc
  rw [AM.bind_ok (nodeAny_eval hl), AM.bind_ok hp]
  show (aSuccWrap h1 h2 n.lo n.hi >>= fun _ => pure (n.lvl, some (n.lo, n.hi))) a = _
  rw [AM.bind_ok hsw]
  rfl

/-! ### helpers for the statements -/

theorem fApply_keepsAll : ∀ (off : Bool) (op : String) (hs : Nat) (ho : Option Nat) (h : Nat),
    AKeeps off h (fApply op hs ho h)
  | true, op, hs, ho, h => fApply_keepsOff op hs ho h
  | false, op, hs, ho, h => fApply_keepsDynTotal op hs ho h

/-- a stored non-terminal reference has a node -/
theorem node_of_mem {t : Tbl} {u : Int} (hm : t.Mem u) (h1 : u.natAbs ≠ 1) :
    ∃ n, t.succ[u.natAbs]? = some n := by
  rcases hm with h | h
  · exact absurd h h1
  · exact Option.isSome_iff_exists.mp h

end DD
