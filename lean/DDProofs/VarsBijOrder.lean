/-
  DDProofs.VarsBijOrder — the order invariant of reachable managers (`OrderOK`, C14) is the
  bijection `VarsBij` with which the substitution / parser theorems are stated.
  (General lemma; it used to sit in DDProps/C05.lean.)
-/
import DDProofs.VarsProofs
import DDProofs.LetCopy
open Std
namespace DD

theorem VarsBij.ofOrderOK {t : Tbl} (h : OrderOK t) : VarsBij t :=
  ⟨fun v i hv => (h.inv v i).mp hv, fun i v hl => (h.inv v i).mpr hl, h.lt,
   fun i hi => by obtain ⟨v, hv⟩ := h.total i hi; exact ⟨v, (h.inv v i).mpr hv⟩⟩

/-- … and back -/
theorem OrderOK.ofVarsBij {t : Tbl} (h : VarsBij t) : OrderOK t :=
  ⟨fun v i => ⟨h.v2l v i, h.l2v i v⟩, h.lt,
   fun i hi => by obtain ⟨v, hv⟩ := h.onto i hi; exact ⟨v, h.v2l v i hv⟩⟩

end DD
