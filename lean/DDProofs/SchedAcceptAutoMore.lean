/-
  DDProofs.SchedAcceptAutoMore — the remaining methods of the autoref layer and recorded schedules.
  `BDD.succ`, `Function.low` / `.high` make no call that can reorder: they are natural in the
  recorded schedule (`ASN`: for EVERY schedule they run as with none and leave it untouched).
  `BDD.copy(u, other)` and module `copy_bdd(u, target)` between two managers serve reorderings in
  the target through the decorated `copy_bdd`: they accept every valid choice of iteration orders.
-/
import DD.AutoChoiceMore
import DDProofs.SchedAcceptAuto
open Std

namespace DD

theorem ASN.liftE {α} (x : Mgr → Except Err α) (hx : ∀ s m, x (setS s m) = x m)
    (hn : ∀ m, x m ≠ .error .sched) : ASN (AM.liftE x) := by
  intro s a
  show (x (setS s a.m), setSA s a) = _ ∧ _
  rw [hx]
  exact ⟨rfl, hn a.m⟩

theorem drop_asn (h : Nat) : ASN (drop h) := by
  intro s a
  unfold drop
  show (match a.handles[h]? with
    | none => ((Except.error Err.other : Except Err Unit), setSA s a)
    | some u => (.ok (), { setSA s a with m := (decref u (setS s a.m)).2, handles := a.handles.erase h })) = _ ∧ _
  cases a.handles[h]? with
  | none => exact ⟨rfl, fun h => by cases h⟩
  | some u =>
    simp only
    rw [decref_sn u s a.m]
    exact ⟨rfl, fun h => by cases h⟩

theorem ASN.onErr {α} {x : AM α} {cl : AM Unit} (hx : ASN x) (hc : ASN cl) : ASN (AM.onErr x cl) := by
  intro s a
  obtain ⟨h1, h2⟩ := hx s a
  show (match x (setSA s a) with
    | (.ok v, a') => ((Except.ok v : Except Err α), a')
    | (.error e, a') => (.error e, (cl a').2)) = _ ∧ _
  rw [h1]
  show _ = ((AM.onErr x cl a).1, setSA s (AM.onErr x cl a).2) ∧ (AM.onErr x cl a).1 ≠ _
  unfold AM.onErr
  generalize x a = r at h2
  obtain ⟨r, a1⟩ := r
  cases r with
  | ok v => exact ⟨rfl, fun h => by cases h⟩
  | error e =>
    simp only
    rw [(hc s a1).1]
    exact ⟨rfl, fun h' => h2 (by cases h'; rfl)⟩

theorem succOf_ne {t : Tbl} {u : Int} {e : Err} (h : succOf t u = .error e) : e ≠ .sched := by
  unfold succOf at h
  split at h
  · cases h
  · split at h
    · cases h; exact fun h => by cases h
    · cases h

theorem succOf_asn (u : Int) : ASN (AM.liftE fun m => succOf m.tbl u) :=
  ASN.liftE _ (fun _ _ => rfl) (fun m h => succOf_ne h rfl)

/-- `BDD.succ(u)` never looks at the recorded schedule -/
theorem aSucc_asn (hu h1 h2 : Nat) : ASN (aSucc hu h1 h2) := by
  unfold aSucc
  refine ASN.bind (nodeAny_asn hu) (fun u => ?_)
  refine ASN.bind (succOf_asn u) (fun p => ?_)
  cases p.2 with
  | none => exact ASN.pure _
  | some vw =>
    obtain ⟨v, w⟩ := vw
    refine ASN.bind ?_ (fun _ => ASN.pure _)
    unfold aSuccWrap
    exact ASN.bind (wrap_asn h1 v) (fun _ => ASN.onErr (wrap_asn h2 w) (drop_asn h1))

/-- `Function.low` / `Function.high` never look at the recorded schedule -/
theorem fChild_asn (high : Bool) (hs h : Nat) : ASN (fChild high hs h) := by
  unfold fChild
  refine ASN.bind (nodeOwn_asn hs) (fun s => ?_)
  refine ASN.bind (succOf_asn s) (fun p => ?_)
  obtain ⟨i, c⟩ := p
  cases c with
  | none => exact ASN.pure _
  | some vw =>
    obtain ⟨v, w⟩ := vw
    exact ASN.bind (wrapF_asn h _) (fun _ => ASN.pure _)

/-- a method that never looks at the schedule accepts every choice, with the empty record -/
theorem AAccepts.of_asn {α} {x : AM α} (hx : ASN x) (a : AMgr) :
    AAccepts (x >>= fun r => (Pure.pure (r, []) : AM (α × List SchedItem))) x a := by
  refine ⟨[], fun r log' h => ?_, fun rest => ?_, fun rest => ?_⟩
  · rw [AM.bind_eq] at h
    generalize x a = rx at h
    obtain ⟨rx, a1⟩ := rx
    cases rx with
    | error e => cases h
    | ok v => cases h; rfl
  · rw [List.nil_append, (hx rest a).1, AM.bind_eq]
    generalize x a = rx
    obtain ⟨rx, a1⟩ := rx
    cases rx <;> rfl
  · rw [List.nil_append, (hx rest a).1]
    exact (hx rest a).2

theorem AAccepts.err {α} (e : Err) (he : e ≠ .sched) {XC : AM (α × List SchedItem)} {X : AM α} {a : AMgr}
    (h1 : XC a = (.error e, a)) (h2 : ∀ s, X (setSA s a) = (.error e, setSA s a)) : AAccepts XC X a := by
  refine ⟨[], fun r log' h => ?_, fun rest => ?_, fun rest => ?_⟩
  · rw [h1] at h; cases h
  · rw [h1, h2]; rfl
  · rw [h2]; exact fun h => he (by cases h; rfl)

/-- `BDD.copy(u, other)` into another manager accepts every valid choice (of the TARGET's orders) -/
theorem aCopyTo_accepts (ext : Nat → Nat) (c : Choice) (hc : c.Valid) (dst : AMgr)
    (hD : DynInvS ext dst.m) (src : AMgr) (hu h : Nat) :
    AAccepts (aCopyToC c src hu h) (aCopyTo src hu h) dst := by
  have hn := (nodeIn_asn hu [] src).2
  cases hres : nodeIn hu src with
  | mk r a1 =>
    cases r with
    | error e =>
      rw [hres] at hn
      refine AAccepts.err e (fun he => hn (by rw [he])) ?_ (fun s => ?_)
      · unfold aCopyToC; rw [hres]
      · unfold aCopyTo; rw [hres]
    | ok u =>
      refine (wrapResult_accepts h (copyBdd_accepts ext c hc dst.m hD src.m.tbl u)).congr ?_ (fun s => ?_)
      · unfold aCopyToC; rw [hres]
      · unfold aCopyTo; rw [hres]; rfl

/-- module `copy_bdd(u, target)` into another manager accepts every valid choice -/
theorem aCopyBddTo_accepts (ext : Nat → Nat) (c : Choice) (hc : c.Valid) (dst : AMgr)
    (hD : DynInvS ext dst.m) (src : AMgr) (hu h : Nat) :
    AAccepts (aCopyBddToC c src hu h) (aCopyBddTo src hu h) dst := by
  have hn := (nodeOwn_asn hu [] src).2
  cases hres : nodeOwn hu src with
  | mk r a1 =>
    cases r with
    | error e =>
      rw [hres] at hn
      refine AAccepts.err e (fun he => hn (by rw [he])) ?_ (fun s => ?_)
      · unfold aCopyBddToC; rw [hres]
      · unfold aCopyBddTo; rw [hres]
    | ok u =>
      refine (wrapResult_accepts h (copyBdd_accepts ext c hc dst.m hD src.m.tbl u)).congr ?_ (fun s => ?_)
      · unfold aCopyBddToC; rw [hres]
      · unfold aCopyBddTo; rw [hres]; rfl

end DD
