/-
  DDProofs.SiftFinal — the sifting contract `SiftEnv2` discharged: swaps leave no unreferenced
  node, the full collection removes them all, and the number of nodes is a function of the order
  and of the held functions (`len_determined`).  Hence `reorder(bdd)` never raises.
-/
import DDProofs.SwapDrivers
import DDProofs.SiftTotal
import DDProofs.SizeCanon
open Std

namespace DD

/-- no node with reference count 0 (what a full collection establishes) -/
def NoGarbage (m : Mgr) : Prop := ∀ k : Nat, m.ref[k]? ≠ some 0

/-- equal name-denotations under the same order are equal level-denotations -/
theorem den_of_denN {t1 t2 : Tbl} (h1 : WF t1) (h2 : WF t2) (o1 : OrderOK t1)
    (hn : t1.nvars = t2.nvars) (hl : ∀ j : Nat, t1.l2v[j]? = t2.l2v[j]?) (u : Int)
    (hu1 : t1.Mem u) (hu2 : t2.Mem u) (hd : ∀ σ, denN t1 u σ = denN t2 u σ) (b : Asg) :
    den t1 u b = den t2 u b := by
  let σ : String → Bool := fun v => b ((t1.vars[v]?).getD 0)
  have hlift : t2.lift σ = t1.lift σ := by
    funext i
    simp only [Tbl.lift, Tbl.nameOf, hl]
  have hag : ∀ i, i < t1.nvars → t1.lift σ i = b i := by
    intro i hi
    obtain ⟨v, hv, hvi⟩ := o1.name_at hi
    simp only [Tbl.lift, Tbl.nameOf, hv, Option.getD_some, σ, hvi]
  have e1 : den t1 u b = den t1 u (t1.lift σ) :=
    den_agree' t1 h1 u hu1 _ _ (fun i hi => (hag i hi).symm)
  have e2 : den t2 u (t1.lift σ) = den t2 u b :=
    den_agree' t2 h2 u hu2 _ _ (fun i hi => hag i (by omega))
  have e3 := hd σ
  unfold denN at e3
  rw [hlift] at e3
  rw [e1, e3, e2]

theorem reorder_size (ext : Nat → Nat) (m0 m1 m2 : Mgr) (h1 : ReorderInv ext m1 ∧ NoGarbage m1)
    (h2 : ReorderInv ext m2 ∧ NoGarbage m2) (r1 : ReorderRel ext m0 m1) (r2 : ReorderRel ext m0 m2)
    (hn : m1.nvars = m2.nvars) (hl : ∀ j : Nat, m1.tbl.l2v[j]? = m2.tbl.l2v[j]?) : m1.len = m2.len := by
  apply len_determined m1 m2 ext h1.1.inv h2.1.inv h1.1.refExact h2.1.refExact h1.2 h2.2 hn
  intro u hu b
  apply den_of_denN h1.1.inv.wf.toWF h2.1.inv.wf.toWF h1.1.order hn hl (u : Int)
    (h1.1.held_mem hu) (h2.1.held_mem hu)
  intro σ
  rw [r1.held u hu σ, r2.held u hu σ]

theorem siftEnv2 (ext : Nat → Nat) :
    SiftEnv2 SchedErr (ReorderInv ext) (fun m => ReorderInv ext m ∧ NoGarbage m) (ReorderRel ext) := by
  have S := swapOK ext
  refine { refl := S.refl, trans := S.trans, vars := fun m h => h.1.order,
           roots := fun m h => S.roots m h.1, step := ?_, gc := ?_, sched := ?_,
           order := fun m _ => takeSiftOrder_outcome m,
           size := fun m0 m1 m2 h1 h2 r1 r2 hn hl => reorder_size ext m0 m1 m2 h1 h2 r1 r2 hn hl }
  · intro m i h hi
    refine OkOr.mono ?_ (swapBody_spec m ext h.1.inv h.1.order h.1.refExact h.1.off i hi)
    intro r m' ⟨hp, hsch⟩
    refine ⟨⟨⟨hp.inv, hp.order, hp.refExact, ?_, ?_⟩, hp.noZero h.2⟩,
      ⟨?_, hp.names, hp.exch.nvars, hp.exch.roots, hp.ctx, hp.lastLen, hsch⟩, hp.exch, hp.sizes⟩
    · rw [hp.ctx, hp.lastLen]; exact h.1.off
    · rw [hp.exch.roots]; exact h.1.rootsHeld
    · intro u hu a
      obtain ⟨h0, h1⟩ := hp.held u hu
      exact hp.denN _ h0 h1 a
  · intro m h
    obtain ⟨m', hrun, hp⟩ := collectGarbage_spec m ext h.inv h.refExact
    obtain ⟨a, b⟩ := gcSub_keeps h hp.inv hp.refExact hp.sub
    exact ⟨m', hrun, ⟨a, hp.noZero⟩, b, hp.sub.vars⟩
  · intro m s h hs0
    exact ⟨⟨⟨h.1.inv.setSched s, h.1.order, h.1.refExact.congr rfl rfl, h.1.off, h.1.rootsHeld⟩, h.2⟩,
      ⟨fun u _ a => rfl, fun _ => rfl, rfl, rfl, rfl, rfl, hs0⟩⟩

/-- the same contract with no recorded schedule: no exception at all -/
theorem siftEnv2_default (ext : Nat → Nat) :
    SiftEnv2 NoErr (fun m => ReorderInv ext m ∧ m.sched = [])
      (fun m => (ReorderInv ext m ∧ NoGarbage m) ∧ m.sched = []) (ReorderRel ext) := by
  have S := swapOK ext
  refine { refl := S.refl, trans := S.trans, vars := fun m h => h.1.1.order,
           roots := fun m h => S.roots m h.1.1, step := ?_, gc := ?_, sched := ?_, order := ?_,
           size := fun m0 m1 m2 h1 h2 r1 r2 hn hl => reorder_size ext m0 m1 m2 h1.1 h2.1 r1 r2 hn hl }
  · intro m i h hi
    obtain ⟨r, m', hrun, hp, hs'⟩ :=
      swapBody_total m ext h.1.1.inv h.1.1.order h.1.1.refExact h.1.1.off i hi h.2
    rw [hrun]
    refine ⟨⟨⟨⟨hp.inv, hp.order, hp.refExact, ?_, ?_⟩, hp.noZero h.1.2⟩, hs'⟩,
      ⟨?_, hp.names, hp.exch.nvars, hp.exch.roots, hp.ctx, hp.lastLen, fun _ => hs'⟩, hp.exch, hp.sizes⟩
    · rw [hp.ctx, hp.lastLen]; exact h.1.1.off
    · rw [hp.exch.roots]; exact h.1.1.rootsHeld
    · intro u hu a
      obtain ⟨h0, h1⟩ := hp.held u hu
      exact hp.denN _ h0 h1 a
  · intro m h
    obtain ⟨m', hrun, hp⟩ := collectGarbage_spec m ext h.1.inv h.1.refExact
    obtain ⟨a, b⟩ := gcSub_keeps h.1 hp.inv hp.refExact hp.sub
    exact ⟨m', hrun, ⟨⟨a, hp.noZero⟩, b.sched h.2⟩, b, hp.sub.vars⟩
  · intro m s h hs0
    have hs : s = [] := hs0 h.2
    subst hs
    exact ⟨⟨⟨⟨h.1.1.inv.setSched [], h.1.1.order, h.1.1.refExact.congr rfl rfl, h.1.1.off, h.1.1.rootsHeld⟩,
      h.1.2⟩, rfl⟩, ⟨fun u _ a => rfl, fun _ => rfl, rfl, rfl, rfl, rfl, fun _ => rfl⟩⟩
  · intro m h
    have := takeSiftOrder_outcome m
    have ht : takeSiftOrder m = (.ok m.tbl.vars.keys, m) := by
      unfold takeSiftOrder
      simp only [M.bind_eq, M.get_eq, h.2, M.pure_eq]
    rw [ht] at this ⊢
    exact this

/-- **`reorder(bdd)` (sifting) never raises**: with at least two variables, for every schedule -/
theorem applySifting_never_raises (ext : Nat → Nat) (m : Mgr) (h : ReorderInv ext m)
    (h2 : 2 ≤ m.nvars) :
    OkOrSched (fun _ m' => (ReorderInv ext m' ∧ NoGarbage m') ∧ ReorderRel ext m m') (applySifting m) :=
  applySifting_total (siftEnv2 ext) m h h2

/-- … and with no recorded schedule it returns normally -/
theorem applySifting_total_default (ext : Nat → Nat) (m : Mgr) (h : ReorderInv ext m)
    (h2 : 2 ≤ m.nvars) (hs : m.sched = []) :
    ∃ m', applySifting m = (.ok (), m') ∧ (ReorderInv ext m' ∧ NoGarbage m') ∧ m'.sched = [] ∧
      ReorderRel ext m m' := by
  obtain ⟨_, m', hrun, hp⟩ := (applySifting_total (siftEnv2_default ext) m ⟨h, hs⟩ h2).total
  exact ⟨m', hrun, hp.1.1, hp.1.2, hp.2⟩

end DD
