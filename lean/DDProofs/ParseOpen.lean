/-
  DDProofs.ParseOpen — a wider printer: ANY number of redundant parentheses around every
  sub-formula, and binders (`\A`, `\E`, `\S`) left unparenthesised as right operand / operand
  of `~` wherever nothing but a closing token follows (they extend as far to the right as
  possible).  `parse (printTop ex t) = some t`.
-/
import DDProofs.ParseProofs
namespace DD
open Tok

def parenN : Nat → List Tok → List Tok
  | 0, l => l
  | n + 1, l => .lparen :: (parenN n l ++ [.rparen])

def Ast.isBinder : Ast → Bool
  | .quant _ _ _ => true
  | .subst _ _ => true
  | _ => false

/-- an operand: `n` redundant pairs of parentheses, at least one pair when `need`ed; inside
parentheses the operand is at the right edge (`inner true`) -/
def wrapP (n : Nat) (need : Bool) (inner : Bool → List Tok) (edge : Bool) : List Tok :=
  if need || decide (0 < n) then parenN (max 1 n) (inner true) else inner edge

/-- tokens of a tree; `edge` = nothing but a closing token (`)`, `,`, end) follows, so that a
binder may stand unparenthesised as right operand or operand of `~`; `ex e` = number of
redundant parentheses around the sub-formula `e` -/
def printO (ex : Ast → Nat) : Bool → Ast → List Tok
  | _, .var x => [.name x]
  | _, .bool true => [.tt]
  | _, .bool false => [.ff]
  | _, .num false d => [.at, .number d]
  | _, .num true d => [.at, .op .minus, .number d]
  | edge, .not e =>
    .not :: wrapP (ex e) (decide (e.lvl < notPrec) && !(edge && e.isBinder)) (fun b => printO ex b e) edge
  | edge, .bin o l r =>
    wrapP (ex l) (decide (l.lvl < o.prec)) (fun b => printO ex b l) false ++
      .op o :: wrapP (ex r) (decide (r.lvl < o.prec + 1) && !(edge && r.isBinder)) (fun b => printO ex b r) edge
  | _, .ite a b c =>
    .ite :: .lparen :: (wrapP (ex a) false (fun e => printO ex e a) true ++ .comma ::
      (wrapP (ex b) false (fun e => printO ex e b) true ++ .comma ::
        (wrapP (ex c) false (fun e => printO ex e c) true ++ [.rparen])))
  | edge, .quant fa ns e =>
    (if fa then .forall_ else .exists_) :: (printNames ns ++ wrapP (ex e) false (fun b => printO ex b e) edge)
  | edge, .subst ss e => .rename :: (printSubs ss ++ wrapP (ex e) false (fun b => printO ex b e) edge)

/-- a whole formula -/
def printTop (ex : Ast → Nat) (t : Ast) : List Tok := wrapP (ex t) false (fun b => printO ex b t) true

/-- reading the unparenthesised `t` at level `p`, then whatever follows, is continuing the
operator loop with `t`; at the edge no operator follows at all -/
def SpecO (ex : Ast → Nat) (t : Ast) : Prop :=
  ∀ (edge : Bool) (p f : Nat) (rest : List Tok) (res : PRes (Ast × List Tok)),
    fitsP p t → (printO ex edge t ++ rest).length < f → followOk rest = true →
    stops (if edge then 1 else t.lvl + 1) rest →
    (∀ f', rest.length < f' → parseLoop f' p t rest = res) →
    parseExpr f p (printO ex edge t ++ rest) = res

theorem fitsP_zero (t : Ast) : fitsP 0 t := by cases t <;> simp [fitsP]

theorem specO_parenN {ex : Ast → Nat} {t : Ast} (h : SpecO ex t) :
    ∀ (m : Nat), 1 ≤ m → ∀ (p f : Nat) (rest : List Tok) (res : PRes (Ast × List Tok)),
    (parenN m (printO ex true t) ++ rest).length < f → followOk rest = true →
    (∀ f', rest.length < f' → parseLoop f' p t rest = res) →
    parseExpr f p (parenN m (printO ex true t) ++ rest) = res := by
  intro m
  induction m with
  | zero => intro h0; omega
  | succ m ih =>
    intro _ p f rest res hf hfol hk
    obtain ⟨f0, rfl⟩ := fuel_succ hf
    have e : parenN (m + 1) (printO ex true t) ++ rest =
        .lparen :: (parenN m (printO ex true t) ++ .rparen :: rest) := by simp [parenN]
    rw [e] at hf ⊢
    have hin : parseExpr f0 0 (parenN m (printO ex true t) ++ .rparen :: rest) = .ok (t, .rparen :: rest) := by
      cases m with
      | zero =>
        apply h true 0 f0 (.rparen :: rest) _ (fitsP_zero t)
        · simp [parenN] at hf ⊢; omega
        · rfl
        · trivial
        · exact loop_stops' _ _ _ trivial
      | succ m' =>
        apply ih (by omega) 0 f0 (.rparen :: rest)
        · simp at hf ⊢; omega
        · rfl
        · exact loop_stops' _ _ _ trivial
    rw [parseExpr_eq, prefix_lparen, hin]
    simp only [bindF_ok, closeParen, atomDone, hfol, if_true]
    apply hk
    simp at hf ⊢; omega

theorem specO_wrapP {ex : Ast → Nat} {t : Ast} (h : SpecO ex t) (n : Nat) (need edge : Bool)
    (p f : Nat) (rest : List Tok) (res : PRes (Ast × List Tok))
    (hb : need = false → n = 0 → fitsP p t ∧ stops (if edge then 1 else t.lvl + 1) rest)
    (hf : (wrapP n need (fun b => printO ex b t) edge ++ rest).length < f)
    (hfol : followOk rest = true)
    (hk : ∀ f', rest.length < f' → parseLoop f' p t rest = res) :
    parseExpr f p (wrapP n need (fun b => printO ex b t) edge ++ rest) = res := by
  unfold wrapP at hf ⊢
  split
  · rename_i hc
    rw [if_pos hc] at hf
    exact specO_parenN h _ (Nat.le_max_left 1 n) p f rest res hf hfol hk
  · rename_i hc
    rw [if_neg hc] at hf
    simp only [Bool.or_eq_true, decide_eq_true_eq, not_or, Bool.not_eq_true, Nat.not_lt, Nat.le_zero_eq] at hc
    obtain ⟨h1, h2⟩ := hb hc.1 hc.2
    exact h edge p f rest res h1 hf hfol h2 hk

theorem stops_one_mono {rest : List Tok} (h : stops 1 rest) (q : Nat) : stops (q + 1) rest :=
  stops_mono h (by omega)

theorem stops_edge {edge : Bool} {l : Nat} {rest : List Tok} (h : stops (if edge then 1 else l + 1) rest) :
    stops (l + 1) rest := by
  cases edge
  · simpa using h
  · exact stops_one_mono (by simpa using h) l

theorem specO (ex : Ast → Nat) : ∀ t : Ast, t.WF → SpecO ex t := by
  intro t
  induction t with
  | var x =>
    intro _ edge p f rest res _ hf hfol _ hk
    obtain ⟨f0, rfl⟩ := fuel_succ hf
    simp only [printO, List.cons_append, List.nil_append] at hf ⊢
    rw [parseExpr_eq, prefix_name]
    simp only [atomDone, hfol, if_true, bindF_ok]
    apply hk; simp at hf; omega
  | bool b =>
    intro _ edge p f rest res _ hf hfol _ hk
    obtain ⟨f0, rfl⟩ := fuel_succ hf
    cases b
    · simp only [printO, List.cons_append, List.nil_append] at hf ⊢
      rw [parseExpr_eq, prefix_ff]
      simp only [atomDone, hfol, if_true, bindF_ok]
      apply hk; simp at hf; omega
    · simp only [printO, List.cons_append, List.nil_append] at hf ⊢
      rw [parseExpr_eq, prefix_tt]
      simp only [atomDone, hfol, if_true, bindF_ok]
      apply hk; simp at hf; omega
  | num neg d =>
    intro _ edge p f rest res _ hf hfol _ hk
    obtain ⟨f0, rfl⟩ := fuel_succ hf
    cases neg
    · simp only [printO, List.cons_append, List.nil_append] at hf ⊢
      rw [parseExpr_eq, prefix_at]
      simp only [atomDone, hfol, if_true, bindF_ok]
      apply hk; simp at hf; omega
    · simp only [printO, List.cons_append, List.nil_append] at hf ⊢
      rw [parseExpr_eq, prefix_at_minus]
      simp only [atomDone, hfol, if_true, bindF_ok]
      apply hk; simp at hf; omega
  | not e ih =>
    intro hwf edge p f rest res _ hf hfol hst hk
    obtain ⟨f0, rfl⟩ := fuel_succ hf
    simp only [printO, List.cons_append] at hf ⊢
    rw [parseExpr_eq, prefix_not]
    have hin : parseExpr f0 notPrec
        (wrapP (ex e) (decide (e.lvl < notPrec) && !(edge && e.isBinder)) (fun b => printO ex b e) edge ++ rest) =
        .ok (e, rest) := by
      apply specO_wrapP (ih hwf) _ _ edge notPrec f0 rest
      · intro hb _
        simp only [Bool.and_eq_false_iff, decide_eq_false_iff_not, Nat.not_lt, Bool.not_eq_false',
          Bool.and_eq_true] at hb
        rcases hb with hb | ⟨he, hbind⟩
        · refine ⟨?_, ?_⟩
          · cases e with
            | bin o _ _ =>
              have := binop_prec_lt_not o
              simp [Ast.lvl] at hb
              omega
            | _ => simp [fitsP]
          · cases edge
            · exact stops_mono (stops_not rest) (by simp; omega)
            · simpa using hst
        · subst he
          refine ⟨by cases e <;> simp [fitsP, Ast.isBinder] at hbind ⊢, by simpa using hst⟩
      · simp at hf ⊢; omega
      · exact hfol
      · exact loop_stops' _ _ _ (stops_not rest)
    rw [hin]
    simp only [bindF_ok]
    apply hk; simp at hf; omega
  | bin o l r ihl ihr =>
    intro hwf edge p f rest res hfit hf hfol hst hk
    obtain ⟨hwl, hwr⟩ := hwf
    simp only [printO, List.append_assoc, List.cons_append] at hf ⊢
    simp only [fitsP] at hfit
    have hst' : stops (o.prec + 1) rest := by
      have := stops_edge (l := o.prec) hst
      simpa [Ast.lvl] using this
    apply specO_wrapP (ihl hwl) _ _ false p f _ res
    · intro hb _
      simp at hb
      refine ⟨?_, ?_⟩
      · cases l <;> simp [fitsP]
        simp [Ast.lvl] at hb
        omega
      · simp [stops]; omega
    · exact hf
    · rfl
    · intro f' hf'
      obtain ⟨f0, rfl⟩ := fuel_succ hf'
      rw [loop_op, if_pos hfit]
      have hin : parseExpr f0 (o.prec + 1)
          (wrapP (ex r) (decide (r.lvl < o.prec + 1) && !(edge && r.isBinder)) (fun b => printO ex b r) edge ++ rest) =
          .ok (r, rest) := by
        apply specO_wrapP (ihr hwr) _ _ edge (o.prec + 1) f0 rest
        · intro hb _
          simp only [Bool.and_eq_false_iff, decide_eq_false_iff_not, Nat.not_lt, Bool.not_eq_false',
            Bool.and_eq_true] at hb
          rcases hb with hb | ⟨he, hbind⟩
          · refine ⟨?_, ?_⟩
            · cases r <;> simp [fitsP]
              simp [Ast.lvl] at hb
              omega
            · cases edge
              · exact stops_mono hst' (by simp; omega)
              · simpa using hst
          · subst he
            refine ⟨by cases r <;> simp [fitsP, Ast.isBinder] at hbind ⊢, by simpa using hst⟩
        · simp at hf' ⊢; omega
        · exact hfol
        · exact loop_stops' _ _ _ hst'
      rw [hin]
      simp only [bindF_ok]
      apply hk
      simp at hf'; omega
  | ite a b c iha ihb ihc =>
    intro hwf edge p f rest res _ hf hfol _ hk
    obtain ⟨hwa, hwb, hwc⟩ := hwf
    obtain ⟨f0, rfl⟩ := fuel_succ hf
    simp only [printO, List.append_assoc, List.cons_append, List.nil_append] at hf ⊢
    rw [parseExpr_eq, prefix_ite]
    have ha : parseExpr f0 0 (wrapP (ex a) false (fun e => printO ex e a) true ++ .comma ::
        (wrapP (ex b) false (fun e => printO ex e b) true ++
        .comma :: (wrapP (ex c) false (fun e => printO ex e c) true ++ .rparen :: rest))) =
        .ok (a, .comma :: (wrapP (ex b) false (fun e => printO ex e b) true ++
        .comma :: (wrapP (ex c) false (fun e => printO ex e c) true ++ .rparen :: rest))) := by
      apply specO_wrapP (iha hwa) _ _ true 0 f0
      · intro _ _; exact ⟨fitsP_zero a, trivial⟩
      · simp at hf ⊢; omega
      · rfl
      · exact loop_stops' _ _ _ trivial
    have hb : parseExpr f0 0 (wrapP (ex b) false (fun e => printO ex e b) true ++
        .comma :: (wrapP (ex c) false (fun e => printO ex e c) true ++ .rparen :: rest)) =
        .ok (b, .comma :: (wrapP (ex c) false (fun e => printO ex e c) true ++ .rparen :: rest)) := by
      apply specO_wrapP (ihb hwb) _ _ true 0 f0
      · intro _ _; exact ⟨fitsP_zero b, trivial⟩
      · simp at hf ⊢; omega
      · rfl
      · exact loop_stops' _ _ _ trivial
    have hc : parseExpr f0 0 (wrapP (ex c) false (fun e => printO ex e c) true ++ .rparen :: rest) =
        .ok (c, .rparen :: rest) := by
      apply specO_wrapP (ihc hwc) _ _ true 0 f0
      · intro _ _; exact ⟨fitsP_zero c, trivial⟩
      · simp at hf ⊢; omega
      · rfl
      · exact loop_stops' _ _ _ trivial
    rw [ha]
    simp only [bindF_ok, expectComma]
    rw [hb]
    simp only [bindF_ok]
    rw [hc]
    simp only [bindF_ok, closeIte, atomDone, hfol, if_true]
    apply hk; simp at hf; omega
  | quant fa ns e ih =>
    intro hwf edge p f rest res _ hf hfol hst hk
    obtain ⟨hns, hwe⟩ := hwf
    obtain ⟨f0, rfl⟩ := fuel_succ hf
    have hst1 : stops 1 rest := by cases edge <;> simpa [Ast.lvl] using hst
    have hstb : stops bodyPrec rest := by rw [bodyPrec_eq]; exact hst1
    have hin : parseExpr f0 bodyPrec (wrapP (ex e) false (fun b => printO ex b e) edge ++ rest) = .ok (e, rest) := by
      apply specO_wrapP (ih hwe) _ _ edge bodyPrec f0 rest
      · intro _ _
        refine ⟨?_, ?_⟩
        · cases e <;> simp [fitsP]
          rw [bodyPrec_eq]; exact binop_prec_pos _
        · cases edge
          · exact stops_one_mono hst1 _
          · exact hst1
      · simp [printO] at hf ⊢; omega
      · exact hfol
      · exact loop_stops' _ _ _ hstb
    cases fa
    · simp only [printO, List.append_assoc, List.cons_append, Bool.false_eq_true, if_false] at hf ⊢
      rw [parseExpr_eq, prefix_exists, parseNames_print ns _ hns]
      simp only [bindF_ok]
      rw [hin]
      simp only [bindF_ok]
      apply hk; simp at hf; omega
    · simp only [printO, List.append_assoc, List.cons_append, if_true] at hf ⊢
      rw [parseExpr_eq, prefix_forall, parseNames_print ns _ hns]
      simp only [bindF_ok]
      rw [hin]
      simp only [bindF_ok]
      apply hk; simp at hf; omega
  | subst ss e ih =>
    intro hwf edge p f rest res _ hf hfol hst hk
    obtain ⟨hss, hwe⟩ := hwf
    obtain ⟨f0, rfl⟩ := fuel_succ hf
    have hst1 : stops 1 rest := by cases edge <;> simpa [Ast.lvl] using hst
    have hstb : stops bodyPrec rest := by rw [bodyPrec_eq]; exact hst1
    have hin : parseExpr f0 bodyPrec (wrapP (ex e) false (fun b => printO ex b e) edge ++ rest) = .ok (e, rest) := by
      apply specO_wrapP (ih hwe) _ _ edge bodyPrec f0 rest
      · intro _ _
        refine ⟨?_, ?_⟩
        · cases e <;> simp [fitsP]
          rw [bodyPrec_eq]; exact binop_prec_pos _
        · cases edge
          · exact stops_one_mono hst1 _
          · exact hst1
      · simp [printO] at hf ⊢; omega
      · exact hfol
      · exact loop_stops' _ _ _ hstb
    simp only [printO, List.append_assoc, List.cons_append] at hf ⊢
    rw [parseExpr_eq, prefix_rename, parseSubs_print ss _ hss]
    simp only [bindF_ok]
    rw [hin]
    simp only [bindF_ok]
    apply hk; simp at hf; omega

/-- printing with the required parentheses, any number of redundant ones, binders open at the
right edge — then parsing — is the identity -/
theorem parse_printTop (ex : Ast → Nat) (t : Ast) (h : t.WF) : parse (printTop ex t) = some t := by
  have := specO_wrapP (specO ex t h) (ex t) false true 0 ((printTop ex t).length + 1) [] (.ok (t, []))
    (fun _ _ => ⟨fitsP_zero t, trivial⟩)
    (by simp [printTop]) rfl (loop_stops' _ _ _ trivial)
  simp only [List.append_nil] at this
  simp only [parse, parseE, printTop]
  rw [show (wrapP (ex t) false (fun b => printO ex b t) true).length + 1 = (printTop ex t).length + 1 from rfl, this]

end DD
