/-
  DDProofs.ParseBad — the parser never runs out of fuel, and a token string that contains an
  illegal character (`Tok.bad`, where the lexer raises) is always rejected with the SYNTAX
  error (`RuntimeError`), never with "unexpected end of input".
-/
import DDProofs.ParseProofs
namespace DD

/-- `r` is what is left of `toks` after a prefix without illegal character -/
def Suf (toks r : List Tok) : Prop := ∃ pre, toks = pre ++ r ∧ Tok.bad ∉ pre

theorem Suf.refl (toks : List Tok) : Suf toks toks := ⟨[], rfl, by simp⟩

theorem Suf.trans {a b c : List Tok} (h1 : Suf a b) (h2 : Suf b c) : Suf a c := by
  obtain ⟨p1, rfl, n1⟩ := h1
  obtain ⟨p2, rfl, n2⟩ := h2
  exact ⟨p1 ++ p2, by simp, by simp [n1, n2]⟩

theorem Suf.cons {t : Tok} (r : List Tok) (ht : t ≠ .bad) : Suf (t :: r) r :=
  ⟨[t], rfl, by simp; exact fun h => ht h.symm⟩

theorem Suf.step {toks r : List Tok} {t : Tok} (h : Suf toks (t :: r)) (ht : t ≠ .bad) : Suf toks r :=
  h.trans (Suf.cons r ht)

theorem Suf.length {toks r : List Tok} (h : Suf toks r) : r.length ≤ toks.length := by
  obtain ⟨p, rfl, _⟩ := h
  simp

/-- what the parsing functions guarantee on `toks` -/
def PGood {α : Type} (toks : List Tok) : PRes (α × List Tok) → Prop
  | .ok (_, r) => Suf toks r
  | .error (_, .syntax) => True
  | .error (_, .eof) => Tok.bad ∉ toks
  | .error (_, .fuel) => False

theorem PGood.lift {α : Type} {toks r : List Tok} {x : PRes (α × List Tok)} (hs : Suf toks r) (h : PGood r x) :
    PGood toks x := by
  match x, h with
  | .ok (_, r'), h => exact hs.trans h
  | .error (_, .syntax), _ => trivial
  | .error (_, .eof), h =>
    obtain ⟨p, rfl, n⟩ := hs
    simp only [PGood, List.mem_append, not_or] at h ⊢
    exact ⟨n, h⟩

theorem good_errAt {α : Type} {toks r : List Tok} (h : Suf toks r) (fr : List Ast) :
    PGood (α := α) toks (errAt fr r) := by
  cases r with
  | nil =>
    obtain ⟨p, rfl, n⟩ := h
    simpa [errAt, PGood] using n
  | cons t r => simp [errAt, PGood]

theorem good_atomDone {toks r : List Tok} (h : Suf toks r) (a : Ast) (fr : List Ast) :
    PGood toks (atomDone a fr r) := by
  unfold atomDone
  split
  · exact h
  · exact good_errAt h fr

theorem good_bindF {α β : Type} {toks : List Tok} (pre : List Ast) {x : PRes (α × List Tok)}
    {k : α × List Tok → PRes (β × List Tok)} (hx : PGood toks x)
    (hk : ∀ a r, Suf toks r → PGood toks (k (a, r))) : PGood toks (PRes.bindF pre x k) := by
  match x, hx with
  | .ok (a, r), h => exact hk a r h
  | .error (_, .syntax), _ => trivial
  | .error (_, .eof), h => exact h

theorem good_closeParen {toks r : List Tok} (h : Suf toks r) (e : Ast) : PGood toks (closeParen e r) := by
  unfold closeParen
  split
  · exact good_atomDone (h.step (by simp)) _ _
  · exact good_errAt h _

theorem good_closeIte {toks r : List Tok} (h : Suf toks r) (a b c : Ast) : PGood toks (closeIte a b c r) := by
  unfold closeIte
  split
  · exact good_atomDone (h.step (by simp)) _ _
  · exact good_errAt h _

theorem good_expectComma {toks r : List Tok} (h : Suf toks r) (done : List Ast)
    (k : List Tok → PRes (Ast × List Tok)) (hk : ∀ r', Suf toks r' → PGood toks (k r')) :
    PGood toks (expectComma done k r) := by
  unfold expectComma
  split
  · exact hk _ (h.step (by simp))
  · exact good_errAt h _

theorem good_parseNames : ∀ toks : List Tok, PGood toks (parseNames toks) := by
  intro toks
  fun_induction parseNames toks with
  | case1 x rest xs r hr ih =>
    rw [hr] at ih
    exact PGood.lift (((Suf.refl _).step (by simp)).step (by simp)) ih
  | case2 x rest e hr ih =>
    rw [hr] at ih
    exact PGood.lift (((Suf.refl _).step (by simp)).step (by simp)) ih
  | case3 x rest => exact ((Suf.refl _).step (by simp)).step (by simp)
  | case4 x rest _ _ => exact good_errAt ((Suf.refl _).step (by simp)) _
  | case5 toks _ => exact good_errAt (Suf.refl _) _

theorem good_parseSubs : ∀ toks : List Tok, PGood toks (parseSubs toks) := by
  intro toks
  fun_induction parseSubs toks with
  | case1 new old rest xs r hr ih =>
    rw [hr] at ih
    exact PGood.lift (((((Suf.refl _).step (by simp)).step (by simp)).step (by simp)).step (by simp)) ih
  | case2 new old rest e hr ih =>
    rw [hr] at ih
    exact PGood.lift (((((Suf.refl _).step (by simp)).step (by simp)).step (by simp)).step (by simp)) ih
  | case3 new old rest => exact ((((Suf.refl _).step (by simp)).step (by simp)).step (by simp)).step (by simp)
  | case4 => exact good_errAt ((((Suf.refl _).step (by simp)).step (by simp)).step (by simp)) _
  | case5 => exact good_errAt (((Suf.refl _).step (by simp)).step (by simp)) _
  | case6 => exact good_errAt ((Suf.refl _).step (by simp)) _
  | case7 => exact good_errAt (Suf.refl _) _


/-! ### induction on the fuel -/

theorem good_prefix (f : Nat) (ih : ∀ toks : List Tok, toks.length < f → ∀ p, PGood toks (parseExpr f p toks))
    (toks : List Tok) (hl : toks.length < f + 1) : PGood toks (parsePrefix (f+1) toks) := by
  -- recursive calls on what is left of `base`, a proper suffix of `toks`
  have sub : ∀ {base r : List Tok}, base.length < f → Suf base r → ∀ p, PGood base (parseExpr f p r) :=
    fun hb hs p => PGood.lift hs (ih _ (by have := hs.length; omega) p)
  cases toks with
  | nil => simpa [parsePrefix] using good_errAt (α := Ast) (Suf.refl []) []
  | cons t rest =>
    have hr : rest.length < f := by simp at hl; omega
    have other : ∀ t', t' ≠ Tok.bad → parsePrefix (f+1) (t' :: rest) = errAt [] (t' :: rest) →
        PGood (t' :: rest) (parsePrefix (f+1) (t' :: rest)) := by
      intro t' _ e; rw [e]; exact good_errAt (Suf.refl _) _
    cases t with
    | tt => rw [prefix_tt]; exact good_atomDone (Suf.cons _ (by simp)) _ _
    | ff => rw [prefix_ff]; exact good_atomDone (Suf.cons _ (by simp)) _ _
    | name x => rw [prefix_name]; exact good_atomDone (Suf.cons _ (by simp)) _ _
    | not =>
      rw [prefix_not]
      apply PGood.lift (Suf.cons rest (by simp))
      exact good_bindF [] (sub hr (Suf.refl _) _) (fun a r hs => hs)
    | lparen =>
      rw [prefix_lparen]
      apply PGood.lift (Suf.cons rest (by simp))
      exact good_bindF [] (sub hr (Suf.refl _) _) (fun a r hs => good_closeParen hs _)
    | forall_ =>
      rw [prefix_forall]
      apply PGood.lift (Suf.cons rest (by simp))
      refine good_bindF [] (good_parseNames rest) (fun ns r hs => ?_)
      exact good_bindF [] (sub hr hs _) (fun a r hs' => hs')
    | exists_ =>
      rw [prefix_exists]
      apply PGood.lift (Suf.cons rest (by simp))
      refine good_bindF [] (good_parseNames rest) (fun ns r hs => ?_)
      exact good_bindF [] (sub hr hs _) (fun a r hs' => hs')
    | rename =>
      rw [prefix_rename]
      apply PGood.lift (Suf.cons rest (by simp))
      refine good_bindF [] (good_parseSubs rest) (fun ns r hs => ?_)
      exact good_bindF [] (sub hr hs _) (fun a r hs' => hs')
    | ite =>
      cases rest with
      | nil => simpa [parsePrefix] using good_errAt (α := Ast) (toks := [Tok.ite]) (Suf.cons [] (by simp)) []
      | cons t2 rest2 =>
        have hr2 : rest2.length < f := by simp at hr; omega
        by_cases ht2 : t2 = .lparen
        · subst ht2
          rw [prefix_ite]
          apply PGood.lift ((Suf.refl (Tok.ite :: Tok.lparen :: rest2)).step (by simp) |>.step (by simp))
          refine good_bindF [] (sub hr2 (Suf.refl _) _) (fun a r1 hs1 => ?_)
          refine good_expectComma hs1 _ _ (fun r1' hs1' => ?_)
          refine good_bindF _ (sub hr2 hs1' _) (fun b r2 hs2 => ?_)
          refine good_expectComma hs2 _ _ (fun r2' hs2' => ?_)
          exact good_bindF _ (sub hr2 hs2' _) (fun c r3 hs3 => good_closeIte hs3 _ _ _)
        · have e : parsePrefix (f+1) (Tok.ite :: t2 :: rest2) = errAt [] (t2 :: rest2) := by
            cases t2 <;> simp [parsePrefix] at ht2 ⊢
          rw [e]
          exact good_errAt (Suf.cons _ (by simp)) _
    | «at» =>
      cases rest with
      | nil => simpa [parsePrefix] using good_errAt (α := Ast) (toks := [Tok.at]) (Suf.cons [] (by simp)) []
      | cons t2 rest2 =>
        cases t2 with
        | number d =>
          rw [prefix_at]
          exact good_atomDone ((Suf.refl _).step (by simp) |>.step (by simp)) _ _
        | op o =>
          by_cases ho : o = .minus
          · subst ho
            cases rest2 with
            | nil =>
              simpa [parsePrefix] using good_errAt (α := Ast) (toks := [Tok.at, Tok.op .minus])
                ((Suf.refl _).step (by simp) |>.step (by simp)) []
            | cons t3 rest3 =>
              cases t3 with
              | number d =>
                rw [prefix_at_minus]
                exact good_atomDone ((Suf.refl _).step (by simp) |>.step (by simp) |>.step (by simp)) _ _
              | _ =>
                simp only [parsePrefix]
                exact good_errAt ((Suf.refl _).step (by simp) |>.step (by simp)) _
          · have e : parsePrefix (f+1) (Tok.at :: Tok.op o :: rest2) = errAt [] (Tok.op o :: rest2) := by
              cases o <;> simp [parsePrefix] at ho ⊢
            rw [e]
            exact good_errAt (Suf.cons _ (by simp)) _
        | _ =>
          simp only [parsePrefix]
          exact good_errAt (Suf.cons _ (by simp)) _
    | bad => simp only [parsePrefix]; simp [errAt, PGood]
    | _ => exact other _ (by simp) (by simp [parsePrefix])

theorem good_loop (f : Nat) (ihE : ∀ toks : List Tok, toks.length < f → ∀ p, PGood toks (parseExpr f p toks))
    (ihL : ∀ toks : List Tok, toks.length < f → ∀ p lhs, PGood toks (parseLoop f p lhs toks))
    (toks : List Tok) (hl : toks.length < f + 1) (p : Nat) (lhs : Ast) :
    PGood toks (parseLoop (f+1) p lhs toks) := by
  have stop : ∀ {toks : List Tok}, parseLoop (f+1) p lhs toks = .ok (lhs, toks) →
      PGood toks (parseLoop (f+1) p lhs toks) := by
    intro toks e; rw [e]; exact Suf.refl _
  cases toks with
  | nil => exact stop (by simp [parseLoop])
  | cons t rest =>
    cases t with
    | op o =>
      rw [loop_op]
      split
      · have hr : rest.length < f := by simp at hl; omega
        apply PGood.lift (Suf.cons rest (by simp))
        refine good_bindF _ (ihE rest hr _) (fun a r hs => ?_)
        exact PGood.lift hs (ihL r (by have := hs.length; omega) _ _)
      · exact Suf.refl _
    | _ => exact stop (by simp [parseLoop])

theorem good_all : ∀ (f : Nat) (toks : List Tok), toks.length < f →
    (∀ p, PGood toks (parseExpr f p toks)) ∧ PGood toks (parsePrefix f toks) ∧
    (∀ p lhs, PGood toks (parseLoop f p lhs toks)) := by
  intro f
  induction f with
  | zero => intro toks h; omega
  | succ f ih =>
    have hP : ∀ toks : List Tok, toks.length < f + 1 → PGood toks (parsePrefix (f+1) toks) :=
      fun toks hl => good_prefix f (fun t ht p => (ih t ht).1 p) toks hl
    have hL : ∀ toks : List Tok, toks.length < f + 1 → ∀ p lhs, PGood toks (parseLoop (f+1) p lhs toks) :=
      fun toks hl p lhs => good_loop f (fun t ht p => (ih t ht).1 p) (fun t ht p l => (ih t ht).2.2 p l) toks hl p lhs
    intro toks hl
    refine ⟨fun p => ?_, hP toks hl, hL toks hl⟩
    rw [parseExpr_eq]
    refine good_bindF [] (hP toks hl) (fun a r hs => ?_)
    exact PGood.lift hs (hL r (by have := hs.length; omega) _ _)

/-- the parser never runs out of fuel; an illegal character gives the syntax error -/
theorem parseE_bad (toks : List Tok) :
    (∀ fr, parseE toks ≠ .error (fr, .fuel)) ∧
    (Tok.bad ∈ toks → ∃ fr, parseE toks = .error (fr, .syntax)) := by
  have h := (good_all (toks.length + 1) toks (Nat.lt_succ_self _)).1 0
  unfold parseE
  generalize parseExpr (toks.length + 1) 0 toks = res at h
  match res, h with
  | .ok (t, []), h =>
    refine ⟨fun fr => by simp, fun hb => ?_⟩
    obtain ⟨pre, rfl, n⟩ := h
    simp at hb; exact absurd hb n
  | .ok (t, x :: r), h =>
    refine ⟨fun fr => by simp [errAt], fun _ => ⟨[t], by simp [errAt]⟩⟩
  | .error (fr, .syntax), _ => exact ⟨fun fr' => by simp, fun _ => ⟨fr, rfl⟩⟩
  | .error (fr, .eof), h => exact ⟨fun fr' => by simp, fun hb => absurd hb h⟩


end DD
