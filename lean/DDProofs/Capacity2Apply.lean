/-
  DDProofs.Capacity2Apply — `BDD.apply` with `max_nodes = cap`, for every operator of the
  vocabulary that does not quantify (all connectives in all spellings, the ternary `ite`,
  negation): `apply` is a case analysis in front of ONE call `self.ite(a, b, c)`, so everything
  about `iteCap` lifts through a relational lemma on `applyG` (`applyG_rel`).
-/
import DD.Capacity2
import DDProofs.CapacityIte
open Std

namespace DD

theorem applyG_model : applyG ite quantify = apply := rfl

/-- the operator is not a quantifier alias (the hypothesis of `C17_apply`) -/
def NonQuantOp (op : String) : Prop :=
  ∀ row, findRow op Gen.applyTable = some row → ∀ fa f b, row.templ ≠ .quant fa f b

/-- RELATIONAL lemma: two instances of `applyG` on the same arguments and state, operator not a
quantifier alias, are related by `P` as soon as `P` relates (i) an answer that is not the
reordering signal given with the state unchanged, to itself, and (ii) the two `ite`s on the same
operands -/
theorem applyG_rel (ite1 ite2 : Int → Int → Int → M Int) (Q1 Q2 : Int → List Key → Bool → M Int)
    (op : String) (u : Int) (v w : Option Int) (m : Mgr) (hnq : NonQuantOp op)
    (P : Except Err Int × Mgr → Except Err Int × Mgr → Prop)
    (hsame : ∀ r : Except Err Int, r ≠ .error .needsReordering → P (r, m) (r, m))
    (hite : ∀ a b c, P (ite1 a b c m) (ite2 a b c m)) :
    P (applyG ite1 Q1 op u v w m) (applyG ite2 Q2 op u v w m) := by
  have same : ∀ e : Err, e ≠ .needsReordering →
      P ((.error e, m) : Except Err Int × Mgr) (.error e, m) :=
    fun e he => hsame _ (by simpa using he)
  unfold applyG
  split
  · next e heq =>
    refine same e ?_
    intro he; subst he
    unfold assertOperatorArity at heq
    repeat' split at heq
    all_goals simp at heq
  split
  · exact same _ (by simp)
  split
  · exact same _ (by simp)
  split
  · exact same _ (by simp)
  split
  · exact same _ (by simp)
  · next row hr =>
    split
    · exact hsame _ (by simp)
    · split
      · exact same _ (by simp)
      split
      · exact same _ (by simp)
      split
      · exact hite _ _ _
      · exact same _ (fun he => by subst he; exact atomVal_noNR _ _ _ _ (by assumption))
      · exact same _ (fun he => by subst he; exact atomVal_noNR _ _ _ _ (by assumption))
      · exact same _ (fun he => by subst he; exact atomVal_noNR _ _ _ _ (by assumption))
    · next fa f b ht => exact absurd ht (hnq row hr fa f b)
    · exact same _ (by simp)
    · exact same _ (by simp)

/-! ### (a) refinement -/

/-- reordering not enabled: the first attempt of `_ite` is never aborted, whatever the operands -/
theorem iteRaw_noSignal_off (m : Mgr) (hI : Inv m) (hoff : m.lastLen = none) (g u v : Int) :
    (iteRaw g u v { m with ctx := true }).1 ≠ .error .needsReordering := by
  have h := iteRaw_totE { m with ctx := true } (hI.setCtx true) g u v
  intro he
  have := (h.2 he).2
  rw [show ({ m with ctx := true } : Mgr).lastLen = m.lastLen from rfl, hoff] at this
  exact Bool.noConfusion this

/-- `BDD.ite` with capacity against `BDD.ite`, ARBITRARY integers, reordering not enabled -/
theorem iteCap_vs_ite_off (cap : Nat) (m : Mgr) (hI : Inv m) (hoff : m.lastLen = none) (g u v : Int) :
    (CapOK cap m (ite g u v m).2 → iteCap cap g u v m = ite g u v m) ∧
    (¬ CapOK cap m (ite g u v m).2 → (iteCap cap g u v m).1 = .error .runtime) :=
  ⟨tryToReorder_sim_first cap _ _ (iteCapRaw_sim cap g u v) m (iteRaw_noSignal_off m hI hoff g u v),
   fun hn => (tryToReorder_sim_first_full cap _ _ (iteCapRaw_sim cap g u v) m
     (iteRaw_noSignal_off m hI hoff g u v) hn).1⟩

/-- (a) `BDD.apply` with capacity against `BDD.apply` (operators that do not quantify, ANY
arity and operands, reordering not enabled): the same answer and state when the capacity-free
call needed no number `≥ cap`, `RuntimeError` otherwise -/
theorem applyCap_vs_apply_off (cap : Nat) (m : Mgr) (hI : Inv m) (hoff : m.lastLen = none)
    (op : String) (u : Int) (v w : Option Int) (hnq : NonQuantOp op) :
    (CapOK cap m (apply op u v w m).2 → applyCap cap op u v w m = apply op u v w m) ∧
    (¬ CapOK cap m (apply op u v w m).2 → (applyCap cap op u v w m).1 = .error .runtime) := by
  rw [← applyG_model]
  unfold applyCap
  refine applyG_rel (iteCap cap) ite quantify quantify op u v w m hnq
    (fun rc r => (CapOK cap m r.2 → rc = r) ∧ (¬ CapOK cap m r.2 → rc.1 = .error .runtime)) ?_ ?_
  · intro r _
    exact ⟨fun _ => rfl, fun hn => absurd (Or.inl rfl) hn⟩
  · intro a b c
    exact iteCap_vs_ite_off cap m hI hoff a b c

/-! ### (2) the full outcome -/

/-- `BDD.apply` with capacity, operators that do not quantify, ANY arity and operands, dynamic
reordering enabled or not, whatever it returns or raises (`RuntimeError('full')` half-way
included): `DynTotal` -/
theorem applyCap_total_dyn (cap : Nat) (ext : Nat → Nat) (m : Mgr) (hD : DynInv ext m)
    (op : String) (u : Int) (v w : Option Int) (hnq : NonQuantOp op) :
    DynTotal ext m (applyCap cap op u v w m) := by
  unfold applyCap
  exact applyG_rel (iteCap cap) (iteCap cap) quantify quantify op u v w m hnq
    (fun rc _ => DynTotal ext m rc) (fun r hr => DynTotal.same hD r hr)
    (fun a b c => iteCap_total_dyn cap ext m hD a b c)

/-- reordering not enabled: `GoodState` for the same ledger after ANY outcome, and `Kept` -/
theorem applyCap_off (cap : Nat) (ext : Nat → Nat) (m : Mgr) (hG : GoodState m ext)
    (op : String) (u : Int) (v w : Option Int) (hnq : NonQuantOp op) :
    Kept m (applyCap cap op u v w m).2 ∧ GoodState (applyCap cap op u v w m).2 ext := by
  unfold applyCap
  refine applyG_rel (iteCap cap) (iteCap cap) quantify quantify op u v w m hnq
    (fun rc _ => Kept m rc.2 ∧ GoodState rc.2 ext) (fun _ _ => ⟨Kept.refl hG.inv, hG⟩) ?_
  intro a b c
  -- the body of `ite` with capacity only adds nodes; the flag is restored
  have h := iteCapRaw_totE cap { m with ctx := true } (hG.inv.setCtx true) a b c
  generalize hres : iteCapRaw cap a b c { m with ctx := true } = res at h
  obtain ⟨r, m1⟩ := res
  have hs' : StepK m { m1 with ctx := m.ctx } := (h.1 : StepK { m with ctx := true } m1).ofCtx true
  have hk : Kept m { m1 with ctx := m.ctx } := ⟨hs'.inv, hs'.ext, hs'.frame⟩
  have hgood := GoodState.of_kept hG hk (hs'.keep ext hG.exact).1
  cases r with
  | ok r =>
    have e : iteCap cap a b c m = (.ok r, { m1 with ctx := m.ctx }) := tryToReorder_ok _ m r m1 hres
    rw [e]; exact ⟨hk, hgood⟩
  | error e =>
    have hne : e ≠ .needsReordering := by
      intro he
      have := (h.2 (by rw [he])).2
      rw [show ({ m with ctx := true } : Mgr).lastLen = m.lastLen from rfl, hG.off] at this
      exact Bool.noConfusion this
    have e' : iteCap cap a b c m = (.error e, { m1 with ctx := m.ctx }) :=
      tryToReorder_err _ m e m1 hres hne
    rw [e']; exact ⟨hk, hgood⟩

end DD
