/-
  DDProofs.UsedExample — a USED manager for the non-vacuity examples of C12 / C17: four variables
  declared in the order c, a, d, b (so the order of the levels is NOT the order of the names),
  thirteen nodes, the user holds `a ∧ b` (node 4) once and the four-variable function
  `ite(c ≡ d, a ∧ b, ¬b)` (node 13) twice — once through the complemented edge —, the rest is
  garbage (node 14 = `a ∨ d`, intermediate results).  Reached by a guarded history, so
  `reachable_inv` / `reachable_predNodes` give every hypothesis the load theorems ask for.
-/
import DDProofs.Reach
import DDProofs.PredNodesReach
open Std
namespace DD

def usedHistory : List UOp :=
  [ .declare "c" none, .declare "a" none, .declare "d" none, .declare "b" none,
    .var "a", .var "b", .apply "and" 2 (some 3) none,          -- 2, 3, 4 = a ∧ b
    .var "c", .var "d", .apply "xor" 5 (some 6) none,          -- 5, 6, -7
    .ite 7 4 (-3),                                              -- 13
    .incref 4, .incref 13, .incref (-13),
    .apply "or" 2 (some 6) none ]                               -- 14, garbage

/-- the manager after `usedHistory` -/
def usedM : Mgr := (run usedHistory St.init).m
/-- the user's ledger: node 4 once, node 13 twice -/
def usedExt : Nat → Nat := (run usedHistory St.init).ext

theorem usedHistory_guarded : OpsGuarded usedHistory St.init := by decide

theorem usedM_good : GoodState usedM usedExt := reachable_inv usedHistory usedHistory_guarded
theorem usedM_predNodes : PredNodes usedM := reachable_predNodes usedHistory usedHistory_guarded

/-- what it looks like -/
theorem usedM_shape : usedM.tbl.vars.toList = [("a", 1), ("b", 3), ("c", 0), ("d", 2)] ∧
    usedM.tbl.succ.keys = [2, 3, 4, 5, 6, 7, 8, 9, 10, 11, 12, 13, 14] ∧
    usedM.tbl.node? 13 = some ⟨0, -10, 12⟩ ∧
    usedExt 4 = 1 ∧ usedExt 13 = 2 ∧ usedM.roots = [] ∧ usedM.sched = [] := by decide +kernel

theorem usedM_mem4 : usedM.tbl.Mem 4 := Or.inr (by decide +kernel)
theorem usedM_mem13 : usedM.tbl.Mem 13 := Or.inr (by decide +kernel)

attribute [irreducible] usedM usedExt

end DD
