/-
  DDProofs.DynOutcome — the vocabulary of ABORT-AWARE specifications: every recursion that
  creates nodes through `find_or_add` either returns its documented result or is aborted by a
  reordering request, having only added nodes (`StepK`: invariant, extension, frame, exact counts
  kept and monotone).  `Outcome` packages the two cases; `Quiet m` (inside a reordering context,
  or requests disabled) is the situation in which the decorated `ite` nested in a recursion
  behaves exactly like `_ite`: transparent on success, the signal is re-raised.
-/
import DDProofs.DynRef
import DDProofs.LetCopy
open Std

namespace DD

/-! ### steps that only add nodes, with the reference counts -/

/-- `Step` (invariant kept, nodes only added, frame) plus: counts stay exact and monotone -/
structure StepK (m m' : Mgr) : Prop where
  inv : Inv m'
  ext : Ext m.tbl m'.tbl
  frame : Frame m m'
  keep : RefKeep m m'

theorem StepK.refl {m : Mgr} (h : Inv m) : StepK m m :=
  ⟨h, Ext.refl _, Frame.refl _, RefKeep.refl _⟩
theorem StepK.trans {a b c : Mgr} (h1 : StepK a b) (h2 : StepK b c) : StepK a c :=
  ⟨h2.inv, h1.ext.trans h2.ext, h1.frame.trans h2.frame, h1.keep.trans h2.keep⟩
theorem StepK.step {m m' : Mgr} (h : StepK m m') : Step m m' := ⟨h.inv, h.ext, h.frame⟩
theorem StepK.nvars {m m' : Mgr} (h : StepK m m') : m'.nvars = m.nvars := h.ext.nvars.symm
theorem StepK.off {m m' : Mgr} (h : StepK m m') (hoff : m.lastLen = none) : m'.lastLen = none := by
  rw [h.frame.lastLen]; exact hoff

/-- reordering requests can fire: inside a context, with a threshold -/
def Armed (m : Mgr) : Prop := m.ctx = true ∧ m.lastLen.isSome = true

theorem Armed.back {m m' : Mgr} (hf : Frame m m') (h : Armed m') : Armed m := by
  obtain ⟨h1, h2⟩ := h
  rw [hf.ctx] at h1
  rw [hf.lastLen] at h2
  exact ⟨h1, h2⟩

/-- a request, if it fires, is PROPAGATED (we are inside a reordering context), or cannot fire
(requests disabled): the situation of every recursion below a decorated entry point -/
def Quiet (m : Mgr) : Prop := m.ctx = true ∨ m.lastLen = none

theorem Quiet.frame {m m' : Mgr} (h : Quiet m) (hf : Frame m m') : Quiet m' := by
  rcases h with h | h
  · exact Or.inl (by rw [hf.ctx]; exact h)
  · exact Or.inr (by rw [hf.lastLen]; exact h)

theorem Quiet.step {m m' : Mgr} (h : Quiet m) (hs : StepK m m') : Quiet m' := h.frame hs.frame

/-- outcome of a computation started in `m`: result satisfying `Post` after a step that only
added nodes, or abort by a reordering request after such a step -/
def Outcome {α} (m : Mgr) (Post : α → Mgr → Prop) : Except Err α × Mgr → Prop
  | (.ok r, m') => StepK m m' ∧ Post r m'
  | (.error e, m') => e = .needsReordering ∧ StepK m m' ∧ Armed m

theorem Outcome.cases {α} {m : Mgr} {Post : α → Mgr → Prop} {res : Except Err α × Mgr}
    (h : Outcome m Post res) :
    (∃ r m', res = (.ok r, m') ∧ StepK m m' ∧ Post r m') ∨
    (∃ m', res = (.error .needsReordering, m') ∧ StepK m m' ∧ Armed m) := by
  obtain ⟨r, m'⟩ := res
  cases r with
  | ok r => exact Or.inl ⟨r, m', rfl, h.1, h.2⟩
  | error e =>
    obtain ⟨he, hs, ha⟩ := h
    subst he
    exact Or.inr ⟨m', rfl, hs, ha⟩

theorem Outcome.mono {α} {m : Mgr} {P Q : α → Mgr → Prop} {res : Except Err α × Mgr}
    (h : Outcome m P res) (hpq : ∀ r m', StepK m m' → P r m' → Q r m') : Outcome m Q res := by
  obtain ⟨r, m'⟩ := res
  cases r with
  | ok r => exact ⟨h.1, hpq r m' h.1 h.2⟩
  | error e => exact h

/-- an abort after some steps is an abort of the whole -/
theorem Outcome.abort {α} {m m1 m' : Mgr} {Post : α → Mgr → Prop} (hs : StepK m m1)
    (hs' : StepK m1 m') (ha : Armed m1) : Outcome m Post (.error .needsReordering, m') :=
  ⟨rfl, hs.trans hs', ha.back hs.frame⟩

/-- with requests disabled there is no abort -/
theorem Outcome.off {α} {m : Mgr} {Post : α → Mgr → Prop} {res : Except Err α × Mgr}
    (h : Outcome m Post res) (hoff : m.lastLen = none) :
    ∃ r m', res = (.ok r, m') ∧ StepK m m' ∧ Post r m' := by
  rcases h.cases with h | ⟨m', _, _, ha⟩
  · exact h
  · exfalso
    have := ha.2
    rw [hoff] at this
    exact Bool.noConfusion this

/-- `Outcome` for the recursions that return a pair (result, memo) -/
def Outcome2 {α β} (m : Mgr) (Post : α → β → Mgr → Prop) (res : Except Err (α × β) × Mgr) : Prop :=
  Outcome m (fun rc m' => Post rc.1 rc.2 m') res

theorem Outcome2.cases {α β} {m : Mgr} {Post : α → β → Mgr → Prop}
    {res : Except Err (α × β) × Mgr} (h : Outcome2 m Post res) :
    (∃ r c m', res = (.ok (r, c), m') ∧ StepK m m' ∧ Post r c m') ∨
    (∃ m', res = (.error .needsReordering, m') ∧ StepK m m' ∧ Armed m) := by
  rcases Outcome.cases h with ⟨⟨r, c⟩, m', he, hs, hp⟩ | h
  · exact Or.inl ⟨r, c, m', he, hs, hp⟩
  · exact Or.inr h

theorem Outcome2.ok {α β} {m m' : Mgr} {Post : α → β → Mgr → Prop} {r : α} {c : β}
    (hs : StepK m m') (hp : Post r c m') : Outcome2 m Post (.ok (r, c), m') := ⟨hs, hp⟩

theorem Outcome2.abort {α β} {m m1 m' : Mgr} {Post : α → β → Mgr → Prop} (hs : StepK m m1)
    (hs' : StepK m1 m') (ha : Armed m1) : Outcome2 m Post (.error .needsReordering, m') :=
  Outcome.abort hs hs' ha

theorem Outcome2.abort0 {α β} {m m' : Mgr} {Post : α → β → Mgr → Prop}
    (hs : StepK m m') (ha : Armed m) : Outcome2 m Post (.error .needsReordering, m') :=
  ⟨rfl, hs, ha⟩

theorem Outcome2.off {α β} {m : Mgr} {Post : α → β → Mgr → Prop}
    {res : Except Err (α × β) × Mgr} (h : Outcome2 m Post res) (hoff : m.lastLen = none) :
    ∃ r c m', res = (.ok (r, c), m') ∧ StepK m m' ∧ Post r c m' := by
  obtain ⟨⟨r, c⟩, m', he, hs, hp⟩ := Outcome.off h hoff
  exact ⟨r, c, m', he, hs, hp⟩

/-! ### `find_or_add`, `_ite` -/

/-- `find_or_add` at a valid level -/
theorem findOrAdd_out (m : Mgr) (hI : Inv m) (i : Nat) (v w : Int)
    (hi : i < m.nvars) (hv : m.tbl.Mem v) (hw : m.tbl.Mem w)
    (hlv : i < m.tbl.levelOf v) (hlw : i < m.tbl.levelOf w) :
    Outcome m (fun r m' => FoaPost' m i v w r m') (findOrAdd (i : Int) v w m) := by
  have h := findOrAdd_spec m hI i v w hi hv hw hlv hlw
  have k := findOrAdd_refKeep m (i : Int) v w hI.wf.toWF
  generalize findOrAdd (i : Int) v w m = res at h k
  obtain ⟨r, m'⟩ := res
  cases r with
  | ok r => exact ⟨⟨h.inv, h.ext, h.frame, k⟩, h⟩
  | error e => exact ⟨h.1, ⟨h.2.inv, h.2.ext, h.2.frame, k⟩, h.2.armed⟩

/-- the node of the variable at level `j` (`find_or_add(j, -1, 1)`) -/
theorem varNode_out (m : Mgr) (hI : Inv m) (j : Nat) (hj : j < m.nvars) :
    Outcome m (fun g m' => m'.tbl.Mem g ∧ j ≤ m'.tbl.levelOf g ∧ ∀ a, den m'.tbl g a = a j)
      (findOrAdd (j : Int) (-1) 1 m) := by
  refine (findOrAdd_out m hI j (-1) 1 hj (mem_neg_one _) (mem_one _)
    (by rw [levelOf_neg_one]; exact hj) (by rw [levelOf_one]; exact hj)).mono ?_
  intro g m' _ hp
  refine ⟨hp.mem, hp.lvl, ?_⟩
  intro a
  rw [hp.den a, den_one, den_neg_one]
  cases a j <;> rfl

/-- `_ite` with sufficient fuel -/
theorem iteF_out (f : Nat) (m : Mgr) (g u v : Int) (hI : Inv m)
    (hg : m.tbl.Mem g) (hu : m.tbl.Mem u) (hv : m.tbl.Mem v)
    (hf : m.nvars + 1 ≤ f + min (m.tbl.levelOf g) (min (m.tbl.levelOf u) (m.tbl.levelOf v))) :
    Outcome m (fun r m' => ItePost m g u v r m') (iteF f g u v m) := by
  have h := iteF_spec f m g u v hI hg hu hv hf
  have k := iteF_refKeep f m g u v hI hg hu hv hf
  generalize iteF f g u v m = res at h k
  obtain ⟨r, m'⟩ := res
  cases r with
  | ok r => exact ⟨⟨h.inv, h.ext, h.frame, k⟩, h⟩
  | error e => exact ⟨h.1, ⟨h.2.inv, h.2.ext, h.2.frame, k⟩, h.2.armed⟩

theorem iteRaw_eq (g u v : Int) (m : Mgr) : iteRaw g u v m = iteF (m.nvars + 2) g u v m := by
  simp [iteRaw, bind, M.bind', M.get]

/-! ### the decorator inside a context -/

theorem Mgr.setCtx_self (m : Mgr) (h : m.ctx = true) : ({ m with ctx := true } : Mgr) = m := by
  cases m
  simp_all

/-- NESTED decorator (`_reordering_context` already set): the body runs, the flag stays set,
and EVERY exception, the reordering signal included, is re-raised -/
theorem tryToReorder_nested {α} (f : M α) (m : Mgr) (h : m.ctx = true) :
    tryToReorder f m = ((f m).1, { (f m).2 with ctx := true }) := by
  unfold tryToReorder withCtx
  simp only [bind, M.bind', h, Mgr.setCtx_self m h]
  generalize f m = res
  obtain ⟨r, m1⟩ := res
  cases r with
  | ok a => simp [pure, M.pure']
  | error e => simp

/-- the decorated `ite` nested in a context is `_ite` (both outcomes) -/
theorem ite_nested_eq (g u v : Int) (m : Mgr) (h : m.ctx = true) :
    ite g u v m = ((iteRaw g u v m).1, { (iteRaw g u v m).2 with ctx := true }) :=
  tryToReorder_nested _ m h

/-- relating the state of the body (flag set) to the state of the caller -/
theorem StepK.ofCtx {m m1 : Mgr} (c : Bool) (hs : StepK { m with ctx := c } m1) :
    StepK m { m1 with ctx := m.ctx } :=
  ⟨hs.inv.setCtx _, hs.ext,
   ⟨hs.frame.vars, hs.frame.l2v, hs.frame.lastLen, rfl, hs.frame.sched, hs.frame.roots⟩,
   hs.keep.congr rfl rfl rfl rfl⟩

/-- the decorated `ite` as it is called by the recursions (`_quantify`, `_compose`,
`_vector_compose`, `_copy_bdd`): inside a context, or with requests disabled, it returns the
if-then-else or is aborted by a request having only added nodes — never a reordering. -/
theorem ite_nested_spec (m : Mgr) (hI : Inv m) (hq : Quiet m) (g u v : Int)
    (hg : m.tbl.Mem g) (hu : m.tbl.Mem u) (hv : m.tbl.Mem v) :
    Outcome m (fun r m' => ItePost m g u v r m') (ite g u v m) := by
  have h := iteF_out (m.nvars + 2) { m with ctx := true } g u v (hI.setCtx true) hg hu hv
    (by show m.nvars + 1 ≤ _; omega)
  have hraw : iteRaw g u v { m with ctx := true } = iteF (m.nvars + 2) g u v { m with ctx := true } :=
    iteRaw_eq g u v _
  rcases h.cases with ⟨r, m1, he, hs, hp⟩ | ⟨m1, he, hs, ha⟩
  · have : ite g u v m = (.ok r, { m1 with ctx := m.ctx }) := by
      unfold ite; exact tryToReorder_ok _ m r m1 (by rw [hraw, he])
    rw [this]
    have hp' : ItePost { m with ctx := true } g u v r m1 := hp
    exact ⟨hs.ofCtx true, hp'.inv.setCtx _, hp'.ext, hp'.mem, hp'.lvl, hp'.den,
      ⟨hp'.frame.vars, hp'.frame.l2v, hp'.frame.lastLen, rfl, hp'.frame.sched, hp'.frame.roots⟩⟩
  · -- aborted: only possible inside a context, where the signal is re-raised
    have hsome : m.lastLen.isSome = true := ha.2
    have hctx : m.ctx = true := by
      rcases hq with h | h
      · exact h
      · rw [h] at hsome; exact Bool.noConfusion hsome
    have hm : ({ m with ctx := true } : Mgr) = m := Mgr.setCtx_self m hctx
    rw [hm] at he hraw hs
    have : ite g u v m = (.error .needsReordering, { m1 with ctx := true }) := by
      rw [ite_nested_eq g u v m hctx, hraw, he]
    rw [this]
    have h1 : m1.ctx = true := by rw [hs.frame.ctx]; exact hctx
    have hm1 : ({ m1 with ctx := true } : Mgr) = m1 := Mgr.setCtx_self m1 h1
    rw [hm1]
    exact ⟨rfl, hs, hctx, hsome⟩

/-- with requests disabled `ite_nested_spec` is `ite_spec_off` -/
theorem ite_spec_off' (m : Mgr) (hI : Inv m) (hoff : m.lastLen = none) (g u v : Int)
    (hg : m.tbl.Mem g) (hu : m.tbl.Mem u) (hv : m.tbl.Mem v) :
    ∃ r m', ite g u v m = (.ok r, m') ∧ ItePost m g u v r m' := by
  obtain ⟨r, m', he, _, hp⟩ := (ite_nested_spec m hI (Or.inr hoff) g u v hg hu hv).off hoff
  exact ⟨r, m', he, hp⟩

end DD
