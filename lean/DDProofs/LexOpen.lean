/-
  DDProofs.LexOpen — the tokens of the wider printer (`printTop`) all have texts, so that its
  output can be laid out with any spellings.
-/
import DDProofs.ParseOpen
import DDProofs.LexLayout
namespace DD

theorem mem_parenN {tok : Tok} {l : List Tok} : ∀ {n : Nat}, tok ∈ parenN n l →
    tok = .lparen ∨ tok = .rparen ∨ tok ∈ l
  | 0, h => Or.inr (Or.inr h)
  | n + 1, h => by
    simp only [parenN, List.mem_cons, List.mem_append, List.not_mem_nil, or_false] at h
    rcases h with h | h | h
    · exact Or.inl h
    · exact mem_parenN h
    · exact Or.inr (Or.inl h)

theorem lexOk_wrapP {n : Nat} {need edge : Bool} {inner : Bool → List Tok}
    (h : ∀ b, ∀ tok ∈ inner b, tok.lexOk = true) : ∀ tok ∈ wrapP n need inner edge, tok.lexOk = true := by
  intro tok ht
  unfold wrapP at ht
  split at ht
  · rcases mem_parenN ht with rfl | rfl | h'
    · rfl
    · rfl
    · exact h true tok h'
  · exact h edge tok ht

theorem lexOk_printO (ex : Ast → Nat) : ∀ (t : Ast), t.LexWF → ∀ edge, ∀ tok ∈ printO ex edge t, tok.lexOk = true := by
  intro t
  induction t with
  | var x => intro h _ tok ht; simp [printO] at ht; subst ht; exact lexOk_of_LexWF (t := .name x) h
  | bool b => intro _ _ tok ht; cases b <;> simp [printO] at ht <;> subst ht <;> rfl
  | num neg d =>
    intro h _ tok ht
    cases neg <;> simp [printO] at ht
    · rcases ht with rfl | rfl
      · rfl
      · exact lexOk_of_LexWF (t := .number d) h
    · rcases ht with rfl | rfl | rfl
      · rfl
      · rfl
      · exact lexOk_of_LexWF (t := .number d) h
  | not e ih =>
    intro h edge tok ht
    simp only [printO, List.mem_cons] at ht
    rcases ht with rfl | ht
    · rfl
    · exact lexOk_wrapP (fun b => ih h b) tok ht
  | bin o l r ihl ihr =>
    intro h edge tok ht
    simp only [printO, List.mem_append, List.mem_cons] at ht
    rcases ht with ht | rfl | ht
    · exact lexOk_wrapP (fun b => ihl h.1 b) tok ht
    · rfl
    · exact lexOk_wrapP (fun b => ihr h.2 b) tok ht
  | ite a b c iha ihb ihc =>
    intro h edge tok ht
    simp only [printO, List.mem_append, List.mem_cons, List.not_mem_nil, or_false] at ht
    rcases ht with rfl | rfl | ht | rfl | ht | rfl | ht | rfl
    · rfl
    · rfl
    · exact lexOk_wrapP (fun b' => iha h.1 b') tok ht
    · rfl
    · exact lexOk_wrapP (fun b' => ihb h.2.1 b') tok ht
    · rfl
    · exact lexOk_wrapP (fun b' => ihc h.2.2 b') tok ht
    · rfl
  | quant fa ns e ih =>
    intro h edge tok ht
    simp only [printO, List.mem_append, List.mem_cons] at ht
    rcases ht with rfl | ht | ht
    · cases fa <;> rfl
    · exact lexOk_of_LexWF (lexWF_printNames ns h.1 tok ht)
    · exact lexOk_wrapP (fun b => ih h.2 b) tok ht
  | subst ss e ih =>
    intro h edge tok ht
    simp only [printO, List.mem_append, List.mem_cons] at ht
    rcases ht with rfl | ht | ht
    · rfl
    · exact lexOk_of_LexWF (lexWF_printSubs ss h.1 tok ht)
    · exact lexOk_wrapP (fun b => ih h.2 b) tok ht

theorem lexOk_printTop (ex : Ast → Nat) (t : Ast) (h : t.LexWF) : ∀ tok ∈ printTop ex t, tok.lexOk = true :=
  lexOk_wrapP (fun b => lexOk_printO ex t h b)

end DD
