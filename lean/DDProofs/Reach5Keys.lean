/-
  DDProofs.Reach5Keys — "the keys of `_pred` are node triples" (`KeysOK` = `PredShape`,
  `KeysShaped` up to the direction of an equation; with `Inv`: `PredNodes`) in EVERY state of
  EVERY history over the widest alphabet `UOp5` — no guard, no hypothesis on the arguments.

  It is a fact about the model's representation (Python's `_pred` is keyed by tuples, the model's
  by lists), that several per-operation theorems take as a hypothesis (`C12_json_load*`,
  `C12_manager_roundtrip`, `C15_bddToMdd_*`).  DDProofs.PredNodesReach proves it for histories of
  `UOp`; DDProofs.PredNodesOrder / DumpJsonDyn have the lemmas `KSM x` ("`x` keeps it") for the
  core, the swaps, sifting, the decorator.  Here: every operation of `UOp2 … UOp5`.
-/
import DDProofs.Reach5
import DDProofs.PredNodesReach
open Std

namespace DD

/-! ### small generic facts -/

theorem ksm_of_state_eq {α : Type} {x : M α} (h : ∀ m, (x m).2 = m) : KSM x :=
  fun m hk => by rw [h m]; exact hk

theorem ksm_mapRes {α : Type} (f : α → Res) {x : M α} (hx : KSM x) (m : Mgr) (h : KeysOK m) :
    KeysOK (mapRes f (x m)).2 := hx m h

theorem ksm_match {α β : Type} {x : M α} (hx : KSM x) (g : α → Mgr → Except Err β × Mgr)
    (hg : ∀ a, KSM (g a)) :
    KSM (fun m => match x m with
      | (.error e, m1) => (.error e, m1)
      | (.ok a, m1) => g a m1) := by
  intro m h
  have h1 := hx m h
  dsimp only
  split
  · rename_i e m1 heq; rw [heq] at h1; exact h1
  · rename_i a m1 heq; rw [heq] at h1; exact hg a m1 h1

/-! ### `UOp2`: `swap`, `reorder`, `undeclare_vars` with any schedule -/

theorem keysOK_setSched {m : Mgr} (h : KeysOK m) (s : List SchedItem) : KeysOK { m with sched := s } :=
  h.congr rfl

theorem withSched_keysOK {α : Type} (sch : List SchedItem) (f : M α) (hf : KSM f) (g : α → Res)
    (m : Mgr) (h : KeysOK m) : KeysOK (withSched sch f g m).2 :=
  keysOK_setSched (hf _ (keysOK_setSched h sch)) []

/-- a table built by inserting `n.key ↦ u` for nodes only has node triples as keys -/
theorem keys_foldl_insert (l : List (Nat × Nd)) :
    ∀ (acc : TreeMap (List Int) Nat), (∀ k u, acc[k]? = some u → ∃ n : Nd, k = n.key) →
      ∀ k u, (l.foldl (fun a (p : Nat × Nd) => a.insert p.2.key p.1) acc)[k]? = some u →
        ∃ n : Nd, k = n.key := by
  induction l with
  | nil => intro acc h; exact h
  | cons p rest ih =>
    intro acc h
    apply ih
    intro k u hk
    rw [TreeMap.getElem?_insert] at hk
    split at hk
    · next heq => exact ⟨p.2, (compare_eq_iff_eq.mp heq).symm⟩
    · exact h k u hk

theorem undeclState_keysOK (m : Mgr) (full : List Nat) : KeysOK (undeclState m full) := by
  intro k u hk
  unfold undeclState at hk
  dsimp only at hk
  rw [TreeMap.foldl_eq_foldl_toList] at hk
  exact keys_foldl_insert _ _ (by intro k u h; simp at h) k u hk

theorem ksm_undeclareVars (vrs : List String) : KSM (undeclareVars vrs) := by
  intro m h
  unfold undeclareVars
  split
  · exact h
  dsimp only
  split
  · exact h
  split
  · exact h
  · exact undeclState_keysOK m _

theorem runOp2_keysOK (op : UOp2) (m : Mgr) (h : KeysOK m) : KeysOK (runOp2 op m).2 := by
  cases op with
  | base o => exact runOp_keysOK o m h
  | swap sch x y => exact withSched_keysOK sch _ (ksm_swap x y false) _ m h
  | sift sch => exact withSched_keysOK sch _ (ksm_reorder none) _ m h
  | reorderTo sch o => exact withSched_keysOK sch _ (ksm_reorder (some o)) _ m h
  | undeclare vrs => exact ksm_undeclareVars vrs m h

/-! ### `UOp3`: `configure` -/

theorem ksm_configure (b : Option Bool) : KSM (configure b) := by
  intro m h
  unfold configure
  simp only [bind, M.bind', M.get, M.set, pure, M.pure']
  cases b with
  | none => exact h
  | some b => cases b <;> exact h.congr rfl

theorem runOp3_keysOK (op : UOp3) (m : Mgr) (h : KeysOK m) : KeysOK (runOp3 op m).2 := by
  cases op with
  | op o => exact runOp2_keysOK o m h
  | configure b => exact ksm_configure (some b) m h

/-! ### `UOp4` -/

theorem ksm_forIn {α β : Type} (f : α → β → M (ForInStep β)) (hf : ∀ a b, KSM (f a b)) :
    ∀ (l : List α) (b : β), KSM (forIn l b f : M β) := by
  intro l
  induction l with
  | nil => intro b; exact ksm_pure b
  | cons a rest ih =>
    intro b
    rw [List.forIn_cons]
    refine ksm_bind (hf a b) (fun r => ?_)
    cases r with
    | done b' => exact ksm_pure b'
    | yield b' => exact ih b'

theorem ksm_cubeStep (x : String × Bool) (r : Int) : KSM (cubeStep x r) := by
  unfold cubeStep
  refine ksm_bind (ksm_bddVar _) (fun u => ?_)
  exact ksm_bind (ksm_apply _ _ _ _) (fun _ => ksm_pure _)

theorem ksm_cube (d : List (String × Bool)) : KSM (cube d) := by
  rw [cube_eq]
  apply ksm_tryToReorder
  unfold cubeBody
  exact ksm_bind (ksm_forIn _ ksm_cubeStep d 1) (fun r => ksm_pure r)

theorem ksm_addInt (i : Int) : KSM (addInt i) := by
  unfold addInt
  repeat' ksm_step

theorem ksm_evalAst : ∀ t : Ast, KSM (evalAst t)
  | .var x => by unfold evalAst; exact ksm_bddVar x
  | .bool b => by unfold evalAst; exact ksm_pure _
  | .num neg d => by unfold evalAst; exact ksm_addInt _
  | .not e => by
    unfold evalAst
    exact ksm_bind (ksm_evalAst e) (fun _ => ksm_apply _ _ _ _)
  | .bin o l r => by
    unfold evalAst
    exact ksm_bind (ksm_evalAst l) (fun _ => ksm_bind (ksm_evalAst r) (fun _ => ksm_apply _ _ _ _))
  | .ite a b c => by
    unfold evalAst
    exact ksm_bind (ksm_evalAst a) (fun _ => ksm_bind (ksm_evalAst b) (fun _ =>
      ksm_bind (ksm_evalAst c) (fun _ => ksm_apply _ _ _ _)))
  | .quant fa ns e => by
    unfold evalAst
    exact ksm_bind (ksm_evalAst e) (fun _ => ksm_quantify _ _ _)
  | .subst ss e => by
    unfold evalAst
    exact ksm_bind (ksm_evalAst e) (fun _ => ksm_rename _ _)

theorem ksm_evalForest : ∀ ts : List Ast, KSM (evalForest ts)
  | [] => by unfold evalForest; exact ksm_pure _
  | t :: ts => by
    unfold evalForest
    exact ksm_bind (ksm_evalAst t) (fun _ => ksm_evalForest ts)

theorem ksm_addExpr (s : String) : KSM (addExpr s) := by
  unfold addExpr
  apply ksm_tryToReorder
  unfold addExprToks
  split
  · exact ksm_evalAst _
  · exact ksm_bind (ksm_evalForest _) (fun _ => ksm_throw _)

theorem ksm_copyBdd (src : Tbl) (u : Int) : KSM (copyBdd src u) := by
  unfold copyBdd
  apply ksm_tryToReorder
  intro m h
  unfold copyBddBody
  have := ksm_copyBddF (some src) (copyMap src m.tbl) (src.nvars + 2) u {} m h
  split
  · rename_i e m1 heq; rw [heq] at this; exact this
  · rename_i r c m1 heq; rw [heq] at this; exact this

theorem ksm_pairStep (x y : String) : KSM (pairStep x y) := by
  unfold pairStep
  refine ksm_bind (ksm_levelOfVar x) (fun jx => ksm_bind (ksm_levelOfVar y) (fun jy => ?_))
  refine ksm_bind (ksm_assert _ _) (fun _ => ?_)
  refine ksm_ite _ ?_ (ksm_pure _)
  split
  exact ksm_bind (ksm_shift _ _) (fun _ => ksm_pure _)

theorem ksm_reorderToPairs : ∀ ps : List (String × String), KSM (reorderToPairs ps)
  | [] => by unfold reorderToPairs; exact ksm_pure _
  | (x, y) :: rest => by
    unfold reorderToPairs
    exact ksm_bind (ksm_pairStep x y) (fun _ => ksm_reorderToPairs rest)

theorem ksm_findOrAddNonInt : KSM findOrAddNonInt := by
  intro m h
  unfold findOrAddNonInt
  have h1 : KeysOK (if m.ctx = true then requestReordering m else (Except.ok (), m)).2 := by
    split
    · exact ksm_requestReordering m h
    · exact h
  generalize (if m.ctx = true then requestReordering m else (Except.ok (), m)) = res at h1
  obtain ⟨r, m1⟩ := res
  cases r <;> exact h1

/-- from the equation that a `split` left behind -/
theorem KeysOK.of_snd_eq {α : Type} {x : Except Err α × Mgr} {r : Except Err α} {m' : Mgr}
    (e : x = (r, m')) (h : KeysOK x.2) : KeysOK m' := by rw [e] at h; exact h

theorem ksm_imageF (umap vmap : Option (List (Int × Int))) (ubad vbad : List Int)
    (Q : List Nat) (fa : Bool) :
    ∀ (f : Nat) (u v : Int) (cache : HashMap (Int × Int) Int),
      KSM (imageF umap vmap ubad vbad Q fa f u v cache) := by
  intro f
  induction f with
  | zero => intro u v c m h; exact h
  | succ f ih =>
    intro u v c m h
    unfold imageF
    try dsimp only
    ksm_cases ih
    all_goals
      rename_i heq hk2
      refine KeysOK.of_snd_eq heq ?_
      split
      · split
        · exact ksm_bddIte _ _ _ _ hk2
        · exact ksm_bddIte _ _ _ _ hk2
      · split
        · rename_i heq2
          refine KeysOK.of_snd_eq heq2 ?_
          split
          · exact ksm_findOrAddNonInt _ hk2
          · exact ksm_findOrAdd _ _ _ _ hk2
        · rename_i heq2
          refine ksm_bddIte _ _ _ _ (KeysOK.of_snd_eq heq2 ?_)
          split
          · exact ksm_findOrAddNonInt _ hk2
          · exact ksm_findOrAdd _ _ _ _ hk2

theorem ksm_adjacentWarn (rn : List (Key × Key)) : KSM (adjacentWarn rn) :=
  ksm_of_state_eq (fun m => (adjacentWarn_ro rn m).1)

theorem ksm_assertValidRename (rn : List (Key × Key)) : KSM (assertValidRename rn) :=
  ksm_of_state_eq (fun m => (assertValidRename_ro rn m).1)

theorem ksm_imageBody (t s : Int) (rn : List (Key × Key)) (q : List Key) (fa : Bool) :
    KSM (imageBody t s rn q fa) := by
  intro m h
  unfold imageBody
  cases hq : mapToLevelE m.tbl q with
  | error e => exact h
  | ok lv =>
    simp only
    split
    · exact h
    obtain ⟨ha, -⟩ := adjacentWarn_ro (resolveRename m.tbl rn) m
    generalize adjacentWarn (resolveRename m.tbl rn) m = r1 at ha
    obtain ⟨x1, m1⟩ := r1
    simp only at ha
    subst ha
    cases x1 with
    | error e => exact h
    | ok _ =>
      simp only
      split
      · exact h
      split
      · exact h
      split
      · exact h
      have k := ksm_imageF (some (intPairs (resolveRename m1.tbl rn))) none
        (badKeys (resolveRename m1.tbl rn)) [] lv fa (2 * m1.nvars + 4) t s {} m1 h
      generalize imageF (some (intPairs (resolveRename m1.tbl rn))) none
        (badKeys (resolveRename m1.tbl rn)) [] lv fa (2 * m1.nvars + 4) t s {} m1 = res at k ⊢
      obtain ⟨r, m2⟩ := res
      cases r <;> exact k

theorem ksm_copyBddK (lm : List (Nat × Key)) :
    ∀ (fu : Nat) (u : Int) (cache : HashMap Nat Int), KSM (copyBddK lm fu u cache) := by
  intro fu
  induction fu with
  | zero => intro u c m h; exact h
  | succ fu ih =>
    intro u cache m h
    unfold copyBddK
    split
    · exact h
    split
    · split <;> exact h
    split
    · exact h
    split
    · exact h
    next n _ _ =>
    have k1 := ih n.lo cache m h
    generalize copyBddK lm fu n.lo cache m = res1 at k1 ⊢
    obtain ⟨r1, m1⟩ := res1
    cases r1 with
    | error e => exact k1
    | ok pc =>
      obtain ⟨p, c1⟩ := pc
      simp only
      have k2 := ih n.hi c1 m1 k1
      generalize copyBddK lm fu n.hi c1 m1 = res2 at k2 ⊢
      obtain ⟨r2, m2⟩ := res2
      cases r2 with
      | error e => exact k2
      | ok qc =>
        obtain ⟨q, c2⟩ := qc
        simp only
        split
        · exact k2
        split
        · exact k2
        split
        · exact k2
        next jnew _ =>
        cases jnew with
        | name nm =>
          simp only
          have k3 := ksm_findOrAddNonInt m2 k2
          generalize findOrAddNonInt m2 = res3 at k3 ⊢
          obtain ⟨r3, m3⟩ := res3
          cases r3 with
          | error e => exact k3
          | ok g =>
            simp only
            have k4 := ksm_bddIte g q p m3 k3
            generalize ite g q p m3 = res4 at k4 ⊢
            obtain ⟨r4, m4⟩ := res4
            cases r4 with
            | error e => exact k4
            | ok r =>
              simp only
              split <;> exact k4
        | lvl i =>
          simp only
          have k3 := ksm_findOrAdd i (-1) 1 m2 k2
          generalize findOrAdd i (-1) 1 m2 = res3 at k3 ⊢
          obtain ⟨r3, m3⟩ := res3
          cases r3 with
          | error e => exact k3
          | ok g =>
            simp only
            have k4 := ksm_bddIte g q p m3 k3
            generalize ite g q p m3 = res4 at k4 ⊢
            obtain ⟨r4, m4⟩ := res4
            cases r4 with
            | error e => exact k4
            | ok r =>
              simp only
              split <;> exact k4

theorem ksm_preimageFallback (t s : Int) (rn : List (Key × Key)) (q : List Nat) (fa : Bool) :
    KSM (preimageFallback t s rn q fa) := by
  intro m h
  unfold preimageFallback
  have k1 := ksm_copyBddK (preimageLevelMap m.nvars rn) (m.nvars + 2) s {} m h
  generalize copyBddK (preimageLevelMap m.nvars rn) (m.nvars + 2) s {} m = res1 at k1 ⊢
  obtain ⟨r1, m1⟩ := res1
  cases r1 with
  | error e => exact k1
  | ok rc =>
    obtain ⟨r, c⟩ := rc
    simp only
    have k2 := ksm_bddIte t r (-1) m1 k1
    generalize ite t r (-1) m1 = res2 at k2 ⊢
    obtain ⟨r2, m2⟩ := res2
    cases r2 with
    | error e => exact k2
    | ok r2 => exact ksm_quantify _ _ _ m2 k2

theorem ksm_preimageBody (t s : Int) (rn : List (Key × Key)) (q : List Key) (fa : Bool) :
    KSM (preimageBody t s rn q fa) := by
  intro m h
  unfold preimageBody
  cases hq : mapToLevelE m.tbl q with
  | error e => exact h
  | ok lv =>
    simp only
    obtain ⟨ha, -⟩ := assertValidRename_ro (resolveRename m.tbl rn) m
    generalize assertValidRename (resolveRename m.tbl rn) m = r1 at ha
    obtain ⟨x1, m1⟩ := r1
    simp only at ha
    subst ha
    cases x1 with
    | error e => exact h
    | ok _ =>
      simp only
      split
      · exact h
      split
      · have k := ksm_imageF none (some (intPairs (resolveRename m1.tbl rn))) []
          (badKeys (resolveRename m1.tbl rn)) lv fa (2 * m1.nvars + 4) t s {} m1 h
        generalize imageF none (some (intPairs (resolveRename m1.tbl rn))) []
          (badKeys (resolveRename m1.tbl rn)) lv fa (2 * m1.nvars + 4) t s {} m1 = res at k ⊢
        obtain ⟨r, m2⟩ := res
        cases r <;> exact k
      · exact ksm_preimageFallback t s _ lv fa m1 h

theorem ksm_image (t s : Int) (rn : List (Key × Key)) (q : List Key) (fa : Bool) :
    KSM (image t s rn q fa) := by
  intro m h
  unfold image
  split
  · exact h
  · exact ksm_tryToReorder (ksm_imageBody t s _ _ fa) m h

theorem ksm_preimage (t s : Int) (rn : List (Key × Key)) (q : List Key) (fa : Bool) :
    KSM (preimage t s rn q fa) := by
  intro m h
  unfold preimage
  split
  · exact h
  · exact ksm_tryToReorder (ksm_preimageBody t s _ _ fa) m h

/-! #### the pickle loader -/

theorem ksm_loadVars (levels : Bool) (n : Nat) :
    ∀ (vs : List (String × Nat)) (lm : List (Nat × Nat)), KSM (loadVars levels n vs lm) := by
  intro vs
  induction vs with
  | nil => intro lm m h; exact h
  | cons x rest ih =>
    intro lm m h
    obtain ⟨var, i⟩ := x
    simp only [loadVars]
    split
    · exact h
    · have k1 := ksm_addVar var (if levels = true then some (i : Int) else none) m h
      generalize addVar var (if levels = true then some (i : Int) else none) m = r1 at k1 ⊢
      obtain ⟨x1, m1⟩ := r1
      cases x1 with
      | error e => exact k1
      | ok j => exact ih _ m1 k1

theorem ksm_loadNodeF (succ : List PEntry) (lm : List (Nat × Nat)) :
    ∀ (fuel : Nat) (u : Int) (umap : TreeMap Int Int), KSM (loadNodeF succ lm fuel u umap) := by
  intro fuel
  induction fuel with
  | zero => intro u umap m h; exact h
  | succ f ih =>
    intro u umap m h
    simp only [loadNodeF]
    ksm_cases ih

theorem ksm_loadAll (succ : List PEntry) (lm : List (Nat × Nat)) (fuel : Nat) :
    ∀ (es : List PEntry) (umap : TreeMap Int Int), KSM (loadAll succ lm fuel es umap) := by
  intro es
  induction es with
  | nil => intro umap m h; exact h
  | cons e rest ih =>
    intro umap m h
    simp only [loadAll]
    split
    · exact ih umap m h
    · have k1 := ksm_loadNodeF succ lm fuel (e.id : Int) umap m h
      generalize loadNodeF succ lm fuel (e.id : Int) umap m = r1 at k1 ⊢
      obtain ⟨x1, m1⟩ := r1
      cases x1 with
      | error er => exact k1
      | ok pr => exact ih pr.2 m1 k1

theorem ksm_loadPickle (f : PickleFile) (levels : Bool) : KSM (loadPickle f levels) := by
  intro m h
  rw [loadPickle_eq]
  split
  · exact h
  split
  · exact h
  unfold loadPickleBody
  have k1 := ksm_loadVars levels f.vars.length f.vars [] m h
  generalize loadVars levels f.vars.length f.vars [] m = r1 at k1 ⊢
  obtain ⟨x1, m1⟩ := r1
  cases x1 with
  | error e => exact k1
  | ok lm =>
    simp only
    have k2 := ksm_loadAll f.succ lm (f.vars.length + f.succ.length + 2) f.succ {} m1 k1
    generalize loadAll f.succ lm (f.vars.length + f.succ.length + 2) f.succ {} m1 = r2 at k2 ⊢
    obtain ⟨x2, m2⟩ := r2
    cases x2 <;> exact k2

theorem runOp4_keysOK (op : UOp4) (m : Mgr) (h : KeysOK m) : KeysOK (runOp4 op m).2 := by
  cases op with
  | op o => exact runOp3_keysOK o m h
  | cube d => exact ksm_cube d m h
  | addExpr s => exact ksm_addExpr s m h
  | image t s rn q fa => exact ksm_image t s rn q fa m h
  | preimage t s rn q fa => exact ksm_preimage t s rn q fa m h
  | gcRooted rs => exact ksm_collectGarbage (some rs) m h
  | reorderToPairs sch ps => exact withSched_keysOK sch _ (ksm_reorderToPairs ps) _ m h
  | copyFrom src u => exact ksm_copyBdd src u m h
  | loadPickle f l => exact ksm_loadPickle f l m h

/-! ### `UOp5` -/

theorem keysOK_dropList : ∀ (us : List Int) (m : Mgr), KeysOK m → KeysOK (dropList us m)
  | [], m, h => h
  | u :: rest, m, h => by
    unfold dropList
    exact keysOK_dropList rest _ (ksm_decref u m h)

theorem keysOK_dropOpt (o : Option Int) (m : Mgr) (h : KeysOK m) : KeysOK (dropOpt o m) := by
  cases o with
  | none => exact h
  | some u => exact ksm_decref u m h

theorem ksm_withTemps {α : Type} (us : List Int) {x : M α} (hx : KSM x) : KSM (withTemps us x) := by
  intro m h
  unfold withTemps
  exact keysOK_dropList us _ (hx m h)

theorem ksm_dmpWrap (u : Int) : KSM (dmpWrap u) := by
  intro m h
  unfold dmpWrap
  split
  · exact h
  · exact ksm_incref u m h

theorem ksm_containsCheck (u : Int) : KSM (containsCheck u) := by
  unfold containsCheck
  repeat' ksm_step

theorem ksm_declare : ∀ names : List String, KSM (declare names) := by
  intro names
  unfold declare
  exact ksm_bind (ksm_forIn _ (fun v _ => ksm_bind (ksm_addVar v none) (fun _ => ksm_pure _)) names _)
    (fun _ => ksm_pure _)

theorem ksm_nodeFromInt (cache : List (Nat × Int)) (uid : Int) : KSM (nodeFromInt cache uid) := by
  unfold nodeFromInt
  have h1 := ksm_dmpWrap
  have h2 := fun (k : Int) => ksm_withTemps (α := Int) [k]
    (ksm_bind (ksm_apply "not" k none none) (fun r => ksm_bind (ksm_dmpWrap r) (fun _ => ksm_pure r)))
  repeat' (first | ksm_step | exact h1 _ | exact h2 _)


theorem ksm_makeNode (vat : List (Nat × String)) (ln : JLine) (cache : List (Nat × Int)) :
    KSM (makeNode false vat ln cache) := by
  unfold makeNode
  refine ksm_bind (ksm_assert _ _) (fun _ => ?_)
  split
  · exact ksm_pure _
  refine ksm_bind (ksm_nodeFromInt cache ln.lo) (fun low => ?_)
  apply ksm_withTemps
  refine ksm_bind (ksm_nodeFromInt cache ln.hi) (fun high => ?_)
  apply ksm_withTemps
  refine ksm_bind (ksm_ofOption _ _) (fun name => ?_)
  simp only [Bool.false_eq_true, if_false]
  refine ksm_bind (ksm_bddVar name) (fun g => ?_)
  refine ksm_bind (ksm_dmpWrap g) (fun _ => ?_)
  apply ksm_withTemps
  refine ksm_bind (ksm_containsCheck g) (fun _ => ?_)
  refine ksm_bind (ksm_containsCheck high) (fun _ => ?_)
  refine ksm_bind (ksm_containsCheck low) (fun _ => ?_)
  refine ksm_bind (ksm_bddIte g high low) (fun u => ?_)
  refine ksm_bind (ksm_dmpWrap u) (fun _ => ?_)
  apply ksm_withTemps
  refine ksm_bind (ksm_assert _ _) (fun _ => ?_)
  exact ksm_bind (ksm_incref u) (fun _ => ksm_pure _)

theorem keysOK_makeNodesE (vat : List (Nat × String)) :
    ∀ (lines : List JLine) (cache : List (Nat × Int)) (m : Mgr), KeysOK m →
      KeysOK (makeNodesE false vat lines cache m).2.2 := by
  intro lines
  induction lines with
  | nil => intro cache m h; exact h
  | cons ln rest ih =>
    intro cache m h
    unfold makeNodesE
    have k1 := ksm_makeNode vat ln cache m h
    generalize makeNode false vat ln cache m = r1 at k1 ⊢
    obtain ⟨x1, m1⟩ := r1
    cases x1 with
    | error e => exact k1
    | ok c1 => exact ih c1 m1 k1

theorem ksm_rootsFromInts (cache : List (Nat × Int)) : ∀ ks : List Int, KSM (rootsFromInts cache ks) := by
  intro ks
  induction ks with
  | nil => unfold rootsFromInts; exact ksm_pure _
  | cons k rest ih =>
    unfold rootsFromInts
    refine ksm_bind (ksm_nodeFromInt cache k) (fun u => ?_)
    intro m h
    have k1 := ih m h
    dsimp only
    generalize rootsFromInts cache rest m = r1 at k1 ⊢
    obtain ⟨x1, m1⟩ := r1
    cases x1 with
    | error e => exact ksm_decref u m1 k1
    | ok us => exact k1

theorem ksm_jsonRoots (f : JsonFile) (cache : List (Nat × Int)) : KSM (jsonRoots f cache) := by
  unfold jsonRoots
  refine ksm_bind ?_ (fun ks => ksm_rootsFromInts cache ks)
  split
  · exact ksm_throw _
  · exact ksm_pure _

theorem keysOK_releaseFailed (cache : List (Nat × Int)) :
    ∀ (l : List (Nat × Int)) (prev : Option Int) (m : Mgr), KeysOK m →
      KeysOK (releaseFailed cache l prev m).2.2 := by
  intro l
  induction l with
  | nil => intro prev m h; exact h
  | cons p rest ih =>
    intro prev m h
    obtain ⟨k, v⟩ := p
    unfold releaseFailed
    have k1 := ksm_nodeFromInt cache (k : Int) m h
    generalize nodeFromInt cache (k : Int) m = r1 at k1 ⊢
    obtain ⟨x1, m1⟩ := r1
    cases x1 with
    | error e => exact k1
    | ok u =>
      dsimp only
      have k2 := ksm_decref u _ (keysOK_dropOpt prev m1 k1)
      generalize decref u (dropOpt prev m1) = r2 at k2 ⊢
      obtain ⟨x2, m3⟩ := r2
      cases x2 with
      | error e => exact k2
      | ok _ => exact ih (some u) m3 k2

theorem keysOK_checkLoop (cache : List (Nat × Int)) :
    ∀ (l : List (Nat × Int)) (prev : Option Int) (m : Mgr), KeysOK m →
      KeysOK (checkLoop false cache l prev m).2.2 := by
  intro l
  induction l with
  | nil => intro prev m h; exact h
  | cons p rest ih =>
    intro prev m h
    obtain ⟨k, v⟩ := p
    unfold checkLoop
    have k1 := ksm_nodeFromInt cache (k : Int) m h
    generalize nodeFromInt cache (k : Int) m = r1 at k1 ⊢
    obtain ⟨x1, m1⟩ := r1
    cases x1 with
    | error e => exact k1
    | ok u =>
      dsimp only
      have hb : KSM (do
          let c ← refOf u
          M.assert (2 ≤ c)
          if false = true then M.assert (3 ≤ c) : M Unit) := by
        repeat' ksm_step
      have k2 := hb _ (keysOK_dropOpt prev m1 k1)
      generalize (do
          let c ← refOf u
          M.assert (2 ≤ c)
          if false = true then M.assert (3 ≤ c) : M Unit) (dropOpt prev m1) = r2 at k2 ⊢
      obtain ⟨x2, m3⟩ := r2
      cases x2 with
      | error e => exact k2
      | ok _ => exact ih (some u) m3 k2


theorem ksm_jsonHeader_false (f : JsonFile) : KSM (jsonHeader f false) := by
  unfold jsonHeader
  refine ksm_bind (ksm_declare _) (fun _ => ?_)
  simp only [Bool.false_eq_true, if_false]
  exact ksm_pure _

theorem keysOK_jsonTry (f : JsonFile) (m : Mgr) (h : KeysOK m) : KeysOK (jsonTry f false m).2.2.2 := by
  unfold jsonTry
  dsimp only
  have k1 := ksm_jsonHeader_false f m h
  generalize jsonHeader f false m = r1 at k1 ⊢
  obtain ⟨x1, m1⟩ := r1
  cases x1 with
  | error e => exact k1
  | ok _ =>
    dsimp only
    have k2 := keysOK_makeNodesE (f.levelOfVar.foldl (fun acc (x : String × Nat) => (x.2, x.1) :: acc) [])
      f.nodes [] m1 k1
    generalize makeNodesE false (f.levelOfVar.foldl (fun acc (x : String × Nat) => (x.2, x.1) :: acc) [])
      f.nodes [] m1 = r2 at k2 ⊢
    obtain ⟨x2, cache, m2⟩ := r2
    cases x2 with
    | error e => exact k2
    | ok _ =>
      dsimp only
      have k3 := ksm_jsonRoots f cache m2 k2
      generalize jsonRoots f cache m2 = r3 at k3 ⊢
      obtain ⟨x3, m3⟩ := r3
      cases x3 with
      | error e => exact k3
      | ok us =>
        dsimp only
        have k4 := keysOK_checkLoop cache cache none m3 k3
        generalize checkLoop false cache cache none m3 = r4 at k4 ⊢
        obtain ⟨x4, last, m4⟩ := r4
        cases x4 with
        | error e => exact keysOK_dropList us m4 k4
        | ok _ => exact k4

theorem keysOK_jsonFinish (f : JsonFile)
    (x : Except Err (List Int) × List (Nat × Int) × Option Int × Mgr)
    (h : KeysOK x.2.2.2) : KeysOK (jsonFinish f false x).2 := by
  obtain ⟨r, cache, prev, m⟩ := x
  cases r with
  | error e =>
    unfold jsonFinish
    dsimp only
    have k1 := keysOK_releaseFailed cache cache prev m h
    generalize releaseFailed cache cache prev m = r1 at k1 ⊢
    obtain ⟨x1, last, m2⟩ := r1
    cases x1 <;> exact keysOK_dropOpt last m2 k1
  | ok us =>
    unfold jsonFinish
    dsimp only
    have k1 := keysOK_releaseFailed cache cache prev m h
    generalize releaseFailed cache cache prev m = r1 at k1 ⊢
    obtain ⟨x1, last, m1⟩ := r1
    dsimp only at k1 ⊢
    split
    · rename_i heq
      refine keysOK_dropOpt last _ (KeysOK.of_snd_eq heq ?_)
      refine ksm_bind (ksm_liftE _) (fun _ => ksm_bind (ksm_of_state_eq dmpAssertConsistent_state) (fun _ => ?_)) m1 k1
      simp only [Bool.false_eq_true, if_false]
      exact ksm_pure _
    · rename_i heq
      refine keysOK_dropList us _ (keysOK_dropOpt last _ (KeysOK.of_snd_eq heq ?_))
      refine ksm_bind (ksm_liftE _) (fun _ => ksm_bind (ksm_of_state_eq dmpAssertConsistent_state) (fun _ => ?_)) m1 k1
      simp only [Bool.false_eq_true, if_false]
      exact ksm_pure _

theorem ksm_loadJson_false (f : JsonFile) : KSM (loadJson f false) := by
  intro m h
  rw [loadJson_false_eq]
  exact keysOK_jsonFinish f _ (keysOK_jsonTry f m h)

theorem ksm_copyVarStep (src : Tbl) (v : String) : KSM (copyVarStep src v) := by
  intro m h
  cases hv : src.vars[v]? with
  | none => simp only [copyVarStep, hv]; exact h
  | some l =>
    simp only [copyVarStep, hv]
    have k := ksm_addVar v (some (l : Int)) m h
    generalize addVar v (some (l : Int)) m = r at k ⊢
    obtain ⟨x, m'⟩ := r
    cases x <;> exact k

theorem ksm_copyVarsCore (src : Tbl) (names : List String) : KSM (copyVarsCore src names) := by
  unfold copyVarsCore
  dsimp only
  have hjp : KSM (do
      forIn names PUnit.unit fun v (_ : PUnit) => do
          copyVarStep src v
          pure (ForInStep.yield PUnit.unit)
      pure () : M Unit) :=
    ksm_bind (ksm_forIn _ (fun v _ => ksm_bind (ksm_copyVarStep src v) (fun _ => ksm_pure _)) names _)
      (fun _ => ksm_pure _)
  split
  · exact ksm_bind (ksm_throw _) (fun _ => hjp)
  · exact hjp

/-- **every operation of `UOp5`, any arguments, any outcome, keeps `KeysOK`** -/
theorem runOp5_keysOK (op : UOp5) (m : Mgr) (h : KeysOK m) : KeysOK (runOp5 op m).2 := by
  cases op with
  | op o => exact runOp4_keysOK o m h
  | loadJson f => exact ksm_loadJson_false f m h
  | copyVars src names => exact ksm_copyVarsCore src names m h

theorem run2_keysOK (ops : List UOp2) (s : St) (h : KeysOK s.m) : KeysOK (run2 ops s).m := by
  induction ops generalizing s with
  | nil => exact h
  | cons op ops ih => exact ih (step2 op s) (runOp2_keysOK op s.m h)

theorem run3_keysOK (ops : List UOp3) (s : St) (h : KeysOK s.m) : KeysOK (run3 ops s).m := by
  induction ops generalizing s with
  | nil => exact h
  | cons op ops ih => exact ih (step3 op s) (runOp3_keysOK op s.m h)

theorem run4_keysOK (ops : List UOp4) (s : St) (h : KeysOK s.m) : KeysOK (run4 ops s).m := by
  induction ops generalizing s with
  | nil => exact h
  | cons op ops ih => exact ih (step4 op s) (runOp4_keysOK op s.m h)

theorem run5_keysOK (ops : List UOp5) (s : St) (h : KeysOK s.m) : KeysOK (run5 ops s).m := by
  induction ops generalizing s with
  | nil => exact h
  | cons op ops ih => exact ih (step5 op s) (runOp5_keysOK op s.m h)

theorem keysOK_init : KeysOK St.init.m := by intro k u hk; simp [St.init] at hk

/-- the invariant of reachable states WITH the fact about the keys of `_pred` -/
structure GoodK (m : Mgr) (ext : Nat → Nat) : Prop where
  good : Good3 m ext
  keys : KeysOK m

theorem GoodK.predNodes {m : Mgr} {ext : Nat → Nat} (h : GoodK m ext) : PredNodes m :=
  h.keys.predNodes h.good.inv

/-- **`reachable5K_from`**: from any state that is good and has no stray key — the empty manager,
the constructor's, a copy, a reduction — every guarded history over `UOp5` ends in such a state -/
theorem reachable5K_from (ops : List UOp5) (s : St) (h : GoodK s.m s.ext) (hg : Ops5Guarded ops s) :
    GoodK (run5 ops s).m (run5 ops s).ext :=
  ⟨reachable5_from ops s h.good hg, run5_keysOK ops s h.keys⟩

theorem reachable5K_inv (ops : List UOp5) (hg : Ops5Guarded ops St.init) :
    GoodK (run5 ops St.init).m (run5 ops St.init).ext :=
  reachable5K_from ops St.init ⟨Good3.init, keysOK_init⟩ hg

end DD
