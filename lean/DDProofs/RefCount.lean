/-
  DDProofs.RefCount — exact reference counts (C06, part 1).

  * `indeg t u` : number of stored edges of the table `t` that point to node `u`
    (a sum over node numbers `< bound t`; inserting / erasing ONE node changes
    exactly one summand, no fact about the map's internal order is used).
  * `RefExact m ext` : `m.ref` has exactly the nodes of `m.tbl` and the terminal as keys
    and `ref u = indeg u + ext u (+1 for the terminal)`, where the ghost function
    `ext` counts the references the user holds.
  * effect of `incref` / `decref` / `findOrAddCore` on `RefExact`.
-/
import DD.Core
import DDProofs.Inv
open Std

namespace DD

/-! ### in-degree -/

/-- number of edges of the node `n` that point to `u` (0, 1 or 2) -/
def edgeCount (n : Nd) (u : Nat) : Nat :=
  (if n.lo.natAbs = u then 1 else 0) + (if n.hi.natAbs = u then 1 else 0)

/-- contribution of the slot `k` of the table to the in-degree of `u` -/
def slotCount (t : Tbl) (u k : Nat) : Nat :=
  match t.node? k with
  | some n => edgeCount n u
  | none => 0

/-- edges into `u` from the nodes numbered `< b` -/
def indegUpTo (t : Tbl) (u : Nat) : Nat → Nat
  | 0 => 0
  | b+1 => indegUpTo t u b + slotCount t u b

theorem indegUpTo_eq_sum (t : Tbl) (u b : Nat) :
    indegUpTo t u b = ((List.range b).map (slotCount t u)).sum := by
  induction b with
  | zero => rfl
  | succ b ih => simp [indegUpTo, List.range_succ, ih]

/-- a number larger than every key of the table -/
def Tbl.bound (t : Tbl) : Nat := t.succ.keys.foldl max 0 + 1

theorem le_foldl_max (l : List Nat) : ∀ (a : Nat), a ≤ l.foldl max a ∧ ∀ k ∈ l, k ≤ l.foldl max a := by
  induction l with
  | nil => intro a; simp
  | cons x xs ih =>
    intro a
    simp only [List.foldl_cons, List.mem_cons, forall_eq_or_imp]
    have h := ih (max a x)
    refine ⟨by omega, by omega, h.2⟩

theorem Tbl.lt_bound (t : Tbl) {k : Nat} {n : Nd} (h : t.node? k = some n) : k < t.bound := by
  have hk : k ∈ t.succ.keys := by
    rw [TreeMap.mem_keys, TreeMap.mem_iff_isSome_getElem?]
    simp only [Tbl.node?] at h
    simp [h]
  have := (le_foldl_max t.succ.keys 0).2 k hk
  unfold Tbl.bound; omega

def indeg (t : Tbl) (u : Nat) : Nat := indegUpTo t u t.bound

/-- the sum is stable once the bound exceeds all keys -/
theorem indegUpTo_stable (t : Tbl) (u : Nat) (b : Nat) (hb : ∀ k n, t.node? k = some n → k < b) :
    ∀ d, indegUpTo t u (b + d) = indegUpTo t u b := by
  intro d
  induction d with
  | zero => rfl
  | succ d ih =>
    show indegUpTo t u (b + d) + slotCount t u (b + d) = _
    rw [ih]
    have : slotCount t u (b + d) = 0 := by
      unfold slotCount
      split
      · next n hn => have := hb _ _ hn; omega
      · rfl
    omega

theorem indeg_eq_upTo (t : Tbl) (u b : Nat) (hb : ∀ k n, t.node? k = some n → k < b) :
    indeg t u = indegUpTo t u b := by
  unfold indeg
  rcases Nat.le_total b t.bound with h | h
  · obtain ⟨d, hd⟩ := Nat.exists_eq_add_of_le h
    rw [hd, indegUpTo_stable t u b hb]
  · obtain ⟨d, hd⟩ := Nat.exists_eq_add_of_le h
    rw [hd, indegUpTo_stable t u t.bound (fun k n h => t.lt_bound h)]

/-- two tables that agree on every slot except `k`, where the second has `c` more edges to `u` -/
theorem indegUpTo_change (t t' : Tbl) (u k c : Nat)
    (hne : ∀ j, j ≠ k → slotCount t' u j = slotCount t u j)
    (hk : slotCount t' u k = slotCount t u k + c) :
    ∀ b, indegUpTo t' u b = indegUpTo t u b + (if k < b then c else 0) := by
  intro b
  induction b with
  | zero => simp [indegUpTo]
  | succ b ih =>
    simp only [indegUpTo, ih]
    by_cases hb : b = k
    · subst hb
      rw [hk]
      simp
      omega
    · rw [hne b hb]
      by_cases h1 : k < b
      · have : k < b + 1 := by omega
        simp [h1, this]; omega
      · have : ¬ k < b + 1 := by omega
        simp [h1, this]

/-- `t'` is `t` with the node `n` added at the free slot `k` -/
structure Tbl.AddedAt (t t' : Tbl) (k : Nat) (n : Nd) : Prop where
  old : t.node? k = none
  new : t'.node? k = some n
  other : ∀ j, j ≠ k → t'.node? j = t.node? j

theorem indeg_added {t t' : Tbl} {k : Nat} {n : Nd} (h : t.AddedAt t' k n) (u : Nat) :
    indeg t' u = indeg t u + edgeCount n u := by
  let b := max (max t.bound t'.bound) (k + 1)
  have hb : ∀ j x, t.node? j = some x → j < b := fun j x hj => by
    have := t.lt_bound hj; omega
  have hb' : ∀ j x, t'.node? j = some x → j < b := fun j x hj => by
    have := t'.lt_bound hj; omega
  rw [indeg_eq_upTo t u b hb, indeg_eq_upTo t' u b hb',
    indegUpTo_change t t' u k (edgeCount n u) (fun j hj => by simp [slotCount, h.other j hj])
      (by simp [slotCount, h.old, h.new]) b]
  have : k < b := by omega
  simp [this]

theorem indeg_removed {t t' : Tbl} {k : Nat} {n : Nd} (h : t'.AddedAt t k n) (u : Nat) :
    indeg t' u = indeg t u - edgeCount n u := by
  rw [indeg_added h u]; omega

/-- a positive in-degree is witnessed by a stored edge -/
theorem indegUpTo_pos {t : Tbl} {u : Nat} : ∀ b, 0 < indegUpTo t u b →
    ∃ k n, t.node? k = some n ∧ (n.lo.natAbs = u ∨ n.hi.natAbs = u) := by
  intro b
  induction b with
  | zero => intro h; simp [indegUpTo] at h
  | succ b ih =>
    intro h
    simp only [indegUpTo] at h
    by_cases h0 : 0 < indegUpTo t u b
    · exact ih h0
    · have hs : 0 < slotCount t u b := by omega
      unfold slotCount at hs
      split at hs
      · next n hn =>
        refine ⟨b, n, hn, ?_⟩
        unfold edgeCount at hs
        by_cases h1 : n.lo.natAbs = u
        · exact Or.inl h1
        · by_cases h2 : n.hi.natAbs = u
          · exact Or.inr h2
          · simp [h1, h2] at hs
      · omega

theorem indeg_pos {t : Tbl} {u : Nat} (h : 0 < indeg t u) :
    ∃ k n, t.node? k = some n ∧ (n.lo.natAbs = u ∨ n.hi.natAbs = u) :=
  indegUpTo_pos _ h

theorem slotCount_le_indegUpTo (t : Tbl) (u k : Nat) : ∀ b, k < b → slotCount t u k ≤ indegUpTo t u b := by
  intro b
  induction b with
  | zero => intro h; omega
  | succ b ih =>
    intro h
    simp only [indegUpTo]
    by_cases hk : k = b
    · subst hk; omega
    · have := ih (by omega); omega

/-- every stored node contributes its edges to the in-degree of its children -/
theorem edgeCount_le_indeg {t : Tbl} {k : Nat} {n : Nd} (h : t.node? k = some n) (u : Nat) :
    edgeCount n u ≤ indeg t u := by
  have := slotCount_le_indegUpTo t u k t.bound (t.lt_bound h)
  simpa [slotCount, h, indeg] using this

theorem indeg_pos_of_lo {t : Tbl} {k : Nat} {n : Nd} (h : t.node? k = some n) : 0 < indeg t n.lo.natAbs := by
  have := edgeCount_le_indeg h n.lo.natAbs
  simp only [edgeCount, if_true] at this
  omega

theorem indeg_pos_of_hi {t : Tbl} {k : Nat} {n : Nd} (h : t.node? k = some n) : 0 < indeg t n.hi.natAbs := by
  have := edgeCount_le_indeg h n.hi.natAbs
  simp only [edgeCount, if_true] at this
  omega

/-- the in-degree only depends on the stored nodes -/
theorem indeg_congr {t t' : Tbl} (h : ∀ k, t'.node? k = t.node? k) (u : Nat) : indeg t' u = indeg t u := by
  let b := max t.bound t'.bound
  have hb : ∀ j x, t.node? j = some x → j < b := fun j x hj => by
    have := t.lt_bound hj; omega
  have hb' : ∀ j x, t'.node? j = some x → j < b := fun j x hj => by
    have := t'.lt_bound hj; omega
  rw [indeg_eq_upTo t u b hb, indeg_eq_upTo t' u b hb']
  generalize b = c
  induction c with
  | zero => rfl
  | succ c ih => simp [indegUpTo, ih, slotCount, h]

/-! ### exact counts -/

/-- the user takes one more reference to node `k` -/
def extInc (ext : Nat → Nat) (k : Nat) : Nat → Nat := fun j => if j = k then ext j + 1 else ext j
/-- the user releases one reference to node `k` -/
def extDec (ext : Nat → Nat) (k : Nat) : Nat → Nat := fun j => if j = k then ext j - 1 else ext j

/-- `m.ref` is exact w.r.t. the ghost ledger `ext` of user-held references -/
structure RefExact (m : Mgr) (ext : Nat → Nat) : Prop where
  /-- the keys of `ref` are the terminal and the stored nodes -/
  dom : ∀ u, (m.ref[u]?).isSome ↔ (u = 1 ∨ (m.tbl.node? u).isSome)
  /-- count = stored edges + user references (+ 1 for the terminal) -/
  cnt : ∀ u c, m.ref[u]? = some c → c = indeg m.tbl u + ext u + (if u = 1 then 1 else 0)
  /-- the user holds nothing on numbers that are not nodes -/
  extZero : ∀ u, m.ref[u]? = none → ext u = 0

theorem RefExact.get {m : Mgr} {ext : Nat → Nat} (h : RefExact m ext) {u : Int} (hu : m.tbl.Mem u) :
    m.ref[u.natAbs]? = some (indeg m.tbl u.natAbs + ext u.natAbs + (if u.natAbs = 1 then 1 else 0)) := by
  have : (m.ref[u.natAbs]?).isSome := (h.dom _).mpr hu
  obtain ⟨c, hc⟩ := Option.isSome_iff_exists.mp this
  rw [hc, h.cnt _ _ hc]

theorem RefExact.mem_of_ext_pos {m : Mgr} {ext : Nat → Nat} (h : RefExact m ext) {u : Nat} (hu : 0 < ext u) :
    u = 1 ∨ (m.tbl.node? u).isSome := by
  apply (h.dom u).mp
  cases hr : m.ref[u]? with
  | none => have := h.extZero u hr; omega
  | some c => rfl

/-! ### `incref`, `decref`, `ref` -/

theorem incref_eq (m : Mgr) (u : Int) (c : Nat) (h : m.ref[u.natAbs]? = some c) :
    incref u m = (.ok (), { m with ref := m.ref.insert u.natAbs (c + 1) }) := by
  simp [incref, h]

theorem decref_eq (m : Mgr) (u : Int) (c : Nat) (h : m.ref[u.natAbs]? = some (c + 1)) :
    decref u m = (.ok (), { m with ref := m.ref.insert u.natAbs c }) := by
  simp [decref, h]

theorem decref_zero (m : Mgr) (u : Int) (h : m.ref[u.natAbs]? = some 0) :
    decref u m = (.ok (), m) := by
  simp [decref, h]

theorem refOf_eq (m : Mgr) (u : Int) (c : Nat) (h : m.ref[u.natAbs]? = some c) :
    refOf u m = (.ok c, m) := by
  simp [refOf, h]

/-- `incref u`: the user takes a reference; only `ref` changes and counts stay exact -/
theorem incref_spec (m : Mgr) (ext : Nat → Nat) (u : Int) (hr : RefExact m ext) (hu : m.tbl.Mem u) :
    ∃ c, m.ref[u.natAbs]? = some c ∧
      incref u m = (.ok (), { m with ref := m.ref.insert u.natAbs (c + 1) }) ∧
      RefExact { m with ref := m.ref.insert u.natAbs (c + 1) } (extInc ext u.natAbs) := by
  have hg := hr.get hu
  refine ⟨_, hg, incref_eq m u _ hg, ?_, ?_, ?_⟩
  · intro k
    simp only [TreeMap.getElem?_insert]
    by_cases hk : u.natAbs = k
    · subst hk; simpa [Tbl.Mem] using hu
    · simpa [hk] using hr.dom k
  · intro k c
    simp only [TreeMap.getElem?_insert, extInc]
    by_cases hk : u.natAbs = k
    · subst hk; simp; intro h; omega
    · have : ¬ k = u.natAbs := fun h => hk h.symm
      simpa [hk, this] using hr.cnt k c
  · intro k
    simp only [TreeMap.getElem?_insert, extInc]
    by_cases hk : u.natAbs = k
    · subst hk; simp
    · have : ¬ k = u.natAbs := fun h => hk h.symm
      simpa [hk, this] using hr.extZero k

/-- `decref u` when the user holds a reference to `u`: the inverse of `incref` -/
theorem decref_spec (m : Mgr) (ext : Nat → Nat) (u : Int) (hr : RefExact m ext) (he : 0 < ext u.natAbs) :
    ∃ c, m.ref[u.natAbs]? = some (c + 1) ∧
      decref u m = (.ok (), { m with ref := m.ref.insert u.natAbs c }) ∧
      RefExact { m with ref := m.ref.insert u.natAbs c } (extDec ext u.natAbs) := by
  have hu : m.tbl.Mem u := hr.mem_of_ext_pos he
  have hg := hr.get hu
  obtain ⟨c, hc⟩ : ∃ c, indeg m.tbl u.natAbs + ext u.natAbs + (if u.natAbs = 1 then 1 else 0) = c + 1 :=
    ⟨indeg m.tbl u.natAbs + (ext u.natAbs - 1) + (if u.natAbs = 1 then 1 else 0), by omega⟩
  rw [hc] at hg
  refine ⟨c, hg, decref_eq m u c hg, ?_, ?_, ?_⟩
  · intro k
    simp only [TreeMap.getElem?_insert]
    by_cases hk : u.natAbs = k
    · subst hk; simpa [Tbl.Mem] using hu
    · simpa [hk] using hr.dom k
  · intro k c'
    simp only [TreeMap.getElem?_insert, extDec]
    by_cases hk : u.natAbs = k
    · subst hk; simp; intro h; omega
    · have : ¬ k = u.natAbs := fun h => hk h.symm
      simpa [hk, this] using hr.cnt k c'
  · intro k
    simp only [TreeMap.getElem?_insert, extDec]
    by_cases hk : u.natAbs = k
    · subst hk; simp
    · have : ¬ k = u.natAbs := fun h => hk h.symm
      simpa [hk, this] using hr.extZero k

/-- `decref` at count 0 does nothing (the Python code warns and returns) -/
theorem decref_floor (m : Mgr) (u : Int) (h : m.ref[u.natAbs]? = some 0) : decref u m = (.ok (), m) :=
  decref_zero m u h

/-- `incref`/`decref`/`ref` on a number that is not a node raise `KeyError` and change nothing -/
theorem incref_not_mem (m : Mgr) (u : Int) (h : m.ref[u.natAbs]? = none) : incref u m = (.error .key, m) := by
  simp [incref, h]
theorem decref_not_mem (m : Mgr) (u : Int) (h : m.ref[u.natAbs]? = none) : decref u m = (.error .key, m) := by
  simp [decref, h]

/-! ### `find_or_add` -/

theorem natAbs_ite_neg (c : Prop) [Decidable c] (v : Int) : (if c then -v else v).natAbs = v.natAbs := by
  split <;> simp

/-- the state after `findOrAddCore` created a node -/
theorem findOrAddCore_cases (m : Mgr) (i : Nat) (v w : Int)
    (hdom : ∀ u : Int, m.tbl.Mem u → (m.ref[u.natAbs]?).isSome) :
    (findOrAddCore i v w m).2 = m ∨
    (m.tbl.Mem v ∧ m.tbl.Mem w ∧ 2 ≤ m.minFree ∧ m.tbl.node? m.minFree = none ∧
      ∃ (n : Nd) (c1 c2 : Nat), n.lo.natAbs = v.natAbs ∧ n.hi.natAbs = w.natAbs ∧ n.lvl = i ∧
        (m.ref.insert m.minFree 0)[v.natAbs]? = some c1 ∧
        ((m.ref.insert m.minFree 0).insert v.natAbs (c1 + 1))[w.natAbs]? = some c2 ∧
        (findOrAddCore i v w m).2 = { m with
          tbl := { m.tbl with succ := m.tbl.succ.insert m.minFree n }
          pred := m.pred.insert n.key m.minFree
          ref := ((m.ref.insert m.minFree 0).insert v.natAbs (c1 + 1)).insert w.natAbs (c2 + 1)
          minFree := nextFree (m.tbl.succ.insert m.minFree n) ((m.tbl.succ.insert m.minFree n).size + 2) m.minFree }) := by
  unfold findOrAddCore
  split
  · exact Or.inl rfl
  split
  · exact Or.inl rfl
  split
  · exact Or.inl rfl
  next h1 h2 h3 =>
  have hv' : (if w < 0 then -v else v).natAbs = v.natAbs := natAbs_ite_neg _ _
  have hw' : (if w < 0 then -w else w).natAbs = w.natAbs := natAbs_ite_neg _ _
  dsimp only
  generalize (if w < 0 then -v else v) = v' at hv' ⊢
  generalize (if w < 0 then -w else w) = w' at hw' ⊢
  generalize (if w < 0 then (-1:Int) else 1) = r
  split
  · exact Or.inl rfl
  split
  · exact Or.inl rfl
  split
  · exact Or.inl rfl
  split
  · exact Or.inl rfl
  next h4 hp h5 h6 h7 =>
  right
  have hmv : m.tbl.Mem v := (Mgr.mem_iff m v).mp (by simpa using h2)
  have hmw : m.tbl.Mem w := (Mgr.mem_iff m w).mp (by simpa using h3)
  have hfree : m.tbl.node? m.minFree = none := by
    rw [TreeMap.contains_eq_isSome_getElem?] at h7
    simpa [Tbl.node?] using h7
  have hne : ∀ u : Int, m.tbl.Mem u → m.minFree ≠ u.natAbs := by
    intro u hu he
    rcases hu with hu | hu
    · omega
    · rw [← he, hfree] at hu; simp at hu
  obtain ⟨c1, hc1⟩ := Option.isSome_iff_exists.mp (hdom v hmv)
  have hc1' : (m.ref.insert m.minFree 0)[v.natAbs]? = some c1 := by
    rw [TreeMap.getElem?_insert]; simp [hne v hmv, hc1]
  obtain ⟨c2, hc2⟩ : ∃ c2, ((m.ref.insert m.minFree 0).insert v.natAbs (c1 + 1))[w.natAbs]? = some c2 := by
    obtain ⟨c, hc⟩ := Option.isSome_iff_exists.mp (hdom w hmw)
    rw [TreeMap.getElem?_insert, TreeMap.getElem?_insert]
    by_cases hvw : v.natAbs = w.natAbs
    · exact ⟨c1 + 1, by simp [hvw]⟩
    · exact ⟨c, by simp [hvw, hne w hmw, hc]⟩
  refine ⟨hmv, hmw, by omega, hfree, ⟨i, v', w'⟩, c1, c2, hv', hw', rfl, hc1', hc2, ?_⟩
  rw [incref_eq _ v' c1 (by rw [hv']; exact hc1')]
  dsimp only
  rw [incref_eq _ w' c2 (by rw [hw', hv']; exact hc2)]
  simp only [hv', hw']

theorem RefExact.isSome {m : Mgr} {ext : Nat → Nat} (h : RefExact m ext) (u : Int) (hu : m.tbl.Mem u) :
    (m.ref[u.natAbs]?).isSome := (h.dom _).mpr hu

/-- every stored edge points to a node of the table (the only clause of `WF` the
reference-count lemmas for `find_or_add` need; it also holds in the middle of `swap`,
when levels are temporarily not ordered) -/
def Tbl.Closed (t : Tbl) : Prop := ∀ u n, t.node? u = some n → t.Mem n.lo ∧ t.Mem n.hi

theorem WF.closed {t : Tbl} (h : WF t) : t.Closed := fun u n hn => ⟨h.lo_mem u n hn, h.hi_mem u n hn⟩

/-- `find_or_add` keeps the counts exact: a new node starts with count 0 (nobody holds it yet)
and each of its children gains one stored edge; an existing or eliminated node changes nothing. -/
theorem findOrAddCore_refExact_of_closed (m : Mgr) (ext : Nat → Nat) (i : Nat) (v w : Int)
    (hw : m.tbl.Closed) (hr : RefExact m ext) :
    RefExact (findOrAddCore i v w m).2 ext := by
  rcases findOrAddCore_cases m i v w hr.isSome with h | ⟨hmv, hmw, h2, hfree, n, c1, c2, hlo, hhi, -, hc1, hc2, h⟩
  · rw [h]; exact hr
  rw [h]
  have hne : ∀ u : Int, m.tbl.Mem u → m.minFree ≠ u.natAbs := by
    intro u hu he
    rcases hu with hu | hu
    · omega
    · rw [← he, hfree] at hu; simp at hu
  have hrf : m.ref[m.minFree]? = none := by
    cases hx : m.ref[m.minFree]? with
    | none => rfl
    | some c =>
      have := (hr.dom m.minFree).mp (by simp [hx])
      rcases this with h1 | h1
      · omega
      · simp [hfree] at h1
  have hadd : m.tbl.AddedAt { m.tbl with succ := m.tbl.succ.insert m.minFree n } m.minFree n :=
    ⟨hfree, by simp [Tbl.node?], fun j hj => by
      simp only [Tbl.node?, TreeMap.getElem?_insert]
      have : ¬ m.minFree = j := fun h => hj h.symm
      simp [this]⟩
  have gv := hr.get hmv
  have gw := hr.get hmw
  rw [TreeMap.getElem?_insert] at hc1
  simp only [hne v hmv, compare_eq_iff_eq, if_false, gv, Option.some.injEq] at hc1
  rw [TreeMap.getElem?_insert, TreeMap.getElem?_insert] at hc2
  simp only [hne w hmw, compare_eq_iff_eq, if_false, gw] at hc2
  have e0 := hr.extZero _ hrf
  have hi0 : indeg m.tbl m.minFree = 0 := by
    cases hz : indeg m.tbl m.minFree with
    | zero => rfl
    | succ z =>
      exfalso
      obtain ⟨k, nn, hk, hkk⟩ := indeg_pos (t := m.tbl) (u := m.minFree) (by omega)
      rcases hkk with hkk | hkk
      · exact hne _ (hw _ _ hk).1 hkk.symm
      · exact hne _ (hw _ _ hk).2 hkk.symm
  refine ⟨?_, ?_, ?_⟩
  · intro u
    show ((((m.ref.insert m.minFree 0).insert v.natAbs (c1 + 1)).insert w.natAbs (c2 + 1))[u]?).isSome ↔
      (u = 1 ∨ (({ m.tbl with succ := m.tbl.succ.insert m.minFree n } : Tbl).node? u).isSome)
    simp only [TreeMap.getElem?_insert, Tbl.node?, compare_eq_iff_eq]
    have := hr.dom u
    simp only [Tbl.node?] at this
    by_cases h1 : w.natAbs = u
    · have hh := hne w hmw
      rw [h1] at hh
      simp only [h1, hh, if_true, if_false, Option.isSome_some, true_iff]
      rw [← h1]; exact hmw
    · by_cases h2 : v.natAbs = u
      · have hh := hne v hmv
        rw [h2] at hh
        simp only [h1, h2, hh, if_true, if_false, Option.isSome_some, true_iff]
        rw [← h2]; exact hmv
      · by_cases h3 : m.minFree = u
        · simp only [h1, h2, h3, if_true, if_false, Option.isSome_some, or_true]
        · simp only [h1, h2, h3, if_false]; exact this
  · intro u c
    show (((m.ref.insert m.minFree 0).insert v.natAbs (c1 + 1)).insert w.natAbs (c2 + 1))[u]? = some c →
      c = indeg ({ m.tbl with succ := m.tbl.succ.insert m.minFree n } : Tbl) u + ext u + (if u = 1 then 1 else 0)
    rw [indeg_added hadd u]
    simp only [TreeMap.getElem?_insert, compare_eq_iff_eq, edgeCount, hlo, hhi]
    by_cases h1 : w.natAbs = u
    · by_cases h2 : v.natAbs = u
      · have hvw : v.natAbs = w.natAbs := h2.trans h1.symm
        rw [if_pos hvw] at hc2
        rw [h2] at hc1
        simp only [h1, h2, if_true, Option.some.injEq] at hc2 ⊢
        intro hc; omega
      · have hvw : ¬ v.natAbs = w.natAbs := fun h => h2 (h.trans h1)
        rw [if_neg hvw, h1] at hc2
        simp only [h1, h2, if_true, if_false, Option.some.injEq] at hc2 ⊢
        intro hc; omega
    · by_cases h2 : v.natAbs = u
      · rw [h2] at hc1
        simp only [h1, h2, if_true, if_false, Option.some.injEq]
        intro hc; omega
      · by_cases h3 : m.minFree = u
        · rw [h3] at hi0 e0
          have : u ≠ 1 := by omega
          simp only [h1, h2, h3, this, if_true, if_false, Option.some.injEq]
          intro hc; omega
        · simp only [h1, h2, h3, if_false]
          intro hc
          have := hr.cnt u c hc
          omega
  · intro u
    show (((m.ref.insert m.minFree 0).insert v.natAbs (c1 + 1)).insert w.natAbs (c2 + 1))[u]? = none → ext u = 0
    simp only [TreeMap.getElem?_insert, compare_eq_iff_eq]
    by_cases h1 : w.natAbs = u
    · simp [h1]
    · by_cases h2 : v.natAbs = u
      · simp [h1, h2]
      · by_cases h3 : m.minFree = u
        · simp [h1, h2, h3]
        · simp only [h1, h2, h3, if_false]
          exact hr.extZero u

/-- what `find_or_add` does to the counters: nothing, or (new node `n` at the old `minFree`)
the new node starts at 0 and every other count grows by the number of edges of `n` into it -/
theorem findOrAddCore_ref_effect_of_closed (m : Mgr) (ext : Nat → Nat) (i : Nat) (v w : Int)
    (hw : m.tbl.Closed) (hr : RefExact m ext) :
    (findOrAddCore i v w m).2 = m ∨
    ∃ n : Nd, m.tbl.AddedAt (findOrAddCore i v w m).2.tbl m.minFree n ∧ n.lvl = i ∧
      n.lo.natAbs = v.natAbs ∧ n.hi.natAbs = w.natAbs ∧ m.tbl.Mem v ∧ m.tbl.Mem w ∧
      (findOrAddCore i v w m).2.ref[m.minFree]? = some 0 ∧
      ∀ u c, u ≠ m.minFree → m.ref[u]? = some c →
        (findOrAddCore i v w m).2.ref[u]? = some (c + edgeCount n u) := by
  have hr' := findOrAddCore_refExact_of_closed m ext i v w hw hr
  rcases findOrAddCore_cases m i v w hr.isSome with h | ⟨hmv, hmw, h2, hfree, n, c1, c2, hlo, hhi, hlvl, -, -, h⟩
  · exact Or.inl h
  right
  have hadd : m.tbl.AddedAt (findOrAddCore i v w m).2.tbl m.minFree n := by
    rw [h]
    exact ⟨hfree, by simp [Tbl.node?], fun j hj => by
      simp only [Tbl.node?, TreeMap.getElem?_insert]
      have : ¬ m.minFree = j := fun h => hj h.symm
      simp [this]⟩
  have hne : ∀ u : Int, m.tbl.Mem u → m.minFree ≠ u.natAbs := by
    intro u hu he
    rcases hu with hu | hu
    · omega
    · rw [← he, hfree] at hu; simp at hu
  refine ⟨n, hadd, hlvl, hlo, hhi, hmv, hmw, ?_, ?_⟩
  · have hm : (findOrAddCore i v w m).2.tbl.Mem (m.minFree : Int) := Or.inr (by simp [hadd.new])
    have hg := hr'.get hm
    simp only [Int.natAbs_natCast] at hg
    rw [hg, indeg_added hadd]
    have hrf : m.ref[m.minFree]? = none := by
      cases hx : m.ref[m.minFree]? with
      | none => rfl
      | some c =>
        rcases (hr.dom m.minFree).mp (by simp [hx]) with h1 | h1
        · omega
        · simp [hfree] at h1
    have e0 := hr.extZero _ hrf
    have hi0 : indeg m.tbl m.minFree = 0 := by
      cases hz : indeg m.tbl m.minFree with
      | zero => rfl
      | succ z =>
        exfalso
        obtain ⟨k, nn, hk, hkk⟩ := indeg_pos (t := m.tbl) (u := m.minFree) (by omega)
        rcases hkk with hkk | hkk
        · exact hne _ (hw _ _ hk).1 hkk.symm
        · exact hne _ (hw _ _ hk).2 hkk.symm
    have h1 := hne v hmv
    have h2 := hne w hmw
    have : m.minFree ≠ 1 := by omega
    simp only [edgeCount, hlo, hhi, e0, hi0, this, if_false]
    have h1' : ¬ v.natAbs = m.minFree := fun h => h1 h.symm
    have h2' : ¬ w.natAbs = m.minFree := fun h => h2 h.symm
    simp [h1', h2']
  · intro u c hu hc
    have hmem : (u = 1 ∨ (m.tbl.node? u).isSome) := (hr.dom u).mp (by simp [hc])
    have hmem' : (findOrAddCore i v w m).2.tbl.Mem (u : Int) := by
      rcases hmem with h1 | h1
      · exact Or.inl (by simpa using h1)
      · exact Or.inr (by simpa [hadd.other u hu] using h1)
    have hg := hr'.get hmem'
    simp only [Int.natAbs_natCast] at hg
    rw [hg, indeg_added hadd, hr.cnt u c hc]
    congr 1; omega

/-- exact counts only read `tbl` and `ref` -/
theorem RefExact.congr {m m' : Mgr} {ext : Nat → Nat} (h : RefExact m ext) (h1 : m'.tbl = m.tbl)
    (h2 : m'.ref = m.ref) : RefExact m' ext :=
  ⟨by rw [h1, h2]; exact h.dom, by rw [h1, h2]; exact h.cnt, by rw [h2]; exact h.extZero⟩

theorem requestReordering_frame (m : Mgr) :
    (requestReordering m).2.tbl = m.tbl ∧ (requestReordering m).2.ref = m.ref ∧
    (requestReordering m).2.pred = m.pred ∧ (requestReordering m).2.minFree = m.minFree ∧
    (requestReordering m).2.cache = m.cache := by
  unfold requestReordering
  split
  · exact ⟨rfl, rfl, rfl, rfl, rfl⟩
  · split
    · split <;> exact ⟨rfl, rfl, rfl, rfl, rfl⟩
    · split <;> exact ⟨rfl, rfl, rfl, rfl, rfl⟩

/-- `findOrAdd` is `findOrAddCore` after an optional reordering request (which touches
neither the table nor the counters), or an error that leaves such a state -/
theorem findOrAdd_cases (m : Mgr) (i : Int) (v w : Int) :
    ∃ m1 : Mgr, m1.tbl = m.tbl ∧ m1.ref = m.ref ∧
      ((findOrAdd i v w m).2 = m1 ∨ (findOrAdd i v w m).2 = (findOrAddCore i.toNat v w m1).2) := by
  have hfr := requestReordering_frame m
  unfold findOrAdd
  by_cases hc : m.ctx = true
  · simp only [hc, if_true]
    cases hq : requestReordering m with
    | mk r m1 =>
      rw [hq] at hfr
      refine ⟨m1, hfr.1, hfr.2.1, ?_⟩
      cases r with
      | error e => exact Or.inl rfl
      | ok x =>
        simp only []
        by_cases hi : i < 0
        · rw [if_pos hi]; exact Or.inl rfl
        · rw [if_neg hi]; exact Or.inr rfl
  · refine ⟨m, rfl, rfl, ?_⟩
    simp only [hc, Bool.false_eq_true, if_false]
    by_cases hi : i < 0
    · rw [if_pos hi]; exact Or.inl rfl
    · rw [if_neg hi]; exact Or.inr rfl

/-- `find_or_add` (with the reordering request of the decorated entry points) keeps counts exact -/
theorem findOrAdd_refExact_of_closed (m : Mgr) (ext : Nat → Nat) (i : Int) (v w : Int)
    (hw : m.tbl.Closed) (hr : RefExact m ext) : RefExact (findOrAdd i v w m).2 ext := by
  obtain ⟨m1, h1, h2, h | h⟩ := findOrAdd_cases m i v w
  · rw [h]; exact hr.congr h1 h2
  · rw [h]
    exact findOrAddCore_refExact_of_closed m1 ext i.toNat v w (by rw [h1]; exact hw) (hr.congr h1 h2)

/-! the same under the full structural invariant -/

theorem findOrAddCore_refExact (m : Mgr) (ext : Nat → Nat) (i : Nat) (v w : Int)
    (hw : WF m.tbl) (hr : RefExact m ext) : RefExact (findOrAddCore i v w m).2 ext :=
  findOrAddCore_refExact_of_closed m ext i v w hw.closed hr

theorem findOrAddCore_ref_effect (m : Mgr) (ext : Nat → Nat) (i : Nat) (v w : Int)
    (hw : WF m.tbl) (hr : RefExact m ext) :
    (findOrAddCore i v w m).2 = m ∨
    ∃ n : Nd, m.tbl.AddedAt (findOrAddCore i v w m).2.tbl m.minFree n ∧ n.lvl = i ∧
      n.lo.natAbs = v.natAbs ∧ n.hi.natAbs = w.natAbs ∧ m.tbl.Mem v ∧ m.tbl.Mem w ∧
      (findOrAddCore i v w m).2.ref[m.minFree]? = some 0 ∧
      ∀ u c, u ≠ m.minFree → m.ref[u]? = some c →
        (findOrAddCore i v w m).2.ref[u]? = some (c + edgeCount n u) :=
  findOrAddCore_ref_effect_of_closed m ext i v w hw.closed hr

theorem findOrAdd_refExact (m : Mgr) (ext : Nat → Nat) (i : Int) (v w : Int)
    (hw : WF m.tbl) (hr : RefExact m ext) : RefExact (findOrAdd i v w m).2 ext :=
  findOrAdd_refExact_of_closed m ext i v w hw.closed hr

/-- `find_or_add` never removes or changes a node -/
theorem findOrAddCore_ext (m : Mgr) (i : Nat) (v w : Int)
    (hdom : ∀ u : Int, m.tbl.Mem u → (m.ref[u.natAbs]?).isSome) :
    Ext m.tbl (findOrAddCore i v w m).2.tbl := by
  rcases findOrAddCore_cases m i v w hdom with h | ⟨-, -, -, hfree, n, c1, c2, -, -, -, -, -, h⟩
  · rw [h]; exact Ext.refl _
  · rw [h]
    refine ⟨rfl, fun k x hk => ?_⟩
    simp only [Tbl.node?, TreeMap.getElem?_insert]
    have : ¬ m.minFree = k := by
      intro he; subst he; rw [hfree] at hk; cases hk
    simpa [this, Tbl.node?] using hk

end DD
