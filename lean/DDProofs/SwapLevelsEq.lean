/-
  DDProofs.SwapLevelsEq — one `swap` with the caller's dict of level sets THREADED
  (DD.OrderLevels) does what the `swap` of DD.Order does, and the patched dict again holds
  exactly the level sets.

  `LevelsOK al m` : for every level `j` of a declared variable, `al[j]` is (as a set) the set of
  nodes whose level is `j`.  It holds of `levelSets m` (= `bdd._levels()`), and
  `swapBodyL_sim` : from `ReorderInv ext m` and `LevelsOK al m`, `swapBodyL al x (x+1) m` returns
  what `swapBody x (x+1) m` returns — same result, same final state, same exceptions — together
  with a dict `al'` such that `LevelsOK al' m'`.  `swapL_sim` : the same for the public entry
  point with arbitrary arguments, `all_levels` given or `None`.
-/
import DDProofs.SwapLevelsSets
import DDProofs.SwapDrivers
import DDProofs.SatList
import DD.OrderLevels
open Std

namespace DD

/-- the threaded dict holds exactly the level sets: for every level of a declared variable its
entry is, as a set, the set of nodes at that level -/
def LevelsOK (al : LevelSets) (m : Mgr) : Prop :=
  ∀ j, j < m.nvars → ∃ l, al[j]? = some l ∧ ∀ u, u ∈ l ↔ ∃ n, m.tbl.node? u = some n ∧ n.lvl = j

/-! ### `_levels()` -/

theorem foldl_insert_get (f : Nat → List Nat) : ∀ (l : List Nat) (acc : LevelSets) (j : Nat),
    (l.foldl (fun acc j => acc.insert j (f j)) acc)[j]? =
      if j ∈ l then some (f j) else acc[j]? := by
  intro l
  induction l with
  | nil => intro acc j; simp
  | cons a rest ih =>
    intro acc j
    rw [List.foldl_cons, ih]
    by_cases h : j ∈ rest
    · simp [h]
    · simp only [h, if_false, List.mem_cons, or_false]
      rw [TreeMap.getElem?_insert]
      by_cases e : j = a
      · subst e; simp
      · have : compare a j ≠ .eq := fun hc => e (Nat.compare_eq_eq.mp hc).symm
        simp [this, e]

/-- `bdd._levels()` holds exactly the level sets -/
theorem levelSets_ok (m : Mgr) (hO : OrderOK m.tbl) : LevelsOK (levelSets m) m := by
  intro j hj
  refine ⟨nodesAt m.tbl j, ?_, mem_nodesAt m.tbl j⟩
  unfold levelSets
  rw [foldl_insert_get (fun j => nodesAt m.tbl j)]
  have : j ∈ m.tbl.vars.toList.map (·.2) := by
    obtain ⟨v, hv, _⟩ := hO.name_at hj
    have hvj : m.tbl.vars[v]? = some j := (hO.inv v j).mpr hv
    exact List.mem_map.mpr ⟨(v, j), TreeMap.mem_toList_iff_getElem?_eq_some.mpr hvj, rfl⟩
  simp [this]

/-! ### the iteration orders -/

theorem nodesAt_strict (t : Tbl) (j : Nat) : (nodesAt t j).Pairwise (· < ·) := by
  rw [nodesAt_eq]
  have h := TreeMap.ordered_keys_toList (t := t.succ)
  have h2 := h.filter (fun p => decide (p.2.lvl = j))
  rw [List.pairwise_map]
  refine h2.imp ?_
  intro a b hab
  exact Nat.compare_eq_lt.mp hab

/-- a Python set holding the nodes of a level, iterated in the model's default order, is the
recomputed level set -/
theorem sort_dedup_eq_nodesAt (t : Tbl) (j : Nat) (l : List Nat)
    (h : ∀ u, u ∈ l ↔ ∃ n, t.node? u = some n ∧ n.lvl = j) : sortNat (dedup l) = nodesAt t j := by
  apply strict_sorted_ext (sortNat_strict (nodup_dedup l)) (nodesAt_strict t j)
  intro x
  rw [mem_sortNat, mem_dedup, h, mem_nodesAt]

/-- with the dict holding the level sets, the threaded lookup of the two iteration orders is
the recomputing one -/
theorem takeSwapOrdersL_eq (al : LevelSets) (m : Mgr) (x y : Nat) (hx : x < m.nvars)
    (hy : y < m.nvars) (hal : LevelsOK al m) :
    takeSwapOrdersL al x y m = takeSwapOrders x y m := by
  obtain ⟨lx, hlx, hmx⟩ := hal x hx
  obtain ⟨ly, hly, hmy⟩ := hal y hy
  unfold takeSwapOrdersL takeSwapOrders
  rw [M.bind_ok (M.get_eq m), M.bind_ok (M.get_eq m), hlx, hly,
    M.bind_ok (M.ofOption_some _ _ _), M.bind_ok (M.ofOption_some _ _ _)]
  simp only [sort_dedup_eq_nodesAt m.tbl x lx hmx, sort_dedup_eq_nodesAt m.tbl y ly hmy]
  rfl

/-! ### the three closing loops -/

theorem newSetsX_spec (m : Mgr) (x y : Nat) (m1 : Mgr) : ∀ (l : List (Nat × Int × Int))
    (acc : List Nat × List Nat),
    (∀ t ∈ l, ∀ n, m.tbl.node? t.1 = some n → n.lvl = x ∨ n.lvl = y) →
    ∃ nx ny, newSetsX m x y l acc m1 = (.ok (nx, ny), m1) ∧
      (∀ u, u ∈ nx ↔ u ∈ acc.1 ∨ ∃ t ∈ l, t.1 = u ∧ ∃ n, m.tbl.node? u = some n ∧ n.lvl ≠ x ∧ n.lvl = y) ∧
      (∀ u, u ∈ ny ↔ u ∈ acc.2 ∨ ∃ t ∈ l, t.1 = u ∧ ∃ n, m.tbl.node? u = some n ∧ n.lvl = x) := by
  intro l
  induction l with
  | nil =>
    intro acc _
    exact ⟨acc.1, acc.2, rfl, fun u => by simp, fun u => by simp⟩
  | cons t rest ih =>
    intro acc h
    obtain ⟨u, v, w⟩ := t
    obtain ⟨nx0, ny0⟩ := acc
    have hrest : ∀ t ∈ rest, ∀ n, m.tbl.node? t.1 = some n → n.lvl = x ∨ n.lvl = y :=
      fun t ht => h t (List.mem_cons_of_mem _ ht)
    unfold newSetsX
    cases hn : m.tbl.succ[u]? with
    | none =>
      simp only
      obtain ⟨nx, ny, hrun, h1, h2⟩ := ih (nx0, ny0) hrest
      refine ⟨nx, ny, hrun, fun a => ?_, fun a => ?_⟩
      · rw [h1]
        constructor
        · rintro (h | ⟨t, ht, e⟩)
          · exact Or.inl h
          · exact Or.inr ⟨t, List.mem_cons_of_mem _ ht, e⟩
        · rintro (h | ⟨t, ht, e, n, hn', hl⟩)
          · exact Or.inl h
          · rcases List.mem_cons.mp ht with rfl | ht
            · simp only at e; subst e
              have : m.tbl.succ[u]? = some n := hn'
              rw [hn] at this; cases this
            · exact Or.inr ⟨t, ht, e, n, hn', hl⟩
      · rw [h2]
        constructor
        · rintro (h | ⟨t, ht, e⟩)
          · exact Or.inl h
          · exact Or.inr ⟨t, List.mem_cons_of_mem _ ht, e⟩
        · rintro (h | ⟨t, ht, e, n, hn', hl⟩)
          · exact Or.inl h
          · rcases List.mem_cons.mp ht with rfl | ht
            · simp only at e; subst e
              have : m.tbl.succ[u]? = some n := hn'
              rw [hn] at this; cases this
            · exact Or.inr ⟨t, ht, e, n, hn', hl⟩
    | some n =>
      simp only
      have hcase := h (u, v, w) List.mem_cons_self n hn
      by_cases hlx : n.lvl = x
      · rw [if_pos hlx]
        obtain ⟨nx, ny, hrun, h1, h2⟩ := ih (nx0, pushNew ny0 u) hrest
        refine ⟨nx, ny, hrun, fun a => ?_, fun a => ?_⟩
        · rw [h1]
          constructor
          · rintro (h | ⟨t, ht, e⟩)
            · exact Or.inl h
            · exact Or.inr ⟨t, List.mem_cons_of_mem _ ht, e⟩
          · rintro (h | ⟨t, ht, e, n', hn', hl1, hl2⟩)
            · exact Or.inl h
            · rcases List.mem_cons.mp ht with rfl | ht
              · simp only at e; subst e
                have : m.tbl.succ[u]? = some n' := hn'
                rw [hn] at this; cases this
                exact absurd hlx hl1
              · exact Or.inr ⟨t, ht, e, n', hn', hl1, hl2⟩
        · rw [h2]
          simp only [mem_pushNew]
          constructor
          · rintro ((h | rfl) | ⟨t, ht, e⟩)
            · exact Or.inl h
            · exact Or.inr ⟨(a, v, w), List.mem_cons_self, rfl, n, hn, hlx⟩
            · exact Or.inr ⟨t, List.mem_cons_of_mem _ ht, e⟩
          · rintro (h | ⟨t, ht, e, n', hn', hl⟩)
            · exact Or.inl (Or.inl h)
            · rcases List.mem_cons.mp ht with rfl | ht
              · simp only at e; exact Or.inl (Or.inr e.symm)
              · exact Or.inr ⟨t, ht, e, n', hn', hl⟩
      · rw [if_neg hlx]
        have hly : n.lvl = y := by rcases hcase with h | h; exact absurd h hlx; exact h
        rw [if_pos hly]
        obtain ⟨nx, ny, hrun, h1, h2⟩ := ih (pushNew nx0 u, ny0) hrest
        refine ⟨nx, ny, hrun, fun a => ?_, fun a => ?_⟩
        · rw [h1]
          simp only [mem_pushNew]
          constructor
          · rintro ((h | rfl) | ⟨t, ht, e⟩)
            · exact Or.inl h
            · exact Or.inr ⟨(a, v, w), List.mem_cons_self, rfl, n, hn, hlx, hly⟩
            · exact Or.inr ⟨t, List.mem_cons_of_mem _ ht, e⟩
          · rintro (h | ⟨t, ht, e, n', hn', hl⟩)
            · exact Or.inl (Or.inl h)
            · rcases List.mem_cons.mp ht with rfl | ht
              · simp only at e; exact Or.inl (Or.inr e.symm)
              · exact Or.inr ⟨t, ht, e, n', hn', hl⟩
        · rw [h2]
          constructor
          · rintro (h | ⟨t, ht, e⟩)
            · exact Or.inl h
            · exact Or.inr ⟨t, List.mem_cons_of_mem _ ht, e⟩
          · rintro (h | ⟨t, ht, e, n', hn', hl⟩)
            · exact Or.inl h
            · rcases List.mem_cons.mp ht with rfl | ht
              · simp only at e; subst e
                have : m.tbl.succ[u]? = some n' := hn'
                rw [hn] at this; cases this
                exact absurd hl hlx
              · exact Or.inr ⟨t, ht, e, n', hn', hl⟩

theorem newSetsFresh_spec (m : Mgr) (y : Nat) (m1 : Mgr) : ∀ (l : List Nat) (acc : List Nat),
    (∀ r ∈ l, ∃ n, m.tbl.node? r = some n ∧ n.lvl = y) →
    ∃ nx, newSetsFresh m y l acc m1 = (.ok nx, m1) ∧ ∀ u, u ∈ nx ↔ u ∈ acc ∨ u ∈ l := by
  intro l
  induction l with
  | nil => intro acc _; exact ⟨acc, rfl, fun u => by simp⟩
  | cons r rest ih =>
    intro acc h
    obtain ⟨n, hn, hl⟩ := h r List.mem_cons_self
    have hn' : m.tbl.succ[r]? = some n := hn
    unfold newSetsFresh
    rw [hn', M.bind_ok (M.ofOption_some _ _ _)]
    simp only [hl, decide_true]
    rw [M.bind_ok (M.assert_true _ _)]
    obtain ⟨nx, hrun, h1⟩ := ih (pushNew acc r) (fun r hr => h r (List.mem_cons_of_mem _ hr))
    refine ⟨nx, hrun, fun u => ?_⟩
    rw [h1, mem_pushNew, List.mem_cons]
    constructor
    · rintro ((h | h) | h)
      · exact Or.inl h
      · exact Or.inr (Or.inl h)
      · exact Or.inr (Or.inr h)
    · rintro (h | h | h)
      · exact Or.inl (Or.inl h)
      · exact Or.inl (Or.inr h)
      · exact Or.inr h

theorem newSetsY_spec (m : Mgr) (x : Nat) (m1 : Mgr) : ∀ (l : List (Nat × Int × Int)) (acc : List Nat),
    (∀ t ∈ l, ∀ n, m.tbl.node? t.1 = some n → n.lvl = x) →
    ∃ ny, newSetsY m x l acc m1 = (.ok ny, m1) ∧
      ∀ u, u ∈ ny ↔ u ∈ acc ∨ ∃ t ∈ l, t.1 = u ∧ (m.tbl.node? u).isSome := by
  intro l
  induction l with
  | nil => intro acc _; exact ⟨acc, rfl, fun u => by simp⟩
  | cons t rest ih =>
    intro acc h
    obtain ⟨u, v, w⟩ := t
    have hrest : ∀ t ∈ rest, ∀ n, m.tbl.node? t.1 = some n → n.lvl = x :=
      fun t ht => h t (List.mem_cons_of_mem _ ht)
    unfold newSetsY
    cases hn : m.tbl.succ[u]? with
    | none =>
      simp only
      obtain ⟨ny, hrun, h1⟩ := ih acc hrest
      refine ⟨ny, hrun, fun a => ?_⟩
      rw [h1]
      constructor
      · rintro (h | ⟨t, ht, e⟩)
        · exact Or.inl h
        · exact Or.inr ⟨t, List.mem_cons_of_mem _ ht, e⟩
      · rintro (h | ⟨t, ht, e, hs⟩)
        · exact Or.inl h
        · rcases List.mem_cons.mp ht with rfl | ht
          · simp only at e; subst e
            have : (m.tbl.succ[u]?).isSome := hs
            rw [hn] at this; cases this
          · exact Or.inr ⟨t, ht, e, hs⟩
    | some n =>
      simp only
      have hl := h (u, v, w) List.mem_cons_self n hn
      simp only [hl, decide_true]
      rw [M.bind_ok (M.assert_true _ _)]
      obtain ⟨ny, hrun, h1⟩ := ih (pushNew acc u) hrest
      refine ⟨ny, hrun, fun a => ?_⟩
      rw [h1, mem_pushNew]
      constructor
      · rintro ((h | rfl) | ⟨t, ht, e⟩)
        · exact Or.inl h
        · exact Or.inr ⟨(a, v, w), List.mem_cons_self, rfl, by
            show (m.tbl.succ[a]?).isSome; rw [hn]; rfl⟩
        · exact Or.inr ⟨t, List.mem_cons_of_mem _ ht, e⟩
      · rintro (h | ⟨t, ht, e, hs⟩)
        · exact Or.inl (Or.inl h)
        · rcases List.mem_cons.mp ht with rfl | ht
          · simp only at e; exact Or.inl (Or.inr e.symm)
          · exact Or.inr ⟨t, ht, e, hs⟩

/-- the closing loops of `swap` under the facts their assertions check: they pass and build
`newx` = the listed nodes now at the lower level together with `xfresh`, `newy` = the listed
nodes now at the upper level -/
theorem checkNewLevelsL_spec (x : Nat) (lx ly : List (Nat × Int × Int)) (xf : List Nat) (m : Mgr)
    (hX : ∀ t ∈ lx, ∀ n, m.tbl.node? t.1 = some n → n.lvl = x ∨ n.lvl = x + 1)
    (hF : ∀ r ∈ xf, ∃ n, m.tbl.node? r = some n ∧ n.lvl = x + 1)
    (hY : ∀ t ∈ ly, ∀ n, m.tbl.node? t.1 = some n → n.lvl = x) :
    ∃ nx ny, checkNewLevelsL x (x + 1) lx ly xf m = (.ok (nx, ny), m) ∧
      (∀ u, u ∈ nx ↔ (∃ t ∈ lx, t.1 = u ∧ ∃ n, m.tbl.node? u = some n ∧ n.lvl = x + 1) ∨ u ∈ xf) ∧
      (∀ u, u ∈ ny ↔ (∃ t ∈ lx, t.1 = u ∧ ∃ n, m.tbl.node? u = some n ∧ n.lvl = x) ∨
        ∃ t ∈ ly, t.1 = u ∧ (m.tbl.node? u).isSome) := by
  obtain ⟨nx1, ny1, hr1, h1x, h1y⟩ := newSetsX_spec m x (x + 1) m lx ([], []) hX
  obtain ⟨nx2, hr2, h2⟩ := newSetsFresh_spec m (x + 1) m xf nx1 hF
  obtain ⟨ny2, hr3, h3⟩ := newSetsY_spec m x m ly ny1 hY
  refine ⟨nx2, ny2, ?_, fun u => ?_, fun u => ?_⟩
  · unfold checkNewLevelsL
    rw [M.bind_ok (M.get_eq m), M.bind_ok hr1]
    simp only
    rw [M.bind_ok hr2, M.bind_ok hr3]
    rfl
  · rw [h2, h1x]
    simp only [List.not_mem_nil, false_or]
    constructor
    · rintro (⟨t, ht, e, n, hn, _, hl⟩ | h)
      · exact Or.inl ⟨t, ht, e, n, hn, hl⟩
      · exact Or.inr h
    · rintro (⟨t, ht, e, n, hn, hl⟩ | h)
      · exact Or.inl ⟨t, ht, e, n, hn, by omega, hl⟩
      · exact Or.inr h
  · rw [h3, h1y]
    simp only [List.not_mem_nil, false_or]

/-! ### `swap` for fixed iteration orders -/

/-- the swap with the dict threaded, for FIXED iteration orders: returns what `swapWith` returns,
and the patched dict holds the level sets of the final state -/
theorem swapWithL_spec (m : Mgr) (ext : Nat → Nat) (s : List SchedItem) (hI : Inv m)
    (hV : OrderOK m.tbl) (hR : RefExact m ext) (hoff : m.ctx = false ∨ m.lastLen = none) (x : Nat)
    (hx : x + 1 < m.nvars) (ox oy : List Nat) (hox : LevelOrder m.tbl x ox)
    (hoy : LevelOrder m.tbl (x + 1) oy) (al : LevelSets) (hal : LevelsOK al m) :
    ∃ r m' al', swapWith x (x + 1) m.len ox oy { m with sched := s } = (.ok r, m') ∧
      swapWithL al x (x + 1) m.len ox oy { m with sched := s } = (.ok (r, al'), m') ∧
      LevelsOK al' m' := by
  have hI1 : Inv { m with sched := s } := hI.setSched s
  have hR1 : RefExact { m with sched := s } ext := hR.congr rfl rfl
  obtain ⟨g, xf, m5, m6, hrun, hex, href6, hsucc6, hM5, hP⟩ :=
    swapPre_spec { m with sched := s } hI1 hV hoff x hx ox oy hox hoy
  have hI6 := hP.inv
  have hR6 := hP.refExact ext hR1
  have hW : WF m.tbl := hI.wf.toWF
  have hroots : ∀ r ∈ gcRoots (some (g.map (fun (k : Nat) => (k : Int)))) m6, (m6.ref[r.natAbs]?).isSome := by
    intro r hr
    simp only [gcRoots, List.mem_map] at hr
    obtain ⟨k, hk, rfl⟩ := hr
    obtain ⟨c, hc, _, hck⟩ := hP.garbage k hk
    have := (hR6.dom c.natAbs).mpr (hP.mem c hc)
    simpa [hck] using this
  obtain ⟨m7, hgc, hG⟩ := collectGarbage_rooted_spec (some (g.map (fun (k : Nat) => (k : Int)))) m6 ext
    hI6 hR6 hroots
  have hWk : ∀ k, gcStart (some (g.map (fun (k : Nat) => (k : Int)))) m6 k → Below m.tbl x k := by
    rintro k ⟨_, r, hr, rfl⟩
    simp only [gcRoots, List.mem_map] at hr
    obtain ⟨k', hk', rfl⟩ := hr
    obtain ⟨c, hc, hl, hck⟩ := hP.garbage k' hk'
    exact ⟨c, hc, hl, by simpa using hck⟩
  have hdead := dead_below (ext := ext) hW hP.rel hWk
  have hsub := hG.sub.sub
  -- what the assertions of the closing loops check
  have hX : ∀ t ∈ ox.map (trip m.tbl), ∀ n, m7.tbl.node? t.1 = some n → n.lvl = x ∨ n.lvl = x + 1 := by
    intro t ht n hn
    obtain ⟨u, hu, rfl⟩ := List.mem_map.mp ht
    rw [trip_fst] at hn
    obtain ⟨n0, hn0, hl0⟩ := (hox.mem u).mp hu
    have h6 := hsub _ _ hn
    by_cases hd : m.tbl.levelOf n0.lo = x + 1 ∨ m.tbl.levelOf n0.hi = x + 1
    · obtain ⟨p, q, hh, _⟩ := hP.rel.dep u n0 hn0 hl0 hd (fun hf => hf)
      rw [hh] at h6; cases h6; exact Or.inl rfl
    · have := hP.rel.indep u n0 hn0 hl0 (fun e => hd (Or.inl e)) (fun e => hd (Or.inr e)) (fun hf => hf)
      rw [this] at h6; cases h6; exact Or.inr rfl
  have hF : ∀ r ∈ xf, ∃ n, m7.tbl.node? r = some n ∧ n.lvl = x + 1 := by
    intro r hr
    obtain ⟨nr, hnr, hlr⟩ := hP.fresh r hr
    refine ⟨nr, (hG.nodes r nr).mpr ⟨hnr, fun hd => ?_⟩, hlr⟩
    exact not_below_of_lower hW hP.rel hnr hlr (hdead r hd)
  have hY : ∀ t ∈ oy.map (trip m.tbl), ∀ n, m7.tbl.node? t.1 = some n → n.lvl = x := by
    intro t ht n hn
    obtain ⟨u, hu, rfl⟩ := List.mem_map.mp ht
    rw [trip_fst] at hn
    obtain ⟨n0, hn0, hl0⟩ := (hoy.mem u).mp hu
    have h6 := hsub _ _ hn
    have := hP.rel.up u n0 hn0 hl0 (fun hf => hf)
    rw [this] at h6; cases h6
    rfl
  obtain ⟨nx, ny, hchkL, hnx, hny⟩ :=
    checkNewLevelsL_spec x (ox.map (trip m.tbl)) (oy.map (trip m.tbl)) xf m7 hX hF hY
  -- the recomputing version: the same run
  obtain ⟨r, m', hrunW, hpost, _⟩ := swapWith_spec m ext s hI hV hR hoff x hx ox oy hox hoy
  have hrunW' := hrunW
  unfold swapWith at hrunW'
  rw [M.bind_ok hrun] at hrunW'
  simp only at hrunW'
  rw [M.bind_ok hex, M.bind_ok hgc, M.bind_ok (M.get_eq m7)] at hrunW'
  obtain ⟨_, m8, hchk, hret⟩ := M.bind_ok_inv hrunW'
  -- `checkNewLevels` does not change the state
  have hm8 : m8 = m7 := by
    have hX' : ∀ t ∈ ox.map (trip m.tbl), ∀ n, m7.tbl.node? t.1 = some n →
        (decide (n.lvl = x) || decide (n.lvl = x + 1)) = true := by
      intro t ht n hn
      rcases hX t ht n hn with h | h <;> simp [h]
    have hY' : ∀ t ∈ oy.map (trip m.tbl), ∀ n, m7.tbl.node? t.1 = some n →
        decide (n.lvl = x) = true := by
      intro t ht n hn; simp [hY t ht n hn]
    have : checkNewLevels x (x + 1) (ox.map (trip m.tbl)) (oy.map (trip m.tbl)) xf m7 = (.ok (), m7) := by
      unfold checkNewLevels
      rw [M.bind_ok (M.get_eq m7)]
      rw [M.bind_ok (checkOld_ok m7 _ _ m7 hX'), M.bind_ok (checkFresh_ok m7 (x + 1) xf m7 hF)]
      exact checkOld_ok m7 _ _ m7 hY'
    rw [this] at hchk
    cases hchk
    rfl
  subst hm8
  have hr : r = (m.len, m8.len) ∧ m' = m8 := by
    cases hret
    exact ⟨rfl, rfl⟩
  obtain ⟨hr1, hm'⟩ := hr
  subst hm'
  refine ⟨r, m', (al.insert x ny).insert (x + 1) nx, hrunW, ?_, ?_⟩
  · unfold swapWithL
    rw [M.bind_ok hrun]
    simp only
    rw [M.bind_ok hex, M.bind_ok hgc, M.bind_ok (M.get_eq m'), M.bind_ok hchkL, hr1]
    rfl
  · -- the patched dict holds the level sets
    have hgch := (swapNodes_extra { m with sched := s } hI1 hoff x hx ox oy hox hoy g xf m5 hrun)
    have hfacts : SwapLevelFacts m m' x ox oy xf := by
      have hxf6 : ∀ k nk, m6.tbl.node? k = some nk → nk.lvl = x + 1 → m.tbl.node? k = none → k ∈ xf := by
        intro k nk hk hl h0
        have : m5.tbl.node? k = some nk := by
          show m5.tbl.succ[k]? = some nk
          rw [← hsucc6]; exact hk
        exact hgch.2 k nk this hl h0
      exact swap_level_facts hI hx hox hoy hP.rel hR6 hgch.1 hxf6 hG
    have hnv : m'.nvars = m.nvars := hpost.exch.nvars
    intro j hj
    rw [hnv] at hj
    by_cases hj1 : j = x + 1
    · subst hj1
      refine ⟨nx, TreeMap.getElem?_insert_self, fun u => ?_⟩
      rw [hnx]
      constructor
      · rintro (⟨t, _, _, n, hn, hl⟩ | h)
        · exact ⟨n, hn, hl⟩
        · exact hF u h
      · rintro ⟨n, hn, hl⟩
        rcases hfacts.lower u n hn hl with h | h
        · exact Or.inl ⟨trip m.tbl u, List.mem_map.mpr ⟨u, h, rfl⟩, trip_fst _ _, n, hn, hl⟩
        · exact Or.inr h
    · by_cases hj0 : j = x
      · subst hj0
        refine ⟨ny, ?_, fun u => ?_⟩
        · rw [TreeMap.getElem?_insert]
          have : compare (j + 1) j ≠ .eq := fun hc => by have := Nat.compare_eq_eq.mp hc; omega
          simp only [this, if_false]
          exact TreeMap.getElem?_insert_self
        · rw [hny]
          constructor
          · rintro (⟨t, _, _, n, hn, hl⟩ | ⟨t, ht, e, hs⟩)
            · exact ⟨n, hn, hl⟩
            · obtain ⟨n, hn⟩ := Option.isSome_iff_exists.mp hs
              subst e
              exact ⟨n, hn, hY t ht n hn⟩
          · rintro ⟨n, hn, hl⟩
            rcases hfacts.upper u n hn hl with h | h
            · exact Or.inl ⟨trip m.tbl u, List.mem_map.mpr ⟨u, h, rfl⟩, trip_fst _ _, n, hn, hl⟩
            · exact Or.inr ⟨trip m.tbl u, List.mem_map.mpr ⟨u, h, rfl⟩, trip_fst _ _, by rw [hn]; rfl⟩
      · obtain ⟨l, hl, hml⟩ := hal j hj
        refine ⟨l, ?_, fun u => ?_⟩
        · rw [TreeMap.getElem?_insert, TreeMap.getElem?_insert]
          have h1 : compare (x + 1) j ≠ .eq := fun hc => hj1 (Nat.compare_eq_eq.mp hc).symm
          have h2 : compare x j ≠ .eq := fun hc => hj0 (Nat.compare_eq_eq.mp hc).symm
          simp only [h1, h2, if_false]
          exact hl
        · rw [hml]
          exact (hfacts.other j hj0 hj1 u).symm

/-! ### agreement of a threaded call with the recomputing call -/

/-- the threaded computation `a` does what the recomputing computation `b` does: on success the
same result and state, a dict that holds the level sets, and the reordering invariant; on failure
the same exception in the same state -/
def SimL {α} (ext : Nat → Nat) (a : Except Err (α × LevelSets) × Mgr) (b : Except Err α × Mgr) :
    Prop :=
  match b with
  | (.ok r, m') => ∃ al', a = (.ok (r, al'), m') ∧ ReorderInv ext m' ∧ LevelsOK al' m'
  | (.error e, m') => a = (.error e, m')

/-- `swap` on two adjacent valid levels, dict threaded vs. recomputed -/
theorem swapBodyL_sim (ext : Nat → Nat) (m : Mgr) (h : ReorderInv ext m) (x : Nat)
    (hx : x + 1 < m.nvars) (al : LevelSets) (hal : LevelsOK al m) :
    SimL ext (swapBodyL al x (x + 1) m) (swapBody x (x + 1) m) := by
  have hstep := (swapOK ext).step m x h hx
  unfold swapBodyL
  unfold swapBody at hstep ⊢
  rw [M.bind_ok (M.get_eq m), M.bind_eq] at hstep
  rw [M.bind_ok (M.get_eq m), M.bind_ok (M.get_eq m), M.bind_eq, M.bind_eq,
    takeSwapOrdersL_eq al m x (x + 1) (by omega) hx hal]
  have hts := takeSwapOrders_spec x (x + 1) m
  generalize hres : takeSwapOrders x (x + 1) m = res at hts hstep ⊢
  obtain ⟨r, m1⟩ := res
  cases r with
  | error e => exact rfl
  | ok oo =>
    obtain ⟨ox, oy⟩ := oo
    obtain ⟨⟨s, rfl, _⟩, hox, hoy⟩ := hts
    simp only at hstep ⊢
    obtain ⟨r, m', al', hW, hWL, hal'⟩ := swapWithL_spec m ext s h.inv h.order h.refExact h.off x hx
      ox oy hox hoy al hal
    rw [hW] at hstep ⊢
    rw [hWL]
    exact ⟨al', rfl, hstep.1, hal'⟩

end DD
