/-
  DDProofs.Reach4Start — starting points of a history other than `BDD()`.

  `reachable4_from` (DDProofs.Reach4) takes ANY good state.  Here: the states that the other ways
  of making a manager produce ARE good, so that a history continues in the new manager —
    * the constructor `BDD(levels)`: `newMgr_good` (DDProofs.Reach4New; it concludes `GoodParts`,
      the clauses of `Good2` over notions that do not need DDProofs.Reach; historically DD.Driver —
      where `newMgr` lives — and DDProofs.Reach could not be imported together, now the driver's
      result type is `DD.DRes`): `GoodParts.good3`;
    * `copy.copy(bdd)` (`mgrCopy`): `mgrCopy_start`, from ANY good state (the copy starts with
      reordering not enabled, the same nodes, counts and ledger);
    * `bdd.reduction()`: `reduction_start`, from ANY good state (the new manager holds nothing);
    * a manager that files were loaded into: `.loadPickle` is an operation of `UOp4`.
-/
import DDProofs.Reach4
import DDProofs.Reach4Parts
import DDProofs.Reach4NewCore
import DDProofs.ApiReduction
open Std

namespace DD

theorem goodParts_iff_good2 (m : Mgr) (ext : Nat → Nat) : GoodParts m ext ↔ Good2 m ext :=
  ⟨fun h => ⟨⟨h.inv, h.order, h.exact, h.off, h.ctx⟩, h.sched, h.roots⟩,
   fun h => ⟨h.good.inv, h.good.order, h.good.exact, h.good.off, h.good.ctx, h.sched, h.roots⟩⟩

theorem GoodParts.good3 {m : Mgr} {ext : Nat → Nat} (h : GoodParts m ext) : Good3 m ext :=
  ⟨h.inv, h.order, h.exact, h.ctx, h.sched, h.roots⟩

theorem GoodState.good3 {m : Mgr} {ext : Nat → Nat} (h : GoodState m ext) (hs : m.sched = [])
    (hr : m.roots = []) : Good3 m ext := ⟨h.inv, h.order, h.exact, h.ctx, hs, hr⟩

/-- a history that starts in a state satisfying `GoodParts` — e.g. `(newMgr levels).2` -/
theorem reachable4_from_parts (ops : List UOp4) (m : Mgr) (ext : Nat → Nat) (h : GoodParts m ext)
    (hg : Ops4Guarded ops ⟨m, ext⟩) :
    Good3 (run4 ops ⟨m, ext⟩).m (run4 ops ⟨m, ext⟩).ext :=
  reachable4_from ops ⟨m, ext⟩ h.good3 hg

/-! ### the constructor `BDD(levels)` -/

/-- **`BDD(levels)`** (`newMgrCore` = the driver's `newMgr`, `newMgr_eq_core`): for a dictionary
(distinct names) whose levels are `0..n-1` — in whatever order they are listed, transient gaps
included — the constructor returns a good manager with nothing held, every variable at the level
asked for, no node; a history can start there (`reachable4_from`).  Otherwise it raises
`AssertionError` (`newMgrCore_refused`). -/
theorem newMgrCore_start (levels : List (String × Int)) (hnames : (levels.map (·.1)).Nodup)
    (hchk : newMgrCheck levels = true) :
    (newMgrCore levels).1 = .ok () ∧ Good2 (newMgrCore levels).2 (fun _ => 0) ∧
    (∀ (v : String) (i : Nat), (newMgrCore levels).2.tbl.vars[v]? = some i ↔ (v, (i : Int)) ∈ levels) ∧
    (∀ u : Nat, (newMgrCore levels).2.tbl.node? u = none) := by
  obtain ⟨h1, h2, h3, h4⟩ := newMgrCore_good levels hnames hchk
  exact ⟨h1, (goodParts_iff_good2 _ _).mp h2, h3, h4⟩

/-! ### `copy.copy(bdd)` -/

/-- the copy of a good manager (reordering enabled or not) is a good manager for the same ledger,
with the same table; reordering is not enabled in the copy -/
theorem mgrCopy_start (m : Mgr) (ext : Nat → Nat) (h : Good3 m ext) :
    ∃ b, mgrCopy m = .ok b ∧ Good3 b ext ∧ b.lastLen = none ∧ b.tbl = m.tbl := by
  obtain ⟨b, he, ht, -, -, -, hroots, -, hg, -⟩ := mgrCopy_spec m ext h.inv h.order h.exact
  have hs : b.sched = [] := by
    unfold mgrCopy at he
    split at he
    · cases he
    · cases he; rfl
  exact ⟨b, he, hg.good3 hs (hroots.trans h.roots), hg.off, ht⟩

/-! ### `bdd.reduction()` -/

theorem incref_sched {u : Int} {m m' : Mgr} {r : Except Err Unit} (h : incref u m = (r, m')) :
    m'.sched = m.sched := by
  unfold incref at h
  split at h <;> (cases h; rfl)

theorem findOrAddCore_sched (i : Nat) (v w : Int) (m : Mgr) :
    (findOrAddCore i v w m).2.sched = m.sched := by
  unfold findOrAddCore
  dsimp only
  repeat' split
  all_goals first
    | rfl
    | (rename_i ha _ _ _ hb
       have a := incref_sched ha
       have b := incref_sched hb
       simp [a, b]
       done)
    | (rename_i ha
       have a := incref_sched ha
       simp [a]
       done)

theorem findOrAdd_sched (i v w : Int) (m : Mgr) : (findOrAdd i v w m).2.sched = m.sched := by
  unfold findOrAdd
  by_cases hc : m.ctx = true
  · rw [if_pos hc]
    rcases requestReordering_cases m with ⟨f, hr⟩ | ⟨f, hr, -⟩
    · rw [hr]
      simp only
      split
      · rfl
      · rw [findOrAddCore_sched]
    · rw [hr]
  · rw [if_neg hc]
    simp only
    split
    · rfl
    · rw [findOrAddCore_sched]

theorem reductionStep_sched {it : LevelItem} {st st' : RedSt} (h : reductionStep it st = .ok st') :
    st'.1.sched = st.1.sched := by
  unfold reductionStep at h
  split at h
  · cases h
  · split at h
    · cases h
    split at h
    · cases h
    split at h
    · cases h
    split at h
    · cases h
    · next r b' heq =>
      split at h
      · cases h
      · cases h
        have := congrArg (fun x => x.2.sched) heq
        simp only at this
        rw [← this]
        exact findOrAdd_sched _ _ _ st.1

theorem reductionLoop_sched : ∀ (its : List LevelItem) (st st' : RedSt),
    reductionLoop its st = .ok st' → st'.1.sched = st.1.sched := by
  intro its
  induction its with
  | nil => intro st st' h; cases h; rfl
  | cons it rest ih =>
    intro st st' h
    unfold reductionLoop at h
    split at h
    · cases h
    · next st1 h1 => exact (ih st1 st' h).trans (reductionStep_sched h1)

theorem reductionBody_sched {t : Tbl} {roots : List Int} {ord : List Nat} {b : Mgr}
    (h : reductionBody t roots ord = .ok b) : b.sched = [] := by
  unfold reductionBody at h
  split at h
  · cases h
  split at h
  · cases h
  · next b1 umap hl =>
    split at h
    · cases h
    · cases h
      exact reductionLoop_sched _ _ _ hl

/-- `bdd.reduction()` from ANY good state (no registered roots): the call returns a NEW manager
that is good with nothing held — node by node the source, same variables, same functions
(`ReductionPost`) — and leaves `self` as it was -/
theorem reduction_start (m : Mgr) (ext : Nat → Nat) (h : Good3 m ext) (ord : List Nat)
    (ho : SuccOrder m.tbl ord) :
    ∃ b tr, reduction ord m = (.ok b, m) ∧ Good3 b (fun _ => 0) ∧ b.lastLen = none ∧
      ReductionPost m.tbl m.roots b tr := by
  have hroots : ∀ v ∈ m.roots, m.tbl.Mem v := by rw [h.roots]; intro v hv; cases hv
  obtain ⟨b, tr, he, hp⟩ := reductionBody_spec m.tbl h.inv.wf h.order m.roots hroots ord ho
  obtain ⟨b', tr', he', hp'⟩ := reduction_spec m h.inv h.order hroots ord ho
  have hbr : b.roots = [] := by
    apply List.eq_nil_iff_forall_not_mem.mpr
    intro r hr
    obtain ⟨v, hv, -⟩ := (hp.roots r).mp hr
    rw [h.roots] at hv
    cases hv
  refine ⟨b, tr, ?_, hp.good.good3 (reductionBody_sched he) hbr, hp.good.off, hp⟩
  have hm : ({ ({ m with ctx := true } : Mgr) with ctx := m.ctx } : Mgr) = m := by cases m; rfl
  unfold reduction
  rw [tryToReorder_ok (fun m => (reductionBody m.tbl m.roots ord, m)) m b { m with ctx := true }
    (by show (reductionBody m.tbl m.roots ord, _) = _; rw [he]), hm]

end DD
