/-
  DDProofs.ParseProofs — the model parser reads every formula with the precedence and
  associativity of the table: printing a syntax tree with parentheses exactly where the
  table requires them (or with any additional, redundant parentheses) and parsing the
  tokens gives the tree back.
-/
import DD.Parse
import DD.Doc
namespace DD
open Tok

/-! ### facts about the regenerated precedence table (re-checked by `decide`) -/

theorem notPrec_eq : notPrec = 8 := by decide
theorem bodyPrec_eq : bodyPrec = 1 := by decide

theorem binop_prec_pos (o : BinOp) : 1 ≤ o.prec := by cases o <;> decide
theorem binop_prec_lt_not (o : BinOp) : o.prec < notPrec := by cases o <;> decide

/-! ### printing -/

/-- level of a tree as an operand: binders lowest (they extend to the right as far as
possible), binary operators by the table, then negation, then atoms -/
def Ast.lvl : Ast → Nat
  | .bin o _ _ => o.prec
  | .not _ => notPrec
  | .quant _ _ _ => 0
  | .subst _ _ => 0
  | _ => notPrec + 2

def paren (b : Bool) (l : List Tok) : List Tok :=
  if b then .lparen :: (l ++ [.rparen]) else l

def printNames : List String → List Tok
  | [] => [.colon]
  | [x] => [.name x, .colon]
  | x :: y :: xs => .name x :: .comma :: printNames (y :: xs)

def printSubs : List (String × String) → List Tok
  | [] => [.colon]
  | [(new, old)] => [.name new, .div, .name old, .colon]
  | (new, old) :: s :: ss => .name new :: .div :: .name old :: .comma :: printSubs (s :: ss)

/-- tokens of a tree: an operand is parenthesised when its level is below the level its
position requires (left operand: the operator's level, right operand: one more — left
associativity; operand of `~`: the level of `~`), or when `ex` asks for (redundant)
parentheses -/
def printRaw (ex : Ast → Bool) : Ast → List Tok
  | .var x => [.name x]
  | .bool true => [.tt]
  | .bool false => [.ff]
  | .num false d => [.at, .number d]
  | .num true d => [.at, .op .minus, .number d]
  | .not e => .not :: paren (decide (e.lvl < notPrec) || ex e) (printRaw ex e)
  | .bin o l r =>
    paren (decide (l.lvl < o.prec) || ex l) (printRaw ex l) ++
      .op o :: paren (decide (r.lvl < o.prec + 1) || ex r) (printRaw ex r)
  | .ite a b c =>
    .ite :: .lparen :: (paren (ex a) (printRaw ex a) ++ .comma :: (paren (ex b) (printRaw ex b) ++
      .comma :: (paren (ex c) (printRaw ex c) ++ [.rparen])))
  | .quant fa ns e =>
    (if fa then .forall_ else .exists_) :: (printNames ns ++ paren (ex e) (printRaw ex e))
  | .subst ss e => .rename :: (printSubs ss ++ paren (ex e) (printRaw ex e))

/-- a whole formula -/
def printG (ex : Ast → Bool) (t : Ast) : List Tok := paren (ex t) (printRaw ex t)

/-- parentheses exactly where precedence / left associativity require them -/
def printMin (t : Ast) : List Tok := printG (fun _ => false) t

/-- every sub-formula parenthesised -/
def printFull (t : Ast) : List Tok := printG (fun _ => true) t

/-- well-formed trees: binder lists are not empty -/
def Ast.WF : Ast → Prop
  | .not e => e.WF
  | .bin _ l r => l.WF ∧ r.WF
  | .ite a b c => a.WF ∧ b.WF ∧ c.WF
  | .quant _ ns e => ns ≠ [] ∧ e.WF
  | .subst ss e => ss ≠ [] ∧ e.WF
  | _ => True

/-! ### unfolding the parser -/

@[simp] theorem bindF_ok (pre : List Ast) (a : α) (k : α → PRes β) :
    PRes.bindF pre (.ok a) k = k a := rfl

@[simp] theorem bindF_error (pre : List Ast) (fr : List Ast) (e : PErr) (k : α → PRes β) :
    PRes.bindF pre (.error (fr, e) : PRes α) k = .error (pre ++ fr, e) := rfl

theorem exprWith_eq (f p : Nat) (toks : List Tok) :
    exprWith (fun t => parsePrefix f t) (fun p a t => parseLoop f p a t) p toks = parseExpr f p toks := rfl

theorem parseExpr_eq (f p : Nat) (toks : List Tok) :
    parseExpr f p toks = PRes.bindF [] (parsePrefix f toks) fun ar => parseLoop f p ar.1 ar.2 := rfl

theorem prefix_tt (f : Nat) (rest : List Tok) :
    parsePrefix (f+1) (.tt :: rest) = atomDone (.bool true) [] rest := by
  simp [parsePrefix]

theorem prefix_ff (f : Nat) (rest : List Tok) :
    parsePrefix (f+1) (.ff :: rest) = atomDone (.bool false) [] rest := by
  simp [parsePrefix]

theorem prefix_name (f : Nat) (x : String) (rest : List Tok) :
    parsePrefix (f+1) (.name x :: rest) = atomDone (.var x) [] rest := by
  simp [parsePrefix]

theorem prefix_at (f : Nat) (d : String) (rest : List Tok) :
    parsePrefix (f+1) (.at :: .number d :: rest) = atomDone (.num false d) [] rest := by
  simp [parsePrefix]

theorem prefix_at_minus (f : Nat) (d : String) (rest : List Tok) :
    parsePrefix (f+1) (.at :: .op .minus :: .number d :: rest) = atomDone (.num true d) [] rest := by
  simp [parsePrefix]

theorem prefix_not (f : Nat) (rest : List Tok) :
    parsePrefix (f+1) (.not :: rest) =
      PRes.bindF [] (parseExpr f notPrec rest) fun er => .ok (.not er.1, er.2) := by
  simp [parsePrefix, exprWith_eq]

theorem prefix_lparen (f : Nat) (rest : List Tok) :
    parsePrefix (f+1) (.lparen :: rest) =
      PRes.bindF [] (parseExpr f 0 rest) fun er => closeParen er.1 er.2 := by
  simp [parsePrefix, exprWith_eq]

theorem prefix_ite (f : Nat) (rest : List Tok) :
    parsePrefix (f+1) (.ite :: .lparen :: rest) =
      PRes.bindF [] (parseExpr f 0 rest)
        fun ar => expectComma [ar.1] (fun r1 =>
          PRes.bindF [ar.1] (parseExpr f 0 r1)
            fun br => expectComma [ar.1, br.1] (fun r2 =>
              PRes.bindF [ar.1, br.1] (parseExpr f 0 r2)
                fun cr => closeIte ar.1 br.1 cr.1 cr.2) br.2) ar.2 := by
  simp [parsePrefix, exprWith_eq]

theorem prefix_forall (f : Nat) (rest : List Tok) :
    parsePrefix (f+1) (.forall_ :: rest) =
      PRes.bindF [] (parseNames rest) fun nr =>
        PRes.bindF [] (parseExpr f bodyPrec nr.2) fun er => .ok (.quant true nr.1 er.1, er.2) := by
  simp [parsePrefix, exprWith_eq]

theorem prefix_exists (f : Nat) (rest : List Tok) :
    parsePrefix (f+1) (.exists_ :: rest) =
      PRes.bindF [] (parseNames rest) fun nr =>
        PRes.bindF [] (parseExpr f bodyPrec nr.2) fun er => .ok (.quant false nr.1 er.1, er.2) := by
  simp [parsePrefix, exprWith_eq]

theorem prefix_rename (f : Nat) (rest : List Tok) :
    parsePrefix (f+1) (.rename :: rest) =
      PRes.bindF [] (parseSubs rest) fun sr =>
        PRes.bindF [] (parseExpr f bodyPrec sr.2) fun er => .ok (.subst sr.1 er.1, er.2) := by
  simp [parsePrefix, exprWith_eq]

theorem loop_op (f p : Nat) (lhs : Ast) (o : BinOp) (rest : List Tok) :
    parseLoop (f+1) p lhs (.op o :: rest) =
      if p ≤ o.prec then
        PRes.bindF [lhs] (parseExpr f (o.prec + 1) rest) fun rr => parseLoop f p (.bin o lhs rr.1) rr.2
      else .ok (lhs, .op o :: rest) := by
  simp [parseLoop, exprWith_eq]

/-- the operator loop stops at `rest` for binding power `p` -/
def stops (p : Nat) : List Tok → Prop
  | .op o :: _ => o.prec < p
  | _ => True

theorem stops_mono {p q : Nat} {rest : List Tok} (h : stops p rest) (hpq : p ≤ q) : stops q rest := by
  cases rest with
  | nil => trivial
  | cons t r => cases t <;> simp_all [stops] <;> omega

theorem stops_not (rest : List Tok) : stops notPrec rest := by
  cases rest with
  | nil => trivial
  | cons t r => cases t <;> simp [stops]; exact binop_prec_lt_not _

theorem loop_stops (f p : Nat) (lhs : Ast) (rest : List Tok) (h : stops p rest) :
    parseLoop (f+1) p lhs rest = .ok (lhs, rest) := by
  cases rest with
  | nil => simp [parseLoop]
  | cons t r =>
    cases t <;> simp [parseLoop]
    simp [stops] at h
    omega

/-! ### name lists -/

theorem parseNames_print : ∀ (ns : List String) (rest : List Tok), ns ≠ [] →
    parseNames (printNames ns ++ rest) = .ok (ns, rest)
  | [], _, h => absurd rfl h
  | [x], rest, _ => by simp [printNames, parseNames]
  | x :: y :: xs, rest, _ => by
    have ih := parseNames_print (y :: xs) rest (by simp)
    simp [printNames, parseNames, ih]

theorem parseSubs_print : ∀ (ss : List (String × String)) (rest : List Tok), ss ≠ [] →
    parseSubs (printSubs ss ++ rest) = .ok (ss, rest)
  | [], _, h => absurd rfl h
  | [(new, old)], rest, _ => by simp [printSubs, parseSubs]
  | (new, old) :: s :: ss, rest, _ => by
    have ih := parseSubs_print (s :: ss) rest (by simp)
    simp [printSubs, parseSubs, ih]

/-! ### the main induction -/

/-- an unparenthesised binary operator must bind at least as tightly as the level `p` it is read at -/
def fitsP (p : Nat) : Ast → Prop
  | .bin o _ _ => p ≤ o.prec
  | _ => True

/-- reading `t` (unparenthesised) at level `p` and then whatever follows is the same as
continuing the operator loop of level `p` with `t` as left operand -/
def SpecRaw (ex : Ast → Bool) (t : Ast) : Prop :=
  ∀ (p f : Nat) (rest : List Tok) (res : PRes (Ast × List Tok)),
    fitsP p t → (printRaw ex t ++ rest).length < f → followOk rest = true →
    stops (t.lvl + 1) rest →
    (∀ f', rest.length < f' → parseLoop f' p t rest = res) →
    parseExpr f p (printRaw ex t ++ rest) = res

theorem spec_paren {ex : Ast → Bool} {t : Ast} (h : SpecRaw ex t)
    (p f : Nat) (rest : List Tok) (res : PRes (Ast × List Tok))
    (hf : (Tok.lparen :: (printRaw ex t ++ .rparen :: rest)).length < f)
    (hfol : followOk rest = true)
    (hk : ∀ f', rest.length < f' → parseLoop f' p t rest = res) :
    parseExpr f p (.lparen :: (printRaw ex t ++ .rparen :: rest)) = res := by
  obtain ⟨f0, rfl⟩ : ∃ f0, f = f0 + 1 := ⟨f - 1, by simp at hf; omega⟩
  have hin : parseExpr f0 0 (printRaw ex t ++ .rparen :: rest) = .ok (t, .rparen :: rest) := by
    apply h 0 f0 (.rparen :: rest)
    · cases t <;> simp [fitsP]
    · simp at hf ⊢; omega
    · rfl
    · trivial
    · intro f' hf'
      obtain ⟨f'', rfl⟩ : ∃ f'', f' = f'' + 1 := ⟨f' - 1, by simp at hf'; omega⟩
      exact loop_stops _ _ _ _ trivial
  rw [parseExpr_eq, prefix_lparen, hin]
  simp only [bindF_ok, closeParen, atomDone, hfol, if_true]
  apply hk
  simp at hf ⊢; omega

theorem spec_arg {ex : Ast → Bool} {t : Ast} (h : SpecRaw ex t) (b : Bool)
    (p f : Nat) (rest : List Tok) (res : PRes (Ast × List Tok))
    (hb : b = false → fitsP p t ∧ stops (t.lvl + 1) rest)
    (hf : (paren b (printRaw ex t) ++ rest).length < f)
    (hfol : followOk rest = true)
    (hk : ∀ f', rest.length < f' → parseLoop f' p t rest = res) :
    parseExpr f p (paren b (printRaw ex t) ++ rest) = res := by
  cases b with
  | true =>
    have e : paren true (printRaw ex t) ++ rest = .lparen :: (printRaw ex t ++ .rparen :: rest) := by
      simp [paren]
    rw [e] at hf ⊢
    exact spec_paren h p f rest res hf hfol hk
  | false =>
    obtain ⟨h1, h2⟩ := hb rfl
    exact h p f rest res h1 (by simpa [paren] using hf) hfol h2 hk

theorem fuel_succ {n f : Nat} (h : n < f) : ∃ f0, f = f0 + 1 := ⟨f - 1, by omega⟩

theorem loop_stops' (p : Nat) (t : Ast) (rest : List Tok) (h : stops p rest) :
    ∀ f', rest.length < f' → parseLoop f' p t rest = .ok (t, rest) := by
  intro f' hf'
  obtain ⟨f'', rfl⟩ := fuel_succ hf'
  exact loop_stops _ _ _ _ h

theorem specRaw (ex : Ast → Bool) : ∀ t : Ast, t.WF → SpecRaw ex t := by
  intro t
  induction t with
  | var x =>
    intro _ p f rest res _ hf hfol _ hk
    obtain ⟨f0, rfl⟩ := fuel_succ hf
    simp only [printRaw, List.cons_append, List.nil_append] at hf ⊢
    rw [parseExpr_eq, prefix_name]
    simp only [atomDone, hfol, if_true, bindF_ok]
    apply hk; simp at hf; omega
  | bool b =>
    intro _ p f rest res _ hf hfol _ hk
    obtain ⟨f0, rfl⟩ := fuel_succ hf
    cases b
    · simp only [printRaw, List.cons_append, List.nil_append] at hf ⊢
      rw [parseExpr_eq, prefix_ff]
      simp only [atomDone, hfol, if_true, bindF_ok]
      apply hk; simp at hf; omega
    · simp only [printRaw, List.cons_append, List.nil_append] at hf ⊢
      rw [parseExpr_eq, prefix_tt]
      simp only [atomDone, hfol, if_true, bindF_ok]
      apply hk; simp at hf; omega
  | num neg d =>
    intro _ p f rest res _ hf hfol _ hk
    obtain ⟨f0, rfl⟩ := fuel_succ hf
    cases neg
    · simp only [printRaw, List.cons_append, List.nil_append] at hf ⊢
      rw [parseExpr_eq, prefix_at]
      simp only [atomDone, hfol, if_true, bindF_ok]
      apply hk; simp at hf; omega
    · simp only [printRaw, List.cons_append, List.nil_append] at hf ⊢
      rw [parseExpr_eq, prefix_at_minus]
      simp only [atomDone, hfol, if_true, bindF_ok]
      apply hk; simp at hf; omega
  | not e ih =>
    intro hwf p f rest res _ hf hfol _ hk
    obtain ⟨f0, rfl⟩ := fuel_succ hf
    simp only [printRaw, List.cons_append] at hf ⊢
    rw [parseExpr_eq, prefix_not]
    have hin : parseExpr f0 notPrec
        (paren (decide (e.lvl < notPrec) || ex e) (printRaw ex e) ++ rest) = .ok (e, rest) := by
      apply spec_arg (ih hwf) _ notPrec f0 rest
      · intro hb
        simp at hb
        refine ⟨?_, stops_mono (stops_not rest) (by omega)⟩
        cases e with
        | bin o _ _ =>
          have := binop_prec_lt_not o
          simp [Ast.lvl] at hb
          omega
        | _ => simp [fitsP]
      · simp at hf ⊢; omega
      · exact hfol
      · exact loop_stops' _ _ _ (stops_not rest)
    rw [hin]
    simp only [bindF_ok]
    apply hk; simp at hf; omega
  | bin o l r ihl ihr =>
    intro hwf p f rest res hfit hf hfol hst hk
    obtain ⟨hwl, hwr⟩ := hwf
    simp only [printRaw, List.append_assoc, List.cons_append] at hf ⊢
    simp only [fitsP] at hfit
    simp only [Ast.lvl] at hst
    apply spec_arg (ihl hwl) _ p f _ res
    · intro hb
      simp at hb
      refine ⟨?_, ?_⟩
      · cases l <;> simp [fitsP]
        simp [Ast.lvl] at hb
        omega
      · simp [stops]; omega
    · exact hf
    · rfl
    · intro f' hf'
      obtain ⟨f0, rfl⟩ := fuel_succ hf'
      rw [loop_op, if_pos hfit]
      have hin : parseExpr f0 (o.prec + 1)
          (paren (decide (r.lvl < o.prec + 1) || ex r) (printRaw ex r) ++ rest) = .ok (r, rest) := by
        apply spec_arg (ihr hwr) _ (o.prec + 1) f0 rest
        · intro hb
          simp at hb
          refine ⟨?_, stops_mono hst (by omega)⟩
          cases r <;> simp [fitsP]
          simp [Ast.lvl] at hb
          omega
        · simp at hf' ⊢; omega
        · exact hfol
        · exact loop_stops' _ _ _ hst
      rw [hin]
      simp only [bindF_ok]
      apply hk
      simp at hf'; omega
  | ite a b c iha ihb ihc =>
    intro hwf p f rest res _ hf hfol _ hk
    obtain ⟨hwa, hwb, hwc⟩ := hwf
    obtain ⟨f0, rfl⟩ := fuel_succ hf
    simp only [printRaw, List.append_assoc, List.cons_append, List.nil_append] at hf ⊢
    rw [parseExpr_eq, prefix_ite]
    have ha : parseExpr f0 0 (paren (ex a) (printRaw ex a) ++ .comma :: (paren (ex b) (printRaw ex b) ++
        .comma :: (paren (ex c) (printRaw ex c) ++ .rparen :: rest))) =
        .ok (a, .comma :: (paren (ex b) (printRaw ex b) ++
        .comma :: (paren (ex c) (printRaw ex c) ++ .rparen :: rest))) := by
      apply spec_arg (iha hwa) _ 0 f0
      · intro _
        exact ⟨by cases a <;> simp [fitsP], trivial⟩
      · simp at hf ⊢; omega
      · rfl
      · exact loop_stops' _ _ _ trivial
    have hb : parseExpr f0 0 (paren (ex b) (printRaw ex b) ++
        .comma :: (paren (ex c) (printRaw ex c) ++ .rparen :: rest)) =
        .ok (b, .comma :: (paren (ex c) (printRaw ex c) ++ .rparen :: rest)) := by
      apply spec_arg (ihb hwb) _ 0 f0
      · intro _
        exact ⟨by cases b <;> simp [fitsP], trivial⟩
      · simp at hf ⊢; omega
      · rfl
      · exact loop_stops' _ _ _ trivial
    have hc : parseExpr f0 0 (paren (ex c) (printRaw ex c) ++ .rparen :: rest) =
        .ok (c, .rparen :: rest) := by
      apply spec_arg (ihc hwc) _ 0 f0
      · intro _
        exact ⟨by cases c <;> simp [fitsP], trivial⟩
      · simp at hf ⊢; omega
      · rfl
      · exact loop_stops' _ _ _ trivial
    rw [ha]
    simp only [bindF_ok, expectComma]
    rw [hb]
    simp only [bindF_ok]
    rw [hc]
    simp only [bindF_ok, closeIte, atomDone, hfol, if_true]
    apply hk; simp at hf; omega
  | quant fa ns e ih =>
    intro hwf p f rest res _ hf hfol hst hk
    obtain ⟨hns, hwe⟩ := hwf
    obtain ⟨f0, rfl⟩ := fuel_succ hf
    simp only [Ast.lvl] at hst
    have hst1 : stops bodyPrec rest := by rw [bodyPrec_eq]; exact hst
    have hin : parseExpr f0 bodyPrec (paren (ex e) (printRaw ex e) ++ rest) = .ok (e, rest) := by
      apply spec_arg (ih hwe) _ bodyPrec f0 rest
      · intro _
        refine ⟨?_, stops_mono hst (by omega)⟩
        cases e <;> simp [fitsP]
        rw [bodyPrec_eq]; exact binop_prec_pos _
      · simp [printRaw] at hf ⊢; omega
      · exact hfol
      · exact loop_stops' _ _ _ hst1
    cases fa
    · simp only [printRaw, List.append_assoc, List.cons_append, Bool.false_eq_true, if_false] at hf ⊢
      rw [parseExpr_eq, prefix_exists, parseNames_print ns _ hns]
      simp only [bindF_ok]
      rw [hin]
      simp only [bindF_ok]
      apply hk; simp at hf; omega
    · simp only [printRaw, List.append_assoc, List.cons_append, if_true] at hf ⊢
      rw [parseExpr_eq, prefix_forall, parseNames_print ns _ hns]
      simp only [bindF_ok]
      rw [hin]
      simp only [bindF_ok]
      apply hk; simp at hf; omega
  | subst ss e ih =>
    intro hwf p f rest res _ hf hfol hst hk
    obtain ⟨hss, hwe⟩ := hwf
    obtain ⟨f0, rfl⟩ := fuel_succ hf
    simp only [Ast.lvl] at hst
    have hst1 : stops bodyPrec rest := by rw [bodyPrec_eq]; exact hst
    have hin : parseExpr f0 bodyPrec (paren (ex e) (printRaw ex e) ++ rest) = .ok (e, rest) := by
      apply spec_arg (ih hwe) _ bodyPrec f0 rest
      · intro _
        refine ⟨?_, stops_mono hst (by omega)⟩
        cases e <;> simp [fitsP]
        rw [bodyPrec_eq]; exact binop_prec_pos _
      · simp [printRaw] at hf ⊢; omega
      · exact hfol
      · exact loop_stops' _ _ _ hst1
    simp only [printRaw, List.append_assoc, List.cons_append] at hf ⊢
    rw [parseExpr_eq, prefix_rename, parseSubs_print ss _ hss]
    simp only [bindF_ok]
    rw [hin]
    simp only [bindF_ok]
    apply hk; simp at hf; omega

/-- printing with required (and any redundant) parentheses, then parsing, is the identity -/
theorem parseExpr_printG (ex : Ast → Bool) (t : Ast) (h : t.WF) (f : Nat)
    (hf : (printG ex t).length < f) :
    parseExpr f 0 (printG ex t) = .ok (t, []) := by
  have := spec_arg (specRaw ex t h) (ex t) 0 f [] (.ok (t, []))
    (fun _ => ⟨by cases t <;> simp [fitsP], trivial⟩)
    (by simpa [printG] using hf) rfl (loop_stops' _ _ _ trivial)
  simpa [printG] using this

theorem parse_printG (ex : Ast → Bool) (t : Ast) (h : t.WF) : parse (printG ex t) = some t := by
  simp only [parse, parseE]
  rw [parseExpr_printG ex t h _ (Nat.lt_succ_self _)]

/-- an unparenthesised binder as right operand takes everything to its right:
`l op \A ns : e` is `l op (\A ns : e)` whatever operators `e` contains -/
theorem parse_binder_rhs (l e : Ast) (o : BinOp) (fa : Bool) (ns : List String)
    (hl : l.WF) (he : e.WF) (hns : ns ≠ []) (hlvl : o.prec ≤ l.lvl) :
    parse (printMin l ++ Tok.op o :: (if fa then Tok.forall_ else .exists_) ::
      (printNames ns ++ printMin e)) = some (.bin o l (.quant fa ns e)) := by
  have hq : (Ast.quant fa ns e).WF := ⟨hns, he⟩
  have hraw : printMin l = printRaw (fun _ => false) l := by simp [printMin, printG, paren]
  have hrawq : (if fa then Tok.forall_ else .exists_) :: (printNames ns ++ printMin e) =
      printRaw (fun _ => false) (.quant fa ns e) ++ [] := by
    simp [printMin, printG, paren, printRaw]
  simp only [parse, parseE]
  rw [hraw, hrawq]
  have : parseExpr ((printRaw (fun _ => false) l ++ Tok.op o ::
      (printRaw (fun _ => false) (.quant fa ns e) ++ [])).length + 1) 0
      (printRaw (fun _ => false) l ++ Tok.op o :: (printRaw (fun _ => false) (.quant fa ns e) ++ [])) =
      .ok (.bin o l (.quant fa ns e), []) := by
    apply specRaw _ l hl 0 _ _ _
    · cases l <;> simp [fitsP]
    · exact Nat.lt_succ_self _
    · rfl
    · simp [stops]; omega
    · intro f' hf'
      obtain ⟨f0, rfl⟩ := fuel_succ hf'
      rw [loop_op, if_pos (Nat.zero_le _)]
      have hin : parseExpr f0 (o.prec + 1) (printRaw (fun _ => false) (.quant fa ns e) ++ []) =
          .ok (.quant fa ns e, []) := by
        apply specRaw _ _ hq (o.prec + 1) f0 [] _ trivial
        · simp at hf' ⊢; omega
        · rfl
        · trivial
        · exact loop_stops' _ _ _ trivial
      rw [hin]
      simp only [bindF_ok]
      exact loop_stops' 0 _ [] trivial f0 (by simp at hf' ⊢; omega)
  rw [this]

end DD
