/-
  DDProofs.ConstructorAgree — the two models of the constructor `BDD(levels)` are ONE function.

  * `newMgrCore` (DD.NewMgrCore; levels as integers, a `for` loop in the monad, answers a pair
    `Except Err Unit × Mgr`) is what the line-protocol driver runs (`DD.newMgr`, op `new`;
    `newMgr_eq_core` in DDProofs.Reach4New);
  * `mkBDD` (DD.Dump; levels as naturals, a structural recursion `addVars`, answers
    `Except Err Mgr`) is the constructor call inside `_load_manager` (`loadManager`), the model
    the C02 / C12 theorems about a pickled manager are stated on.

  `mkBDD_eq_newMgrCore`: on every table of natural levels `mkBDD` is `newMgrCore` read through
  the change of result type; `newMgrCore_negative`: a table with a negative level — the only
  inputs of `newMgrCore` that are not of that form — is refused by the check, as every table that
  `validOrdering` refuses.  So the two constructor theorems (`C02_constructor` /
  `newMgrCore_start`) are statements about the same function, and each follows from the other
  (DDProps.C02Constructor: `C02_constructor_driver`).
-/
import DDProofs.SmallConstructor
import DDProofs.Reach4Start
open Std

namespace DD

/-- natural levels read as the integers the driver passes -/
def castLevels (levels : List (String × Nat)) : List (String × Int) :=
  levels.map fun p => (p.1, (p.2 : Int))

/-- the result of `newMgrCore` in the result type of `mkBDD`: an exception carries no manager -/
def asMkBDD (r : Except Err Unit × Mgr) : Except Err Mgr :=
  match r with
  | (.ok _, m) => .ok m
  | (.error e, _) => .error e

@[simp] theorem castLevels_length (levels : List (String × Nat)) :
    (castLevels levels).length = levels.length := by simp [castLevels]

theorem castLevels_names (levels : List (String × Nat)) :
    (castLevels levels).map (·.1) = levels.map (·.1) := by
  simp [castLevels, List.map_map, Function.comp_def]

theorem castLevels_nums (levels : List (String × Nat)) :
    (castLevels levels).map (·.2) = (levels.map (·.2)).map fun (k : Nat) => (k : Int) := by
  simp [castLevels, List.map_map, Function.comp_def]

theorem mem_castLevels (levels : List (String × Nat)) (v : String) (i : Nat) :
    (v, (i : Int)) ∈ castLevels levels ↔ (v, i) ∈ levels := by
  unfold castLevels
  rw [List.mem_map]
  constructor
  · rintro ⟨⟨w, k⟩, hp, he⟩
    simp only [Prod.mk.injEq] at he
    obtain ⟨rfl, hk⟩ := he
    have : k = i := by omega
    subst this
    exact hp
  · intro h
    exact ⟨(v, i), h, rfl⟩

/-- the two transcriptions of `_assert_valid_ordering` agree -/
theorem newMgrCheck_cast (levels : List (String × Nat)) :
    newMgrCheck (castLevels levels) = validOrdering levels := by
  unfold newMgrCheck validOrdering
  rw [castLevels_length, castLevels_nums]
  congr 1
  · apply List.all_congr rfl
    intro i
    rw [Bool.eq_iff_iff]
    simp only [List.contains_iff_mem, List.mem_map]
    constructor
    · rintro ⟨k, hk, he⟩
      have : k = i := by omega
      subst this
      exact hk
    · intro h
      exact ⟨i, h, rfl⟩
  · rw [List.all_map]
    apply List.all_congr rfl
    intro k
    rw [Bool.eq_iff_iff]
    simp only [Function.comp_apply, Bool.and_eq_true, decide_eq_true_eq]
    omega

/-- the `for` loop of `newMgrCore` is the recursion `addVars`, from every manager -/
theorem forIn_cast_eq_addVars : ∀ (levels : List (String × Nat)) (m : Mgr),
    (forIn (castLevels levels) PUnit.unit fun (x : String × Int) (_ : PUnit) => do
        let _ ← addVar x.fst (some x.snd)
        pure (ForInStep.yield PUnit.unit) : M PUnit) m = addVars levels m := by
  intro levels
  induction levels with
  | nil => intro m; rfl
  | cons p rest ih =>
    intro m
    obtain ⟨v, l⟩ := p
    show (forIn ((v, (l : Int)) :: castLevels rest) PUnit.unit _ : M PUnit) m = _
    rw [List.forIn_cons]
    show M.bind' _ _ _ = _
    unfold M.bind'
    have hstep : (do let _ ← addVar v (some (l : Int)); pure (ForInStep.yield PUnit.unit) :
        M (ForInStep PUnit)) m =
        match addVar v (some (l : Int)) m with
        | (.ok _, m1) => ((Except.ok (ForInStep.yield PUnit.unit) : Except Err (ForInStep PUnit)), m1)
        | (.error e, m1) => (Except.error e, m1) := by
      show M.bind' _ _ _ = _
      unfold M.bind'
      cases addVar v (some (l : Int)) m with
      | mk r m1 => cases r <;> rfl
    rw [hstep]
    show _ = (match addVar v (some (l : Int)) m with
      | (.error e, m1) => ((Except.error e : Except Err Unit), m1)
      | (.ok _, m1) => addVars rest m1)
    cases addVar v (some (l : Int)) m with
    | mk r m1 =>
      cases r with
      | error e => rfl
      | ok x => exact ih m1

/-- **one constructor**: `mkBDD` is `newMgrCore` (what the driver runs) up to the result type -/
theorem mkBDD_eq_newMgrCore (levels : List (String × Nat)) :
    mkBDD levels = asMkBDD (newMgrCore (castLevels levels)) := by
  have hchk := newMgrCheck_cast levels
  unfold newMgrCheck at hchk
  unfold mkBDD newMgrCore
  simp only [hchk]
  cases hv : validOrdering levels with
  | false => rfl
  | true =>
    simp only [Bool.not_true, Bool.false_eq_true, if_false]
    have hrun : (do
        for (v, l) in castLevels levels do
          let _ ← addVar v (some l)
        return () : M Unit) {} = addVars levels {} := by
      show M.bind' _ _ _ = _
      unfold M.bind'
      rw [forIn_cast_eq_addVars levels {}]
      cases addVars levels {} with
      | mk r m1 => cases r <;> rfl
    rw [hrun]
    unfold asMkBDD
    cases addVars levels {} with
    | mk r m1 => cases r <;> rfl

/-- the inputs of `newMgrCore` that are not natural levels are refused by the check -/
theorem newMgrCore_negative (levels : List (String × Int)) (h : ∃ p ∈ levels, p.2 < 0) :
    newMgrCore levels = (.error .assertion, {}) := by
  apply newMgrCore_refused
  obtain ⟨p, hp, hneg⟩ := h
  unfold newMgrCheck
  rw [Bool.and_eq_false_iff]
  right
  rw [List.all_eq_false]
  refine ⟨p.2, List.mem_map_of_mem hp, ?_⟩
  simp only [Bool.and_eq_true, decide_eq_true_eq, not_and]
  omega

/-- … and every other input is `castLevels` of a table of naturals -/
theorem eq_castLevels_of_nonneg (levels : List (String × Int)) (h : ∀ p ∈ levels, 0 ≤ p.2) :
    levels = castLevels (levels.map fun p => (p.1, p.2.toNat)) := by
  unfold castLevels
  rw [List.map_map]
  conv => lhs; rw [← List.map_id levels]
  apply List.map_congr_left
  intro p hp
  have := h p hp
  simp only [id, Function.comp_apply]
  ext
  · rfl
  · simp only; omega

end DD
