/-
  DDProofs.FindOrAdd — specification of `find_or_add`: the result denotes
  `if x_i then w else v`, the invariant is preserved, old nodes are untouched.
-/
import DDProofs.Inv
open Std

namespace DD

/-- the fields an operation on the node table leaves alone -/
structure Frame (m m' : Mgr) : Prop where
  vars : m'.tbl.vars = m.tbl.vars
  l2v : m'.tbl.l2v = m.tbl.l2v
  lastLen : m'.lastLen = m.lastLen
  ctx : m'.ctx = m.ctx
  sched : m'.sched = m.sched
  roots : m'.roots = m.roots

theorem Frame.refl (m : Mgr) : Frame m m := ⟨rfl, rfl, rfl, rfl, rfl, rfl⟩
theorem Frame.trans {a b c : Mgr} (h1 : Frame a b) (h2 : Frame b c) : Frame a c :=
  ⟨h2.vars.trans h1.vars, h2.l2v.trans h1.l2v, h2.lastLen.trans h1.lastLen,
   h2.ctx.trans h1.ctx, h2.sched.trans h1.sched, h2.roots.trans h1.roots⟩

/-! ### `_next_free_int` finds a free number -/

theorem nextFree_ge (s : TreeMap Nat Nd) : ∀ f i, i ≤ nextFree s f i := by
  intro f
  induction f with
  | zero => intro i; simp [nextFree]
  | succ f ih =>
    intro i
    simp only [nextFree]
    split
    · exact Nat.le_trans (Nat.le_succ i) (ih (i+1))
    · exact Nat.le_refl i

/-- if every number in `[i, i+k)` is a key then `k ≤ size` -/
theorem range_contained_le_size : ∀ (k : Nat) (s : TreeMap Nat Nd) (i : Nat),
    (∀ j, i ≤ j → j < i + k → s.contains j = true) → k ≤ s.size := by
  intro k
  induction k with
  | zero => intros; exact Nat.zero_le _
  | succ k ih =>
    intro s i h
    have hc : s.contains (i + k) = true := h (i + k) (by omega) (by omega)
    have h' : ∀ j, i ≤ j → j < i + k → (s.erase (i + k)).contains j = true := by
      intro j h1 h2
      rw [TreeMap.contains_erase]
      have : compare (i + k) j ≠ .eq := by
        intro he
        have := (Nat.compare_eq_eq).mp he
        omega
      simp [this, h j h1 (by omega)]
    have := ih (s.erase (i + k)) i h'
    rw [TreeMap.size_erase] at this
    simp only [hc, if_true] at this
    have hpos : 0 < s.size := by
      rcases Nat.eq_zero_or_pos s.size with h0 | h0
      · have : s.isEmpty = true := by simpa [TreeMap.isEmpty_eq_size_eq_zero] using h0
        rw [TreeMap.contains_of_isEmpty this] at hc
        · cases hc
      · exact h0
    omega

theorem nextFree_free (s : TreeMap Nat Nd) : ∀ f i, 2 ≤ i →
    (∀ j, i ≤ j → j < nextFree s f i → s.contains j = true) ∧
    (s.contains (nextFree s f i) = true → f = 0 ∨ False → True) := by
  intro f i _
  exact ⟨by
    induction f generalizing i with
    | zero => intro j h1 h2; simp [nextFree] at h2; omega
    | succ f ih =>
      intro j h1 h2
      simp only [nextFree] at h2
      split at h2
      · next hc =>
        rcases Nat.eq_or_lt_of_le h1 with he | hl
        · subst he
          rcases hc with hc | hc
          · omega
          · exact hc
        · exact ih (i+1) (by omega) j (by omega) h2
      · omega, fun _ _ => trivial⟩

/-- with enough fuel the returned number is not a key -/
theorem nextFree_not_contains (s : TreeMap Nat Nd) (i : Nat) (hi : 2 ≤ i) :
    s.contains (nextFree s (s.size + 2) i) = false := by
  -- all numbers strictly between are keys; if the result were a key, too many keys
  have hall : ∀ f i, 2 ≤ i → (∀ j, i ≤ j → j < nextFree s f i → s.contains j = true) := by
    intro f i h2
    exact (nextFree_free s f i h2).1
  -- characterise: either the result is free, or fuel ran out with all `f` numbers keys
  have key : ∀ f i, 2 ≤ i → s.contains (nextFree s f i) = false ∨ nextFree s f i = i + f := by
    intro f
    induction f with
    | zero => intro i _; right; simp [nextFree]
    | succ f ih =>
      intro i h2
      simp only [nextFree]
      split
      · rcases ih (i+1) (by omega) with h | h
        · left; exact h
        · right; omega
      · next hc =>
        left
        have : ¬ s.contains i = true := fun h => hc (Or.inr h)
        exact Bool.eq_false_iff.mpr this
  rcases key (s.size + 2) i hi with h | h
  · exact h
  · exfalso
    have := range_contained_le_size (s.size + 2) s i (by
      intro j h1 h2
      exact hall (s.size + 2) i hi j h1 (by omega))
    omega

/-! ### inserting a fresh node -/

theorem node?_insert (t : Tbl) (u : Nat) (n : Nd) (k : Nat) :
    ({ t with succ := t.succ.insert u n } : Tbl).node? k = if u = k then some n else t.node? k := by
  simp [Tbl.node?, TreeMap.getElem?_insert]

theorem ext_insert (t : Tbl) (u : Nat) (n : Nd) (hf : t.node? u = none) :
    Ext t { t with succ := t.succ.insert u n } := by
  refine ⟨rfl, ?_⟩
  intro k nd hk
  rw [node?_insert]
  split
  · subst_vars; rw [hf] at hk; cases hk
  · exact hk

theorem wfu_insert (t : Tbl) (hw : WFU t) (u : Nat) (n : Nd) (hu : 2 ≤ u) (hf : t.node? u = none)
    (h1 : n.lvl < t.nvars) (h2 : t.Mem n.lo) (h3 : t.Mem n.hi)
    (h4 : n.lvl < t.levelOf n.lo) (h5 : n.lvl < t.levelOf n.hi)
    (h6 : 0 < n.hi) (h7 : n.lo ≠ n.hi) (h8 : ∀ k, t.node? k ≠ some n) :
    WFU { t with succ := t.succ.insert u n } := by
  have he := ext_insert t u n hf
  have hW := hw.toWF
  refine ⟨⟨?_, ?_, ?_, ?_, ?_, ?_, ?_, ?_⟩, ?_⟩
  · intro k nd hk
    rw [node?_insert] at hk
    split at hk
    · cases hk; exact h1
    · exact hW.lvl_lt _ _ hk
  · intro k nd hk
    rw [node?_insert] at hk
    split at hk
    · cases hk; exact he.mem h2
    · exact he.mem (hW.lo_mem _ _ hk)
  · intro k nd hk
    rw [node?_insert] at hk
    split at hk
    · cases hk; exact he.mem h3
    · exact he.mem (hW.hi_mem _ _ hk)
  · intro k nd hk
    rw [node?_insert] at hk
    split at hk
    · cases hk; rw [he.levelOf h2]; exact h4
    · rw [he.levelOf (hW.lo_mem _ _ hk)]; exact hW.lo_lt _ _ hk
  · intro k nd hk
    rw [node?_insert] at hk
    split at hk
    · cases hk; rw [he.levelOf h3]; exact h5
    · rw [he.levelOf (hW.hi_mem _ _ hk)]; exact hW.hi_lt _ _ hk
  · intro k nd hk
    rw [node?_insert] at hk
    split at hk
    · subst_vars; exact hu
    · exact hW.ge_two _ _ hk
  · intro k nd hk
    rw [node?_insert] at hk
    split at hk
    · cases hk; exact h6
    · exact hW.hi_pos _ _ hk
  · intro k nd hk
    rw [node?_insert] at hk
    split at hk
    · cases hk; exact h7
    · exact hW.lo_ne_hi _ _ hk
  · intro k k' nd hk hk'
    rw [node?_insert] at hk hk'
    split at hk <;> split at hk'
    · omega
    · cases hk; exact absurd hk' (h8 _)
    · cases hk'; exact absurd hk (h8 _)
    · exact hw.unique _ _ _ hk hk'

/-! ### effect of `incref` -/

theorem incref_ok (m : Mgr) (u : Int) (h : m.ref.contains u.natAbs = true) :
    ∃ c, m.ref[u.natAbs]? = some c ∧ incref u m = (.ok (), { m with ref := m.ref.insert u.natAbs (c + 1) }) := by
  rw [TreeMap.contains_eq_isSome_getElem?] at h
  obtain ⟨c, hc⟩ := Option.isSome_iff_exists.mp h
  exact ⟨c, hc, by simp [incref, hc]⟩

/-! ### the specification -/

/-- what a call of `find_or_add(i, v, w)` guarantees about its result -/
structure FoaPost (m : Mgr) (i : Nat) (v w : Int) (r : Int) (m' : Mgr) : Prop where
  inv : Inv m'
  ext : Ext m.tbl m'.tbl
  mem : m'.tbl.Mem r
  lvl : i ≤ m'.tbl.levelOf r
  den : ∀ a, den m'.tbl r a = if a i then den m.tbl w a else den m.tbl v a
  frame : Frame m m'
  fire : m'.fireIn = m.fireIn
  cacheSame : m'.cache = m.cache

end DD

namespace DD

theorem contains_insert_mono {β} (t : TreeMap Nat β) (k a : Nat) (v : β)
    (h : t.contains a = true) : (t.insert k v).contains a = true := by
  simp [TreeMap.contains_insert, h]

theorem contains_insert_self' {β} (t : TreeMap Nat β) (k : Nat) (v : β) :
    (t.insert k v).contains k = true := by
  simp [TreeMap.contains_insert]

theorem node?_none_of_not_contains (t : Tbl) (u : Nat) (h : t.succ.contains u = false) :
    t.node? u = none := by
  unfold Tbl.node?
  rw [TreeMap.contains_eq_isSome_getElem?] at h
  cases hh : t.succ[u]? with
  | none => rfl
  | some x => rw [hh] at h; cases h

theorem not_contains_of_node?_none (t : Tbl) (u : Nat) (h : t.node? u = none) :
    t.succ.contains u = false := by
  unfold Tbl.node? at h
  rw [TreeMap.contains_eq_isSome_getElem?, h]; rfl

/-- `find_or_add(i, v, w)` for a regular high edge -/
theorem findOrAddCore_pos (m : Mgr) (hI : Inv m) (i : Nat) (v w : Int)
    (hi : i < m.nvars) (hv : m.tbl.Mem v) (hw : m.tbl.Mem w)
    (hlv : i < m.tbl.levelOf v) (hlw : i < m.tbl.levelOf w) (hpos : 0 < w) :
    ∃ r m', findOrAddCore i v w m = (.ok r, m') ∧ FoaPost m i v w r m' := by
  have hW := hI.wf.toWF
  have hnv : ¬ m.nvars ≤ i := by omega
  have hmv : m.mem v = true := (Mgr.mem_iff m v).mpr hv
  have hmw : m.mem w = true := (Mgr.mem_iff m w).mpr hw
  have hnw : ¬ w < 0 := by omega
  unfold findOrAddCore
  simp only [hnv, if_false, hmv, hmw, Bool.not_true, Bool.false_eq_true, hnw, Int.one_mul]
  by_cases hvw : v = w
  · -- eliminated
    subst hvw
    refine ⟨v, m, by simp, ⟨hI, Ext.refl _, hv, Nat.le_of_lt hlv, ?_, Frame.refl _, rfl, rfl⟩⟩
    intro a; split <;> rfl
  · simp only [hvw, if_false]
    cases hp : m.pred[(⟨i, v, w⟩ : Nd).key]? with
    | some u =>
      -- already in the unique table
      have hn : m.tbl.node? u = some ⟨i, v, w⟩ := (hI.pred _ _).mp hp
      have hu2 := hW.ge_two _ _ hn
      have hne1 : (u : Int).natAbs ≠ 1 := by simp; omega
      have hn' : m.tbl.node? (u : Int).natAbs = some ⟨i, v, w⟩ := by simpa using hn
      have hu1 : u ≠ 1 := by omega
      refine ⟨u, m, rfl, ⟨hI, Ext.refl _, Or.inr (by simp [hn]), ?_, ?_, Frame.refl _, rfl, rfl⟩⟩
      · simp [Tbl.levelOf, hu1, hn]
      · intro a
        rw [den_node m.tbl hW (u : Int) ⟨i, v, w⟩ a hne1 hn']
        have : ¬ ((u : Int) < 0) := by omega
        simp [this]
    | none =>
      -- a new node
      have hfree := hI.free
      have hge := hI.freeGe
      have hnle : ¬ m.minFree ≤ 1 := by omega
      have hnc : m.tbl.succ.contains m.minFree = false := not_contains_of_node?_none _ _ hfree
      have h8 : ∀ k, m.tbl.node? k ≠ some (⟨i, v, w⟩ : Nd) := by
        intro k hk
        have := (hI.pred _ _).mpr hk
        rw [hp] at this; cases this
      simp only [hnle, if_false, hnc, Bool.false_eq_true]
      -- the two increfs
      let t : Nd := ⟨i, v, w⟩
      let u := m.minFree
      let succ' := m.tbl.succ.insert u t
      let m1 : Mgr := { m with
        tbl := { m.tbl with succ := succ' }
        pred := m.pred.insert t.key u
        ref := m.ref.insert u 0
        minFree := nextFree succ' (succ'.size + 2) u }
      have hr1 : m1.ref.contains v.natAbs = true := contains_insert_mono _ _ _ _ (hI.refMem hv)
      obtain ⟨c1, _, hinc1⟩ := incref_ok m1 v hr1
      let m2 : Mgr := { m1 with ref := m1.ref.insert v.natAbs (c1 + 1) }
      have hr2 : m2.ref.contains w.natAbs = true :=
        contains_insert_mono _ _ _ _ (contains_insert_mono _ _ _ _ (hI.refMem hw))
      obtain ⟨c2, _, hinc2⟩ := incref_ok m2 w hr2
      let m3 : Mgr := { m2 with ref := m2.ref.insert w.natAbs (c2 + 1) }
      refine ⟨u, m3, ?_, ?_⟩
      · show (match incref v m1 with
              | (.error e, m2) => (Except.error e, m2)
              | (.ok _, m2) =>
                match incref w m2 with
                | (.error e, m3) => (Except.error e, m3)
                | (.ok _, m3) => (.ok ((u : Nat) : Int), m3)) = _
        rw [hinc1]
        simp only
        rw [hinc2]
      · have hw0 : w ≠ 0 := by omega
        have hext : Ext m.tbl m3.tbl := ext_insert m.tbl u t hfree
        have hwf : WFU m3.tbl := wfu_insert m.tbl hI.wf u t hge hfree hi hv hw hlv hlw hpos hvw h8
        have hnode : m3.tbl.node? u = some t := by
          show ({ m.tbl with succ := m.tbl.succ.insert u t } : Tbl).node? u = some t
          rw [node?_insert]; simp
        have hne1 : ((u : Nat) : Int).natAbs ≠ 1 := by simp; omega
        have hnode' : m3.tbl.node? ((u : Nat) : Int).natAbs = some t := by simpa using hnode
        have hu1 : u ≠ 1 := by omega
        refine ⟨⟨hwf, ?_, ?_, ?_, ?_, ?_, ?_⟩, hext, Or.inr (by simp [hnode]), ?_, ?_,
          ⟨rfl, rfl, rfl, rfl, rfl, rfl⟩, rfl, rfl⟩
        · -- pred in sync
          intro n k
          show (m.pred.insert t.key u)[n.key]? = some k ↔
            ({ m.tbl with succ := m.tbl.succ.insert u t } : Tbl).node? k = some n
          rw [node?_insert, TreeMap.getElem?_insert]
          by_cases hnt : t = n
          · subst hnt
            simp only [compare_self, if_true]
            constructor
            · intro h; cases h; simp
            · intro h
              split at h
              · subst_vars; rfl
              · exact absurd h (h8 _)
          · have hk : compare t.key n.key ≠ .eq := by
              intro he
              exact hnt (Nd.key_inj (LawfulEqOrd.eq_of_compare he))
            simp only [hk, if_false]
            rw [hI.pred]
            constructor
            · intro h
              split
              · subst_vars; rw [hfree] at h; cases h
              · exact h
            · intro h
              split at h
              · cases h; exact absurd rfl hnt
              · exact h
        · show 2 ≤ nextFree succ' (succ'.size + 2) u
          exact Nat.le_trans hge (nextFree_ge _ _ _)
        · show ({ m.tbl with succ := succ' } : Tbl).node? (nextFree succ' (succ'.size + 2) u) = none
          exact node?_none_of_not_contains _ _ (nextFree_not_contains succ' u hge)
        · exact contains_insert_mono _ _ _ _ (contains_insert_mono _ _ _ _
            (contains_insert_mono _ _ _ _ hI.refOne))
        · intro k nd hk
          have hk' : ({ m.tbl with succ := m.tbl.succ.insert u t } : Tbl).node? k = some nd := hk
          rw [node?_insert] at hk'
          split at hk'
          · subst_vars
            exact contains_insert_mono _ _ _ _ (contains_insert_mono _ _ _ _
              (contains_insert_self' _ _ _))
          · exact contains_insert_mono _ _ _ _ (contains_insert_mono _ _ _ _
              (contains_insert_mono _ _ _ _ (hI.refDom _ _ hk')))
        · intro g a b c hc
          exact (hI.cache g a b c hc).ext hW hext
        · simp [Tbl.levelOf, hu1, hnode, t]
        · intro a
          rw [den_node m3.tbl hwf.toWF (u : Int) t a hne1 hnode']
          have : ¬ (((u : Nat) : Int) < 0) := by omega
          simp only [this, decide_false, Bool.false_bne]
          rw [den_ext hext hW w a hw, den_ext hext hW v a hv]

end DD

namespace DD

theorem Tbl.mem_neg (t : Tbl) (u : Int) : t.mem (-u) = t.mem u := by
  simp [Tbl.mem]

/-- a complemented high edge is normalised: same as the call on the negated children, negated -/
theorem findOrAddCore_neg (m : Mgr) (i : Nat) (v w : Int) (hneg : w < 0) :
    findOrAddCore i v w m =
      (match findOrAddCore i (-v) (-w) m with
       | (.ok r, m') => (.ok (-r), m')
       | (.error e, m') => (.error e, m')) := by
  have h1 : ¬ (-w < 0) := by omega
  unfold findOrAddCore
  simp only [Mgr.mem, Tbl.mem_neg, hneg, h1, if_true, if_false]
  by_cases c1 : m.nvars ≤ i
  · simp [c1]
  · simp only [c1, if_false]
    by_cases c2 : m.tbl.mem v = true
    · simp only [c2, Bool.not_true, Bool.false_eq_true, if_false]
      by_cases c3 : m.tbl.mem w = true
      · simp only [c3, Bool.not_true, Bool.false_eq_true, if_false]
        by_cases c4 : -v = -w
        · simp [c4]
        · simp only [c4, if_false]
          cases hp : m.pred[(⟨i, -v, -w⟩ : Nd).key]? with
          | some u => simp
          | none =>
            simp only
            by_cases c5 : m.minFree ≤ 1
            · simp [c5]
            · simp only [c5, if_false]
              by_cases c6 : m.tbl.succ.contains m.minFree = true
              · simp [c6]
              · simp only [c6, Bool.false_eq_true, if_false]
                generalize incref (-v) _ = x
                obtain ⟨r1, m2⟩ := x
                cases r1 with
                | error e => rfl
                | ok a =>
                  simp only
                  generalize incref (-w) m2 = y
                  obtain ⟨r2, m3⟩ := y
                  cases r2 <;> simp
      · simp [c3]
    · simp [c2]

/-- `find_or_add(i, v, w)`: specification -/
theorem findOrAddCore_spec (m : Mgr) (hI : Inv m) (i : Nat) (v w : Int)
    (hi : i < m.nvars) (hv : m.tbl.Mem v) (hw : m.tbl.Mem w)
    (hlv : i < m.tbl.levelOf v) (hlw : i < m.tbl.levelOf w) :
    ∃ r m', findOrAddCore i v w m = (.ok r, m') ∧ FoaPost m i v w r m' := by
  have hW := hI.wf.toWF
  have hw0 : w ≠ 0 := mem_ne_zero hW hw
  by_cases hneg : w < 0
  · obtain ⟨r, m', he, hp⟩ := findOrAddCore_pos m hI i (-v) (-w) hi (mem_neg hv) (mem_neg hw)
      (by rw [levelOf_neg]; exact hlv) (by rw [levelOf_neg]; exact hlw) (by omega)
    refine ⟨-r, m', ?_, ⟨hp.inv, hp.ext, mem_neg hp.mem, ?_, ?_, hp.frame, hp.fire, hp.cacheSame⟩⟩
    · rw [findOrAddCore_neg m i v w hneg, he]
    · rw [levelOf_neg]; exact hp.lvl
    · intro a
      rw [den_neg m'.tbl hp.inv.wf.toWF r a hp.mem, hp.den a,
        den_neg m.tbl hW w a hw, den_neg m.tbl hW v a hv]
      split <;> simp
  · exact findOrAddCore_pos m hI i v w hi hv hw hlv hlw (by omega)

end DD
