/-
  DDProofs.LoadJson2Off — the ledger calculus of DDProofs.LoadJson2Calc for a manager in which
  dynamic reordering is NOT enabled (`GoodState`: steps only add nodes), and its first use: the
  JSON loader never lets the internal reordering signal escape.
-/
import DDProofs.LoadJson2Calc
open Std
namespace DD

/-- a step that only adds nodes: every node keeps its triple, the tables of variables and the
switches are what they were (`Kept` without the invariant of the new state) -/
def KeptW (m m' : Mgr) : Prop := Ext m.tbl m'.tbl ∧ Frame m m'

theorem Kept.toW {m m' : Mgr} (h : Kept m m') : KeptW m m' := ⟨h.ext, h.frame⟩
theorem KeptW.kept {m m' : Mgr} (h : KeptW m m') (hI : Inv m') : Kept m m' := ⟨hI, h.1, h.2⟩

/-- the calculus of `_load_json` with dynamic reordering not enabled -/
def offCalc (e : Nat → Nat) : LCalc e where
  G := fun l m => GoodState m (extAdd e l)
  K := KeptW
  inv := fun h => h.inv
  exact := fun h => h.exact
  refl := fun _ => ⟨Ext.refl _, Frame.refl _⟩
  trans := fun h1 h2 => ⟨h1.1.trans h2.1, h1.2.trans h2.2⟩
  setRef := fun _ _ h hI hr => ⟨hI, h.order, hr, h.off, h.ctx⟩
  kRef := fun _ _ => ⟨Ext.refl _, ⟨rfl, rfl, rfl, rfl, rfl, rfl⟩⟩

theorem offCalc_of_keeps {α : Type} (e : Nat → Nat) (x : M α)
    (hk : ∀ m, Inv m → m.lastLen = none → Kept m (x m).2)
    (hl : ∀ ext m, Lite ext m → LiteOut ext (x m)) : PrimOK (offCalc e) x := by
  intro l m hg
  have hg' : GoodState m (extAdd e l) := hg
  have k := hk m hg'.inv hg'.off
  have L := hl _ m hg'.lite
  exact ⟨L.2, k.toW, hg'.of_kept k L.1.exact⟩

/-- `bdd.var(name)`, ANY name, reordering not enabled -/
theorem offCalc_var (e : Nat → Nat) (name : String) : PrimOK (offCalc e) (var name) :=
  offCalc_of_keeps e _ (TotK.bddVar name) (fun ext m h => var_lite ext name m h)

/-- `bdd.ite(g, u, v)`, ANY integers, reordering not enabled -/
theorem offCalc_ite (e : Nat → Nat) (g u v : Int) : PrimOK (offCalc e) (ite g u v) :=
  offCalc_of_keeps e _ (TotK.bddIte g u v) (fun ext m h => ite_lite ext g u v m h)

/-- `_copy.load_json(file, bdd, load_order=False)` on ANY content, dynamic reordering not
enabled, EVERY outcome: never the internal signal; `KeptV` and a between-calls state with the
counts exact for the caller's ledger plus one reference per returned `Function` — for the
caller's ledger itself when the call raised (`JsonLeaves`) -/
theorem loadJson_false_any' (f : JsonFile) (m : Mgr) (e : Nat → Nat) (hg : GoodState m e) :
    (loadJson f false m).1 ≠ .error .needsReordering ∧ JsonLeaves e m (loadJson f false m) := by
  rw [loadJson_false_eq]
  obtain ⟨m1, ed, g1, -, -, -, -, -⟩ := declare_spec (f.levelOfVar.map (·.1)) m e hg
  have kv1 : KeptV m m1 := by
    have := declare_keptV (f.levelOfVar.map (·.1)) m hg.inv
    rw [ed] at this; exact this
  rw [jsonTry_header_ok f false m m1 (jsonHeader_false f m m1 ed)]
  have hshelf := makeNodesE_anyC (C := offCalc e) (F := fun _ => True) (Stable.true _)
    (offCalc_var e) (offCalc_ite e)
    (f.levelOfVar.foldl (fun acc (x : String × Nat) => (x.2, x.1) :: acc) []) f.nodes [] m1
    (by simp) (by simp)
    (show GoodState m1 (extAdd e (shelfRefs [])) by simpa [shelfRefs, extAdd_nil] using g1) trivial
  obtain ⟨hn, mb, kb, hcase⟩ := finish_afterHeaderC (offCalc e) f false m1 hshelf
  have kb' : KeptW m1 mb := kb
  refine ⟨hn, ?_⟩
  rcases hcase with ⟨roots, heq, g⟩ | ⟨er, heq, g⟩
  · have g' : GoodState mb (extAdd e (roots.values.map Int.natAbs)) := g
    rw [heq]
    exact ⟨kv1.trans ((kb'.kept g'.inv).toV kv1.inv), g'⟩
  · have g' : GoodState mb (extAdd e []) := g
    rw [extAdd_nil] at g'
    rw [heq]
    exact ⟨kv1.trans ((kb'.kept g'.inv).toV kv1.inv), g'⟩

theorem loadJson_false_any (f : JsonFile) (m : Mgr) (e : Nat → Nat) (hg : GoodState m e) :
    JsonLeaves e m (loadJson f false m) := (loadJson_false_any' f m e hg).2

/-- `load_json(load_order=False)` with reordering not enabled never raises the internal signal,
whatever the content -/
theorem loadJson_false_noSignal_off (f : JsonFile) (m : Mgr) (e : Nat → Nat) (hg : GoodState m e) :
    (loadJson f false m).1 ≠ .error .needsReordering := (loadJson_false_any' f m e hg).1

end DD
