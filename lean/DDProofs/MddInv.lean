/-
  DDProofs.MddInv — the invariant `MInv` of an MDD manager, the bridge between the
  Boolean tests of the model and the propositions of MddSem, and the specification of
  `_allocate`, `incref` and `find_or_add`.
-/
import DDProofs.MddCanon
open Std

namespace DD

theorem MNd.key_inj {a b : MNd} (h : a.key = b.key) : a = b := by
  cases a; cases b
  simp only [MNd.key, List.cons.injEq] at h
  obtain ⟨h1, h2⟩ := h
  have h1' := Int.ofNat.inj h1
  subst h1' h2
  rfl

theorem MTbl.mem_iff (t : MTbl) (ht : t.term = true) (u : Int) : t.mem u = true ↔ t.Mem u := by
  unfold MTbl.mem MTbl.Mem MTbl.node?
  rw [TreeMap.contains_eq_isSome_getElem?, ht]
  simp

theorem MTbl.mem_false_iff (t : MTbl) (ht : t.term = true) (u : Int) : t.mem u = false ↔ ¬ t.Mem u := by
  rw [← MTbl.mem_iff t ht]; simp

theorem MTbl.levelOf?_eq (t : MTbl) (ht : t.term = true) (u : Int) (h : t.Mem u) :
    t.levelOf? u = some (t.levelOf u) := by
  unfold MTbl.levelOf? MTbl.levelOf
  by_cases h1 : u.natAbs = 1
  · simp [h1, ht]
  · rcases h with h | h
    · exact absurd h h1
    · obtain ⟨n, hn⟩ := Option.isSome_iff_exists.mp h
      simp only [MTbl.node?] at hn
      simp [h1, MTbl.node?, hn]

/-- what a computed-table entry `(g, u, v) ↦ w` must satisfy -/
structure MCacheOK (t : MTbl) (g u v w : Int) : Prop where
  mg : t.Mem g
  mu : t.Mem u
  mv : t.Mem v
  mw : t.Mem w
  lvl : min (t.levelOf g) (min (t.levelOf u) (t.levelOf v)) ≤ t.levelOf w
  den : ∀ a, MValid t a → denM t w a = if denM t g a then denM t u a else denM t v a

/-- the invariant of an MDD manager (without exact reference counts) -/
structure MInv (m : MddMgr) : Prop where
  wf : MWFU m.tbl
  pred : ∀ (n : MNd) (u : Nat), m.pred[n.key]? = some u ↔ m.tbl.node? u = some n
  refOne : m.ref.contains 1 = true
  refDom : ∀ u n, m.tbl.node? u = some n → m.ref.contains u = true
  maxGe : 1 ≤ m.max
  maxOK : ∀ u n, m.tbl.node? u = some n → u ≤ m.max
  freeOK : ∀ f, f ∈ m.free → 2 ≤ f ∧ f ≤ m.max ∧ m.tbl.node? f = none
  freeNodup : m.free.Nodup
  cache : ∀ g u v w, m.cache[iteKey g u v]? = some w → MCacheOK m.tbl g u v w

theorem MInv.term {m : MddMgr} (h : MInv m) : m.tbl.term = true := h.wf.term

theorem MInv.refMem {m : MddMgr} (h : MInv m) {u : Int} (hu : m.tbl.Mem u) :
    m.ref.contains u.natAbs = true := by
  rcases hu with h1 | h1
  · rw [h1]; exact h.refOne
  · obtain ⟨n, hn⟩ := Option.isSome_iff_exists.mp h1
    exact h.refDom _ _ hn

theorem MCacheOK.ext {m t : MTbl} (hw : MWF m) (he : MExt m t) {g u v w : Int}
    (h : MCacheOK m g u v w) : MCacheOK t g u v w := by
  refine ⟨he.mem h.mg, he.mem h.mu, he.mem h.mv, he.mem h.mw, ?_, ?_⟩
  · rw [he.levelOf h.mg, he.levelOf h.mu, he.levelOf h.mv, he.levelOf h.mw]; exact h.lvl
  · intro a ha
    rw [denM_ext he hw w a h.mw, denM_ext he hw g a h.mg, denM_ext he hw u a h.mu,
      denM_ext he hw v a h.mv]
    exact h.den a ((he.valid a).mpr ha)

/-- a fresh `MDD(dvars)` satisfies the invariant -/
theorem MInv.init (dv : List MVar) : MInv (MddMgr.new (some dv)) := by
  refine ⟨⟨⟨rfl, ?_, ?_, ?_, ?_, ?_, ?_, ?_⟩, ?_⟩, ?_, ?_, ?_, ?_, ?_, ?_, ?_, ?_⟩ <;>
    simp [MddMgr.new, MTbl.node?] <;> try decide

/-! ### `_allocate` -/

structure AllocOK (m : MddMgr) (u : Nat) (m1 : MddMgr) : Prop where
  inv : MInv m1
  tbl : m1.tbl = m.tbl
  pred : m1.pred = m.pred
  ref : m1.ref = m.ref
  cache : m1.cache = m.cache
  ge_two : 2 ≤ u
  le_max : u ≤ m1.max
  fresh : m.tbl.node? u = none
  notFree : u ∉ m1.free
  maxle : m.max ≤ m1.max

theorem mAllocate_spec (m : MddMgr) (h : MInv m) (u : Nat) (m1 : MddMgr)
    (ha : mAllocate m = (.ok u, m1)) : AllocOK m u m1 := by
  unfold mAllocate at ha
  split at ha
  · -- `_max += 1`
    next hfree =>
    simp only [Prod.mk.injEq, Except.ok.injEq] at ha
    obtain ⟨hu, hm1⟩ := ha
    subst hu hm1
    have hfresh : m.tbl.node? (m.max + 1) = none := by
      cases hn : m.tbl.node? (m.max + 1) with
      | none => rfl
      | some n => have := h.maxOK _ _ hn; omega
    refine ⟨⟨h.wf, h.pred, h.refOne, h.refDom, ?_, ?_, ?_, ?_, h.cache⟩, rfl, rfl, rfl, rfl, ?_, ?_,
      hfresh, ?_, Nat.le_succ _⟩
    · show 1 ≤ m.max + 1; omega
    · intro u n hn; have := h.maxOK _ _ hn; show u ≤ m.max + 1; omega
    · intro f hf; rw [hfree] at hf; simp at hf
    · show m.free.Nodup; exact h.freeNodup
    · have := h.maxGe; omega
    · exact Nat.le_refl _
    · show m.max + 1 ∉ m.free; rw [hfree]; simp
  · next f0 rest hfree =>
    have hsub : ∀ p, p ∈ m.free → AllocOK m p { m with free := m.free.erase p } ∧
        ∀ s, AllocOK m p { m with free := m.free.erase p, sched := s } := by
      intro p hp
      have key : ∀ s, AllocOK m p { m with free := m.free.erase p, sched := s } := by
        intro s
        obtain ⟨h2, hmx, hnone⟩ := h.freeOK p hp
        refine ⟨⟨h.wf, h.pred, h.refOne, h.refDom, h.maxGe, h.maxOK, ?_, ?_, h.cache⟩, rfl, rfl, rfl,
          rfl, h2, hmx, hnone, ?_, Nat.le_refl _⟩
        · intro f hf
          exact h.freeOK f (List.mem_of_mem_erase hf)
        · exact h.freeNodup.erase p
        · intro hc
          exact ((h.freeNodup.mem_erase_iff).mp hc).1 rfl
      exact ⟨key m.sched, key⟩
    split at ha
    · simp only [Prod.mk.injEq, Except.ok.injEq] at ha
      obtain ⟨hu, hm1⟩ := ha
      subst hu hm1
      have : f0 ∈ m.free := by rw [hfree]; simp
      exact (hsub f0 this).1
    · next p rest' hs =>
      split at ha
      · next hc =>
        simp only [Prod.mk.injEq, Except.ok.injEq] at ha
        obtain ⟨hu, hm1⟩ := ha
        subst hu hm1
        have : p ∈ m.free := by simpa using hc
        exact (hsub p this).2 rest'
      · simp at ha

/-! ### `incref` -/

structure MRefOnly (m m' : MddMgr) : Prop where
  tbl : m'.tbl = m.tbl
  pred : m'.pred = m.pred
  max : m'.max = m.max
  free : m'.free = m.free
  cache : m'.cache = m.cache
  dom : ∀ k, m.ref.contains k = true → m'.ref.contains k = true

theorem MRefOnly.refl (m : MddMgr) : MRefOnly m m := ⟨rfl, rfl, rfl, rfl, rfl, fun _ h => h⟩

theorem MRefOnly.trans {a b c : MddMgr} (h1 : MRefOnly a b) (h2 : MRefOnly b c) : MRefOnly a c :=
  ⟨h2.tbl.trans h1.tbl, h2.pred.trans h1.pred, h2.max.trans h1.max, h2.free.trans h1.free,
   h2.cache.trans h1.cache, fun k hk => h2.dom k (h1.dom k hk)⟩

theorem MRefOnly.inv {m m' : MddMgr} (hr : MRefOnly m m') (h : MInv m) : MInv m' := by
  refine ⟨?_, ?_, hr.dom _ h.refOne, ?_, ?_, ?_, ?_, ?_, ?_⟩
  · rw [hr.tbl]; exact h.wf
  · rw [hr.tbl, hr.pred]; exact h.pred
  · rw [hr.tbl]; intro u n hn; exact hr.dom _ (h.refDom _ _ hn)
  · rw [hr.max]; exact h.maxGe
  · rw [hr.tbl, hr.max]; exact h.maxOK
  · rw [hr.tbl, hr.max, hr.free]; exact h.freeOK
  · rw [hr.free]; exact h.freeNodup
  · rw [hr.tbl, hr.cache]; exact h.cache

theorem mIncref_refOnly (u : Int) (m : MddMgr) (r : Except Err Unit) (m' : MddMgr)
    (hi : mIncref u m = (r, m')) : MRefOnly m m' := by
  unfold mIncref at hi
  split at hi
  · simp only [Prod.mk.injEq] at hi; obtain ⟨_, hm⟩ := hi; subst hm; exact MRefOnly.refl m
  · simp only [Prod.mk.injEq] at hi; obtain ⟨_, hm⟩ := hi; subst hm
    refine ⟨rfl, rfl, rfl, rfl, rfl, ?_⟩
    intro k hk
    show (m.ref.insert u.natAbs _).contains k = true
    rw [TreeMap.contains_insert]; simp [hk]

theorem mDecref_refOnly (u : Int) (m : MddMgr) (r : Except Err Unit) (m' : MddMgr)
    (hi : mDecref u m = (r, m')) : MRefOnly m m' := by
  unfold mDecref at hi
  split at hi
  · simp only [Prod.mk.injEq] at hi; obtain ⟨_, hm⟩ := hi; subst hm; exact MRefOnly.refl m
  · split at hi
    · simp only [Prod.mk.injEq] at hi; obtain ⟨_, hm⟩ := hi; subst hm; exact MRefOnly.refl m
    · simp only [Prod.mk.injEq] at hi; obtain ⟨_, hm⟩ := hi; subst hm
      refine ⟨rfl, rfl, rfl, rfl, rfl, ?_⟩
      intro k hk
      show (m.ref.insert u.natAbs _).contains k = true
      rw [TreeMap.contains_insert]; simp [hk]

theorem mIncrefAll_refOnly : ∀ (l : List Int) (m : MddMgr) (r : Except Err Unit) (m' : MddMgr),
    mIncrefAll l m = (r, m') → MRefOnly m m' := by
  intro l
  induction l with
  | nil =>
    intro m r m' hi
    simp only [mIncrefAll, Prod.mk.injEq] at hi
    obtain ⟨_, hm⟩ := hi; subst hm; exact MRefOnly.refl m
  | cons v rest ih =>
    intro m r m' hi
    unfold mIncrefAll at hi
    split at hi
    · next m1 h1 => exact (mIncref_refOnly v m _ m1 h1).trans (ih m1 r m' hi)
    · next e m1 h1 =>
      simp only [Prod.mk.injEq] at hi; obtain ⟨_, hm⟩ := hi; subst hm
      exact mIncref_refOnly v m _ m1 h1

/-- `incref` / `decref` keep the invariant and every denotation (they touch `_ref` only) -/
theorem mIncref_inv (u : Int) (m : MddMgr) (h : MInv m) (r : Except Err Unit) (m' : MddMgr)
    (hi : mIncref u m = (r, m')) : MInv m' ∧ m'.tbl = m.tbl :=
  ⟨(mIncref_refOnly u m r m' hi).inv h, (mIncref_refOnly u m r m' hi).tbl⟩

theorem mDecref_inv (u : Int) (m : MddMgr) (h : MInv m) (r : Except Err Unit) (m' : MddMgr)
    (hi : mDecref u m = (r, m')) : MInv m' ∧ m'.tbl = m.tbl :=
  ⟨(mDecref_refOnly u m r m' hi).inv h, (mDecref_refOnly u m r m' hi).tbl⟩

end DD
