/-
  DDProofs.LoadJson2OrderSched — `_copy.load_json(file, bdd, load_order=True)` on ANY content, EVERY
  outcome, for EVERY RECORDED SCHEDULE.  DDProofs.LoadJson2Order assumes `m.sched = []`.  With
  `load_order=True` dynamic reordering is switched off first, so the only consumer of the schedule
  is the explicit `reorder(order)` of the line `level_of_var`: it returns, or refuses
  (`ValueError`), or the model reports that the recorded schedule does not fit (`.sched`) — in
  every case in a good state (`reorder_keepS`), with a suffix of the schedule left; the rest of the
  load neither reads nor writes the schedule.  ACCEPTANCE: a schedule that begins with the record
  of a choice-driven `reorder(order)` (DDProps.C07Accept) does not make the load answer `.sched`.
-/
import DDProofs.LoadJson2Order
import DDProofs.DynSchedKeep
import DDProofs.DynSched
import DDProofs.SchedAccept
import DDProofs.SchedNaturalOps
open Std
namespace DD

theorem LeftN.ofRelS {e : Nat → Nat} {m m' : Mgr} (hI : Inv m) (hI' : Inv m') (hr : RefExact m e)
    (hr' : RefExact m' e) (h : RelS e m m') : LeftN e m m' :=
  ⟨fun s hs => by rw [h.names s]; exact hs, h.roots, fun w hw =>
    ⟨heldX_mem hr' hw, fun σ => heldX_denN_of_heldSame hI hI' hr hr' h.held hw σ⟩⟩

/-- the line `level_of_var` with `load_order=True`, ANY table, ANY recorded schedule -/
theorem jsonHeader_true_anyS (f : JsonFile) (hnd : (f.levelOfVar.map (·.1)).Nodup) (m0 : Mgr)
    (e : Nat → Nat) (g0 : GoodState m0 e) (hroots : ∀ r ∈ m0.roots, 0 < e r.natAbs) :
    ∃ r m2, jsonHeader f true m0 = (r, m2) ∧
      (r = .ok () ∨ r = .error .value ∨ (r = .error .sched ∧ m0.sched ≠ [])) ∧
      GoodState m2 e ∧ m2.sched <:+ m0.sched ∧ LeftN e m0 m2 ∧
      (r = .ok () → SortedBy (orderOf f.levelOfVar) m2) := by
  obtain ⟨m1, ed, g1, hdecl, -, -, -, r1⟩ := declare_spec (f.levelOfVar.map (·.1)) m0 e g0
  have kv1 : KeptV m0 m1 := by
    have := declare_keptV (f.levelOfVar.map (·.1)) m0 g0.inv
    rw [ed] at this; exact this
  have hs1 : m1.sched = m0.sched := declare_sched _ m0 e g0 m1 ed
  have left1 : LeftN e m0 m1 := by
    refine ⟨fun s hs => ?_, r1, fun w hw => ?_⟩
    · rw [TreeMap.contains_eq_isSome_getElem?] at hs ⊢
      obtain ⟨i, hi⟩ := Option.isSome_iff_exists.mp hs
      rw [kv1.vars s i hi]; rfl
    · have hm := heldX_mem g0.exact hw
      exact ⟨kv1.mem hm, fun σ => denN_of_keptV g0.inv g0.order g1.order kv1 w hm σ⟩
  have hRI : ReorderInv e m1 :=
    ⟨g1.inv, g1.order, g1.exact, Or.inl g1.ctx, by intro r hr; rw [r1] at hr; exact hroots r hr⟩
  rw [jsonHeader_true_eq f m0 m1 ed]
  let order := orderOf f.levelOfVar
  -- every outcome of `reorder(order)`: the state is kept
  have hK := reorder_keepS e m1 hRI (some order)
  -- with no schedule the default theorem applies
  have hdef : m0.sched = [] → (reorder (some order) m1).1 ≠ .error .sched := by
    intro hs hc
    obtain ⟨r, m2, hh, hr, _⟩ := jsonHeader_true_any f hnd m0 e g0 hs hroots
    rw [jsonHeader_true_eq f m0 m1 ed] at hh
    have hh' : reorder (some order) m1 = (r, m2) := hh
    rw [hh'] at hc
    rcases hr with hr | hr <;> · rw [hr] at hc; cases hc
  by_cases hlen : order.length = m1.nvars
  · have hcov : Covered order m1.nvars m1 := by
      have hsub : ∀ v ∈ f.levelOfVar.map (·.1), v ∈ m1.tbl.vars.keys := by
        intro v hv
        rw [TreeMap.mem_keys, ← TreeMap.contains_iff_mem, TreeMap.contains_eq_isSome_getElem?]
        exact hdecl v hv
      have hlen' : m1.tbl.vars.keys.length ≤ (f.levelOfVar.map (·.1)).length := by
        rw [TreeMap.length_keys]
        have h1 : order.length = f.levelOfVar.length := by simp [order, orderOf]
        have h2 : m1.nvars = m1.tbl.vars.size := rfl
        simp only [List.length_map]
        omega
      have hall := subset_of_nodup_length _ _ hnd hsub hlen'
      intro i hi
      obtain ⟨v, hv⟩ := g1.order.total i hi
      have hvv : m1.tbl.vars[v]? = some i := (g1.order.inv v i).mpr hv
      have hk : v ∈ m1.tbl.vars.keys := by
        rw [TreeMap.mem_keys, ← TreeMap.contains_iff_mem, TreeMap.contains_eq_isSome_getElem?, hvv]; rfl
      obtain ⟨⟨a, lv⟩, hal, rfl⟩ := List.mem_map.mp (hall v hk)
      exact ⟨a, (lv : Int), hv, lookup_map_of_nodup f.levelOfVar hnd a lv hal⟩
    have hS := sortToOrder_sorted (swapOK e) order m1 hRI hlen hcov
    have hS' : OkOr (fun er => er = Err.sched) (fun _ m' => ReorderInv e m' ∧ ReorderRel e m1 m' ∧
        m'.nvars = m1.nvars ∧ Covered order m1.nvars m' ∧ SortedBy order m' ∧ PermOf m1 m')
        (reorder (some order) m1) := hS
    generalize hres : reorder (some order) m1 = res at hK hS' hdef
    obtain ⟨r, m2⟩ := res
    cases r with
    | ok u =>
      obtain ⟨RI2, RS⟩ := hK
      have g2 : GoodState m2 e :=
        ⟨RI2.inv, RI2.order, RI2.refExact, by rw [RS.lastLen]; exact g1.off, by rw [RS.ctx]; exact g1.ctx⟩
      exact ⟨_, m2, rfl, Or.inl rfl, g2, by rw [← hs1]; exact RS.sched,
        left1.trans (LeftN.ofRelS g1.inv RI2.inv g1.exact RI2.refExact RS), fun _ => hS'.2.2.2.2.1⟩
    | error er =>
      have her : er = Err.sched := hS'
      subst her
      obtain ⟨RI2, RS⟩ := hK rfl
      have g2 : GoodState m2 e :=
        ⟨RI2.inv, RI2.order, RI2.refExact, by rw [RS.lastLen]; exact g1.off, by rw [RS.ctx]; exact g1.ctx⟩
      exact ⟨_, m2, rfl, Or.inr (Or.inr ⟨rfl, fun hs => hdef hs rfl⟩), g2, by rw [← hs1]; exact RS.sched,
        left1.trans (LeftN.ofRelS g1.inv RI2.inv g1.exact RI2.refExact RS), fun h => by cases h⟩
  · have hne : m1.nvars ≠ order.length := fun h => hlen h.symm
    have hrun := (C17_reorder_any_order e m1 hRI order).1 hne
    refine ⟨_, m1, hrun, Or.inr (Or.inl rfl), g1, by rw [hs1]; exact List.suffix_refl _, left1,
      fun h => by cases h⟩

/-- what `load_json(load_order=True)` leaves behind under ANY recorded schedule, whatever the
content and the outcome: `JsonOrderLeaves` with "a suffix of the schedule is left" for "no schedule
is left", and the model's `.sched` only if a schedule was recorded -/
structure JsonOrderLeavesS (f : JsonFile) (e : Nat → Nat) (m : Mgr) (out : Except Err Roots × Mgr) : Prop where
  noSignal : out.1 ≠ .error .needsReordering
  /-- the explicit `reorder(order)` of the header — the only consumer of the schedule — reports a
  mismatch only if a schedule was recorded -/
  schedErr : (jsonHeader f true { m with lastLen := none }).1 = .error .sched → m.sched ≠ []
  left : LeftN e m out.2
  inv : Inv out.2
  order : OrderOK out.2.tbl
  ctx : out.2.ctx = false
  sched : out.2.sched <:+ m.sched
  switch : match out.1 with
    | .ok _ => out.2.lastLen = some (max Gen.reorderStarts out.2.len)
    | .error _ => out.2.lastLen = none
  counts : match out.1 with
    | .ok roots => RefExact out.2 (extAdd e (roots.values.map Int.natAbs))
    | .error _ => RefExact out.2 e
  sorted : (jsonHeader f true { m with lastLen := none }).1 = .ok () →
    SortedBy (orderOf f.levelOfVar) out.2

/-- the state `load_json` starts from, any recorded schedule -/
structure LoadStartS (e : Nat → Nat) (m : Mgr) : Prop where
  inv : Inv m
  order : OrderOK m.tbl
  refs : RefExact m e
  ctx : m.ctx = false
  roots : ∀ r ∈ m.roots, 0 < e r.natAbs

theorem DynInvS.loadStartS {e : Nat → Nat} {m : Mgr} (h : DynInvS e m) : LoadStartS e m :=
  ⟨h.inv, h.order, h.refs, h.ctx, h.roots⟩

theorem LoadStartS.goodOff {e : Nat → Nat} {m : Mgr} (h : LoadStartS e m) :
    GoodState { m with lastLen := none } e :=
  ⟨⟨h.inv.wf, h.inv.pred, h.inv.freeGe, h.inv.free, h.inv.refOne, h.inv.refDom, h.inv.cache⟩,
    h.order, h.refs.congr_nodes (fun _ => rfl) rfl, rfl, h.ctx⟩

/-- `_copy.load_json(file, bdd, load_order=True)`, ANY content, ANY recorded schedule, EVERY outcome -/
theorem loadJson_true_anyS (f : JsonFile) (hnd : (f.levelOfVar.map (·.1)).Nodup) (m : Mgr) (e : Nat → Nat)
    (h : LoadStartS e m) : JsonOrderLeavesS f e m (loadJson f true m) := by
  rw [loadJson_true_eq]
  have g0 := h.goodOff
  have left0 : LeftN e m { m with lastLen := none } :=
    ⟨fun _ hs => hs, rfl, fun w hw => ⟨heldX_mem h.refs hw, fun _ => rfl⟩⟩
  obtain ⟨r, m2, hh, hr, g2, hs2, left2, hsorted⟩ :=
    jsonHeader_true_anyS f hnd { m with lastLen := none } e g0 h.roots
  have hs2' : m2.sched <:+ m.sched := hs2
  have left02 := left0.trans left2
  cases r with
  | error er =>
    have hne : er ≠ .needsReordering := by
      rcases hr with hr | hr | ⟨hr, _⟩
      · cases hr
      · cases hr; simp
      · cases hr; simp
    have hsch : er = .sched → m.sched ≠ [] := by
      intro he
      rcases hr with hr | hr | ⟨_, hr⟩
      · cases hr
      · cases hr; cases he
      · exact hr
    rw [jsonTry_header_err f true _ m2 er hh]
    obtain ⟨r', hfin, g⟩ := jsonFinish_errC (offCalc e) f true er [] (by simp) (by simp) none m2
      (show GoodState m2 (extAdd e ((none : Option Int).toList.map Int.natAbs ++ shelfRefs [])) by
        simpa [shelfRefs, extAdd_nil] using g2)
    have g' : GoodState { m2 with ref := r' } (extAdd e []) := g
    rw [extAdd_nil] at g'
    rw [hfin]
    have kw : KeptW m2 { m2 with ref := r' } := (offCalc e).kRef m2 r'
    refine ⟨(fun hh => hne (by cases hh; rfl)), (fun hc => hsch (by rw [hh] at hc; cases hc; rfl)),
      left02.trans (LeftN.ofKeptW g2.inv g2.order g2.exact kw g'.inv),
      g'.inv, g'.order, g'.ctx, hs2', g'.off, g'.exact, fun hok => ?_⟩
    rw [hh] at hok; cases hok
  | ok _ =>
    have hsort2 := hsorted rfl
    rw [jsonTry_header_ok f true _ m2 hh]
    have hshelf := makeNodesE_true_off e
      (f.levelOfVar.foldl (fun acc (x : String × Nat) => (x.2, x.1) :: acc) []) f.nodes [] m2 (by simp) (by simp)
      (show GoodState m2 (extAdd e (shelfRefs [])) by simpa [shelfRefs, extAdd_nil] using g2)
    obtain ⟨hn, mb, kb, hcase⟩ := finish_afterHeaderC (offCalc e) f true m2 hshelf
    have kb' : KeptW m2 mb := kb
    rcases hcase with ⟨roots, heq, g⟩ | ⟨er, heq, g⟩
    · have g' : GoodState mb (extAdd e (roots.values.map Int.natAbs)) := g
      have leftb := left02.trans (LeftN.ofKeptW g2.inv g2.order g2.exact kb' g'.inv)
      rw [heq] at hn ⊢
      simp only [cfgAfter, if_true]
      refine ⟨hn, (fun hc => by rw [hh] at hc; cases hc), ⟨leftb.names, leftb.roots, leftb.held⟩,
        ⟨g'.inv.wf, g'.inv.pred, g'.inv.freeGe, g'.inv.free, g'.inv.refOne, g'.inv.refDom, g'.inv.cache⟩,
        g'.order, g'.ctx, by show mb.sched <:+ m.sched; rw [kb'.2.sched]; exact hs2', rfl,
        g'.exact.congr_nodes (fun _ => rfl) rfl, fun _ => ?_⟩
      exact SortedBy.congr hsort2 kb'.2.vars kb'.2.l2v
    · have g' : GoodState mb (extAdd e []) := g
      rw [extAdd_nil] at g'
      have leftb := left02.trans (LeftN.ofKeptW g2.inv g2.order g2.exact kb' g'.inv)
      rw [heq] at hn ⊢
      exact ⟨hn, (fun hc => by rw [hh] at hc; cases hc), leftb, g'.inv, g'.order, g'.ctx,
        by show mb.sched <:+ m.sched; rw [kb'.2.sched]; exact hs2',
        g'.off, g'.exact, fun _ => SortedBy.congr hsort2 kb'.2.vars kb'.2.l2v⟩

/-! ### acceptance for the header -/

theorem addVar_sn (v : String) (level : Option Int) : SN (addVar v level) := by
  intro s m
  unfold addVar
  rw [M.bind_ok (M.get_eq _), M.bind_ok (M.get_eq _)]
  dsimp only [setS_tbl, setS_nvars]
  cases m.tbl.vars[v]? with
  | some vl =>
    cases level with
    | none => rfl
    | some l =>
      dsimp only
      split <;> rfl
  | none =>
    dsimp only
    split
    · rfl
    · cases m.tbl.l2v[(level.getD m.nvars).toNat]? <;> rfl

theorem declare_sn : ∀ (vars : List String), SN (declare vars)
  | [] => fun s m => by rw [declare_nil, declare_nil]
  | v :: vs => by
    intro s m
    rw [declare_cons, declare_cons, addVar_sn v none s m]
    generalize addVar v none m = r
    obtain ⟨r, m1⟩ := r
    cases r with
    | error e => rfl
    | ok _ => exact declare_sn vs s m1

/-- **acceptance for the line `level_of_var`** (`load_order=True`): the record of the
choice-driven `reorder(order)` run after the declarations, put in front of ANY continuation of
the schedule, makes the header return in the state of the choice-driven run, with exactly the
continuation left -/
theorem jsonHeader_true_accepts (f : JsonFile) (m0 m1 : Mgr) (e : Nat → Nat) (c : Choice) (hc : c.Valid)
    (hd : declare (f.levelOfVar.map (·.1)) m0 = (.ok (), m1)) (hRI : ReorderInv e m1)
    (sch : List SchedItem) (m2 : Mgr)
    (hrun : reorderC c (some (orderOf f.levelOfVar)) [] m1 = (.ok ((), sch), m2)) :
    ∀ rest, jsonHeader f true (setS (sch ++ rest) m0) = (.ok (), setS rest m2) := by
  intro rest
  have hd' : declare (f.levelOfVar.map (·.1)) (setS (sch ++ rest) m0) = (.ok (), setS (sch ++ rest) m1) := by
    rw [declare_sn _ _ m0, hd]
  rw [jsonHeader_true_eq f _ _ hd']
  have hA := reorderC_acc e c hc (some (orderOf f.levelOfVar)) [] m1 hRI
  rw [hrun] at hA
  obtain ⟨new, hl, _, _, hacc⟩ := hA.ok_run
  have : sch = new := by rw [hl]; rfl
  subst this
  exact hacc rest

end DD
