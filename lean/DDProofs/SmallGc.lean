/-
  DDProofs.SmallGc — frame facts of the rooted collection `collect_garbage(roots)` (C06):
  the removed set (`Dead`, the count-0 cascade from the roots of count 0) described by
  reachability, and what happens to the counts of the surviving nodes.
-/
import DDProofs.GcSched
import DDProofs.VarsProofs
open Std

namespace DD

/-! ### in-degree in a sub-table -/

theorem indegUpTo_mono_sub {t t' : Tbl} (h : ∀ k x, t'.node? k = some x → t.node? k = some x) (u : Nat) :
    ∀ b, indegUpTo t' u b ≤ indegUpTo t u b := by
  intro b
  induction b with
  | zero => exact Nat.le_refl _
  | succ b ih =>
    simp only [indegUpTo]
    have : slotCount t' u b ≤ slotCount t u b := by
      unfold slotCount
      cases h' : t'.node? b with
      | none => exact Nat.zero_le _
      | some x => rw [h b x h']; exact Nat.le_refl _
    omega

/-- a sub-table has at most the stored edges of the table -/
theorem indeg_mono_sub {t t' : Tbl} (h : ∀ k x, t'.node? k = some x → t.node? k = some x) (u : Nat) :
    indeg t' u ≤ indeg t u := by
  rw [indeg_eq_upTo t' u (max t.bound t'.bound) (fun k n hk => by have := t'.lt_bound hk; omega),
    indeg_eq_upTo t u (max t.bound t'.bound) (fun k n hk => by have := t.lt_bound hk; omega)]
  exact indegUpTo_mono_sub h u _

theorem indegUpTo_eq_sub {t t' : Tbl} (h : ∀ k x, t'.node? k = some x → t.node? k = some x) (u : Nat)
    (hp : ∀ k x, t.node? k = some x → (x.lo.natAbs = u ∨ x.hi.natAbs = u) → t'.node? k = some x) :
    ∀ b, indegUpTo t' u b = indegUpTo t u b := by
  intro b
  induction b with
  | zero => rfl
  | succ b ih =>
    simp only [indegUpTo, ih]
    congr 1
    unfold slotCount
    cases h' : t'.node? b with
    | some x => rw [h b x h']
    | none =>
      cases h0 : t.node? b with
      | none => rfl
      | some x =>
        simp only [edgeCount]
        by_cases h1 : x.lo.natAbs = u
        · have := hp b x h0 (Or.inl h1); rw [h'] at this; cases this
        · by_cases h2 : x.hi.natAbs = u
          · have := hp b x h0 (Or.inr h2); rw [h'] at this; cases this
          · simp [h1, h2]

/-- a node all of whose stored parents are in the sub-table has the same in-degree there -/
theorem indeg_eq_sub {t t' : Tbl} (h : ∀ k x, t'.node? k = some x → t.node? k = some x) (u : Nat)
    (hp : ∀ k x, t.node? k = some x → (x.lo.natAbs = u ∨ x.hi.natAbs = u) → t'.node? k = some x) :
    indeg t' u = indeg t u := by
  rw [indeg_eq_upTo t' u (max t.bound t'.bound) (fun k n hk => by have := t'.lt_bound hk; omega),
    indeg_eq_upTo t u (max t.bound t'.bound) (fun k n hk => by have := t.lt_bound hk; omega)]
  exact indegUpTo_eq_sub h u hp _

/-! ### the removed set by reachability -/

/-- the nodes that protect their descendants in `collect_garbage(roots)`: the nodes the user
holds, and the nodes of count 0 that are NOT in the start worklist `W` (count 0 but not
among the given roots: the rooted collection does not look at them). -/
def GcKeep (m : Mgr) (ext : Nat → Nat) (W : Nat → Prop) (u : Nat) : Prop :=
  0 < ext u ∨ (m.ref[u]? = some 0 ∧ ¬ W u)

/-- nothing reachable from a protecting node is in the removed set -/
theorem reach_not_dead {m : Mgr} {ext : Nat → Nat} {W : Nat → Prop} (hr : RefExact m ext)
    (hW : ∀ k, W k → m.ref[k]? = some 0) {u : Nat} (hu : GcReach m.tbl (GcKeep m ext W) u) :
    ¬ Dead m.tbl ext W u := by
  have hchild : ∀ (q : Nat) (y : Nd) (k : Nat), m.tbl.node? q = some y →
      (y.lo.natAbs = k ∨ y.hi.natAbs = k) → ¬ Dead m.tbl ext W q → ¬ Dead m.tbl ext W k := by
    intro q y k hq hch hnq hd
    cases hd with
    | root hw =>
      have h0 := hW k hw
      have hc := hr.cnt k 0 h0
      have hpos : 0 < indeg m.tbl k := by
        rcases hch with h | h
        · rw [← h]; exact indeg_pos_of_lo hq
        · rw [← h]; exact indeg_pos_of_hi hq
      omega
    | cascade _ _ _ _ hall => exact hnq (hall q y hq hch)
  induction hu with
  | @root u h =>
    intro hd
    rcases h with he | ⟨h0, hnw⟩
    · cases hd with
      | root hw =>
        have hc := hr.cnt u 0 (hW u hw)
        omega
      | cascade _ he0 _ _ _ => omega
    · cases hd with
      | root hw => exact hnw hw
      | cascade _ _ hp hch _ =>
        have hc := hr.cnt u 0 h0
        have hpos : 0 < indeg m.tbl u := by
          rcases hch with h | h
          · rw [← h]; exact indeg_pos_of_lo hp
          · rw [← h]; exact indeg_pos_of_hi hp
        omega
  | @lo k n _ hn ih => exact hchild k n _ hn (Or.inl rfl) ih
  | @hi k n _ hn ih => exact hchild k n _ hn (Or.inr rfl) ih

/-- every stored node outside the removed set is reachable from a protecting node -/
theorem not_dead_reach {m : Mgr} {ext : Nat → Nat} {W : Nat → Prop} (hs : InvS m) (hr : RefExact m ext) :
    ∀ (l u : Nat) (n : Nd), m.tbl.node? u = some n → n.lvl = l → ¬ Dead m.tbl ext W u →
      GcReach m.tbl (GcKeep m ext W) u := by
  intro l
  induction l using Nat.strongRecOn with
  | _ l ih =>
    intro u n hn hl hnd
    have hu2 := hs.wf.ge_two _ _ hn
    have hu1 : ¬ u = 1 := by omega
    have hg := hr.get (u := (u : Int)) (Or.inr (by simp [hn]))
    simp only [Int.natAbs_natCast, hu1, if_false, Nat.add_zero] at hg
    by_cases he : 0 < ext u
    · exact GcReach.root (Or.inl he)
    have he0 : ext u = 0 := by omega
    by_cases hz : indeg m.tbl u = 0
    · refine GcReach.root (Or.inr ⟨by rw [hg, hz, he0], fun hw => hnd (Dead.root hw)⟩)
    · obtain ⟨p, x, hp, hch⟩ := indeg_pos (Nat.pos_of_ne_zero hz)
      -- some stored parent is outside the removed set
      have hex : ∃ q y, m.tbl.node? q = some y ∧ (y.lo.natAbs = u ∨ y.hi.natAbs = u) ∧
          ¬ Dead m.tbl ext W q := by
        apply Classical.byContradiction
        intro hno
        apply hnd
        refine Dead.cascade (p := p) (x := x) hu1 he0 hp hch ?_
        intro q y hq hc
        apply Classical.byContradiction
        intro hq'
        exact hno ⟨q, y, hq, hc, hq'⟩
      obtain ⟨q, y, hq, hc, hqd⟩ := hex
      have hlev : ∀ e : Int, e.natAbs = u → m.tbl.levelOf e = n.lvl := by
        intro e he'
        apply levelOf_node
        · rw [he']; exact hu1
        · rw [he']; exact hn
      rcases hc with hc | hc
      · have hlt := hs.wf.lo_lt _ _ hq
        rw [hlev _ hc] at hlt
        have := ih y.lvl (by omega) q y hq rfl hqd
        rw [← hc]; exact GcReach.lo this hq
      · have hlt := hs.wf.hi_lt _ _ hq
        rw [hlev _ hc] at hlt
        have := ih y.lvl (by omega) q y hq rfl hqd
        rw [← hc]; exact GcReach.hi this hq

/-- the removed set of `collect_garbage(roots)`, by reachability: a stored node is removed
iff it is NOT reachable from a node the user holds or from a count-0 node outside the roots -/
theorem dead_iff_unreachable {m : Mgr} {ext : Nat → Nat} {W : Nat → Prop} (hs : InvS m) (hr : RefExact m ext)
    (hW : ∀ k, W k → m.ref[k]? = some 0) (u : Nat) (n : Nd) (hn : m.tbl.node? u = some n) :
    Dead m.tbl ext W u ↔ ¬ GcReach m.tbl (GcKeep m ext W) u := by
  constructor
  · intro hd hre; exact reach_not_dead hr hW hre hd
  · intro hnr
    apply Classical.byContradiction
    intro hnd
    exact hnr (not_dead_reach hs hr n.lvl u n hn rfl hnd)

/-- when every count-0 node is among the roots (in particular for `roots = None`), the
protecting nodes are exactly the held nodes -/
theorem gcReach_keep_full {m : Mgr} {ext : Nat → Nat} {W : Nat → Prop}
    (hall : ∀ k, m.ref[k]? = some 0 → W k) (u : Nat) :
    GcReach m.tbl (GcKeep m ext W) u ↔ GcReach m.tbl (GcHeld ext) u := by
  constructor
  · intro h
    induction h with
    | root h =>
      rcases h with h | ⟨h0, hnw⟩
      · exact GcReach.root h
      · exact absurd (hall _ h0) hnw
    | lo _ hn ih => exact GcReach.lo ih hn
    | hi _ hn ih => exact GcReach.hi ih hn
  · intro h
    induction h with
    | root h => exact GcReach.root (Or.inl h)
    | lo _ hn ih => exact GcReach.lo ih hn
    | hi _ hn ih => exact GcReach.hi ih hn

theorem gcStart_zero (roots : Option (List Int)) (m : Mgr) (k : Nat) (h : gcStart roots m k) :
    m.ref[k]? = some 0 := h.1

/-- the order predicate only reads the two order maps -/
theorem OrderOK.of_same_order {t t' : Tbl} (h : OrderOK t) (hv : t'.vars = t.vars) (hl : t'.l2v = t.l2v) :
    OrderOK t' := by
  have hn : t'.nvars = t.nvars := by simp only [Tbl.nvars, hv]
  exact ⟨by rw [hv, hl]; exact h.inv, by rw [hv, hn]; exact h.lt, by rw [hn, hl]; exact h.total⟩

/-! ### counts of the surviving nodes -/

/-- a surviving node's count after the collection: never larger than before; unchanged when
none of its stored parents was removed -/
theorem GcPost.ref_le {m m' : Mgr} {ext : Nat → Nat} {W : Nat → Prop} (h : GcPost m ext W m')
    (hr : RefExact m ext) (u c : Nat) (hc : m'.ref[u]? = some c) :
    ∃ c0, m.ref[u]? = some c0 ∧ c ≤ c0 ∧
      ((∀ k x, m.tbl.node? k = some x → (x.lo.natAbs = u ∨ x.hi.natAbs = u) →
          m'.tbl.node? k = some x) → c = c0) := by
  have hmem' : u = 1 ∨ (m'.tbl.node? u).isSome := (h.refExact.dom u).mp (by simp [hc])
  have hmem : u = 1 ∨ (m.tbl.node? u).isSome := by
    rcases hmem' with h1 | h1
    · exact Or.inl h1
    · obtain ⟨x, hx⟩ := Option.isSome_iff_exists.mp h1
      exact Or.inr (by simp [h.sub.sub u x hx])
  obtain ⟨c0, hc0⟩ := Option.isSome_iff_exists.mp ((hr.dom u).mpr hmem)
  have e1 := h.refExact.cnt u c hc
  have e0 := hr.cnt u c0 hc0
  have hle := indeg_mono_sub h.sub.sub u
  refine ⟨c0, hc0, by omega, fun hp => ?_⟩
  have := indeg_eq_sub h.sub.sub u hp
  omega

end DD
