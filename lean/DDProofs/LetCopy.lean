/-
  DDProofs.LetCopy — `compose`, `rename`, `let`, and `copy_bdd` between managers
  (reordering not enabled), from the specifications of `_compose`, `_vector_compose`
  and `_copy_bdd`.
-/
import DDProofs.SubstWrappers
open Std

namespace DD

/-- `vars` and `_level_to_var` are mutually inverse bijections between the declared names and
the levels `0 .. nvars-1` -/
structure VarsBij (t : Tbl) : Prop where
  v2l : ∀ (v : String) (i : Nat), t.vars[v]? = some i → t.l2v[i]? = some v
  l2v : ∀ (i : Nat) (v : String), t.l2v[i]? = some v → t.vars[v]? = some i
  lt : ∀ (v : String) (i : Nat), t.vars[v]? = some i → i < t.nvars
  onto : ∀ (i : Nat), i < t.nvars → ∃ v : String, t.vars[v]? = some i

theorem VarsBij.inj {t : Tbl} (h : VarsBij t) {v v' : String} {i : Nat}
    (h1 : t.vars[v]? = some i) (h2 : t.vars[v']? = some i) : v = v' := by
  have a := h.v2l _ _ h1
  have b := h.v2l _ _ h2
  rw [a] at b
  exact Option.some.inj b

/-! ### `compose` -/

theorem vsub_single (t : Tbl) (j : Nat) (g : Int) (a : Asg) :
    vsub t [(j, g)] a = upd a j (den t g a) := by
  funext i
  by_cases h : i = j
  · subst h; simp [vsub, List.lookup]
  · have : (i == j) = false := by simpa using h
    simp [vsub, List.lookup, this, upd, h]

theorem levelOfVarE_ok {t : Tbl} {v : String} {j : Nat} (h : t.vars[v]? = some j) :
    levelOfVarE t v = .ok j := by
  simp [levelOfVarE, h]

/-- the level-keyed substitution that `compose` builds from a name-keyed dictionary -/
def subOf (t : Tbl) (varSub : List (String × Int)) : List (Nat × Int) :=
  varSub.map fun p => (lvlOf t p.1, p.2)

/-- `BDD.compose(f, {var: g})`: one variable -/
theorem compose_single_spec (m : Mgr) (hI : Inv m) (hoff : m.lastLen = none) (f g : Int)
    (hf : m.tbl.Mem f) (hg : m.tbl.Mem g) (v : String) (j : Nat) (hv : m.tbl.vars[v]? = some j) :
    ∃ r m', compose f [(v, g)] m = (.ok r, m') ∧ Inv m' ∧ Ext m.tbl m'.tbl ∧ m'.tbl.Mem r ∧
      Frame m m' ∧ ∀ a, den m'.tbl r a = den m.tbl f (upd a j (den m.tbl g a)) := by
  have hI0 : Inv { m with ctx := true } := hI.setCtx true
  have hW := hI.wf.toWF
  obtain ⟨r, c', m1, he, hs, _, hp⟩ := composeF_spec j (2 * m.nvars + 4) { m with ctx := true }
    f g {} hI0 hoff hf hg (KMemo.empty _ _) (by show 2 * m.nvars + 1 ≤ _; omega)
  have hb : composeBody f [(v, g)] { m with ctx := true } = (.ok r, m1) := by
    unfold composeBody
    have : ({ m with ctx := true } : Mgr).tbl = m.tbl := rfl
    simp only [this, levelOfVarE_ok hv]
    have : ({ m with ctx := true } : Mgr).nvars = m.nvars := rfl
    rw [this, he]
  obtain ⟨hres, hst⟩ := decorated_ok _ m r m1 hb hs
  refine ⟨r, _, hres, hst.inv, hst.ext, hp.mr, hst.frame, ?_⟩
  intro a
  rw [hp.den a, den_ext hs.ext hW g a hg, den_ext hs.ext hW f _ hf]

/-- `BDD.compose(f, var_sub)` with zero or several variables: simultaneous substitution -/
theorem compose_vector_spec (m : Mgr) (hI : Inv m) (hoff : m.lastLen = none) (f : Int)
    (hf : m.tbl.Mem f) (varSub : List (String × Int)) (hlen : varSub.length ≠ 1)
    (hdecl : ∀ p, p ∈ varSub → m.tbl.vars.contains p.1 = true)
    (hmem : ∀ p, p ∈ varSub → m.tbl.Mem p.2) :
    ∃ r m', compose f varSub m = (.ok r, m') ∧ Inv m' ∧ Ext m.tbl m'.tbl ∧ m'.tbl.Mem r ∧
      Frame m m' ∧ ∀ a, den m'.tbl r a = den m.tbl f (vsub m.tbl (subOf m.tbl varSub) a) := by
  have hI0 : Inv { m with ctx := true } := hI.setCtx true
  have hW := hI.wf.toWF
  have hsm : SubMem m.tbl (subOf m.tbl varSub) := by
    intro i g hl
    have := lookup_some_mem i g _ hl
    obtain ⟨p, hp, heq⟩ := List.mem_map.mp this
    cases heq
    exact hmem p hp
  obtain ⟨r, c', m1, he, hs, _, hp⟩ := vectorComposeF_spec (subOf m.tbl varSub) (m.nvars + 2)
    { m with ctx := true } f {} hI0 hoff hf hsm (VMemo.empty _ _) (by show m.nvars + 1 ≤ _; omega)
  have hmap : mapME (subLevelE m.tbl) varSub = .ok (subOf m.tbl varSub) := by
    apply mapME_ok
    intro p hp
    obtain ⟨l, hl⟩ := (vars_contains_iff m.tbl p.1).mp (hdecl p hp)
    simp [subLevelE, levelOfVarE, hl, lvlOf]
  have hb : composeBody f varSub { m with ctx := true } = (.ok r, m1) := by
    unfold composeBody
    split
    · next v g => simp at hlen
    · have : ({ m with ctx := true } : Mgr).tbl = m.tbl := rfl
      simp only [this, hmap]
      have : ({ m with ctx := true } : Mgr).nvars = m.nvars := rfl
      rw [this, he]
  obtain ⟨hres, hst⟩ := decorated_ok _ m r m1 hb hs
  refine ⟨r, _, hres, hst.inv, hst.ext, hp.mr, hst.frame, ?_⟩
  intro a
  rw [hp.den a, den_ext hs.ext hW f _ hf, vsub_ext hs.ext hW hsm]

/-- `BDD.compose(f, var_sub)` for every dictionary of declared names and member references -/
theorem compose_spec (m : Mgr) (hI : Inv m) (hoff : m.lastLen = none) (f : Int)
    (hf : m.tbl.Mem f) (varSub : List (String × Int))
    (hdecl : ∀ p, p ∈ varSub → m.tbl.vars.contains p.1 = true)
    (hmem : ∀ p, p ∈ varSub → m.tbl.Mem p.2) :
    ∃ r m', compose f varSub m = (.ok r, m') ∧ Inv m' ∧ Ext m.tbl m'.tbl ∧ m'.tbl.Mem r ∧
      Frame m m' ∧ ∀ a, den m'.tbl r a = den m.tbl f (vsub m.tbl (subOf m.tbl varSub) a) := by
  by_cases hlen : varSub.length = 1
  · match varSub, hlen with
    | [(v, g)], _ =>
      obtain ⟨j, hj⟩ := (vars_contains_iff m.tbl v).mp (hdecl (v, g) List.mem_cons_self)
      obtain ⟨r, m', h1, h2, h3, h4, h5, h6⟩ := compose_single_spec m hI hoff f g hf
        (hmem (v, g) List.mem_cons_self) v j hj
      refine ⟨r, m', h1, h2, h3, h4, h5, ?_⟩
      intro a
      rw [h6 a]
      simp only [subOf, List.map_cons, List.map_nil, lvlOf_eq hj]
      rw [vsub_single]
  · exact compose_vector_spec m hI hoff f hf varSub hlen hdecl hmem

/-! ### `rename` -/

/-- `dvars.get(var, var)` for a dictionary given as the list of its items -/
def tgtName (dvars : List (String × String)) (s : String) : String :=
  (dvars.reverse.lookup s).getD s

/-- the level to which `rename` sends level `i` -/
def renLevel (t : Tbl) (dvars : List (String × String)) (i : Nat) : Nat :=
  match t.l2v[i]? with
  | some v => lvlOf t (tgtName dvars v)
  | none => i

theorem tgtName_declared (t : Tbl) (dvars : List (String × String))
    (hd : ∀ p, p ∈ dvars → t.vars.contains p.2 = true) (s : String)
    (hs : t.vars.contains s = true) : t.vars.contains (tgtName dvars s) = true := by
  unfold tgtName
  cases hl : dvars.reverse.lookup s with
  | none => simpa using hs
  | some w =>
    have := lookup_some_mem s w _ hl
    rw [List.mem_reverse] at this
    simpa using hd _ this

theorem lookup_map_unique (f : String → Nat) (v : String) (i : Nat) :
    ∀ l : List (String × Nat), (v, i) ∈ l → (∀ v', (v', i) ∈ l → v' = v) →
      (l.map fun vl => (vl.2, f vl.1)).lookup i = some (f v) := by
  intro l
  induction l with
  | nil => intro h; cases h
  | cons p l ih =>
    intro hm hu
    obtain ⟨v0, i0⟩ := p
    rw [List.map_cons, List.lookup_cons]
    by_cases heq : i = i0
    · subst heq
      have : v0 = v := hu v0 List.mem_cons_self
      subst this
      simp
    · have hne : (i == i0) = false := by simpa using heq
      simp only [hne]
      apply ih
      · rcases List.mem_cons.mp hm with h | h
        · cases h; exact absurd rfl heq
        · exact h
      · intro v' hv'; exact hu v' (List.mem_cons_of_mem _ hv')

/-- the level map of `rename` when every target name is declared -/
theorem renameMap_ok (t : Tbl) (dvars : List (String × String))
    (hd : ∀ p, p ∈ dvars → t.vars.contains p.2 = true) :
    renameMap t dvars =
      .ok (t.vars.toList.map fun vl => (vl.2, lvlOf t (tgtName dvars vl.1))) := by
  unfold renameMap
  apply mapME_ok
  intro vl hvl
  have hdecl : t.vars.contains vl.1 = true := by
    rw [vars_contains_iff]
    exact ⟨vl.2, TreeMap.mem_toList_iff_getElem?_eq_some.mp hvl⟩
  obtain ⟨l, hl⟩ := (vars_contains_iff t _).mp (tgtName_declared t dvars hd vl.1 hdecl)
  have : tgtName dvars vl.1 = (dvars.reverse.lookup vl.1).getD vl.1 := rfl
  rw [← this, hl]
  simp [lvlOf, hl]

theorem renameMap_lookup (t : Tbl) (hV : VarsBij t) (dvars : List (String × String))
    (i : Nat) (v : String) (hv : t.vars[v]? = some i) :
    (t.vars.toList.map fun vl => (vl.2, lvlOf t (tgtName dvars vl.1))).lookup i =
      some (lvlOf t (tgtName dvars v)) := by
  apply lookup_map_unique (fun s => lvlOf t (tgtName dvars s)) v i
  · exact TreeMap.mem_toList_iff_getElem?_eq_some.mpr hv
  · intro v' hv'
    exact hV.inj (TreeMap.mem_toList_iff_getElem?_eq_some.mp hv') hv

/-- `BDD.rename(u, dvars)` (names to names; any map, injective or not): the result denotes `u`
with every level read at the level of its target name -/
theorem rename_spec (m : Mgr) (hI : Inv m) (hoff : m.lastLen = none) (hV : VarsBij m.tbl)
    (u : Int) (hu : m.tbl.Mem u) (dvars : List (String × String))
    (hd : ∀ p, p ∈ dvars → m.tbl.vars.contains p.2 = true) :
    ∃ r m', rename u dvars m = (.ok r, m') ∧ Inv m' ∧ Ext m.tbl m'.tbl ∧ m'.tbl.Mem r ∧
      Frame m m' ∧ ∀ a, den m'.tbl r a = den m.tbl u (fun i => a (renLevel m.tbl dvars i)) := by
  have hI0 : Inv { m with ctx := true } := hI.setCtx true
  have hW := hI.wf.toWF
  have hmem : ({ m with ctx := true } : Mgr).mem u = true := (Mgr.mem_iff m u).mpr hu
  have htbl : ({ m with ctx := true } : Mgr).tbl = m.tbl := rfl
  by_cases hemp : dvars.isEmpty = true
  · -- nothing to rename
    have hb : renameBody u dvars { m with ctx := true } = (.ok u, { m with ctx := true }) := by
      unfold renameBody
      simp only [hmem, Bool.not_true, Bool.false_eq_true, if_false, hemp, if_true]
    obtain ⟨hres, hst⟩ := decorated_ok _ m u _ hb (Step.refl hI0)
    refine ⟨u, _, hres, hst.inv, hst.ext, hu, hst.frame, ?_⟩
    intro a
    apply den_agree_ge m.tbl hW u hu
    intro i _ hlt
    obtain ⟨v, hv⟩ := hV.onto i hlt
    have hd0 : dvars = [] := List.isEmpty_iff.mp hemp
    simp [renLevel, hV.v2l _ _ hv, hd0, tgtName, lvlOf, hv]
  · generalize hlm : (m.tbl.vars.toList.map fun vl => (vl.2, lvlOf m.tbl (tgtName dvars vl.1))) = lm
    have hlook : ∀ i v, m.tbl.vars[v]? = some i →
        lm.lookup i = some (lvlOf m.tbl (tgtName dvars v)) := by
      intro i v hv; rw [← hlm]; exact renameMap_lookup m.tbl hV dvars i v hv
    have htl : ∀ v, m.tbl.vars.contains v = true →
        lvlOf m.tbl (tgtName dvars v) < m.tbl.nvars := by
      intro v hv
      obtain ⟨l, hl⟩ := (vars_contains_iff m.tbl _).mp (tgtName_declared m.tbl dvars hd v hv)
      rw [lvlOf_eq hl]; exact hV.lt _ _ hl
    obtain ⟨r, c', m1, he, hs, _, hp⟩ := copyBddF_spec none lm m.tbl hW (m.nvars + 2)
      { m with ctx := true } u {} hI0 hoff (Ext.refl _) hu (CMemo.empty _ _ _)
      (by
        intro i hi
        obtain ⟨v, hv⟩ := hV.onto i (hi.lt_nvars hW)
        exact ⟨_, hlook i v hv, htl v ((vars_contains_iff _ _).mpr ⟨i, hv⟩)⟩)
      (by show m.tbl.nvars + 1 ≤ _; have : m.nvars = m.tbl.nvars := rfl; omega)
    have hb : renameBody u dvars { m with ctx := true } = (.ok r, m1) := by
      unfold renameBody
      simp only [hmem, Bool.not_true, Bool.false_eq_true, if_false, hemp, htbl,
        renameMap_ok m.tbl dvars hd, hlm]
      have : ({ m with ctx := true } : Mgr).nvars = m.nvars := rfl
      rw [this, he]
    obtain ⟨hres, hst⟩ := decorated_ok _ m r m1 hb hs
    refine ⟨r, _, hres, hst.inv, hst.ext, hp.mr, hst.frame, ?_⟩
    intro a
    rw [hp.den a]
    apply den_agree_ge m.tbl hW u hu
    intro i _ hlt
    obtain ⟨v, hv⟩ := hV.onto i hlt
    simp [cmap, hlook i v hv, renLevel, hV.v2l _ _ hv]

/-! ### `let` -/

theorem letOp_bools_nil (u : Int) (m : Mgr) : letOp (.bools []) u m = (.ok u, m) := rfl
theorem letOp_refs_nil (u : Int) (m : Mgr) : letOp (.refs []) u m = (.ok u, m) := rfl
theorem letOp_names_nil (u : Int) (m : Mgr) : letOp (.names []) u m = (.ok u, m) := rfl

theorem letOp_bools (d : List (Key × Bool)) (hd : d ≠ []) (u : Int) :
    letOp (.bools d) u = cofactor u d := by
  cases d with
  | nil => exact absurd rfl hd
  | cons _ _ => rfl

theorem letOp_refs (d : List (String × Int)) (hd : d ≠ []) (u : Int) :
    letOp (.refs d) u = compose u d := by
  cases d with
  | nil => exact absurd rfl hd
  | cons _ _ => rfl

theorem letOp_names (d : List (String × String)) (hd : d ≠ []) (u : Int) :
    letOp (.names d) u = rename u d := by
  cases d with
  | nil => exact absurd rfl hd
  | cons _ _ => rfl

/-! ### `copy_bdd` between managers -/

/-- value of a reference as a function of variable NAMES -/
def nameAsg (t : Tbl) (a : String → Bool) : Asg := fun i =>
  match t.l2v[i]? with
  | some v => a v
  | none => false

def denName (t : Tbl) (u : Int) (a : String → Bool) : Bool := den t u (nameAsg t a)

theorem lookup_filterMap_unique (g : String → Option Nat) (v : String) (i j : Nat)
    (hg : g v = some j) :
    ∀ l : List (String × Nat), (v, i) ∈ l → (∀ v', (v', i) ∈ l → v' = v) →
      (l.filterMap fun vl => match g vl.1 with
        | some l2 => some (vl.2, l2)
        | none => none).lookup i = some j := by
  intro l
  induction l with
  | nil => intro h; cases h
  | cons p l ih =>
    intro hm hu
    obtain ⟨v0, i0⟩ := p
    by_cases heq : i = i0
    · subst heq
      have : v0 = v := hu v0 List.mem_cons_self
      subst this
      simp [List.filterMap_cons, hg, List.lookup_cons]
    · have hne : (i == i0) = false := by simpa using heq
      have htail : (v, i) ∈ l := by
        rcases List.mem_cons.mp hm with h | h
        · cases h; exact absurd rfl heq
        · exact h
      have ih' := ih htail (fun v' hv' => hu v' (List.mem_cons_of_mem _ hv'))
      rw [List.filterMap_cons]
      cases hg0 : g v0 with
      | none => simpa [hg0] using ih'
      | some j0 => simp only [hg0, List.lookup_cons, hne]; exact ih'

/-- `copy_bdd(u, from_bdd, to_bdd)`: `s` is the source table (only read), `m` the target
manager; every variable of the support of `u` is declared in the target.  The copy denotes the
same function of the variable names; the target keeps its invariant and only gains nodes. -/
theorem copyBdd_spec (s : Tbl) (hS : WF s) (hVs : VarsBij s) (m : Mgr) (hI : Inv m)
    (hoff : m.lastLen = none) (hVm : VarsBij m.tbl) (u : Int) (hu : s.Mem u)
    (hsup : ∀ i v, InSupp s u i → s.l2v[i]? = some v → m.tbl.vars.contains v = true) :
    ∃ r m', copyBdd s u m = (.ok r, m') ∧ Inv m' ∧ Ext m.tbl m'.tbl ∧ m'.tbl.Mem r ∧
      Frame m m' ∧ (0 < r ↔ 0 < u) ∧ denName m'.tbl r = denName s u := by
  have hI0 : Inv { m with ctx := true } := hI.setCtx true
  have htbl : ({ m with ctx := true } : Mgr).tbl = m.tbl := rfl
  -- the level map, on the support
  have hlook : ∀ i v, InSupp s u i → s.l2v[i]? = some v →
      ∃ j, (copyMap s m.tbl).lookup i = some j ∧ m.tbl.vars[v]? = some j := by
    intro i v hi hv
    obtain ⟨j, hj⟩ := (vars_contains_iff m.tbl v).mp (hsup i v hi hv)
    refine ⟨j, ?_, hj⟩
    unfold copyMap
    apply lookup_filterMap_unique (fun x => m.tbl.vars[x]?) v i j hj
    · exact TreeMap.mem_toList_iff_getElem?_eq_some.mpr (hVs.l2v _ _ hv)
    · intro v' hv'
      exact hVs.inj (TreeMap.mem_toList_iff_getElem?_eq_some.mp hv') (hVs.l2v _ _ hv)
  have hname : ∀ i, InSupp s u i → ∃ v, s.l2v[i]? = some v := by
    intro i hi
    obtain ⟨v, hv⟩ := hVs.onto i (hi.lt_nvars hS)
    exact ⟨v, hVs.v2l _ _ hv⟩
  obtain ⟨r, c', m1, he, hs, _, hp⟩ := copyBddF_spec (some s) (copyMap s m.tbl) s hS
    (s.nvars + 2) { m with ctx := true } u {} hI0 hoff rfl hu (CMemo.empty _ _ _)
    (by
      intro i hi
      obtain ⟨v, hv⟩ := hname i hi
      obtain ⟨j, hj, hjv⟩ := hlook i v hi hv
      exact ⟨j, hj, hVm.lt _ _ hjv⟩)
    (by omega)
  have hb : copyBddBody s u { m with ctx := true } = (.ok r, m1) := by
    unfold copyBddBody
    rw [htbl, he]
  have hres : copyBdd s u m = (.ok r, { m1 with ctx := m.ctx }) :=
    tryToReorder_ok _ m r m1 hb
  have hst := hs.ofCtx
  refine ⟨r, _, hres, hst.inv, hst.ext, hp.mr, hst.frame, hp.sign, ?_⟩
  funext a
  show den m1.tbl r (nameAsg m1.tbl a) = den s u (nameAsg s a)
  rw [hp.den]
  apply den_agree_supp s hS u hu
  intro i hi
  obtain ⟨v, hv⟩ := hname i hi
  obtain ⟨j, hj, hjv⟩ := hlook i v hi hv
  have hl2v : m1.tbl.l2v = m.tbl.l2v := hs.frame.l2v
  simp [cmap, hj, nameAsg, hv, hl2v, hVm.v2l _ _ hjv]

end DD
