/-
  DDProofs.MddApply — `MDD.apply`: the table regenerated from dd/mdd.py is sound for every
  alias (`decide` over the whole table), and the interpreter `mApply` therefore computes the
  documented connective pointwise (through `mIte_spec`).
-/
import DDProofs.MddIte
import DDProps.Tables
open Std

namespace DD

/-- the template of a row of `MDD.apply` computes the documented connective of the alias;
the quantifier aliases raise `NotImplementedError` -/
def mddRowSound (r : ApplyRow) (al : String) : Bool :=
  match docConn al, r.templ with
  | some .not, .neg => true
  | some .forall_, .notImpl => true
  | some .exists_, .notImpl => true
  | some c, .ite a b d =>
    c != .forall_ && c != .exists_ && c != .not &&
    atomOk a && atomOk b && atomOk d &&
    ((atomUsesW a || atomUsesW b || atomUsesW d) == (c.arity == 3)) &&
    bools.all fun u => bools.all fun v => bools.all fun w =>
      (if atomB u v w a then atomB u v w b else atomB u v w d) == c.eval u v w
  | _, _ => false

def mddTableSound (tbl : List ApplyRow) : Bool :=
  tbl.all fun r => r.aliases.all fun al => mddRowSound r al

/-- `MDD.apply`: every branch of the current source computes the documented connective for
each of its spellings (all 8 operand valuations); `\A`, `\E` are not implemented -/
theorem mddApplyTable_sound : mddTableSound Gen.mddApplyTable = true := by decide

theorem mddFindRow_some {op : String} {tbl : List ApplyRow} {row : ApplyRow}
    (h : findRow op tbl = some row) : row ∈ tbl ∧ row.aliases.contains op = true := by
  induction tbl with
  | nil => simp [findRow] at h
  | cons r rest ih =>
    unfold findRow at h
    split at h
    · next hc =>
      simp only [Option.some.injEq] at h
      subst h
      exact ⟨by simp, hc⟩
    · obtain ⟨h1, h2⟩ := ih h
      exact ⟨List.mem_cons_of_mem _ h1, h2⟩

theorem mddRow_sound_of_find {op : String} {row : ApplyRow}
    (h : findRow op Gen.mddApplyTable = some row) : mddRowSound row op = true := by
  obtain ⟨h1, h2⟩ := mddFindRow_some h
  have ht := mddApplyTable_sound
  unfold mddTableSound at ht
  have hr := List.all_eq_true.mp ht row h1
  have hop : op ∈ row.aliases := by simpa using h2
  exact List.all_eq_true.mp hr op hop

theorem bools_all {f : Bool → Bool} (h : bools.all f = true) (b : Bool) : f b = true := by
  have := List.all_eq_true.mp h b (by cases b <;> simp [bools])
  exact this

/-- denotation of an optional operand (absent operands read as `false`) -/
def denO (t : MTbl) (v : Option Int) (a : MAsg) : Bool :=
  match v with
  | some v => denM t v a
  | none => false

/-- value of a template atom: its denotation is the Boolean atom of the operand values -/
theorem denM_atomVal (t : MTbl) (hw : MWF t) (u v w : Int) (x : Atom) (r : Int) (a : MAsg) (W : Bool)
    (mu : t.Mem u) (mv : t.Mem v) (hwm : atomUsesW x = true → t.Mem w ∧ W = denM t w a)
    (hx : atomVal u v w x = .ok r) :
    t.Mem r ∧ denM t r a = atomB (denM t u a) (denM t v a) W x := by
  cases x <;> simp only [atomVal, Except.ok.injEq] at hx <;> try subst hx
  · exact ⟨mu, rfl⟩
  · exact ⟨mv, rfl⟩
  · obtain ⟨h1, h2⟩ := hwm rfl
    exact ⟨h1, by simp [atomB, h2]⟩
  · exact ⟨MTbl.mem_neg mu, by rw [denM_neg t hw u a mu]; rfl⟩
  · exact ⟨MTbl.mem_neg mv, by rw [denM_neg t hw v a mv]; rfl⟩
  · obtain ⟨h1, h2⟩ := hwm rfl
    exact ⟨MTbl.mem_neg h1, by rw [denM_neg t hw w a h1]; simp [atomB, h2]⟩
  · exact ⟨Or.inl rfl, by rw [denM_one]; rfl⟩
  · exact ⟨Or.inl rfl, by rw [denM_neg_one]; rfl⟩
  · cases hx

/-- what `apply(op, u, v, w)` promises for a propositional connective -/
structure ApplyOK (m : MddMgr) (c : Conn) (u : Int) (v w : Option Int) (r : Int) (m' : MddMgr) : Prop where
  inv : MInv m'
  ext : MExt m.tbl m'.tbl
  mem : m'.tbl.Mem r
  den : ∀ a, MValid m.tbl a →
    denM m'.tbl r a = c.eval (denM m.tbl u a) (denO m.tbl v a) (denO m.tbl w a)
  exact : ∀ ext, MRefExact m ext → MRefExact m' ext

theorem optNotMem_false {m : MddMgr} (h : MInv m) {v : Option Int} (hv : ¬ mddOptNotMem m v = true) :
    ∀ x, v = some x → m.tbl.Mem x := by
  intro x hx
  subst hx
  simp only [mddOptNotMem, Bool.not_eq_true', Bool.not_eq_false] at hv
  have : m.tbl.mem x = true := by
    cases hm : m.tbl.mem x with
    | true => rfl
    | false => simp [MddMgr.mem, hm] at hv
  exact (MTbl.mem_iff m.tbl h.term x).mp this

/-- `MDD.apply` computes, for every spelling of every propositional connective of the
vocabulary, the documented connective pointwise on the valid integer assignments -/
theorem mApply_spec (m : MddMgr) (h : MInv m) (op : String) (c : Conn) (hc : docConn op = some c)
    (u : Int) (v w : Option Int) (r : Int) (m' : MddMgr)
    (hr : mApply op u v w m = (.ok r, m')) : ApplyOK m c u v w r m' := by
  have hW := h.wf.toMWF
  unfold mApply at hr
  split at hr
  · simp at hr
  · split at hr
    · simp at hr
    · next hmu =>
      have mu : m.tbl.Mem u := by
        have : m.tbl.mem u = true := by
          cases hm : m.tbl.mem u with
          | true => rfl
          | false => simp [MddMgr.mem, hm] at hmu
        exact (MTbl.mem_iff m.tbl h.term u).mp this
      split at hr
      · simp at hr
      · next hmv =>
        split at hr
        · simp at hr
        · next hmw =>
          have mvo := optNotMem_false h hmv
          have mwo := optNotMem_false h hmw
          split at hr
          · simp at hr
          · next row hrow =>
            have hs := mddRow_sound_of_find hrow
            unfold mddRowSound at hs
            rw [hc] at hs
            split at hr
            · -- negation
              next htempl =>
              simp only [Prod.mk.injEq, Except.ok.injEq] at hr
              obtain ⟨hr1, hm⟩ := hr
              subst hr1 hm
              rw [htempl] at hs
              have hcn : c = .not := by cases c <;> simp at hs <;> rfl
              subst hcn
              refine ⟨h, MExt.refl _, MTbl.mem_neg mu, ?_, fun _ hx => hx⟩
              intro a _
              rw [denM_neg m.tbl hW u a mu]; rfl
            · -- an if-then-else template
              next x y z htempl =>
              rw [htempl] at hs
              split at hr
              · simp at hr
              · next vv _hvv =>
                have mv : m.tbl.Mem vv := mvo vv rfl
                dsimp only at hr
                split at hr
                · simp at hr
                · next ww hww =>
                  split at hr
                  · next a' b' c' ha hb hcc =>
                    have hs' : (c != .forall_ && c != .exists_ && c != .not &&
                        atomOk x && atomOk y && atomOk z &&
                        ((atomUsesW x || atomUsesW y || atomUsesW z) == (c.arity == 3)) &&
                        bools.all fun u => bools.all fun v => bools.all fun w =>
                          (if atomB u v w x then atomB u v w y else atomB u v w z) == c.eval u v w) = true := by
                      cases c <;> simpa using hs
                    simp only [Bool.and_eq_true] at hs'
                    obtain ⟨⟨_, _⟩, htt⟩ := hs'
                    -- the third operand, when a template atom reads it
                    have hwuse : ∀ q : Atom, (q = x ∨ q = y ∨ q = z) → atomUsesW q = true →
                        ∀ a, m.tbl.Mem ww ∧ denO m.tbl w a = denM m.tbl ww a := by
                      intro q hq hqu a
                      have hneeds : (decide (x = Atom.w) || decide (x = Atom.nw) || decide (y = Atom.w) ||
                          decide (y = Atom.nw) || decide (z = Atom.w) || decide (z = Atom.nw)) = true := by
                        rcases hq with rfl | rfl | rfl <;> cases q <;> simp [atomUsesW] at hqu <;> simp
                      rw [if_pos hneeds] at hww
                      subst hww
                      exact ⟨mwo ww rfl, rfl⟩
                    have A := fun a => denM_atomVal m.tbl hW u vv ww x a' a (denO m.tbl w a) mu mv
                      (fun hq => hwuse x (Or.inl rfl) hq a) ha
                    have B := fun a => denM_atomVal m.tbl hW u vv ww y b' a (denO m.tbl w a) mu mv
                      (fun hq => hwuse y (Or.inr (Or.inl rfl)) hq a) hb
                    have C := fun a => denM_atomVal m.tbl hW u vv ww z c' a (denO m.tbl w a) mu mv
                      (fun hq => hwuse z (Or.inr (Or.inr rfl)) hq a) hcc
                    have I := mIte_spec m h a' b' c' (A (fun _ => 0)).1 (B (fun _ => 0)).1
                      (C (fun _ => 0)).1 r m' hr
                    refine ⟨I.inv, I.ext, I.mem, ?_, I.exact⟩
                    intro a hva
                    rw [I.den a hva, (A a).2, (B a).2, (C a).2]
                    have h1 := bools_all htt (denM m.tbl u a)
                    have h2 := bools_all h1 (denM m.tbl vv a)
                    have h3 := bools_all h2 (denO m.tbl w a)
                    simpa [denO] using h3
                  · simp at hr
            · simp at hr
            · split at hr <;> simp at hr
            · simp at hr

end DD
