/-
  DDProofs.SchedAcceptAuto — ACCEPTANCE of recorded schedules by the autoref layer (C08).

  A method of `autoref.BDD` / `Function` that may reorder is: reads of the handle registry (which
  neither touch nor look at the recorded schedule: `ASN`), ONE decorated call of the wrapped
  manager, and the wrapping of its result in a new `Function` (`ASN` again).  So the acceptance of
  the decorated call (DDProofs.SchedAcceptOps / SchedNaturalMore) lifts: for every valid choice of
  iteration orders there is a schedule — the record of the choice-driven method (DD.AutoChoice) —
  with which the method does what the choice-driven one does, which it consumes exactly, and with
  which it does not answer `MODEL-SCHEDULE-MISMATCH`.
-/
import DD.AutoChoice
import DDProofs.SchedNaturalMore
import DDProofs.AutoTemps
open Std

namespace DD

/-- put a schedule into the manager of an autoref session -/
def setSA (s : List SchedItem) (a : AMgr) : AMgr := { a with m := setS s a.m }

/-- natural in the recorded schedule, and never the model's schedule error -/
def ASN {α} (x : AM α) : Prop :=
  ∀ s a, x (setSA s a) = ((x a).1, setSA s (x a).2) ∧ (x a).1 ≠ .error .sched

theorem ASN.pure {α} (v : α) : ASN (Pure.pure v : AM α) := fun _ _ => ⟨rfl, fun h => by cases h⟩

theorem ASN.throw {α} (e : Err) (he : e ≠ .sched) : ASN (AM.throw e : AM α) :=
  fun _ _ => ⟨rfl, fun h => he (by cases h; rfl)⟩

theorem ASN.bind {α β} {x : AM α} {f : α → AM β} (hx : ASN x) (hf : ∀ v, ASN (f v)) : ASN (x >>= f) := by
  intro s a
  obtain ⟨h1, h2⟩ := hx s a
  rw [AM.bind_eq, AM.bind_eq, h1]
  generalize x a = r at h2
  obtain ⟨r, a1⟩ := r
  cases r with
  | error e => exact ⟨rfl, fun h' => h2 (by cases h'; rfl)⟩
  | ok v => exact hf v s a1

theorem ASN.check (b : Bool) (e : Err) (he : e ≠ .sched) : ASN (AM.check b e) := by
  cases b with
  | true => exact ASN.pure ()
  | false => exact ASN.throw e he

theorem ASN.liftM {α} {x : M α} (hs : SN x) (hn : NS x) : ASN (AM.liftM x) := by
  intro s a
  show ((x (setS s a.m)).1, { setSA s a with m := (x (setS s a.m)).2 }) = _ ∧ _
  rw [hs s a.m]
  exact ⟨rfl, hn a.m⟩

theorem wrapF_asn (h : Nat) (u : Int) : ASN (wrapF h u) := by
  intro s a
  unfold wrapF
  have hm : (setSA s a).m.mem u = a.m.mem u := rfl
  cases hmu : a.m.mem u with
  | false =>
    simp only [hm, hmu, Bool.not_false, if_true]
    exact ⟨by first | rfl | trivial, fun h => by cases h⟩
  | true =>
    simp only [hm, hmu, Bool.not_true, Bool.false_eq_true, if_false]
    show (match incref u (setS s a.m) with
      | (.ok _, m') => ((Except.ok () : Except Err Unit), { setSA s a with m := m', handles := a.handles.insert h u })
      | (.error e, m') => (.error e, { setSA s a with m := m' })) = _ ∧ _
    rw [incref_sn u s a.m]
    have hn := incref_ns u a.m
    generalize incref u a.m = r at hn
    obtain ⟨r, m1⟩ := r
    cases r with
    | ok _ => exact ⟨rfl, fun h => by cases h⟩
    | error e => exact ⟨rfl, fun h' => hn (by cases h'; rfl)⟩

theorem wrap_asn (h : Nat) (u : Int) : ASN (wrap h u) := by
  intro s a
  unfold wrap
  have hm : (setSA s a).m.mem u = a.m.mem u := rfl
  cases hmu : a.m.mem u with
  | false =>
    simp only [hm, hmu, Bool.not_false, if_true]
    exact ⟨by first | rfl | trivial, fun h => by cases h⟩
  | true =>
    simp only [hm, hmu, Bool.not_true, Bool.false_eq_true, if_false]
    exact wrapF_asn h u s a

theorem nodeAny_asn (h : Nat) : ASN (nodeAny h) := by
  intro s a
  unfold nodeAny
  show (match a.handles[h]? with
    | some u => ((Except.ok u : Except Err Int), setSA s a)
    | none => match a.foreign[h]? with
      | some u => (.ok u, setSA s a)
      | none => (.error .other, setSA s a)) = _ ∧ _
  cases a.handles[h]? with
  | some u => exact ⟨rfl, fun h => by cases h⟩
  | none => cases a.foreign[h]? <;> exact ⟨rfl, fun h => by cases h⟩

theorem nodeOwn_asn (h : Nat) : ASN (nodeOwn h) := by
  intro s a
  unfold nodeOwn
  show (match a.handles[h]? with
    | some u => ((Except.ok u : Except Err Int), setSA s a)
    | none => (.error .other, setSA s a)) = _ ∧ _
  cases a.handles[h]? <;> exact ⟨rfl, fun h => by cases h⟩

theorem nodeSame_asn (h : Nat) : ASN (nodeSame h) := by
  intro s a
  unfold nodeSame
  show (match a.handles[h]? with
    | some u => ((Except.ok u : Except Err Int), setSA s a)
    | none => match a.foreign[h]? with
      | some _ => (.error .value, setSA s a)
      | none => (.error .other, setSA s a)) = _ ∧ _
  cases a.handles[h]? with
  | some u => exact ⟨rfl, fun h => by cases h⟩
  | none => cases a.foreign[h]? <;> exact ⟨rfl, fun h => by cases h⟩

theorem nodeIn_asn (h : Nat) : ASN (nodeIn h) := by
  unfold nodeIn
  refine ASN.bind (nodeSame_asn h) (fun u => ?_)
  intro s a
  show (AM.check ((setSA s a).m.mem u) .value >>= fun _ => (Pure.pure u : AM Int)) (setSA s a) = _ ∧ _
  have hm : (setSA s a).m.mem u = a.m.mem u := rfl
  rw [hm]
  exact ASN.bind (ASN.check _ _ (fun h => by cases h)) (fun _ => ASN.pure u) s a

theorem optNode_asn {f : Nat → AM Int} (hf : ∀ h, ASN (f h)) : ∀ o, ASN (optNode f o)
  | none => ASN.pure none
  | some h => by
    unfold optNode
    exact ASN.bind (hf h) (fun u => ASN.pure (some u))

theorem nodesAny_asn : ∀ l, ASN (nodesAny l)
  | [] => ASN.pure []
  | (k, hv) :: rest => by
    unfold nodesAny
    exact ASN.bind (nodeAny_asn hv) (fun v => ASN.bind (nodesAny_asn rest) (fun r => ASN.pure _))

theorem aLetArgs_asn : ∀ d, ASN (aLetArgs d)
  | .bools d => ASN.pure _
  | .names d => ASN.pure _
  | .funs d => by
    unfold aLetArgs
    exact ASN.bind (nodesAny_asn d) (fun l => ASN.pure _)

/-! ### acceptance for the methods -/

/-- acceptance for a method `X` of the autoref layer and its choice-driven version `XC` -/
def AAccepts {α} (XC : AM (α × List SchedItem)) (X : AM α) (a : AMgr) : Prop :=
  ∃ sch, (∀ r log', (XC a).1 = .ok (r, log') → log' = sch) ∧
    (∀ rest, X (setSA (sch ++ rest) a) = (dropLog (XC a).1, setSA rest (XC a).2)) ∧
    ∀ rest, (X (setSA (sch ++ rest) a)).1 ≠ .error .sched

/-- the core call -/
theorem AAccepts.liftM {α} {FC : M (α × List SchedItem)} {F : M α} {a : AMgr}
    (h : AcceptsF FC F a.m) : AAccepts (AM.liftM FC) (AM.liftM F) a := by
  obtain ⟨sch, h1, h2, h3⟩ := h
  refine ⟨sch, fun r log' hh => h1 r log' hh, fun rest => ?_, fun rest => h3 rest⟩
  show ((F (setS (sch ++ rest) a.m)).1, { setSA (sch ++ rest) a with m := (F (setS (sch ++ rest) a.m)).2 }) = _
  rw [h2 rest]
  rfl

/-- reads before the core call -/
theorem AAccepts.pre {γ α} {p : AM γ} (hp : ASN p) {KC : γ → AM (α × List SchedItem)}
    {K : γ → AM α} {a : AMgr}
    (hK : ∀ r a1, p a = (.ok r, a1) → AAccepts (KC r) (K r) a1) :
    AAccepts (p >>= KC) (p >>= K) a := by
  have hs : ∀ s, p (setSA s a) = ((p a).1, setSA s (p a).2) := fun s => (hp s a).1
  have hn := (hp [] a).2
  generalize hpa : p a = r at hs hn hK
  obtain ⟨r, a1⟩ := r
  cases r with
  | error e =>
    refine ⟨[], fun r log' hh => ?_, fun rest => ?_, fun rest => ?_⟩
    · rw [AM.bind_eq, hpa] at hh; cases hh
    · rw [AM.bind_eq, AM.bind_eq, hs, hpa]; rfl
    · rw [AM.bind_eq, hs]; exact fun h' => hn (by cases h'; rfl)
  | ok v =>
    obtain ⟨sch, h1, h2, h3⟩ := hK v a1 rfl
    refine ⟨sch, fun r log' hh => ?_, fun rest => ?_, fun rest => ?_⟩
    · rw [AM.bind_eq, hpa] at hh; exact h1 r log' hh
    · rw [AM.bind_eq, AM.bind_eq, hs, hpa]; exact h2 rest
    · rw [AM.bind_eq, hs]; exact h3 rest

/-- steps after the core call, which keep the record -/
theorem AAccepts.post {α β} {XC : AM (α × List SchedItem)} {X : AM α} {a : AMgr}
    (h : AAccepts XC X a) {q : α → AM β} (hq : ∀ v, ASN (q v)) :
    AAccepts (XC >>= fun p => q p.1 >>= fun b => Pure.pure (b, p.2)) (X >>= q) a := by
  obtain ⟨sch, h1, h2, h3⟩ := h
  refine ⟨sch, fun r log' hh => ?_, fun rest => ?_, fun rest => ?_⟩
  · rw [AM.bind_eq] at hh
    generalize XC a = rc at h1 hh
    obtain ⟨rc, a1⟩ := rc
    cases rc with
    | error e => cases hh
    | ok p =>
      obtain ⟨v, lg⟩ := p
      simp only at hh
      rw [AM.bind_eq] at hh
      generalize q v a1 = rq at hh
      obtain ⟨rq, a2⟩ := rq
      cases rq with
      | error e => cases hh
      | ok b => cases hh; exact h1 v _ rfl
  · rw [AM.bind_eq, AM.bind_eq, h2 rest]
    generalize XC a = rc
    obtain ⟨rc, a1⟩ := rc
    cases rc with
    | error e => rfl
    | ok p =>
      obtain ⟨v, lg⟩ := p
      show q v (setSA rest a1) = (dropLog ((q v >>= fun b => (Pure.pure (b, lg) : AM (β × List SchedItem))) a1).1,
        setSA rest ((q v >>= fun b => (Pure.pure (b, lg) : AM (β × List SchedItem))) a1).2)
      rw [(hq v rest a1).1, AM.bind_eq]
      generalize q v a1 = rq
      obtain ⟨rq, a2⟩ := rq
      cases rq <;> rfl
  · rw [AM.bind_eq, h2 rest]
    have hns := h3 rest
    rw [h2 rest] at hns
    generalize XC a = rc at hns
    obtain ⟨rc, a1⟩ := rc
    cases rc with
    | error e => exact fun h' => hns (by cases h'; rfl)
    | ok p =>
      obtain ⟨v, lg⟩ := p
      show (q v (setSA rest a1)).1 ≠ _
      rw [(hq v rest a1).1]
      exact (hq v rest a1).2

theorem AAccepts.congr {α} {XC XC' : AM (α × List SchedItem)} {X X' : AM α} {a : AMgr}
    (h : AAccepts XC X a) (h1 : XC' a = XC a) (h2 : ∀ s, X' (setSA s a) = X (setSA s a)) :
    AAccepts XC' X' a := by
  obtain ⟨sch, a1, a2, a3⟩ := h
  refine ⟨sch, fun r log' hh => a1 r log' (by rw [← h1]; exact hh), fun rest => ?_, fun rest => ?_⟩
  · rw [h2, h1]; exact a2 rest
  · rw [h2]; exact a3 rest

theorem liftWrapC_eq (w : Int → AM Unit) (FC : M (Int × List SchedItem)) (a : AMgr) :
    (AM.liftM FC >>= fun p => w p.1 >>= fun _ => (Pure.pure p : AM (Int × List SchedItem))) a =
    (AM.liftM FC >>= fun p => (w p.1 >>= fun _ => (Pure.pure p.1 : AM Int)) >>=
      fun b => (Pure.pure (b, p.2) : AM (Int × List SchedItem))) a := by
  rw [AM.bind_eq, AM.bind_eq]
  generalize AM.liftM FC a = r
  obtain ⟨r, a1⟩ := r
  cases r with
  | error e => rfl
  | ok p =>
    simp only
    rw [AM.bind_eq, AM.bind_eq, AM.bind_eq]
    generalize w p.1 a1 = rw
    obtain ⟨rw, a2⟩ := rw
    cases rw <;> rfl

/-- one decorated call of the wrapped manager, then a step `w` on its result (the new
`Function`) that does not look at the schedule -/
theorem liftWrap_accepts {FC : M (Int × List SchedItem)} {F : M Int} {a : AMgr} (w : Int → AM Unit)
    (hw : ∀ r, ASN (w r)) (hA : AcceptsF FC F a.m) :
    AAccepts (AM.liftM FC >>= fun p => w p.1 >>= fun _ => (Pure.pure p : AM (Int × List SchedItem)))
      (AM.liftM F >>= fun r => w r >>= fun _ => (Pure.pure r : AM Int)) a :=
  ((AAccepts.liftM hA).post (q := fun r => w r >>= fun _ => Pure.pure r)
    (fun r => ASN.bind (hw r) (fun _ => ASN.pure r))).congr (liftWrapC_eq w FC a) (fun _ => rfl)

/-- `r = self._bdd.<op>(...); return self._wrap(r)` -/
theorem wrapResult_accepts {FC : M (Int × List SchedItem)} {F : M Int} {a : AMgr} (h : Nat)
    (hA : AcceptsF FC F a.m) : AAccepts (wrapResultC h FC) (wrapResult h F) a :=
  liftWrap_accepts (wrap h) (wrap_asn h) hA

/-- reads of the registry before the core call: the state is the same -/
theorem AAccepts.pre_read {γ α} {p : AM γ} (hp : ASN p) (hr : ARead p)
    {KC : γ → AM (α × List SchedItem)} {K : γ → AM α} {a : AMgr}
    (hK : ∀ r, p a = (.ok r, a) → AAccepts (KC r) (K r) a) :
    AAccepts (p >>= KC) (p >>= K) a := by
  refine AAccepts.pre hp (fun r a1 h => ?_)
  have : a1 = a := by have := hr a; rw [h] at this; exact this
  subst this
  exact hK r h

/-- a method that returns without a core call -/
theorem AAccepts.ret {α} (v : α) (a : AMgr) :
    AAccepts (Pure.pure (v, []) : AM (α × List SchedItem)) (Pure.pure v : AM α) a :=
  ⟨[], fun _ _ h => by cases h; rfl, fun _ => rfl, fun _ h => by cases h⟩

/-! ### the methods -/

section methods
variable (ext : Nat → Nat) (c : Choice) (hc : c.Valid) (a : AMgr) (hD : DynInvS ext a.m) (h : Nat)
include hc hD

theorem aVar_accepts (name : String) :
    AAccepts (wrapResultC h (tryToReorderC c (varBody name) [])) (aVar name h) a :=
  wrapResult_accepts h (var_accepts ext c hc a.m hD name)

theorem aIte_accepts (hg hu hv : Nat) : AAccepts (aIteC c hg hu hv h) (aIte hg hu hv h) a := by
  unfold aIteC aIte
  refine AAccepts.pre_read (nodeIn_asn hg) (nodeIn_read hg) (fun g _ => ?_)
  refine AAccepts.pre_read (nodeIn_asn hu) (nodeIn_read hu) (fun u _ => ?_)
  refine AAccepts.pre_read (nodeIn_asn hv) (nodeIn_read hv) (fun v _ => ?_)
  exact wrapResult_accepts h (ite_accepts ext c hc a.m hD g u v)

theorem aApply_accepts (op : String) (hu : Nat) (hv hw : Option Nat) :
    AAccepts (aApplyC c op hu hv hw h) (aApply op hu hv hw h) a := by
  unfold aApplyC aApply
  refine AAccepts.pre_read (nodeIn_asn hu) (nodeIn_read hu) (fun u _ => ?_)
  refine AAccepts.pre_read (ASN.check _ _ (fun h => by cases h)) (ARead.check _ _) (fun _ _ => ?_)
  refine AAccepts.pre_read (optNode_asn nodeIn_asn hv) (optNode_read nodeIn_read hv) (fun v _ => ?_)
  refine AAccepts.pre_read (optNode_asn nodeIn_asn hw) (optNode_read nodeIn_read hw) (fun w _ => ?_)
  exact wrapResult_accepts h (apply_accepts ext c hc a.m hD op u v w)

theorem aQuantify_accepts (hu : Nat) (qvars : List Key) (fa : Bool) :
    AAccepts (aQuantifyC c hu qvars fa h) (aQuantify hu qvars fa h) a := by
  unfold aQuantifyC aQuantify
  refine AAccepts.pre_read (nodeIn_asn hu) (nodeIn_read hu) (fun u _ => ?_)
  exact wrapResult_accepts h (quantify_accepts ext c hc a.m hD u qvars fa)

theorem aCube_accepts (dvars : List (String × Bool)) :
    AAccepts (wrapResultC h (tryToReorderC c (cubeBody dvars) [])) (aCube dvars h) a := by
  unfold aCube
  rw [cube_eq]
  exact wrapResult_accepts h (cube_accepts ext c hc a.m hD dvars)

theorem aAddExpr_accepts (e : String) :
    AAccepts (wrapResultC h (tryToReorderC c (addExprToks (tokenize e)) [])) (aAddExpr e h) a :=
  wrapResult_accepts h (addExpr_accepts ext c hc a.m hD e)

theorem aImage_accepts (pre : Bool) (ht hs : Nat) (rn : List (Key × Key)) (q : List Key) (fa : Bool) :
    AAccepts (aImageC c pre ht hs rn q fa h) (aImage pre ht hs rn q fa h) a := by
  unfold aImageC aImage
  refine AAccepts.pre_read (nodeOwn_asn ht) (nodeOwn_read ht) (fun t _ => ?_)
  refine AAccepts.pre_read (nodeSame_asn hs) (nodeSame_read hs) (fun s _ => ?_)
  cases pre with
  | true => exact wrapResult_accepts h (preimage_accepts ext c hc a.m hD t s rn q fa)
  | false => exact wrapResult_accepts h (image_accepts ext c hc a.m hD t s rn q fa)

theorem fApply_accepts (op : String) (hs : Nat) (ho : Option Nat) :
    AAccepts (fApplyC c op hs ho h) (fApply op hs ho h) a := by
  unfold fApplyC fApply
  refine AAccepts.pre_read (nodeOwn_asn hs) (nodeOwn_read hs) (fun s _ => ?_)
  refine AAccepts.pre_read (optNode_asn nodeSame_asn ho) (optNode_read nodeSame_read ho) (fun o _ => ?_)
  exact liftWrap_accepts (wrapF h) (wrapF_asn h) (apply_accepts ext c hc a.m hD op s o none)

theorem aLet_accepts (d : ALetArg) (hu : Nat) : AAccepts (aLetC c d hu h) (aLet d hu h) a := by
  unfold aLetC aLet
  refine AAccepts.pre_read (nodeIn_asn hu) (nodeIn_read hu) (fun u _ => ?_)
  split
  · exact AAccepts.ret _ a
  refine AAccepts.pre_read (aLetArgs_asn d) (aLetArgs_read d) (fun d' _ => ?_)
  exact (wrapResult_accepts h (letOp_accepts ext c hc a.m hD d' u)).post
    (q := fun r => (Pure.pure (r, false) : AM (Int × Bool))) (fun r => ASN.pure _)

end methods

end DD
