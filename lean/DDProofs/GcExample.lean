/-
  DDProofs.GcExample — a concrete small manager (built by running model operations from
  the empty manager) that satisfies `Inv` and `RefExact`; used for the non-vacuity
  examples of C06.  Variables `a` (level 0), `b` (level 1); nodes 2 = `a`, 3 = `b`,
  4 = `a ∧ b`; the user holds one reference to node 4 only, so node 2 is garbage.
-/
import DD.Ops
import DDProofs.GcSched
open Std

namespace DD

def exRun : M Int := do
  let _ ← addVar "a" none
  let _ ← addVar "b" none
  let _ ← findOrAdd 0 (-1) 1   -- `var a`  = node 2
  let b ← findOrAdd 1 (-1) 1   -- `var b`  = node 3
  let c ← findOrAdd 0 (-1) b   -- `a /\ b` = node 4 (what `_ite(a, b, -1)` creates)
  incref c
  return c

/-- the example manager -/
def exM : Mgr := (exRun {}).2
/-- the user's ledger: one reference to node 4 -/
def exExt : Nat → Nat := fun k => if k = 4 then 1 else 0

theorem exRun_ok : (exRun {}).1.toOption = some 4 := by decide

theorem getElem?_mem_keys {α β : Type} {cmp : α → α → Ordering} [TransCmp cmp] [LawfulEqCmp cmp]
    (t : TreeMap α β cmp) (k : α) (v : β) (h : t[k]? = some v) : k ∈ t.keys := by
  rw [TreeMap.mem_keys, TreeMap.mem_iff_isSome_getElem?, h]; rfl

theorem exM_nodes (u : Nat) (n : Nd) (h : exM.tbl.node? u = some n) :
    (u = 2 ∧ n = ⟨0, -1, 1⟩) ∨ (u = 3 ∧ n = ⟨1, -1, 1⟩) ∨ (u = 4 ∧ n = ⟨0, -1, 3⟩) := by
  have hb : exM.tbl.bound = 5 := by decide
  have := exM.tbl.lt_bound h
  rw [hb] at this
  have h0 : exM.tbl.node? 0 = none := by decide
  have h1 : exM.tbl.node? 1 = none := by decide
  have h2 : exM.tbl.node? 2 = some ⟨0, -1, 1⟩ := by decide
  have h3 : exM.tbl.node? 3 = some ⟨1, -1, 1⟩ := by decide
  have h4 : exM.tbl.node? 4 = some ⟨0, -1, 3⟩ := by decide
  match u, this with
  | 0, _ => rw [h0] at h; cases h
  | 1, _ => rw [h1] at h; cases h
  | 2, _ => rw [h2] at h; cases h; exact Or.inl ⟨rfl, rfl⟩
  | 3, _ => rw [h3] at h; cases h; exact Or.inr (Or.inl ⟨rfl, rfl⟩)
  | 4, _ => rw [h4] at h; cases h; exact Or.inr (Or.inr ⟨rfl, rfl⟩)

theorem exM_inv : Inv exM := by
  have hwf : WF exM.tbl := by
    refine ⟨?_, ?_, ?_, ?_, ?_, ?_, ?_, ?_⟩ <;> intro u n h <;>
      rcases exM_nodes u n h with ⟨rfl, rfl⟩ | ⟨rfl, rfl⟩ | ⟨rfl, rfl⟩ <;> decide
  refine ⟨⟨hwf, ?_⟩, ?_, by decide, by decide, by decide, ?_, ?_⟩
  · intro u u' n h h'
    rcases exM_nodes u n h with ⟨rfl, rfl⟩ | ⟨rfl, rfl⟩ | ⟨rfl, rfl⟩ <;>
      rcases exM_nodes u' _ h' with ⟨rfl, h2⟩ | ⟨rfl, h2⟩ | ⟨rfl, h2⟩ <;> first | rfl | cases h2
  · intro n u
    constructor
    · intro h
      have hk := getElem?_mem_keys _ _ _ h
      have hkeys : exM.pred.keys = [[0, -1, 1], [0, -1, 3], [1, -1, 1]] := by decide
      rw [hkeys] at hk
      simp only [List.mem_cons, List.not_mem_nil, or_false] at hk
      rcases hk with hk | hk | hk
      · have : n = ⟨0, -1, 1⟩ := Nd.key_inj (by rw [hk]; rfl)
        subst this
        have : exM.pred[(⟨0, -1, 1⟩ : Nd).key]? = some 2 := by decide
        rw [this] at h; cases h; decide
      · have : n = ⟨0, -1, 3⟩ := Nd.key_inj (by rw [hk]; rfl)
        subst this
        have : exM.pred[(⟨0, -1, 3⟩ : Nd).key]? = some 4 := by decide
        rw [this] at h; cases h; decide
      · have : n = ⟨1, -1, 1⟩ := Nd.key_inj (by rw [hk]; rfl)
        subst this
        have : exM.pred[(⟨1, -1, 1⟩ : Nd).key]? = some 3 := by decide
        rw [this] at h; cases h; decide
    · intro h
      rcases exM_nodes u n h with ⟨rfl, rfl⟩ | ⟨rfl, rfl⟩ | ⟨rfl, rfl⟩ <;> decide
  · intro u n h
    rcases exM_nodes u n h with ⟨rfl, rfl⟩ | ⟨rfl, rfl⟩ | ⟨rfl, rfl⟩ <;> decide
  · intro g u v w h
    have hk := getElem?_mem_keys _ _ _ h
    have hkeys : exM.cache.keys = [] := by decide
    rw [hkeys] at hk; cases hk

theorem exM_refExact : RefExact exM exExt := by
  have hkeys : exM.ref.keys = [1, 2, 3, 4] := by decide
  have hmem : ∀ u c, exM.ref[u]? = some c → u = 1 ∨ u = 2 ∨ u = 3 ∨ u = 4 := by
    intro u c h
    have hk := getElem?_mem_keys _ _ _ h
    rw [hkeys] at hk
    simpa using hk
  refine ⟨?_, ?_, ?_⟩
  · intro u
    constructor
    · intro h
      obtain ⟨c, hc⟩ := Option.isSome_iff_exists.mp h
      rcases hmem u c hc with rfl | rfl | rfl | rfl <;> decide
    · rintro (rfl | h)
      · decide
      · obtain ⟨n, hn⟩ := Option.isSome_iff_exists.mp h
        rcases exM_nodes u n hn with ⟨rfl, rfl⟩ | ⟨rfl, rfl⟩ | ⟨rfl, rfl⟩ <;> decide
  · intro u c hc
    rcases hmem u c hc with rfl | rfl | rfl | rfl
    · have : exM.ref[1]? = some 6 := by decide
      rw [this] at hc; cases hc; decide
    · have : exM.ref[2]? = some 0 := by decide
      rw [this] at hc; cases hc; decide
    · have : exM.ref[3]? = some 1 := by decide
      rw [this] at hc; cases hc; decide
    · have : exM.ref[4]? = some 1 := by decide
      rw [this] at hc; cases hc; decide
  · intro u h
    by_cases h4 : u = 4
    · subst h4
      have : exM.ref[4]? = some 1 := by decide
      rw [this] at h; cases h
    · simp [exExt, h4]

end DD
