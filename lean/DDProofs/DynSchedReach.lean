/-
  DDProofs.DynSchedReach — histories in which the DECORATED calls carry a recorded iteration
  schedule, as the protocol lines of the differential check do (`DD.stepLine`: the schedule field
  of the line is put into `m.sched` before the operation runs, what is left is dropped afterwards).

  `UOp2` (DDProofs.Reach2) gives a schedule to the explicit reorderings (`swap`, `sift`,
  `reorderTo`); the decorated operations of `UOp` (`var`, `ite`, `apply`, `cofactor`, `quantify`,
  `compose`, `rename`, `let`) were run with the default schedule only (`Good3.sched = []`).  Here
  a call is a pair (schedule, operation); `runCallS` runs a decorated operation as the driver
  does.  `stepS_inv` / `reachableS_inv`: from a good state every guarded call leads to a good
  state, every reference the user holds keeps its function of the variable names, the internal
  signal never escapes.  The guard asks of a call WITH a recorded schedule: the operation is a
  decorated one, two variables are declared (sifting one variable raises `ValueError`), and the
  model's answer is not its own `MODEL-SCHEDULE-MISMATCH` — the same guard `OpGuard2` puts on
  `sift sch` (for a schedule recorded from a real run that is the harness's tie, see
  DDProofs.DynSched).
-/
import DDProofs.Reach3
import DDProofs.DynSchedOps
open Std

namespace DD

/-- a call of a history together with the iteration schedule recorded for it -/
structure SCall where
  sch : List SchedItem
  op : UOp3
deriving Inhabited

/-- drop what is left of the schedule (the driver's `{ m' with sched := [] }`) -/
def clearSched {α : Type} (x : Except Err α × Mgr) : Except Err α × Mgr :=
  (x.1, { x.2 with sched := [] })

/-- one call as the driver runs it: a decorated operation with a recorded schedule runs with
that schedule in `m.sched`, the remainder is dropped; everything else as in DDProofs.Reach3
(the explicit reorderings carry their own schedule) -/
def runCallS (c : SCall) (m : Mgr) : Except Err Res × Mgr :=
  match c.sch, c.op with
  | _ :: _, .op (.base b) => clearSched (runOp b { m with sched := c.sch })
  | _, o => runOp3 o m

/-- the guard of a call: that of DDProofs.Reach3; and if a schedule was recorded, the operation
is a decorated one on at least two variables and the model does not report a mismatch -/
def CallGuardS (m : Mgr) (ext : Nat → Nat) (c : SCall) : Prop :=
  match c.sch, c.op with
  | _ :: _, .op (.base b) =>
    b.decorated = true ∧ 2 ≤ m.nvars ∧ isSchedErr (runOp b { m with sched := c.sch }).1 = false
  | _ :: _, _ => False
  | [], o => OpGuard3 m ext o

instance (m : Mgr) (ext : Nat → Nat) (c : SCall) : Decidable (CallGuardS m ext c) := by
  obtain ⟨sch, op⟩ := c
  cases sch with
  | nil => exact inferInstanceAs (Decidable (OpGuard3 m ext op))
  | cons s sch =>
    cases op with
    | configure b => exact isFalse (fun h => h)
    | op o =>
      cases o with
      | base b => exact inferInstanceAs (Decidable (_ ∧ _ ∧ _))
      | swap _ _ _ => exact isFalse (fun h => h)
      | sift _ => exact isFalse (fun h => h)
      | reorderTo _ _ => exact isFalse (fun h => h)
      | undeclare _ => exact isFalse (fun h => h)

theorem mapRes_isSchedErr {α : Type} (f : α → Res) (x : Except Err α × Mgr) :
    isSchedErr (mapRes f x).1 = isSchedErr x.1 := by
  obtain ⟨r, m⟩ := x
  cases r with
  | ok a => rfl
  | error e => cases e <;> rfl

/-- a decorated operation with ANY arguments, two variables declared, ANY recorded schedule:
the C17 theorems `*_total_dynS` -/
theorem decorated_totalS (m : Mgr) (ext : Nat → Nat) (hD : DynInvS ext m) (b : UOp)
    (hdec : b.decorated = true) :
    ∃ (α : Type) (x : Except Err α × Mgr) (f : α → Res), runOp b m = mapRes f x ∧
      DynTotalS ext m x := by
  cases b with
  | var name => exact ⟨_, _, _, rfl, var_total_dynS ext m hD name⟩
  | ite g u v => exact ⟨_, _, _, rfl, ite_total_dynS ext m hD g u v⟩
  | apply o u v w => exact ⟨_, _, _, rfl, apply_total_dynS ext m hD o u v w⟩
  | neg u => exact ⟨_, _, _, rfl, apply_total_dynS ext m hD "not" u none none⟩
  | cofactor u values => exact ⟨_, _, _, rfl, cofactor_total_dynS ext m hD u values⟩
  | quantify u qvars fa => exact ⟨_, _, _, rfl, quantify_total_dynS ext m hD u qvars fa⟩
  | compose f varSub => exact ⟨_, _, _, rfl, compose_total_dynS ext m hD f varSub⟩
  | rename u dvars => exact ⟨_, _, _, rfl, rename_total_dynS ext m hD u dvars⟩
  | let_ d u => exact ⟨_, _, _, rfl, letOp_total_dynS ext m hD d u⟩
  | _ => cases hdec

/-- **one step**, recorded schedules included: from a good state every guarded call leads to a
good state for the new ledger, every reference the user holds is still a node with the same
function of the variable NAMES, reordering stays enabled iff it was (for a call with a schedule),
and the internal signal does not escape -/
theorem stepS_inv (m : Mgr) (ext : Nat → Nat) (c : SCall) (h : Good3 m ext) (hg : CallGuardS m ext c) :
    Good3 (runCallS c m).2 (ledger3 c.op m ext) ∧ Held2 ext m (runCallS c m).2 ∧
    (runCallS c m).1 ≠ .error .needsReordering := by
  obtain ⟨sch, op⟩ := c
  cases sch with
  | nil =>
    have hg' : OpGuard3 m ext op := hg
    have hr : runCallS ⟨[], op⟩ m = runOp3 op m := by
      cases op with
      | configure b => rfl
      | op o => cases o <;> rfl
    rw [hr]
    exact ⟨step3_inv m ext op h hg', step3_heldSame m ext op h hg', step3_noSignal m ext op h hg'⟩
  | cons s sch =>
    cases op with
    | configure b => exact absurd hg (fun h => h)
    | op o =>
      cases o with
      | base b =>
        obtain ⟨hdec, h2, hns⟩ : b.decorated = true ∧ 2 ≤ m.nvars ∧
            isSchedErr (runOp b { m with sched := s :: sch }).1 = false := hg
        show Good3 (clearSched (runOp b { m with sched := s :: sch })).2 (ledger b m ext) ∧
          Held2 ext m (clearSched (runOp b { m with sched := s :: sch })).2 ∧
          (clearSched (runOp b { m with sched := s :: sch })).1 ≠ .error .needsReordering
        rw [ledger_decorated b m ext hdec]
        have hD : DynInv ext m := h.dynInv h2
        obtain ⟨α, x, f, hrun, htot⟩ :=
          decorated_totalS { m with sched := s :: sch } ext (hD.withSched (s :: sch)) b hdec
        rw [hrun] at hns ⊢
        rw [mapRes_isSchedErr] at hns
        rcases htot.driver with ⟨hsig, hk⟩ | ⟨he, _⟩
        · refine ⟨hk.inv.good3 (hk.roots.trans h.roots), fun u hu => hk.held u (Or.inr hu),
            mapRes_noSignal f x hsig⟩
        · rw [he] at hns
          cases hns
      | swap _ _ _ => exact absurd hg (fun h => h)
      | sift _ => exact absurd hg (fun h => h)
      | reorderTo _ _ => exact absurd hg (fun h => h)
      | undeclare _ => exact absurd hg (fun h => h)

/-! ### histories -/

def stepS (c : SCall) (s : St) : St := ⟨(runCallS c s.m).2, ledger3 c.op s.m s.ext⟩

def runS : List SCall → St → St
  | [], s => s
  | c :: cs, s => runS cs (stepS c s)

def CallsGuardedS : List SCall → St → Prop
  | [], _ => True
  | c :: cs, s => CallGuardS s.m s.ext c ∧ CallsGuardedS cs (stepS c s)

def resultsS : List SCall → St → List (Except Err Res)
  | [], _ => []
  | c :: cs, s => (runCallS c s.m).1 :: resultsS cs (stepS c s)

instance decCallsGuardedS : (cs : List SCall) → (s : St) → Decidable (CallsGuardedS cs s)
  | [], _ => isTrue trivial
  | c :: cs, s => by
    unfold CallsGuardedS
    exact @instDecidableAnd _ _ _ (decCallsGuardedS cs (stepS c s))

theorem runS_inv (cs : List SCall) (s : St) (h : Good3 s.m s.ext) (hg : CallsGuardedS cs s) :
    Good3 (runS cs s).m (runS cs s).ext := by
  induction cs generalizing s with
  | nil => exact h
  | cons c cs ih => exact ih (stepS c s) (stepS_inv s.m s.ext c h hg.1).1 hg.2

/-- **`reachableS_inv`**: every state reached from the empty manager by a guarded history whose
decorated calls run under recorded schedules is good — in particular `DynInv` holds again
(with two variables), so that every theorem of DDProps.C09Sched applies to the next call -/
theorem reachableS_inv (cs : List SCall) (hg : CallsGuardedS cs St.init) :
    Good3 (runS cs St.init).m (runS cs St.init).ext :=
  runS_inv cs St.init Good3.init hg

/-- a history without recorded schedules is a history of DDProofs.Reach3 -/
theorem runS_nil (ops : List UOp3) (s : St) : runS (ops.map (SCall.mk [])) s = run3 ops s := by
  induction ops generalizing s with
  | nil => rfl
  | cons op ops ih =>
    have : stepS ⟨[], op⟩ s = step3 op s := by
      cases op with
      | configure b => rfl
      | op o => cases o <;> rfl
    show runS (ops.map (SCall.mk [])) (stepS ⟨[], op⟩ s) = run3 ops (step3 op s)
    rw [this]
    exact ih (step3 op s)

/-- the internal signal never reaches the user, in no call of a guarded history -/
theorem resultsS_noSignal (cs : List SCall) (s : St) (h : Good3 s.m s.ext) (hg : CallsGuardedS cs s) :
    ∀ r ∈ resultsS cs s, r ≠ .error .needsReordering := by
  induction cs generalizing s with
  | nil => intro r hr; cases hr
  | cons c cs ih =>
    intro r hr
    have hst := stepS_inv s.m s.ext c h hg.1
    rcases List.mem_cons.mp hr with rfl | hr
    · exact hst.2.2
    · exact ih (stepS c s) hst.1 hg.2 r hr

/-- a reference the user holds and does not release stays a node and keeps its function of the
variable NAMES through ANY guarded continuation — siftings under recorded schedules included -/
theorem runS_held (cs : List SCall) (s : St) (h : Good3 s.m s.ext) (hg : CallsGuardedS cs s) (u : Int)
    (hheld : ∀ (pre post : List SCall), cs = pre ++ post → 0 < (runS pre s).ext u.natAbs) :
    (runS cs s).m.tbl.Mem u ∧ ∀ σ, denN (runS cs s).m.tbl u σ = denN s.m.tbl u σ := by
  induction cs generalizing s with
  | nil => exact ⟨h.exact.mem_of_ext_pos (hheld [] [] rfl), fun _ => rfl⟩
  | cons c cs ih =>
    have h0 : 0 < s.ext u.natAbs := hheld [] (c :: cs) rfl
    have hst := stepS_inv s.m s.ext c h hg.1
    obtain ⟨-, hd1⟩ := hst.2.1 u h0
    obtain ⟨hm2, hd2⟩ := ih (stepS c s) hst.1 hg.2
      (fun pre post he => hheld (c :: pre) post (by rw [he]; rfl))
    exact ⟨hm2, fun σ => (hd2 σ).trans (hd1 σ)⟩

end DD
