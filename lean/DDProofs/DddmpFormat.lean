/-
  DDProofs.DddmpFormat — the file semantics `evalFile` (stated through the two tables of
  `_parse_header`) composed with the mode lemmas of `DDProofs/DddmpHeader.lean` into ONE
  statement: on a well-formed file with distinct header entries, `evalFile` is `evalFormat`,
  the evaluation of the node list by the DDDMP reading rule `dddmpNameOf` (header LINES
  only), and it obeys the Shannon rule of the format for every listed line, with
  complemented else-edges and signed root entries.
-/
import DDProofs.DddmpHeader
open Std

namespace DD

/-! ### `evalFileF` is `evalNodesF` with the loader's reading of the `info` column -/

theorem evalFileF_eq_evalNodesF (i2p levels : List (DddmpTok × Int)) (nodes : List DddmpNode)
    (α : String → Bool) :
    ∀ fuel x, evalFileF i2p levels nodes α fuel x =
      evalNodesF (dddmpVarOf i2p levels) nodes α fuel x := by
  intro fuel
  induction fuel with
  | zero => intro x; rfl
  | succ fuel ih =>
    intro x
    rw [evalFileF, evalNodesF]
    cases nodes.find? (fun n => decide (n.u = (x.natAbs : Int))) with
    | none => rfl
    | some n =>
      simp only
      by_cases ht : n.info = .str "T"
      · simp [ht]
      · simp only [ht, if_false]
        cases dddmpVarOf i2p levels n.info with
        | none => rfl
        | some var => simp only [ih]

/-- only the reading of the labels of the listed non-terminal lines matters -/
theorem evalNodesF_congr {varOf varOf' : DddmpTok → Option DddmpTok} {nodes : List DddmpNode}
    (h : ∀ n ∈ nodes, n.info ≠ .str "T" → varOf n.info = varOf' n.info) (α : String → Bool) :
    ∀ fuel x, evalNodesF varOf nodes α fuel x = evalNodesF varOf' nodes α fuel x := by
  intro fuel
  induction fuel with
  | zero => intro x; rfl
  | succ fuel ih =>
    intro x
    rw [evalNodesF, evalNodesF]
    cases hf : nodes.find? (fun n => decide (n.u = (x.natAbs : Int))) with
    | none => rfl
    | some n =>
      simp only
      by_cases ht : n.info = .str "T"
      · simp [ht]
      · simp only [ht, if_false]
        rw [h n (List.mem_of_find?_eq_some hf) ht]
        cases varOf' n.info with
        | none => rfl
        | some var => simp only [ih]

/-! ### positions -/

theorem posOf_some {a : Int} : ∀ {l : List Int} {j : Nat}, posOf a l = some j → l[j]? = some a := by
  intro l
  induction l with
  | nil => intro j h; cases h
  | cons b l ih =>
    intro j h
    rw [posOf] at h
    split at h
    · next hb => cases h; simp [hb]
    · cases hp : posOf a l with
      | none => rw [hp] at h; cases h
      | some j' =>
        rw [hp] at h
        simp only [Option.map_some, Option.some.injEq] at h
        subst h
        simpa using ih hp

theorem posOf_of_getElem? {a : Int} : ∀ {l : List Int} {j : Nat}, l.Nodup → l[j]? = some a →
    posOf a l = some j := by
  intro l
  induction l with
  | nil => intro j _ h; simp at h
  | cons b l ih =>
    intro j hnd h
    simp only [List.nodup_cons] at hnd
    rw [posOf]
    cases j with
    | zero =>
      simp only [List.getElem?_cons_zero, Option.some.injEq] at h
      simp [h]
    | succ j =>
      simp only [List.getElem?_cons_succ] at h
      have hne : ¬ (b = a) := by
        intro e
        exact hnd.1 (e ▸ List.mem_of_getElem? h)
      simp [hne, ih hnd.2 h]

/-! ### the header lines are those of a DDDMP file -/

/-- the entries of the header lists that identify variables are distinct (in the lists the
mode of the file uses) -/
structure DddmpHeaderOK (f : DddmpFile) : Prop where
  ids : f.varinfo = some 0 → (f.ids.getD []).Nodup
  permids : f.varinfo ≠ some 3 → (f.permids.getD []).Nodup
  ordered : (f.orderedvarnames.getD []).Nodup
  supp : f.orderedvarnames = none → (f.suppvarnames.getD []).Nodup

instance (f : DddmpFile) : Decidable (DddmpHeaderOK f) :=
  decidable_of_iff ((f.varinfo = some 0 → (f.ids.getD []).Nodup) ∧
      (f.varinfo ≠ some 3 → (f.permids.getD []).Nodup) ∧ (f.orderedvarnames.getD []).Nodup ∧
      (f.orderedvarnames = none → (f.suppvarnames.getD []).Nodup))
    ⟨fun ⟨a, b, c, d⟩ => ⟨a, b, c, d⟩, fun ⟨a, b, c, d⟩ => ⟨a, b, c, d⟩⟩

theorem lenNe_false {α : Type} {l : List α} {n : Option Int} (h : lenNe l n = false) :
    n = some (l.length : Int) := by
  simpa [lenNe] using h

/-- the lengths `_assert_consistent` has checked -/
theorem assertConsistent_lens {f : DddmpFile} (hc : dddmpAssertConsistent f = .ok ())
    {ids permids : List Int} (hi : f.ids = some ids) (hp : f.permids = some permids) :
    lenNe ids f.nsuppvars = false ∧ lenNe permids f.nsuppvars = false ∧
      (∀ sv, f.suppvarnames = some sv → lenNe sv f.nsuppvars = false) ∧
      (∀ ov, f.orderedvarnames = some ov → lenNe ov f.nvars = false) := by
  unfold dddmpAssertConsistent at hc
  simp only [hi, hp, bind, Except.bind, throw, throwThe, MonadExceptOf.throw, pure, Except.pure] at hc
  cases h1 : lenNe ids f.nsuppvars <;> cases h2 : lenNe permids f.nsuppvars <;>
    cases h3 : f.suppvarnames <;> cases h5 : f.orderedvarnames <;> simp only [h1, h2, h3, h5] at hc ⊢
  all_goals (try (rename_i sv ov; cases h4 : lenNe sv f.nsuppvars <;> cases h6 : lenNe ov f.nvars <;>
    simp only [h4, h6] at hc ⊢))
  all_goals (try (rename_i sv; cases h4 : lenNe sv f.nsuppvars <;> cases h6 : lenNe sv f.nvars <;>
    simp only [h4, h6] at hc ⊢))
  all_goals simp_all

theorem dddmpHeader_consistent {f : DddmpFile} {i2p levels : List (DddmpTok × Int)} {roots : List Int}
    (h : dddmpHeader f = .ok (i2p, levels, roots)) : dddmpAssertConsistent f = .ok () := by
  unfold dddmpHeader at h
  split at h
  · cases h
  · next u hu => cases u; exact hu

theorem dddmpHeader_lengths {f : DddmpFile} {i2p levels : List (DddmpTok × Int)} {roots : List Int}
    (h : dddmpHeader f = .ok (i2p, levels, roots)) {ids permids : List Int}
    (hi : f.ids = some ids) (hp : f.permids = some permids) :
    ids.length = permids.length ∧ (∀ sv, f.suppvarnames = some sv → permids.length = sv.length) ∧
      (∀ ov, f.orderedvarnames = some ov → f.nvars = some (ov.length : Int)) := by
  obtain ⟨h1, h2, h3, h4⟩ := assertConsistent_lens (dddmpHeader_consistent h) hi hp
  have e1 := lenNe_false h1
  have e2 := lenNe_false h2
  refine ⟨?_, ?_, fun ov ho => lenNe_false (h4 ov ho)⟩
  · rw [e1] at e2
    have := Option.some.inj e2
    omega
  · intro sv hs
    have e3 := lenNe_false (h3 sv hs)
    rw [e2] at e3
    have := Option.some.inj e3
    omega

/-! ### the loader's reading of a label is the reading of the format -/

section Reading
variable {f : DddmpFile} {i2p levels : List (DddmpTok × Int)} {roots : List Int}

/-- the support variable listed at position `j`, whose level `permids[j]` is one of the
header's levels: it is the variable the header puts on that level, and `dddmpSuppName` names it -/
theorem suppVar_of_level (h : dddmpHeader f = .ok (i2p, levels, roots)) (hH : DddmpHeaderOK f)
    (hv3 : f.varinfo ≠ some 3) {permids : List Int}
    (hp : f.permids = some permids) {j : Nat} {k : Int} (hjk : permids[j]? = some k)
    (hkl : k ∈ levels.map (·.2)) :
    ∃ var, (var, k) ∈ levels ∧ (levels.map (·.2)).Nodup ∧ dddmpSuppName f j = some var := by
  cases ho : f.orderedvarnames with
  | some ov =>
    have hond : ov.Nodup := by have := hH.ordered; rw [ho] at this; exact this
    have hL := levels_ordered_eq h ho
    rw [hL, enumDict_eq hond] at hkl
    obtain ⟨q, hq, rfl⟩ := List.mem_map.mp hkl
    obtain ⟨p, hp', rfl⟩ := List.mem_map.mp hq
    have hov : ov[p.2]? = some p.1 := List.mem_zipIdx_iff_getElem?.mp hp'
    obtain ⟨hm, hvals⟩ := levels_ordered h ho hond hov
    refine ⟨p.1, hm, hvals, ?_⟩
    simp only at hjk
    simp [dddmpSuppName, ho, hp, hjk, hov]
  | none =>
    cases hs : f.suppvarnames with
    | none =>
      -- no names: the loader's table is that of the names `permids[0], permids[1], …`
      have hpnd : permids.Nodup := by have := hH.permids hv3; rw [hp] at this; exact this
      have hond : (permids.map DddmpTok.num).Nodup :=
        nodup_map_of_inj_on _ _ (fun a _ b _ h => by cases h; rfl) hpnd
      have hL := levels_nameless_eq h ho hs hp
      rw [hL, enumDict_eq hond] at hkl
      obtain ⟨q, hq, rfl⟩ := List.mem_map.mp hkl
      obtain ⟨p, hp', rfl⟩ := List.mem_map.mp hq
      have hov : (permids.map DddmpTok.num)[p.2]? = some p.1 := List.mem_zipIdx_iff_getElem?.mp hp'
      refine ⟨p.1, ?_, ?_, ?_⟩
      · rw [hL]; exact enumDict_mem hond hov
      · rw [hL]; exact enumDict_vals hond
      · simp only at hjk
        rw [List.getElem?_map] at hov
        cases hpk : permids[p.2]? with
        | none => rw [hpk] at hov; cases hov
        | some v =>
          rw [hpk] at hov
          simp only [Option.map_some, Option.some.injEq] at hov
          simp [dddmpSuppName, ho, hs, hp, hjk, hpk, hov]
    | some sv =>
      obtain ⟨ids, permids', _, hi, hp', _, _, _, _⟩ := dddmpHeader_inv h
      rw [hp] at hp'
      cases hp'
      obtain ⟨_, hlens, _⟩ := dddmpHeader_lengths h hi hp
      have hlen' := hlens sv hs
      have hsnd : sv.Nodup := by have := hH.supp ho; rw [hs] at this; exact this
      have hpnd : permids.Nodup := by have := hH.permids hv3; rw [hp] at this; exact this
      have hj : j < sv.length := by
        have := (List.getElem?_eq_some_iff.mp hjk).1
        omega
      have hjv : sv[j]? = some sv[j] := List.getElem?_eq_getElem hj
      obtain ⟨hm, hvals, -⟩ := levels_supp h ho hs hp hsnd hpnd hlen' hjk hjv
      exact ⟨sv[j], hm, hvals, by simp [dddmpSuppName, ho, hs, hjv]⟩

/-- on the label of a well-formed non-terminal line (it resolves through `info2permid` to one
of the header's levels) the loader's two tables and the DDDMP reading rule name the same
variable -/
theorem dddmpVarOf_eq_nameOf (h : dddmpHeader f = .ok (i2p, levels, roots)) (hH : DddmpHeaderOK f)
    {info : DddmpTok} {k : Int} (hne : info ≠ .str "T")
    (hk : dictGet i2p info = some k) (hkl : k ∈ levels.map (·.2)) :
    ∃ var, dddmpVarOf i2p levels info = some var ∧ dddmpNameOf f info = some var := by
  obtain ⟨ids, permids, _, hi, hp, _, hI, hL, _⟩ := dddmpHeader_inv h
  obtain ⟨t, nv, ht, _, hi2p⟩ := dddmpInfo2permid_inv hI
  have hkt : dictGet t info = some k := by
    rw [hi2p, i2p_get_of_table hne] at hk; exact hk
  obtain ⟨hlen, _, _⟩ := dddmpHeader_lengths h hi hp
  unfold dddmpInfoTable at ht
  split at ht
  · -- `.varinfo 0`
    next hv =>
    have hv3 : f.varinfo ≠ some 3 := by rw [hv]; decide
    have hnd : ids.Nodup := by have := hH.ids hv; rw [hi] at this; exact this
    have ht' : t = dictOf ((ids.zip permids).map fun p => (DddmpTok.num p.1, p.2)) := by
      simp only [pure, Except.pure, Except.ok.injEq] at ht
      exact ht.symm
    have hkeys : (((ids.zip permids).map fun p => (DddmpTok.num p.1, p.2)).map (·.1)).Nodup := by
      rw [List.map_map]
      have : (ids.zip permids).map ((fun x => x.1) ∘ fun p => (DddmpTok.num p.1, p.2)) =
          ((ids.zip permids).map Prod.fst).map DddmpTok.num := by
        rw [List.map_map]; rfl
      rw [this, List.map_fst_zip (by omega)]
      exact nodup_map_of_inj_on _ _ (fun a _ b _ h => by cases h; rfl) hnd
    rw [ht', dictOf_nodup _ hkeys] at hkt
    obtain ⟨p, hpz, hpe⟩ := List.mem_map.mp (dictGet_some_mem _ hkt)
    obtain ⟨j, hj⟩ := List.mem_iff_getElem?.mp hpz
    obtain ⟨hji, hjk⟩ := List.getElem?_zip_eq_some.mp hj
    simp only [Prod.mk.injEq] at hpe
    obtain ⟨rfl, rfl⟩ := hpe
    obtain ⟨var, hm, hvals, hsn⟩ := suppVar_of_level h hH hv3 hp hjk hkl
    refine ⟨var, dddmpVarOf_of_mem hvals hk hm, ?_⟩
    simp [dddmpNameOf, hv, hi, posOf_of_getElem? hnd hji, hsn]
  · -- `.varinfo 1`
    next hv =>
    have hv3 : f.varinfo ≠ some 3 := by rw [hv]; decide
    have hpnd : permids.Nodup := by have := hH.permids hv3; rw [hp] at this; exact this
    have ht' : t = dictOf (permids.map fun k => (DddmpTok.num k, k)) := by
      simp only [pure, Except.pure, Except.ok.injEq] at ht
      exact ht.symm
    have hkeys : ((permids.map fun k => (DddmpTok.num k, k)).map (·.1)).Nodup := by
      rw [List.map_map]
      exact nodup_map_of_inj_on _ _ (fun a _ b _ h => by
        simp only [Function.comp] at h; cases h; rfl) hpnd
    rw [ht', dictOf_nodup _ hkeys] at hkt
    obtain ⟨k', hk', hpe⟩ := List.mem_map.mp (dictGet_some_mem _ hkt)
    simp only [Prod.mk.injEq] at hpe
    obtain ⟨rfl, rfl⟩ := hpe
    obtain ⟨j, hjk⟩ := List.mem_iff_getElem?.mp hk'
    obtain ⟨var, hm, hvals, hsn⟩ := suppVar_of_level h hH hv3 hp hjk hkl
    refine ⟨var, dddmpVarOf_of_mem hvals hk hm, ?_⟩
    simp [dddmpNameOf, hv, hp, posOf_of_getElem? hpnd hjk, hsn]
  · cases ht
  · -- `.varinfo 3`
    next hv =>
    split at ht
    · cases ht
    · next ov ho =>
      have hond : ov.Nodup := by have := hH.ordered; rw [ho] at this; exact this
      have ht' : t = enumDict ov := by
        simp only [pure, Except.pure, Except.ok.injEq] at ht
        exact ht.symm
      rw [ht', enumDict_eq hond] at hkt
      obtain ⟨p, hpz, hpe⟩ := List.mem_map.mp (dictGet_some_mem _ hkt)
      have hov : ov[p.2]? = some p.1 := List.mem_zipIdx_iff_getElem?.mp hpz
      simp only [Prod.mk.injEq] at hpe
      obtain ⟨rfl, rfl⟩ := hpe
      refine ⟨p.1, dddmpVarOf_varinfo3 h hv ho hond hov hne, ?_⟩
      have : p.1 ∈ ov := List.mem_of_getElem? hov
      simp [dddmpNameOf, hv, ho, this]
  · cases ht
  · cases ht

end Reading

/-! ### the composed statement -/

/-- on a well-formed file with distinct header entries (with or without names), the semantics the load
theorems are stated with IS the evaluation of the node list by the DDDMP reading rule -/
theorem evalFile_eq_evalFormat {f : DddmpFile} (hf : f.WF) (hH : DddmpHeaderOK f)
    (α : String → Bool) (x : Int) :
    evalFile f α x = evalFormat f α x := by
  obtain ⟨i2p, levels, roots, nv, hh, hnv, hw, _⟩ := hf
  have hev : evalFile f α x = evalFileF i2p levels f.nodes α (nv + 2).toNat x := by
    simp [evalFile, hh, hnv]
  rw [hev, evalFileF_eq_evalNodesF]
  unfold evalFormat
  rw [hnv]
  simp only [Option.getD_some]
  apply evalNodesF_congr
  intro n hn hne
  rcases hw.line n hn with ht | hnode
  · exact absurd ht.2.1 hne
  · obtain ⟨_, _, _, _, k, hk, hkl, _, _⟩ := hnode
    obtain ⟨var, h1, h2⟩ := dddmpVarOf_eq_nameOf hh hH hne hk hkl
    rw [h1, h2]

/-- `ev` reads the node list of `f` by the rule "the non-terminal line labelled `info` is a
node of the variable `var` whenever `lineVar info var`": the terminal line is the constant
true, a negative number is the complement, every non-terminal line has a variable, and its
value is `if var then [then-column] else [else-column]` (Shannon).  These clauses determine
`ev` on every listed number. -/
structure DddmpShannon (f : DddmpFile) (lineVar : DddmpTok → DddmpTok → Prop)
    (ev : (String → Bool) → Int → Bool) : Prop where
  term : (∃ n ∈ f.nodes, n.IsTerm) → ∀ α, ev α 1 = true
  sign : ∀ α x, ev α x = ((decide (x < 0)) ^^ ev α (x.natAbs : Int))
  total : ∀ n ∈ f.nodes, ¬ n.IsTerm → ∃ var, lineVar n.info var
  node : ∀ n ∈ f.nodes, ¬ n.IsTerm → ∀ var, lineVar n.info var → ∀ α,
    ev α n.u = if α var.show then ev α n.thn else ev α n.els

/-- `evalFile` obeys the Shannon rule of the format with the reading `dddmpNameOf`
(`evalFileF_node` composed with the mode lemmas `dddmpVarOf_*`) -/
theorem evalFile_shannon {f : DddmpFile} (hf : f.WF) (hH : DddmpHeaderOK f) :
    DddmpShannon f (fun info var => dddmpNameOf f info = some var) (evalFile f) := by
  obtain ⟨i2p, levels, roots, nv, hh, hnv, hw, _⟩ := hf
  have hT := dddmpHeader_T hh hnv
  have hev : ∀ α y, evalFile f α y = evalFileF i2p levels f.nodes α (nv + 2).toNat y := by
    intro α y; simp [evalFile, hh, hnv]
  have hline : ∀ n ∈ f.nodes, ¬ n.IsTerm → ∃ k var, n.IsNode f i2p levels ∧
      dictGet i2p n.info = some k ∧ (var, k) ∈ levels ∧ dddmpNameOf f n.info = some var := by
    intro n hn hnt
    rcases hw.line n hn with ht | hnode
    · exact absurd ht hnt
    · obtain ⟨_, hne, _, _, k, hk, hkl, _, _⟩ := id hnode
      obtain ⟨var, h1, h2⟩ := dddmpVarOf_eq_nameOf hh hH hne hk hkl
      refine ⟨k, var, hnode, hk, ?_, h2⟩
      -- the variable `dddmpVarOf` finds is on level `k`
      simp only [dddmpVarOf, hk] at h1
      cases hfd : levels.find? (fun p => decide (p.2 = k)) with
      | none => rw [hfd] at h1; cases h1
      | some p =>
        rw [hfd] at h1
        simp only [Option.map_some, Option.some.injEq] at h1
        have hp := List.mem_of_find?_eq_some hfd
        have hpk : p.2 = k := by simpa using List.find?_some hfd
        rw [← h1, ← hpk]
        exact hp
  refine ⟨?_, ?_, ?_, ?_⟩
  · rintro ⟨n, hn, ht⟩ α
    rw [hev]; exact hw.evalFileF_term α hn ht
  · intro α x
    rw [hev, hev]; exact evalFileF_abs _ _ _ _ _ _
  · intro n hn hnt
    obtain ⟨_, var, _, _, _, h2⟩ := hline n hn hnt
    exact ⟨var, h2⟩
  · intro n hn hnt var hv α
    obtain ⟨k, var', hnode, hk, hm, h2⟩ := hline n hn hnt
    rw [hv] at h2
    cases h2
    rw [hev, hev, hev]
    exact hw.evalFileF_node hT α hn hnode hk hm

/-- the same for `evalFormat` -/
theorem evalFormat_shannon {f : DddmpFile} (hf : f.WF) (hH : DddmpHeaderOK f) :
    DddmpShannon f (fun info var => dddmpNameOf f info = some var) (evalFormat f) := by
  have h := evalFile_shannon hf hH
  have e : evalFile f = evalFormat f := by
    funext α x; exact evalFile_eq_evalFormat hf hH α x
  rw [← e]; exact h

theorem DddmpShannon.reading {f : DddmpFile} {R R' : DddmpTok → DddmpTok → Prop}
    {ev : (String → Bool) → Int → Bool} (h : DddmpShannon f R ev)
    (hRR : ∀ info var, R info var ↔ R' info var) : DddmpShannon f R' ev :=
  ⟨h.term, h.sign, fun n hn hnt => (h.total n hn hnt).imp fun var hv => (hRR _ _).mp hv,
    fun n hn hnt var hv => h.node n hn hnt var ((hRR _ _).mpr hv)⟩

/-! ### the reading rule spelled out mode by mode -/

section Modes
variable {f : DddmpFile}

/-- `.varinfo 3`: the label is the name -/
theorem dddmpNameOf_varinfo3 (hv : f.varinfo = some 3) {ov : List DddmpTok}
    (ho : f.orderedvarnames = some ov) (info var : DddmpTok) :
    dddmpNameOf f info = some var ↔ (info = var ∧ var ∈ ov) := by
  simp only [dddmpNameOf, hv, ho, Option.getD_some]
  constructor
  · intro h
    split at h
    · next hc =>
      cases h
      exact ⟨rfl, by simpa using hc⟩
    · cases h
  · rintro ⟨rfl, hm⟩
    simp [hm]

/-- `.varinfo 0` with `.orderedvarnames`: the line labelled `ids[j]` is a node of the
variable `orderedvarnames[permids[j]]` -/
theorem dddmpNameOf_varinfo0_ordered (hv : f.varinfo = some 0) {ids permids : List Int}
    (hi : f.ids = some ids) (hp : f.permids = some permids) (hnd : ids.Nodup)
    {ov : List DddmpTok} (ho : f.orderedvarnames = some ov) (info var : DddmpTok) :
    dddmpNameOf f info = some var ↔
      ∃ (j : Nat) (i : Int) (k : Nat), info = .num i ∧ ids[j]? = some i ∧
        permids[j]? = some (k : Int) ∧ ov[k]? = some var := by
  constructor
  · intro h
    cases info with
    | str s => simp [dddmpNameOf, hv] at h
    | num i =>
      simp only [dddmpNameOf, hv, hi, Option.getD_some] at h
      cases hpo : posOf i ids with
      | none => rw [hpo] at h; cases h
      | some j =>
        rw [hpo] at h
        simp only [Option.bind_some, dddmpSuppName, ho, hp, Option.getD_some] at h
        cases hjk : permids[j]? with
        | none => rw [hjk] at h; cases h
        | some k =>
          rw [hjk] at h
          simp only at h
          split at h
          · next hk0 =>
            refine ⟨j, i, k.toNat, rfl, posOf_some hpo, ?_, h⟩
            rw [Int.toNat_of_nonneg hk0]; exact hjk
          · cases h
  · rintro ⟨j, i, k, rfl, hji, hjk, hk⟩
    simp [dddmpNameOf, hv, hi, posOf_of_getElem? hnd hji, dddmpSuppName, ho, hp, hjk, hk]

/-- `.varinfo 1` with `.orderedvarnames`: the line labelled `permids[j] = k` is a node of the
variable `orderedvarnames[k]` -/
theorem dddmpNameOf_varinfo1_ordered (hv : f.varinfo = some 1) {permids : List Int}
    (hp : f.permids = some permids) (hnd : permids.Nodup)
    {ov : List DddmpTok} (ho : f.orderedvarnames = some ov) (info var : DddmpTok) :
    dddmpNameOf f info = some var ↔
      ∃ k : Nat, info = .num (k : Int) ∧ (k : Int) ∈ permids ∧ ov[k]? = some var := by
  constructor
  · intro h
    cases info with
    | str s => simp [dddmpNameOf, hv] at h
    | num i =>
      simp only [dddmpNameOf, hv, hp, Option.getD_some] at h
      cases hpo : posOf i permids with
      | none => rw [hpo] at h; cases h
      | some j =>
        rw [hpo] at h
        have hjk := posOf_some hpo
        simp only [Option.bind_some, dddmpSuppName, ho, hp, Option.getD_some, hjk] at h
        split at h
        · next hk0 =>
          refine ⟨i.toNat, ?_, ?_, h⟩
          · rw [Int.toNat_of_nonneg hk0]
          · rw [Int.toNat_of_nonneg hk0]; exact List.mem_of_getElem? hjk
        · cases h
  · rintro ⟨k, rfl, hm, hk⟩
    obtain ⟨j, hjk⟩ := List.mem_iff_getElem?.mp hm
    simp [dddmpNameOf, hv, hp, posOf_of_getElem? hnd hjk, dddmpSuppName, ho, hjk, hk]

/-- `.varinfo 0` without `.orderedvarnames`: the line labelled `ids[j]` is a node of the
variable `suppvarnames[j]` -/
theorem dddmpNameOf_varinfo0_supp (hv : f.varinfo = some 0) {ids : List Int}
    (hi : f.ids = some ids) (hnd : ids.Nodup) (ho : f.orderedvarnames = none) {sv : List DddmpTok}
    (hs : f.suppvarnames = some sv) (info var : DddmpTok) :
    dddmpNameOf f info = some var ↔
      ∃ (j : Nat) (i : Int), info = .num i ∧ ids[j]? = some i ∧ sv[j]? = some var := by
  constructor
  · intro h
    cases info with
    | str s => simp [dddmpNameOf, hv] at h
    | num i =>
      simp only [dddmpNameOf, hv, hi, Option.getD_some] at h
      cases hpo : posOf i ids with
      | none => rw [hpo] at h; cases h
      | some j =>
        rw [hpo] at h
        simp only [Option.bind_some, dddmpSuppName, ho, hs] at h
        exact ⟨j, i, rfl, posOf_some hpo, h⟩
  · rintro ⟨j, i, rfl, hji, hjv⟩
    simp [dddmpNameOf, hv, hi, posOf_of_getElem? hnd hji, dddmpSuppName, ho, hs, hjv]

/-- `.varinfo 1` without `.orderedvarnames`: the line labelled `permids[j]` is a node of the
variable `suppvarnames[j]` -/
theorem dddmpNameOf_varinfo1_supp (hv : f.varinfo = some 1) {permids : List Int}
    (hp : f.permids = some permids) (hnd : permids.Nodup) (ho : f.orderedvarnames = none)
    {sv : List DddmpTok} (hs : f.suppvarnames = some sv) (info var : DddmpTok) :
    dddmpNameOf f info = some var ↔
      ∃ (j : Nat) (k : Int), info = .num k ∧ permids[j]? = some k ∧ sv[j]? = some var := by
  constructor
  · intro h
    cases info with
    | str s => simp [dddmpNameOf, hv] at h
    | num i =>
      simp only [dddmpNameOf, hv, hp, Option.getD_some] at h
      cases hpo : posOf i permids with
      | none => rw [hpo] at h; cases h
      | some j =>
        rw [hpo] at h
        simp only [Option.bind_some, dddmpSuppName, ho, hs] at h
        exact ⟨j, i, rfl, posOf_some hpo, h⟩
  · rintro ⟨j, k, rfl, hjk, hjv⟩
    simp [dddmpNameOf, hv, hp, posOf_of_getElem? hnd hjk, dddmpSuppName, ho, hs, hjv]

/-- `.varinfo 0` without any names: the line labelled `ids[j]` is a node of the variable the
loader calls `permids[permids[j]]` (a Python `int`) -/
theorem dddmpNameOf_varinfo0_nameless (hv : f.varinfo = some 0) {ids permids : List Int}
    (hi : f.ids = some ids) (hp : f.permids = some permids) (hnd : ids.Nodup)
    (ho : f.orderedvarnames = none) (hs : f.suppvarnames = none) (info var : DddmpTok) :
    dddmpNameOf f info = some var ↔
      ∃ (j : Nat) (i : Int) (k : Nat) (v : Int), info = .num i ∧ ids[j]? = some i ∧
        permids[j]? = some (k : Int) ∧ permids[k]? = some v ∧ var = .num v := by
  constructor
  · intro h
    cases info with
    | str s => simp [dddmpNameOf, hv] at h
    | num i =>
      simp only [dddmpNameOf, hv, hi, Option.getD_some] at h
      cases hpo : posOf i ids with
      | none => rw [hpo] at h; cases h
      | some j =>
        rw [hpo] at h
        simp only [Option.bind_some, dddmpSuppName, ho, hs, hp, Option.getD_some] at h
        cases hjk : permids[j]? with
        | none => rw [hjk] at h; cases h
        | some k =>
          rw [hjk] at h
          simp only at h
          split at h
          · next hk0 =>
            cases hkv : permids[k.toNat]? with
            | none => rw [hkv] at h; cases h
            | some v =>
              rw [hkv] at h
              simp only [Option.map_some, Option.some.injEq] at h
              refine ⟨j, i, k.toNat, v, rfl, posOf_some hpo, ?_, hkv, h.symm⟩
              rw [Int.toNat_of_nonneg hk0]; exact hjk
          · cases h
  · rintro ⟨j, i, k, v, rfl, hji, hjk, hkv, rfl⟩
    simp [dddmpNameOf, hv, hi, posOf_of_getElem? hnd hji, dddmpSuppName, ho, hs, hp, hjk, hkv]

/-- `.varinfo 1` without any names: the line labelled with the level `k` (an entry of
`.permids`) is a node of the variable the loader calls `permids[k]` -/
theorem dddmpNameOf_varinfo1_nameless (hv : f.varinfo = some 1) {permids : List Int}
    (hp : f.permids = some permids) (hnd : permids.Nodup)
    (ho : f.orderedvarnames = none) (hs : f.suppvarnames = none) (info var : DddmpTok) :
    dddmpNameOf f info = some var ↔
      ∃ (k : Nat) (v : Int), info = .num (k : Int) ∧ (k : Int) ∈ permids ∧
        permids[k]? = some v ∧ var = .num v := by
  constructor
  · intro h
    cases info with
    | str s => simp [dddmpNameOf, hv] at h
    | num i =>
      simp only [dddmpNameOf, hv, hp, Option.getD_some] at h
      cases hpo : posOf i permids with
      | none => rw [hpo] at h; cases h
      | some j =>
        rw [hpo] at h
        have hjk := posOf_some hpo
        simp only [Option.bind_some, dddmpSuppName, ho, hs, hp, Option.getD_some, hjk] at h
        split at h
        · next hk0 =>
          cases hkv : permids[i.toNat]? with
          | none => rw [hkv] at h; cases h
          | some v =>
            rw [hkv] at h
            simp only [Option.map_some, Option.some.injEq] at h
            refine ⟨i.toNat, v, ?_, ?_, hkv, h.symm⟩
            · rw [Int.toNat_of_nonneg hk0]
            · rw [Int.toNat_of_nonneg hk0]; exact List.mem_of_getElem? hjk
        · cases h
  · rintro ⟨k, v, rfl, hm, hkv, rfl⟩
    obtain ⟨j, hjk⟩ := List.mem_iff_getElem?.mp hm
    simp [dddmpNameOf, hv, hp, posOf_of_getElem? hnd hjk, dddmpSuppName, ho, hs, hjk, hkv]

end Modes

/-! ### the order of the loaded manager, mode by mode -/

theorem insertInt_of_le_all (a : Int) (l : List Int) (h : ∀ b ∈ l, a ≤ b) :
    insertInt a l = a :: l := by
  cases l with
  | nil => rfl
  | cons b l => simp [insertInt, h b List.mem_cons_self]

theorem sortInts_of_sorted : ∀ (l : List Int), l.Pairwise (· ≤ ·) → sortInts l = l
  | [], _ => rfl
  | a :: l, h => by
    have h' := List.pairwise_cons.mp h
    show insertInt a (sortInts l) = a :: l
    rw [sortInts_of_sorted l h'.2, insertInt_of_le_all _ _ h'.1]

theorem enumDict_vals_eq {l : List DddmpTok} (h : l.Nodup) :
    (enumDict l).map (·.2) = (List.range' 0 l.length).map (fun (i : Nat) => (i : Int)) := by
  rw [enumDict_eq h, List.map_map, ← List.zipIdx_map_snd 0 l, List.map_map]
  rfl

/-- the variables keep the relative order of their file levels -/
theorem DddmpLoaded.mono {levels : List (DddmpTok × Int)} {m : Mgr} (h : DddmpLoaded levels m)
    {var var' : DddmpTok} {k k' : Int} {i i' : Nat} (hm : (var, k) ∈ levels) (hm' : (var', k') ∈ levels)
    (hi : m.tbl.vars[var.show]? = some i) (hi' : m.tbl.vars[var'.show]? = some i') (hlt : k < k') :
    i < i' := by
  obtain ⟨j, hS, _, hj⟩ := h.rank var k hm
  obtain ⟨j', hS', _, hj'⟩ := h.rank var' k' hm'
  rw [hi] at hj; rw [hi'] at hj'
  cases hj; cases hj'
  exact sorted_index_lt (sortInts_sorted _) hS hS' hlt

/-- with `.orderedvarnames`: the order of the loaded manager IS that list -/
theorem DddmpLoaded.ordered {m : Mgr} {ov : List DddmpTok} (h : DddmpLoaded (enumDict ov) m)
    (hnd : ov.Nodup) :
    m.nvars = ov.length ∧ ∀ (k : Nat) (var : DddmpTok), ov[k]? = some var →
      m.tbl.vars[var.show]? = some k ∧ m.tbl.l2v[k]? = some var.show := by
  constructor
  · rw [h.nvars, enumDict_eq hnd]; simp
  · intro k var hk
    obtain ⟨i, hS, hl, hv⟩ := h.rank var k (enumDict_mem hnd hk)
    have hsorted : sortInts ((enumDict ov).map (·.2)) = (enumDict ov).map (·.2) := by
      apply sortInts_of_sorted
      rw [enumDict_vals_eq hnd, List.pairwise_map]
      exact (List.pairwise_le_range' (s := 0) (n := ov.length)).imp (fun h => by omega)
    rw [hsorted, enumDict_vals_eq hnd] at hS
    have hik : i = k := by
      rw [List.getElem?_map] at hS
      cases hr : (List.range' 0 ov.length)[i]? with
      | none => rw [hr] at hS; cases hS
      | some v =>
        rw [hr] at hS
        obtain ⟨hlt, hval⟩ := List.getElem?_eq_some_iff.mp hr
        rw [List.getElem_range'] at hval
        simp only [Option.map_some, Option.some.injEq] at hS
        omega
    subst hik
    exact ⟨hv, hl⟩

/-- without `.orderedvarnames`: the variable of file level `k` sits at the rank of `k` among
the sorted `.permids` -/
theorem DddmpLoaded.supp {levels : List (DddmpTok × Int)} {m : Mgr} (h : DddmpLoaded levels m)
    {permids : List Int} (hv : levels.map (·.2) = sortInts permids) :
    m.nvars = permids.length ∧ ∀ var k, (var, k) ∈ levels →
      ∃ i : Nat, (sortInts permids)[i]? = some k ∧ m.tbl.vars[var.show]? = some i ∧
        m.tbl.l2v[i]? = some var.show := by
  constructor
  · rw [h.nvars]
    have := congrArg List.length hv
    simp only [List.length_map] at this
    rw [this]
    exact (sortInts_perm permids).length_eq
  · intro var k hm
    obtain ⟨i, hS, hl, hvv⟩ := h.rank var k hm
    rw [hv, sortInts_of_sorted _ (sortInts_sorted _)] at hS
    exact ⟨i, hS, hvv, hl⟩

section OrderModes
variable {f : DddmpFile} {i2p levels : List (DddmpTok × Int)} {roots : List Int}

/-- with `.orderedvarnames`: the loaded manager declares exactly that list, in that order -/
theorem DddmpLoaded.of_ordered {m : Mgr} (h : dddmpHeader f = .ok (i2p, levels, roots))
    (hH : DddmpHeaderOK f) {ov : List DddmpTok} (ho : f.orderedvarnames = some ov)
    (hL : DddmpLoaded levels m) :
    m.nvars = ov.length ∧ ∀ (k : Nat) (var : DddmpTok), ov[k]? = some var →
      m.tbl.vars[var.show]? = some k ∧ m.tbl.l2v[k]? = some var.show := by
  have hond : ov.Nodup := by have := hH.ordered; rw [ho] at this; exact this
  rw [levels_ordered_eq h ho] at hL
  exact hL.ordered hond

/-- without `.orderedvarnames`: the loaded manager declares the `.suppvarnames`, the `j`-th
of them at the rank of `permids[j]` among the `.permids` (gaps closed, relative order kept) -/
theorem DddmpLoaded.of_supp {m : Mgr} (h : dddmpHeader f = .ok (i2p, levels, roots))
    (hH : DddmpHeaderOK f) (hv3 : f.varinfo ≠ some 3) (ho : f.orderedvarnames = none)
    {sv : List DddmpTok} (hs : f.suppvarnames = some sv) {permids : List Int}
    (hp : f.permids = some permids) (hL : DddmpLoaded levels m) :
    m.nvars = permids.length ∧ ∀ (j : Nat) (var : DddmpTok) (k : Int), sv[j]? = some var →
      permids[j]? = some k → ∃ i : Nat, (sortInts permids)[i]? = some k ∧
        m.tbl.vars[var.show]? = some i ∧ m.tbl.l2v[i]? = some var.show := by
  obtain ⟨ids, permids', _, hi, hp', _, _, _, _⟩ := dddmpHeader_inv h
  rw [hp] at hp'
  cases hp'
  obtain ⟨_, hlens, _⟩ := dddmpHeader_lengths h hi hp
  have hlen' := hlens sv hs
  have hsnd : sv.Nodup := by have := hH.supp ho; rw [hs] at this; exact this
  have hpnd : permids.Nodup := by have := hH.permids hv3; rw [hp] at this; exact this
  cases hpm : permids with
  | nil =>
    subst hpm
    have hsv : sv = [] := by
      cases sv with
      | nil => rfl
      | cons a l => simp at hlen'
    subst hsv
    have hlv : levels = [] := by
      obtain ⟨_, permids2, _, _, hp2, _, _, hLv, _⟩ := dddmpHeader_inv h
      rw [hp] at hp2
      cases hp2
      simp [dddmpLevels, ho, hs, sortInts, dictOf, pure, Except.pure] at hLv
      exact hLv
    refine ⟨by rw [hL.nvars, hlv]; rfl, ?_⟩
    intro j var k hj
    simp at hj
  | cons p0 prest =>
    have hj0 : permids[0]? = some p0 := by rw [hpm]; rfl
    have h0sv : 0 < sv.length := by rw [← hlen', hpm]; simp
    obtain ⟨-, -, hvals⟩ := levels_supp h ho hs hp hsnd hpnd hlen' hj0
      (List.getElem?_eq_getElem h0sv)
    obtain ⟨hn, hr⟩ := hL.supp hvals
    rw [← hpm]
    refine ⟨hn, ?_⟩
    intro j var k hjv hjk
    obtain ⟨hm, -, -⟩ := levels_supp h ho hs hp hsnd hpnd hlen' hjk hjv
    exact hr var k hm

/-- without any names: the loaded manager declares the Python `int`s `permids[0], permids[1], …`
in that order (level `L` is the variable `permids[L]`) -/
theorem DddmpLoaded.of_nameless {m : Mgr} (h : dddmpHeader f = .ok (i2p, levels, roots))
    (hH : DddmpHeaderOK f) (hv3 : f.varinfo ≠ some 3) (ho : f.orderedvarnames = none)
    (hs : f.suppvarnames = none) {permids : List Int} (hp : f.permids = some permids)
    (hL : DddmpLoaded levels m) :
    m.nvars = permids.length ∧ ∀ (L : Nat) (v : Int), permids[L]? = some v →
      m.tbl.vars[(DddmpTok.num v).show]? = some L ∧ m.tbl.l2v[L]? = some (DddmpTok.num v).show := by
  have hpnd : permids.Nodup := by have := hH.permids hv3; rw [hp] at this; exact this
  have hond : (permids.map DddmpTok.num).Nodup :=
    nodup_map_of_inj_on _ _ (fun a _ b _ h => by cases h; rfl) hpnd
  rw [levels_nameless_eq h ho hs hp] at hL
  obtain ⟨hn, hr⟩ := hL.ordered hond
  refine ⟨by simpa using hn, fun L v hLv => hr L (.num v) ?_⟩
  rw [List.getElem?_map, hLv]; rfl

end OrderModes

/-! ### the roots, for an arbitrary statement of the file's semantics -/

/-- `DddmpRootsDenote` with the semantics `ev` -/
def DddmpRootsDenoteBy (ev : (String → Bool) → Int → Bool) (f : DddmpFile) (m : Mgr) : Prop :=
  (∀ ρ ∈ f.rootids.getD [], ∃ r ∈ m.roots, m.tbl.Mem r ∧
      ∀ α, den m.tbl r (dddmpAsgOf m.tbl α) = ev α ρ) ∧
  (∀ r ∈ m.roots, ∃ ρ ∈ f.rootids.getD [],
      ∀ α, den m.tbl r (dddmpAsgOf m.tbl α) = ev α ρ)

theorem dddmpRootsDenote_iff (f : DddmpFile) (m : Mgr) :
    DddmpRootsDenote f m ↔ DddmpRootsDenoteBy (evalFile f) f m := Iff.rfl

end DD
