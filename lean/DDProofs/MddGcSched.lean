import DDProofs.MddGcReach
import DDProofs.MddFuel
import DDProofs.MddRefKeys

/-!
# `MDD.collect_garbage`: totality, and every order of `unused.pop()`

`unused` is a Python `set`; `unused.pop()` removes an arbitrary element.  The model pops the
head of a list.  Here the loop is also given as a relation `MGcRun` that may pop ANY element of
the worklist, and

* no assertion and no `KeyError` of the loop can fire: every step from a good worklist succeeds
  (`mGcStep_total`), the model's own run succeeds (`mCollectGarbage_total`), and every maximal
  run of the relation ends (`MGcRun` is defined by finished runs, `mGcRun_exists`);
* every run, whatever the order, has the properties proved for the model's run
  (`mGcAny_spec`), and after a full collection two runs leave the same nodes with the same
  counters (`mGcAny_deterministic`).
-/

namespace DD
open Std

/-! ### the successor loop -/

theorem nodup_pushNewI (l : List Int) (u : Int) (h : l.Nodup) : (pushNewI l u).Nodup := by
  unfold pushNewI
  split
  · exact h
  · next hc =>
    rw [List.nodup_append]
    refine ⟨h, by simp, ?_⟩
    intro a ha b hb
    simp only [List.mem_singleton] at hb
    subst hb
    intro e; subst e
    exact hc (by simpa using ha)

/-- one unfolding of the successor loop, when no counter is floored -/
theorem mGcKids_cons (k : Int) (rest work : List Int) (m : MddMgr)
    (hpre : ∀ x, 0 < cntInto (k :: rest) x → ∃ v, m.ref[x]? = some v ∧ cntInto (k :: rest) x ≤ v) :
    ∃ v, m.ref[k.natAbs]? = some v ∧ 1 ≤ v ∧
      mGcKids (k :: rest) work m =
        mGcKids rest (if v - 1 = 0 && k.natAbs ≠ 1 then pushNewI work (k.natAbs : Int) else work)
          { m with ref := m.ref.insert k.natAbs (v - 1) } ∧
      (∀ x, 0 < cntInto rest x →
        ∃ v', ({ m with ref := m.ref.insert k.natAbs (v - 1) } : MddMgr).ref[x]? = some v' ∧
          cntInto rest x ≤ v') := by
  obtain ⟨v, hv, hvge⟩ := hpre k.natAbs (by rw [cntInto_cons]; simp)
  have hv1 : 1 ≤ v := by rw [cntInto_cons] at hvge; simp at hvge; omega
  refine ⟨v, hv, hv1, ?_, ?_⟩
  · have hdec : mDecref k m = (.ok (), { m with ref := m.ref.insert k.natAbs (v - 1) }) := by
      unfold mDecref
      rw [hv]
      have : ¬ v = 0 := by omega
      simp [this]
    conv => lhs; unfold mGcKids
    rw [hdec]
    dsimp only
    rw [natmap_getElem?_insert]
    simp only [if_true]
  · intro x hx
    dsimp only
    rw [natmap_getElem?_insert]
    by_cases hkx : k.natAbs = x
    · subst hkx
      refine ⟨v - 1, by simp, ?_⟩
      rw [cntInto_cons] at hvge; simp at hvge; omega
    · obtain ⟨v', hv', hge'⟩ := hpre x (by rw [cntInto_cons]; omega)
      refine ⟨v', by simp [hkx, hv'], ?_⟩
      rw [cntInto_cons] at hge'; simp [hkx] at hge'; exact hge'

/-- the successor loop raises nothing when no counter is floored -/
theorem mGcKids_total : ∀ (kids work : List Int) (m : MddMgr),
    (∀ x, 0 < cntInto kids x → ∃ v, m.ref[x]? = some v ∧ cntInto kids x ≤ v) →
    ∃ work' m', mGcKids kids work m = (.ok work', m') := by
  intro kids
  induction kids with
  | nil => intro work m _; exact ⟨work, m, rfl⟩
  | cons k rest ih =>
    intro work m hpre
    obtain ⟨v, _, _, heq, hpre1⟩ := mGcKids_cons k rest work m hpre
    rw [heq]
    exact ih _ _ hpre1

/-- what the successor loop adds to the worklist: successors whose count has reached zero -/
theorem mGcKids_only : ∀ (kids work : List Int) (m : MddMgr) (work' : List Int) (m' : MddMgr),
    (∀ x, 0 < cntInto kids x → ∃ v, m.ref[x]? = some v ∧ cntInto kids x ≤ v) →
    mGcKids kids work m = (.ok work', m') → work.Nodup →
    work'.Nodup ∧ ∀ y, y ∈ work' → y ∈ work ∨
      ∃ k, k ∈ kids ∧ y = ((k.natAbs : Nat) : Int) ∧ k.natAbs ≠ 1 ∧ m'.ref[k.natAbs]? = some 0 := by
  intro kids
  induction kids with
  | nil =>
    intro work m work' m' _ hr hnd
    simp only [mGcKids, Prod.mk.injEq, Except.ok.injEq] at hr
    obtain ⟨hw, _⟩ := hr
    subst hw
    exact ⟨hnd, fun y hy => Or.inl hy⟩
  | cons k rest ih =>
    intro work m work' m' hpre hr hnd
    obtain ⟨v, hv, hv1, heq, hpre1⟩ := mGcKids_cons k rest work m hpre
    rw [heq] at hr
    have K := mGcKids_spec rest _ _ work' m' hpre1 hr
    have hnd1 : (if v - 1 = 0 && k.natAbs ≠ 1 then pushNewI work (k.natAbs : Int) else work).Nodup := by
      split
      · exact nodup_pushNewI _ _ hnd
      · exact hnd
    obtain ⟨hnd', honly⟩ := ih _ _ work' m' hpre1 hr hnd1
    refine ⟨hnd', ?_⟩
    intro y hy
    rcases honly y hy with hmid | ⟨k', hk', e, h1, h0⟩
    · split at hmid
      · next hcond =>
        rw [mem_pushNewI] at hmid
        rcases hmid with hin | e
        · exact Or.inl hin
        · right
          simp only [Bool.and_eq_true, decide_eq_true_eq] at hcond
          refine ⟨k, List.mem_cons_self, e, hcond.2, ?_⟩
          rw [K.ref k.natAbs]
          dsimp only
          rw [natmap_getElem?_insert]
          simp only [if_true, Option.map_some, Option.some.injEq]
          omega
      · exact Or.inl hmid
    · exact Or.inr ⟨k', List.mem_cons_of_mem _ hk', e, h1, h0⟩

/-! ### one iteration -/

theorem mRelease_ok (u : Nat) (m : MddMgr) (h1 : u ≤ m.max) (h2 : m.free.contains u = false)
    (h3 : m.tbl.mem u = false) (h4 : m.ref.contains u = false) :
    mRelease u m = (.ok (), { m with free := insertSorted u m.free }) := by
  unfold mRelease
  have : ¬ u > m.max := by omega
  rw [if_neg this, h2, h3, h4]
  simp only [Bool.false_eq_true, if_false]

/-- the successors of a node with no parent: no counter is floored by removing its edges -/
theorem kids_pre (m : MddMgr) (ext : Nat → Nat) (hc : MInvCore m) (hx : MRefExact m ext)
    (p : Nat) (np : MNd) (hnode : m.tbl.node? p = some np) :
    ∀ x, 0 < cntInto np.kids x → ∃ v, (m.ref.erase p)[x]? = some v ∧ cntInto np.kids x ≤ v := by
  have hW := hc.wf.toMWF
  have hpmax : p ≤ m.max := hc.maxOK _ _ hnode
  intro x hxpos
  obtain ⟨k, hk, habs⟩ := cntInto_pos_iff.mp hxpos
  have hkm := hW.kids_mem _ _ hnode k hk
  have hklt := hW.kids_lt _ _ hnode k hk
  have hxp : x ≠ p := by
    intro hxp
    rw [← habs] at hxp
    have h1 : k.natAbs ≠ 1 := by
      have := hW.ge_two _ _ hnode
      omega
    have := m.tbl.levelOf_node k np h1 (by rw [hxp]; exact hnode)
    omega
  have hxmem : x = 1 ∨ (m.tbl.node? x).isSome := by
    rw [← habs]; exact hkm
  have hcnt := hx.cnt x hxmem
  refine ⟨_, by rw [natmap_getElem?_erase, if_neg (fun h => hxp h.symm)]; exact hcnt, ?_⟩
  have h1 : edgesInto (m.tbl.node? p) x ≤ m.tbl.indeg (m.max + 1) x :=
    sumRange_le (f := fun q => edgesInto (m.tbl.node? q) x) p (m.max + 1) (by omega)
  rw [hnode] at h1
  simp only [edgesInto] at h1
  omega

/-- the form of one iteration for a node whose counter is zero: none of the assertions fires
and no key is missing -/
theorem mGcStep_unfold (m : MddMgr) (hc : MInvCore m)
    (p : Nat) (np : MNd) (hnode : m.tbl.node? p = some np) (h0 : m.ref[p]? = some 0)
    (work : List Int) :
    mGcStep (p : Int) work m =
      mGcKids np.kids work
        { m with tbl := { m.tbl with succ := m.tbl.succ.erase p }, pred := m.pred.erase np.key,
                 ref := m.ref.erase p, free := insertSorted p m.free } := by
  have hW := hc.wf.toMWF
  have hp2 : 2 ≤ p := hW.ge_two _ _ hnode
  have hpmax : p ≤ m.max := hc.maxOK _ _ hnode
  have hpfree : m.free.contains p = false := by
    cases hf : m.free.contains p with
    | false => rfl
    | true =>
      have := (hc.freeOK p (by simpa using hf)).2.2
      rw [hnode] at this; cases this
  have hpred : m.pred[np.key]? = some p := (hc.pred np p).mpr hnode
  have hs : m.tbl.succ[p]? = some np := hnode
  unfold mGcStep
  have h1 : ¬ ((p : Int) = 1) := by omega
  have h2 : ¬ ((p : Int) < 0) := by omega
  rw [if_neg h1, if_neg h2]
  simp only [Int.toNat_natCast]
  rw [hs]
  dsimp only
  rw [hpred]
  dsimp only
  rw [h0]
  dsimp only
  rw [mRelease_ok p _ (by exact hpmax) (by exact hpfree)
    (by
      show MTbl.mem _ _ = false
      unfold MTbl.mem
      have e1 : ((p : Int).natAbs == 1) = false := by simp; omega
      rw [e1]
      simp [TreeMap.contains_erase])
    (by
      dsimp only
      cases hcn : (m.ref.erase p).contains p with
      | false => rfl
      | true =>
        rw [natmap_contains_iff, natmap_getElem?_erase] at hcn
        simp at hcn)]
  dsimp only
  have hin : (insertSorted p m.free).contains p = true := by
    simp [mMem_insertSorted]
  simp only [hin]
  simp

theorem mGcStep_total (m : MddMgr) (ext : Nat → Nat) (hc : MInvCore m) (hx : MRefExact m ext)
    (p : Nat) (np : MNd) (hnode : m.tbl.node? p = some np) (h0 : m.ref[p]? = some 0)
    (work : List Int) :
    ∃ work' m', mGcStep (p : Int) work m = (.ok work', m') := by
  rw [mGcStep_unfold m hc p np hnode h0 work]
  exact mGcKids_total _ _ _ (kids_pre m ext hc hx p np hnode)

/-! ### good worklists -/

/-- the worklist of `collect_garbage`: distinct nodes whose counter is zero -/
structure WorkOK (m : MddMgr) (work : List Int) : Prop where
  nodup : work.Nodup
  ent : ∀ y, y ∈ work → ∃ (p : Nat) (n : MNd), y = ((p : Nat) : Int) ∧ m.tbl.node? p = some n ∧
    m.ref[p]? = some 0

/-- a step from a good worklist leaves a good worklist -/
theorem mGcStep_work (m : MddMgr) (ext : Nat → Nat) (hc : MInvCore m) (hx : MRefExact m ext)
    (u : Int) (work : List Int) (hu : u ∈ work) (hw : WorkOK m work)
    (work' : List Int) (m' : MddMgr) (hr : mGcStep u (work.erase u) m = (.ok work', m')) :
    WorkOK m' work' := by
  obtain ⟨p, np, hup, hnode, h0⟩ := hw.ent u hu
  subst hup
  have hW := hc.wf.toMWF
  obtain ⟨p', np', hup', hnode', _, hc', _, _, htbl, hrefx, _, _⟩ :=
    mGcStep_spec m ext hc hx _ _ work' m' hr
  have hpp : p' = p := by omega
  subst hpp
  rw [hnode] at hnode'
  cases hnode'
  rw [mGcStep_unfold m hc p' np hnode h0] at hr
  have hnd : (work.erase ((p' : Nat) : Int)).Nodup := hw.nodup.erase _
  obtain ⟨hnd', honly⟩ := mGcKids_only _ _ _ work' m' (kids_pre m ext hc hx p' np hnode) hr hnd
  refine ⟨hnd', ?_⟩
  intro y hy
  rcases honly y hy with hin | ⟨k, hk, e, hk1, hk0⟩
  · have hyw : y ∈ work := List.mem_of_mem_erase hin
    have hyne : y ≠ ((p' : Nat) : Int) := by
      intro e; subst e
      exact (List.Nodup.mem_erase_iff hw.nodup).mp hin |>.1 rfl
    obtain ⟨q, nq, e, hq, hq0⟩ := hw.ent y hyw
    subst e
    have hqp : q ≠ p' := by intro e; subst e; exact hyne rfl
    refine ⟨q, nq, rfl, ?_, ?_⟩
    · have hne : ¬ p' = q := fun e => hqp e.symm
      rw [htbl, MTbl.node?_delNode]; simp [hne, hq]
    · rw [hrefx q hqp, hq0]; simp
  · have hkm := hW.kids_mem _ _ hnode k hk
    rcases hkm with h1 | h1
    · exact absurd h1 hk1
    · obtain ⟨nk, hnk⟩ := Option.isSome_iff_exists.mp h1
      have hklt := hW.kids_lt _ _ hnode k hk
      have hkp : k.natAbs ≠ p' := by
        intro e
        have := m.tbl.levelOf_node k np hk1 (by rw [e]; exact hnode)
        omega
      refine ⟨k.natAbs, nk, e, ?_, hk0⟩
      have hne : ¬ p' = k.natAbs := fun e => hkp e.symm
      rw [htbl, MTbl.node?_delNode]; simp [hne, hnk]

/-! ### runs of the loop in any order -/

/-- finished runs of `while unused: u = unused.pop(); …`, popping ANY element each time -/
inductive MGcRun : List Int → MddMgr → MddMgr → Prop
  | done (m : MddMgr) : MGcRun [] m m
  | step (u : Int) (work work' : List Int) (m m1 m' : MddMgr) :
      u ∈ work → mGcStep u (work.erase u) m = (.ok work', m1) → MGcRun work' m1 m' →
      MGcRun work m m'

/-- the model's run (pop the head) is one of them -/
theorem mGcLoop_run : ∀ (f : Nat) (work : List Int) (m m' : MddMgr),
    mGcLoop f work m = (.ok (), m') → MGcRun work m m' := by
  intro f
  induction f with
  | zero =>
    intro work m m' hr
    cases work with
    | nil =>
      simp only [mGcLoop, Prod.mk.injEq, true_and] at hr
      subst hr; exact MGcRun.done _
    | cons u rest => simp [mGcLoop] at hr
  | succ f ih =>
    intro work m m' hr
    cases work with
    | nil =>
      simp only [mGcLoop, Prod.mk.injEq, true_and] at hr
      subst hr; exact MGcRun.done _
    | cons u rest =>
      simp only [mGcLoop] at hr
      split at hr
      · simp at hr
      · next work1 m1 hstep =>
        refine MGcRun.step u (u :: rest) work1 m m1 m' List.mem_cons_self ?_ (ih _ _ _ hr)
        rw [List.erase_cons_head]
        exact hstep

/-- every run, in any order, keeps the invariants and the held nodes; and if every
zero-count node was on the worklist, no zero-count node is left -/
theorem mGcRun_spec (ext : Nat → Nat) {work : List Int} {m m' : MddMgr} (R : MGcRun work m m') :
    MInvCore m → MRefExact m ext →
    GcRel m m' ext ∧
    ((∀ x n, m.tbl.node? x = some n → m.ref[x]? = some 0 → ((x : Nat) : Int) ∈ work) →
      ∀ x n, m'.tbl.node? x = some n → m'.ref[x]? ≠ some 0) := by
  induction R with
  | done m =>
    intro hc hx
    refine ⟨⟨hc, hx, rfl, MExt.refl _, fun _ _ h _ => h⟩, ?_⟩
    intro hW x n hn h0
    have := hW x n hn h0
    simp at this
  | step u work work1 m m1 m' hu hstep _ ih =>
    intro hc hx
    obtain ⟨p, np, hup, hnode, hext0, hc1, hx1, hmax1, htbl1, hrefx, hkeep, hadded⟩ :=
      mGcStep_spec m ext hc hx u _ work1 m1 hstep
    obtain ⟨G, hWimp⟩ := ih hc1 hx1
    have hsub1 : MExt m1.tbl m.tbl := by rw [htbl1]; exact m.tbl.delNode_sub p
    refine ⟨⟨G.core, G.exact, G.max.trans hmax1, G.sub.trans hsub1, ?_⟩, ?_⟩
    · intro x n hn hpos
      apply G.held x n _ hpos
      rw [htbl1, MTbl.node?_delNode]
      have : p ≠ x := by intro e; subst e; omega
      simp [this, hn]
    · intro hW
      apply hWimp
      intro x n hn h0
      have hxp : x ≠ p := by
        intro e; subst e
        rw [htbl1, MTbl.node?_delNode] at hn; simp at hn
      have hn0 : m.tbl.node? x = some n := hsub1.nodes x n hn
      rw [hrefx x hxp] at h0
      cases hv : m.ref[x]? with
      | none => rw [hv] at h0; cases h0
      | some v =>
        rw [hv] at h0
        simp only [Option.map_some, Option.some.injEq] at h0
        by_cases hv0 : v = 0
        · subst hv0
          have hin := hW x n hn0 hv
          apply hkeep
          refine (List.mem_erase_of_ne ?_).mpr hin
          intro e
          rw [hup] at e
          exact hxp (by omega)
        · have hpos : 0 < cntInto np.kids x := by omega
          obtain ⟨k, hk, habs⟩ := cntInto_pos_iff.mp hpos
          have hx2 : 2 ≤ x := hc.wf.ge_two _ _ hn0
          have := hadded k hk (by omega) (by
            rw [habs, hrefx x hxp, hv]
            simp only [Option.map_some, Option.some.injEq]
            omega)
          rw [habs] at this
          exact this

/-- the model's loop succeeds from a good worklist, given fuel for one step per node -/
theorem mGcLoop_total (ext : Nat → Nat) : ∀ (f : Nat) (work : List Int) (m : MddMgr),
    MInvCore m → MRefExact m ext → WorkOK m work → m.tbl.succ.size + 1 ≤ f →
    ∃ m', mGcLoop f work m = (.ok (), m') := by
  intro f
  induction f with
  | zero => intro work m _ _ _ hf; omega
  | succ f ih =>
    intro work m hc hx hw hf
    cases work with
    | nil => exact ⟨m, rfl⟩
    | cons u rest =>
      obtain ⟨p, np, hup, hnode, h0⟩ := hw.ent u List.mem_cons_self
      obtain ⟨work1, m1, hstep⟩ := mGcStep_total m ext hc hx p np hnode h0 rest
      rw [← hup] at hstep
      have hstep' : mGcStep u ((u :: rest).erase u) m = (.ok work1, m1) := by
        rw [List.erase_cons_head]; exact hstep
      have hw1 := mGcStep_work m ext hc hx u (u :: rest) List.mem_cons_self hw work1 m1 hstep'
      obtain ⟨_, _, _, _, _, hc1, hx1, _⟩ := mGcStep_spec m ext hc hx u _ work1 m1 hstep
      have hsz := (mGcStep_size u rest m _ m1 hstep).2 work1 rfl
      obtain ⟨m', hm'⟩ := ih work1 m1 hc1 hx1 hw1 (by omega)
      refine ⟨m', ?_⟩
      simp only [mGcLoop]
      rw [hstep]
      exact hm'

/-- from a good worklist no run can get stuck: whatever element is popped, the step succeeds
and leaves a good worklist (so every maximal run is a finished run) -/
theorem mGcRun_progress (m : MddMgr) (ext : Nat → Nat) (hc : MInvCore m) (hx : MRefExact m ext)
    (work : List Int) (hw : WorkOK m work) (u : Int) (hu : u ∈ work) :
    ∃ work' m1, mGcStep u (work.erase u) m = (.ok work', m1) ∧
      MInvCore m1 ∧ MRefExact m1 ext ∧ WorkOK m1 work' ∧
      m1.tbl.succ.size + 1 = m.tbl.succ.size := by
  obtain ⟨p, np, hup, hnode, h0⟩ := hw.ent u hu
  obtain ⟨work1, m1, hstep⟩ := mGcStep_total m ext hc hx p np hnode h0 (work.erase u)
  rw [← hup] at hstep
  obtain ⟨_, _, _, _, _, hc1, hx1, _⟩ := mGcStep_spec m ext hc hx u _ work1 m1 hstep
  exact ⟨work1, m1, hstep, hc1, hx1, mGcStep_work m ext hc hx u work hu hw work1 m1 hstep,
    (mGcStep_size u _ m _ m1 hstep).2 work1 rfl⟩

/-! ### `collect_garbage` -/

/-- the initial worklist `{abs(u) for u in roots if not self.ref(u)}` -/
theorem mUnusedOf_total : ∀ (rs : List Int) (m : MddMgr),
    (∀ r, r ∈ rs → m.ref.contains r.natAbs = true) →
    ∃ un, mUnusedOf rs m = (.ok un, m) ∧ un.Nodup ∧
      ∀ y, y ∈ un → ∃ r, r ∈ rs ∧ y = ((r.natAbs : Nat) : Int) ∧ m.ref[r.natAbs]? = some 0 := by
  intro rs
  induction rs with
  | nil => intro m _; exact ⟨[], rfl, List.nodup_nil, fun y hy => by simp at hy⟩
  | cons u rest ih =>
    intro m hall
    obtain ⟨un, hun, hnd, hent⟩ := ih m (fun r hr => hall r (List.mem_cons_of_mem _ hr))
    have hu := (natmap_contains_iff m.ref u.natAbs).mp (hall u List.mem_cons_self)
    obtain ⟨c, hc⟩ := Option.isSome_iff_exists.mp hu
    unfold mUnusedOf
    rw [hc]
    dsimp only
    rw [hun]
    dsimp only
    by_cases hc0 : c = 0
    · rw [if_pos hc0]
      refine ⟨_, rfl, ?_, ?_⟩
      · split
        · exact hnd
        · next hnc =>
          rw [List.nodup_cons]
          exact ⟨fun hin => hnc (by simpa using hin), hnd⟩
      · intro y hy
        split at hy
        · obtain ⟨r, hr, e, h0⟩ := hent y hy
          exact ⟨r, List.mem_cons_of_mem _ hr, e, h0⟩
        · rcases List.mem_cons.mp hy with e | hy
          · exact ⟨u, List.mem_cons_self, e, by rw [hc, hc0]⟩
          · obtain ⟨r, hr, e, h0⟩ := hent y hy
            exact ⟨r, List.mem_cons_of_mem _ hr, e, h0⟩
    · rw [if_neg hc0]
      refine ⟨un, rfl, hnd, ?_⟩
      intro y hy
      obtain ⟨r, hr, e, h0⟩ := hent y hy
      exact ⟨r, List.mem_cons_of_mem _ hr, e, h0⟩

/-- the list `collect_garbage` starts from -/
def gcRootList (m : MddMgr) (roots : Option (List Int)) : List Int :=
  match roots with
  | some r => r
  | none => m.ref.keys.map (fun (k : Nat) => (k : Int))

/-- the first worklist is good -/
theorem initial_work (m : MddMgr) (h : MInv m) (rs un : List Int) (hnd : un.Nodup)
    (hro : ∀ r, r ∈ rs → m.tbl.Mem r)
    (hent : ∀ y, y ∈ un → ∃ r, r ∈ rs ∧ y = ((r.natAbs : Nat) : Int) ∧ m.ref[r.natAbs]? = some 0) :
    WorkOK m (un.erase 1) := by
  refine ⟨hnd.erase _, ?_⟩
  intro y hy
  have hy1 : y ≠ 1 := fun e => by
    subst e
    exact ((List.Nodup.mem_erase_iff hnd).mp hy).1 rfl
  obtain ⟨r, hr, e, h0⟩ := hent y (List.mem_of_mem_erase hy)
  rcases hro r hr with h1 | h1
  · exfalso; apply hy1; rw [e, h1]; rfl
  · obtain ⟨n, hn⟩ := Option.isSome_iff_exists.mp h1
    exact ⟨r.natAbs, n, e, hn, h0⟩

/-- the roots are references (of either sign) to nodes; with no roots the keys of `_ref` are -/
theorem gcRootList_mem (m : MddMgr) (hk : RefKeys m) (roots : Option (List Int))
    (hro : ∀ rs, roots = some rs → ∀ r, r ∈ rs → m.tbl.Mem r) :
    ∀ r, r ∈ gcRootList m roots → m.tbl.Mem r := by
  intro r hr
  cases roots with
  | none =>
    simp only [gcRootList, List.mem_map] at hr
    obtain ⟨k, hkk, e⟩ := hr
    subst e
    rw [TreeMap.mem_keys, TreeMap.mem_iff_contains] at hkk
    exact hk.mem k hkk
  | some rs => exact hro rs rfl r hr

theorem mCollectGarbage_eq (roots : Option (List Int)) (m : MddMgr) :
    mCollectGarbage roots m =
      match mUnusedOf (gcRootList m roots) m with
      | (.error e, m1) => (.error e, m1)
      | (.ok unused, m1) =>
        match mGcLoop (m1.tbl.succ.size + (unused.erase 1).length + 1) (unused.erase 1) m1 with
        | (.error e, m2) => (.error e, m2)
        | (.ok _, m2) => (.ok (), { m2 with cache := {} }) := by
  cases roots <;> rfl

/-- `collect_garbage(roots)` raises nothing: no assertion fires, no key is missing, and the
model's fuel suffices -/
theorem mCollectGarbage_total (m : MddMgr) (ext : Nat → Nat) (h : MInv m) (hx : MRefExact m ext)
    (roots : Option (List Int))
    (hro : ∀ r, r ∈ gcRootList m roots → m.tbl.Mem r) :
    ∃ m', mCollectGarbage roots m = (.ok (), m') ∧ GcOK m ext roots.isNone m' := by
  have hcnt : ∀ r, r ∈ gcRootList m roots → m.ref.contains r.natAbs = true := by
    intro r hr
    rcases hro r hr with h1 | h1
    · rw [h1]; exact h.refOne
    · obtain ⟨n, hn⟩ := Option.isSome_iff_exists.mp h1
      exact h.refDom _ _ hn
  obtain ⟨un, hun, hnd, hent⟩ := mUnusedOf_total (gcRootList m roots) m hcnt
  have hw := initial_work m h _ un hnd hro hent
  obtain ⟨m2, hm2⟩ := mGcLoop_total ext (m.tbl.succ.size + (un.erase 1).length + 1) (un.erase 1) m
    h.core hx hw (by omega)
  have heq : mCollectGarbage roots m = (.ok (), { m2 with cache := {} }) := by
    rw [mCollectGarbage_eq, hun]
    dsimp only
    rw [hm2]
  exact ⟨_, heq, mddGc_spec m ext h hx roots _ heq⟩

/-- a run of `collect_garbage(roots)` with the elements of `unused` popped in any order -/
def MGcAny (roots : Option (List Int)) (m m' : MddMgr) : Prop :=
  ∃ un m2, mUnusedOf (gcRootList m roots) m = (.ok un, m) ∧ MGcRun (un.erase 1) m m2 ∧
    m' = { m2 with cache := {} }

/-- the model's run is one of them -/
theorem mCollectGarbage_any (roots : Option (List Int)) (m m' : MddMgr)
    (hr : mCollectGarbage roots m = (.ok (), m')) : MGcAny roots m m' := by
  unfold mCollectGarbage at hr
  dsimp only at hr
  split at hr
  · simp at hr
  · next unused m1 hun =>
    obtain ⟨hm1, _⟩ := mUnusedOf_spec _ m unused m1 hun
    subst hm1
    split at hr
    · simp at hr
    · next m2 hloop =>
      simp only [Prod.mk.injEq, true_and] at hr
      exact ⟨unused, m2, hun, mGcLoop_run _ _ _ _ hloop, hr.symm⟩

/-- every order of `unused.pop()` gives what `collect_garbage` promises -/
theorem mGcAny_spec (m : MddMgr) (ext : Nat → Nat) (h : MInv m) (hx : MRefExact m ext)
    (roots : Option (List Int)) (m' : MddMgr) (R : MGcAny roots m m') :
    GcOK m ext roots.isNone m' := by
  obtain ⟨unused, m2, hun, hrun, hm'⟩ := R
  subst hm'
  obtain ⟨_, hall⟩ := mUnusedOf_spec _ m unused m hun
  obtain ⟨G, hWimp⟩ := mGcRun_spec ext hrun h.core hx
  have hinv : MInv { m2 with cache := {} } := G.core.withEmptyCache
  refine ⟨hinv, ⟨fun u hu => G.exact.cnt u hu, G.exact.extZero⟩, G.sub, G.held, ?_, ?_, rfl⟩
  · intro hfull x n hn
    have hroots : roots = none := by cases roots <;> simp at hfull <;> rfl
    subst hroots
    have hne := hWimp (by
      intro x n hn h0
      have hx2 : 2 ≤ x := h.wf.ge_two _ _ hn
      have hin : ((x : Nat) : Int) ∈ unused := by
        have := hall ((x : Nat) : Int) (by
          simp only [gcRootList]
          rw [List.mem_map]
          refine ⟨x, ?_, rfl⟩
          rw [TreeMap.mem_keys, TreeMap.mem_iff_contains]
          exact h.refDom _ _ hn) (by simpa using h0)
        simpa using this
      have hne1 : ((x : Nat) : Int) ≠ 1 := by omega
      exact (List.mem_erase_of_ne hne1).mpr hin) x n hn
    have hdom := (natmap_contains_iff m2.ref x).mp (G.core.refDom x n hn)
    cases hv : m2.ref[x]? with
    | none => rw [hv] at hdom; cases hdom
    | some c =>
      refine ⟨c, (by first | exact hv | rfl), ?_⟩
      have : c ≠ 0 := fun e => hne (by rw [hv, e])
      omega
  · intro u hu a
    exact (denM_ext G.sub G.core.wf.toMWF u a hu).symm

/-- full collection in any order: exactly the nodes reachable from a held node remain -/
theorem mGcAny_exactly_reachable (m : MddMgr) (ext : Nat → Nat) (h : MInv m) (hx : MRefExact m ext)
    (m' : MddMgr) (R : MGcAny none m m') (x : Nat) (n : MNd) (hn : m.tbl.node? x = some n) :
    m'.tbl.node? x = some n ↔ HeldReach m.tbl ext x :=
  gcOK_exactly_reachable m ext h m' (mGcAny_spec m ext h hx none m' R) x n hn

/-- the result of a full collection does not depend on the order of `unused.pop()`:
two runs leave the same nodes, with the same counters -/
theorem mGcAny_deterministic (m : MddMgr) (ext : Nat → Nat) (h : MInv m) (hx : MRefExact m ext)
    (m' m'' : MddMgr) (R' : MGcAny none m m') (R'' : MGcAny none m m'') :
    (∀ x, m'.tbl.node? x = m''.tbl.node? x) ∧
    (∀ u, m'.tbl.Mem u → m'.ref[u.natAbs]? = m''.ref[u.natAbs]?) ∧
    (∀ u, m'.tbl.Mem u ↔ m''.tbl.Mem u) ∧
    (∀ u, m'.tbl.Mem u → ∀ a, denM m'.tbl u a = denM m''.tbl u a) := by
  have G' := mGcAny_spec m ext h hx none m' R'
  have G'' := mGcAny_spec m ext h hx none m'' R''
  have hnodes : ∀ x, m'.tbl.node? x = m''.tbl.node? x := by
    intro x
    cases h1 : m'.tbl.node? x with
    | some n =>
      have hn := G'.sub.nodes x n h1
      have := (mGcAny_exactly_reachable m ext h hx m' R' x n hn).mp h1
      exact ((mGcAny_exactly_reachable m ext h hx m'' R'' x n hn).mpr this).symm
    | none =>
      cases h2 : m''.tbl.node? x with
      | none => rfl
      | some n =>
        have hn := G''.sub.nodes x n h2
        have := (mGcAny_exactly_reachable m ext h hx m'' R'' x n hn).mp h2
        rw [(mGcAny_exactly_reachable m ext h hx m' R' x n hn).mpr this] at h1
        cases h1
  have hmem : ∀ u, m'.tbl.Mem u ↔ m''.tbl.Mem u := by
    intro u
    unfold MTbl.Mem
    rw [hnodes]
  refine ⟨hnodes, ?_, hmem, ?_⟩
  · intro u hu
    have h1 := G'.exact.cnt u.natAbs hu
    have h2 := G''.exact.cnt u.natAbs ((hmem u).mp hu)
    rw [h1, h2]
    obtain ⟨un', m2', _, hrun', e'⟩ := R'
    obtain ⟨un'', m2'', _, hrun'', e''⟩ := R''
    have hmax' : m'.max = m.max := by
      rw [e']; exact (mGcRun_spec ext hrun' h.core hx).1.max
    have hmax'' : m''.max = m.max := by
      rw [e'']; exact (mGcRun_spec ext hrun'' h.core hx).1.max
    rw [hmax', hmax'']
    have : m'.tbl.indeg (m.max + 1) u.natAbs = m''.tbl.indeg (m.max + 1) u.natAbs := by
      unfold MTbl.indeg
      exact sumRange_congr _ (fun p _ => by rw [hnodes])
    rw [this]
  · intro u hu a
    rw [G'.den u hu a, G''.den u ((hmem u).mp hu) a]

/-! ### every strategy for `unused.pop()` -/

/-- the loop with `unused.pop()` resolved by a strategy `σ` (a function of the worklist and the
manager) -/
def mGcLoopBy (σ : List Int → MddMgr → Int) : Nat → List Int → MM Unit
  | _, [] => fun m => (.ok (), m)
  | 0, _ :: _ => fun m => (.error .fuel, m)
  | f+1, u0 :: rest => fun m =>
    match mGcStep (σ (u0 :: rest) m) ((u0 :: rest).erase (σ (u0 :: rest) m)) m with
    | (.error e, m1) => (.error e, m1)
    | (.ok work, m1) => mGcLoopBy σ f work m1

/-- `collect_garbage(roots)` with the strategy `σ`; one iteration per node suffices -/
def mCollectGarbageBy (σ : List Int → MddMgr → Int) (roots : Option (List Int)) : MM Unit := fun m =>
  match mUnusedOf (gcRootList m roots) m with
  | (.error e, m1) => (.error e, m1)
  | (.ok unused, m1) =>
    match mGcLoopBy σ (m1.tbl.succ.size + 1) (unused.erase 1) m1 with
    | (.error e, m2) => (.error e, m2)
    | (.ok _, m2) => (.ok (), { m2 with cache := {} })

/-- for EVERY strategy that picks an element of the worklist the loop terminates normally within
one iteration per node, and what it does is one of the runs `MGcRun` -/
theorem mGcLoopBy_total (σ : List Int → MddMgr → Int) (hσ : ∀ w m, w ≠ [] → σ w m ∈ w)
    (ext : Nat → Nat) : ∀ (f : Nat) (work : List Int) (m : MddMgr),
    MInvCore m → MRefExact m ext → WorkOK m work → m.tbl.succ.size + 1 ≤ f →
    ∃ m', mGcLoopBy σ f work m = (.ok (), m') ∧ MGcRun work m m' := by
  intro f
  induction f with
  | zero => intro work m _ _ _ hf; omega
  | succ f ih =>
    intro work m hc hx hw hf
    cases work with
    | nil => exact ⟨m, rfl, MGcRun.done m⟩
    | cons u0 rest =>
      have hu := hσ (u0 :: rest) m (by simp)
      obtain ⟨work1, m1, hstep, hc1, hx1, hw1, hsz⟩ := mGcRun_progress m ext hc hx _ hw _ hu
      obtain ⟨m', hm', hrun⟩ := ih work1 m1 hc1 hx1 hw1 (by omega)
      refine ⟨m', ?_, MGcRun.step _ _ work1 m m1 m' hu hstep hrun⟩
      simp only [mGcLoopBy]
      rw [hstep]
      exact hm'

/-- for EVERY strategy: `collect_garbage(roots)` returns normally, is one of the runs `MGcAny`, and
has all the guarantees -/
theorem mCollectGarbageBy_total (σ : List Int → MddMgr → Int) (hσ : ∀ w m, w ≠ [] → σ w m ∈ w)
    (m : MddMgr) (ext : Nat → Nat) (h : MInv m) (hx : MRefExact m ext)
    (roots : Option (List Int)) (hro : ∀ r, r ∈ gcRootList m roots → m.tbl.Mem r) :
    ∃ m', mCollectGarbageBy σ roots m = (.ok (), m') ∧ MGcAny roots m m' ∧
      GcOK m ext roots.isNone m' := by
  have hcnt : ∀ r, r ∈ gcRootList m roots → m.ref.contains r.natAbs = true :=
    fun r hr => h.refMem (hro r hr)
  obtain ⟨un, hun, hnd, hent⟩ := mUnusedOf_total (gcRootList m roots) m hcnt
  have hw := initial_work m h _ un hnd hro hent
  obtain ⟨m2, hm2, hrun⟩ := mGcLoopBy_total σ hσ ext (m.tbl.succ.size + 1) (un.erase 1) m
    h.core hx hw (Nat.le_refl _)
  have hany : MGcAny roots m { m2 with cache := {} } := ⟨un, m2, hun, hrun, rfl⟩
  refine ⟨_, ?_, hany, mGcAny_spec m ext h hx roots _ hany⟩
  unfold mCollectGarbageBy
  rw [hun]
  dsimp only
  rw [hm2]

/-! ### freed numbers -/

theorem mGcKids_sched : ∀ (kids work : List Int) (m : MddMgr) (r : Except Err (List Int)) (m' : MddMgr),
    mGcKids kids work m = (r, m') → m'.sched = m.sched ∧ m'.free = m.free ∧ m'.max = m.max := by
  intro kids
  induction kids with
  | nil => intro work m r m' h; simp only [mGcKids] at h; cases h; exact ⟨rfl, rfl, rfl⟩
  | cons k rest ih =>
    intro work m r m' h
    unfold mGcKids at h
    have hd : ∀ r1 m1, mDecref k m = (r1, m1) → m1.sched = m.sched ∧ m1.free = m.free ∧ m1.max = m.max := by
      intro r1 m1 h1
      unfold mDecref at h1
      split at h1
      · cases h1; exact ⟨rfl, rfl, rfl⟩
      · split at h1 <;> (cases h1; exact ⟨rfl, rfl, rfl⟩)
    split at h
    · next e m1 h1 => cases h; exact hd _ _ h1
    · next m1 h1 =>
      obtain ⟨a, b, c⟩ := hd _ _ h1
      split at h
      · cases h; exact ⟨a, b, c⟩
      · obtain ⟨a', b', c'⟩ := ih _ _ _ _ h
        exact ⟨a'.trans a, b'.trans b, c'.trans c⟩


/-- an iteration puts the number of the removed node into `_free` (and nothing else changes there) -/
theorem mGcStep_free (u : Int) (work : List Int) (m : MddMgr) (w : List Int) (m' : MddMgr)
    (h : mGcStep u work m = (.ok w, m')) :
    m'.free = insertSorted u.toNat m.free ∧ m'.max = m.max := by
  unfold mGcStep at h
  split at h
  · cases h
  · split at h
    · cases h
    · split at h
      · cases h
      · simp only at h
        split at h
        · cases h
        · split at h
          · cases h
          · split at h
            · cases h
            · next m4 hrel =>
              have h4 : m4.free = insertSorted u.toNat m.free ∧ m4.max = m.max := by
                unfold mRelease at hrel
                split at hrel
                · cases hrel
                · split at hrel
                  · cases hrel
                  · split at hrel
                    · cases hrel
                    · split at hrel
                      · cases hrel
                      · cases hrel; exact ⟨rfl, rfl⟩
              split at h
              · cases h
              · split at h
                · cases h
                · split at h
                  · cases h
                  · obtain ⟨_, hf, hmx⟩ := mGcKids_sched _ _ _ _ _ h
                    exact ⟨hf.trans h4.1, hmx.trans h4.2⟩

/-- whatever the order: the free list only grows, and the number of every removed node is in it -/
theorem mGcRun_free (ext : Nat → Nat) {work : List Int} {m m' : MddMgr} (R : MGcRun work m m') :
    MInvCore m → MRefExact m ext →
    (∀ x, x ∈ m.free → x ∈ m'.free) ∧
    (∀ x n, m.tbl.node? x = some n → m'.tbl.node? x = none → x ∈ m'.free) ∧
    m'.max = m.max := by
  induction R with
  | done m => intro _ _; exact ⟨fun _ h => h, fun x n h1 h2 => by (rw [h1] at h2; cases h2), rfl⟩
  | step u work work1 m m1 m' hu hstep _ ih =>
    intro hc hx
    obtain ⟨p, np, hup, hnode, _, hc1, hx1, _, htbl1, _⟩ := mGcStep_spec m ext hc hx u _ work1 m1 hstep
    obtain ⟨hfree, hmax⟩ := mGcStep_free u _ m work1 m1 hstep
    have hpn : u.toNat = p := by omega
    rw [hpn] at hfree
    obtain ⟨i1, i2, i3⟩ := ih hc1 hx1
    refine ⟨?_, ?_, i3.trans hmax⟩
    · intro x hxf
      apply i1
      rw [hfree, mMem_insertSorted]
      exact Or.inr hxf
    · intro x n hn hnone
      by_cases hxp : x = p
      · subst hxp
        apply i1
        rw [hfree, mMem_insertSorted]
        exact Or.inl rfl
      · apply i2 x n _ hnone
        rw [htbl1, MTbl.node?_delNode]
        have : ¬ p = x := fun e => hxp e.symm
        simp [this, hn]

/-- `collect_garbage`, any order: the numbers of the removed nodes are in `_free` afterwards, what
was in `_free` stays, and `_max` is unchanged -/
theorem mGcAny_free (m : MddMgr) (ext : Nat → Nat) (h : MInv m) (hx : MRefExact m ext)
    (roots : Option (List Int)) (m' : MddMgr) (R : MGcAny roots m m') :
    (∀ x, x ∈ m.free → x ∈ m'.free) ∧
    (∀ x n, m.tbl.node? x = some n → m'.tbl.node? x = none → x ∈ m'.free) ∧
    m'.max = m.max := by
  obtain ⟨un, m2, _, hrun, hm'⟩ := R
  subst hm'
  have := mGcRun_free ext hrun h.core hx
  exact this

/-- `_allocate` hands out a number that is not above `_max` — in particular a freed one — only by
popping it from `_free` -/
theorem mAllocate_source (m : MddMgr) (u : Nat) (m' : MddMgr) (h : mAllocate m = (.ok u, m')) :
    (m.free = [] ∧ u = m.max + 1 ∧ m'.max = m.max + 1 ∧ m'.free = []) ∨
    (u ∈ m.free ∧ m'.free = m.free.erase u ∧ m'.max = m.max) := by
  unfold mAllocate at h
  split at h
  · next hf => cases h; exact Or.inl ⟨hf, rfl, rfl, hf⟩
  · next f0 tl hf =>
    split at h
    · cases h; exact Or.inr ⟨by rw [hf]; simp, rfl, rfl⟩
    · split at h
      · next hc => cases h; exact Or.inr ⟨by simpa using hc, rfl, rfl⟩
      · cases h

end DD
