/-
  DDProofs.DynSchedFew — the decorated calls with FEWER THAN TWO variables under ANY recorded
  schedule, every outcome.  The every-schedule theorems of DDProofs.DynSched* assume two declared
  variables (`DynInvS.nvars`); DDProofs.Reach3 (`tryToReorder_few`) covers fewer with the default
  schedule only.  With fewer than two variables a fired request ends in an exception of sifting
  (`ValueError` / `UnboundLocalError`) — or, in the model, in `.sched` when the recorded schedule
  does not begin with the order of `for var in names` (the model reads that item BEFORE the loop
  fails, so the schedule is not untouched: one item may be consumed).  In every case the manager
  is kept: `tryToReorder_fewS`, driver's form `Few3` for `clearSched (… { m with sched := sch })`.
-/
import DDProofs.DynSchedReach
import DDProofs.DynSchedKeep
import DDProofs.SchedNaturalMore
open Std

namespace DD

/-- what a failed sifting keeps (the recorded schedule apart) -/
structure RelW (ext : Nat → Nat) (m m' : Mgr) : Prop where
  held : HeldSame ext m m'
  names : ∀ v : String, m'.tbl.vars.contains v = m.tbl.vars.contains v
  nvars : m'.nvars = m.nvars
  roots : m'.roots = m.roots
  ctx : m'.ctx = m.ctx
  lastLen : m'.lastLen = m.lastLen

/-- `reorder(bdd)` with fewer than two variables, ANY recorded schedule: it raises — an exception of
the code or the model's `.sched` (only with a recorded schedule) — and the manager is kept -/
theorem sift_few_resultS (ext : Nat → Nat) (m : Mgr) (h : ReorderInv ext m) (hfew : m.nvars < 2) :
    ∃ e mb, reorder none m = (.error e, mb) ∧ e ≠ .needsReordering ∧ (e = .sched → m.sched ≠ []) ∧
      ReorderInv ext mb ∧ RelW ext m mb := by
  obtain ⟨mg, hrun, hp⟩ := collectGarbage_spec m ext h.inv h.refExact
  obtain ⟨hg, hrel⟩ := gcSub_keeps h hp.inv hp.refExact hp.sub
  have hn : mg.nvars < 2 := by rw [hrel.nvars]; exact hfew
  obtain ⟨e, mb, hres, -⟩ := sift_few_vars m mg hrun hg.order hn
  have hk := sift_keep ext m h
  have hK := reorder_keepS ext m h none
  rw [hres] at hk hK
  have hdef : e = .sched → m.sched ≠ [] := by
    intro he hs
    obtain ⟨e', mb', hres', hrej, _⟩ := sift_few_result ext m h hs hfew
    rw [hres] at hres'
    cases hres'
    exact hrej.ne_sched he
  rcases hk with he | ⟨hrej, hR, hrel'⟩
  · have he' : e = Err.sched := he
    obtain ⟨hR, hS⟩ := hK he'
    exact ⟨e, mb, hres, by rw [he']; decide, hdef, hR,
      ⟨hS.held, hS.names, hS.nvars, hS.roots, hS.ctx, hS.lastLen⟩⟩
  · exact ⟨e, mb, hres, hrej.ne_signal, hdef, hR,
      ⟨hrel'.held, hrel'.names, hrel'.nvars, hrel'.roots, hrel'.ctx, hrel'.lastLen⟩⟩

/-- `Good3` without the clause on the recorded schedule -/
structure Good3S (m : Mgr) (ext : Nat → Nat) : Prop where
  inv : Inv m
  order : OrderOK m.tbl
  exact : RefExact m ext
  ctx : m.ctx = false
  roots : m.roots = []

theorem Good3.withSchedS {m : Mgr} {ext : Nat → Nat} (h : Good3 m ext) (sch : List SchedItem) :
    Good3S { m with sched := sch } ext :=
  ⟨h.inv.setSched sch, h.order, h.exact.congr rfl rfl, h.ctx, h.roots⟩

theorem Good3S.clear {m : Mgr} {ext : Nat → Nat} (h : Good3S m ext) : Good3 { m with sched := [] } ext :=
  ⟨h.inv.setSched [], h.order, h.exact.congr rfl rfl, h.ctx, rfl, h.roots⟩

theorem Good3S.stepK {ext : Nat → Nat} {m m' : Mgr} (h : Good3S m ext) (hs : StepK m m') : Good3S m' ext :=
  ⟨hs.inv, h.order.frame hs.frame, (hs.keep ext h.exact).1, by rw [hs.frame.ctx]; exact h.ctx,
   by rw [hs.frame.roots]; exact h.roots⟩

/-- what a decorated call with fewer than two variables establishes, any recorded schedule -/
def Few3S (m : Mgr) (ext : Nat → Nat) {α : Type} (res : Except Err α × Mgr) : Prop :=
  Good3S res.2 ext ∧ Held2 ext m res.2 ∧ res.1 ≠ .error .needsReordering ∧
    (res.1 = .error .sched → m.sched ≠ [])

/-- **GENERIC**: the decorator around a body that accepts arbitrary arguments (`TotE`) and does not
answer `.sched` itself, fewer than two variables, whatever the switch, ANY recorded schedule -/
theorem tryToReorder_fewS {α : Type} (ext : Nat → Nat) (f : M α)
    (hbody : ∀ m0 : Mgr, Inv m0 → m0.ctx = true → OrderOK m0.tbl → TotE m0 (f m0))
    (hns : NSc f)
    (m : Mgr) (h : Good3S m ext) (hfew : m.nvars < 2) : Few3S m ext (tryToReorder f m) := by
  have h1 := hbody { m with ctx := true } (h.inv.setCtx true) rfl h.order
  have hn1 := hns { m with ctx := true } rfl
  generalize hres : f { m with ctx := true } = res at h1 hn1
  obtain ⟨r, m1⟩ := res
  have hs' : StepK m { m1 with ctx := m.ctx } := h1.1.ofCtx true
  have held' : Held2 ext m { m1 with ctx := m.ctx } := fun u hu =>
    have hm := h.exact.mem_of_ext_pos hu
    ⟨hs'.ext.mem hm, fun σ => hs'.denN h.inv.wf.toWF hm σ⟩
  cases r with
  | ok a =>
    rw [tryToReorder_ok f m a m1 hres]
    exact ⟨h.stepK hs', held', (fun hh => by cases hh), (fun hh => by cases hh)⟩
  | error e =>
    by_cases he : e = .needsReordering
    · subst he
      have hg := h.stepK hs'
      have hG2 : Good3S { m1 with ctx := m.ctx, lastLen := none } ext :=
        ⟨⟨hg.inv.wf, hg.inv.pred, hg.inv.freeGe, hg.inv.free, hg.inv.refOne, hg.inv.refDom,
          hg.inv.cache⟩, hg.order, hg.exact.congr rfl rfl, hg.ctx, hg.roots⟩
      have hR2 : ReorderInv ext { m1 with ctx := m.ctx, lastLen := none } :=
        ⟨hG2.inv, hG2.order, hG2.exact, Or.inl hG2.ctx, fun r hr => by rw [hG2.roots] at hr; cases hr⟩
      have hn2 : ({ m1 with ctx := m.ctx, lastLen := none } : Mgr).nvars < 2 := by
        show m1.nvars < 2
        have : m1.nvars = m.nvars := hs'.nvars
        omega
      obtain ⟨e, mb, hsift, hne, hsch, hRb, hrel⟩ := sift_few_resultS ext _ hR2 hn2
      rw [tryToReorder_sift_err f m m1 mb e h.ctx hres hsift]
      have hGb : Good3S mb ext :=
        ⟨hRb.inv, hRb.order, hRb.refExact, by rw [hrel.ctx]; exact hG2.ctx,
          by rw [hrel.roots]; exact hG2.roots⟩
      refine ⟨hGb, (fun u hu => ?_), (fun hh => by cases hh; exact hne rfl), (fun hh => ?_)⟩
      · have hx : HeldX ext u := Or.inr hu
        obtain ⟨-, hd1⟩ := held' u hu
        refine ⟨hx.mem hGb.exact, fun σ => ?_⟩
        rw [heldX_denN_of_heldSame hG2.inv hRb.inv hG2.exact hRb.refExact hrel.held hx σ]
        exact hd1 σ
      · have := hsch (by cases hh; rfl)
        show m.sched ≠ []
        have e1 : ({ m1 with ctx := m.ctx, lastLen := none } : Mgr).sched = m.sched := hs'.frame.sched
        rw [← e1]; exact this
    · rw [tryToReorder_err f m e m1 hres he]
      exact ⟨h.stepK hs', held', (fun hh => by cases hh; exact he rfl),
        (fun hh => absurd (by cases hh; rfl) hn1)⟩

/-- the driver's form: the schedule of the line is put in, what is left is dropped -/
theorem tryToReorder_few_recorded {α : Type} (ext : Nat → Nat) (f : M α)
    (hbody : ∀ m0 : Mgr, Inv m0 → m0.ctx = true → OrderOK m0.tbl → TotE m0 (f m0))
    (hns : NSc f)
    (m : Mgr) (h : Good3 m ext) (hfew : m.nvars < 2) (sch : List SchedItem) :
    Few3 m ext (clearSched (tryToReorder f { m with sched := sch })) ∧
    ((tryToReorder f { m with sched := sch }).1 = .error .sched → sch ≠ []) := by
  obtain ⟨hg, hh, hn, hs⟩ := tryToReorder_fewS ext f hbody hns { m with sched := sch } (h.withSchedS sch) hfew
  exact ⟨⟨hg.clear, hh, hn⟩, hs⟩

/-- a call rejected before anything happened -/
theorem few_same {α : Type} {m : Mgr} {ext : Nat → Nat} (h : Good3 m ext) (sch : List SchedItem)
    (r : Except Err α) (hr : r ≠ .error .needsReordering) :
    Few3 m ext (clearSched (r, { m with sched := sch })) :=
  ⟨(h.withSchedS sch).clear, fun u hu => ⟨h.exact.mem_of_ext_pos hu, fun _ => rfl⟩, hr⟩

theorem assertOperatorArity_noNR (op : String) (v w : Option Int) :
    assertOperatorArity op v w ≠ .error .needsReordering := by
  unfold assertOperatorArity
  repeat' split
  all_goals simp

theorem applyEnd_err_noNR {op : String} {u : Int} {v w : Option Int} {m : Mgr} {e : Err}
    (h : applyEnd op u v w m = .err e) : e ≠ .needsReordering := by
  unfold applyEnd at h
  repeat' split at h
  all_goals first
    | (cases h; done)
    | (cases h; intro hs; first
        | (cases hs; done)
        | (subst hs; first
            | exact assertOperatorArity_noNR _ _ _ (by assumption)
            | exact atomVal_noNR _ _ _ _ (by assumption)
            | exact support_noNR _ _ (by assumption)))

theorem few_recorded_of {α : Type} (ext : Nat → Nat) (f : M α) (hs : NSc f)
    (hbody : ∀ m0 : Mgr, Inv m0 → m0.ctx = true → TotE m0 (f m0))
    (m : Mgr) (h : Good3 m ext) (hfew : m.nvars < 2) (sch : List SchedItem) :
    Few3 m ext (clearSched (tryToReorder f { m with sched := sch })) :=
  (tryToReorder_few_recorded ext f (fun m0 hI hc _ => hbody m0 hI hc) hs m h hfew sch).1

/-- `apply` with ANY operator string, arity, operands: fewer than two variables, any schedule -/
theorem apply_few_recorded (ext : Nat → Nat) (m : Mgr) (h : Good3 m ext) (hfew : m.nvars < 2)
    (sch : List SchedItem) (op : String) (u : Int) (v w : Option Int) :
    Few3 m ext (clearSched (apply op u v w { m with sched := sch })) := by
  have e : apply op u v w { m with sched := sch } = match applyEnd op u v w m with
      | .err e => (.error e, { m with sched := sch })
      | .neg => (.ok (-u), { m with sched := sch })
      | .ite a b c => ite a b c { m with sched := sch }
      | .quant b q fa => quantify b q fa { m with sched := sch } := by
    rw [apply_eq_end]
    show (match applyEnd op u v w (setS sch m) with
      | .err e => ((Except.error e : Except Err Int), setS sch m)
      | .neg => (.ok (-u), setS sch m)
      | .ite a b c => ite a b c (setS sch m)
      | .quant b q fa => quantify b q fa (setS sch m)) = _
    rw [applyEnd_setS]
    rfl
  rw [e]
  cases hE : applyEnd op u v w m with
  | err er =>
    exact few_same h sch _ (fun hh => applyEnd_err_noNR hE (by cases hh; rfl))
  | neg => exact few_same h sch _ (fun hh => by cases hh)
  | ite a b c =>
    exact few_recorded_of ext (iteRaw a b c) (iteRaw_ns a b c).toC
      (fun m0 hI _ => iteRaw_totE m0 hI a b c) m h hfew sch
  | quant b q fa =>
    exact few_recorded_of ext _ (quantifyBody_snk b q fa).nsc
      (fun m0 hI hc => quantifyBody_totE m0 hI hc b q fa) m h hfew sch

/-- **every decorated operation of `UOp`, ANY arguments, fewer than two variables, ANY recorded
schedule** (the driver's form): the manager stays good, every held reference keeps its function of
the variable names, the internal signal does not escape -/
theorem decorated_few_recorded (ext : Nat → Nat) (m : Mgr) (h : Good3 m ext) (hfew : m.nvars < 2)
    (sch : List SchedItem) (b : UOp) (hdec : b.decorated = true) :
    Few3 m ext (clearSched (runOp b { m with sched := sch })) := by
  have mr : ∀ {x : Except Err Int × Mgr}, Few3 m ext (clearSched x) →
      Few3 m ext (clearSched (mapRes Res.ref x)) := fun hx => ⟨hx.1, hx.2.1, mapRes_noSignal _ _ hx.2.2⟩
  cases b with
  | var name =>
    refine mr ?_
    rw [var_eq]
    exact few_recorded_of ext _ (varBody_ns name).toC (fun m0 hI _ => varBody_totE m0 hI name) m h hfew sch
  | ite g u v =>
    exact mr (few_recorded_of ext _ (iteRaw_ns g u v).toC (fun m0 hI _ => iteRaw_totE m0 hI g u v) m h hfew sch)
  | apply o u v w => exact mr (apply_few_recorded ext m h hfew sch o u v w)
  | neg u => exact mr (apply_few_recorded ext m h hfew sch "not" u none none)
  | cofactor u values =>
    exact mr (few_recorded_of ext _ (cofactorBody_ns u values).toC
      (fun m0 hI _ => cofactorBody_totE m0 hI u values) m h hfew sch)
  | quantify u qvars fa =>
    exact mr (few_recorded_of ext _ (quantifyBody_snk u qvars fa).nsc
      (fun m0 hI hc => quantifyBody_totE m0 hI hc u qvars fa) m h hfew sch)
  | compose f varSub =>
    exact mr (few_recorded_of ext _ (composeBody_snk f varSub).nsc
      (fun m0 hI hc => composeBody_totE m0 hI hc f varSub) m h hfew sch)
  | rename u dvars =>
    exact mr (few_recorded_of ext _ (renameBody_snk u dvars).nsc
      (fun m0 hI hc => renameBody_totE m0 hI hc u dvars) m h hfew sch)
  | let_ d u =>
    refine mr ?_
    cases d with
    | bools l =>
      cases l with
      | nil => exact few_same h sch _ (fun hh => by cases hh)
      | cons x xs =>
        exact few_recorded_of ext _ (cofactorBody_ns u _).toC
          (fun m0 hI _ => cofactorBody_totE m0 hI u _) m h hfew sch
    | refs l =>
      cases l with
      | nil => exact few_same h sch _ (fun hh => by cases hh)
      | cons x xs =>
        exact few_recorded_of ext _ (composeBody_snk u _).nsc
          (fun m0 hI hc => composeBody_totE m0 hI hc u _) m h hfew sch
    | names l =>
      cases l with
      | nil => exact few_same h sch _ (fun hh => by cases hh)
      | cons x xs =>
        exact few_recorded_of ext _ (renameBody_snk u _).nsc
          (fun m0 hI hc => renameBody_totE m0 hI hc u _) m h hfew sch
  | _ => cases hdec

/-- in the histories with recorded schedules (DDProofs.DynSchedReach): with fewer than two variables
a decorated call with ANY recorded schedule is a good step — no guard is needed, the model's
`.sched` included -/
theorem stepS_few (m : Mgr) (ext : Nat → Nat) (h : Good3 m ext) (hfew : m.nvars < 2) (b : UOp)
    (hdec : b.decorated = true) (s : SchedItem) (sch : List SchedItem) :
    Good3 (runCallS ⟨s :: sch, .op (.base b)⟩ m).2 (ledger3 (.op (.base b)) m ext) ∧
    Held2 ext m (runCallS ⟨s :: sch, .op (.base b)⟩ m).2 ∧
    (runCallS ⟨s :: sch, .op (.base b)⟩ m).1 ≠ .error .needsReordering := by
  show Good3 (clearSched (runOp b { m with sched := s :: sch })).2 (ledger b m ext) ∧
    Held2 ext m (clearSched (runOp b { m with sched := s :: sch })).2 ∧
    (clearSched (runOp b { m with sched := s :: sch })).1 ≠ .error .needsReordering
  rw [ledger_decorated b m ext hdec]
  exact decorated_few_recorded ext m h hfew (s :: sch) b hdec

end DD
