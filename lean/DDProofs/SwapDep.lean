/-
  DDProofs.SwapDep — the third loop of `swap`: every x-node that depends on the lower variable is
  rebuilt from the four cofactors with two `find_or_add`s.  None of the assertions of the Python
  code (`y <= iv`, `y == iv or y == iw`, `q >= 0`, `p != q`, duplicate triple) can fire, and the
  phase invariant `Mid` holds afterwards with the node no longer pending.
-/
import DDProofs.SwapLoops
open Std

namespace DD

/-- with reordering not armed, `find_or_add` is its core -/
theorem findOrAdd_eq_core (m : Mgr) (hoff : m.ctx = false ∨ m.lastLen = none) (i : Nat) (a b : Int) :
    findOrAdd (i : Int) a b m = findOrAddCore i a b m := by
  unfold findOrAdd
  have hnn : ¬ ((i : Int) < 0) := by omega
  rcases hoff with h | h
  · simp [h, hnn]
  · by_cases hc : m.ctx = true
    · simp only [hc, if_true]
      unfold requestReordering
      rw [h]
      simp [hnn]
    · simp [hc, hnn]

/-! ### `_swap_cofactor` in the middle of the swap -/

theorem swapCofactor_mid {m0 m : Mgr} {x : Nat} {pend : Nat → Prop} (hM : Mid m0 m x pend)
    (hx : x + 1 < m0.nvars)
    (hY : ∀ k n, m0.tbl.node? k = some n → n.lvl = x + 1 → ¬ pend k)
    (c : Int) (hc : m0.tbl.Mem c) (hl : x + 1 ≤ m0.tbl.levelOf c) :
    ∃ a b, swapCofactor c (x + 1) m = (.ok (m0.tbl.levelOf c, a, b), m) ∧
      (if c < 0 ∧ x + 1 = m0.tbl.levelOf c then (-a, -b) else (a, b)) = cof m0.tbl (x + 1) c := by
  unfold swapCofactor
  simp only [M.bind_eq, M.get_eq]
  by_cases h1 : c.natAbs = 1
  · have hlt : x + 1 < m.nvars := by rw [hM.nvars]; exact hx
    have hlv : m0.tbl.levelOf c = m.nvars := by rw [levelOf_term _ _ h1, hM.nvars]; rfl
    refine ⟨c, c, by simp [h1, hlt, hlv, M.pure_eq], ?_⟩
    have : ¬ (c < 0 ∧ x + 1 = m0.tbl.levelOf c) := by
      rintro ⟨_, e⟩; rw [hlv] at e; omega
    rw [if_neg this, cof_of_ne _ _ _ (by rw [hlv]; omega)]
  · simp only [h1, if_false]
    rcases hc with hc | hc
    · exact absurd hc h1
    · obtain ⟨n, hn⟩ := Option.isSome_iff_exists.mp hc
      have hlv := levelOf_node m0.tbl c n h1 hn
      rw [hlv] at hl ⊢
      by_cases he : n.lvl = x + 1
      · have hcur : m.tbl.succ[c.natAbs]? = some ⟨x, n.lo, n.hi⟩ := hM.rel.up _ n hn he (hY _ n hn he)
        rw [hcur]
        have hnlt : ¬ (x + 1 < x) := by omega
        refine ⟨n.lo, n.hi, by simp only [M.bind_eq, M.ofOption_some, he, hnlt, if_false, M.pure_eq], ?_⟩
        rw [cof_at m0.tbl (x + 1) c n h1 hn he]
        by_cases hneg : c < 0
        · simp [hneg, he]
        · simp [hneg]
      · have hcur : m.tbl.succ[c.natAbs]? = some n := hM.rel.other _ n hn (by omega) he
        rw [hcur]
        have hlt : x + 1 < n.lvl := by omega
        refine ⟨c, c, by simp only [M.bind_eq, M.ofOption_some, hlt, if_true, M.pure_eq], ?_⟩
        have : ¬ (c < 0 ∧ x + 1 = n.lvl) := by rintro ⟨_, e⟩; omega
        rw [if_neg this, cof_of_ne _ _ _ (by rw [hlv]; exact he)]

/-- the four cofactors the model computes are the cofactors of the old table -/
theorem depCofactors_spec {m0 m : Mgr} {x : Nat} {pend : Nat → Prop} (hI : Inv m0)
    (hM : Mid m0 m x pend) (hx : x + 1 < m0.nvars)
    (hY : ∀ k n, m0.tbl.node? k = some n → n.lvl = x + 1 → ¬ pend k)
    {u : Nat} {n : Nd} (hn : m0.tbl.node? u = some n) (hlx : n.lvl = x)
    (hdep : m0.tbl.levelOf n.lo = x + 1 ∨ m0.tbl.levelOf n.hi = x + 1) :
    depCofactors n.lo n.hi (x + 1) m =
      (.ok ((cof m0.tbl (x + 1) n.lo).1, (cof m0.tbl (x + 1) n.lo).2,
            (cof m0.tbl (x + 1) n.hi).1, (cof m0.tbl (x + 1) n.hi).2), m) := by
  have hW := hI.wf.toWF
  obtain ⟨glo, ghi⟩ := child_lvl_ge hW hn hlx
  obtain ⟨a, b, hv, ev⟩ := swapCofactor_mid hM hx hY n.lo (hW.lo_mem _ _ hn) glo
  obtain ⟨c, d, hw, ew⟩ := swapCofactor_mid hM hx hY n.hi (hW.hi_mem _ _ hn) ghi
  have hpos := hW.hi_pos _ _ hn
  have ew' : (c, d) = cof m0.tbl (x + 1) n.hi := by
    have : ¬ (n.hi < 0 ∧ x + 1 = m0.tbl.levelOf n.hi) := by rintro ⟨h, _⟩; omega
    rw [if_neg this] at ew; exact ew
  unfold depCofactors
  rw [M.bind_ok hv]
  simp only
  rw [M.bind_ok hw]
  simp only
  have c1 : (decide (x + 1 ≤ m0.tbl.levelOf n.lo) && decide (x + 1 ≤ m0.tbl.levelOf n.hi)) = true := by
    simp [glo, ghi]
  have c2 : (decide (x + 1 = m0.tbl.levelOf n.lo) || decide (x + 1 = m0.tbl.levelOf n.hi)) = true := by
    rcases hdep with h | h <;> simp [h]
  simp only [c1, c2, M.bind_eq, M.assert_true, M.pure_eq]
  have e3 : (if (decide (n.lo < 0) && decide (x + 1 = m0.tbl.levelOf n.lo)) = true then (-a, -b) else (a, b)) =
      cof m0.tbl (x + 1) n.lo := by
    rw [← ev]
    by_cases hc : n.lo < 0 ∧ x + 1 = m0.tbl.levelOf n.lo
    · simp [hc.1, hc.2]
    · rw [if_neg hc]
      have : ¬ ((decide (n.lo < 0) && decide (x + 1 = m0.tbl.levelOf n.lo)) = true) := by
        simpa using hc
      rw [if_neg this]
  rw [e3, ← ew']

/-! ### `find_or_add` at the lower level keeps the phase invariant -/

theorem normA_mem {t : Tbl} {a : Int} (b : Int) (ha : t.Mem a) : t.Mem (normA a b) := by
  unfold normA; split
  · exact mem_neg ha
  · exact ha

theorem normB_mem {t : Tbl} {b : Int} (hb : t.Mem b) : t.Mem (normB b) := by
  unfold normB; split
  · exact mem_neg hb
  · exact hb

theorem normA_lvl (t : Tbl) (a b : Int) : t.levelOf (normA a b) = t.levelOf a := by
  unfold normA; split
  · exact levelOf_neg t a
  · rfl

theorem normB_lvl (t : Tbl) (b : Int) : t.levelOf (normB b) = t.levelOf b := by
  unfold normB; split
  · exact levelOf_neg t b
  · rfl

theorem Mid.foa {m0 m : Mgr} {x : Nat} {pend : Nat → Prop} (hI : Inv m0) (hM : Mid m0 m x pend)
    (hx : x + 1 < m0.nvars) (a b : Int) (ha : m0.tbl.Mem a) (hb : m0.tbl.Mem b)
    (la : x + 1 < m0.tbl.levelOf a) (lb : x + 1 < m0.tbl.levelOf b) :
    ∃ r m', findOrAddCore (x + 1) a b m = (.ok r, m') ∧ Mid m0 m' x pend ∧
      Mk m'.tbl (x + 1) a b r ∧
      (∀ k n, m.tbl.node? k = some n → m'.tbl.node? k = some n) ∧
      (∀ k n, m'.tbl.node? k = some n → m.tbl.node? k = some n ∨ k = r.natAbs) := by
  have hW := hI.wf.toWF
  rcases findOrAddCore_struct m (x + 1) a b (by rw [hM.nvars]; exact hx) (hM.mem0 ha) (hM.mem0 hb)
      hM.freeGe hM.free (fun c hc => hM.refMem hc) with
    ⟨hab, hr⟩ | ⟨hab, k, hk, hr⟩ | ⟨hab, hnone, m', hr, hf⟩
  · exact ⟨a, m, hr, hM, Or.inl ⟨hab, rfl⟩, fun _ _ h => h, fun _ _ h => Or.inl h⟩
  · have hnode := ((hM.pred _ k).mp hk).1
    exact ⟨_, m, hr, hM, mk_of_found hab (hM.ge_two hW hnode) hnode, fun _ _ h => h,
      fun _ _ h => Or.inl h⟩
  · have hb0 := mem_ne_zero hW hb
    have hM' := hM.addFresh hf hnone rfl (normA_mem b ha) (normB_mem hb)
      (by rw [normA_lvl]; exact la) (by rw [normB_lvl]; exact lb)
      (by show 0 < normB b; unfold normB; split <;> omega)
      (by show normA a b ≠ normB b; unfold normA normB; split <;> omega)
    have hnode : ∀ k, m'.tbl.node? k =
        if m.minFree = k then some ⟨x + 1, normA a b, normB b⟩ else m.tbl.node? k := by
      intro k; rw [hf.tbl, node?_insert]
    refine ⟨_, m', hr, hM', mk_of_found hab hM.freeGe (by rw [hnode]; simp), ?_, ?_⟩
    · intro k n hk
      rw [hnode]
      have : m.minFree ≠ k := by intro e; rw [← e, hM.free] at hk; cases hk
      simp [this, hk]
    · intro k n hk
      rw [hnode] at hk
      by_cases e : m.minFree = k
      · right
        rw [← e]
        unfold sgn; split <;> omega
      · left; simpa [e] using hk

/-- every stored edge points to a node, also in the middle of the swap -/
theorem Mid.children_mem {m0 m : Mgr} {x : Nat} {pend : Nat → Prop} (hI : Inv m0) (hM : Mid m0 m x pend)
    (hx : x + 1 < m0.nvars) {k : Nat} {n' : Nd} (hk : m.tbl.node? k = some n') :
    m.tbl.Mem n'.lo ∧ m.tbl.Mem n'.hi := by
  have hW := hI.wf.toWF
  by_cases hp : pend k
  · obtain ⟨n, hn0, hn, _⟩ := hM.pend_node hp
    rw [hn] at hk; cases hk
    exact ⟨hM.mem0 (hW.lo_mem _ _ hn0), hM.mem0 (hW.hi_mem _ _ hn0)⟩
  · rcases hM.rel.classify hk hp with ⟨_, _, _, mlo, mhi, _⟩ | ⟨n, hn, hc⟩
    · exact ⟨hM.mem0 mlo, hM.mem0 mhi⟩
    · have mlo := hW.lo_mem _ _ hn
      have mhi := hW.hi_mem _ _ hn
      rcases hc with ⟨_, _, e⟩ | ⟨_, e⟩ | ⟨_, _, _, e⟩ | ⟨h1, _, p, q, e, hp', hq'⟩
      · subst e; exact ⟨hM.mem0 mlo, hM.mem0 mhi⟩
      · subst e; exact ⟨hM.mem0 mlo, hM.mem0 mhi⟩
      · subst e; exact ⟨hM.mem0 mlo, hM.mem0 mhi⟩
      · subst e
        obtain ⟨glo, ghi⟩ := child_lvl_ge hW hn h1
        obtain ⟨mv0, mv1, _⟩ := cof_spec m0.tbl hW (x + 1) n.lo mlo glo hx
        exact ⟨hp'.mem (hM.mem0 mv0), hq'.mem (hM.mem0 mv1)⟩

/-! ### one iteration of the third loop -/

theorem moveDepStep_spec {m0 m : Mgr} {x : Nat} {pend : Nat → Prop} (hI : Inv m0)
    (hoff : m0.ctx = false ∨ m0.lastLen = none) (hM : Mid m0 m x pend) (hx : x + 1 < m0.nvars)
    (hY : ∀ k n, m0.tbl.node? k = some n → n.lvl = x + 1 → ¬ pend k)
    {u : Nat} {n : Nd} (hn : m0.tbl.node? u = some n) (hlx : n.lvl = x)
    (hdep : m0.tbl.levelOf n.lo = x + 1 ∨ m0.tbl.levelOf n.hi = x + 1) (hpu : pend u) :
    ∃ fr m', moveDepStep x (x + 1) u n.lo n.hi m = (.ok fr, m') ∧
      Mid m0 m' x (fun k => pend k ∧ k ≠ u) ∧
      (∀ k nk, nk.lvl = x + 1 → m.tbl.node? k = some nk → m'.tbl.node? k = some nk) ∧
      (∀ r ∈ fr, ∃ nr, m'.tbl.node? r = some nr ∧ nr.lvl = x + 1) ∧
      (∀ ext, RefExact m ext → RefExact m' ext) ∧
      (∀ c nc, c ≠ u → m.tbl.node? c = some nc → m'.tbl.node? c = some nc) ∧
      (∀ k nk, m'.tbl.node? k = some nk → k ≠ u → m.tbl.node? k = some nk ∨
        ∃ cu, m'.tbl.node? u = some cu ∧ (cu.lo.natAbs = k ∨ cu.hi.natAbs = k)) := by
  have hW := hI.wf.toWF
  have hx' : x + 1 < m0.tbl.nvars := hx
  have mlo := hW.lo_mem _ _ hn
  have mhi := hW.hi_mem _ _ hn
  have hpos := hW.hi_pos _ _ hn
  obtain ⟨glo, ghi⟩ := child_lvl_ge hW hn hlx
  have hlo0 : n.lo ≠ 0 := mem_ne_zero hW mlo
  have hhi0 : n.hi ≠ 0 := mem_ne_zero hW mhi
  have hcur : m.tbl.succ[u]? = some n := hM.rel.pending u n hn hpu
  -- the two decrefs
  obtain ⟨ma, hd1, hr1⟩ := decref_frame m n.lo (hM.refMem (hM.mem0 mlo))
  have hMa := hM.refOnly hr1
  obtain ⟨mb, hd2, hr2⟩ := decref_frame ma n.hi (hMa.refMem (hMa.mem0 mhi))
  have hMb := hMa.refOnly hr2
  -- the cofactors
  have hdc := depCofactors_spec hI hMb hx hY hn hlx hdep
  obtain ⟨mv0, mv1, lv0, lv1, _⟩ := cof_spec m0.tbl hW (x + 1) n.lo mlo glo hx'
  obtain ⟨mw0, mw1, lw0, lw1, _⟩ := cof_spec m0.tbl hW (x + 1) n.hi mhi ghi hx'
  -- the two `find_or_add`s
  have hoffb : mb.ctx = false ∨ mb.lastLen = none := by
    rcases hoff with h | h
    · left; rw [← h]; exact hMb.frame.ctx
    · right; rw [← h]; exact hMb.frame.lastLen
  obtain ⟨p, mc, hfp, hMc, hp, hext1, hnew1⟩ := hMb.foa hI hx _ _ mv0 mw0 lv0 lw0
  have hoffc : mc.ctx = false ∨ mc.lastLen = none := by
    rcases hoff with h | h
    · left; rw [← h]; exact hMc.frame.ctx
    · right; rw [← h]; exact hMc.frame.lastLen
  obtain ⟨q, md, hfq, hMd, hq, hext2, hnew2⟩ := hMc.foa hI hx _ _ mv1 mw1 lv1 lw1
  have hp' : Mk md.tbl (x + 1) (cof m0.tbl (x + 1) n.lo).1 (cof m0.tbl (x + 1) n.hi).1 p :=
    hp.mono (fun k nk _ hk => hext2 k nk hk)
  have hqpos : 0 < q := hq.pos (cof_hi_pos m0.tbl hW (x + 1) n.hi hpos)
  have hsame : ∀ c : Int, m0.tbl.Mem c → x + 1 < m0.tbl.levelOf c → md.tbl.levelOf c = m0.tbl.levelOf c :=
    fun c hc hl => hMd.rel.lvl_above hc hl
  have hpq : p ≠ q := dep_p_ne_q hW hx' mlo mhi glo hdep hsame hp' hq
  have mp : md.tbl.Mem p := hp'.mem (hMd.mem0 mv0)
  have mq : md.tbl.Mem q := hq.mem (hMd.mem0 mv1)
  have hcurd : md.tbl.node? u = some n := hMd.rel.pending u n hn hpu
  -- no non-pending node carries the triple `(x, p, q)`
  have hfreshKey : ∀ k, md.tbl.node? k = some (⟨x, p, q⟩ : Nd) → pend k := by
    intro k hk
    apply Classical.byContradiction
    intro hnp
    rcases hMd.rel.classify hk hnp with ⟨_, _, hl', _⟩ | ⟨nk, hnk, hc⟩
    · simp at hl'
    · rcases hc with ⟨h1, _, e⟩ | ⟨h1, e⟩ | ⟨_, _, _, e⟩ | ⟨h1, h2, p', q', e, hp2, hq2⟩
      · rw [← e] at h1; exact h1 rfl
      · -- a node moved up from the lower level: then `p`, `q` are not at the lower level
        simp only [Nd.mk.injEq, true_and] at e
        obtain ⟨ep, eq⟩ := e
        have l1 := hW.lo_lt _ _ hnk
        have l2 := hW.hi_lt _ _ hnk
        have lp : md.tbl.levelOf p ≠ x + 1 := by
          rw [ep, hsame _ (hW.lo_mem _ _ hnk) (by omega)]; omega
        have lq : md.tbl.levelOf q ≠ x + 1 := by
          rw [eq, hsame _ (hW.hi_mem _ _ hnk) (by omega)]; omega
        have e1 : (cof m0.tbl (x + 1) n.lo).1 = (cof m0.tbl (x + 1) n.hi).1 := by
          apply Classical.byContradiction
          intro hne; exact lp (hp'.lvl_eq hne)
        have e2 : (cof m0.tbl (x + 1) n.lo).2 = (cof m0.tbl (x + 1) n.hi).2 := by
          apply Classical.byContradiction
          intro hne; exact lq (hq.lvl_eq hne)
        exact cof_pairs_ne hI.wf hx' mlo mhi glo ghi (hW.lo_ne_hi _ _ hn) ⟨e1, e2⟩
      · simp at e
      · -- another rebuilt node with the same children: it is the same old node
        simp only [Nd.mk.injEq, true_and] at e
        obtain ⟨ep, eq⟩ := e
        subst ep; subst eq
        have mlo' := hW.lo_mem _ _ hnk
        have mhi' := hW.hi_mem _ _ hnk
        obtain ⟨glo', ghi'⟩ := child_lvl_ge hW hnk h1
        obtain ⟨mv0', mv1', lv0', lv1', _⟩ := cof_spec m0.tbl hW (x + 1) nk.lo mlo' glo' hx'
        have a1 := Mk.inj hp' hp2 (by rw [hsame _ mv0 lv0]; omega) (by rw [hsame _ mv0' lv0']; omega)
        have a2 := Mk.inj hq hq2 (by rw [hsame _ mv1 lv1]; omega) (by rw [hsame _ mv1' lv1']; omega)
        have elo : n.lo = nk.lo := cof_inj m0.tbl hI.wf (x + 1) _ _ mlo mlo' glo glo' hx'
          (Prod.ext a1.1 a2.1)
        have ehi : n.hi = nk.hi := cof_inj m0.tbl hI.wf (x + 1) _ _ mhi mhi' ghi ghi' hx'
          (Prod.ext a1.2 a2.2)
        have : nk = n := by
          cases nk; cases n; simp only [Nd.mk.injEq] at *; omega
        subst this
        have := hI.wf.unique _ _ _ hnk hn
        subst this
        exact hnp hpu
  have hmkIns := mk_mono_insert (nd := (⟨x, p, q⟩ : Nd)) hcurd (by omega : n.lvl ≠ x + 1)
  have hrel := hMd.rel.setNode hn ⟨x, p, q⟩ (fun h1 => by omega) (fun _ h2 h3 => by
      rcases hdep with h | h
      · exact absurd h h2
      · exact absurd h h3)
    (fun _ _ => ⟨p, q, rfl, hmkIns _ _ _ hp', hmkIns _ _ _ hq⟩) (Or.inl hlx) (Or.inl hmkIns)
  obtain ⟨me, hset, hme, hMe⟩ := hMd.setNode hpu ⟨x, p, q⟩ hfreshKey hrel
  -- nodes of the lower level persist through `setNode u`
  have hkeep : ∀ k nk, nk.lvl = x + 1 → md.tbl.node? k = some nk → me.tbl.node? k = some nk := by
    intro k nk hl hk
    rw [hme]
    show ({ md.tbl with succ := md.tbl.succ.insert u _ } : Tbl).node? k = some nk
    rw [node?_insert]
    have : u ≠ k := by intro e; subst e; rw [hcurd] at hk; cases hk; omega
    simp [this, hk]
  have hmemE : ∀ {r a b : Int}, Mk md.tbl (x + 1) a b r → md.tbl.Mem a → me.tbl.Mem r := by
    intro r a b hm ha
    have hm' : Mk me.tbl (x + 1) a b r := hm.mono (fun k nk hl hk => hkeep k nk hl hk)
    apply hm'.mem
    rcases ha with h | h
    · exact Or.inl h
    · right
      obtain ⟨na, hna⟩ := Option.isSome_iff_exists.mp h
      rw [hme]
      show (({ md.tbl with succ := md.tbl.succ.insert u _ } : Tbl).node? a.natAbs).isSome
      rw [node?_insert]; split <;> simp [hna]
  -- the two increfs
  obtain ⟨mf, hi3, hr3⟩ := incref_frame me p (hMe.refMem (hmemE hp' (hMd.mem0 mv0)))
  have hMf := hMe.refOnly hr3
  obtain ⟨mg, hi4, hr4⟩ := incref_frame mf q
    (hMf.refMem (by rw [hr3.tbl]; exact hmemE hq (hMd.mem0 mv1)))
  have hMg := hMf.refOnly hr4
  have htb : mb.tbl = m.tbl := hr2.tbl.trans hr1.tbl
  have htg : mg.tbl = me.tbl := hr4.tbl.trans hr3.tbl
  have hnodeE : ∀ k, me.tbl.node? k = if u = k then some (⟨x, p, q⟩ : Nd) else md.tbl.node? k := by
    intro k
    rw [hme]
    show ({ md.tbl with succ := md.tbl.succ.insert u _ } : Tbl).node? k = _
    rw [node?_insert]
  refine ⟨(if md.tbl.levelOf p = x + 1 then [p.natAbs] else []) ++
    (if md.tbl.levelOf q = x + 1 then [q.natAbs] else []), mg, ?_, hMg, ?_, ?_, ?_, ?_, ?_⟩
  · unfold moveDepStep
    rw [M.bind_ok (M.get_eq m)]
    simp only [hcur]
    rw [M.bind_ok (M.ofOption_some _ _ _)]
    simp only [hlx, decide_true, hlo0, hhi0, ne_eq, not_false_eq_true, Bool.and_self]
    rw [M.bind_ok (M.assert_true _ _), M.bind_ok (M.assert_true _ _), M.bind_ok hd1, M.bind_ok hd2,
      M.bind_ok hdc]
    simp only
    have hfp' : findOrAdd ((x + 1 : Nat) : Int) (cof m0.tbl (x + 1) n.lo).1 (cof m0.tbl (x + 1) n.hi).1 mb =
        (.ok p, mc) := by rw [findOrAdd_eq_core _ hoffb]; exact hfp
    have hfq' : findOrAdd ((x + 1 : Nat) : Int) (cof m0.tbl (x + 1) n.lo).2 (cof m0.tbl (x + 1) n.hi).2 mc =
        (.ok q, md) := by rw [findOrAdd_eq_core _ hoffc]; exact hfq
    rw [M.bind_ok hfp', M.bind_ok hfq']
    have hq0 : decide (0 ≤ q) = true := by simp; omega
    have hpq' : (decide ¬ p = q) = true := by simp [hpq]
    rw [hq0, hpq', M.bind_ok (M.assert_true _ _), M.bind_ok (M.assert_true _ _),
      M.bind_ok (lowHighLevel_ok md p mp), M.bind_ok (lowHighLevel_ok md q mq)]
    rw [M.bind_ok hset, M.bind_ok hi3, M.bind_ok hi4]
    rfl
  · intro k nk hl hk
    rw [htg]
    exact hkeep k nk hl (hext2 k nk (hext1 k nk (by rw [htb]; exact hk)))
  · intro r hr
    rw [htg]
    simp only [List.mem_append] at hr
    have key : ∀ c : Int, md.tbl.Mem c → md.tbl.levelOf c = x + 1 → ∃ nr,
        me.tbl.node? c.natAbs = some nr ∧ nr.lvl = x + 1 := by
      intro c hc hl
      have hlt : x + 1 < md.tbl.nvars := by
        have : md.tbl.nvars = m0.tbl.nvars := hMd.rel.nvars
        rw [this]; exact hx
      obtain ⟨_, nr, hnr, hlr⟩ := node_of_level md.tbl c (x + 1) hc hl hlt
      exact ⟨nr, hkeep _ nr hlr hnr, hlr⟩
    rcases hr with hr | hr
    · split at hr
      · next h => rw [List.mem_singleton.mp hr]; exact key p mp h
      · cases hr
    · split at hr
      · next h => rw [List.mem_singleton.mp hr]; exact key q mq h
      · cases hr

  · -- reference counts: exact before, exact after
    intro ext hr
    have hcurN : m.tbl.node? u = some n := hcur
    have hb0 := hr.toBut
    -- decref lo
    have hba : RefBut ma ext (fun k => if k = n.lo.natAbs then 1 else 0) :=
      hb0.decref n.lo (hM.mem0 mlo) (by have := indeg_pos_of_lo hcurN; show 0 + 1 ≤ _; omega) hd1
        (fun k => by simp)
    -- decref hi
    have hbb : RefBut mb ext (fun k => edgeCount n k) := by
      refine hba.decref n.hi (hMa.mem0 mhi) ?_ hd2 (fun k => ?_)
      · have := edgeCount_le_indeg hcurN n.hi.natAbs
        rw [hr1.tbl]
        simp only [edgeCount, if_true] at this
        by_cases e : n.hi.natAbs = n.lo.natAbs
        · simp [e] at this ⊢; omega
        · have e' : ¬ n.lo.natAbs = n.hi.natAbs := fun h => e h.symm
          simp [e, e'] at this ⊢; omega
      · simp only [edgeCount]
        repeat' split
        all_goals omega
    -- the two find_or_adds
    have hfreeN : ∀ {mm : Mgr}, Mid m0 mm x pend → edgeCount n mm.minFree = 0 := by
      intro mm hMM
      have a : mm.minFree ≠ n.lo.natAbs := by
        intro e
        rcases hMM.mem0 mlo with h1 | h1
        · have := hMM.freeGe; omega
        · rw [← e, hMM.free] at h1; simp at h1
      have b : mm.minFree ≠ n.hi.natAbs := by
        intro e
        rcases hMM.mem0 mhi with h1 | h1
        · have := hMM.freeGe; omega
        · rw [← e, hMM.free] at h1; simp at h1
      have a' : ¬ n.lo.natAbs = mm.minFree := fun e => a e.symm
      have b' : ¬ n.hi.natAbs = mm.minFree := fun e => b e.symm
      simp [edgeCount, a', b']
    have hbc : RefBut mc ext (fun k => edgeCount n k) := by
      have := hbb.foa (x + 1) (cof m0.tbl (x + 1) n.lo).1 (cof m0.tbl (x + 1) n.hi).1
        (fun k nk hk => hMb.children_mem hI hx hk) (hfreeN hMb)
      rw [hfp] at this; exact this
    have hbd : RefBut md ext (fun k => edgeCount n k) := by
      have := hbc.foa (x + 1) (cof m0.tbl (x + 1) n.lo).2 (cof m0.tbl (x + 1) n.hi).2
        (fun k nk hk => hMc.children_mem hI hx hk) (hfreeN hMc)
      rw [hfq] at this; exact this
    -- setNode
    have hbe : RefBut me ext (fun k => edgeCount (⟨x, p, q⟩ : Nd) k) :=
      hbd.setNode hcurd ⟨x, p, q⟩ (by rw [hme]) (by rw [hme]) (fun k => by omega)
    -- the two increfs
    have hbf : RefBut mf ext (fun k => if q.natAbs = k then 1 else 0) :=
      hbe.incref p (hmemE hp' (hMd.mem0 mv0)) hi3 (fun k => by
        simp only [edgeCount]
        by_cases e1 : k = p.natAbs
        · simp [e1]; omega
        · have : ¬ p.natAbs = k := fun h => e1 h.symm
          simp [e1, this])
    have hbg : RefBut mg ext (fun _ => 0) :=
      hbf.incref q (by rw [hr3.tbl]; exact hmemE hq (hMd.mem0 mv1)) hi4 (fun k => by
        by_cases e1 : k = q.natAbs
        · simp [e1]
        · have : ¬ q.natAbs = k := fun h => e1 h.symm
          simp [e1, this])
    exact hbg.toExact (fun _ => rfl)

  · intro c nc hcu hc
    rw [htg, hnodeE]
    have : ¬ u = c := fun e => hcu e.symm
    simp only [this, if_false]
    exact hext2 c nc (hext1 c nc (by rw [htb]; exact hc))
  · intro k nk hk hku
    rw [htg, hnodeE] at hk
    have hne : ¬ u = k := fun e => hku e.symm
    simp only [hne, if_false] at hk
    have hu' : mg.tbl.node? u = some (⟨x, p, q⟩ : Nd) := by rw [htg, hnodeE]; simp
    rcases hnew2 k nk hk with h2 | h2
    · rcases hnew1 k nk h2 with h1 | h1
      · left; rw [← htb]; exact h1
      · right; exact ⟨_, hu', Or.inl h1.symm⟩
    · right; exact ⟨_, hu', Or.inr h2.symm⟩

/-! ### the third loop -/

theorem mem_pushNew_or {l : List Nat} {a r : Nat} (h : r ∈ pushNew l a) : r ∈ l ∨ r = a := by
  unfold pushNew at h
  split at h
  · exact Or.inl h
  · rcases List.mem_append.mp h with h | h
    · exact Or.inl h
    · exact Or.inr (List.mem_singleton.mp h)

theorem mem_pushNew_of {l : List Nat} {a r : Nat} (h : r ∈ l ∨ r = a) : r ∈ pushNew l a := by
  unfold pushNew
  split
  · next hc =>
    rcases h with h | rfl
    · exact h
    · simpa using hc
  · rcases h with h | rfl
    · exact List.mem_append_left _ h
    · simp

theorem moveDep_spec {m0 : Mgr} (hI : Inv m0) (hoff : m0.ctx = false ∨ m0.lastLen = none) {x : Nat}
    (hx : x + 1 < m0.nvars) (done L : List Nat)
    (hdone : ∀ k, k ∈ done ↔ (k ∈ L ∧ ¬ IsDep m0.tbl x k)) :
    ∀ (l : List Nat) (m : Mgr) (pend : Nat → Prop), Mid m0 m x pend → l.Nodup → (∀ u ∈ l, u ∈ L) →
    (∀ u ∈ l, ∃ n, m0.tbl.node? u = some n ∧ n.lvl = x) →
    (∀ u ∈ l, IsDep m0.tbl x u → pend u) → (∀ u ∈ l, ¬ IsDep m0.tbl x u → ¬ pend u) →
    (∀ k n, m0.tbl.node? k = some n → n.lvl = x + 1 → ¬ pend k) →
    ∃ g xf m', moveDep x (x + 1) done (l.map (trip m0.tbl)) m = (.ok (g, xf), m') ∧
      Mid m0 m' x (fun k => pend k ∧ k ∉ l) ∧
      (∀ k nk, nk.lvl = x + 1 → m.tbl.node? k = some nk → m'.tbl.node? k = some nk) ∧
      (∀ r ∈ xf, ∃ nr, m'.tbl.node? r = some nr ∧ nr.lvl = x + 1) ∧
      (∀ r ∈ g, ∃ c : Int, m0.tbl.Mem c ∧ x + 1 ≤ m0.tbl.levelOf c ∧ c.natAbs = r) ∧
      (∀ ext, RefExact m ext → RefExact m' ext) ∧
      (∀ u ∈ l, IsDep m0.tbl x u → ∀ n, m0.tbl.node? u = some n → n.lo.natAbs ∈ g ∧ n.hi.natAbs ∈ g) ∧
      (∀ c nc, ¬ pend c → m.tbl.node? c = some nc → m'.tbl.node? c = some nc) ∧
      (∀ k nk, m'.tbl.node? k = some nk → m0.tbl.node? k = none → m.tbl.node? k = some nk ∨
        ∃ c nc, m'.tbl.node? c = some nc ∧ (nc.lo.natAbs = k ∨ nc.hi.natAbs = k)) := by
  have hW := hI.wf.toWF
  intro l
  induction l with
  | nil =>
    intro m pend hM _ _ _ _ _ _
    exact ⟨[], [], m, rfl, hM.congr (fun k => by simp), fun _ _ _ h => h,
      fun _ h => absurd h List.not_mem_nil, fun _ h => absurd h List.not_mem_nil, fun _ h => h,
      fun _ h => absurd h List.not_mem_nil, fun _ _ _ h => h, fun _ _ h _ => Or.inl h⟩
  | cons u rest ih =>
    intro m pend hM hnd hL hl hdp hip hY
    rw [List.nodup_cons] at hnd
    obtain ⟨n, hn, hlx⟩ := hl u List.mem_cons_self
    have ht : trip m0.tbl u = (u, n.lo, n.hi) := by simp [trip, hn]
    have hcont : done.contains u = true ↔ ¬ IsDep m0.tbl x u := by
      rw [List.contains_iff_mem, hdone]
      exact ⟨fun h => h.2, fun h => ⟨hL u List.mem_cons_self, h⟩⟩
    simp only [List.map_cons, ht]
    rw [moveDep]
    by_cases hdep : IsDep m0.tbl x u
    · -- rebuilt
      have hc : ¬ (done.contains u = true) := fun h => hcont.mp h hdep
      rw [if_neg hc]
      obtain ⟨n', hn', _, hd'⟩ := hdep
      rw [hn] at hn'; cases hn'
      have hpu := hdp u List.mem_cons_self ⟨n, hn, hlx, hd'⟩
      obtain ⟨fr, m1, hstep, hM1, hkeep1, hfr, hR1, hpers1, hnew1⟩ :=
        moveDepStep_spec hI hoff hM hx hY hn hlx hd' hpu
      obtain ⟨g, xf, m', hrun, hM', hkeep', hxf, hg, hR', hgc', hpers', hnew'⟩ :=
        ih m1 (fun k => pend k ∧ k ≠ u) hM1 hnd.2
        (fun k hk => hL k (List.mem_cons_of_mem _ hk))
        (fun k hk => hl k (List.mem_cons_of_mem _ hk))
        (fun k hk hd => ⟨hdp k (List.mem_cons_of_mem _ hk) hd, fun e => hnd.1 (e ▸ hk)⟩)
        (fun k hk hd hp => hip k (List.mem_cons_of_mem _ hk) hd hp.1)
        (fun k nk hnk h1 hp => hY k nk hnk h1 hp.1)
      refine ⟨pushNew (pushNew g n.lo.natAbs) n.hi.natAbs, fr ++ xf, m', ?_,
        hM'.congr (fun k => by simp only [List.mem_cons, not_or, and_assoc, ne_eq]), ?_, ?_, ?_,
        fun ext hr => hR' ext (hR1 ext hr), ?_, ?_, ?_⟩
      · rw [M.bind_ok hstep, M.bind_ok hrun]; rfl
      · intro k nk h1 hk; exact hkeep' k nk h1 (hkeep1 k nk h1 hk)
      · intro r hr
        rcases List.mem_append.mp hr with hr | hr
        · obtain ⟨nr, hnr, hlr⟩ := hfr r hr
          exact ⟨nr, hkeep' r nr hlr hnr, hlr⟩
        · exact hxf r hr
      · intro r hr
        obtain ⟨glo, ghi⟩ := child_lvl_ge hW hn hlx
        rcases mem_pushNew_or hr with hr | rfl
        · rcases mem_pushNew_or hr with hr | rfl
          · exact hg r hr
          · exact ⟨n.lo, hW.lo_mem _ _ hn, glo, rfl⟩
        · exact ⟨n.hi, hW.hi_mem _ _ hn, ghi, rfl⟩
      · intro k hk hdk nk hnk
        rcases List.mem_cons.mp hk with rfl | hk
        · rw [hn] at hnk; cases hnk
          exact ⟨mem_pushNew_of (Or.inl (mem_pushNew_of (Or.inr rfl))), mem_pushNew_of (Or.inr rfl)⟩
        · obtain ⟨a, b⟩ := hgc' k hk hdk nk hnk
          exact ⟨mem_pushNew_of (Or.inl (mem_pushNew_of (Or.inl a))),
            mem_pushNew_of (Or.inl (mem_pushNew_of (Or.inl b)))⟩
      · intro c nc hpc hc
        have hcu : c ≠ u := fun e => hpc (e ▸ hpu)
        exact hpers' c nc (fun hh => hpc hh.1) (hpers1 c nc hcu hc)
      · intro k nk hk h0
        have hku : k ≠ u := by intro e; subst e; rw [hn] at h0; cases h0
        rcases hnew' k nk hk h0 with h1 | h1
        · rcases hnew1 k nk h1 hku with h2 | ⟨cu, hcu, hch⟩
          · exact Or.inl h2
          · right
            exact ⟨u, cu, hpers' u cu (fun hh => hh.2 rfl) hcu, hch⟩
        · exact Or.inr h1
    · -- relabelled by the second loop: skipped
      rw [if_pos (hcont.mpr hdep)]
      have hnp := hip u List.mem_cons_self hdep
      obtain ⟨g, xf, m', hrun, hM', hkeep', hxf, hg, hR', hgc', hpers', hnew'⟩ := ih m pend hM hnd.2
        (fun k hk => hL k (List.mem_cons_of_mem _ hk))
        (fun k hk => hl k (List.mem_cons_of_mem _ hk))
        (fun k hk hd => hdp k (List.mem_cons_of_mem _ hk) hd)
        (fun k hk hd => hip k (List.mem_cons_of_mem _ hk) hd) hY
      refine ⟨g, xf, m', hrun, hM'.congr ?_, hkeep', hxf, hg, hR', ?_, hpers', hnew'⟩
      · intro k
        simp only [List.mem_cons, not_or]
        constructor
        · rintro ⟨a, b⟩
          exact ⟨a, fun e => hnp (e ▸ a), b⟩
        · rintro ⟨a, _, b⟩
          exact ⟨a, b⟩
      · intro k hk hdk nk hnk
        rcases List.mem_cons.mp hk with rfl | hk
        · exact absurd hdk hdep
        · exact hgc' k hk hdk nk hnk

/-! ### all five loops -/

/-- **The node surgery of `swap` succeeds and ends with nothing pending.**  For every iteration
order of the two levels: no `KeyError`, no `AssertionError`; the resulting table is related to
the old one by `SwapRel` with no pending node, the unique table is in sync with ALL nodes again. -/
theorem swapNodes_spec (m : Mgr) (hI : Inv m) (hoff : m.ctx = false ∨ m.lastLen = none) (x : Nat)
    (hx : x + 1 < m.nvars) (ox oy : List Nat) (hox : LevelOrder m.tbl x ox)
    (hoy : LevelOrder m.tbl (x + 1) oy) :
    ∃ g xf m', swapNodes x (x + 1) ox oy m =
        (.ok (ox.map (trip m.tbl), oy.map (trip m.tbl), g, xf), m') ∧
      Mid m m' x (fun _ => False) ∧
      (∀ r ∈ xf, ∃ nr, m'.tbl.node? r = some nr ∧ nr.lvl = x + 1) ∧
      (∀ r ∈ g, ∃ c : Int, m.tbl.Mem c ∧ x + 1 ≤ m.tbl.levelOf c ∧ c.natAbs = r) ∧
      (∀ ext, RefExact m ext → RefExact m' ext) ∧
      (∀ u n, IsDep m.tbl x u → m.tbl.node? u = some n → n.lo.natAbs ∈ g ∧ n.hi.natAbs ∈ g) ∧
      (∀ k nk, m'.tbl.node? k = some nk → m.tbl.node? k = none →
        ∃ c nc, m'.tbl.node? c = some nc ∧ (nc.lo.natAbs = k ∨ nc.hi.natAbs = k)) := by
  obtain ⟨m1, m2, hp1, hp2, ht2, hr2, hM2⟩ := popLevels_spec m hI x ox oy hox hoy
  have hlvl : ∀ u, u ∈ ox → u ∈ oy → False := by
    intro u h1 h2
    obtain ⟨n, hn, hl⟩ := (hox.mem u).mp h1
    obtain ⟨n', hn', hl'⟩ := (hoy.mem u).mp h2
    rw [hn] at hn'; cases hn'; omega
  obtain ⟨m3, hup, hM3, hF3, hR3⟩ := moveUp_spec m hI x oy m2 _ hM2 hoy.nodup
    (fun u hu => by
      obtain ⟨n, hn, hl⟩ := (hoy.mem u).mp hu
      exact ⟨⟨n, hn, Or.inr hl⟩, n, hn, hl⟩)
    (fun k n hn hl => ⟨n, hn, Or.inl hl⟩)
    (fun k hk => by rw [ht2]; exact hk)
  obtain ⟨done, m4, hind, hdone, hM4, hF4, hR4⟩ := moveIndep_spec m hI x hx ox m3 _ hM3 hox.nodup
    (fun u hu => by
      obtain ⟨n, hn, hl⟩ := (hox.mem u).mp hu
      exact ⟨⟨⟨n, hn, Or.inl hl⟩, fun h => hlvl u hu h⟩, n, hn, hl⟩)
    (fun k n hn hl hp => hp.2 ((hoy.mem k).mpr ⟨n, hn, hl⟩)) hF3
  obtain ⟨g, xf, m5, hdp, hM5, _, hxf, hg, hR5, hgc5, _, hnew5⟩ := moveDep_spec hI hoff hx done ox hdone ox m4 _ hM4
    hox.nodup (fun _ h => h) (fun u hu => (hox.mem u).mp hu)
    (fun u hu hd => by
      obtain ⟨n, hn, hl⟩ := (hox.mem u).mp hu
      exact ⟨⟨⟨n, hn, Or.inl hl⟩, fun h => hlvl u hu h⟩, fun h => h.2 hd⟩)
    (fun u hu hd hp => hp.2 ⟨hu, hd⟩)
    (fun k n hn hl hp => hp.1.2 ((hoy.mem k).mpr ⟨n, hn, hl⟩))
  refine ⟨g, xf, m5, ?_, hM5.congr ?_, hxf, hg,
    fun ext hr => hR5 ext (hR4 ext (hR3 ext (hr.congr ht2 hr2))), ?_, ?_⟩
  rotate_left 2
  · intro u n hd hn
    have hd' := hd
    obtain ⟨n', hn', hl', _⟩ := hd'
    exact hgc5 u ((hox.mem u).mpr ⟨n', hn', hl'⟩) hd n hn
  · intro k nk hk h0
    rcases hnew5 k nk hk h0 with h1 | h1
    · rw [hF4 k h0] at h1; cases h1
    · exact h1
  · unfold swapNodes
    rw [M.bind_ok hp1, M.bind_ok hp2, M.bind_ok hup, M.bind_ok hind, M.bind_ok hdp]
    rfl
  · intro k
    constructor
    · rintro ⟨⟨⟨⟨n, hn, hl⟩, h2⟩, _⟩, h4⟩
      rcases hl with hl | hl
      · exact h4 ((hox.mem k).mpr ⟨n, hn, hl⟩)
      · exact h2 ((hoy.mem k).mpr ⟨n, hn, hl⟩)
    · intro h; exact h.elim

end DD
