/-
  DDProofs.Reach4Order — two more calls with ARBITRARY arguments, as steps of a history:

  * `reorder_to_pairs(bdd, pairs)` — any dictionary: an undeclared name is a `ValueError`, a
    variable paired with itself an `AssertionError` (`if k <= 0: raise AssertionError`), both
    possibly after some pairs were already made adjacent;
  * `collect_garbage(roots)` — any `roots`: an integer that is not a node is a `KeyError` raised
    while the worklist is computed, before anything is touched.

  As in DDProofs.Reach2Order the statements are generic in the contract `SwapOK E P R`.
-/
import DDProofs.Reach2Order
import DDProofs.GcSched
open Std

namespace DD

/-! ### outcomes: as `KeepOr`, with the set of admissible exceptions a parameter -/

/-- the call ended with an exception in `E`, or — returned, or raised one of `Rj` — in a state
satisfying `Q` -/
def KeepG {α} (E Rj : Err → Prop) (Q : Mgr → Prop) : Except Err α × Mgr → Prop
  | (.ok _, m') => Q m'
  | (.error e, m') => E e ∨ (Rj e ∧ Q m')

theorem KeepG.of_okOr {α} {E Rj : Err → Prop} {Q : α → Mgr → Prop} {Q' : Mgr → Prop}
    {r : Except Err α × Mgr} (h : OkOr E Q r) (hq : ∀ a m', Q a m' → Q' m') : KeepG E Rj Q' r := by
  obtain ⟨r, m'⟩ := r
  cases r with
  | ok a => exact hq a m' h
  | error e => exact Or.inl h

theorem KeepG.mono {α} {E Rj : Err → Prop} {Q Q' : Mgr → Prop} {r : Except Err α × Mgr}
    (h : KeepG E Rj Q r) (hq : ∀ m', Q m' → Q' m') : KeepG E Rj Q' r := by
  obtain ⟨r, m'⟩ := r
  cases r with
  | ok a => exact hq m' h
  | error e => exact h.imp id (fun ⟨a, b⟩ => ⟨a, hq m' b⟩)

theorem KeepG.err {α} {E Rj : Err → Prop} {Q : Mgr → Prop} {e : Err} {m' : Mgr} (he : Rj e)
    (hq : Q m') : KeepG E Rj Q ((.error e, m') : Except Err α × Mgr) := Or.inr ⟨he, hq⟩

theorem KeepG.bind {α β} {E Rj : Err → Prop} {x : M α} {f : α → M β} {m : Mgr} {Q Q' : Mgr → Prop}
    (hx : KeepG E Rj Q (x m)) (hq : ∀ m1, Q m1 → Q' m1)
    (hf : ∀ a m1, x m = (.ok a, m1) → Q m1 → KeepG E Rj Q' (f a m1)) :
    KeepG E Rj Q' ((x >>= f) m) := by
  rw [M.bind_eq]
  generalize hres : x m = r at hx
  obtain ⟨r, m1⟩ := r
  cases r with
  | ok a => exact hf a m1 hres hx
  | error e => exact hx.imp id (fun ⟨a, b⟩ => ⟨a, hq m1 b⟩)

/-- when the answer is not the schedule report: the state satisfies `Q`, and an exception is in `Rj` -/
theorem KeepG.sched {α} {Rj : Err → Prop} {Q : Mgr → Prop} {r : Except Err α × Mgr}
    (h : KeepG SchedErr Rj Q r) (hne : r.1 ≠ .error .sched) :
    Q r.2 ∧ ∀ e, r.1 = .error e → Rj e := by
  obtain ⟨r, m'⟩ := r
  cases r with
  | ok a => exact ⟨h, fun e he => by cases he⟩
  | error e =>
    rcases h with h | ⟨h1, h2⟩
    · exact absurd (by rw [show e = Err.sched from h]) hne
    · exact ⟨h2, fun e' he => by cases he; exact h1⟩

/-- with no exception of the model allowed -/
theorem KeepG.total {α} {Rj : Err → Prop} {Q : Mgr → Prop} {r : Except Err α × Mgr}
    (h : KeepG NoErr Rj Q r) : Q r.2 ∧ ∀ e, r.1 = .error e → Rj e := by
  obtain ⟨r, m'⟩ := r
  cases r with
  | ok a => exact ⟨h, fun e he => by cases he⟩
  | error e =>
    rcases h with h | ⟨h1, h2⟩
    · exact h.elim
    · exact ⟨h2, fun e' he => by cases he; exact h1⟩

/-! ### `reorder_to_pairs` with ANY dictionary -/

/-- the exceptions of a refused `reorder_to_pairs`: `ValueError` (undeclared name),
`AssertionError` (a variable paired with itself) -/
def PairErr (e : Err) : Prop := e = .value ∨ e = .assertion

theorem PairErr.ne_sched {e : Err} (h : PairErr e) : e ≠ .sched := by
  rcases h with rfl | rfl <;> decide

theorem PairErr.ne_signal {e : Err} (h : PairErr e) : e ≠ .needsReordering := by
  rcases h with rfl | rfl <;> decide

section Abs
variable {E : Err → Prop} {P : Mgr → Prop} {R : Mgr → Mgr → Prop}

theorem levelOfVar_cases (v : String) (m : Mgr) :
    (∃ i, m.tbl.vars[v]? = some i ∧ levelOfVar v m = (.ok i, m)) ∨
    levelOfVar v m = (.error .value, m) := by
  cases h : m.tbl.vars[v]? with
  | some i => exact Or.inl ⟨i, rfl, levelOfVar_ok m v i h⟩
  | none =>
    right
    unfold levelOfVar
    simp only [M.bind_eq, M.get_eq, h, M.ofOption_none]

/-- one pair, any two strings -/
theorem pairStep_keep (S : SwapOK E P R) (m : Mgr) (hP : P m) (x y : String) :
    KeepG E PairErr (fun m' => P m' ∧ R m m') (pairStep x y m) := by
  have hO := S.vars m hP
  have here : P m ∧ R m m := ⟨hP, S.refl m⟩
  unfold pairStep
  rcases levelOfVar_cases x m with ⟨jx, hjx, hx⟩ | hx
  · rw [M.bind_ok hx]
    rcases levelOfVar_cases y m with ⟨jy, hjy, hy⟩ | hy
    · rw [M.bind_ok hy]
      have hlx : jx < m.nvars := hO.lt x jx hjx
      have hly : jy < m.nvars := hO.lt y jy hjy
      by_cases hk : 0 < (if jx ≤ jy then jy - jx else jx - jy)
      · simp only [hk, decide_true, M.assert_true, M.bind_eq]
        by_cases h1 : (if jx ≤ jy then jy - jx else jx - jy) ≠ 1
        · simp only [h1, ne_eq, not_false_eq_true, if_true]
          by_cases hgt : jx > jy
          · simp only [hgt, if_true]
            refine KeepG.of_okOr (Q := fun _ m' => P m' ∧ R m m')
              (OkOr.bind (shift_order S m hP jy (jx - 1) hly (by omega)) ?_) (fun _ _ hq => hq)
            intro _ m' hp
            exact ⟨hp.1, hp.2.1⟩
          · simp only [hgt, if_false]
            refine KeepG.of_okOr (Q := fun _ m' => P m' ∧ R m m')
              (OkOr.bind (shift_order S m hP jx (jy - 1) hlx (by omega)) ?_) (fun _ _ hq => hq)
            intro _ m' hp
            exact ⟨hp.1, hp.2.1⟩
        · simp only [h1, if_false]
          exact here
      · simp only [hk, decide_false, M.assert_false, M.bind_eq]
        exact KeepG.err (Or.inr rfl) here
    · rw [M.bind_err hy]
      exact KeepG.err (Or.inl rfl) here
  · rw [M.bind_err hx]
    exact KeepG.err (Or.inl rfl) here

/-- **`reorder_to_pairs(bdd, pairs)` with ANY `pairs`**: returned or raised, after however many
shifts, the state satisfies `P` and is `R`-related to the state of the call -/
theorem reorderToPairs_keep (S : SwapOK E P R) :
    ∀ (pairs : List (String × String)) (m : Mgr), P m →
    KeepG E PairErr (fun m' => P m' ∧ R m m') (reorderToPairs pairs m) := by
  intro pairs
  induction pairs with
  | nil => intro m hP; exact ⟨hP, S.refl m⟩
  | cons p rest ih =>
    intro m hP
    obtain ⟨x, y⟩ := p
    unfold reorderToPairs
    refine KeepG.bind (pairStep_keep S m hP x y) (fun _ h => h) ?_
    intro _ m1 _ ⟨hP1, hR1⟩
    exact (ih m1 hP1).mono (fun m2 ⟨hP2, hR2⟩ => ⟨hP2, S.trans _ _ _ hR1 hR2⟩)

end Abs

/-! ### `collect_garbage(roots)` with ANY roots -/

theorem refOf_read (u : Int) (m : Mgr) : (refOf u m).2 = m := by
  unfold refOf; split <;> rfl

/-- the worklist is computed without touching the manager; it fails (`KeyError`) exactly when
some root is not a key of `_ref` -/
theorem unusedOf_cases : ∀ (rs : List Int) (m : Mgr),
    ((∀ r ∈ rs, (m.ref[r.natAbs]?).isSome) ∧ ∃ l, unusedOf rs m = (.ok l, m)) ∨
    ((∃ r ∈ rs, m.ref[r.natAbs]? = none) ∧ unusedOf rs m = (.error .key, m)) := by
  intro rs
  induction rs with
  | nil => intro m; exact Or.inl ⟨(fun _ h => by cases h), [], rfl⟩
  | cons u rest ih =>
    intro m
    unfold unusedOf
    cases hu : m.ref[u.natAbs]? with
    | none =>
      right
      refine ⟨⟨u, List.mem_cons_self, hu⟩, ?_⟩
      have : refOf u m = (.error .key, m) := by unfold refOf; rw [hu]
      rw [M.bind_err this]
    | some c =>
      have hr : refOf u m = (.ok c, m) := by unfold refOf; rw [hu]
      rw [M.bind_ok hr]
      rcases ih m with ⟨hall, l, hl⟩ | ⟨⟨r, hr1, hr2⟩, he⟩
      · left
        refine ⟨?_, ?_⟩
        · intro r hr'
          rcases List.mem_cons.mp hr' with rfl | h
          · rw [hu]; rfl
          · exact hall r h
        · rw [M.bind_ok hl]
          by_cases hc : (c = 0 && u.natAbs ≠ 1) = true
          · exact ⟨_, by simp only [hc, if_true]; rfl⟩
          · exact ⟨_, by simp only [hc, if_false]; rfl⟩
      · right
        exact ⟨⟨r, List.mem_cons_of_mem _ hr1, hr2⟩, by rw [M.bind_err he]⟩

/-- **`collect_garbage(roots)`, ANY roots**: with every root a node the call returns normally
(`GcPost`); otherwise `KeyError`, nothing changed -/
theorem collectGarbage_rooted_cases (rs : List Int) (m : Mgr) (ext : Nat → Nat) (hi : Inv m)
    (hr : RefExact m ext) :
    (∃ m', collectGarbage (some rs) m = (.ok (), m') ∧ GcPost m ext (gcStart (some rs) m) m') ∨
    collectGarbage (some rs) m = (.error .key, m) := by
  rcases unusedOf_cases rs m with ⟨hall, -⟩ | ⟨-, he⟩
  · exact Or.inl (collectGarbage_rooted_spec (some rs) m ext hi hr hall)
  · right
    rw [collectGarbage_eq]
    show gcBody rs m = _
    unfold gcBody
    rw [he]

end DD
