/-
  DDProofs.AutoCopyVars — `copy_vars(source, target)` for a target WITHOUT nodes whose
  declarations are compatible with the source (an empty target in particular): from
  `copyVarsCore_spec` (C11) the target ends with exactly the source's order; with no node stored
  the manager invariant, the order invariant and the (trivial) denotations are immediate.
  With nodes in the target the levels written by `copy_vars` can leave a gap or move a used
  level (finding F7); compatible declarations (`VarsCompat`): `copyVars_keepsAt_compat`, nodes or not.
-/
import DDProofs.AutoCore
import DDProofs.CopyVars
import DDProofs.SmallCopyVars
open Std

namespace DD

theorem addVar_keeps_sched (m : Mgr) (name : String) (level : Option Int) :
    (addVar name level m).2.sched = m.sched := by
  cases hex : m.tbl.vars[name]? with
  | some vl =>
    cases level with
    | none => simp [addVar, bind, M.bind', M.get, hex, pure, M.pure']
    | some l =>
      by_cases hl : l = vl
      · simp [addVar, bind, M.bind', M.get, hex, pure, M.pure', hl]
      · simp [addVar, bind, M.bind', M.get, hex, hl, M.throw]
  | none =>
    by_cases hneg : level.getD (m.nvars : Int) < 0
    · simp [addVar, bind, M.bind', M.get, hex, hneg, M.throw]
    · cases hl : m.tbl.l2v[(level.getD (m.nvars : Int)).toNat]? with
      | some o => simp [addVar, bind, M.bind', M.get, hex, hneg, hl, M.throw]
      | none => simp [addVar, bind, M.bind', M.get, hex, hneg, hl, M.set, pure, M.pure']

/-- a computation that leaves the recorded schedule alone -/
def SK {α : Type} (x : M α) : Prop := ∀ m, (x m).2.sched = m.sched

theorem SK.pure' {α : Type} (v : α) : SK (M.pure' v) := fun _ => rfl

theorem SK.bind' {α β : Type} {x : M α} {f : α → M β} (hx : SK x) (hf : ∀ v, SK (f v)) :
    SK (M.bind' x f) := by
  intro m
  unfold M.bind'
  have h1 := hx m
  generalize x m = res at h1 ⊢
  obtain ⟨r, m1⟩ := res
  cases r with
  | error e => exact h1
  | ok v => simp only; rw [← h1]; exact hf v m1

theorem copyVarStep_sk (src : Tbl) (v : String) : SK (copyVarStep src v) := by
  intro m
  unfold copyVarStep
  cases src.vars[v]? with
  | none => rfl
  | some l =>
    simp only
    have := addVar_keeps_sched m v (some (l : Int))
    generalize addVar v (some (l : Int)) m = res at this ⊢
    obtain ⟨r, m1⟩ := res
    cases r <;> exact this

theorem copyVarsLoop_sk (src : Tbl) : ∀ (names : List String),
    SK (forIn names PUnit.unit fun v (_ : PUnit) =>
      (copyVarStep src v).bind' fun _ => M.pure' (ForInStep.yield PUnit.unit))
  | [] => fun _ => rfl
  | v :: rest => by
    rw [List.forIn_cons]
    refine SK.bind' (SK.bind' (copyVarStep_sk src v) fun _ => SK.pure' _) fun s => ?_
    cases s with
    | done b => exact SK.pure' b
    | yield b => exact copyVarsLoop_sk src rest

theorem copyVarsCore_keeps_sched (src : Tbl) (names : List String) (hperm : names.Perm src.vars.keys)
    (m : Mgr) : (copyVarsCore src names m).2.sched = m.sched := by
  unfold copyVarsCore
  have hguard : (!(names.length == src.vars.keys.length &&
      names.all (src.vars.keys.contains ·))) = false := by
    have h1 : names.length = src.vars.keys.length := hperm.length_eq
    have h2 : names.all (src.vars.keys.contains ·) = true := by
      rw [List.all_eq_true]
      intro v hv
      simpa using (hperm.mem_iff).mp hv
    simp only [h1, beq_self_eq_true, Bool.true_and, h2, Bool.not_true]
  simp only [bind, pure, hguard, Bool.false_eq_true, if_false]
  exact SK.bind' (copyVarsLoop_sk src names) (fun _ => SK.pure' _) m

/-- `copy_vars` into a target without nodes, compatible declarations: every mode -/
theorem copyVars_keepsAt_noNodes {off : Bool} (src : Tbl) (hO : OrderOK src) (names : List String)
    (hperm : names.Perm src.vars.keys) (m : Mgr) (hc : VarsCompat src m.tbl)
    (hnone : ∀ u : Nat, m.tbl.node? u = none) :
    CoreKeepsAt off m (copyVarsCore src names) := by
  intro ext hm r m' he
  obtain ⟨m2, hrun, hv, hl, c1, c2, c3, c4, c5, c6, c7, c8⟩ := copyVarsCore_spec src hO names hperm m hc
  have hs : m2.sched = m.sched := by
    have := copyVarsCore_keeps_sched src names hperm m
    rw [hrun] at this; exact this
  rw [hrun] at he
  cases he
  have hnv : m'.tbl.nvars = src.nvars := by
    unfold Tbl.nvars
    exact (TreeMap.Equiv.of_forall_constGet?_eq hv).size_eq
  have hnone' : ∀ u : Nat, m'.tbl.node? u = none := fun u => by
    show m'.tbl.succ[u]? = none
    rw [c1]; exact hnone u
  have hO' : OrderOK m'.tbl :=
    ⟨fun v i => by rw [hv, hl]; exact hO.inv v i, fun v i h => by rw [hnv]; rw [hv] at h; exact hO.lt v i h,
     fun i hi => by rw [hnv] at hi; rw [hl]; exact hO.total i hi⟩
  have hI' : Inv m' := by
    refine ⟨⟨⟨?_, ?_, ?_, ?_, ?_, ?_, ?_, ?_⟩, ?_⟩, ?_, ?_, ?_, ?_, ?_, ?_⟩
    all_goals first
      | (intro u n hn; rw [hnone' u] at hn; cases hn)
      | (intro u u' n hn; rw [hnone' u] at hn; cases hn)
      | skip
    · intro n u
      rw [c3, hnone' u]
      have := hm.inv.pred n u
      rw [hnone u] at this
      exact this
    · rw [c5]; exact hm.inv.freeGe
    · exact hnone' _
    · rw [c2]; exact hm.inv.refOne
    · intro g u v w hcache
      rw [c4] at hcache
      have e := hm.inv.cache g u v w hcache
      rcases e.mg with h1 | h1
      · exact absurd h1 e.gnt
      · rw [hnone g.natAbs] at h1; cases h1
  have hR' : RefExact m' ext := hm.counts.congr_nodes_auto (fun k => by rw [hnone' k, hnone k]) c2
  refine ⟨⟨hI', hO', hR', by rw [c7]; exact hm.ctx, by rw [hs]; exact hm.sched,
    by rw [c8]; exact hm.roots, fun ho => by rw [c6]; exact hm.mode ho⟩, ?_⟩
  -- only the terminal is a node
  intro u hu _
  have h1 : u.natAbs = 1 := by
    rcases hu with h | h
    · exact h
    · rw [hnone u.natAbs] at h; cases h
  refine ⟨Or.inl h1, fun σ => ?_⟩
  rcases abs_one h1 with rfl | rfl
  · unfold denN; rw [den_one, den_one]
  · unfold denN; rw [den_neg_one, den_neg_one]

/-- `copy_vars(source, target)`: the source satisfies the invariant, the target `a` has no node
and compatible declarations (e.g. it is fresh) -/
theorem aCopyVars_keepsAt_noNodes {off : Bool} (a : AMgr) (src : Tbl) (hO : OrderOK src)
    (names : List String) (hperm : names.Perm src.vars.keys) (hc : VarsCompat src a.m.tbl)
    (hnone : ∀ u : Nat, a.m.tbl.node? u = none) (h : Nat) :
    AKeepsAt off a h (aCopyVars src names) :=
  aCopyVars_keepsAt a src names (copyVars_keepsAt_noNodes src hO names hperm a.m hc hnone) h

/-- `copy_vars` into ANY target whose declarations are compatible with the source (the target may
store nodes): every mode.  From `copyVarsCore_spec` / `copyVarsCore_inv` (C11 `C11_copy_vars`): the
manager invariant, the order invariant and exact counts of the target are kept, and so is the
meaning BY NAME of every stored node (the levels below the old number of variables keep their
names). -/
theorem copyVars_keepsAt_compat {off : Bool} (src : Tbl) (hO : OrderOK src) (names : List String)
    (hperm : names.Perm src.vars.keys) (m : Mgr) (hc : VarsCompat src m.tbl) :
    CoreKeepsAt off m (copyVarsCore src names) := by
  intro ext hm r m' he
  obtain ⟨m2, hrun, hv, hl, c1, c2, c3, c4, c5, c6, c7, c8⟩ := copyVarsCore_spec src hO names hperm m hc
  obtain ⟨m3, hrun3, ho, _, _, hinv, hre⟩ := copyVarsCore_inv src hO names hperm m hc
  rw [hrun] at hrun3; cases hrun3
  have hs : m2.sched = m.sched := by
    have := copyVarsCore_keeps_sched src names hperm m
    rw [hrun] at this; exact this
  rw [hrun] at he
  cases he
  obtain ⟨hI', hden⟩ := hinv hm.inv
  refine ⟨⟨hI', ho, hre ext hm.counts, by rw [c7]; exact hm.ctx, by rw [hs]; exact hm.sched,
    by rw [c8]; exact hm.roots, fun h => by rw [c6]; exact hm.mode h⟩, fun u hu _ => ?_⟩
  obtain ⟨hm', hd⟩ := hden u hu
  refine ⟨hm', fun σ => ?_⟩
  show den m'.tbl u (m'.tbl.lift σ) = den m.tbl u (m.tbl.lift σ)
  rw [hd]
  refine den_agree_ge m.tbl hm.inv.wf.toWF u hu _ _ (fun i _ hi => ?_)
  -- the level `i` of the old order keeps its name
  obtain ⟨x, hx⟩ := hm.order.total i hi
  have h1 : m.tbl.vars[x]? = some i := (hm.order.inv x i).mpr hx
  have h2 : src.vars[x]? = some i := hc.vars x i h1
  have h3 : m'.tbl.l2v[i]? = some x := (ho.inv x i).mp (by rw [hv]; exact h2)
  show σ (m'.tbl.nameOf i) = σ (m.tbl.nameOf i)
  unfold Tbl.nameOf
  rw [h3, hx]

theorem aCopyVars_keepsAt_compat {off : Bool} (a : AMgr) (src : Tbl) (hO : OrderOK src)
    (names : List String) (hperm : names.Perm src.vars.keys) (hc : VarsCompat src a.m.tbl) (h : Nat) :
    AKeepsAt off a h (aCopyVars src names) :=
  aCopyVars_keepsAt a src names (copyVars_keepsAt_compat src hO names hperm a.m hc) h

end DD
