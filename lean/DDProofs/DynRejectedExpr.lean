/-
  DDProofs.DynRejectedExpr — `BDD.add_expr(text)` for ANY text: a syntax error (detected after
  some sub-formulas were already reduced and evaluated), an undeclared variable, an unknown node
  `@n`, an undeclared name under a quantifier or in a renaming — the translator is a chain of
  decorated calls nested in the context of `add_expr`, each total in the sense `TotE`; so the
  decorated `add_expr` never raises the internal signal and keeps the manager and every held
  reference, dynamic reordering enabled (`addExpr_total_dyn`) or not (`addExpr_total_off`, any
  number of variables).

  Also: the decorator with requests DISABLED around any `TotE` body (`tryToReorder_total_off`) —
  no hypothesis on the number of variables, the ledger, the schedule.
-/
import DD.Parse
import DDProofs.DynRejectedOps
open Std

namespace DD

/-! ### the decorator, requests disabled -/

/-- the decorated call of a body total in the sense `TotE`, dynamic reordering NOT enabled:
never the signal, `Kept` (invariant, every node unchanged, order and switches unchanged), and
exact counts stay exact -/
theorem tryToReorder_total_off {α} (f : M α)
    (hbody : ∀ m0 : Mgr, Inv m0 → m0.ctx = true → TotE m0 (f m0))
    (m : Mgr) (hI : Inv m) (hoff : m.lastLen = none) :
    (tryToReorder f m).1 ≠ .error .needsReordering ∧ Kept m (tryToReorder f m).2 ∧
      RefKeep m (tryToReorder f m).2 := by
  have h := hbody { m with ctx := true } (hI.setCtx true) rfl
  have hna : ¬ Armed { m with ctx := true } := by
    intro ha
    have := ha.2
    rw [show ({ m with ctx := true } : Mgr).lastLen = m.lastLen from rfl, hoff] at this
    exact Bool.noConfusion this
  generalize hres : f { m with ctx := true } = res at h
  obtain ⟨r, m1⟩ := res
  have hs : StepK m { m1 with ctx := m.ctx } := StepK.ofCtx true h.1
  cases r with
  | ok a =>
    rw [tryToReorder_ok f m a m1 hres]
    exact ⟨fun he => (by cases he), ⟨hs.inv, hs.ext, hs.frame⟩, hs.keep⟩
  | error e =>
    have hne : e ≠ .needsReordering := fun he => hna (h.2 (by rw [he]))
    rw [tryToReorder_err f m e m1 hres hne]
    exact ⟨fun he => (by cases he; exact hne rfl), ⟨hs.inv, hs.ext, hs.frame⟩, hs.keep⟩

/-! ### the translator -/

theorem rename_nested_totE (m : Mgr) (hI : Inv m) (hc : m.ctx = true) (u : Int)
    (dvars : List (String × String)) : TotE m (rename u dvars m) :=
  TotE.nested hc (renameBody_totE m hI hc u dvars)

theorem addInt_eq (i : Int) (m : Mgr) :
    addInt i m = if m.mem i then (.ok i, m) else (.error .value, m) := by
  simp only [addInt]
  cases h : m.mem i <;> simp [bind, M.bind', M.get, M.throw, pure, M.pure', h]

theorem addInt_totE (m : Mgr) (hI : Inv m) (i : Int) : TotE m (addInt i m) := by
  rw [addInt_eq]
  split
  · exact TotE.same hI _ (by simp)
  · exact TotE.same hI _ (by simp)

/-- the evaluation of ANY syntax tree (undeclared names, unknown nodes included), nested in the
context of `add_expr` -/
theorem evalAst_totE : ∀ (t : Ast) (m : Mgr), Inv m → m.ctx = true → TotE m (evalAst t m)
  | .var x, m, hI, hc => by
    unfold evalAst; exact var_nested_totE m hI hc x
  | .bool b, m, hI, _ => by
    unfold evalAst; exact TotE.ok (StepK.refl hI) _
  | .num neg d, m, hI, _ => by
    unfold evalAst; exact addInt_totE m hI _
  | .not e, m, hI, hc => by
    unfold evalAst
    refine TotE.bind (evalAst_totE e m hI hc) ?_
    intro u m1 hs
    exact apply_nested_totE m1 hs.inv (by rw [hs.frame.ctx]; exact hc) _ _ _ _
  | .bin o l r, m, hI, hc => by
    unfold evalAst
    refine TotE.bind (evalAst_totE l m hI hc) ?_
    intro u m1 hs1
    have hc1 : m1.ctx = true := by rw [hs1.frame.ctx]; exact hc
    refine TotE.bind (evalAst_totE r m1 hs1.inv hc1) ?_
    intro v m2 hs2
    exact apply_nested_totE m2 hs2.inv (by rw [hs2.frame.ctx]; exact hc1) _ _ _ _
  | .ite a b c, m, hI, hc => by
    unfold evalAst
    refine TotE.bind (evalAst_totE a m hI hc) ?_
    intro u m1 hs1
    have hc1 : m1.ctx = true := by rw [hs1.frame.ctx]; exact hc
    refine TotE.bind (evalAst_totE b m1 hs1.inv hc1) ?_
    intro v m2 hs2
    have hc2 : m2.ctx = true := by rw [hs2.frame.ctx]; exact hc1
    refine TotE.bind (evalAst_totE c m2 hs2.inv hc2) ?_
    intro w m3 hs3
    exact apply_nested_totE m3 hs3.inv (by rw [hs3.frame.ctx]; exact hc2) _ _ _ _
  | .quant fa ns e, m, hI, hc => by
    unfold evalAst
    refine TotE.bind (evalAst_totE e m hI hc) ?_
    intro u m1 hs
    exact quantify_nested_totE m1 hs.inv (by rw [hs.frame.ctx]; exact hc) _ _ _
  | .subst ss e, m, hI, hc => by
    unfold evalAst
    refine TotE.bind (evalAst_totE e m hI hc) ?_
    intro u m1 hs
    exact rename_nested_totE m1 hs.inv (by rw [hs.frame.ctx]; exact hc) _ _

/-- the sub-formulas reduced before a syntax error is detected -/
theorem evalForest_totE : ∀ (ts : List Ast) (m : Mgr), Inv m → m.ctx = true →
    TotE m (evalForest ts m)
  | [], m, hI, _ => by
    unfold evalForest; exact TotE.ok (StepK.refl hI) _
  | t :: ts, m, hI, hc => by
    unfold evalForest
    refine TotE.bind (evalAst_totE t m hI hc) ?_
    intro _ m1 hs
    exact evalForest_totE ts m1 hs.inv (by rw [hs.frame.ctx]; exact hc)

theorem PErr.toErr_noNR (e : PErr) : e.toErr ≠ .needsReordering := by
  cases e <;> simp [PErr.toErr]

/-- the body of `add_expr` on ANY token string -/
theorem addExprToks_totE (toks : List Tok) (m : Mgr) (hI : Inv m) (hc : m.ctx = true) :
    TotE m (addExprToks toks m) := by
  unfold addExprToks
  cases hp : parseE toks with
  | ok t => exact evalAst_totE t m hI hc
  | error fe =>
    obtain ⟨forest, e⟩ := fe
    show TotE m ((evalForest forest >>= fun _ => M.throw e.toErr) m)
    refine TotE.bind (evalForest_totE forest m hI hc) ?_
    intro _ m1 hs
    exact TotE.err (StepK.refl hs.inv) _ (PErr.toErr_noNR e)

/-- `BDD.add_expr(text)` for ANY text, dynamic reordering enabled or not -/
theorem addExpr_total_dyn (ext : Nat → Nat) (hS : SiftContract ext) (m : Mgr) (hD : DynInv ext m)
    (s : String) : DynTotal ext m (addExpr s m) :=
  tryToReorder_total_dyn ext hS (addExprToks (tokenize s))
    (fun m0 hI hc _ => addExprToks_totE (tokenize s) m0 hI hc) m hD

/-- `BDD.add_expr(text)` for ANY text, dynamic reordering not enabled, any manager -/
theorem addExpr_total_off (m : Mgr) (hI : Inv m) (hoff : m.lastLen = none) (s : String) :
    (addExpr s m).1 ≠ .error .needsReordering ∧ Kept m (addExpr s m).2 ∧
      RefKeep m (addExpr s m).2 :=
  tryToReorder_total_off (addExprToks (tokenize s))
    (fun m0 hI0 hc => addExprToks_totE (tokenize s) m0 hI0 hc) m hI hoff

end DD
