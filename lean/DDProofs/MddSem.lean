/-
  DDProofs.MddSem — denotation of MDD references over integer assignments (`denM`),
  the structural invariant of an MDD node table (`MWF`: ordered, first successor regular,
  not all successors equal, as many successors as the variable has values; `MWFU` adds
  uniqueness), fuel stability, unfolding lemmas, extension of tables.
-/
import DD.Mdd
import Std.Data.TreeMap.Lemmas
open Std

namespace DD

/-- `abs(u) in self._succ` as a proposition (for a manager that has its terminal) -/
def MTbl.Mem (t : MTbl) (u : Int) : Prop := u.natAbs = 1 ∨ (t.node? u.natAbs).isSome

instance MTbl.decMem (t : MTbl) (u : Int) : Decidable (t.Mem u) := by unfold MTbl.Mem; infer_instance

/-- `self._succ[abs(u)][0]`, total -/
def MTbl.levelOf (t : MTbl) (u : Int) : Nat :=
  if u.natAbs = 1 then t.nvars else
  match t.node? u.natAbs with
  | some n => n.lvl
  | none => t.nvars

/-- number of values of the variable at level `i` (`vars[var_at_level(i)]['len']`) -/
def MTbl.arity (t : MTbl) (i : Nat) : Nat :=
  match t.varAt? i with
  | some v => v.len
  | none => 0

/-- integer assignments: level ↦ value -/
abbrev MAsg := Nat → Nat

/-- every variable takes one of its values -/
def MValid (t : MTbl) (a : MAsg) : Prop := ∀ i, i < t.nvars → a i < t.arity i

/-- value of a successor list at an assignment -/
def denMF (t : MTbl) : Nat → Int → MAsg → Bool
  | 0, _, _ => false
  | f+1, u, a =>
    if u.natAbs = 1 then decide (0 < u) else
    match t.node? u.natAbs with
    | none => false
    | some n =>
      (decide (u < 0)) ^^ (match n.kids[a n.lvl]? with
        | some k => denMF t f k a
        | none => false)

/-- denotation of an MDD reference: a Boolean function of integer assignments -/
def denM (t : MTbl) (u : Int) (a : MAsg) : Bool := denMF t (t.nvars + 1) u a

structure MWF (t : MTbl) : Prop where
  term : t.term = true
  lvl_lt : ∀ u n, t.node? u = some n → n.lvl < t.nvars
  kids_len : ∀ u n, t.node? u = some n → n.kids.length = t.arity n.lvl
  kids_mem : ∀ u n, t.node? u = some n → ∀ k ∈ n.kids, t.Mem k
  kids_lt : ∀ u n, t.node? u = some n → ∀ k ∈ n.kids, n.lvl < t.levelOf k
  ge_two : ∀ u n, t.node? u = some n → 2 ≤ u
  head_pos : ∀ u n, t.node? u = some n → ∃ k0 rest, n.kids = k0 :: rest ∧ 0 < k0
  not_const : ∀ u n, t.node? u = some n → ∃ k ∈ n.kids, ∃ k' ∈ n.kids, k ≠ k'

structure MWFU (t : MTbl) : Prop extends MWF t where
  unique : ∀ u u' n, t.node? u = some n → t.node? u' = some n → u = u'

theorem mabs_one {u : Int} (h : u.natAbs = 1) : u = 1 ∨ u = -1 := by omega

theorem MTbl.levelOf_le (t : MTbl) (hw : MWF t) (u : Int) : t.levelOf u ≤ t.nvars := by
  unfold MTbl.levelOf
  split
  · exact Nat.le_refl _
  · split
    · next n h => exact Nat.le_of_lt (hw.lvl_lt _ _ h)
    · exact Nat.le_refl _

theorem MTbl.levelOf_node (t : MTbl) (u : Int) (n : MNd) (h1 : u.natAbs ≠ 1)
    (hn : t.node? u.natAbs = some n) : t.levelOf u = n.lvl := by
  simp [MTbl.levelOf, h1, hn]

theorem MTbl.levelOf_term (t : MTbl) (u : Int) (h1 : u.natAbs = 1) : t.levelOf u = t.nvars := by
  simp [MTbl.levelOf, h1]

theorem MTbl.levelOf_neg (t : MTbl) (u : Int) : t.levelOf (-u) = t.levelOf u := by
  unfold MTbl.levelOf; simp

theorem MTbl.mem_neg {t : MTbl} {u : Int} (h : t.Mem u) : t.Mem (-u) := by
  unfold MTbl.Mem at *; simpa using h

theorem MTbl.mem_one (t : MTbl) : t.Mem 1 := Or.inl rfl
theorem MTbl.mem_neg_one (t : MTbl) : t.Mem (-1) := Or.inl rfl

theorem MTbl.mem_ne_zero {t : MTbl} (hw : MWF t) {u : Int} (h : t.Mem u) : u ≠ 0 := by
  intro h0; subst h0
  rcases h with h | h
  · simp at h
  · obtain ⟨n, hn⟩ := Option.isSome_iff_exists.mp h
    have := hw.ge_two _ _ hn
    simp at this

theorem getElem?_mem' {l : List Int} {i : Nat} {k : Int} (h : l[i]? = some k) : k ∈ l :=
  List.mem_of_getElem? h

/-- fuel stability: enough fuel gives the same value -/
theorem denMF_stable (t : MTbl) (hw : MWF t) :
    ∀ f u a, t.Mem u → t.nvars + 1 ≤ f + t.levelOf u → denMF t f u a = denMF t (f+1) u a := by
  intro f
  induction f with
  | zero =>
    intro u a hm hf
    have := t.levelOf_le hw u
    omega
  | succ f ih =>
    intro u a hm hf
    rw [denMF, denMF]
    by_cases h1 : u.natAbs = 1
    · simp [h1]
    · simp only [h1, if_false]
      rcases hm with hm | hm
      · exact absurd hm h1
      · obtain ⟨n, hn⟩ := Option.isSome_iff_exists.mp hm
        simp only [hn]
        have hl : t.levelOf u = n.lvl := t.levelOf_node u n h1 hn
        cases hk : n.kids[a n.lvl]? with
        | none => rfl
        | some k =>
          have hkm := getElem?_mem' hk
          have h2 := hw.kids_lt _ _ hn k hkm
          simp only
          rw [ih k a (hw.kids_mem _ _ hn k hkm) (by omega)]

theorem denMF_ge (t : MTbl) (hw : MWF t) (u : Int) (a : MAsg) (hm : t.Mem u) :
    ∀ k, denMF t (t.nvars + 1 + k) u a = denM t u a := by
  intro k
  induction k with
  | zero => rfl
  | succ k ih =>
    rw [← ih]
    exact (denMF_stable t hw (t.nvars + 1 + k) u a hm (by omega)).symm

/-- unfolding equation for `denM` at a node -/
theorem denM_node (t : MTbl) (hw : MWF t) (u : Int) (n : MNd) (a : MAsg)
    (h1 : u.natAbs ≠ 1) (hn : t.node? u.natAbs = some n) :
    denM t u a = ((decide (u < 0)) ^^ (match n.kids[a n.lvl]? with
      | some k => denM t k a
      | none => false)) := by
  have hm : t.Mem u := Or.inr (by simp [hn])
  rw [← denMF_ge t hw u a hm 1]
  show denMF t (t.nvars + 1 + 1) u a = _
  rw [denMF]
  simp only [h1, if_false, hn]
  rfl

theorem denM_one (t : MTbl) (a : MAsg) : denM t 1 a = true := by simp [denM, denMF]
theorem denM_neg_one (t : MTbl) (a : MAsg) : denM t (-1) a = false := by simp [denM, denMF]

theorem denM_neg (t : MTbl) (hw : MWF t) (u : Int) (a : MAsg) (hm : t.Mem u) :
    denM t (-u) a = !denM t u a := by
  unfold denM
  rw [denMF, denMF]
  simp only [Int.natAbs_neg]
  by_cases h1 : u.natAbs = 1
  · have := Int.natAbs_eq u
    rw [h1] at this
    rcases this with h | h <;> subst h <;> simp
  · simp only [h1, if_false]
    rcases hm with hm | hm
    · exact absurd hm h1
    · obtain ⟨n, hn⟩ := Option.isSome_iff_exists.mp hm
      simp only [hn]
      have hu : u ≠ 0 := by
        intro h; subst h
        have := hw.ge_two _ _ hn
        simp at this
      have : (decide (-u < 0)) = !(decide (u < 0)) := by
        by_cases h : u < 0 <;> simp [h] <;> omega
      rw [this]
      cases (decide (u < 0)) <;> simp

/-- value of a node reference when the branch exists -/
theorem denM_node_kid (t : MTbl) (hw : MWF t) (u : Int) (n : MNd) (a : MAsg) (k : Int)
    (h1 : u.natAbs ≠ 1) (hn : t.node? u.natAbs = some n) (hk : n.kids[a n.lvl]? = some k) :
    denM t u a = ((decide (u < 0)) ^^ denM t k a) := by
  rw [denM_node t hw u n a h1 hn, hk]

/-! ### extension of a node table -/

structure MExt (m t : MTbl) : Prop where
  vars : m.vars = t.vars
  term : m.term = t.term
  nodes : ∀ u n, m.node? u = some n → t.node? u = some n

theorem MExt.refl (m : MTbl) : MExt m m := ⟨rfl, rfl, fun _ _ h => h⟩
theorem MExt.trans {a b c : MTbl} (h1 : MExt a b) (h2 : MExt b c) : MExt a c :=
  ⟨h1.vars.trans h2.vars, h1.term.trans h2.term, fun u n h => h2.nodes u n (h1.nodes u n h)⟩

theorem MExt.nvars {m t : MTbl} (h : MExt m t) : m.nvars = t.nvars := by
  unfold MTbl.nvars; rw [h.vars]

theorem MExt.arity {m t : MTbl} (h : MExt m t) (i : Nat) : m.arity i = t.arity i := by
  unfold MTbl.arity MTbl.varAt?; rw [h.vars]

theorem MExt.valid {m t : MTbl} (h : MExt m t) (a : MAsg) : MValid m a ↔ MValid t a := by
  unfold MValid; rw [h.nvars]; simp only [h.arity]

theorem MExt.mem {m t : MTbl} (h : MExt m t) {u : Int} (hm : m.Mem u) : t.Mem u := by
  rcases hm with hm | hm
  · exact Or.inl hm
  · obtain ⟨n, hn⟩ := Option.isSome_iff_exists.mp hm
    exact Or.inr (by simp [h.nodes _ _ hn])

theorem MExt.levelOf {m t : MTbl} (h : MExt m t) {u : Int} (hm : m.Mem u) :
    t.levelOf u = m.levelOf u := by
  unfold MTbl.levelOf
  by_cases h1 : u.natAbs = 1
  · simp [h1, h.nvars]
  · rcases hm with hm | hm
    · exact absurd hm h1
    · obtain ⟨n, hn⟩ := Option.isSome_iff_exists.mp hm
      simp [h1, hn, h.nodes _ _ hn]

theorem denMF_ext {m t : MTbl} (h : MExt m t) (hw : MWF m) :
    ∀ f u a, m.Mem u → denMF t f u a = denMF m f u a := by
  intro f
  induction f with
  | zero => intros; rfl
  | succ f ih =>
    intro u a hm
    rw [denMF, denMF]
    by_cases h1 : u.natAbs = 1
    · simp [h1]
    · simp only [h1, if_false]
      rcases hm with hm | hm
      · exact absurd hm h1
      · obtain ⟨n, hn⟩ := Option.isSome_iff_exists.mp hm
        rw [hn, h.nodes _ _ hn]
        simp only
        cases hk : n.kids[a n.lvl]? with
        | none => rfl
        | some k =>
          simp only
          rw [ih _ _ (hw.kids_mem _ _ hn k (getElem?_mem' hk))]

theorem denM_ext {m t : MTbl} (h : MExt m t) (hw : MWF m) (u : Int) (a : MAsg) (hm : m.Mem u) :
    denM t u a = denM m u a := by
  unfold denM
  rw [← h.nvars]
  exact denMF_ext h hw _ u a hm

end DD
