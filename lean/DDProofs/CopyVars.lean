/-
  DDProofs.CopyVars — `copy_vars(source, target)` reproduces names and levels (C11).
  The loop `for var in source.vars: target.add_var(var, level=source.level_of_var(var))`
  on a target whose declarations are compatible with the source (in particular an empty one).
-/
import DD.Auto
import DDProofs.VarsProofs
open Std

namespace DD

theorem bindOk_cv {α β : Type} {x : M α} {f : α → M β} {m m' : Mgr} {a : α}
    (h : x m = (.ok a, m')) : M.bind' x f m = f a m' := by
  unfold M.bind'; rw [h]

/-- the target's declarations agree with the source's, and its own two maps are inverse -/
structure VarsCompat (src t : Tbl) : Prop where
  vars : ∀ (v : String) (i : Nat), t.vars[v]? = some i → src.vars[v]? = some i
  inv : ∀ (v : String) (i : Nat), t.vars[v]? = some i ↔ t.l2v[i]? = some v

/-- the state after `add_var(v, l)` really inserted the pair -/
def addVarAtState (m : Mgr) (v : String) (l : Nat) : Mgr :=
  { m with tbl := { m.tbl with vars := m.tbl.vars.insert v l, l2v := m.tbl.l2v.insert l v } }

/-- one iteration of `copy_vars`: the variable has its source level afterwards, compatibility is
kept, nothing but the two maps is touched -/
theorem copyVars_step (src : Tbl) (hO : OrderOK src) (m : Mgr) (hc : VarsCompat src m.tbl)
    (v : String) (l : Nat) (hv : src.vars[v]? = some l) :
    ∃ m', addVar v (some (l : Int)) m = (.ok l, m') ∧ VarsCompat src m'.tbl ∧
      m'.tbl.vars[v]? = some l ∧
      (∀ (w : String) (i : Nat), m.tbl.vars[w]? = some i → m'.tbl.vars[w]? = some i) ∧
      m'.tbl.succ = m.tbl.succ ∧ m'.ref = m.ref ∧ m'.pred = m.pred ∧ m'.cache = m.cache ∧
      m'.minFree = m.minFree ∧ m'.lastLen = m.lastLen ∧ m'.ctx = m.ctx ∧ m'.roots = m.roots := by
  cases hex : m.tbl.vars[v]? with
  | some vl =>
    have hl : vl = l := by
      have := hc.vars v vl hex
      rw [hv] at this
      exact (Option.some.inj this).symm
    subst hl
    exact ⟨m, (addVar_existing m v vl hex).2, hc, hex, fun _ _ h => h,
      rfl, rfl, rfl, rfl, rfl, rfl, rfl, rfl⟩
  | none =>
    have hfree : m.tbl.l2v[l]? = none := by
      cases hh : m.tbl.l2v[l]? with
      | none => rfl
      | some w =>
        exfalso
        have hw : m.tbl.vars[w]? = some l := (hc.inv w l).mpr hh
        have hsw : src.vars[w]? = some l := hc.vars w l hw
        have h1 : src.l2v[l]? = some w := (hO.inv w l).mp hsw
        have h2 : src.l2v[l]? = some v := (hO.inv v l).mp hv
        rw [h1] at h2
        have : w = v := Option.some.inj h2
        subst this
        rw [hex] at hw
        cases hw
    refine ⟨addVarAtState m v l, ?_, ?_, ?_, ?_, rfl, rfl, rfl, rfl, rfl, rfl, rfl, rfl⟩
    · unfold addVar
      have h0 : ¬ ((l : Int) < 0) := by omega
      simp only [bind, M.bind', M.get, hex, Option.getD_some, h0, if_false, Int.toNat_natCast,
        hfree, M.set, pure, M.pure']
      rfl
    · refine ⟨fun w i hw => ?_, fun w i => ?_⟩
      · have hw' : (m.tbl.vars.insert v l)[w]? = some i := hw
        rw [TreeMap.getElem?_insert] at hw'
        split at hw'
        · rename_i heq
          have : v = w := by simpa using heq
          subst this
          rw [← Option.some.inj hw']; exact hv
        · exact hc.vars w i hw'
      · show (m.tbl.vars.insert v l)[w]? = some i ↔ (m.tbl.l2v.insert l v)[i]? = some w
        rw [TreeMap.getElem?_insert, TreeMap.getElem?_insert]
        by_cases h1 : v = w
        · subst h1
          by_cases h2 : l = i
          · subst h2; simp
          · have hcmp : compare l i ≠ .eq := by simpa using h2
            simp only [compare_self, ↓reduceIte, hcmp]
            constructor
            · intro h; exact absurd (Option.some.inj h) h2
            · intro h
              have := (hc.inv v i).mpr h
              rw [hex] at this; cases this
        · have hcmp : compare v w ≠ .eq := by simpa using h1
          simp only [hcmp, ↓reduceIte]
          by_cases h2 : l = i
          · subst h2
            simp only [compare_self, ↓reduceIte]
            constructor
            · intro h
              have := (hc.inv w l).mp h
              rw [hfree] at this; cases this
            · intro h; exact absurd (Option.some.inj h) h1
          · have hcmp2 : compare l i ≠ .eq := by simpa using h2
            simp only [hcmp2, ↓reduceIte]
            exact hc.inv w i
    · show (m.tbl.vars.insert v l)[v]? = some l
      simp
    · intro w i hw
      show (m.tbl.vars.insert v l)[w]? = some i
      rw [TreeMap.getElem?_insert]
      split
      · rename_i heq
        have : v = w := by simpa using heq
        subst this
        rw [hex] at hw; cases hw
      · exact hw

/-- the loop of `copy_vars` over any list of source variables; `f` is the loop body, known only
through what it does on a declared source variable -/
theorem copyVars_loop (src : Tbl) (hO : OrderOK src)
    (f : String → PUnit → M (ForInStep PUnit))
    (hf : ∀ (v : String) (l : Nat) (m m' : Mgr), src.vars[v]? = some l →
      addVar v (some (l : Int)) m = (.ok l, m') → f v PUnit.unit m = (.ok (.yield PUnit.unit), m')) :
    ∀ (names : List String) (m : Mgr), VarsCompat src m.tbl → (∀ v ∈ names, v ∈ src.vars) →
    ∃ m', (forIn names PUnit.unit f) m = (.ok PUnit.unit, m') ∧
      VarsCompat src m'.tbl ∧
      (∀ v ∈ names, m'.tbl.vars[v]? = src.vars[v]?) ∧
      (∀ (w : String) (i : Nat), m.tbl.vars[w]? = some i → m'.tbl.vars[w]? = some i) ∧
      m'.tbl.succ = m.tbl.succ ∧ m'.ref = m.ref ∧ m'.pred = m.pred ∧ m'.cache = m.cache ∧
      m'.minFree = m.minFree ∧ m'.lastLen = m.lastLen ∧ m'.ctx = m.ctx ∧ m'.roots = m.roots
  | [], m, hc, _ =>
    ⟨m, rfl, hc, (fun _ h => by cases h), (fun _ _ h => h), rfl, rfl, rfl, rfl, rfl, rfl, rfl, rfl⟩
  | v :: rest, m, hc, hin => by
    have hvin : v ∈ src.vars := hin v (List.mem_cons_self)
    obtain ⟨l, hl⟩ : ∃ l, src.vars[v]? = some l := by
      rw [TreeMap.mem_iff_isSome_getElem?] at hvin
      exact Option.isSome_iff_exists.mp hvin
    obtain ⟨m1, hrun, hc1, hv1, hmono1, a1, a2, a3, a4, a5, a6, a7, a8⟩ :=
      copyVars_step src hO m hc v l hl
    obtain ⟨m2, hrun2, hc2, hall2, hmono2, b1, b2, b3, b4, b5, b6, b7, b8⟩ :=
      copyVars_loop src hO f hf rest m1 hc1 (fun w hw => hin w (List.mem_cons_of_mem _ hw))
    refine ⟨m2, ?_, hc2, ?_, fun w i h => hmono2 w i (hmono1 w i h),
      b1.trans a1, b2.trans a2, b3.trans a3, b4.trans a4, b5.trans a5, b6.trans a6, b7.trans a7,
      b8.trans a8⟩
    · rw [List.forIn_cons]
      show M.bind' (f v PUnit.unit) _ m = _
      rw [bindOk_cv (hf v l m m1 hl hrun)]
      exact hrun2
    · intro w hw
      rcases List.mem_cons.mp hw with rfl | hw
      · rw [hl]; exact hmono2 _ _ hv1
      · exact hall2 w hw

/-- C11 (`copy_vars`): for a source whose order is a bijection and a target whose declarations are
compatible with it (an empty target in particular), with the source's variables visited in any
order (`names` is a permutation of the source's names: the dictionary order), the call returns
normally and afterwards the target declares EXACTLY the source's variables at the source's
levels, in both views; nodes, counts, caches and configuration are untouched. -/
theorem copyVarsCore_spec (src : Tbl) (hO : OrderOK src) (names : List String)
    (hperm : names.Perm src.vars.keys) (m : Mgr) (hc : VarsCompat src m.tbl) :
    ∃ m', copyVarsCore src names m = (.ok (), m') ∧
      (∀ v : String, m'.tbl.vars[v]? = src.vars[v]?) ∧ (∀ i : Nat, m'.tbl.l2v[i]? = src.l2v[i]?) ∧
      m'.tbl.succ = m.tbl.succ ∧ m'.ref = m.ref ∧ m'.pred = m.pred ∧ m'.cache = m.cache ∧
      m'.minFree = m.minFree ∧ m'.lastLen = m.lastLen ∧ m'.ctx = m.ctx ∧ m'.roots = m.roots := by
  have hin : ∀ v ∈ names, v ∈ src.vars := fun v hv => by
    have := (hperm.mem_iff).mp hv
    exact TreeMap.mem_keys.mp this
  obtain ⟨m', hrun, hc', hall, _, c1, c2, c3, c4, c5, c6, c7, c8⟩ :=
    copyVars_loop src hO
      (fun v (_ : PUnit) => (copyVarStep src v).bind' fun _ => M.pure' (ForInStep.yield PUnit.unit))
      (by
        intro v l m0 m1 hl hrun
        have hstep : copyVarStep src v m0 = (.ok (), m1) := by
          unfold copyVarStep
          simp only [hl]
          rw [hrun]
        show M.bind' (copyVarStep src v) _ m0 = _
        rw [bindOk_cv hstep]
        rfl)
      names m hc hin
  have hvars : ∀ v : String, m'.tbl.vars[v]? = src.vars[v]? := by
    intro v
    by_cases hv : v ∈ src.vars
    · exact hall v ((hperm.mem_iff).mpr (TreeMap.mem_keys.mpr hv))
    · have hnone : src.vars[v]? = none := by
        rw [TreeMap.mem_iff_isSome_getElem?] at hv
        simpa using hv
      rw [hnone]
      cases hh : m'.tbl.vars[v]? with
      | none => rfl
      | some i =>
        have := hc'.vars v i hh
        rw [hnone] at this; cases this
  refine ⟨m', ?_, hvars, ?_, c1, c2, c3, c4, c5, c6, c7, c8⟩
  · unfold copyVarsCore
    have hguard : (!(names.length == src.vars.keys.length &&
        names.all (src.vars.keys.contains ·))) = false := by
      have h1 : names.length = src.vars.keys.length := hperm.length_eq
      have h2 : names.all (src.vars.keys.contains ·) = true := by
        rw [List.all_eq_true]
        intro v hv
        simpa using (hperm.mem_iff).mp hv
      simp only [h1, beq_self_eq_true, Bool.true_and, h2, Bool.not_true]
    simp only [bind, pure, hguard, Bool.false_eq_true, if_false]
    show M.bind' _ _ m = _
    rw [bindOk_cv hrun]
    rfl
  · intro i
    cases hs : src.l2v[i]? with
    | some v =>
      have : src.vars[v]? = some i := (hO.inv v i).mpr hs
      exact (hc'.inv v i).mp ((hvars v).trans this)
    | none =>
      cases hh : m'.tbl.l2v[i]? with
      | none => rfl
      | some w =>
        have h1 : m'.tbl.vars[w]? = some i := (hc'.inv w i).mpr hh
        rw [hvars w] at h1
        have := (hO.inv w i).mp h1
        rw [hs] at this; cases this

/-- an empty target is compatible with every source -/
theorem VarsCompat.empty (src : Tbl) : VarsCompat src ({} : Mgr).tbl :=
  ⟨fun v i h => by
    have h' : (∅ : TreeMap String Nat)[v]? = some i := h
    simp at h',
   fun v i => by
    show (∅ : TreeMap String Nat)[v]? = some i ↔ (∅ : TreeMap Nat String)[i]? = some v
    simp⟩

end DD
