/-
  DDProofs.SatProofs — umbrella of the C10 / C18 proof files:
  SatList (list lemmas), SatBasic (dependence, key lemma), SatSupport (reachability,
  is_essential, descendants, support), SatPick (pick_iter), SatGraph (exports),
  SatCount (count), SatPickCount (|pick_iter| = count), SatExample (non-vacuity table).
-/
import DDProofs.SatList
import DDProofs.SatBasic
import DDProofs.SatSupport
import DDProofs.SatPick
import DDProofs.SatGraph
import DDProofs.SatCount
import DDProofs.SatPickCount
import DDProofs.SatExample
