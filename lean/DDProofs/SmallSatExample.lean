/-
  DDProofs.SmallSatExample — the example table of C10 / C18 (`exTbl`: x ∧ y) has a good order.
-/
import DDProofs.SatExample
import DDProofs.Names
open Std

namespace DD

theorem exTbl_orderOK : OrderOK exTbl := by
  have hv : ∀ (v : String) (i : Nat), exTbl.vars[v]? = some i ↔ (v = "x" ∧ i = 0) ∨ (v = "y" ∧ i = 1) := by
    intro v i
    simp only [exTbl, TreeMap.getElem?_insert, compare_eq_iff_eq]
    by_cases h1 : "y" = v
    · subst h1; simp; omega
    · by_cases h2 : "x" = v
      · subst h2; simp; omega
      · simp [h1, h2]
        exact ⟨fun e => absurd e.symm h2, fun e => absurd e.symm h1⟩
  have hl : ∀ (i : Nat) (v : String), exTbl.l2v[i]? = some v ↔ (v = "x" ∧ i = 0) ∨ (v = "y" ∧ i = 1) := by
    intro i v
    simp only [exTbl, TreeMap.getElem?_insert, compare_eq_iff_eq]
    by_cases h1 : 1 = i
    · subst h1; simp; exact eq_comm
    · by_cases h2 : 0 = i
      · subst h2; simp; exact eq_comm
      · simp [h1, h2]; omega
  refine ⟨fun v i => (hv v i).trans (hl i v).symm, ?_, ?_⟩
  · intro v i h
    rw [exTbl_nvars]
    rcases (hv v i).mp h with ⟨-, rfl⟩ | ⟨-, rfl⟩ <;> omega
  · intro i hi
    rw [exTbl_nvars] at hi
    have : i = 0 ∨ i = 1 := by omega
    rcases this with rfl | rfl
    · exact ⟨"x", (hl 0 "x").mpr (Or.inl ⟨rfl, rfl⟩)⟩
    · exact ⟨"y", (hl 1 "y").mpr (Or.inr ⟨rfl, rfl⟩)⟩

end DD
