/-
  DDProofs.SmallConstructor — the constructor `BDD(levels)` (`mkBDD`, DD.Dump): a table whose
  levels pass `_assert_valid_ordering` and whose names are distinct (a `dict`) yields a manager
  in a good state (C02).
-/
import DDProofs.DumpProofs
import DDProofs.SmallCopyVars
import DDProofs.Reach
open Std

namespace DD

/-- a list of `n` numbers containing each of `0..n-1` is a permutation of `range n` -/
theorem perm_range_of_cover : ∀ (n : Nat) (l : List Nat), l.length = n → (∀ i, i < n → i ∈ l) →
    l.Perm (List.range n) := by
  intro n
  induction n with
  | zero => intro l hl _; rw [List.length_eq_zero_iff.mp hl]; exact List.Perm.refl _
  | succ n ih =>
    intro l hl hc
    have hn : n ∈ l := hc n (Nat.lt_succ_self n)
    have h1 : l.Perm (n :: l.erase n) := List.perm_cons_erase hn
    have h2 : (l.erase n).Perm (List.range n) := by
      apply ih
      · rw [List.length_erase_of_mem hn, hl]; rfl
      · intro i hi
        exact (List.mem_erase_of_ne (by omega)).mpr (hc i (by omega))
    rw [List.range_succ]
    exact h1.trans ((List.Perm.cons n h2).trans (List.perm_append_singleton n (List.range n)).symm)

theorem eq_of_snd_eq_of_nodup : ∀ (l : List (String × Nat)), (l.map (·.2)).Nodup →
    ∀ a ∈ l, ∀ b ∈ l, a.2 = b.2 → a = b := by
  intro l
  induction l with
  | nil => intro _ a ha; cases ha
  | cons x rest ih =>
    intro h a ha b hb hab
    rw [List.map_cons, List.nodup_cons] at h
    rcases List.mem_cons.mp ha with rfl | ha' <;> rcases List.mem_cons.mp hb with rfl | hb'
    · rfl
    · exact absurd (List.mem_map.mpr ⟨b, hb', hab.symm⟩) h.1
    · exact absurd (List.mem_map.mpr ⟨a, ha', hab⟩) h.1
    · exact ih h.2 a ha' b hb' hab

/-- what `_assert_valid_ordering` accepts has pairwise distinct levels, all below `n` -/
theorem validOrdering_facts (levels : List (String × Nat)) (h : validOrdering levels = true) :
    (levels.map (·.2)).Nodup ∧ (∀ k ∈ levels.map (·.2), k < levels.length) ∧
    (∀ i, i < levels.length → i ∈ levels.map (·.2)) := by
  unfold validOrdering at h
  simp only [Bool.and_eq_true, List.all_eq_true, decide_eq_true_eq, List.mem_range,
    List.contains_iff_mem] at h
  obtain ⟨h1, h2⟩ := h
  have hp := perm_range_of_cover levels.length (levels.map (·.2)) (by simp) h1
  exact ⟨(hp.nodup_iff).mpr List.nodup_range, h2, h1⟩

/-- `BDD(levels)` for a valid table with distinct names: a manager without nodes, in a good
state, declaring exactly the given variables at the given levels (in both views) -/
theorem mkBDD_good (levels : List (String × Nat)) (hnames : (levels.map (·.1)).Nodup)
    (hvalid : validOrdering levels = true) :
    ∃ m, mkBDD levels = .ok m ∧ GoodState m (fun _ => 0) ∧
      (∀ (v : String) (l : Nat), m.tbl.vars[v]? = some l ↔ (v, l) ∈ levels) ∧
      (∀ (l : Nat) (v : String), m.tbl.l2v[l]? = some v ↔ (v, l) ∈ levels) ∧
      m.tbl.nvars = levels.length ∧ m.tbl.succ = ({} : Mgr).tbl.succ ∧ m.roots = [] := by
  obtain ⟨hnd, hlt, hcov⟩ := validOrdering_facts levels hvalid
  have hpw : levels.Pairwise (fun a b => a.1 ≠ b.1 ∧ a.2 ≠ b.2) := by
    have h1 : levels.Pairwise (fun a b => a.1 ≠ b.1) := by
      have := hnames; rw [List.Nodup, List.pairwise_map] at this; exact this
    have h2 : levels.Pairwise (fun a b => a.2 ≠ b.2) := by
      have := hnd; rw [List.Nodup, List.pairwise_map] at this; exact this
    exact h1.and h2
  obtain ⟨m, e, V, L, S⟩ := addVars_spec levels {} hpw (by intro v l _; exact ⟨by simp, by simp⟩)
  have V' : ∀ (v : String) (l : Nat), m.tbl.vars[v]? = some l ↔ (v, l) ∈ levels := by
    intro v l; rw [V]; simp
  have L' : ∀ (l : Nat) (v : String), m.tbl.l2v[l]? = some v ↔ (v, l) ∈ levels := by
    intro l v; rw [L]; simp
  have hfst : ∀ {a b : String × Nat}, a ∈ levels → b ∈ levels → a.2 = b.2 → a = b := by
    intro a b ha hb hab
    exact eq_of_snd_eq_of_nodup levels hnd a ha b hb hab
  have hn : m.tbl.nvars = levels.length := by
    unfold Tbl.nvars
    apply TreeMap_size_eq_of_bij
    · intro v l h
      exact hlt l (List.mem_map.mpr ⟨(v, l), (V' v l).mp h, rfl⟩)
    · intro v w l h1 h2
      have := hfst ((V' v l).mp h1) ((V' w l).mp h2) rfl
      exact (Prod.mk.inj this).1
    · intro i hi
      obtain ⟨⟨v, l⟩, hm, hl⟩ := List.mem_map.mp (hcov i hi)
      simp only at hl; subst hl
      exact ⟨v, (V' v l).mpr hm⟩
  have hO : OrderOK m.tbl := by
    refine ⟨fun v i => (V' v i).trans (L' i v).symm, ?_, ?_⟩
    · intro v l h
      rw [hn]; exact hlt l (List.mem_map.mpr ⟨(v, l), (V' v l).mp h, rfl⟩)
    · intro i hi
      rw [hn] at hi
      obtain ⟨⟨v, l⟩, hm, hl⟩ := List.mem_map.mp (hcov i hi)
      simp only at hl; subst hl
      exact ⟨v, (L' l v).mpr hm⟩
  have hI := (Inv.init.more_vars (m' := m) S.succ S.pred S.ref S.cache S.minFree (Nat.zero_le _)).1
  refine ⟨m, ?_, ⟨hI, hO, GoodState.init.exact.same_nodes S.succ S.ref, ?_, ?_⟩, V', L', hn, S.succ, ?_⟩
  · unfold mkBDD
    rw [hvalid, e]; rfl
  · rw [S.lastLen]
  · rw [S.ctx]
  · rw [S.roots]

/-- … and a table that does not pass the check is refused before anything is declared -/
theorem mkBDD_refuses (levels : List (String × Nat)) (h : validOrdering levels = false) :
    mkBDD levels = .error .assertion := by
  unfold mkBDD; rw [h]; rfl

end DD
