/-
  DDProofs.CQuantCube — the two ways in which the back ends obtain the variables of the
  quantifier spellings of `apply` (`'\A'`, `'\E'`, `'forall'`, `'exists'`), compared on Boolean
  functions:

  * `dd.bdd` and `dd.cudd_zdd` quantify the second operand over `support(u)`;
  * `dd.cudd` and `dd.sylvan` pass `u.node` itself as the CUBE argument of
    `Cudd_bddExistAbstract(f, cube)` / `sylvan_exists(a, variables)`, whose documented meaning is:
    abstract the variables that occur in the positive cube.

  A positive cube `x₁ ∧ … ∧ xₙ` depends exactly on `x₁ … xₙ` (`dependsOn_cubeOf`), and
  quantifying over a list of variables only depends on which variables occur in it
  (`quantL_congr`): for a cube the two readings coincide (`quant_cube_eq_support`).
  No Mathlib.
-/
namespace DD.CQuant

abbrev Asg := Nat → Bool
abbrev BFun := Asg → Bool

def upd (a : Asg) (x : Nat) (b : Bool) : Asg := fun y => if y = x then b else a y

/-- one variable quantified -/
def quant1 (fa : Bool) (x : Nat) (f : BFun) : BFun := fun a =>
  if fa then f (upd a x false) && f (upd a x true) else f (upd a x false) || f (upd a x true)

/-- the variables of a list quantified, one after the other -/
def quantL (fa : Bool) : List Nat → BFun → BFun
  | [], f => f
  | x :: xs, f => quant1 fa x (quantL fa xs f)

/-- the positive cube of a list of variables -/
def cubeOf (S : List Nat) : BFun := fun a => S.all a

/-- `f` depends on the variable `x` (`x` is in the support of `f`) -/
def DependsOn (f : BFun) (x : Nat) : Prop := ∃ a : Asg, f (upd a x (!a x)) ≠ f a

theorem upd_same (a : Asg) (x : Nat) (b : Bool) : upd a x b x = b := by simp [upd]

theorem upd_other (a : Asg) (x y : Nat) (b : Bool) (h : y ≠ x) : upd a x b y = a y := by simp [upd, h]

theorem all_upd_of_not_mem (S : List Nat) (a : Asg) (x : Nat) (b : Bool) (h : x ∉ S) :
    S.all (upd a x b) = S.all a := by
  induction S with
  | nil => rfl
  | cons y ys ih =>
    have hy : y ≠ x := fun e => h (by simp [e])
    have hys : x ∉ ys := fun e => h (by simp [e])
    simp only [List.all_cons, upd_other a x y b hy, ih hys]

/-- the support of a positive cube is the set of its variables -/
theorem dependsOn_cubeOf (S : List Nat) (x : Nat) : DependsOn (cubeOf S) x ↔ x ∈ S := by
  constructor
  · intro ⟨a, ha⟩
    apply Classical.byContradiction
    intro hx
    exact ha (all_upd_of_not_mem S a x _ hx)
  · intro hx
    refine ⟨fun _ => true, ?_⟩
    have h1 : cubeOf S (fun _ => true) = true := by
      simp [cubeOf]
    have h2 : cubeOf S (upd (fun _ => true) x (!true)) = false := by
      simp only [cubeOf]
      apply Bool.eq_false_iff.mpr
      intro hall
      have := List.all_eq_true.mp hall x hx
      simp [upd] at this
    rw [h1, h2]
    simp

/-- `∃` over a list of variables: some assignment that agrees outside the list satisfies `f` -/
theorem quantL_exists (S : List Nat) (f : BFun) (a : Asg) :
    quantL false S f a = true ↔ ∃ b : Asg, (∀ y, y ∉ S → b y = a y) ∧ f b = true := by
  induction S generalizing a with
  | nil =>
    constructor
    · intro h; exact ⟨a, fun _ _ => rfl, h⟩
    · intro ⟨b, hb, hf⟩
      have : b = a := funext fun y => hb y (by simp)
      simpa [quantL, this] using hf
  | cons x xs ih =>
    simp only [quantL, quant1, Bool.false_eq_true, ↓reduceIte, Bool.or_eq_true, ih]
    constructor
    · intro h
      rcases h with ⟨b, hb, hf⟩ | ⟨b, hb, hf⟩
      all_goals
        refine ⟨b, fun y hy => ?_, hf⟩
        have hyx : y ≠ x := fun e => hy (by simp [e])
        have hyxs : y ∉ xs := fun e => hy (by simp [e])
        rw [hb y hyxs, upd_other _ _ _ _ hyx]
    · intro ⟨b, hb, hf⟩
      have key : ∀ y, y ∉ xs → b y = upd a x (b x) y := by
        intro y hy
        by_cases hyx : y = x
        · subst hyx; rw [upd_same]
        · rw [upd_other _ _ _ _ hyx]
          exact hb y (by simp [hyx, hy])
      cases hbx : b x
      · left; exact ⟨b, by simpa [hbx] using key, hf⟩
      · right; exact ⟨b, by simpa [hbx] using key, hf⟩

/-- `∀` over a list of variables: every assignment that agrees outside the list satisfies `f` -/
theorem quantL_forall (S : List Nat) (f : BFun) (a : Asg) :
    quantL true S f a = true ↔ ∀ b : Asg, (∀ y, y ∉ S → b y = a y) → f b = true := by
  induction S generalizing a with
  | nil =>
    constructor
    · intro h b hb
      have : b = a := funext fun y => hb y (by simp)
      simpa [quantL, this] using h
    · intro h; exact h a (fun _ _ => rfl)
  | cons x xs ih =>
    simp only [quantL, quant1, ↓reduceIte, Bool.and_eq_true, ih]
    constructor
    · intro ⟨h0, h1⟩ b hb
      have key : ∀ y, y ∉ xs → b y = upd a x (b x) y := by
        intro y hy
        by_cases hyx : y = x
        · subst hyx; rw [upd_same]
        · rw [upd_other _ _ _ _ hyx]
          exact hb y (by simp [hyx, hy])
      cases hbx : b x
      · exact h0 b (by simpa [hbx] using key)
      · exact h1 b (by simpa [hbx] using key)
    · intro h
      constructor
      all_goals
        intro b hb
        apply h b
        intro y hy
        have hyx : y ≠ x := fun e => hy (by simp [e])
        have hyxs : y ∉ xs := fun e => hy (by simp [e])
        rw [hb y hyxs, upd_other _ _ _ _ hyx]

/-- quantification only depends on WHICH variables are in the list (order and repetitions do
not matter) -/
theorem quantL_congr (fa : Bool) (S L : List Nat) (h : ∀ x, x ∈ L ↔ x ∈ S) (f : BFun) :
    quantL fa L f = quantL fa S f := by
  funext a
  have hn : ∀ y, y ∉ L ↔ y ∉ S := fun y => not_congr (h y)
  apply Bool.eq_iff_iff.mpr
  cases fa
  · rw [quantL_exists, quantL_exists]
    constructor
    · intro ⟨b, hb, hf⟩; exact ⟨b, fun y hy => hb y ((hn y).mpr hy), hf⟩
    · intro ⟨b, hb, hf⟩; exact ⟨b, fun y hy => hb y ((hn y).mp hy), hf⟩
  · rw [quantL_forall, quantL_forall]
    constructor
    · intro h1 b hb; exact h1 b (fun y hy => hb y ((hn y).mp hy))
    · intro h1 b hb; exact h1 b (fun y hy => hb y ((hn y).mpr hy))

/-- For a positive cube `u = cubeOf S`: quantifying `v` over the variables of the cube (the
reading of `dd.cudd` / `dd.sylvan`) is quantifying `v` over any list `L` of the support of `u`
(the reading of `dd.bdd` / `dd.cudd_zdd`). -/
theorem quant_cube_eq_support (fa : Bool) (S L : List Nat) (v : BFun)
    (hL : ∀ x, x ∈ L ↔ DependsOn (cubeOf S) x) :
    quantL fa S v = quantL fa L v :=
  (quantL_congr fa S L (fun x => (hL x).trans (dependsOn_cubeOf S x)) v).symm

/-- not every operand is a cube: `x₀ ∨ x₁` is not -/
theorem or_not_cube (S : List Nat) : cubeOf S ≠ fun a => a 0 || a 1 := by
  intro h
  cases S with
  | nil =>
    have := congrFun h (fun _ => false)
    simp [cubeOf] at this
  | cons y ys =>
    by_cases hy : y = 0
    · have := congrFun h (fun z => decide (z = 1))
      simp [cubeOf, hy] at this
    · have := congrFun h (fun z => decide (z = 0))
      simp [cubeOf, hy] at this

end DD.CQuant
