/-
  DDProofs.ApiAutoProofs — the `Function` methods inherited from `dd._abc.Operator` and the
  remaining `dd.autoref.BDD` wrappers, as corollaries of the C08 theorems:

  * the read-only ones (`count`, `pick`, `__hash__`, `__str__`, `var_at_level`, …) return what the
    core function returns for the node of the live `Function` and change NOTHING;
  * `exist`, `forall`, `let` ARE `BDD.quantify` / `BDD.let` on the wrapped manager (definitional),
    so they inherit `AKeeps` (invariant and count equation kept, one new handle, every live
    `Function` keeps its node and meaning);
  * `add_expr` is `wrapResult` of the core `add_expr`, total for any text.
-/
import DD.ApiAuto
import DDProofs.AutoCore
import DDProofs.DynRejectedExpr
open Std

namespace DD

/-! ### the operand tests on a live `Function` of this manager -/

theorem nodeOwn_live (a : AMgr) (h : Nat) (u : Int) (hh : a.handles[h]? = some u) :
    nodeOwn h a = (.ok u, a) := by
  simp [nodeOwn, hh]

theorem nodeSame_live (a : AMgr) (h : Nat) (u : Int) (hh : a.handles[h]? = some u) :
    nodeSame h a = (.ok u, a) := by
  simp [nodeSame, hh]

theorem nodeIn_live (a : AMgr) (h : Nat) (u : Int) (hh : a.handles[h]? = some u)
    (hm : a.m.tbl.Mem u) : nodeIn h a = (.ok u, a) := by
  have hmem : a.m.mem u = true := (Mgr.mem_iff a.m u).mpr hm
  show AM.bind' (nodeSame h) (fun u => AM.bind' AM.get (fun a => AM.bind' (AM.check (a.m.mem u) .value)
    (fun _ => AM.pure' u))) a = _
  simp [AM.bind', nodeSame_live a h u hh, AM.get, AM.check, hmem, AM.pure']

/-! ### read-only methods: the value of the core function, the state untouched -/

/-- `f.count(nvars)` for a live `Function` `f` on node `u` -/
theorem fCount_live (a : AMgr) (hs : Nat) (u : Int) (n : Option Int)
    (hh : a.handles[hs]? = some u) (hm : a.m.tbl.Mem u) :
    fCount hs n a = (count a.m.tbl u n, a) := by
  show AM.bind' (nodeIn hs) (fun u => AM.liftE fun m => count m.tbl u n) a = _
  simp [AM.bind', nodeIn_live a hs u hh hm, AM.liftE]

/-- `f.pick(care_vars)` / `bdd.pick(f, care_vars)`: the first assignment `pick_iter` yields, `None`
when it yields nothing -/
theorem aPick_live (a : AMgr) (hs : Nat) (u : Int) (care : Option (List String))
    (hh : a.handles[hs]? = some u) (hm : a.m.tbl.Mem u) :
    aPick hs care a = ((pickIter a.m.tbl u care).map List.head?, a) := by
  show AM.bind' (AM.bind' (nodeIn hs) (fun u => AM.liftE fun m => pickIter m.tbl u care))
    (fun l => AM.pure' l.head?) a = _
  simp only [AM.bind', nodeIn_live a hs u hh hm, AM.liftE]
  cases pickIter a.m.tbl u care <;> rfl

theorem fPick_live (a : AMgr) (hs : Nat) (u : Int) (care : Option (List String))
    (hh : a.handles[hs]? = some u) (hm : a.m.tbl.Mem u) :
    fPick hs care a = ((pickIter a.m.tbl u care).map List.head?, a) := aPick_live a hs u care hh hm

/-- `hash(f)` = the node (`-2` for the node `-1`: CPython never returns the hash `-1`); two live
`Function`s on the same node hash alike, which is all `__eq__` needs -/
theorem fHash_live (a : AMgr) (hs : Nat) (u : Int) (hh : a.handles[hs]? = some u) :
    fHash hs a = (.ok (pyHash u), a) := by
  show AM.bind' (nodeOwn hs) (fun s => AM.pure' (pyHash s)) a = _
  simp [AM.bind', nodeOwn_live a hs u hh, AM.pure']

/-- `str(f)` = `'@' + str(int(f))`: the text `_add_int` / the parser's `@n` read back -/
theorem fStr_live (a : AMgr) (hs : Nat) (u : Int) (hh : a.handles[hs]? = some u) :
    fStr hs a = (.ok s!"@{u}", a) := by
  show AM.bind' (nodeOwn hs) (fun s => AM.pure' s!"@{s}") a = _
  simp [AM.bind', nodeOwn_live a hs u hh, AM.pure']

/-- the order views of `autoref.BDD` read the wrapped manager and change nothing -/
theorem aVarLevels_eq (a : AMgr) : aVarLevels a = (.ok (varLevels a.m.tbl), a) := rfl

theorem aLevelOfVar_eq (a : AMgr) (v : String) :
    aLevelOfVar v a = ((levelOfVar v a.m).1, a) := by
  have : (levelOfVar v a.m).2 = a.m := by
    simp only [levelOfVar, bind, M.bind', M.get, M.ofOption]
    cases a.m.tbl.vars[v]? <;> rfl
  show (match levelOfVar v a.m with | (r, m') => (r, { a with m := m' })) = _
  rcases hx : levelOfVar v a.m with ⟨r, m'⟩
  rw [hx] at this
  simp only at this ⊢
  subst this
  rfl

theorem aVarAtLevel_eq (a : AMgr) (i : Int) :
    aVarAtLevel i a = ((varAtLevel i a.m).1, a) := by
  have : (varAtLevel i a.m).2 = a.m := by
    simp only [varAtLevel, bind, M.bind', M.get, M.ofOption]
    split
    · rfl
    · cases a.m.tbl.l2v[i.toNat]? <;> rfl
  show (match varAtLevel i a.m with | (r, m') => (r, { a with m := m' })) = _
  rcases hx : varAtLevel i a.m with ⟨r, m'⟩
  rw [hx] at this
  simp only at this ⊢
  subst this
  rfl

/-! ### `exist`, `forall`, `let`: the `BDD` methods on the wrapped manager -/

theorem fExist_eq (hs : Nat) (vs : List String) (h : Nat) :
    fExist hs vs h = aQuantify hs (vs.map Key.name) false h := rfl

theorem fForall_eq (hs : Nat) (vs : List String) (h : Nat) :
    fForall hs vs h = aQuantify hs (vs.map Key.name) true h := rfl

theorem fLet_eq (d : ALetArg) (hs h : Nat) : fLet d hs h = aLet d hs h := rfl

theorem fExist_keepsOff (hs : Nat) (vs : List String) (h : Nat) : AKeeps true h (fExist hs vs h) :=
  aQuantify_keepsOff hs _ false h

theorem fForall_keepsOff (hs : Nat) (vs : List String) (h : Nat) : AKeeps true h (fForall hs vs h) :=
  aQuantify_keepsOff hs _ true h

theorem fLet_keepsOff (d : ALetArg) (hs h : Nat) : AKeeps true h (fLet d hs h) :=
  aLet_keepsOff d hs h

/-! ### `add_expr` through the wrapper -/

/-- the core `add_expr`, ANY text, reordering not enabled: invariant and counts kept, every held
node keeps its meaning (from `addExpr_total_off`) -/
theorem addExpr_keepsOff (s : String) : CoreKeeps true (addExpr s) := by
  refine ⟨fun m ext hm r m' he => ?_⟩
  have k := addExpr_total_off m hm.inv (hm.mode rfl) s
  have h2 : (addExpr s m).2 = m' := by rw [he]
  rw [h2] at k
  exact ⟨hm.of_kept k.2.1 (k.2.2 ext hm.counts).1, heldExt_of_kept hm.inv k.2.1 ext⟩

/-- `autoref.BDD.add_expr(e)` for any text -/
theorem aAddExpr_keepsOff (e : String) (h : Nat) : AKeeps true h (aAddExpr e h) :=
  wrapResult_keeps (addExpr_keepsOff e) h

end DD
