/-
  DDProofs.DumpJsonDyn — `_copy.load_json(load_order=False)` on a `dd.autoref.BDD` whose manager
  has dynamic reordering ENABLED (C12): every node is made with the decorated `var` / `ite` while
  a live `Function` holds every node made so far, so a reordering served inside any of those
  calls is transparent (C09).  Meaning is by variable NAME (`denN`): levels may change.
-/
import DDProofs.DumpJsonOrder
import DDProps.C09
open Std
namespace DD

/-! ### the state between two calls, ledger = user references `e0` + live `Function`s `l` -/

structure DynL (e0 : Nat → Nat) (l : List Nat) (m : Mgr) : Prop where
  dyn : DynInv (extAdd e0 l) m
  roots0 : ∀ r ∈ m.roots, 0 < e0 r.natAbs

theorem DynL.perm {e0 : Nat → Nat} {l l' : List Nat} {m : Mgr} (h : DynL e0 l m) (hp : l.Perm l') :
    DynL e0 l' m := ⟨by rw [← extAdd_perm e0 hp]; exact h.dyn, h.roots0⟩

theorem DynL.setRef {e0 : Nat → Nat} {l l' : List Nat} {m : Mgr} (h : DynL e0 l m) (r : TreeMap Nat Nat)
    (hI : Inv { m with ref := r }) (hr : RefExact { m with ref := r } (extAdd e0 l')) :
    DynL e0 l' { m with ref := r } :=
  ⟨⟨hI, h.dyn.order, hr, h.dyn.ctx, h.dyn.sched,
    fun x hx => by have := h.roots0 x hx; simp only [extAdd]; omega, h.dyn.nvars⟩, h.roots0⟩

theorem DynL.heldX {e0 : Nat → Nat} {l : List Nat} {m : Mgr} (_h : DynL e0 l m) {u : Int}
    (hu : u.natAbs ∈ l) : HeldX (extAdd e0 l) u := by
  refine Or.inr ?_
  have : 0 < l.count u.natAbs := List.count_pos_iff.mpr hu
  simp only [extAdd]; omega

theorem DynL.heldX0 {e0 : Nat → Nat} {l : List Nat} {u : Int} (hu : HeldX e0 u) :
    HeldX (extAdd e0 l) u := by
  rcases hu with h | h
  · exact Or.inl h
  · exact Or.inr (by simp only [extAdd]; omega)

/-- `Function(u, bdd)` -/
theorem wrapD (e0 : Nat → Nat) (l : List Nat) (m : Mgr) (h : DynL e0 l m) (u : Int) (hu : m.tbl.Mem u) :
    ∃ r', dmpWrap u m = (.ok (), { m with ref := r' }) ∧ DynL e0 (u.natAbs :: l) { m with ref := r' } := by
  obtain ⟨c, _, he, hr⟩ := incref_spec m _ u h.dyn.refs hu
  have hk := incref_kept m h.dyn.inv u
  rw [he] at hk
  have hm : m.mem u = true := (Mgr.mem_iff m u).mpr hu
  rw [extInc_extAdd] at hr
  refine ⟨_, ?_, h.setRef _ hk.inv hr⟩
  unfold dmpWrap
  simp [hm, he]

/-- `Function.__del__` / `bdd.decref` of a live reference -/
theorem decrefD (e0 : Nat → Nat) (l : List Nat) (m : Mgr) (u : Int) (h : DynL e0 (u.natAbs :: l) m) :
    ∃ r', decref u m = (.ok (), { m with ref := r' }) ∧ DynL e0 l { m with ref := r' } := by
  obtain ⟨c, _, he, hr⟩ := decref_spec m _ u h.dyn.refs (extAdd_pos _ _ _)
  have hk := decref_kept m h.dyn.inv u
  rw [he] at hk
  rw [extDec_extAdd] at hr
  exact ⟨_, he, h.setRef _ hk.inv hr⟩

theorem dropD (e0 : Nat → Nat) (l : List Nat) (m : Mgr) (u : Int) (h : DynL e0 (u.natAbs :: l) m) :
    ∃ r', (dmpDrop u m).2 = { m with ref := r' } ∧ DynL e0 l { m with ref := r' } := by
  obtain ⟨r', he, hd⟩ := decrefD e0 l m u h
  exact ⟨r', by unfold dmpDrop; rw [he], hd⟩

theorem refOfD (e0 : Nat → Nat) (l : List Nat) (m : Mgr) (h : DynL e0 l m) (u : Int) (hu : m.tbl.Mem u) :
    ∃ c, refOf u m = (.ok c, m) ∧ indeg m.tbl u.natAbs + extAdd e0 l u.natAbs ≤ c := by
  have hg := h.dyn.refs.get hu
  exact ⟨_, refOf_eq m u _ hg, by omega⟩

/-! ### the file semantics by name: unfolding lemmas -/

theorem evalN_term (f : PickleFile) (k : Nat) (u : Int) (σ : String → Bool) (h : u.natAbs = 1) :
    evalN f (k+1) u σ = decide (0 < u) := by
  rw [evalN]; simp [h]

theorem evalN_stable {f : PickleFile} (hw : PickleWF f) :
    ∀ k u σ, FRef f.succ u → f.vars.length + 1 ≤ k + flevel f.succ f.vars.length u →
      evalN f k u σ = evalN f (k+1) u σ := by
  intro k
  induction k with
  | zero =>
    intro u σ _ hk
    have := flevel_le hw.succ u
    omega
  | succ k ih =>
    intro u σ hr hk
    rw [evalN, evalN]
    by_cases h1 : u.natAbs = 1
    · simp [h1]
    · simp only [h1, if_false]
      rcases hr with hr | hr
      · exact absurd hr h1
      · obtain ⟨e, he⟩ := Option.isSome_iff_exists.mp hr
        obtain ⟨v, w, hv, hw', hl, _, _, rv, rw', lv, lw⟩ := hw.succ.node _ e he h1
        have hfl : flevel f.succ f.vars.length u = e.lvl := by simp [flevel, h1, he]
        simp only [he, hv, hw']
        cases hj : f.nameAt e.lvl with
        | none => rfl
        | some x =>
          simp only
          rw [ih w σ rw' (by omega), ih v σ rv (by omega)]

theorem evalN_ge {f : PickleFile} (hw : PickleWF f) (u : Int) (σ : String → Bool) (hr : FRef f.succ u) :
    ∀ k, evalN f (f.vars.length + 1 + k) u σ = evalN f (f.vars.length + 1) u σ := by
  intro k
  induction k with
  | zero => rfl
  | succ k ih =>
    rw [← ih]
    exact (evalN_stable hw (f.vars.length + 1 + k) u σ hr (by omega)).symm

/-- unfolding equation of the by-name semantics at a node -/
theorem evalPickle_node {f : PickleFile} (hw : PickleWF f) (u : Int) (σ : String → Bool) (e : PEntry)
    (v w : Int) (h1 : u.natAbs ≠ 1) (he : PEntry.find f.succ u.natAbs = some e)
    (hv : e.lo = some v) (hw' : e.hi = some w) :
    ∃ x, f.nameAt e.lvl = some x ∧ evalPickle f u σ =
      ((decide (u < 0)) ^^ (if σ x then evalPickle f w σ else evalPickle f v σ)) := by
  obtain ⟨var, hvar⟩ := hw.lvls _ e he h1
  have hx := hw.names var e.lvl hvar
  refine ⟨var, hx, ?_⟩
  have hr : FRef f.succ u := Or.inr (by simp [he])
  unfold evalPickle
  rw [← evalN_ge hw u σ hr 1]
  show evalN f (f.vars.length + 1 + 1) u σ = _
  rw [evalN]
  simp only [h1, if_false, he, hv, hw', hx]

theorem evalPickle_neg {f : PickleFile} (hw : PickleWF f) (u : Int) (σ : String → Bool)
    (h1 : u.natAbs ≠ 1) (he : (PEntry.find f.succ u.natAbs).isSome) (hu : u ≠ 0) :
    evalPickle f (-u) σ = !evalPickle f u σ := by
  unfold evalPickle
  rw [evalN, evalN]
  simp only [Int.natAbs_neg, h1, if_false]
  obtain ⟨e, hee⟩ := Option.isSome_iff_exists.mp he
  obtain ⟨v, w, hv, hw', _⟩ := hw.succ.node _ e hee h1
  obtain ⟨var, hvar⟩ := hw.lvls _ e hee h1
  have hx := hw.names var e.lvl hvar
  simp only [hee, hv, hw', hx]
  have : (decide (-u < 0)) = !(decide (u < 0)) := by
    by_cases h : u < 0 <;> simp [h] <;> omega
  rw [this]
  cases (decide (u < 0)) <;> simp

theorem evalPickle_term (f : PickleFile) (u : Int) (σ : String → Bool) (h : u.natAbs = 1) :
    evalPickle f u σ = decide (0 < u) := evalN_term f _ u σ h

/-! ### `_node_from_int` -/

theorem denN_term (t : Tbl) (u : Int) (σ : AsgN) (h : u.natAbs = 1) : denN t u σ = decide (0 < u) :=
  dmp_den_term t u _ h

theorem denN_neg (t : Tbl) (hw : WF t) (u : Int) (σ : AsgN) (hm : t.Mem u) :
    denN t (-u) σ = !denN t u σ := den_neg t hw u _ hm

/-- the shelf, by name: every entry is a regular node of the manager that denotes — as a function
of the variable names — what the file says for its id -/
def ShelfN (f : PickleFile) (t : Tbl) (cache : List (Nat × Int)) : Prop :=
  ∀ k u, cache.lookup k = some u → 0 < u ∧ t.Mem u ∧ k ≠ 1 ∧ (PEntry.find f.succ k).isSome ∧
    ∀ σ, denN t u σ = evalPickle f (k : Int) σ

/-- `_node_from_int` with reordering possibly enabled: only `_ref` changes -/
theorem nodeFromInt_dyn {f : PickleFile} (hw : PickleWF f)
    (e0 : Nat → Nat) (l : List Nat) (m : Mgr) (h : DynL e0 l m)
    (cache : List (Nat × Int)) (hc : ShelfN f m.tbl cache) (uid : Int)
    (hres : uid.natAbs = 1 ∨ (cache.lookup uid.natAbs).isSome) :
    ∃ r r', nodeFromInt cache uid m = (.ok r, { m with ref := r' }) ∧
      DynL e0 (r.natAbs :: l) { m with ref := r' } ∧ m.tbl.Mem r ∧ (0 < r ↔ 0 < uid) ∧
      (∀ σ, denN m.tbl r σ = evalPickle f uid σ) ∧
      (uid.natAbs ≠ 1 → cache.lookup uid.natAbs = some (if uid < 0 then -r else r)) := by
  have hW := h.dyn.inv.wf.toWF
  by_cases hm1 : uid = -1
  · subst hm1
    obtain ⟨r', hw1, hg⟩ := wrapD e0 l m h (-1) (Or.inl rfl)
    refine ⟨-1, r', ?_, hg, Or.inl rfl, by simp, ?_, fun h => absurd rfl h⟩
    · unfold nodeFromInt
      simp only [if_true]
      exact (M.bind_eq_ok hw1).trans rfl
    · intro σ; rw [denN_term _ _ _ rfl, evalPickle_term _ _ _ rfl]
  by_cases h1 : uid = 1
  · subst h1
    obtain ⟨r', hw1, hg⟩ := wrapD e0 l m h 1 (Or.inl rfl)
    refine ⟨1, r', ?_, hg, Or.inl rfl, by simp, ?_, fun h => absurd rfl h⟩
    · unfold nodeFromInt
      simp only [show ¬ ((1 : Int) = -1) by decide, if_false, if_true]
      exact (M.bind_eq_ok hw1).trans rfl
    · intro σ; rw [denN_term _ _ _ rfl, evalPickle_term _ _ _ rfl]
  have hn1 : uid.natAbs ≠ 1 := by omega
  rcases hres with hres | hres
  · exact absurd hres hn1
  obtain ⟨k, hk⟩ := Option.isSome_iff_exists.mp hres
  obtain ⟨kpos, kmem, _, kfind, kden⟩ := hc _ k hk
  obtain ⟨r1, hw1, hg1⟩ := wrapD e0 l m h k kmem
  have hlook : (M.ofOption Err.key (cache.lookup uid.natAbs) : M Int) m = (.ok k, m) := by
    rw [hk]; rfl
  have hu0 : uid ≠ 0 := by
    obtain ⟨e', he'⟩ := Option.isSome_iff_exists.mp kfind
    obtain ⟨_, _, _, _, _, _, h2, _⟩ := hw.succ.node _ e' he' hn1
    omega
  by_cases hneg : uid < 0
  · have hI1 : Inv ({ m with ref := r1 } : Mgr) := hg1.dyn.inv
    obtain ⟨hap, hmn, _⟩ := apply_not_spec { m with ref := r1 } hI1 "not" not_is_negation.1
      not_is_negation.2 k kmem
    obtain ⟨r2, hw2, hg2⟩ := wrapD e0 _ { m with ref := r1 } hg1 (-k) hmn
    have hg2' : DynL e0 (k.natAbs :: (-k).natAbs :: l) { m with ref := r2 } :=
      hg2.perm (List.Perm.swap _ _ _)
    obtain ⟨r3, hd3, hg3⟩ := dropD e0 _ { m with ref := r2 } k hg2'
    have hsign : (0 < -k ↔ 0 < uid) := ⟨fun h' => by omega, fun h' => by omega⟩
    refine ⟨-k, r3, ?_, hg3, mem_neg kmem, hsign, ?_, fun _ => by simp [hneg, hk]⟩
    · unfold nodeFromInt
      simp only [hm1, h1, if_false]
      refine (M.bind_eq_ok hlook).trans ?_
      refine (M.bind_eq_ok hw1).trans ?_
      simp only [hneg, if_true]
      unfold withTemps
      simp only
      rw [M.bind_eq_ok hap, M.bind_eq_ok hw2]
      simp only [pure, M.pure', dropList]
      exact congrArg (Prod.mk (Except.ok (-k))) hd3
    · intro σ
      rw [denN_neg m.tbl hW k σ kmem, kden σ]
      have huid : uid = -(uid.natAbs : Int) := by omega
      conv => rhs; rw [huid]
      rw [evalPickle_neg hw _ _ (by simpa using hn1) (by simpa using kfind) (by omega)]
  · have hsign : (0 < k ↔ 0 < uid) := ⟨fun _ => by omega, fun _ => kpos⟩
    refine ⟨k, r1, ?_, hg1, kmem, hsign, ?_, fun _ => by simp [hneg, hk]⟩
    · unfold nodeFromInt
      simp only [hm1, h1, if_false]
      refine (M.bind_eq_ok hlook).trans ?_
      refine (M.bind_eq_ok hw1).trans ?_
      simp only [hneg, if_false]
      rfl
    · intro σ
      rw [kden σ]
      have : (uid.natAbs : Int) = uid := by omega
      rw [this]


/-! ### the decorated `var` / `ite` keep the unique table free of stray keys (every outcome) -/

theorem ksm_withCtx {α : Type} {f : M α} (hf : KSM f) : KSM (withCtx f) := by
  intro m h
  unfold withCtx
  have h1 := hf { m with ctx := true } (h.congr rfl)
  dsimp only
  split
  · rename_i a m1 heq
    rw [heq] at h1
    exact KeysOK.congr h1 rfl
  · rename_i e m1 heq
    rw [heq] at h1
    split <;> exact KeysOK.congr h1 rfl

theorem ksm_tryToReorder {α : Type} {f : M α} (hf : KSM f) : KSM (tryToReorder f) := by
  unfold tryToReorder
  refine ksm_bind (ksm_withCtx hf) (fun o => ?_)
  cases o with
  | some a => exact ksm_pure _
  | none =>
    dsimp only
    refine ksm_bind (ksm_modify _ (fun _ h => KeysOK.congr h rfl)) (fun _ => ?_)
    refine ksm_bind (ksm_reorder none) (fun _ => ?_)
    refine ksm_bind ksm_get (fun mm => ?_)
    intro m0 h
    have h1 := ksm_withCtx hf m0 h
    dsimp only
    split
    · rename_i m1 heq; rw [heq] at h1; exact KeysOK.congr h1 rfl
    · rename_i r m1 heq; rw [heq] at h1; exact KeysOK.congr h1 rfl
    · rename_i e m1 heq; rw [heq] at h1; exact KeysOK.congr h1 rfl

theorem KeysOK.of_eq {α : Type} {x y : Except Err α × Mgr} (h : KeysOK x.2) (e : x = y) :
    KeysOK y.2 := e ▸ h

theorem ksm_iteF : ∀ (fuel : Nat) (g u v : Int), KSM (iteF fuel g u v) := by
  intro fuel
  induction fuel with
  | zero => intro g u v m h; exact h
  | succ f ih =>
    intro g u v m h
    unfold iteF
    split
    · exact h
    split
    · exact h
    split
    · exact h
    split
    · dsimp only
      split
      · split
        · next heq => exact (ih _ _ _ m h).of_eq heq
        next heq =>
        have p1 := (ih _ _ _ m h).of_eq heq
        split
        · next heq => exact (ih _ _ _ _ p1).of_eq heq
        next heq =>
        have p2 := (ih _ _ _ _ p1).of_eq heq
        split
        · next heq => exact (ksm_findOrAdd _ _ _ _ p2).of_eq heq
        next heq =>
        have p3 := (ksm_findOrAdd _ _ _ _ p2).of_eq heq
        exact KeysOK.congr p3 rfl
      · exact h
      · exact h
      · exact h
    · exact h

theorem ksm_iteRaw (g u v : Int) : KSM (iteRaw g u v) := by
  unfold iteRaw
  exact ksm_bind ksm_get (fun m => ksm_iteF _ _ _ _)

theorem ksm_bddIte (g u v : Int) : KSM (ite g u v) := ksm_tryToReorder (ksm_iteRaw g u v)

theorem ksm_bddVar (name : String) : KSM (var name) := by
  unfold var
  apply ksm_tryToReorder
  repeat' ksm_step2


/-! ### one line of the file, reordering possibly enabled -/

theorem heldX_cons {e0 : Nat → Nat} {l : List Nat} {w : Int} (h : HeldX (extAdd e0 l) w) (k : Nat) :
    HeldX (extAdd e0 (k :: l)) w := by
  rcases h with h | h
  · exact Or.inl h
  · refine Or.inr ?_
    simp only [extAdd, List.count_cons] at h ⊢
    omega

theorem heldX_head (e0 : Nat → Nat) (l : List Nat) (w : Int) : HeldX (extAdd e0 (w.natAbs :: l)) w :=
  Or.inr (extAdd_pos _ _ _)

theorem lift_allTrue (t : Tbl) : t.lift (fun _ => true) = fun _ => true := rfl

/-- what a step of the loader keeps, with reordering possibly served inside -/
structure DynKeeps (ext : Nat → Nat) (m m' : Mgr) : Prop where
  enabled : m'.lastLen.isSome = m.lastLen.isSome
  names : ∀ s, m'.tbl.vars.contains s = m.tbl.vars.contains s
  roots : m'.roots = m.roots
  held : ∀ w, HeldX ext w → m'.tbl.Mem w ∧ ∀ σ, denN m'.tbl w σ = denN m.tbl w σ

theorem DynKeeps.refl (ext : Nat → Nat) {m : Mgr} (hr : RefExact m ext) : DynKeeps ext m m :=
  ⟨rfl, fun _ => rfl, rfl, fun _ hw => ⟨hw.mem hr, fun _ => rfl⟩⟩

/-- `_make_node` (`load_order=False`) with dynamic reordering possibly ENABLED: `var` and `ite`
are the decorated methods, every operand is held by a live `Function` -/
theorem makeNode_dyn {f : PickleFile} (hw : PickleWF f) (vat : List (Nat × String)) (ln : JLine)
    (e0 : Nat → Nat) (l : List Nat) (m : Mgr) (h : DynL e0 l m) (hk : KeysOK m)
    (cache : List (Nat × Int)) (hc : ShelfN f m.tbl cache)
    (hheld : ∀ k u, cache.lookup k = some u → u.natAbs ∈ l)
    (hnew : cache.lookup ln.id = none)
    (hline : PEntry.find f.succ ln.id = some ⟨ln.id, ln.lvl, some ln.lo, some ln.hi⟩) (hid : ln.id ≠ 1)
    (hlo : ln.lo.natAbs = 1 ∨ (cache.lookup ln.lo.natAbs).isSome)
    (hhi : ln.hi.natAbs = 1 ∨ (cache.lookup ln.hi.natAbs).isSome)
    (name : String) (hvat : vat.lookup ln.lvl = some name) (hname : f.nameAt ln.lvl = some name)
    (hdecl : m.tbl.vars.contains name = true) :
    ∃ u m', makeNode false vat ln cache m = (.ok (cache ++ [(ln.id, u)]), m') ∧
      DynL e0 (u.natAbs :: l) m' ∧ KeysOK m' ∧ ShelfN f m'.tbl (cache ++ [(ln.id, u)]) ∧
      DynKeeps (extAdd e0 l) m m' := by
  obtain ⟨v', w', hv', hw', hlvl, hwpos, hk2, _⟩ := hw.succ.node _ _ hline hid
  simp only [Option.some.injEq] at hv' hw'
  subst hv' hw'
  -- low, high
  obtain ⟨lo, r1, elo, g1, mlo, slo, dlo, _⟩ := nodeFromInt_dyn hw e0 l m h cache hc ln.lo hlo
  obtain ⟨hi, r2, ehi, g2, mhi, shi, dhi, _⟩ :=
    nodeFromInt_dyn hw e0 _ { m with ref := r1 } g1 cache hc ln.hi hhi
  let m2 : Mgr := { m with ref := r2 }
  -- `bdd.var(var)`
  obtain ⟨g, m3, evar, p3⟩ := C09_var_transparent _ m2 g2.dyn name hdecl
  have g3 : DynL e0 (hi.natAbs :: lo.natAbs :: l) m3 :=
    ⟨p3.inv, by intro r hr; rw [p3.roots] at hr; exact h.roots0 r hr⟩
  obtain ⟨r4, ewg, g4⟩ := wrapD e0 _ m3 g3 g p3.doc.1
  let m4 : Mgr := { m3 with ref := r4 }
  -- `bdd.ite(g, high, low)`
  have Hhi3 : HeldX (extAdd e0 (hi.natAbs :: lo.natAbs :: l)) hi := heldX_head _ _ _
  have Hlo3 : HeldX (extAdd e0 (hi.natAbs :: lo.natAbs :: l)) lo := heldX_cons (heldX_head _ _ _) _
  obtain ⟨u, m5, eite, p5⟩ := C09_ite_transparent _ m4 g4.dyn g hi lo (heldX_head _ _ _)
    (heldX_cons Hhi3 _) (heldX_cons Hlo3 _)
  have g5 : DynL e0 (g.natAbs :: hi.natAbs :: lo.natAbs :: l) m5 :=
    ⟨p5.inv, by intro r hr; rw [p5.roots, p3.roots] at hr; exact h.roots0 r hr⟩
  obtain ⟨r6, ewu, g6⟩ := wrapD e0 _ m5 g5 u p5.doc.1
  obtain ⟨r7, ewu2, g7⟩ := wrapD e0 _ { m5 with ref := r6 } g6 u p5.doc.1
  -- the releases
  obtain ⟨r8, ed8, g8⟩ := dropD e0 _ { m5 with ref := r7 } u g7
  obtain ⟨r9, ed9, g9⟩ := dropD e0 _ { m5 with ref := r8 } g (g8.perm (List.Perm.swap _ _ _))
  obtain ⟨r10, ed10, g10⟩ := dropD e0 _ { m5 with ref := r9 } hi (g9.perm (List.Perm.swap _ _ _))
  obtain ⟨r11, ed11, g11⟩ := dropD e0 _ { m5 with ref := r10 } lo (g10.perm (List.Perm.swap _ _ _))
  -- meaning of the operands where `ite` runs
  have hmhi4 : m4.tbl.Mem hi := (p3.held hi Hhi3).1
  have hmlo4 : m4.tbl.Mem lo := (p3.held lo Hlo3).1
  have dhi4 : ∀ σ, denN m4.tbl hi σ = evalPickle f ln.hi σ := fun σ => by
    rw [show m4.tbl = m3.tbl from rfl, (p3.held hi Hhi3).2 σ]; exact dhi σ
  have dlo4 : ∀ σ, denN m4.tbl lo σ = evalPickle f ln.lo σ := fun σ => by
    rw [show m4.tbl = m3.tbl from rfl, (p3.held lo Hlo3).2 σ]; exact dlo σ
  have dg4 : ∀ σ, denN m4.tbl g σ = σ name := p3.doc.2
  have du : ∀ σ, denN m5.tbl u σ = evalPickle f (ln.id : Int) σ := by
    intro σ
    rw [p5.doc.2 σ, dg4 σ, dhi4 σ, dlo4 σ]
    obtain ⟨x, hx, hev⟩ := evalPickle_node hw (ln.id : Int) σ _ ln.lo ln.hi (by simpa using hid)
      (by simpa using hline) rfl rfl
    rw [hname] at hx
    cases hx
    rw [hev]
    have : ¬ ((ln.id : Int) < 0) := by omega
    simp [this]
  have hupos : 0 < u := by
    have h1' := den_alltrue m5.tbl p5.inv.inv.wf.toWF m5.tbl.nvars u p5.doc.1 (by omega)
    have h2' := den_alltrue m4.tbl g4.dyn.inv.wf.toWF m4.tbl.nvars hi hmhi4 (by omega)
    have h3' := p5.doc.2 (fun _ => true)
    unfold denN at h3'
    rw [lift_allTrue, lift_allTrue] at h3'
    have h4' := dg4 (fun _ => true)
    unfold denN at h4'
    rw [lift_allTrue] at h4'
    rw [h4'] at h3'
    simp only [if_true] at h3'
    rw [h1', h2'] at h3'
    have : 0 < hi := shi.mpr hwpos
    simpa [this] using h3'
  refine ⟨u, { m5 with ref := r11 }, ?_, g11, ?_, ?_, ?_⟩
  · -- the computation
    have hmu5 := p5.doc.1
    have inner4 : (M.assert (decide (0 ≤ u)) >>= fun _ => incref u >>= fun _ =>
        (pure (cache ++ [(ln.id, u)]) : M (List (Nat × Int)))) { m5 with ref := r6 }
        = (.ok (cache ++ [(ln.id, u)]), { m5 with ref := r7 }) := by
      refine (M.bind_eq_ok (assert_ok _ _ (by simp; omega))).trans ?_
      have hinc : incref u { m5 with ref := r6 } = (.ok (), { m5 with ref := r7 }) := by
        have := ewu2
        unfold dmpWrap at this
        have hm : ({ m5 with ref := r6 } : Mgr).mem u = true := (Mgr.mem_iff _ u).mpr hmu5
        simpa [hm] using this
      exact (M.bind_eq_ok hinc).trans rfl
    have inner3 : (containsCheck g >>= fun _ => containsCheck hi >>= fun _ => containsCheck lo >>= fun _ =>
        ite g hi lo >>= fun u => dmpWrap u >>= fun _ => withTemps [u]
          (M.assert (decide (0 ≤ u)) >>= fun _ => incref u >>= fun _ =>
            (pure (cache ++ [(ln.id, u)]) : M (List (Nat × Int))))) m4
        = (.ok (cache ++ [(ln.id, u)]), { m5 with ref := r8 }) := by
      refine (M.bind_eq_ok (containsCheck_ok g m4 p3.doc.1)).trans ?_
      refine (M.bind_eq_ok (containsCheck_ok hi m4 hmhi4)).trans ?_
      refine (M.bind_eq_ok (containsCheck_ok lo m4 hmlo4)).trans ?_
      refine (M.bind_eq_ok eite).trans ?_
      refine (M.bind_eq_ok ewu).trans ?_
      refine (withTemps_eq inner4).trans ?_
      simp only [dropList]
      rw [ed8]
    unfold makeNode
    refine (M.bind_eq_ok (assert_ok _ _ (by simp; omega))).trans ?_
    simp only [hnew, Option.isSome_none, Bool.false_eq_true, if_false]
    refine (M.bind_eq_ok elo).trans ?_
    refine (withTemps_eq (r := .ok (cache ++ [(ln.id, u)])) (m1 := { m5 with ref := r10 }) ?_).trans ?_
    · refine (M.bind_eq_ok ehi).trans ?_
      refine (withTemps_eq (r := .ok (cache ++ [(ln.id, u)])) (m1 := { m5 with ref := r9 }) ?_).trans ?_
      · have hnm : (M.ofOption Err.key (vat.lookup ln.lvl) : M String) { m with ref := r2 } = (.ok name, m2) := by
          rw [hvat]; rfl
        refine (M.bind_eq_ok hnm).trans ?_
        refine (M.bind_eq_ok evar).trans ?_
        refine (M.bind_eq_ok ewg).trans ?_
        refine (withTemps_eq inner3).trans ?_
        simp only [dropList]
        rw [ed9]
      · simp only [dropList]
        rw [ed10]
    · simp only [dropList]
      rw [ed11]
  · -- the unique table
    have k2 : KeysOK m2 := hk.congr rfl
    have k3 : KeysOK m3 := by have := ksm_bddVar name m2 k2; rw [evar] at this; exact this
    have k5 : KeysOK m5 := by
      have := ksm_bddIte g hi lo m4 (k3.congr rfl); rw [eite] at this; exact this
    exact k5.congr rfl
  · -- the shelf
    intro k x hkx
    rw [lookup_append_single] at hkx
    cases hck : cache.lookup k with
    | some y =>
      rw [hck] at hkx
      simp only [Option.some.injEq] at hkx
      subst hkx
      obtain ⟨a1, a2, a3, a4, a5⟩ := hc k y hck
      have hy0 : HeldX (extAdd e0 l) y := h.heldX (hheld k y hck)
      have hy3 : HeldX (extAdd e0 (hi.natAbs :: lo.natAbs :: l)) y := heldX_cons (heldX_cons hy0 _) _
      have hy4 := heldX_cons hy3 g.natAbs
      obtain ⟨b1, b2⟩ := p3.held y hy3
      obtain ⟨c1, c2⟩ := p5.held y hy4
      exact ⟨a1, c1, a3, a4, fun σ => by
        rw [c2 σ, show m4.tbl = m3.tbl from rfl, b2 σ]; exact a5 σ⟩
    | none =>
      rw [hck] at hkx
      simp only at hkx
      split at hkx
      · rename_i hkk
        simp only [Option.some.injEq] at hkx
        subst hkx hkk
        exact ⟨hupos, p5.doc.1, hid, by simp [hline], du⟩
      · cases hkx
  · -- what is kept
    refine ⟨?_, ?_, ?_, ?_⟩
    · show m5.lastLen.isSome = m.lastLen.isSome
      rw [p5.enabled]
      show m3.lastLen.isSome = _
      rw [p3.enabled]
    · intro s
      show m5.tbl.vars.contains s = _
      rw [p5.names s]
      show m3.tbl.vars.contains s = _
      rw [p3.names s]
    · show m5.roots = m.roots
      rw [p5.roots]
      show m3.roots = _
      rw [p3.roots]
    · intro w hw0
      have hw3 : HeldX (extAdd e0 (hi.natAbs :: lo.natAbs :: l)) w := heldX_cons (heldX_cons hw0 _) _
      obtain ⟨b1, b2⟩ := p3.held w hw3
      obtain ⟨c1, c2⟩ := p5.held w (heldX_cons hw3 _)
      exact ⟨c1, fun σ => by rw [c2 σ, show m4.tbl = m3.tbl from rfl, b2 σ]⟩


/-! ### the loops of `_load_json`, reordering possibly enabled -/

theorem DynKeeps.trans {ext ext' : Nat → Nat} {m m1 m2 : Mgr} (h1 : DynKeeps ext m m1)
    (h2 : DynKeeps ext' m1 m2) (hmono : ∀ w, HeldX ext w → HeldX ext' w) : DynKeeps ext m m2 :=
  ⟨h2.enabled.trans h1.enabled, fun s => (h2.names s).trans (h1.names s), h2.roots.trans h1.roots,
    fun w hw => ⟨(h2.held w (hmono w hw)).1, fun σ => ((h2.held w (hmono w hw)).2 σ).trans ((h1.held w hw).2 σ)⟩⟩

theorem DynKeeps.setRef {ext : Nat → Nat} {m m' : Mgr} (h : DynKeeps ext m m') (r : TreeMap Nat Nat) :
    DynKeeps ext m { m' with ref := r } := ⟨h.enabled, h.names, h.roots, h.held⟩

theorem heldX_append {e0 : Nat → Nat} {l : List Nat} {w : Int} (h : HeldX (extAdd e0 l) w) (l' : List Nat) :
    HeldX (extAdd e0 (l' ++ l)) w := by
  induction l' with
  | nil => exact h
  | cons k l' ih => exact heldX_cons ih k

theorem lift_agree' {t t' : Tbl} (σ : AsgN) (n : Nat)
    (h : ∀ i, i < n → t'.l2v[i]? = t.l2v[i]?) : ∀ i, i < n → t'.lift σ i = t.lift σ i := by
  intro i hi
  unfold Tbl.lift Tbl.nameOf
  rw [h i hi]

/-- `add_var(v)` for a NEW name, reordering possibly enabled: everything `DynInv` says is kept,
every node keeps its meaning by name -/
theorem addVar_dyn (ext : Nat → Nat) (m : Mgr) (h : DynInv ext m) (v : String) (hnew : m.tbl.vars[v]? = none) :
    DynInv ext (addVarState m v) ∧
      (∀ u, m.tbl.Mem u → (addVarState m v).tbl.Mem u ∧ ∀ σ, denN (addVarState m v).tbl u σ = denN m.tbl u σ) := by
  obtain ⟨hI, hO', hn, hv, hmono, hden, _, _⟩ := addVar_new_spec m h.inv h.order v hnew _ rfl
  refine ⟨⟨hI, hO', h.refs.congr_nodes (fun _ => rfl) rfl, h.ctx, h.sched, h.roots, ?_⟩, ?_⟩
  · have := h.nvars
    show 2 ≤ (addVarState m v).tbl.nvars
    have : 2 ≤ m.tbl.nvars := h.nvars
    omega
  · intro u hu
    obtain ⟨hmem, hd⟩ := hden u hu
    refine ⟨hmem, fun σ => ?_⟩
    unfold denN
    rw [hd]
    apply den_agree_ge m.tbl h.inv.wf.toWF u hu
    intro i _ hi'
    apply lift_agree' σ m.tbl.nvars _ i hi'
    intro j hj
    obtain ⟨x, hx⟩ := h.order.total j hj
    have h1 : m.tbl.vars[x]? = some j := (h.order.inv x j).mpr hx
    rw [hx]
    exact (hO'.inv x j).mp (hmono x j h1)

/-- `bdd.declare(*order)` with reordering possibly enabled -/
theorem declare_dyn (ext : Nat → Nat) (names : List String) :
    ∀ (m : Mgr), DynInv ext m →
      ∃ m', declare names m = (.ok (), m') ∧ DynInv ext m' ∧
        (∀ v ∈ names, (m'.tbl.vars[v]?).isSome) ∧
        (∀ (v : String) (i : Nat), m.tbl.vars[v]? = some i → m'.tbl.vars[v]? = some i) ∧
        m'.tbl.succ = m.tbl.succ ∧ m'.pred = m.pred ∧ m'.roots = m.roots ∧ m'.lastLen = m.lastLen ∧
        (∀ u, m.tbl.Mem u → m'.tbl.Mem u ∧ ∀ σ, denN m'.tbl u σ = denN m.tbl u σ) := by
  induction names with
  | nil => intro m h; exact ⟨m, declare_nil m, h, by simp, fun _ _ h => h, rfl, rfl, rfl, rfl, fun u hu => ⟨hu, fun _ => rfl⟩⟩
  | cons v vs ih =>
    intro m h
    rw [declare_cons]
    cases hex : m.tbl.vars[v]? with
    | some i =>
      rw [(addVar_existing m v i hex).1]
      obtain ⟨m', e1, g1, d1, k1, s1, p1, r1, l1, q1⟩ := ih m h
      refine ⟨m', e1, g1, ?_, k1, s1, p1, r1, l1, q1⟩
      intro x hx
      rcases List.mem_cons.mp hx with h' | h'
      · subst h'; simp [k1 _ i hex]
      · exact d1 x h'
    | none =>
      rw [addVar_new m v hex h.order.l2v_none]
      obtain ⟨hD, hden⟩ := addVar_dyn ext m h v hex
      obtain ⟨_, _, _, hv, hmono, _⟩ := addVar_new_spec m h.inv h.order v hex _ rfl
      obtain ⟨m', e1, g1, d1, k1, s1, p1, r1, l1, q1⟩ := ih (addVarState m v) hD
      refine ⟨m', e1, g1, ?_, fun x i hx => k1 x i (hmono x i hx), s1, p1, r1, l1, ?_⟩
      · intro x hx
        rcases List.mem_cons.mp hx with h' | h'
        · subst h'; simp [k1 _ _ hv]
        · exact d1 x h'
      · intro u hu
        obtain ⟨a1, a2⟩ := hden u hu
        obtain ⟨b1, b2⟩ := q1 u a1
        exact ⟨b1, fun σ => (b2 σ).trans (a2 σ)⟩

/-- what the loader (reordering possibly enabled) needs to know about one node line -/
structure LineN (f : PickleFile) (vat : List (Nat × String)) (vars : TreeMap String Nat) (ln : JLine) : Prop where
  id : ln.id ≠ 1
  find : PEntry.find f.succ ln.id = some ⟨ln.id, ln.lvl, some ln.lo, some ln.hi⟩
  name : ∃ name, vat.lookup ln.lvl = some name ∧ f.nameAt ln.lvl = some name ∧ vars.contains name = true

/-- the loop over the node lines, reordering possibly enabled -/
theorem makeNodes_dyn {f : PickleFile} (hw : PickleWF f) (vat : List (Nat × String)) (e0 : Nat → Nat) :
    ∀ (rest pre : List JLine) (cache : List (Nat × Int)) (m : Mgr) (l : List Nat),
      ChildrenFirst (pre ++ rest) → (∀ ln ∈ rest, LineN f vat m.tbl.vars ln) →
      (∀ l' ∈ pre, (cache.lookup l'.id).isSome) → DynL e0 l m → KeysOK m → ShelfN f m.tbl cache →
      (∀ k u, cache.lookup k = some u → u.natAbs ∈ l) → (cache.map (·.1)).Nodup →
      ∃ added m', makeNodes false vat rest cache m = (.ok (cache ++ added), m') ∧
        DynL e0 (added.map (·.2.natAbs) ++ l) m' ∧ KeysOK m' ∧ ShelfN f m'.tbl (cache ++ added) ∧
        DynKeeps (extAdd e0 l) m m' ∧
        ((cache ++ added).map (·.1)).Nodup ∧ (∀ l' ∈ pre ++ rest, ((cache ++ added).lookup l'.id).isSome) := by
  intro rest
  induction rest with
  | nil =>
    intro pre cache m l _ _ hpre h hk hc _ hn
    exact ⟨[], m, by simp [makeNodes, pure, M.pure'], by simpa using h, hk, by simpa using hc,
      DynKeeps.refl _ h.dyn.refs, by simpa using hn, by simpa using hpre⟩
  | cons ln rest ih =>
    intro pre cache m l hcf hlines hpre h hk hc hheld hn
    have hL := hlines ln List.mem_cons_self
    obtain ⟨elo, ehi⟩ := hcf.split pre ln rest rfl
    have toCache : ∀ c : Int, EdgeOK pre c → c.natAbs = 1 ∨ (cache.lookup c.natAbs).isSome := by
      intro c hc'
      rcases hc' with h1 | ⟨l', hl', hid⟩
      · exact Or.inl h1
      · right; rw [← hid]; exact hpre l' hl'
    have hcf' : ChildrenFirst ((pre ++ [ln]) ++ rest) := by simpa using hcf
    rw [makeNodes]
    by_cases hin : (cache.lookup ln.id).isSome = true
    · have hmk : makeNode false vat ln cache m = (.ok cache, m) := by
        unfold makeNode
        rw [M.bind_eq_ok (assert_ok _ _ (by have := hL.id; obtain ⟨_, _, _, _, _, _, h2, _⟩ := hw.succ.node _ _ hL.find hL.id; simp; omega))]
        simp only [hin, if_true]
        rfl
      rw [M.bind_eq_ok hmk]
      obtain ⟨added, m', e1, g1, k1, c1, q1, n1, a1⟩ := ih (pre ++ [ln]) cache m l hcf'
        (fun l hl => hlines l (List.mem_cons_of_mem _ hl))
        (by intro l' hl'
            rcases List.mem_append.mp hl' with h' | h'
            · exact hpre l' h'
            · simp at h'; subst h'; exact hin) h hk hc hheld hn
      exact ⟨added, m', e1, g1, k1, c1, q1, n1, by simpa using a1⟩
    · have hnew : cache.lookup ln.id = none := by
        cases hh : cache.lookup ln.id with
        | none => rfl
        | some x => simp [hh] at hin
      obtain ⟨name, hvat, hname, hdecl⟩ := hL.name
      obtain ⟨u, m5, emk, g5, k5, c5, q5⟩ := makeNode_dyn hw vat ln e0 l m h hk cache hc hheld hnew hL.find hL.id
        (toCache _ elo) (toCache _ ehi) name hvat hname hdecl
      rw [M.bind_eq_ok emk]
      have hn' : ((cache ++ [(ln.id, u)]).map (·.1)).Nodup := by
        rw [List.map_append, List.nodup_append]
        refine ⟨hn, by simp, ?_⟩
        intro a ha b hb hab
        simp at hb
        subst hb hab
        have := (dmp_lookup_isSome_of_mem_keys cache _).mpr ha
        rw [hnew] at this; cases this
      obtain ⟨added, m', e1, g1, k1, c1, q1, n1, a1⟩ := ih (pre ++ [ln]) (cache ++ [(ln.id, u)])
        m5 (u.natAbs :: l) hcf'
        (fun l hl => by
          have := hlines l (List.mem_cons_of_mem _ hl)
          exact ⟨this.id, this.find, by
            obtain ⟨nm, a, b, c⟩ := this.name
            exact ⟨nm, a, b, by rw [q5.names nm]; exact c⟩⟩)
        (by intro l' hl'
            rw [lookup_append_single]
            rcases List.mem_append.mp hl' with h' | h'
            · obtain ⟨x, hx⟩ := Option.isSome_iff_exists.mp (hpre l' h')
              rw [hx]; rfl
            · simp at h'; subst h'; rw [hnew]; simp) g5 k5 c5
        (by intro k x hkx
            rw [lookup_append_single] at hkx
            cases hck : cache.lookup k with
            | some y =>
              rw [hck] at hkx
              simp only [Option.some.injEq] at hkx
              subst hkx
              exact List.mem_cons_of_mem _ (hheld k y hck)
            | none =>
              rw [hck] at hkx
              simp only at hkx
              split at hkx
              · simp only [Option.some.injEq] at hkx
                subst hkx
                exact List.mem_cons_self
              · cases hkx) hn'
      refine ⟨(ln.id, u) :: added, m', ?_, ?_, k1, ?_, q5.trans q1 (fun w hw => heldX_cons hw _), ?_, ?_⟩
      · rw [e1]; simp
      · apply g1.perm
        simp only [List.map_cons, List.cons_append]
        exact List.perm_middle
      · simpa using c1
      · simpa using n1
      · simpa using a1

/-- the roots of the result, reordering possibly enabled (nothing below runs an operation) -/
theorem rootsFromInts_dyn {f : PickleFile} (hw : PickleWF f) (e0 : Nat → Nat) (cache : List (Nat × Int)) :
    ∀ (ks : List Int) (m : Mgr) (l : List Nat), DynL e0 l m → ShelfN f m.tbl cache →
      (∀ k ∈ ks, k.natAbs = 1 ∨ (cache.lookup k.natAbs).isSome) →
      ∃ us r, rootsFromInts cache ks m = (.ok us, { m with ref := r }) ∧
        DynL e0 (us.map Int.natAbs ++ l) { m with ref := r } ∧
        Forall2 (fun k u => m.tbl.Mem u ∧ ∀ σ, denN m.tbl u σ = evalPickle f k σ) ks us := by
  intro ks
  induction ks with
  | nil =>
    intro m l h _ _
    exact ⟨[], m.ref, rfl, by simpa using h, .nil⟩
  | cons k rest ih =>
    intro m l h hc hres
    obtain ⟨u, r1, e1, g1, mu, _, du, _⟩ := nodeFromInt_dyn hw e0 l m h cache hc k (hres k List.mem_cons_self)
    obtain ⟨us, r2, e2, g2, f2⟩ := ih { m with ref := r1 } _ g1 hc
      (fun k' hk' => hres k' (List.mem_cons_of_mem _ hk'))
    refine ⟨u :: us, r2, ?_, ?_, .cons ⟨mu, du⟩ f2⟩
    · rw [rootsFromInts]
      refine (M.bind_eq_ok e1).trans ?_
      simp only [e2]
    · apply g2.perm
      simp only [List.map_cons, List.cons_append]
      exact List.perm_middle

/-- a shelf entry is fetched (reordering possibly enabled): one more reference on its node -/
theorem fetch_shelfD (e0 : Nat → Nat) (cache : List (Nat × Int)) (hn : (cache.map (·.1)).Nodup)
    (k : Nat) (u0 : Int) (hm : (k, u0) ∈ cache) (hk1 : k ≠ 1) (m : Mgr) (L : List Nat)
    (hg : DynL e0 L m) (hin : u0.natAbs ∈ L) :
    ∃ r, nodeFromInt cache (k : Int) m = (.ok u0, { m with ref := r }) ∧
      DynL e0 (u0.natAbs :: L) { m with ref := r } := by
  have hlk := dmp_lookup_of_mem_nodup cache hn k u0 hm
  have hmem : m.tbl.Mem u0 := (hg.heldX hin).mem hg.dyn.refs
  obtain ⟨r, hw, g⟩ := wrapD e0 L m hg u0 hmem
  refine ⟨r, ?_, g⟩
  unfold DD.nodeFromInt
  have a1 : ¬ ((k : Int) = -1) := by omega
  have a2 : ¬ ((k : Int) = 1) := by omega
  have a3 : ¬ ((k : Int) < 0) := by omega
  have a4 : ((k : Int)).natAbs = k := by simp
  simp only [a1, a2, a3, a4, if_false]
  have hlook : (M.ofOption Err.key (cache.lookup k) : M Int) m = (.ok u0, m) := by rw [hlk]; rfl
  refine (M.bind_eq_ok hlook).trans ?_
  refine (M.bind_eq_ok hw).trans ?_
  rfl

theorem dropOptD (e0 : Nat → Nat) (prev : Option Int) (m : Mgr) (L : List Nat)
    (hg : DynL e0 (prev.toList.map Int.natAbs ++ L) m) :
    ∃ r, dropOpt prev m = { m with ref := r } ∧ DynL e0 L { m with ref := r } := by
  cases prev with
  | none => exact ⟨m.ref, rfl, by simpa using hg⟩
  | some p =>
    simp only [Option.toList, List.map_cons, List.map_nil, List.cons_append, List.nil_append] at hg
    exact dropD e0 L m p hg

/-- the loop that gives the shelf's references back, reordering possibly enabled -/
theorem releaseFailed_dyn (e0 : Nat → Nat) (cache : List (Nat × Int)) (hn : (cache.map (·.1)).Nodup)
    (h1 : ∀ p ∈ cache, p.1 ≠ 1) :
    ∀ (ents : List (Nat × Int)) (prev : Option Int) (m : Mgr) (L : List Nat),
      (∀ p ∈ ents, p ∈ cache) →
      DynL e0 (prev.toList.map Int.natAbs ++ (shelfRefs ents ++ L)) m →
      ∃ last r, releaseFailed cache ents prev m = (.ok (), last, { m with ref := r }) ∧
        DynL e0 (last.toList.map Int.natAbs ++ L) { m with ref := r } := by
  intro ents
  induction ents with
  | nil =>
    intro prev m L _ hg
    exact ⟨prev, m.ref, rfl, by simpa [shelfRefs] using hg⟩
  | cons p rest ih =>
    intro prev m L hsub hg
    obtain ⟨k, u0⟩ := p
    have hmem := hsub _ List.mem_cons_self
    obtain ⟨r1, e1, g1⟩ := fetch_shelfD e0 cache hn k u0 hmem (h1 _ hmem) m _ hg
      (by simp [shelfRefs])
    have g1' : DynL e0 (prev.toList.map Int.natAbs ++ (u0.natAbs :: u0.natAbs :: (shelfRefs rest ++ L)))
        { m with ref := r1 } := by
      apply g1.perm
      simp only [shelfRefs, List.map_cons, List.cons_append]
      exact List.perm_middle.symm
    obtain ⟨r2, ed, g2⟩ := dropOptD e0 prev { m with ref := r1 } _ g1'
    obtain ⟨r3, hd3, g3⟩ := decrefD e0 _ { m with ref := r2 } u0 g2
    obtain ⟨last, r4, e4, g4⟩ := ih (some u0) { m with ref := r3 } L
      (fun p hp => hsub p (List.mem_cons_of_mem _ hp))
      (by simpa using g3)
    refine ⟨last, r4, ?_, g4⟩
    rw [releaseFailed]
    simp only [e1, ed, hd3]
    exact e4

/-- the loop of the checks at the end of the `try:` (`load_order=False`), reordering possibly
enabled: the `ref < 2` assertion passes for every entry of a shelf that is held -/
theorem checkLoop_dyn (e0 : Nat → Nat) (cache : List (Nat × Int)) (hn : (cache.map (·.1)).Nodup)
    (h1 : ∀ p ∈ cache, p.1 ≠ 1) :
    ∀ (ents : List (Nat × Int)) (prev : Option Int) (m : Mgr) (L : List Nat),
      (∀ p ∈ ents, p ∈ cache) → (∀ p ∈ ents, p.2.natAbs ∈ L) →
      DynL e0 (prev.toList.map Int.natAbs ++ L) m →
      ∃ last r, checkLoop false cache ents prev m = (.ok (), last, { m with ref := r }) ∧
        DynL e0 (last.toList.map Int.natAbs ++ L) { m with ref := r } := by
  intro ents
  induction ents with
  | nil =>
    intro prev m L _ _ hg
    exact ⟨prev, m.ref, rfl, hg⟩
  | cons p rest ih =>
    intro prev m L hsub hheld hg
    obtain ⟨k, u0⟩ := p
    have hmem := hsub _ List.mem_cons_self
    have hin : u0.natAbs ∈ L := hheld _ List.mem_cons_self
    obtain ⟨r1, e1, g1⟩ := fetch_shelfD e0 cache hn k u0 hmem (h1 _ hmem) m _ hg
      (List.mem_append_right _ hin)
    have g1' : DynL e0 (prev.toList.map Int.natAbs ++ (u0.natAbs :: L)) { m with ref := r1 } := by
      apply g1.perm
      exact List.perm_middle.symm
    obtain ⟨r2, ed, g2⟩ := dropOptD e0 prev { m with ref := r1 } _ g1'
    have u0mem : ({ m with ref := r2 } : Mgr).tbl.Mem u0 :=
      (g2.heldX List.mem_cons_self).mem g2.dyn.refs
    obtain ⟨c, hc1, hc2⟩ := refOfD e0 _ { m with ref := r2 } g2 u0 u0mem
    have hc3 : 2 ≤ c := by
      have : 0 < L.count u0.natAbs := List.count_pos_iff.mpr hin
      have : 2 ≤ extAdd e0 (u0.natAbs :: L) u0.natAbs := by
        simp [extAdd]; omega
      omega
    have hbody : (refOf u0 >>= fun c => M.assert (decide (2 ≤ c)) >>= fun _ =>
        if false = true then M.assert (decide (3 ≤ c)) else pure ())
        { m with ref := r2 } = (.ok (), { m with ref := r2 }) := by
      refine (M.bind_eq_ok hc1).trans ?_
      refine (M.bind_eq_ok (assert_ok _ _ (by simpa using hc3))).trans ?_
      rfl
    obtain ⟨last, r4, e4, g4⟩ := ih (some u0) { m with ref := r2 } L
      (fun p hp => hsub p (List.mem_cons_of_mem _ hp)) (fun p hp => hheld p (List.mem_cons_of_mem _ hp))
      (by simpa using g2)
    refine ⟨last, r4, ?_, g4⟩
    rw [checkLoop]
    simp only [e1, ed]
    rw [hbody]
    exact e4

/-- the keys of a shelf of regular nodes of the file are not the terminal's -/
theorem shelfN_ids {f : PickleFile} {t : Tbl} {cache : List (Nat × Int)} (hn : (cache.map (·.1)).Nodup)
    (hc : ShelfN f t cache) : ∀ p ∈ cache, p.1 ≠ 1 := by
  intro p hp
  have hlk := dmp_lookup_of_mem_nodup cache hn p.1 p.2 hp
  exact (hc p.1 p.2 hlk).2.2.1


/-! ### `load_json(load_order=False)`, reordering possibly enabled -/

/-- `_copy.load_json(file, bdd, load_order=False)` into a manager with dynamic reordering
possibly ENABLED (any threshold, a request possible at every `find_or_add`): for a well-formed
content the load returns normally; the state is again as between two calls (`DynInv`) for the
caller's ledger plus one reference per returned `Function`; `assert_consistent` passes; the unique
table has no stray key; reordering is enabled afterwards iff it was; declared names stay declared;
every reference the caller holds is still a node and denotes the same function of the variable
NAMES (levels may have changed); the returned container has the shape of the file's and every
root denotes, by name, what the file says. -/
theorem loadJson_dyn_spec (f : JsonFile) (hf : JsonWF f) (tgt : Mgr) (ext : Nat → Nat)
    (hD : DynInv ext tgt) (hpn : PredNodes tgt) :
    ∃ roots' m', loadJson f false tgt = (.ok roots', m') ∧
      DynInv (extAdd ext (roots'.values.map Int.natAbs)) m' ∧ PredNodes m' ∧
      m'.lastLen.isSome = tgt.lastLen.isSome ∧
      (∀ (v : String), tgt.tbl.vars.contains v = true → m'.tbl.vars.contains v = true) ∧
      (∀ v ∈ f.levelOfVar.map (·.1), m'.tbl.vars.contains v = true) ∧
      m'.roots = tgt.roots ∧
      (∀ w, HeldX ext w → m'.tbl.Mem w ∧ ∀ σ, denN m'.tbl w σ = denN tgt.tbl w σ) ∧
      RootsRel (fun u r => m'.tbl.Mem r ∧ ∀ σ, denN m'.tbl r σ = evalJson f u σ) f.roots roots' := by
  obtain ⟨hwf, hcf, hsome, hres, hlines⟩ := hf
  -- 1. declare
  obtain ⟨m1, ed, D1, hdecl, hmono, s1, p1, r1, l1, q1⟩ := declare_dyn ext (f.levelOfVar.map (·.1)) tgt hD
  have hk1 : KeysOK m1 := hpn.keysOK.congr p1
  have L1 : DynL ext [] m1 := ⟨by rw [extAdd_nil]; exact D1, D1.roots⟩
  -- 2. the table of the loader
  let vat := f.levelOfVar.foldl (fun acc (x : String × Nat) => (x.2, x.1) :: acc) []
  have hnames : ∀ var i, (var, i) ∈ f.levelOfVar → f.toPickle.nameAt i = some var := hwf.names
  have hsame : ∀ v v' i, (v, i) ∈ f.levelOfVar → (v', i) ∈ f.levelOfVar → v = v' := by
    intro v v' i h1 h2
    have a := hnames v i h1
    have b := hnames v' i h2
    rw [a] at b; cases b; rfl
  have hvatfacts : ∀ i x, vat.lookup i = some x → (x, i) ∈ f.levelOfVar := by
    intro i x hix
    have hm := lookup_mem vat i x hix
    simp only [vat, vat_eq, List.mem_reverse, List.mem_map] at hm
    obtain ⟨⟨v, l⟩, hvl, heq⟩ := hm
    simp only [Prod.mk.injEq] at heq
    obtain ⟨rfl, rfl⟩ := heq
    exact hvl
  have hvatdom : ∀ v i, (v, i) ∈ f.levelOfVar → (vat.lookup i).isSome := by
    intro v i hvi
    apply lookup_isSome_of_mem vat i v
    simp only [vat, vat_eq, List.mem_reverse, List.mem_map]
    exact ⟨(v, i), hvi, rfl⟩
  have hlineN : ∀ ln ∈ f.nodes, LineN f.toPickle vat m1.tbl.vars ln := by
    intro ln hln
    obtain ⟨hid, hfind⟩ := hlines ln hln
    refine ⟨hid, hfind, ?_⟩
    obtain ⟨var, hvar⟩ := hwf.lvls ln.id _ hfind hid
    have hvar' : (var, ln.lvl) ∈ f.levelOfVar := hvar
    obtain ⟨x, hx⟩ := Option.isSome_iff_exists.mp (hvatdom var ln.lvl hvar')
    have hxv : x = var := hsame _ _ _ (hvatfacts _ _ hx) hvar'
    subst hxv
    refine ⟨x, hx, hnames x ln.lvl hvar', ?_⟩
    rw [TreeMap.contains_eq_isSome_getElem?]
    exact hdecl x (List.mem_map.mpr ⟨(x, ln.lvl), hvar', rfl⟩)
  -- 3. the node lines
  obtain ⟨added, m2, emk, L2, hk2, c2, q2, n2, a2⟩ := makeNodes_dyn hwf vat ext f.nodes [] [] m1 []
    (by simpa using hcf) hlineN (by simp) L1 hk1 (by intro k u h; simp at h) (by intro k u h; simp at h) (by simp)
  simp only [List.nil_append, List.append_nil] at emk L2 c2 n2 a2
  rw [extAdd_nil] at q2
  -- 4. the roots
  have hks : ∀ k ∈ f.roots.values, k.natAbs = 1 ∨ (added.lookup k.natAbs).isSome := by
    intro k hk
    rcases hres k hk with h1 | ⟨en, hen, hid⟩
    · exact Or.inl h1
    · by_cases h1 : k.natAbs = 1
      · exact Or.inl h1
      right
      have hen' : en ∈ (⟨1, f.levelOfVar.length, none, none⟩ : PEntry) :: f.nodes.map JLine.entry := hen
      rcases List.mem_cons.mp hen' with h' | h'
      · subst h'; exact absurd hid.symm h1
      · obtain ⟨ln, hln, rfl⟩ := List.mem_map.mp h'
        have := a2 ln hln
        rw [← hid]; exact this
  obtain ⟨us, r3, er, L3, f3⟩ := rootsFromInts_dyn hwf ext added f.roots.values m2 _ L2 c2 hks
  -- 5. the release of the shelf's references
  have L3' : DynL ext (added.map (·.2.natAbs) ++ (none : Option Int).toList.map Int.natAbs ++ us.map Int.natAbs)
      { m2 with ref := r3 } := by
    apply L3.perm
    simp only [Option.toList, List.map_nil, List.append_nil]
    exact List.perm_append_comm
  have hids := shelfN_ids n2 c2
  obtain ⟨last0, r0, eck, L0⟩ := checkLoop_dyn ext added n2 hids added none { m2 with ref := r3 }
    (shelfRefs added ++ us.map Int.natAbs) (fun _ h => h)
    (fun p hp => List.mem_append_left _ (List.mem_map.mpr ⟨p, hp, rfl⟩))
    (by simpa [shelfRefs] using L3')
  obtain ⟨last, r4, erl, L4⟩ := releaseFailed_dyn ext added n2 hids added last0 { m2 with ref := r0 }
    (us.map Int.natAbs) (fun _ h => h) L0
  have erl : releaseFailed added added last0 { m2 with ref := r0 } = (.ok (), last, { m2 with ref := r4 }) := erl
  have L4 : DynL ext (last.toList.map Int.natAbs ++ us.map Int.natAbs) ({ m2 with ref := r4 } : Mgr) := L4
  obtain ⟨r5, ed5, L5⟩ : ∃ r5, dropOpt last { m2 with ref := r4 } = { m2 with ref := r5 } ∧
      DynL ext (us.map Int.natAbs) { m2 with ref := r5 } := by
    cases last with
    | none => exact ⟨r4, rfl, by simpa using L4⟩
    | some p =>
      simp only [Option.toList, List.map_cons, List.map_nil, List.cons_append, List.nil_append] at L4
      exact dropD ext _ { m2 with ref := r4 } p L4
  -- `assert_consistent`
  have hroots4 : ∀ r ∈ ({ m2 with ref := r4 } : Mgr).roots, ({ m2 with ref := r4 } : Mgr).tbl.Mem r := by
    intro r hr
    exact (DynL.heldX0 (Or.inr (L4.roots0 r hr))).mem L4.dyn.refs
  have hk4 : KeysOK ({ m2 with ref := r4 } : Mgr) := hk2.congr rfl
  have hk5 : KeysOK ({ m2 with ref := r5 } : Mgr) := hk2.congr rfl
  have hac := assertConsistent_ok { m2 with ref := r4 } L4.dyn.inv (hk4.predNodes L4.dyn.inv) hroots4
  obtain ⟨hrel, hvals⟩ := Roots.rebuild_rel (P := fun k u => m2.tbl.Mem u ∧
      ∀ σ, denN m2.tbl u σ = evalPickle f.toPickle k σ) f.roots hsome us f3
  refine ⟨f.roots.rebuild us, { m2 with ref := r5 }, ?_, by rw [hvals]; exact L5.dyn,
    hk5.predNodes L5.dyn.inv, ?_, ?_, ?_, ?_, ?_, ?_⟩
  · rw [loadJson_false_eq, jsonTry_ok f false hsome tgt m1 m2 { m2 with ref := r3 } { m2 with ref := r0 }
      added us last0 (jsonHeader_false f tgt m1 ed) emk er eck]
    unfold jsonFinish
    simp only [erl, Bool.false_eq_true, if_false]
    have hfin : (liftE (Except.ok ()) >>= fun _ => dmpAssertConsistent >>= fun _ => (pure () : M Unit))
        { m2 with ref := r4 } = (.ok (), { m2 with ref := r4 }) := by
      refine (M.bind_eq_ok (show liftE (Except.ok ()) { m2 with ref := r4 } = (.ok (), { m2 with ref := r4 }) from rfl)).trans ?_
      refine (M.bind_eq_ok hac).trans ?_
      rfl
    rw [hfin]
    simp only [ed5]
  · show m2.lastLen.isSome = _
    rw [q2.enabled, l1]
  · intro v hv
    show m2.tbl.vars.contains v = true
    rw [q2.names v]
    rw [TreeMap.contains_eq_isSome_getElem?] at hv ⊢
    obtain ⟨i, hi⟩ := Option.isSome_iff_exists.mp hv
    rw [hmono v i hi]; rfl
  · intro v hv
    show m2.tbl.vars.contains v = true
    rw [q2.names v, TreeMap.contains_eq_isSome_getElem?]
    exact hdecl v hv
  · show m2.roots = _
    rw [q2.roots, r1]
  · intro w hw0
    have hw1 : m1.tbl.Mem w ∧ ∀ σ, denN m1.tbl w σ = denN tgt.tbl w σ := q1 w (hw0.mem hD.refs)
    obtain ⟨b1, b2⟩ := q2.held w hw0
    exact ⟨b1, fun σ => (b2 σ).trans (hw1.2 σ)⟩
  · exact hrel


/-! ### the statements -/

/-- the two "function of the names" readings agree where every level is named -/
theorem denBy_eq_denN (t : Tbl) (hw : WF t) (hnamed : ∀ l, l < t.nvars → (t.l2v[l]?).isSome)
    (u : Int) (hu : t.Mem u) (α : String → Bool) : denBy t u α = denN t u α := by
  unfold denBy denN
  apply den_agree' t hw u hu
  intro i hi
  obtain ⟨v, hv⟩ := Option.isSome_iff_exists.mp (hnamed i hi)
  simp [Tbl.asg, Tbl.lift, Tbl.nameOf, hv]

/-- the state after `load_json(load_order=False)` into a manager with reordering possibly
enabled: as between two calls (`DynInv`) for the caller's ledger plus one reference per returned
`Function`; no stray unique-table entry (`assert_consistent` passes); reordering enabled iff it
was; the caller's names and the file's names are declared; `bdd.roots` untouched; every
reference the caller holds is still a node and denotes the same function of the variable NAMES;
the result has the shape of the file's container and denotes, by name, what the file says -/
structure JsonLoadedDyn (f : JsonFile) (ext : Nat → Nat) (tgt : Mgr) (roots' : Roots) (m' : Mgr) : Prop where
  dyn : DynInv (extAdd ext (roots'.values.map Int.natAbs)) m'
  pred : PredNodes m'
  reordering : m'.lastLen.isSome = tgt.lastLen.isSome
  oldNames : ∀ v : String, tgt.tbl.vars.contains v = true → m'.tbl.vars.contains v = true
  fileNames : ∀ v ∈ f.levelOfVar.map (·.1), m'.tbl.vars.contains v = true
  regRoots : m'.roots = tgt.roots
  held : ∀ w, HeldX ext w → m'.tbl.Mem w ∧ ∀ σ, denN m'.tbl w σ = denN tgt.tbl w σ
  roots : RootsRel (fun u r => m'.tbl.Mem r ∧ ∀ σ, denN m'.tbl r σ = evalJson f u σ) f.roots roots'

/-- C12 for `_copy.load_json(load_order=False)` with dynamic reordering ENABLED in the receiving
manager (any threshold; a request may come at any `find_or_add` of the decorated `var` / `ite`
the loader calls, sifting runs and the call is retried) -/
def json_load_dyn_statement : Prop :=
  ∀ (f : JsonFile) (tgt : Mgr) (ext : Nat → Nat), JsonWF f → DynInv ext tgt → PredNodes tgt →
    ∃ roots' m', loadJson f false tgt = (.ok roots', m') ∧ JsonLoadedDyn f ext tgt roots' m'

theorem json_load_dyn_holds : json_load_dyn_statement := by
  intro f tgt ext hf hD hpn
  obtain ⟨roots', m', el, a, b, c, d, e, g, h, i⟩ := loadJson_dyn_spec f hf tgt ext hD hpn
  exact ⟨roots', m', el, a, b, c, d, e, g, h, i⟩

/-- JSON round trip with reordering possibly enabled in the receiving manager -/
def json_roundtrip_dyn_statement : Prop :=
  ∀ (src : Mgr) (roots : Roots) (f : JsonFile) (tgt : Mgr) (ext : Nat → Nat),
    Inv src → DmpVarsOK src.tbl → dumpJson src roots = .ok f → DynInv ext tgt → PredNodes tgt →
    ∃ roots' m', loadJson f false tgt = (.ok roots', m') ∧ JsonLoadedDyn f ext tgt roots' m' ∧
      LoadedAs src.tbl roots m'.tbl roots'

theorem json_roundtrip_dyn_holds : json_roundtrip_dyn_statement := by
  intro src roots f tgt ext hIs hvs hd hD hpn
  have hf := dumpJson_jsonWF hIs hvs hd
  obtain ⟨_, hroots', _⟩ := dumpJson_parts hd
  obtain ⟨_, _, hev⟩ := dumpJson_spec hIs hvs hd
  obtain ⟨roots', m', el, L⟩ := json_load_dyn_holds f tgt ext hf hD hpn
  refine ⟨roots', m', el, L, ?_⟩
  have R := L.roots
  rw [hroots'] at R
  apply R.imp_mem
  intro u hu r ⟨h1, h2⟩
  refine ⟨h1, fun α => ?_⟩
  rw [denBy_eq_denN m'.tbl L.dyn.inv.wf.toWF
    (fun l hl => by obtain ⟨v, hv⟩ := L.dyn.order.total l hl; simp [hv]) r h1 α, h2 α, hev α u hu]

/-! ### `load_order=True` with reordering enabled: `configure(reordering=False)` comes first -/

theorem loadJson_true_off (f : JsonFile) (tgt : Mgr) :
    loadJson f true tgt = loadJson f true { tgt with lastLen := none } := by
  rw [loadJson_true_eq, loadJson_true_eq]

theorem DynInv.goodOff {ext : Nat → Nat} {m : Mgr} (h : DynInv ext m) :
    GoodState { m with lastLen := none } ext :=
  ⟨⟨h.inv.wf, h.inv.pred, h.inv.freeGe, h.inv.free, h.inv.refOne, h.inv.refDom, h.inv.cache⟩,
    h.order, h.refs.congr_nodes (fun _ => rfl) rfl, rfl, h.ctx⟩

/-- `load_json(load_order=True)` into a manager with dynamic reordering ENABLED: the loader
switches it off first, so the run is the run of `C12_json_load` from the same manager with the
switch off; afterwards it is enabled (finding F10 for managers that had it off) -/
theorem json_load_order_dyn (f : JsonFile) (tgt : Mgr) (ext : Nat → Nat) (hf : JsonWF f)
    (hD : DynInv ext tgt) (hpn : PredNodes tgt) (hrt : Rooted f)
    (hnd : (f.levelOfVar.map (·.1)).Nodup)
    (hsub : ∀ v : String, tgt.tbl.vars.contains v = true → v ∈ f.levelOfVar.map (·.1)) :
    ∃ roots' m', loadJson f true tgt = (.ok roots', m') ∧ JsonLoaded f ext true roots' m' := by
  rw [loadJson_true_off]
  exact json_load_holds f true { tgt with lastLen := none } ext hf hD.goodOff (hpn.congr rfl rfl)
    (fun r hr => (HeldX.mem hD.refs (Or.inr (hD.roots r hr)) : tgt.tbl.Mem r))
    (fun _ => ⟨hrt, hnd, hD.sched, hD.roots, hsub⟩)


end DD
