/-
  DDProofs.DynQuantify — abort-aware specification of `_quantify`: inside a reordering context
  (or with requests disabled) the recursion returns the documented quantification or is aborted
  by a reordering request — raised by `find_or_add` or by the NESTED decorated `ite`, which
  re-raises it — having only added nodes.
-/
import DDProofs.DynCofactor
open Std

namespace DD

/-- `_quantify`, abort-aware -/
theorem quantifyF_out (Q : List Nat) (fa : Bool) :
    ∀ (f : Nat) (m : Mgr) (u : Int) (ordvar : List Nat) (cache : HashMap Int Int),
    Inv m → Quiet m → m.tbl.Mem u → QMemo fa Q m.tbl cache →
    (∀ j, j ∈ Q → m.tbl.levelOf u ≤ j → j ∈ ordvar) →
    m.nvars + 1 ≤ f + m.tbl.levelOf u →
    Outcome2 m (fun r c m' => QMemo fa Q m'.tbl c ∧ QEntry fa Q m'.tbl u r)
      (quantifyF Q fa f u ordvar cache m) := by
  intro f
  induction f with
  | zero =>
    intro m u ordvar cache hI _ hu _ _ hf
    have := levelOf_le m.tbl hI.wf.toWF u
    have : m.nvars = m.tbl.nvars := rfl
    omega
  | succ f ih =>
    intro m u ordvar cache hI hq hu hmemo hord hf
    have hW := hI.wf.toWF
    unfold quantifyF
    by_cases h1 : u.natAbs = 1
    · simp only [h1, if_true]
      refine Outcome2.ok (StepK.refl hI) ⟨hmemo, QEntry.self fa Q m.tbl hW u hu ?_⟩
      intro j _ hle hlt
      rw [levelOf_term m.tbl u h1] at hle
      omega
    · simp only [h1, if_false]
      cases hc : cache[u]? with
      | some r => exact Outcome2.ok (StepK.refl hI) ⟨hmemo, hmemo u r hc⟩
      | none =>
        simp only
        obtain ⟨n, hn⟩ := mem_node hu h1
        have hn' : m.tbl.succ[u.natAbs]? = some n := hn
        rw [hn']
        simp only [node_succ_ne_zero hW hn, if_false]
        have hlu := levelOf_node m.tbl u n h1 hn
        have hlo := hW.lo_lt _ _ hn
        have hhi := hW.hi_lt _ _ hn
        have hltn := hW.lvl_lt _ _ hn
        have hnv : m.nvars = m.tbl.nvars := rfl
        have hord' : ∀ j, j ∈ Q → n.lvl ≤ j → j ∈ ordvar.dropWhile (· < n.lvl) := by
          intro j hj hle
          exact mem_dropWhile_of_not _ j ordvar (hord j hj (by omega)) (by simpa using hle)
        generalize ordvar.dropWhile (· < n.lvl) = ov at hord' ⊢
        by_cases hemp : ov.isEmpty = true
        · simp only [hemp, if_true]
          refine Outcome2.ok (StepK.refl hI) ⟨hmemo, QEntry.self fa Q m.tbl hW u hu ?_⟩
          intro j hj hle _
          have := hord' j hj (by omega)
          rw [List.isEmpty_iff.mp hemp] at this
          cases this
        · simp only [hemp, Bool.false_eq_true, if_false]
          generalize hv : (if u < 0 then -n.lo else n.lo) = v
          generalize hw : (if u < 0 then -n.hi else n.hi) = w
          have hvm : m.tbl.Mem v := by rw [← hv]; exact mem_flip u (hW.lo_mem _ _ hn)
          have hwm : m.tbl.Mem w := by rw [← hw]; exact mem_flip u (hW.hi_mem _ _ hn)
          have hvl : n.lvl < m.tbl.levelOf v := by rw [← hv, levelOf_flip]; exact hlo
          have hwl : n.lvl < m.tbl.levelOf w := by rw [← hw, levelOf_flip]; exact hhi
          rcases (ih m v ov cache
            hI hq hvm hmemo (fun j hj hle => hord' j hj (by omega)) (by omega)).cases with
            ⟨p, c1, m1, he1, hs1, hm1, hp1⟩ | ⟨m1, he1, hs1, ha1⟩
          rotate_left
          · rw [he1]; exact Outcome2.abort0 hs1 ha1
          rw [he1]
          simp only
          have hW1 := hs1.inv.wf.toWF
          rcases (ih m1 w ov c1
            hs1.inv (hq.step hs1) (hs1.ext.mem hwm) hm1
            (fun j hj hle => hord' j hj (by rw [hs1.ext.levelOf hwm] at hle; omega))
            (by rw [hs1.nvars, hs1.ext.levelOf hwm]; omega)).cases with
            ⟨q, c2, m2, he2, hs2, hm2, hp2⟩ | ⟨m2, he2, hs2, ha2⟩
          rotate_left
          · rw [he2]; exact Outcome2.abort hs1 hs2 ha2
          rw [he2]
          simp only
          have hW2 := hs2.inv.wf.toWF
          have hp1' := hp1.ext hW1 hs2.ext
          have hs12 := hs1.trans hs2
          have hq2 := hq.step hs12
          have hlp : n.lvl < m2.tbl.levelOf p := by
            have := hp1'.lvl
            rw [hs12.ext.levelOf hvm] at this
            omega
          have hlq : n.lvl < m2.tbl.levelOf q := by
            have := hp2.lvl
            rw [hs12.ext.levelOf hwm] at this
            omega
          -- common conclusion, given the combining step
          have hfin : ∀ r3 m3, StepK m2 m3 → m3.tbl.Mem r3 → n.lvl ≤ m3.tbl.levelOf r3 →
              (∀ a, den m3.tbl r3 a = true ↔ qsem fa Q (den m3.tbl u) a) →
              Outcome2 m (fun r c m' => QMemo fa Q m'.tbl c ∧ QEntry fa Q m'.tbl u r)
                ((Except.ok (r3, c2.insert u r3), m3) : Except Err (Int × HashMap Int Int) × Mgr) := by
            intro r3 m3 hs3 hr3 hl3 hd3
            have hs := hs12.trans hs3
            have hent : QEntry fa Q m3.tbl u r3 :=
              ⟨hs.ext.mem hu, hr3, by rw [hs.ext.levelOf hu, hlu]; exact hl3, hd3⟩
            exact Outcome2.ok hs ⟨(hm2.ext hW2 hs3.ext).insert hent, hent⟩
          -- Shannon expansion of `u` in a later table
          have hexp : ∀ m3, StepK m2 m3 → (∀ a, den m3.tbl u a =
                if a n.lvl then den m3.tbl w a else den m3.tbl v a) ∧
              (∀ a x, den m3.tbl v (upd a n.lvl x) = den m3.tbl v a) ∧
              (∀ a x, den m3.tbl w (upd a n.lvl x) = den m3.tbl w a) := by
            intro m3 hs3
            have hs := hs12.trans hs3
            have hW3 := hs3.inv.wf.toWF
            refine ⟨?_, ?_, ?_⟩
            · intro a
              rw [← hv, ← hw]
              exact den_flip_node m3.tbl hW3 u n a h1 (hs.ext.nodes _ _ hn)
            · intro a x
              exact den_indep' m3.tbl hW3 v (hs.ext.mem hvm) n.lvl x a
                (by rw [hs.ext.levelOf hvm]; exact hvl)
            · intro a x
              exact den_indep' m3.tbl hW3 w (hs.ext.mem hwm) n.lvl x a
                (by rw [hs.ext.levelOf hwm]; exact hwl)
          by_cases hqn : n.lvl ∈ Q
          · have hqc : Q.contains n.lvl = true := by simpa using hqn
            simp only [hqc, if_true]
            cases fa with
            | true =>
              simp only [if_true]
              rcases (ite_nested_spec m2 hs2.inv hq2 p q (-1)
                hp1'.mr hp2.mr (mem_neg_one _)).cases with
                ⟨r3, m3, he3, hk3, hp3⟩ | ⟨m3, he3, hk3, ha3⟩
              rotate_left
              · rw [he3]; exact Outcome2.abort hs12 hk3 ha3
              rw [he3]
              simp only
              obtain ⟨hx, h0, h1'⟩ := hexp m3 hk3
              have hp1'' := hp1'.ext hW2 hp3.ext
              have hp2'' := hp2.ext hW2 hp3.ext
              refine hfin r3 m3 hk3 hp3.mem ?_ ?_
              · have := hp3.lvl
                rw [levelOf_neg_one] at this
                have := levelOf_le m2.tbl hW2 q
                omega
              · intro a
                rw [qsem_split_in true Q _ _ _ n.lvl hqn hx h0 h1' a]
                simp only
                rw [← hp1''.den a, ← hp2''.den a, hp3.den a, den_neg_one,
                  ← den_ext hp3.ext hW2 p a hp1'.mr, ← den_ext hp3.ext hW2 q a hp2.mr]
                exact bool_and_true_iff _ _
            | false =>
              simp only [Bool.false_eq_true, if_false]
              rcases (ite_nested_spec m2 hs2.inv hq2 p 1 q
                hp1'.mr (mem_one _) hp2.mr).cases with
                ⟨r3, m3, he3, hk3, hp3⟩ | ⟨m3, he3, hk3, ha3⟩
              rotate_left
              · rw [he3]; exact Outcome2.abort hs12 hk3 ha3
              rw [he3]
              simp only
              obtain ⟨hx, h0, h1'⟩ := hexp m3 hk3
              have hp1'' := hp1'.ext hW2 hp3.ext
              have hp2'' := hp2.ext hW2 hp3.ext
              refine hfin r3 m3 hk3 hp3.mem ?_ ?_
              · have := hp3.lvl
                rw [levelOf_one] at this
                have := levelOf_le m2.tbl hW2 q
                omega
              · intro a
                rw [qsem_split_in false Q _ _ _ n.lvl hqn hx h0 h1' a]
                simp only
                rw [← hp1''.den a, ← hp2''.den a, hp3.den a, den_one,
                  ← den_ext hp3.ext hW2 p a hp1'.mr, ← den_ext hp3.ext hW2 q a hp2.mr]
                exact bool_or_true_iff _ _
          · have hqc : Q.contains n.lvl = false := by simpa using hqn
            simp only [hqc, Bool.false_eq_true, if_false]
            rcases (findOrAdd_out m2 hs2.inv n.lvl p q
              (by rw [hs12.nvars]; exact hltn) hp1'.mr hp2.mr hlp hlq).cases with
              ⟨r3, m3, he3, hk3, hp3⟩ | ⟨m3, he3, hk3, ha3⟩
            rotate_left
            · rw [he3]; exact Outcome2.abort hs12 hk3 ha3
            rw [he3]
            simp only
            obtain ⟨hx, _, _⟩ := hexp m3 hk3
            have hp1'' := hp1'.ext hW2 hp3.ext
            have hp2'' := hp2.ext hW2 hp3.ext
            refine hfin r3 m3 hk3 hp3.mem hp3.lvl ?_
            intro a
            rw [qsem_split_out fa Q _ _ _ n.lvl hqn hx a, ← hp1''.den a, ← hp2''.den a, hp3.den a,
              ← den_ext hp3.ext hW2 p a hp1'.mr, ← den_ext hp3.ext hW2 q a hp2.mr]
            cases a n.lvl <;> simp

/-- `quantifyF_spec` (requests disabled: total) as a corollary of the abort-aware version -/
theorem quantifyF_spec_off' (Q : List Nat) (fa : Bool) (f : Nat) (m : Mgr) (u : Int)
    (ordvar : List Nat) (cache : HashMap Int Int) (hI : Inv m) (hoff : m.lastLen = none)
    (hu : m.tbl.Mem u) (hmemo : QMemo fa Q m.tbl cache)
    (hord : ∀ j, j ∈ Q → m.tbl.levelOf u ≤ j → j ∈ ordvar)
    (hf : m.nvars + 1 ≤ f + m.tbl.levelOf u) :
    ∃ r c' m', quantifyF Q fa f u ordvar cache m = (.ok (r, c'), m') ∧ Step m m' ∧
      QMemo fa Q m'.tbl c' ∧ QEntry fa Q m'.tbl u r := by
  obtain ⟨r, c', m', he, hs, hm, hp⟩ :=
    (quantifyF_out Q fa f m u ordvar cache hI (Or.inr hoff) hu hmemo hord hf).off hoff
  exact ⟨r, c', m', he, hs.step, hm, hp⟩

end DD
