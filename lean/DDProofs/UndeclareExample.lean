/-
  DDProofs.UndeclareExample — a concrete small manager built by model operations from the
  empty manager, used for the non-vacuity examples of C14 (removal).  Variables `a` (level 0),
  `b` (level 1), `c` (level 2); nodes 2 = `c`, 3 = `a ∧ c`; no node at the level of `b`.
-/
import DDProofs.Undeclare
import DDProofs.FindOrAdd
open Std

namespace DD

def undeclEx0 : Mgr := addVarState (addVarState (addVarState {} "a") "b") "c"
/-- node 2 = `c` -/
def undeclEx1 : Mgr := (findOrAddCore 2 (-1) 1 undeclEx0).2
/-- node 3 = `a ∧ c` : the example manager -/
def undeclExM : Mgr := (findOrAddCore 0 (-1) 2 undeclEx1).2

theorem OrderOK.of_eq {t t' : Tbl} (h : OrderOK t) (hv : t'.vars = t.vars) (hl : t'.l2v = t.l2v) :
    OrderOK t' := by
  have hn : t'.nvars = t.nvars := by unfold Tbl.nvars; rw [hv]
  refine ⟨?_, ?_, ?_⟩
  · intro v i; rw [hv, hl]; exact h.inv v i
  · intro v i; rw [hv, hn]; exact h.lt v i
  · intro i; rw [hl, hn]; exact h.total i

theorem undeclEx0_ok : Inv undeclEx0 ∧ OrderOK undeclEx0.tbl := by
  have s1 := addVar_new_spec {} Inv.init OrderOK.empty "a" (by decide) _ rfl
  have s2 := addVar_new_spec _ s1.1 s1.2.1 "b" (by decide) _ rfl
  have s3 := addVar_new_spec _ s2.1 s2.2.1 "c" (by decide) _ rfl
  exact ⟨s3.1, s3.2.1⟩

theorem undeclEx1_ok : Inv undeclEx1 ∧ OrderOK undeclEx1.tbl := by
  obtain ⟨r, m', h, post⟩ := findOrAddCore_spec undeclEx0 undeclEx0_ok.1 2 (-1) 1
    (by decide) (by decide) (by decide) (by decide) (by decide)
  have : undeclEx1 = m' := by unfold undeclEx1; rw [h]
  rw [this]
  exact ⟨post.inv, undeclEx0_ok.2.of_eq post.frame.vars post.frame.l2v⟩

/-- the example manager satisfies the invariant and has a valid order -/
theorem undeclExM_ok : Inv undeclExM ∧ OrderOK undeclExM.tbl := by
  obtain ⟨r, m', h, post⟩ := findOrAddCore_spec undeclEx1 undeclEx1_ok.1 0 (-1) 2
    (by decide) (by decide) (by decide) (by decide) (by decide)
  have : undeclExM = m' := by unfold undeclExM; rw [h]
  rw [this]
  exact ⟨post.inv, undeclEx1_ok.2.of_eq post.frame.vars post.frame.l2v⟩

/-- a level outside the computed list of node levels carries no node -/
theorem not_levelHasNode_of_not_mem (t : Tbl) (l : Nat) (h : l ∉ undeclNodeLevels t) :
    ¬ t.LevelHasNode l :=
  fun hn => h ((mem_undeclNodeLevels t l).mpr (Or.inr hn))

/-- `b` is declared and its level carries no node -/
theorem undeclExM_b : ∀ v ∈ ["b"], ∃ l, undeclExM.tbl.vars[v]? = some l ∧ ¬ undeclExM.tbl.LevelHasNode l := by
  intro v hv
  rw [List.mem_singleton] at hv
  subst hv
  exact ⟨1, by decide, not_levelHasNode_of_not_mem _ _ (by decide)⟩

/-- `a` is declared and its level carries node 3 -/
theorem undeclExM_a : ∃ l, undeclExM.tbl.vars["a"]? = some l ∧ undeclExM.tbl.LevelHasNode l :=
  ⟨0, by decide, 3, ⟨0, -1, 2⟩, by decide, rfl⟩

end DD
