/-
  DDProofs.SmallReorder — `reorder(bdd, order)` / `_sort_to_order` for an ARBITRARY table
  `order` of the right length (C17, "bad order").  The code checks only `len(order)`; the names
  are looked up (`order[x]`, `order[y]`) when the bubble sort compares two adjacent levels, so a
  missing name raises `KeyError` in the middle of the first pass, after some swaps.  Levels are
  only compared (`p > q`): duplicates, gaps and out-of-range numbers are not rejected at all.
  Proved against the abstract contract of one adjacent swap (`SwapOK`, DDProofs.OrderAbs).
-/
import DDProofs.OrderAbs
open Std

namespace DD

/-- success in a state satisfying `Q`, or an exception allowed by `E` (the model's schedule
mismatch), or `KeyError` in a state satisfying `Q` -/
def OkOrKey {α} (E : Err → Prop) (Q : Mgr → Prop) : Except Err α × Mgr → Prop
  | (.ok _, m') => Q m'
  | (.error e, m') => E e ∨ (e = Err.key ∧ Q m')

section Abs
variable {E : Err → Prop} {P : Mgr → Prop} {R : Mgr → Mgr → Prop}

/-- one comparison of the bubble sort, any table `order` -/
theorem sortStep_any (S : SwapOK E P R) (order : List (String × Int)) (m : Mgr) (i : Nat)
    (hP : P m) (hi : i + 1 < m.nvars) :
    OkOrKey E (fun m' => P m' ∧ R m m' ∧ m'.nvars = m.nvars ∧
        (∀ j, j ≠ i → j ≠ i + 1 → m'.tbl.l2v[j]? = m.tbl.l2v[j]?)) (sortStep order i m) ∧
    (∀ x, (m.tbl.l2v[i]? = some x ∨ m.tbl.l2v[i + 1]? = some x) → order.lookup x = none →
      ∃ e m', sortStep order i m = (.error e, m')) := by
  obtain ⟨x, hx⟩ := (S.vars m hP).total i (by show i < m.nvars; omega)
  obtain ⟨y, hy⟩ := (S.vars m hP).total (i + 1) hi
  unfold sortStep
  rw [M.bind_ok (checkRoots_ok m (S.roots m hP)), M.bind_ok (varAtLevel_ok m i x hx)]
  have hy' : varAtLevel ((i : Int) + 1) m = (.ok y, m) := varAtLevel_ok m (i + 1) y hy
  rw [M.bind_ok hy']
  have hQ0 : P m ∧ R m m ∧ m.nvars = m.nvars ∧
      (∀ j, j ≠ i → j ≠ i + 1 → m.tbl.l2v[j]? = m.tbl.l2v[j]?) :=
    ⟨hP, S.refl m, rfl, fun _ _ _ => rfl⟩
  cases hp : order.lookup x with
  | none =>
    simp only [M.bind_eq, M.ofOption_none]
    exact ⟨Or.inr ⟨rfl, hQ0⟩, fun _ _ _ => ⟨_, _, rfl⟩⟩
  | some p =>
    cases hq : order.lookup y with
    | none =>
      simp only [M.bind_eq, M.ofOption_some, M.ofOption_none]
      exact ⟨Or.inr ⟨rfl, hQ0⟩, fun _ _ _ => ⟨_, _, rfl⟩⟩
    | some q =>
      simp only [M.bind_eq, M.ofOption_some]
      have hcov : ∀ z, (m.tbl.l2v[i]? = some z ∨ m.tbl.l2v[i + 1]? = some z) →
          order.lookup z = none → False := by
        intro z hz hn
        rcases hz with hz | hz
        · rw [hx] at hz; cases hz; rw [hp] at hn; cases hn
        · rw [hy] at hz; cases hz; rw [hq] at hn; cases hn
      by_cases hgt : p > q
      · simp only [hgt, if_true]
        rw [M.bind_eq, swap_levels_eq m i hi]
        have := S.step m i hP hi
        generalize swapBody i (i + 1) m = res at this
        obtain ⟨r, m'⟩ := res
        cases r with
        | error e => exact ⟨Or.inl this, fun z hz hn => (hcov z hz hn).elim⟩
        | ok r =>
          obtain ⟨hP', hR, he, _⟩ := this
          refine ⟨⟨hP', hR, he.nvars, ?_⟩, fun z hz hn => (hcov z hz hn).elim⟩
          intro j h1 h2
          rw [he.l2v j, swp_other h1 h2]
      · simp only [hgt, if_false]
        exact ⟨hQ0, fun z hz hn => (hcov z hz hn).elim⟩

/-- a pass over the levels `i, i+1, …, i+len-1`, any table `order`: the state is kept
(`P`, `R`) whether the pass returns or raises `KeyError`; levels beyond the compared ones keep
their names -/
theorem sortInner_any (S : SwapOK E P R) (order : List (String × Int)) (n : Nat) :
    ∀ (len i : Nat) (m : Mgr), P m → m.nvars = n → i + len + 1 ≤ n →
    OkOrKey E (fun m' => P m' ∧ R m m' ∧ m'.nvars = n ∧
        (∀ j, j < i ∨ i + len < j → m'.tbl.l2v[j]? = m.tbl.l2v[j]?))
      (sortInner order (List.range' i len) m) := by
  intro len
  induction len with
  | zero =>
    intro i m hP hn _
    exact ⟨hP, S.refl m, hn, fun _ _ => rfl⟩
  | succ len ih =>
    intro i m hP hn hlen
    rw [List.range'_succ]
    unfold sortInner
    have h1 := (sortStep_any S order m i hP (by omega)).1
    rw [M.bind_eq]
    generalize sortStep order i m = res at h1
    obtain ⟨r, m1⟩ := res
    cases r with
    | error e =>
      rcases h1 with h1 | ⟨h1, hP1, hR1, hn1, hk1⟩
      · exact Or.inl h1
      · exact Or.inr ⟨h1, hP1, hR1, hn1.trans hn, fun j hj => hk1 j (by omega) (by omega)⟩
    | ok u =>
      obtain ⟨hP1, hR1, hn1, hk1⟩ := h1
      have h2 := ih (i + 1) m1 hP1 (hn1.trans hn) (by omega)
      show OkOrKey E _ (sortInner order (List.range' (i + 1) len) m1)
      generalize sortInner order (List.range' (i + 1) len) m1 = res2 at h2
      obtain ⟨r2, m2⟩ := res2
      cases r2 with
      | error e =>
        rcases h2 with h2 | ⟨h2, hP2, hR2, hn2, hk2⟩
        · exact Or.inl h2
        · refine Or.inr ⟨h2, hP2, S.trans _ _ _ hR1 hR2, hn2, fun j hj => ?_⟩
          rw [hk2 j (by omega), hk1 j (by omega) (by omega)]
      | ok u2 =>
        obtain ⟨hP2, hR2, hn2, hk2⟩ := h2
        refine ⟨hP2, S.trans _ _ _ hR1 hR2, hn2, fun j hj => ?_⟩
        rw [hk2 j (by omega), hk1 j (by omega) (by omega)]

/-- a pass that meets a variable without a requested rank never returns normally -/
theorem sortInner_missing (S : SwapOK E P R) (order : List (String × Int)) (n : Nat) :
    ∀ (len i : Nat) (m : Mgr), P m → m.nvars = n → i + len + 1 ≤ n →
    (∃ j v, i ≤ j ∧ j ≤ i + len ∧ 0 < len ∧ m.tbl.l2v[j]? = some v ∧ order.lookup v = none) →
    ∃ e m', sortInner order (List.range' i len) m = (.error e, m') := by
  intro len
  induction len with
  | zero => intro i m _ _ _ ⟨j, v, _, _, h, _⟩; omega
  | succ len ih =>
    intro i m hP hn hlen ⟨j, v, hj1, hj2, _, hv, hnone⟩
    rw [List.range'_succ]
    unfold sortInner
    obtain ⟨h1, h1'⟩ := sortStep_any S order m i hP (by omega)
    rw [M.bind_eq]
    by_cases hnear : j = i ∨ j = i + 1
    · obtain ⟨e, m', he⟩ := h1' v (by rcases hnear with h | h <;> subst h <;> simp [hv]) hnone
      rw [he]; exact ⟨e, m', rfl⟩
    · generalize sortStep order i m = res at h1
      obtain ⟨r, m1⟩ := res
      cases r with
      | error e => exact ⟨e, m1, rfl⟩
      | ok u =>
        obtain ⟨hP1, _, hn1, hk1⟩ := h1
        show ∃ e m', sortInner order (List.range' (i + 1) len) m1 = (.error e, m')
        refine ih (i + 1) m1 hP1 (hn1.trans hn) (by omega) ⟨j, v, by omega, by omega, by omega, ?_, hnone⟩
        rw [hk1 j (by omega) (by omega)]; exact hv

/-- `for k in range(n)`: the state is kept through any number of passes -/
theorem sortOuter_any (S : SwapOK E P R) (order : List (String × Int)) (n : Nat) :
    ∀ (k : Nat) (m : Mgr), P m → m.nvars = n →
    OkOrKey E (fun m' => P m' ∧ R m m' ∧ m'.nvars = n) (sortOuter order n k m) := by
  intro k
  induction k with
  | zero => intro m hP hn; exact ⟨hP, S.refl m, hn⟩
  | succ k ih =>
    intro m hP hn
    unfold sortOuter
    rw [M.bind_eq]
    by_cases hn0 : n = 0
    · subst hn0
      show OkOrKey E _ (match sortInner order (List.range (0 - 1)) m with
        | (.ok a, m') => sortOuter order 0 k m'
        | (.error e, m') => (.error e, m'))
      have : sortInner order (List.range (0 - 1)) m = (.ok (), m) := rfl
      rw [this]
      exact ih m hP hn
    have h1 := sortInner_any S order n (n - 1) 0 m hP hn (by omega)
    rw [← List.range_eq_range'] at h1
    generalize sortInner order (List.range (n - 1)) m = res at h1
    obtain ⟨r, m1⟩ := res
    cases r with
    | error e =>
      rcases h1 with h1 | ⟨h1, hP1, hR1, hn1, _⟩
      · exact Or.inl h1
      · exact Or.inr ⟨h1, hP1, hR1, hn1⟩
    | ok u =>
      obtain ⟨hP1, hR1, hn1, _⟩ := h1
      have h2 := ih m1 hP1 hn1
      show OkOrKey E _ (sortOuter order n k m1)
      generalize sortOuter order n k m1 = res2 at h2
      obtain ⟨r2, m2⟩ := res2
      cases r2 with
      | error e =>
        rcases h2 with h2 | ⟨h2, hP2, hR2, hn2⟩
        · exact Or.inl h2
        · exact Or.inr ⟨h2, hP2, S.trans _ _ _ hR1 hR2, hn2⟩
      | ok u2 =>
        obtain ⟨hP2, hR2, hn2⟩ := h2
        exact ⟨hP2, S.trans _ _ _ hR1 hR2, hn2⟩

/-- **`_sort_to_order(bdd, order)` for ANY `order` of the right length**: whether it returns or
raises `KeyError` (a variable of the manager that `order` does not list), the state satisfies
`P` and is related to the start by `R` (held references keep their functions, same variables) -/
theorem sortToOrder_any (S : SwapOK E P R) (order : List (String × Int)) (m : Mgr) (hP : P m)
    (hlen : order.length = m.nvars) :
    OkOrKey E (fun m' => P m' ∧ R m m' ∧ m'.nvars = m.nvars) (sortToOrder order m) := by
  unfold sortToOrder
  have hne : ¬ (m.nvars ≠ order.length) := by omega
  simp only [M.bind_eq, M.get_eq, hne, if_false]
  rw [hlen]
  exact sortOuter_any S order m.nvars m.nvars m hP rfl

/-- … and with at least two variables, one of which `order` does not list, it never returns
normally: the first pass looks every level up -/
theorem sortToOrder_missing (S : SwapOK E P R) (order : List (String × Int)) (m : Mgr) (hP : P m)
    (hlen : order.length = m.nvars) (h2 : 2 ≤ m.nvars)
    (hmiss : ∃ (j : Nat) (v : String), m.tbl.l2v[j]? = some v ∧ order.lookup v = none) :
    ∃ e m', sortToOrder order m = (.error e, m') := by
  obtain ⟨j, v, hv, hnone⟩ := hmiss
  have hj : j < m.nvars := ((S.vars m hP).inv v j).mpr hv |> (S.vars m hP).lt v j
  unfold sortToOrder
  have hne : ¬ (m.nvars ≠ order.length) := by omega
  simp only [M.bind_eq, M.get_eq, hne, if_false]
  rw [hlen]
  obtain ⟨k, hk⟩ : ∃ k, m.nvars = k + 1 := ⟨m.nvars - 1, by omega⟩
  rw [hk]
  unfold sortOuter
  rw [M.bind_eq, ← hk]
  obtain ⟨e, m', he⟩ := sortInner_missing S order m.nvars (m.nvars - 1) 0 m hP rfl (by omega)
    ⟨j, v, by omega, by omega, by omega, hv, hnone⟩
  rw [← List.range_eq_range'] at he
  rw [he]
  exact ⟨e, m', rfl⟩

/-- with at most one variable nothing is ever compared: any `order` of the right length is
accepted and nothing changes -/
theorem sortToOrder_trivial (order : List (String × Int)) (m : Mgr)
    (hlen : order.length = m.nvars) (h1 : m.nvars ≤ 1) :
    sortToOrder order m = (.ok (), m) := by
  unfold sortToOrder
  have hne : ¬ (m.nvars ≠ order.length) := by omega
  simp only [M.bind_eq, M.get_eq, hne, if_false]
  rw [hlen]
  have hin : sortInner order (List.range (m.nvars - 1)) m = (.ok (), m) := by
    have : m.nvars - 1 = 0 := by omega
    rw [this]; rfl
  have : ∀ k, sortOuter order m.nvars k m = (.ok (), m) := by
    intro k
    induction k with
    | zero => rfl
    | succ k ih => unfold sortOuter; rw [M.bind_ok hin]; exact ih
  exact this _

end Abs

end DD
