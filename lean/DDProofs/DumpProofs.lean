/-
  DDProofs.DumpProofs — dump / load round trips on file *contents* (C12).

  Uses the core specifications `findOrAdd_spec` / `iteF_spec` (DDProofs.Ite) and the
  `add_var` facts of DDProofs.VarsProofs; nothing is assumed.
-/
import DD.Dump
import DDProofs.Ite
import DDProofs.VarsProofs
import DDProofs.DynRef
import DDProofs.SatList
open Std
namespace DD

/-! ### semantics of a file content over *target levels* (through a level map) -/

/-- value of the (signed) node id `u` of the file under the assignment `a` to the levels
of the receiving manager; `lm` is `level_map` -/
def evalL (succ : List PEntry) (lm : List (Nat × Nat)) : Nat → Int → Asg → Bool
  | 0, _, _ => false
  | k+1, u, a =>
    if u.natAbs = 1 then decide (0 < u) else
    match PEntry.find succ u.natAbs with
    | none => false
    | some e =>
      match e.lo, e.hi, lm.lookup e.lvl with
      | some v, some w, some j =>
        (decide (u < 0)) ^^ (if a j then evalL succ lm k w a else evalL succ lm k v a)
      | _, _, _ => false

/-- level (in the file) of a reference of the file; the terminal is at level `n` -/
def flevel (succ : List PEntry) (n : Nat) (u : Int) : Nat :=
  if u.natAbs = 1 then n else
  match PEntry.find succ u.natAbs with
  | some e => e.lvl
  | none => n

/-- `u` is a reference the file can resolve -/
def FRef (succ : List PEntry) (u : Int) : Prop :=
  u.natAbs = 1 ∨ (PEntry.find succ u.natAbs).isSome

/-- well-formed `succ` part of a file with `n` variable levels: what `_dump_bdd` writes for
a manager satisfying the invariant -/
structure SuccWF (succ : List PEntry) (n : Nat) : Prop where
  node : ∀ k e, PEntry.find succ k = some e → k ≠ 1 →
    ∃ v w, e.lo = some v ∧ e.hi = some w ∧ e.lvl < n ∧ 0 < w ∧ 2 ≤ k ∧
      FRef succ v ∧ FRef succ w ∧ e.lvl < flevel succ n v ∧ e.lvl < flevel succ n w

theorem flevel_le {succ : List PEntry} {n : Nat} (hs : SuccWF succ n) (u : Int) :
    flevel succ n u ≤ n := by
  unfold flevel
  split
  · exact Nat.le_refl _
  · rename_i h1
    split
    · rename_i e he
      obtain ⟨v, w, _, _, h, _⟩ := hs.node _ e he h1
      exact Nat.le_of_lt h
    · exact Nat.le_refl _

theorem evalL_stable {succ : List PEntry} {lm : List (Nat × Nat)} {n : Nat} (hs : SuccWF succ n) :
    ∀ k u a, FRef succ u → n + 1 ≤ k + flevel succ n u →
      evalL succ lm k u a = evalL succ lm (k+1) u a := by
  intro k
  induction k with
  | zero =>
    intro u a _ hk
    have := flevel_le hs u
    omega
  | succ k ih =>
    intro u a hr hk
    rw [evalL, evalL]
    by_cases h1 : u.natAbs = 1
    · simp [h1]
    · simp only [h1, if_false]
      rcases hr with hr | hr
      · exact absurd hr h1
      · obtain ⟨e, he⟩ := Option.isSome_iff_exists.mp hr
        obtain ⟨v, w, hv, hw, hl, _, _, rv, rw', lv, lw⟩ := hs.node _ e he h1
        have hfl : flevel succ n u = e.lvl := by simp [flevel, h1, he]
        simp only [he, hv, hw]
        cases hj : lm.lookup e.lvl with
        | none => rfl
        | some j =>
          simp only
          rw [ih w a rw' (by omega), ih v a rv (by omega)]

theorem evalL_ge {succ : List PEntry} {lm : List (Nat × Nat)} {n : Nat} (hs : SuccWF succ n)
    (u : Int) (a : Asg) (hr : FRef succ u) :
    ∀ k, evalL succ lm (n + 1 + k) u a = evalL succ lm (n + 1) u a := by
  intro k
  induction k with
  | zero => rfl
  | succ k ih =>
    rw [← ih]
    exact (evalL_stable hs (n + 1 + k) u a hr (by omega)).symm

/-- unfolding equation of the file semantics at a node -/
theorem evalL_node {succ : List PEntry} {lm : List (Nat × Nat)} {n : Nat} (hs : SuccWF succ n)
    (u : Int) (a : Asg) (e : PEntry) (v w : Int) (j : Nat) (h1 : u.natAbs ≠ 1)
    (he : PEntry.find succ u.natAbs = some e) (hv : e.lo = some v) (hw : e.hi = some w)
    (hj : lm.lookup e.lvl = some j) :
    evalL succ lm (n + 1) u a =
      ((decide (u < 0)) ^^ (if a j then evalL succ lm (n + 1) w a else evalL succ lm (n + 1) v a)) := by
  have hr : FRef succ u := Or.inr (by simp [he])
  rw [← evalL_ge hs u a hr 1]
  show evalL succ lm (n + 1 + 1) u a = _
  rw [evalL]
  simp only [h1, if_false, he, hv, hw, hj]

theorem evalL_neg {succ : List PEntry} {lm : List (Nat × Nat)} (k : Nat) (u : Int) (a : Asg)
    (h1 : u.natAbs ≠ 1) (he : (PEntry.find succ u.natAbs).isSome)
    (hwf : ∀ e, PEntry.find succ u.natAbs = some e → ∃ v w j, e.lo = some v ∧ e.hi = some w ∧ lm.lookup e.lvl = some j)
    (hu : u ≠ 0) :
    evalL succ lm (k+1) (-u) a = !evalL succ lm (k+1) u a := by
  rw [evalL, evalL]
  simp only [Int.natAbs_neg, h1, if_false]
  obtain ⟨e, hee⟩ := Option.isSome_iff_exists.mp he
  obtain ⟨v, w, j, hv, hw, hj⟩ := hwf e hee
  simp only [hee, hv, hw, hj]
  have : (decide (-u < 0)) = !(decide (u < 0)) := by
    by_cases h : u < 0 <;> simp [h] <;> omega
  rw [this]
  cases (decide (u < 0)) <;> simp

/-! ### `_load`: the recursive rebuild -/

/-- the level map is defined on the levels the file uses and lands in declared levels
(no monotonicity: nodes are built with `_ite` on the mapped variable) -/
structure LMOK (succ : List PEntry) (lm : List (Nat × Nat)) (N : Nat) : Prop where
  dom : ∀ k e, PEntry.find succ k = some e → k ≠ 1 → ∃ j, lm.lookup e.lvl = some j ∧ j < N

/-- invariant of `umap` -/
def UOK (succ : List PEntry) (lm : List (Nat × Nat)) (n : Nat) (t : Tbl) (umap : TreeMap Int Int) : Prop :=
  ∀ k r, umap[k]? = some r → 1 < k ∧ t.Mem r ∧ (PEntry.find succ k.natAbs).isSome ∧
    ∀ a, den t r a = evalL succ lm (n + 1) k a

theorem UOK.ext {succ lm n} {t t' : Tbl} {umap : TreeMap Int Int} (h : UOK succ lm n t umap)
    (hw : WF t) (he : Ext t t') : UOK succ lm n t' umap := by
  intro k r hk
  obtain ⟨h1, h3, h4, h6⟩ := h k r hk
  refine ⟨h1, he.mem h3, h4, ?_⟩
  intro a; rw [den_ext he hw r a h3]; exact h6 a

theorem evalL_term (succ lm) (k : Nat) (u : Int) (a : Asg) (h : u.natAbs = 1) :
    evalL succ lm (k+1) u a = decide (0 < u) := by
  rw [evalL]; simp [h]

theorem dmp_den_term (t : Tbl) (u : Int) (a : Asg) (h : u.natAbs = 1) : den t u a = decide (0 < u) := by
  rcases abs_one h with h | h <;> subst h
  · simp [den_one]
  · rw [den_neg_one]; simp

theorem dmp_iteRaw_eq (g u v : Int) (m : Mgr) : iteRaw g u v m = iteF (m.nvars + 2) g u v m := by
  simp [iteRaw, bind, M.bind', M.get]

/-- a property of managers that the three mutations of `BDD.load` keep (used for the exact
reference counts; `fun _ => True` otherwise) -/
structure LoadKeeps (Q : Mgr → Prop) : Prop where
  addVar : ∀ (m : Mgr) (var : String) (lvl : Option Int) (j : Nat) (m' : Mgr), Inv m → Q m →
    addVar var lvl m = (.ok j, m') → Q m'
  var : ∀ (m : Mgr) (j : Nat), Inv m → Q m → Q (findOrAdd (j : Int) (-1) 1 m).2
  ite : ∀ (m : Mgr) (g q p : Int), Inv m → m.tbl.Mem g → m.tbl.Mem q → m.tbl.Mem p → Q m →
    Q (iteF (m.nvars + 2) g q p m).2

theorem LoadKeeps.trivial : LoadKeeps (fun _ => True) :=
  ⟨fun _ _ _ _ _ _ _ _ => True.intro, fun _ _ _ _ => True.intro, fun _ _ _ _ _ _ _ _ _ => True.intro⟩

/-- `_load` on a well-formed content: the result denotes, over the levels of the receiving
manager, what the file says for `u`; only nodes are added -/
theorem loadNodeF_spec {Q : Mgr → Prop} (hQ : LoadKeeps Q) {succ : List PEntry} {lm : List (Nat × Nat)} {n N : Nat}
    (hs : SuccWF succ n) (hl : LMOK succ lm N) :
    ∀ fuel u umap m, Inv m → Q m → m.ctx = false → m.nvars = N → UOK succ lm n m.tbl umap → FRef succ u →
      n + 1 ≤ fuel + flevel succ n u →
      ∃ r umap' m', loadNodeF succ lm fuel u umap m = (.ok (r, umap'), m') ∧ Inv m' ∧ Frame m m' ∧
        Ext m.tbl m'.tbl ∧ UOK succ lm n m'.tbl umap' ∧
        (∀ k, umap.contains k = true → umap'.contains k = true) ∧
        m'.tbl.Mem r ∧
        (∀ a, den m'.tbl r a = evalL succ lm (n + 1) u a) ∧
        (u.natAbs ≠ 1 → umap'.contains (u.natAbs : Int) = true) ∧ Q m' := by
  intro fuel
  induction fuel with
  | zero =>
    intro u umap m _ _ _ _ _ _ hk
    have := flevel_le hs u
    omega
  | succ f ih =>
    intro u umap m hI hq hc hN hU hr hk
    rw [loadNodeF]
    dsimp only
    by_cases h1 : u.natAbs = 1
    · rw [if_pos h1]
      refine ⟨u, umap, m, rfl, hI, Frame.refl _, Ext.refl _, hU, fun _ h => h, Or.inl h1, ?_, ?_, hq⟩
      · intro a; rw [dmp_den_term _ _ _ h1, evalL_term _ _ _ _ _ h1]
      · intro h; exact absurd h1 h
    · rw [if_neg h1]
      by_cases hmem : umap.contains u = true
      · rw [if_pos hmem]
        obtain ⟨r, hr'⟩ : ∃ r, umap[u]? = some r := by
          rw [TreeMap.contains_eq_isSome_getElem?] at hmem
          exact Option.isSome_iff_exists.mp hmem
        obtain ⟨k1, rm, rf, rd⟩ := hU u r hr'
        have habs : (u.natAbs : Int) = u := by omega
        rw [habs, hr']
        simp only
        have hr0 : ¬ r = 0 := mem_ne_zero hI.wf.toWF rm
        have hu0 : ¬ u < 0 := by omega
        rw [if_neg hr0, if_neg hu0]
        exact ⟨r, umap, m, rfl, hI, Frame.refl _, Ext.refl _, hU, fun _ h => h, rm, rd, fun _ => hmem, hq⟩
      · rw [if_neg hmem]
        rcases hr with hr | hr
        · exact absurd hr h1
        obtain ⟨e, he⟩ := Option.isSome_iff_exists.mp hr
        obtain ⟨v, w, hv, hw, hln, hwpos, hk2, rv, rw', lv, lw⟩ := hs.node _ e he h1
        obtain ⟨j, hj, hjN⟩ := hl.dom _ e he h1
        have hfl : flevel succ n u = e.lvl := by simp [flevel, h1, he]
        simp only [he, hj, hv, hw]
        -- low
        obtain ⟨p, umap1, m1, e1, I1, F1, X1, U1, D1, Mp, Dp, _, Q1⟩ :=
          ih v umap m hI hq hc hN hU rv (by omega)
        rw [e1]
        simp only
        have hc1 : m1.ctx = false := by rw [F1.ctx]; exact hc
        have hN1 : m1.nvars = N := by rw [← hN]; exact X1.nvars.symm
        -- high
        obtain ⟨q, umap2, m2, e2, I2, F2, X2, U2, D2, Mq, Dq, _, Q2⟩ :=
          ih w umap1 m1 I1 Q1 hc1 hN1 U1 rw' (by omega)
        rw [e2]
        simp only
        have hc2 : m2.ctx = false := by rw [F2.ctx]; exact hc1
        have hN2 : m2.nvars = N := by rw [← hN1]; exact X2.nvars.symm
        -- the variable node
        have hjn : j < m2.nvars := by rw [hN2]; exact hjN
        have hlt1 : ∀ c : Int, c.natAbs = 1 → j < m2.tbl.levelOf c := by
          intro c hc'; rw [levelOf_term _ _ hc']; exact hjn
        have hfo := findOrAdd_spec m2 I2 j (-1) 1 hjn (Or.inl rfl) (Or.inl rfl)
          (hlt1 _ rfl) (hlt1 _ rfl)
        cases hfe : findOrAdd (j : Int) (-1) 1 m2 with
        | mk res m3 =>
          rw [hfe] at hfo
          cases res with
          | error er =>
            obtain ⟨_, hab⟩ := hfo
            have := hab.armed.1
            rw [hc2] at this
            cases this
          | ok g =>
            have Q3 : Q m3 := by have := hQ.var m2 j I2 Q2; rw [hfe] at this; exact this
            have P3 : FoaPost' m2 j (-1) 1 g m3 := hfo
            simp only
            have hc3 : m3.ctx = false := by rw [P3.frame.ctx]; exact hc2
            have Mq3 : m3.tbl.Mem q := P3.ext.mem Mq
            have Mp3 : m3.tbl.Mem p := P3.ext.mem (X2.mem Mp)
            rw [dmp_iteRaw_eq]
            have hit := iteF_spec (m3.nvars + 2) m3 g q p P3.inv P3.mem Mq3 Mp3 (by omega)
            cases hie : iteF (m3.nvars + 2) g q p m3 with
            | mk res4 m4 =>
              rw [hie] at hit
              cases res4 with
              | error er =>
                obtain ⟨_, hab⟩ := hit
                have := hab.armed.1
                rw [hc3] at this
                cases this
              | ok r =>
                have Q4 : Q m4 := by
                  have := hQ.ite m3 g q p P3.inv P3.mem Mq3 Mp3 Q3; rw [hie] at this; exact this
                have P4 : ItePost m3 g q p r m4 := hit
                simp only
                have hr0 : ¬ r = 0 := mem_ne_zero P4.inv.wf.toWF P4.mem
                rw [if_neg hr0]
                have hu0 : u ≠ 0 := by omega
                have X24 : Ext m2.tbl m4.tbl := P3.ext.trans P4.ext
                have hnode : ∀ a, den m4.tbl r a =
                    if a j then evalL succ lm (n + 1) w a else evalL succ lm (n + 1) v a := by
                  intro a
                  rw [P4.den a, P3.den a, den_one, den_neg_one,
                    den_ext P3.ext I2.wf.toWF q a Mq, Dq a,
                    den_ext (X2.trans P3.ext) I1.wf.toWF p a Mp, Dp a]
                  cases a j <;> simp
                refine ⟨_, _, m4, rfl, P4.inv, ((F1.trans F2).trans P3.frame).trans P4.frame,
                  (X1.trans X2).trans X24, ?_, ?_, ?_, ?_, ?_, Q4⟩
                · -- UOK
                  intro k x hkx
                  rw [TreeMap.getElem?_insert] at hkx
                  by_cases hk : (u.natAbs : Int) = k
                  · simp [hk] at hkx
                    subst hkx
                    have hkn : k.natAbs = u.natAbs := by omega
                    refine ⟨by omega, P4.mem, by rw [hkn]; simp [he], ?_⟩
                    intro a
                    rw [evalL_node hs k a e v w j (by omega) (by rw [hkn]; exact he) hv hw hj, hnode a]
                    have : ¬ k < 0 := by omega
                    simp [this]
                  · have : compare (u.natAbs : Int) k ≠ .eq := by
                      intro h; exact hk (compare_eq_iff_eq.mp h)
                    simp [this] at hkx
                    exact (U2.ext I2.wf.toWF X24) k x hkx
                · intro k hk
                  rw [TreeMap.contains_insert]
                  simp [D2 k (D1 k hk)]
                · by_cases hneg : u < 0
                  · rw [if_pos hneg]; exact mem_neg P4.mem
                  · rw [if_neg hneg]; exact P4.mem
                · intro a
                  rw [evalL_node hs u a e v w j h1 he hv hw hj, ← hnode a]
                  by_cases hneg : u < 0
                  · rw [if_pos hneg, den_neg m4.tbl P4.inv.wf.toWF r a P4.mem]; simp [hneg]
                  · rw [if_neg hneg]; simp [hneg]
                · intro _
                  rw [TreeMap.contains_insert]
                  simp

/-! ### the loop over `succ`, the mapping of the roots -/

theorem PEntry.find_isSome_of_mem {succ : List PEntry} {e : PEntry} (h : e ∈ succ) :
    (PEntry.find succ e.id).isSome := by
  unfold PEntry.find
  rw [List.find?_isSome]
  exact ⟨e, h, by simp⟩

theorem PEntry.find_id {succ : List PEntry} {k : Nat} {e : PEntry} (h : PEntry.find succ k = some e) :
    e.id = k := by
  unfold PEntry.find at h
  have := List.find?_some h
  simpa using this

theorem loadAll_spec {Q : Mgr → Prop} (hQ : LoadKeeps Q) {succ : List PEntry} {lm : List (Nat × Nat)} {n N fuel : Nat}
    (hs : SuccWF succ n) (hl : LMOK succ lm N) (hfuel : n + 1 ≤ fuel) :
    ∀ (es : List PEntry) umap m, (∀ e ∈ es, e ∈ succ) → Inv m → Q m → m.ctx = false → m.nvars = N →
      UOK succ lm n m.tbl umap →
      ∃ umap' m', loadAll succ lm fuel es umap m = (.ok umap', m') ∧ Inv m' ∧ Frame m m' ∧
        Ext m.tbl m'.tbl ∧ UOK succ lm n m'.tbl umap' ∧
        (∀ k, umap.contains k = true → umap'.contains k = true) ∧
        (∀ e ∈ es, e.id ≠ 1 → umap'.contains (e.id : Int) = true) ∧ Q m' := by
  intro es
  induction es with
  | nil =>
    intro umap m _ hI hq _ _ hU
    exact ⟨umap, m, rfl, hI, Frame.refl _, Ext.refl _, hU, fun _ h => h, by simp, hq⟩
  | cons e rest ih =>
    intro umap m hsub hI hq hc hN hU
    rw [loadAll]
    dsimp only
    have hsub' : ∀ e ∈ rest, e ∈ succ := fun x hx => hsub x (List.mem_cons_of_mem _ hx)
    by_cases hmem : umap.contains (e.id : Int) = true
    · rw [if_pos hmem]
      obtain ⟨umap', m', e1, I1, F1, X1, U1, D1, A1, Q1⟩ := ih umap m hsub' hI hq hc hN hU
      refine ⟨umap', m', e1, I1, F1, X1, U1, D1, ?_, Q1⟩
      intro x hx hx1
      rcases List.mem_cons.mp hx with h | h
      · subst h; exact D1 _ hmem
      · exact A1 x h hx1
    · rw [if_neg hmem]
      have hr : FRef succ (e.id : Int) := Or.inr (by simpa using PEntry.find_isSome_of_mem (hsub e List.mem_cons_self))
      obtain ⟨r, umap1, m1, e1, I1, F1, X1, U1, D1, _, _, C1, Q1⟩ :=
        loadNodeF_spec hQ hs hl fuel (e.id : Int) umap m hI hq hc hN hU hr (by omega)
      rw [e1]
      dsimp only
      have hc1 : m1.ctx = false := by rw [F1.ctx]; exact hc
      have hN1 : m1.nvars = N := by rw [← hN]; exact X1.nvars.symm
      obtain ⟨umap', m', e2, I2, F2, X2, U2, D2, A2, Q2⟩ := ih umap1 m1 hsub' I1 Q1 hc1 hN1 U1
      refine ⟨umap', m', e2, I2, F1.trans F2, X1.trans X2, U2, fun k hk => D2 k (D1 k hk), ?_, Q2⟩
      intro x hx hx1
      rcases List.mem_cons.mp hx with h | h
      · subst h
        exact D2 _ (by simpa using C1 (by simpa using hx1))
      · exact A2 x h hx1

/-- pointwise relation of two lists of equal length -/
inductive Forall2 {α β : Type} (R : α → β → Prop) : List α → List β → Prop
  | nil : Forall2 R [] []
  | cons {a b l l'} : R a b → Forall2 R l l' → Forall2 R (a :: l) (b :: l')

/-- same container shape, entries related pointwise -/
inductive RootsRel (P : Int → Int → Prop) : Roots → Roots → Prop
  | none : RootsRel P .none (.list [])
  | list {l l' : List Int} : Forall2 P l l' → RootsRel P (.list l) (.list l')
  | dict {d d' : List (String × Int)} :
      Forall2 (fun a b => a.1 = b.1 ∧ P a.2 b.2) d d' → RootsRel P (.dict d) (.dict d')

theorem mapM_forall₂ {α β : Type} {f : α → Except Err β} {P : α → β → Prop} :
    ∀ (l : List α), (∀ x ∈ l, ∃ y, f x = .ok y ∧ P x y) → ∃ l', l.mapM f = .ok l' ∧ Forall2 P l l' := by
  intro l
  induction l with
  | nil => intro _; exact ⟨[], rfl, Forall2.nil⟩
  | cons x xs ih =>
    intro h
    obtain ⟨y, hy, py⟩ := h x List.mem_cons_self
    obtain ⟨ys, hys, pys⟩ := ih (fun z hz => h z (List.mem_cons_of_mem _ hz))
    refine ⟨y :: ys, ?_, Forall2.cons py pys⟩
    rw [List.mapM_cons, hy, hys]
    rfl

theorem Roots.mapE_spec {f : Int → Except Err Int} {P : Int → Int → Prop} (r : Roots) (hn : r ≠ .none)
    (h : ∀ u ∈ r.values, ∃ v, f u = .ok v ∧ P u v) :
    ∃ r', r.mapE f = .ok r' ∧ RootsRel P r r' := by
  cases r with
  | none => exact absurd rfl hn
  | list l =>
    obtain ⟨l', h1, h2⟩ := mapM_forall₂ (P := P) l h
    refine ⟨.list l', ?_, .list h2⟩
    show Except.map _ _ = _
    rw [h1]
    rfl
  | dict d =>
    obtain ⟨d', h1, h2⟩ := mapM_forall₂ (f := fun kv : String × Int => (f kv.2).map fun v => (kv.1, v))
      (P := fun a b => a.1 = b.1 ∧ P a.2 b.2) d (by
        intro kv hkv
        obtain ⟨v, hv, pv⟩ := h kv.2 (by simp [Roots.values]; exact ⟨kv.1, hkv⟩)
        exact ⟨(kv.1, v), by simp [hv, Except.map], rfl, pv⟩)
    refine ⟨.dict d', ?_, .dict h2⟩
    show Except.map _ _ = _
    rw [h1]
    rfl


/-- the roots of the file are `None`, or a container of references the file can resolve
(constants included) -/
def RootsResolvable (f : PickleFile) : Prop :=
  ∀ u ∈ f.roots.values, u.natAbs = 1 ∨ ∃ e ∈ f.succ, e.id = u.natAbs

theorem UOK.empty (succ lm n) (t : Tbl) : UOK succ lm n t {} := by
  intro k r h
  simp at h

theorem mapRoots_spec {umap : TreeMap Int Int} {P : Int → Int → Prop} (r : Roots)
    (h : ∀ u ∈ r.values, ∃ v, mapNode umap u = .ok v ∧ P u v) :
    ∃ r', mapRoots umap r = .ok r' ∧ RootsRel P r r' := by
  cases r with
  | none => exact ⟨.list [], rfl, .none⟩
  | list l => exact Roots.mapE_spec (.list l) (by simp) h
  | dict d => exact Roots.mapE_spec (.dict d) (by simp) h

/-- `load` after the `levels=True` pre-check -/
def loadPickleBody (f : PickleFile) (levels : Bool) : M Roots := fun m =>
  match loadVars levels f.vars.length f.vars [] m with
  | (.error e, m1) => (.error e, m1)
  | (.ok lm, m1) =>
    match loadAll f.succ lm (f.vars.length + f.succ.length + 2) f.succ {} m1 with
    | (.error e, m2) => (.error e, m2)
    | (.ok umap, m2) => (mapRoots umap f.roots, m2)

theorem loadPickle_eq (f : PickleFile) (levels : Bool) (m : Mgr) :
    loadPickle f levels m =
      if (levels && !levelsPermutation f.vars) = true then (.error .value, m)
      else if (levels && !levelsCompatible m.tbl f.vars) = true then (.error .value, m)
      else loadPickleBody f levels m := rfl

theorem loadPickle_of_compat (f : PickleFile) (levels : Bool) (m : Mgr)
    (h : levels = true → levelsPermutation f.vars = true ∧ levelsCompatible m.tbl f.vars = true) :
    loadPickle f levels m = loadPickleBody f levels m := by
  rw [loadPickle_eq]
  cases levels with
  | false => simp
  | true => simp [(h rfl).1, (h rfl).2]

theorem loadPickle_refused (f : PickleFile) (m : Mgr)
    (h : levelsPermutation f.vars = false ∨ levelsCompatible m.tbl f.vars = false) :
    loadPickle f true m = (.error .value, m) := by
  rw [loadPickle_eq]
  rcases h with h | h
  · simp [h]
  · by_cases hp : levelsPermutation f.vars = true <;> simp [hp, h]

/-- the second half of `load`: with the variables declared, the nodes are rebuilt and the
roots denote (over the target's levels) what the file says -/
theorem loadPickle_core {Q : Mgr → Prop} (hQ : LoadKeeps Q) (f : PickleFile) (levels : Bool) (lm : List (Nat × Nat))
    (m m1 : Mgr) (hv : loadVars levels f.vars.length f.vars [] m = (.ok lm, m1))
    (hI : Inv m1) (hq : Q m1) (hc : m1.ctx = false) (hs : SuccWF f.succ f.vars.length)
    (hl : LMOK f.succ lm m1.nvars) (hr : RootsResolvable f)
    (hcomp : levels = true → levelsPermutation f.vars = true ∧ levelsCompatible m.tbl f.vars = true) :
    ∃ roots' m', loadPickle f levels m = (.ok roots', m') ∧ Inv m' ∧ Frame m1 m' ∧
      Ext m1.tbl m'.tbl ∧
      RootsRel (fun u r => m'.tbl.Mem r ∧
        ∀ a, den m'.tbl r a = evalL f.succ lm (f.vars.length + 1) u a) f.roots roots' ∧ Q m' := by
  rw [loadPickle_of_compat f levels m hcomp]
  unfold loadPickleBody
  rw [hv]
  dsimp only
  obtain ⟨umap, m2, e2, I2, F2, X2, U2, _, A2, Q2⟩ :=
    loadAll_spec hQ hs hl (fuel := f.vars.length + f.succ.length + 2) (by omega) f.succ {} m1
      (fun _ h => h) hI hq hc rfl (UOK.empty _ _ _ _)
  rw [e2]
  dsimp only
  obtain ⟨r', h1, h2⟩ := mapRoots_spec (umap := umap)
    (P := fun u r => m2.tbl.Mem r ∧ ∀ a, den m2.tbl r a = evalL f.succ lm (f.vars.length + 1) u a)
    f.roots (by
      intro u hu
      by_cases h1 : u.natAbs = 1
      · refine ⟨u, by simp [mapNode, h1], Or.inl h1, ?_⟩
        intro a; rw [dmp_den_term _ _ _ h1, evalL_term _ _ _ _ _ h1]
      rcases hr u hu with h1' | ⟨e, he, hid⟩
      · exact absurd h1' h1
      have hc' := A2 e he (by omega)
      rw [hid, TreeMap.contains_eq_isSome_getElem?] at hc'
      obtain ⟨v, hv'⟩ := Option.isSome_iff_exists.mp hc'
      obtain ⟨k1, vm, vf, vd⟩ := U2 _ v hv'
      refine ⟨if u < 0 then -v else v, by simp [mapNode, h1, hv'], ?_, ?_⟩
      · by_cases hneg : u < 0
        · rw [if_pos hneg]; exact mem_neg vm
        · rw [if_neg hneg]; exact vm
      · intro a
        by_cases hneg : u < 0
        · rw [if_pos hneg, den_neg m2.tbl I2.wf.toWF v a vm, vd a]
          have hu : u = -(u.natAbs : Int) := by omega
          have hfind : (PEntry.find f.succ ((u.natAbs : Int)).natAbs).isSome := by simpa using vf
          conv => rhs; rw [hu]
          rw [evalL_neg _ _ _ (by simpa using h1) hfind ?_ (by omega)]
          intro e' he'
          obtain ⟨v', w', hv2, hw2, _⟩ := hs.node _ e' he' (by simpa using h1)
          obtain ⟨j, hj, _⟩ := hl.dom _ e' he' (by simpa using h1)
          exact ⟨v', w', j, hv2, hw2, hj⟩
        · rw [if_neg hneg, vd a]
          have hu : (u.natAbs : Int) = u := by omega
          rw [hu])
  exact ⟨r', m2, by rw [h1], I2, F2, X2, h2, Q2⟩

/-! ### the variables: `add_var` in `_load_pickle` -/

theorem dmp_addVar_cases {var : String} {lvl : Option Int} {m m' : Mgr} {j : Nat}
    (h : addVar var lvl m = (.ok j, m')) :
    (m.tbl.vars[var]? = some j ∧ m' = m ∧ (∀ l, lvl = some l → l = (j : Int))) ∨
    (m.tbl.vars[var]? = none ∧ m.tbl.l2v[j]? = none ∧ lvl.getD (m.nvars : Int) = (j : Int) ∧
      m' = { m with tbl := { m.tbl with vars := m.tbl.vars.insert var j, l2v := m.tbl.l2v.insert j var } }) := by
  unfold addVar at h
  simp only [bind, M.bind', M.get, pure] at h
  cases hv : m.tbl.vars[var]? with
  | some vl =>
    simp only [hv] at h
    cases lvl with
    | none =>
      simp [M.pure'] at h
      obtain ⟨h1, h2⟩ := h
      subst h1 h2
      exact Or.inl ⟨rfl, rfl, by simp⟩
    | some l =>
      by_cases hl : l = (vl : Int)
      · simp [M.pure', hl] at h
        obtain ⟨h1, h2⟩ := h
        subst h1 h2
        exact Or.inl ⟨rfl, rfl, by intro l' hl'; cases hl'; exact hl⟩
      · simp [M.throw, hl] at h
  | none =>
    simp only [hv] at h
    by_cases hneg : lvl.getD (m.nvars : Int) < 0
    · simp [hneg, M.bind', M.throw] at h
    · simp only [hneg, if_false] at h
      cases hl : m.tbl.l2v[(lvl.getD (m.nvars : Int)).toNat]? with
      | some x => simp [hl, M.throw] at h
      | none =>
        simp [hl, M.bind', M.set, M.pure'] at h
        obtain ⟨h1, h2⟩ := h
        subst h1
        refine Or.inr ⟨rfl, hl, by omega, h2.symm⟩

/-- `vars` and `_level_to_var` are inverse of each other -/
def DmpVarsBij (t : Tbl) : Prop := ∀ (v : String) (l : Nat), t.vars[v]? = some l ↔ t.l2v[l]? = some v

/-- the invariant reads the variable tables only through their size: one more variable,
same nodes, same counters -/
theorem Inv.grow {m m' : Mgr} (hI : Inv m) (hs : m'.tbl.succ = m.tbl.succ)
    (hn : m'.tbl.nvars = m.tbl.nvars + 1) (hp : m'.pred = m.pred) (hr : m'.ref = m.ref)
    (hf : m'.minFree = m.minFree) (hc : m'.cache = m.cache) : Inv m' := by
  have hW := hI.wf.toWF
  have hnode : ∀ k, m'.tbl.node? k = m.tbl.node? k := fun k => by simp [Tbl.node?, hs]
  have hmem : ∀ u, m'.tbl.Mem u ↔ m.tbl.Mem u := fun u => by simp [Tbl.Mem, hnode]
  have hden : ∀ u, m.tbl.Mem u → ∀ a, den m'.tbl u a = den m.tbl u a := by
    intro u hu a
    unfold den
    rw [hn, denF_succ_eq (t := m.tbl) (t' := m'.tbl) hs]
    exact (denF_stable m.tbl hW (m.tbl.nvars + 1) u a hu (by omega)).symm
  have hlv : ∀ u : Int, m.tbl.levelOf u ≤ m'.tbl.levelOf u ∧
      (u.natAbs ≠ 1 → m.tbl.Mem u → m'.tbl.levelOf u = m.tbl.levelOf u) := by
    intro u
    unfold Tbl.levelOf
    by_cases h1 : u.natAbs = 1
    · simp only [h1, if_true]
      exact ⟨by omega, fun h => absurd rfl h⟩
    · simp only [h1, if_false, hnode]
      cases hh : m.tbl.node? u.natAbs with
      | none =>
        simp only
        refine ⟨by omega, fun _ hm => ?_⟩
        rcases hm with hm | hm
        · exact absurd hm h1
        · rw [hh] at hm; cases hm
      | some n => simp
  have hwf : WFU m'.tbl := by
    refine ⟨⟨?_, ?_, ?_, ?_, ?_, ?_, ?_, ?_⟩, ?_⟩
    · intro k n hk; rw [hnode] at hk; have := hW.lvl_lt _ _ hk; omega
    · intro k n hk; rw [hnode] at hk; exact (hmem _).mpr (hW.lo_mem _ _ hk)
    · intro k n hk; rw [hnode] at hk; exact (hmem _).mpr (hW.hi_mem _ _ hk)
    · intro k n hk; rw [hnode] at hk; have := hW.lo_lt _ _ hk; have := (hlv n.lo).1; omega
    · intro k n hk; rw [hnode] at hk; have := hW.hi_lt _ _ hk; have := (hlv n.hi).1; omega
    · intro k n hk; rw [hnode] at hk; exact hW.ge_two _ _ hk
    · intro k n hk; rw [hnode] at hk; exact hW.hi_pos _ _ hk
    · intro k n hk; rw [hnode] at hk; exact hW.lo_ne_hi _ _ hk
    · intro k k' n hk hk'; rw [hnode] at hk hk'; exact hI.wf.unique _ _ _ hk hk'
  refine ⟨hwf, ?_, by rw [hf]; exact hI.freeGe, by rw [hf, hnode]; exact hI.free,
    by rw [hr]; exact hI.refOne, ?_, ?_⟩
  · intro n u; rw [hp, hnode]; exact hI.pred n u
  · intro u n hu; rw [hnode] at hu; rw [hr]; exact hI.refDom u n hu
  · intro g u v w hcw
    rw [hc] at hcw
    have he := hI.cache g u v w hcw
    refine ⟨he.gnt, (hmem _).mpr he.mg, (hmem _).mpr he.mu, (hmem _).mpr he.mv, (hmem _).mpr he.mw, ?_, ?_⟩
    · have hg := (hlv g).2 he.gnt he.mg
      have h1 := (hlv u).1
      have h2 := (hlv v).1
      have h3 := (hlv w).1
      have hgl : m.tbl.levelOf g < m.tbl.nvars := by
        rcases he.mg with h | h
        · exact absurd h he.gnt
        · obtain ⟨n, hnn⟩ := Option.isSome_iff_exists.mp h
          have : m.tbl.levelOf g = n.lvl := by simp [Tbl.levelOf, he.gnt, hnn]
          rw [this]; exact hW.lvl_lt _ _ hnn
      have hl := he.lvl
      have hu' : m'.tbl.levelOf u = m.tbl.levelOf u ∨ m.tbl.levelOf u = m.tbl.nvars := by
        by_cases c : u.natAbs = 1
        · right; simp [Tbl.levelOf, c]
        · left; exact (hlv u).2 c he.mu
      have hv' : m'.tbl.levelOf v = m.tbl.levelOf v ∨ m.tbl.levelOf v = m.tbl.nvars := by
        by_cases c : v.natAbs = 1
        · right; simp [Tbl.levelOf, c]
        · left; exact (hlv v).2 c he.mv
      omega
    · intro a
      rw [hden w he.mw, hden g he.mg, hden u he.mu, hden v he.mv]; exact he.den a

/-- `add_var` keeps the manager invariant — also when it is given a free level that is not
the next one (the transient gaps of `levels=True`, F7) -/
theorem addVar_inv {m m' : Mgr} {var : String} {lvl : Option Int} {j : Nat} (hI : Inv m)
    (h : addVar var lvl m = (.ok j, m')) : Inv m' := by
  rcases dmp_addVar_cases h with ⟨_, h2, _⟩ | ⟨h1, _, _, h4⟩
  · subst h2; exact hI
  · subst h4
    refine hI.grow rfl ?_ rfl rfl rfl rfl
    show (m.tbl.vars.insert var j).size = m.tbl.vars.size + 1
    rw [TreeMap.size_insert]
    have : ¬ var ∈ m.tbl.vars := by
      intro hc
      rw [TreeMap.mem_iff_isSome_getElem?, h1] at hc
      cases hc
    simp [this]

theorem addVar_facts {var : String} {lvl : Option Int} {m m' : Mgr} {j : Nat}
    (h : addVar var lvl m = (.ok j, m')) (hb : DmpVarsBij m.tbl) :
    DmpVarsBij m'.tbl ∧ m'.tbl.vars[var]? = some j ∧
    (∀ (v : String) (l : Nat), m.tbl.vars[v]? = some l → m'.tbl.vars[v]? = some l) ∧ m'.ctx = m.ctx ∧
    m'.tbl.succ = m.tbl.succ ∧ (∀ i : Nat, lvl = some (i : Int) → j = i) := by
  rcases dmp_addVar_cases h with ⟨h1, h2, h3⟩ | ⟨h1, h2, h3, h4⟩
  · subst h2
    exact ⟨hb, h1, fun _ _ h => h, rfl, rfl, fun i hi => by have := h3 _ hi; omega⟩
  · subst h4
    refine ⟨?_, ?_, ?_, rfl, rfl, ?_⟩
    · intro v l
      show (m.tbl.vars.insert var j)[v]? = some l ↔ (m.tbl.l2v.insert j var)[l]? = some v
      rw [TreeMap.getElem?_insert, TreeMap.getElem?_insert]
      by_cases hv : var = v <;> by_cases hl : j = l
      · subst hv hl; simp
      · subst hv
        have : m.tbl.l2v[l]? ≠ some var := by
          intro h'; rw [← hb] at h'; rw [h1] at h'; cases h'
        simp [hl, this]
      · subst hl
        have : m.tbl.vars[v]? ≠ some j := by
          intro h'; rw [hb] at h'; rw [h2] at h'; cases h'
        simp [hv, this]
      · simp [hv, hl, hb v l]
    · show (m.tbl.vars.insert var j)[var]? = some j
      simp
    · intro v l hvl
      show (m.tbl.vars.insert var j)[v]? = some l
      rw [TreeMap.getElem?_insert]
      by_cases hv : var = v
      · subst hv; rw [h1] at hvl; cases hvl
      · simp [hv, hvl]
    · intro i hi; subst hi; simp at h3; omega

/-- the first loop of `_load_pickle`, for any property `J` that `add_var` preserves
(`Inv` itself, by `addVar_inv`) -/
theorem loadVars_spec (J : Mgr → Prop) (levels : Bool) (n : Nat) :
    ∀ (vs : List (String × Nat)),
      (∀ (m : Mgr) (var : String) (i : Nat) (j : Nat) (m' : Mgr), (var, i) ∈ vs → J m →
        addVar var (if levels = true then some (i : Int) else none) m = (.ok j, m') → J m') →
      ∀ (lm : List (Nat × Nat)) (m : Mgr) (lm' : List (Nat × Nat)) (m' : Mgr),
      loadVars levels n vs lm m = (.ok lm', m') → J m → DmpVarsBij m.tbl →
      J m' ∧ DmpVarsBij m'.tbl ∧ m'.ctx = m.ctx ∧ m'.tbl.succ = m.tbl.succ ∧
      (∀ (v : String) (l : Nat), m.tbl.vars[v]? = some l → m'.tbl.vars[v]? = some l) ∧
      (∀ i j, lm'.lookup i = some j →
        lm.lookup i = some j ∨ ∃ var, (var, i) ∈ vs ∧ m'.tbl.vars[var]? = some j) ∧
      (∀ var i, (var, i) ∈ vs → (lm'.lookup i).isSome) ∧
      (∀ i, (lm.lookup i).isSome → (lm'.lookup i).isSome) ∧
      (levels = true → ∀ i j, lm'.lookup i = some j → lm.lookup i = some j ∨ j = i) := by
  intro vs
  induction vs with
  | nil =>
    intro _ lm m lm' m' h hI hb
    simp [loadVars] at h
    obtain ⟨h1, h2⟩ := h
    subst h1 h2
    exact ⟨hI, hb, rfl, rfl, fun _ _ h => h, fun _ _ h => Or.inl h, by simp, fun _ h => h,
      fun _ _ _ h => Or.inl h⟩
  | cons x rest ih =>
    intro hA lm m lm' m' h hI hb
    obtain ⟨var, i⟩ := x
    rw [loadVars] at h
    dsimp only at h
    by_cases hin : i < n
    · simp only [hin, not_true_eq_false, if_false] at h
      cases hav : addVar var (if levels = true then some (i : Int) else none) m with
      | mk res m1 =>
        rw [hav] at h
        cases res with
        | error e => simp at h
        | ok j =>
          dsimp only at h
          have I1 := hA m var i j m1 List.mem_cons_self hI hav
          obtain ⟨B1, V1, M1, C1, S1, L1⟩ := addVar_facts hav hb
          obtain ⟨I2, B2, C2, S2, M2, R2, D2, K2, L2⟩ :=
            ih (fun m var i j m' hmem => hA m var i j m' (List.mem_cons_of_mem _ hmem))
              ((i, j) :: lm) m1 lm' m' h I1 B1
          refine ⟨I2, B2, C2.trans C1, S2.trans S1, fun v l hvl => M2 v l (M1 v l hvl), ?_, ?_, ?_, ?_⟩
          · intro i' j' hl
            rcases R2 i' j' hl with h' | ⟨v, hv, hv'⟩
            · rw [List.lookup_cons] at h'
              by_cases he : i' = i
              · subst he
                simp at h'
                subst h'
                exact Or.inr ⟨var, List.mem_cons_self, M2 var j V1⟩
              · have : (i' == i) = false := by simpa using he
                rw [this] at h'
                exact Or.inl h'
            · exact Or.inr ⟨v, List.mem_cons_of_mem _ hv, hv'⟩
          · intro v i' hv
            rcases List.mem_cons.mp hv with h' | h'
            · cases h'
              exact K2 i (by simp [List.lookup_cons])
            · exact D2 v i' h'
          · intro i' hi'
            apply K2
            rw [List.lookup_cons]
            by_cases he : i' = i
            · subst he; simp
            · have : (i' == i) = false := by simpa using he
              rw [this]; exact hi'
          · intro hlv i' j' hl
            rcases L2 hlv i' j' hl with h' | h'
            · rw [List.lookup_cons] at h'
              by_cases he : i' = i
              · subst he
                simp at h'
                subst h'
                exact Or.inr (L1 i' (by simp [hlv]))
              · have : (i' == i) = false := by simpa using he
                rw [this] at h'
                exact Or.inl h'
            · exact Or.inr h'
    · simp [hin] at h

theorem Forall2.imp {α β : Type} {R S : α → β → Prop} (h : ∀ a b, R a b → S a b) :
    ∀ {l : List α} {l' : List β}, Forall2 R l l' → Forall2 S l l' := by
  intro l l' hl
  induction hl with
  | nil => exact .nil
  | cons a _ ih => exact .cons (h _ _ a) ih

theorem RootsRel.imp {P Q : Int → Int → Prop} (h : ∀ u r, P u r → Q u r) {a b : Roots}
    (hr : RootsRel P a b) : RootsRel Q a b := by
  cases hr with
  | none => exact .none
  | list hl => exact .list (hl.imp h)
  | dict hd => exact .dict (hd.imp fun x y hxy => ⟨hxy.1, h _ _ hxy.2⟩)

/-! ### semantics by variable *name* -/

/-- an assignment to names, seen by the levels of a manager -/
def Tbl.asg (t : Tbl) (α : String → Bool) : Asg := fun l =>
  match t.l2v[l]? with
  | some v => α v
  | none => false

/-- the function of names a reference denotes -/
def denBy (t : Tbl) (u : Int) (α : String → Bool) : Bool := den t u (t.asg α)

/-- `{level: var}` of the file -/
def PickleFile.nameAt (f : PickleFile) (lvl : Nat) : Option String :=
  (f.vars.find? (fun p => p.2 == lvl)).map (·.1)

/-- value of the node id `u` of the file under an assignment to variable names -/
def evalN (f : PickleFile) : Nat → Int → (String → Bool) → Bool
  | 0, _, _ => false
  | k+1, u, α =>
    if u.natAbs = 1 then decide (0 < u) else
    match PEntry.find f.succ u.natAbs with
    | none => false
    | some e =>
      match e.lo, e.hi, f.nameAt e.lvl with
      | some v, some w, some x =>
        (decide (u < 0)) ^^ (if α x then evalN f k w α else evalN f k v α)
      | _, _, _ => false

/-- semantics of a node id inside a pickle file, by variable name -/
def evalPickle (f : PickleFile) (u : Int) (α : String → Bool) : Bool :=
  evalN f (f.vars.length + 1) u α

/-- well-formed content of a pickle file -/
structure PickleWF (f : PickleFile) : Prop where
  bound : ∀ var i, (var, i) ∈ f.vars → i < f.vars.length
  succ : SuccWF f.succ f.vars.length
  names : ∀ var i, (var, i) ∈ f.vars → f.nameAt i = some var
  lvls : ∀ k e, PEntry.find f.succ k = some e → k ≠ 1 → ∃ var, (var, e.lvl) ∈ f.vars

/-- the level map sends each level of the file to the level of the same-named variable -/
def NameOK (f : PickleFile) (lm : List (Nat × Nat)) (t : Tbl) : Prop :=
  ∀ i j, lm.lookup i = some j → ∃ x, f.nameAt i = some x ∧ t.l2v[j]? = some x

theorem evalL_eq_evalN (f : PickleFile) (lm : List (Nat × Nat)) (t : Tbl) (N : Nat)
    (hl : LMOK f.succ lm N) (hn : NameOK f lm t) (α : String → Bool) :
    ∀ k u, evalL f.succ lm k u (t.asg α) = evalN f k u α := by
  intro k
  induction k with
  | zero => intro u; rfl
  | succ k ih =>
    intro u
    rw [evalL, evalN]
    by_cases h1 : u.natAbs = 1
    · simp [h1]
    · simp only [h1, if_false]
      cases he : PEntry.find f.succ u.natAbs with
      | none => rfl
      | some e =>
        obtain ⟨j, hj, _⟩ := hl.dom _ e he h1
        obtain ⟨x, hx, hx'⟩ := hn _ _ hj
        simp only [hj, hx]
        cases e.lo <;> cases e.hi <;> try rfl
        simp only [ih]
        have : t.asg α j = α x := by simp [Tbl.asg, hx']
        rw [this]

/-- no level gaps: declared levels are below the number of variables (F7 excluded) -/
def Contig (t : Tbl) : Prop := ∀ (v : String) (l : Nat), t.vars[v]? = some l → l < t.nvars

/-- the result of `BDD.load` relative to the content of the file: same container shape
(an empty list when the file names no roots), every member a node of the receiving manager
that denotes — as a function of variable NAMES — what the file says -/
def LoadedFrom (f : PickleFile) (t : Tbl) (roots' : Roots) : Prop :=
  RootsRel (fun u r => t.Mem r ∧ ∀ α, denBy t r α = evalPickle f u α) f.roots roots'

theorem levelsCompatible_iff (t : Tbl) (vs : List (String × Nat)) :
    levelsCompatible t vs = true ↔ ∀ var i, (var, i) ∈ vs →
      (∀ j, t.vars[var]? = some j → j = i) ∧
      (t.vars[var]? = none → ∀ v', t.l2v[i]? = some v' → v' = var) := by
  unfold levelsCompatible
  rw [List.all_eq_true]
  constructor
  · intro h var i hm
    have := h (var, i) hm
    dsimp only at this
    constructor
    · intro j hj; rw [hj] at this; simpa using this
    · intro hn v' hv'; rw [hn] at this; dsimp only at this; rw [hv'] at this; simpa using this
  · intro h x hx
    obtain ⟨var, i⟩ := x
    obtain ⟨h1, h2⟩ := h var i hx
    dsimp only
    cases hv : t.vars[var]? with
    | some j => simp [h1 j hv]
    | none =>
      dsimp only
      cases hl : t.l2v[i]? with
      | none => rfl
      | some v' => simp [h2 hv v' hl]

/-- a successful `levels=True` declaration loop means the pre-check had passed -/
theorem loadVars_true_compat (n : Nat) :
    ∀ (vs : List (String × Nat)) (lm : List (Nat × Nat)) (m : Mgr) (lm' : List (Nat × Nat)) (m' : Mgr),
      loadVars true n vs lm m = (.ok lm', m') → DmpVarsBij m.tbl → levelsCompatible m.tbl vs = true := by
  intro vs
  induction vs with
  | nil => intro _ _ _ _ _ _; rfl
  | cons x rest ih =>
    intro lm m lm' m' h hb
    obtain ⟨var, i⟩ := x
    rw [loadVars] at h
    dsimp only at h
    by_cases hin : i < n
    · simp only [hin, not_true_eq_false, if_false, if_true] at h
      cases hav : addVar var (some (i : Int)) m with
      | mk res m1 =>
        rw [hav] at h
        cases res with
        | error e => simp at h
        | ok j =>
          dsimp only at h
          obtain ⟨B1, V1, M1, _, _, L1⟩ := addVar_facts hav hb
          have hji : j = i := L1 i rfl
          subst hji
          have ih' := (levelsCompatible_iff _ _).mp (ih _ m1 lm' m' h B1)
          rw [levelsCompatible_iff]
          intro v l hm
          rcases List.mem_cons.mp hm with heq | hm'
          · simp only [Prod.mk.injEq] at heq
            obtain ⟨rfl, rfl⟩ := heq
            constructor
            · intro j' hj'
              have := M1 v j' hj'
              rw [V1] at this; cases this; rfl
            · intro hn v' hv'
              rcases dmp_addVar_cases hav with ⟨h1, _, _⟩ | ⟨_, h2, _, _⟩
              · rw [hn] at h1; cases h1
              · rw [h2] at hv'; cases hv'
          · obtain ⟨a1, a2⟩ := ih' v l hm'
            constructor
            · intro j' hj'; exact a1 j' (M1 v j' hj')
            · intro hn v' hv'
              -- `l2v` only grows
              have hl1 : m1.tbl.l2v[l]? = some v' := by
                rw [← B1]
                exact M1 v' l ((hb v' l).mpr hv')
              cases hv1 : m1.tbl.vars[v]? with
              | none => exact a2 hv1 v' hl1
              | some j' =>
                have := a1 j' hv1
                subst this
                have := (B1 v j').mp hv1
                rw [hl1] at this; cases this; rfl
    · simp [hin] at h

/-- `BDD.load` on a well-formed file content: if the loader accepts the variables
(`_load_pickle`'s first loop succeeds) and leaves no level gap, the load succeeds, the
manager invariant is kept, old nodes are untouched, and the result is `LoadedFrom` the file
— for either value of `levels`, any variable order of the receiving manager, constant
roots, or no roots. -/
theorem pickle_loadQ {Q : Mgr → Prop} (hQ : LoadKeeps Q) (f : PickleFile) (levels : Bool)
    (m : Mgr) (hI : Inv m) (hq : Q m) (hb : DmpVarsBij m.tbl) (hc : m.ctx = false)
    (hwf : PickleWF f) (hr : RootsResolvable f)
    (lm : List (Nat × Nat)) (m1 : Mgr)
    (hv : loadVars levels f.vars.length f.vars [] m = (.ok lm, m1))
    (hg : Contig m1.tbl)
    (hperm : levels = true → levelsPermutation f.vars = true) :
    ∃ roots' m', loadPickle f levels m = (.ok roots', m') ∧ Inv m' ∧ DmpVarsBij m'.tbl ∧
      Contig m'.tbl ∧ m'.ctx = false ∧ (∀ u n, m.tbl.node? u = some n → m'.tbl.node? u = some n) ∧
      LoadedFrom f m'.tbl roots' ∧ Q m' := by
  obtain ⟨⟨I1, Q1⟩, B1, C1, S1, M1, R1, D1, _, L1⟩ :=
    loadVars_spec (fun m => Inv m ∧ Q m) levels f.vars.length f.vars
      (fun m var i j m' _ hJ h => ⟨addVar_inv hJ.1 h, hQ.addVar m var _ j m' hJ.1 hJ.2 h⟩)
      [] m lm m1 hv ⟨hI, hq⟩ hb
  have hl : LMOK f.succ lm m1.nvars := by
    constructor
    intro k e he h1
    obtain ⟨var, hvar⟩ := hwf.lvls k e he h1
    obtain ⟨j, hj⟩ := Option.isSome_iff_exists.mp (D1 var e.lvl hvar)
    refine ⟨j, hj, ?_⟩
    rcases R1 _ _ hj with h | ⟨v, _, hv'⟩
    · simp at h
    · exact hg v j hv'
  obtain ⟨roots', m', e1, I2, F2, X2, RR, Q2⟩ :=
    loadPickle_core hQ f levels lm m m1 hv I1 Q1 (C1.trans hc) hwf.succ hl hr
      (fun hlv => ⟨hperm hlv, by subst hlv; exact loadVars_true_compat _ _ _ _ _ _ hv hb⟩)
  have hn : NameOK f lm m'.tbl := by
    intro i j hij
    rcases R1 _ _ hij with h | ⟨v, hv1, hv2⟩
    · simp at h
    · exact ⟨v, hwf.names v i hv1, by rw [F2.l2v]; exact (B1 v j).mp hv2⟩
  have B2 : DmpVarsBij m'.tbl := by
    intro v l; rw [F2.vars, F2.l2v]; exact B1 v l
  have G2 : Contig m'.tbl := by
    intro v l h
    rw [F2.vars] at h
    have := hg v l h
    rw [← X2.nvars]; exact this
  refine ⟨roots', m', e1, I2, B2, G2, F2.ctx.trans (C1.trans hc), ?_, ?_, Q2⟩
  · intro u n hn'
    apply X2.nodes
    unfold Tbl.node? at hn' ⊢
    rw [S1]; exact hn'
  · have conv : ∀ u r, (m'.tbl.Mem r ∧ ∀ a, den m'.tbl r a = evalL f.succ lm (f.vars.length + 1) u a) →
        (m'.tbl.Mem r ∧ ∀ α, denBy m'.tbl r α = evalPickle f u α) := by
      intro u r ⟨h1, h2⟩
      refine ⟨h1, fun α => ?_⟩
      unfold denBy evalPickle
      rw [h2, evalL_eq_evalN f lm m'.tbl _ hl hn]
    exact RR.imp conv

theorem pickle_load (f : PickleFile) (levels : Bool)
    (m : Mgr) (hI : Inv m) (hb : DmpVarsBij m.tbl) (hc : m.ctx = false)
    (hwf : PickleWF f) (hr : RootsResolvable f)
    (lm : List (Nat × Nat)) (m1 : Mgr)
    (hv : loadVars levels f.vars.length f.vars [] m = (.ok lm, m1))
    (hg : Contig m1.tbl)
    (hperm : levels = true → levelsPermutation f.vars = true) :
    ∃ roots' m', loadPickle f levels m = (.ok roots', m') ∧ Inv m' ∧ DmpVarsBij m'.tbl ∧
      Contig m'.tbl ∧ m'.ctx = false ∧ (∀ u n, m.tbl.node? u = some n → m'.tbl.node? u = some n) ∧
      LoadedFrom f m'.tbl roots' := by
  obtain ⟨r, m', a, b, c, d, e, g, h, _⟩ :=
    pickle_loadQ LoadKeeps.trivial f levels m hI True.intro hb hc hwf hr lm m1 hv hg hperm
  exact ⟨r, m', a, b, c, d, e, g, h⟩

/-- exact reference counts are kept by the three mutations of `BDD.load` -/
theorem LoadKeeps.refExact (ext : Nat → Nat) : LoadKeeps (fun m => RefExact m ext) := by
  refine ⟨?_, ?_, ?_⟩
  · intro m var lvl j m' _ hr h
    rcases dmp_addVar_cases h with ⟨_, h2, _⟩ | ⟨_, _, _, h4⟩
    · subst h2; exact hr
    · subst h4
      exact ⟨fun u => hr.dom u, fun u c hc => by
        have := hr.cnt u c hc
        rw [← indeg_congr (t := m.tbl)
          (t' := { m.tbl with vars := m.tbl.vars.insert var j, l2v := m.tbl.l2v.insert j var })
          (fun _ => rfl) u] at this
        exact this, hr.extZero⟩
  · intro m j hI hr
    exact findOrAdd_refExact m ext j (-1) 1 hI.wf.toWF hr
  · intro m g q p hI hg hq hp hr
    exact iteF_refExact (m.nvars + 2) m ext g q p hI hr hg hq hp (by omega)

/-- `C12_load_target_counts` for `dd.bdd.BDD.load`: the loaded roots are NOT referenced on
behalf of the caller — the counts stay exact for the SAME ledger of user references -/
theorem pickle_load_counts (ext : Nat → Nat) (f : PickleFile) (levels : Bool)
    (m : Mgr) (hI : Inv m) (hx : RefExact m ext) (hb : DmpVarsBij m.tbl) (hc : m.ctx = false)
    (hwf : PickleWF f) (hr : RootsResolvable f)
    (lm : List (Nat × Nat)) (m1 : Mgr)
    (hv : loadVars levels f.vars.length f.vars [] m = (.ok lm, m1))
    (hg : Contig m1.tbl)
    (hperm : levels = true → levelsPermutation f.vars = true) :
    ∃ roots' m', loadPickle f levels m = (.ok roots', m') ∧ Inv m' ∧ RefExact m' ext ∧
      LoadedFrom f m'.tbl roots' := by
  obtain ⟨r, m', a, b, _, _, _, _, h, q⟩ :=
    pickle_loadQ (LoadKeeps.refExact ext) f levels m hI hx hb hc hwf hr lm m1 hv hg hperm
  exact ⟨r, m', a, b, q, h⟩

/-- C12 for `BDD.load` at FULL strength: every well-formed pickle content whose variables
the loader accepts (no level gap left) loads without error into a manager satisfying the
invariant, keeps the invariant, and returns the file's roots in the same container shape
denoting, by variable name, what the file says.  No condition on `levels`, on the variable
order of the receiving manager, on constant roots, or on `roots` being present. -/
def pickle_load_statement : Prop :=
  ∀ (f : PickleFile) (levels : Bool) (tgt : Mgr), PickleWF f → RootsResolvable f →
    Inv tgt → DmpVarsBij tgt.tbl → tgt.ctx = false →
    (levels = true → levelsPermutation f.vars = true) →
    ∀ lm m1, loadVars levels f.vars.length f.vars [] tgt = (.ok lm, m1) → Contig m1.tbl →
    ∃ roots' m', loadPickle f levels tgt = (.ok roots', m') ∧ Inv m' ∧ LoadedFrom f m'.tbl roots'

/-- the repaired code satisfies the full statement -/
theorem pickle_load_statement_holds : pickle_load_statement := by
  intro f levels tgt hwf hr hI hb hc hperm lm m1 hv hg
  obtain ⟨r, m', e, I, _, _, _, _, L⟩ := pickle_load f levels tgt hI hb hc hwf hr lm m1 hv hg hperm
  exact ⟨r, m', e, I, L⟩

/-! #### `levels=False`: the loader accepts every variable, whatever the order of the manager -/

theorem OrderOK.bij {t : Tbl} (h : OrderOK t) : DmpVarsBij t := h.inv
theorem OrderOK.contig {t : Tbl} (h : OrderOK t) : Contig t := h.lt

/-- with `levels=False` the first loop of `_load_pickle` cannot fail on a manager whose
order tables are consistent: known names keep their level, new names go to the bottom -/
theorem loadVars_false_total (n : Nat) :
    ∀ (vs : List (String × Nat)) (lm : List (Nat × Nat)) (m : Mgr), Inv m → OrderOK m.tbl →
      (∀ var i, (var, i) ∈ vs → i < n) →
      ∃ lm' m', loadVars false n vs lm m = (.ok lm', m') ∧ OrderOK m'.tbl := by
  intro vs
  induction vs with
  | nil => intro lm m _ hO _; exact ⟨lm, m, rfl, hO⟩
  | cons x rest ih =>
    intro lm m hI hO hb
    obtain ⟨var, i⟩ := x
    have hi : i < n := hb var i List.mem_cons_self
    have hb' : ∀ v k, (v, k) ∈ rest → k < n := fun v k hk => hb v k (List.mem_cons_of_mem _ hk)
    rw [loadVars]
    simp only [hi, not_true_eq_false, if_false, Bool.false_eq_true]
    cases hex : m.tbl.vars[var]? with
    | some l =>
      rw [(addVar_existing m var l hex).1]
      exact ih _ m hI hO hb'
    | none =>
      rw [addVar_new m var hex hO.l2v_none]
      obtain ⟨I', O', _⟩ := addVar_new_spec m hI hO var hex _ rfl
      exact ih _ _ I' O' hb'

/-! ### `descendants` is closed under successors -/

theorem dmp_mem_insertSorted (a x : Nat) (l : List Nat) : x ∈ insertSorted a l ↔ x = a ∨ x ∈ l := by
  induction l with
  | nil => simp [insertSorted]
  | cons b l ih =>
    unfold insertSorted
    split
    · simp
    · simp [ih]; constructor
      · rintro (h | h | h) <;> simp [h]
      · rintro (h | h | h) <;> simp [h]

theorem dmp_mem_sortNat (x : Nat) (l : List Nat) : x ∈ sortNat l ↔ x ∈ l := by
  unfold sortNat
  induction l with
  | nil => simp
  | cons a l ih => simp [List.foldr_cons, dmp_mem_insertSorted, ih]

/-- every listed non-terminal node has its successors listed -/
def Closed (t : Tbl) (vis : List Nat) : Prop :=
  ∀ r ∈ vis, r ≠ 1 → ∃ n, t.succ[r]? = some n ∧
    (n.lo.natAbs = 1 ∨ n.lo.natAbs ∈ vis) ∧ (n.hi.natAbs = 1 ∨ n.hi.natAbs ∈ vis)

theorem Closed.mono {t : Tbl} {vis vis' : List Nat} (h : Closed t vis) (hs : ∀ x ∈ vis, x ∈ vis')
    (hnew : ∀ r ∈ vis', r ∉ vis → r ≠ 1 → ∃ n, t.succ[r]? = some n ∧
      (n.lo.natAbs = 1 ∨ n.lo.natAbs ∈ vis') ∧ (n.hi.natAbs = 1 ∨ n.hi.natAbs ∈ vis')) :
    Closed t vis' := by
  intro r hr h1
  by_cases hin : r ∈ vis
  · obtain ⟨n, hn, h2, h3⟩ := h r hin h1
    exact ⟨n, hn, h2.imp id (hs _), h3.imp id (hs _)⟩
  · exact hnew r hr hin h1

theorem dmp_descendantsF_spec (t : Tbl) :
    ∀ f u vis vis', descendantsF f t u vis = .ok vis' → Closed t vis →
      Closed t vis' ∧ (∀ x ∈ vis, x ∈ vis') ∧ (u.natAbs = 1 ∨ u.natAbs ∈ vis') := by
  intro f
  induction f with
  | zero => intro u vis vis' h; simp [descendantsF] at h
  | succ f ih =>
    intro u vis vis' h hc
    rw [descendantsF] at h
    by_cases h0 : (u.natAbs = 1 || vis.contains u.natAbs) = true
    · rw [if_pos h0] at h
      cases h
      refine ⟨hc, fun _ h => h, ?_⟩
      simp at h0
      exact h0
    · rw [if_neg h0] at h
      cases hn : t.succ[u.natAbs]? with
      | none => simp [hn] at h
      | some n =>
        simp only [hn] at h
        split at h
        · cases h
        · cases h1 : descendantsF f t n.lo vis with
          | error e => simp [h1] at h
          | ok vis1 =>
            simp only [h1] at h
            cases h2 : descendantsF f t n.hi vis1 with
            | error e => simp [h2] at h
            | ok vis2 =>
              simp only [h2] at h
              cases h
              obtain ⟨c1, s1, m1⟩ := ih _ _ _ h1 hc
              obtain ⟨c2, s2, m2⟩ := ih _ _ _ h2 c1
              have m1' : n.lo.natAbs = 1 ∨ n.lo.natAbs ∈ vis2 := m1.imp id (s2 _)
              by_cases hin : vis2.contains u.natAbs = true
              · rw [if_pos hin]
                exact ⟨c2, fun x hx => s2 x (s1 x hx), Or.inr (by simpa using hin)⟩
              · rw [if_neg hin]
                refine ⟨?_, fun x hx => List.mem_cons_of_mem _ (s2 x (s1 x hx)), Or.inr List.mem_cons_self⟩
                apply c2.mono (fun x hx => List.mem_cons_of_mem _ hx)
                intro r hr hnot _
                rcases List.mem_cons.mp hr with h' | h'
                · subst h'
                  exact ⟨n, hn, m1'.imp id (List.mem_cons_of_mem _), m2.imp id (List.mem_cons_of_mem _)⟩
                · exact absurd h' hnot

theorem dmp_descendants_go_spec (t : Tbl) :
    ∀ roots vis vis', descendants.go t roots vis = .ok vis' → Closed t vis →
      Closed t vis' ∧ (∀ x ∈ vis, x ∈ vis') ∧ (∀ u ∈ roots, u.natAbs = 1 ∨ u.natAbs ∈ vis') ∧
      (roots ≠ [] → 1 ∈ vis') := by
  intro roots
  induction roots with
  | nil =>
    intro vis vis' h hc
    simp [descendants.go] at h
    subst h
    exact ⟨hc, fun _ h => h, by simp, by simp⟩
  | cons u rest ih =>
    intro vis vis' h hc
    rw [descendants.go] at h
    generalize hv0 : (@_root_.ite _ (vis.contains 1 = true) _ vis (1 :: vis)) = vis0 at h
    have hc0 : Closed t vis0 := by
      subst hv0
      split
      · exact hc
      · apply hc.mono (fun x hx => List.mem_cons_of_mem _ hx)
        intro r hr hnot h1
        rcases List.mem_cons.mp hr with h' | h'
        · exact absurd h' h1
        · exact absurd h' hnot
    have h10 : 1 ∈ vis0 := by
      subst hv0
      split
      · rename_i h'; simpa using h'
      · exact List.mem_cons_self
    have hs0 : ∀ x ∈ vis, x ∈ vis0 := by
      intro x hx; subst hv0; split
      · exact hx
      · exact List.mem_cons_of_mem _ hx
    cases h1 : descendantsF (t.nvars + 2) t u vis0 with
    | error e => simp [h1] at h
    | ok vis1 =>
      simp only [h1] at h
      obtain ⟨c1, s1, m1⟩ := dmp_descendantsF_spec t _ _ _ _ h1 hc0
      obtain ⟨c2, s2, m2, _⟩ := ih _ _ h c1
      refine ⟨c2, fun x hx => s2 x (s1 x (hs0 x hx)), ?_, fun _ => s2 1 (s1 1 h10)⟩
      intro x hx
      rcases List.mem_cons.mp hx with h' | h'
      · subst h'; exact m1.imp id (s2 _)
      · exact m2 x h'

theorem descendants_spec (t : Tbl) (roots : List Int) (nodes : List Nat)
    (h : descendants t roots = .ok nodes) :
    Closed t nodes ∧ (∀ u ∈ roots, u.natAbs = 1 ∨ u.natAbs ∈ nodes) ∧ (roots ≠ [] → 1 ∈ nodes) := by
  unfold descendants at h
  cases h1 : descendants.go t roots [] with
  | error e => simp [h1] at h
  | ok vis =>
    simp only [h1] at h
    cases h
    obtain ⟨c, _, m, o⟩ := dmp_descendants_go_spec t roots [] vis h1 (by intro r hr; simp at hr)
    refine ⟨?_, ?_, ?_⟩
    · intro r hr h1'
      rw [dmp_mem_sortNat] at hr
      obtain ⟨n, hn, a, b⟩ := c r hr h1'
      exact ⟨n, hn, a.imp id (by rw [dmp_mem_sortNat]; exact id), b.imp id (by rw [dmp_mem_sortNat]; exact id)⟩
    · intro u hu; exact (m u hu).imp id (by rw [dmp_mem_sortNat]; exact id)
    · intro hne; rw [dmp_mem_sortNat]; exact o hne


/-! ### `_dump_bdd`: the content written -/

/-- how the levels are named: inverse maps, no gaps, every level named -/
structure DmpVarsOK (t : Tbl) : Prop where
  bij : DmpVarsBij t
  contig : Contig t
  named : ∀ l, l < t.nvars → (t.l2v[l]?).isSome

theorem entryOf_ok {t : Tbl} {k : Nat} {e : PEntry} (h : entryOf t k = .ok e) :
    e.id = k ∧ (k = 1 → e = ⟨1, t.nvars, none, none⟩) ∧
    (k ≠ 1 → ∃ n, t.succ[k]? = some n ∧ e = ⟨k, n.lvl, some n.lo, some n.hi⟩) := by
  unfold entryOf at h
  by_cases h1 : k = 1
  · simp [h1] at h
    subst h h1
    exact ⟨rfl, fun _ => rfl, fun h => absurd rfl h⟩
  · simp only [h1, if_false] at h
    cases hn : t.succ[k]? with
    | none => simp [hn] at h
    | some n =>
      simp [hn] at h
      subst h
      exact ⟨rfl, fun h => absurd h h1, fun _ => ⟨n, rfl, rfl⟩⟩

theorem mapM_entryOf_find (t : Tbl) :
    ∀ (nodes : List Nat) (succ : List PEntry), nodes.mapM (entryOf t) = .ok succ →
      (∀ k ∈ nodes, ∃ e, PEntry.find succ k = some e ∧ entryOf t k = .ok e) ∧
      (∀ k, k ∉ nodes → PEntry.find succ k = none) := by
  intro nodes
  induction nodes with
  | nil =>
    intro succ h
    simp [List.mapM_nil, pure, Except.pure] at h
    subst h
    exact ⟨by simp, by intro k _; rfl⟩
  | cons x xs ih =>
    intro succ h
    rw [List.mapM_cons] at h
    cases hx : entryOf t x with
    | error e => simp [hx, bind, Except.bind] at h
    | ok ex =>
      cases hxs : xs.mapM (entryOf t) with
      | error e => simp [hx, hxs, bind, Except.bind] at h
      | ok exs =>
        simp [hx, hxs, bind, Except.bind, pure, Except.pure] at h
        subst h
        obtain ⟨a, b⟩ := ih exs hxs
        have hid := (entryOf_ok hx).1
        constructor
        · intro k hk
          by_cases hkx : x = k
          · subst hkx
            exact ⟨ex, by simp [PEntry.find, hid], hx⟩
          · rcases List.mem_cons.mp hk with h' | h'
            · exact absurd h'.symm hkx
            · obtain ⟨e, he, he'⟩ := a k h'
              refine ⟨e, ?_, he'⟩
              unfold PEntry.find at he ⊢
              rw [List.find?_cons]
              have : (ex.id == k) = false := by simp [hid, hkx]
              rw [this]; exact he
        · intro k hk
          have hkx : x ≠ k := by intro h'; subst h'; exact hk List.mem_cons_self
          have hk' : k ∉ xs := fun h' => hk (List.mem_cons_of_mem _ h')
          have := b k hk'
          unfold PEntry.find at this ⊢
          rw [List.find?_cons]
          have h2 : (ex.id == k) = false := by simp [hid, hkx]
          rw [h2]; exact this

theorem dumpNodes_closed {t : Tbl} (hw : WF t) {roots : Roots} {nodes : List Nat}
    (h : dumpNodes t roots = .ok nodes) :
    Closed t nodes ∧ (∀ u ∈ roots.values, u.natAbs = 1 ∨ u.natAbs ∈ nodes) := by
  cases roots with
  | none =>
    simp [dumpNodes, allNodes] at h
    subst h
    constructor
    · intro r hr h1
      have hr' : r ∈ t.succ.keys := by
        rcases List.mem_cons.mp hr with h' | h'
        · exact absurd h' h1
        · exact h'
      rw [TreeMap.mem_keys, ← TreeMap.contains_iff_mem, TreeMap.contains_eq_isSome_getElem?] at hr'
      obtain ⟨n, hn⟩ := Option.isSome_iff_exists.mp hr'
      have key : ∀ c : Int, t.Mem c → c.natAbs = 1 ∨ c.natAbs ∈ 1 :: t.succ.keys := by
        intro c hc
        rcases hc with hc | hc
        · exact Or.inl hc
        · right
          apply List.mem_cons_of_mem
          rw [TreeMap.mem_keys, ← TreeMap.contains_iff_mem, TreeMap.contains_eq_isSome_getElem?]
          exact hc
      exact ⟨n, hn, key _ (hw.lo_mem _ _ hn), key _ (hw.hi_mem _ _ hn)⟩
    · intro u hu; simp [Roots.values] at hu
  | list l =>
    have := descendants_spec t l nodes h
    exact ⟨this.1, this.2.1⟩
  | dict d =>
    have := descendants_spec t (Roots.dict d).values nodes h
    exact ⟨this.1, this.2.1⟩

theorem dumpPickle_parts {m : Mgr} {roots : Roots} {f : PickleFile} (h : dumpPickle m roots = .ok f) :
    f.vars = m.tbl.vars.toList ∧ f.roots = roots ∧
    ∃ nodes, dumpNodes m.tbl roots = .ok nodes ∧ nodes.mapM (entryOf m.tbl) = .ok f.succ := by
  unfold dumpPickle at h
  cases h1 : dumpNodes m.tbl roots with
  | error e => simp [h1] at h
  | ok nodes =>
    simp only [h1] at h
    cases h2 : nodes.mapM (entryOf m.tbl) with
    | error e => simp [h2] at h
    | ok succ =>
      simp only [h2] at h
      cases h
      exact ⟨rfl, rfl, nodes, rfl, h2⟩

/-- list/dict shape of the roots is stored as given -/
theorem roots_container {m : Mgr} {roots : Roots} {f : PickleFile} (h : dumpPickle m roots = .ok f) :
    f.roots = roots := (dumpPickle_parts h).2.1

theorem nameAt_of_vars {t : Tbl} (hv : DmpVarsOK t) {f : PickleFile} (hf : f.vars = t.vars.toList) :
    (∀ var i, (var, i) ∈ f.vars → f.nameAt i = some var) ∧
    (∀ l x, t.l2v[l]? = some x → f.nameAt l = some x) := by
  have key : ∀ var i, (var, i) ∈ f.vars → f.nameAt i = some var := by
    intro var i hmem
    unfold PickleFile.nameAt
    have hex : (f.vars.find? (fun p => p.2 == i)).isSome := by
      rw [List.find?_isSome]; exact ⟨(var, i), hmem, by simp⟩
    obtain ⟨⟨y, i'⟩, hy⟩ := Option.isSome_iff_exists.mp hex
    have hp := List.find?_some hy
    have hm := List.mem_of_find?_eq_some hy
    simp at hp
    subst hp
    rw [hf, TreeMap.mem_toList_iff_getElem?_eq_some] at hm hmem
    have h1 := (hv.bij y i').mp hm
    have h2 := (hv.bij var i').mp hmem
    rw [h1] at h2
    cases h2
    simp [hy]
  refine ⟨key, ?_⟩
  intro l x hx
  apply key
  rw [hf, TreeMap.mem_toList_iff_getElem?_eq_some]
  exact (hv.bij x l).mpr hx


/-- what `find` returns on a dumped `succ` -/
theorem dump_find {m : Mgr} {roots : Roots} {f : PickleFile} (h : dumpPickle m roots = .ok f) :
    ∃ nodes, dumpNodes m.tbl roots = .ok nodes ∧
      (∀ k ∈ nodes, k ≠ 1 → ∃ n, m.tbl.succ[k]? = some n ∧
        PEntry.find f.succ k = some ⟨k, n.lvl, some n.lo, some n.hi⟩) ∧
      (∀ k, k ∉ nodes → PEntry.find f.succ k = none) := by
  obtain ⟨_, _, nodes, hn, hm⟩ := dumpPickle_parts h
  obtain ⟨a, b⟩ := mapM_entryOf_find m.tbl nodes f.succ hm
  refine ⟨nodes, hn, ?_, b⟩
  intro k hk h1
  obtain ⟨e, he, he'⟩ := a k hk
  obtain ⟨n, hn', hen⟩ := (entryOf_ok he').2.2 h1
  exact ⟨n, hn', by rw [he, hen]⟩

theorem length_vars_toList (t : Tbl) : t.vars.toList.length = t.nvars := by
  unfold Tbl.nvars; exact TreeMap.length_toList

/-- the file `f` stores the variable table of `t` and exactly the nodes `nodes` (a set
closed under successors) with their stored triples -/
structure Stores (t : Tbl) (nodes : List Nat) (f : PickleFile) : Prop where
  vars : f.vars = t.vars.toList
  closed : Closed t nodes
  inn : ∀ k ∈ nodes, k ≠ 1 → ∃ n, t.succ[k]? = some n ∧
    PEntry.find f.succ k = some ⟨k, n.lvl, some n.lo, some n.hi⟩
  out : ∀ k, k ∉ nodes → k ≠ 1 → PEntry.find f.succ k = none

/-- such a content is well formed -/
theorem Stores.wf {t : Tbl} {nodes : List Nat} {f : PickleFile} (hst : Stores t nodes f)
    (hw : WF t) (hv : DmpVarsOK t) : PickleWF f := by
  obtain ⟨hvars, hcl, hin, hout⟩ := hst
  have hlen : f.vars.length = t.nvars := by rw [hvars]; exact length_vars_toList _
  have hfind : ∀ k e, PEntry.find f.succ k = some e → k ≠ 1 →
      k ∈ nodes ∧ ∃ n, t.succ[k]? = some n ∧ e = ⟨k, n.lvl, some n.lo, some n.hi⟩ := by
    intro k e he h1
    by_cases hk : k ∈ nodes
    · obtain ⟨n, hn', hf⟩ := hin k hk h1
      rw [hf] at he
      cases he
      exact ⟨hk, n, hn', rfl⟩
    · rw [hout k hk h1] at he; cases he
  have hchild : ∀ (c : Int) (l : Nat), t.Mem c → (c.natAbs = 1 ∨ c.natAbs ∈ nodes) →
      l < t.levelOf c → FRef f.succ c ∧ l < flevel f.succ f.vars.length c := by
    intro c l hc hcn hl
    by_cases h1 : c.natAbs = 1
    · refine ⟨Or.inl h1, ?_⟩
      rw [levelOf_term _ _ h1] at hl
      simp [flevel, h1, hlen, hl]
    · rcases hcn with hcn | hcn
      · exact absurd hcn h1
      obtain ⟨n, hn', hf⟩ := hin _ hcn h1
      refine ⟨Or.inr (by simp [hf]), ?_⟩
      have : t.levelOf c = n.lvl := levelOf_node t c n h1 hn'
      simp [flevel, h1, hf, ← this, hl]
  refine ⟨?_, ⟨?_⟩, (nameAt_of_vars hv hvars).1, ?_⟩
  · intro var i hmem
    rw [hlen]
    rw [hvars, TreeMap.mem_toList_iff_getElem?_eq_some] at hmem
    exact hv.contig var i hmem
  · intro k e he h1
    obtain ⟨hk, n, hn', rfl⟩ := hfind k e he h1
    obtain ⟨n', hn'', clo, chi⟩ := hcl k hk h1
    rw [hn'] at hn''; cases hn''
    have hnode : t.node? k = some n := hn'
    obtain ⟨r1, l1⟩ := hchild n.lo n.lvl (hw.lo_mem _ _ hnode) clo (hw.lo_lt _ _ hnode)
    obtain ⟨r2, l2⟩ := hchild n.hi n.lvl (hw.hi_mem _ _ hnode) chi (hw.hi_lt _ _ hnode)
    exact ⟨n.lo, n.hi, rfl, rfl, by rw [hlen]; exact hw.lvl_lt _ _ hnode, hw.hi_pos _ _ hnode,
      hw.ge_two _ _ hnode, r1, r2, l1, l2⟩
  · intro k e he h1
    obtain ⟨_, n, hn', rfl⟩ := hfind k e he h1
    have hnode : t.node? k = some n := hn'
    obtain ⟨x, hx⟩ := Option.isSome_iff_exists.mp (hv.named _ (hw.lvl_lt _ _ hnode))
    refine ⟨x, ?_⟩
    show (x, n.lvl) ∈ f.vars
    rw [hvars, TreeMap.mem_toList_iff_getElem?_eq_some]
    exact (hv.bij x n.lvl).mpr hx

/-- the dumped content denotes, by variable name, what the manager's references denote -/
theorem Stores.eval {t : Tbl} {nodes : List Nat} {f : PickleFile} (hst : Stores t nodes f)
    (hw : WF t) (hv : DmpVarsOK t) (α : String → Bool) :
    ∀ u : Int, (u.natAbs = 1 ∨ u.natAbs ∈ nodes) → evalPickle f u α = denBy t u α := by
  obtain ⟨hvars, hcl, hin, hout⟩ := hst
  have hlen : f.vars.length = t.nvars := by rw [hvars]; exact length_vars_toList _
  have key : ∀ k u, (u.natAbs = 1 ∨ u.natAbs ∈ nodes) →
      evalN f k u α = denF t k u (t.asg α) := by
    intro k
    induction k with
    | zero => intro u _; rfl
    | succ k ih =>
      intro u hu
      rw [evalN, denF]
      by_cases h1 : u.natAbs = 1
      · simp [h1]
      · simp only [h1, if_false]
        rcases hu with hu | hu
        · exact absurd hu h1
        obtain ⟨n, hn', hf⟩ := hin _ hu h1
        obtain ⟨n', hn'', clo, chi⟩ := hcl _ hu h1
        rw [hn'] at hn''; cases hn''
        have hnode : t.node? u.natAbs = some n := hn'
        obtain ⟨x, hx⟩ := Option.isSome_iff_exists.mp (hv.named _ (hw.lvl_lt _ _ hnode))
        have hname := (nameAt_of_vars hv hvars).2 _ _ hx
        simp only [hf, hnode, hname]
        rw [ih _ chi, ih _ clo]
        have : t.asg α n.lvl = α x := by simp [Tbl.asg, hx]
        rw [this]
  intro u hu
  unfold evalPickle denBy den
  rw [hlen]
  exact key _ u hu

theorem dumpPickle_stores {m : Mgr} (hI : Inv m) {roots : Roots} {f : PickleFile}
    (h : dumpPickle m roots = .ok f) :
    ∃ nodes, Stores m.tbl nodes f ∧ (∀ u ∈ roots.values, u.natAbs = 1 ∨ u.natAbs ∈ nodes) := by
  obtain ⟨nodes, hn, hin, hout⟩ := dump_find h
  obtain ⟨hvars, _, _⟩ := dumpPickle_parts h
  obtain ⟨hcl, hroots⟩ := dumpNodes_closed hI.wf.toWF hn
  exact ⟨nodes, ⟨hvars, hcl, hin, fun k hk _ => hout k hk⟩, hroots⟩

/-- the content `_dump_bdd` writes for a manager satisfying the invariant is well formed -/
theorem dumpPickle_wf {m : Mgr} (hI : Inv m) (hv : DmpVarsOK m.tbl) {roots : Roots} {f : PickleFile}
    (h : dumpPickle m roots = .ok f) : PickleWF f := by
  obtain ⟨nodes, hst, _⟩ := dumpPickle_stores hI h
  exact hst.wf hI.wf.toWF hv

/-- the dumped content denotes, by variable name, what the manager's references denote -/
theorem dumpPickle_eval {m : Mgr} (hI : Inv m) (hv : DmpVarsOK m.tbl) {roots : Roots} {f : PickleFile}
    (h : dumpPickle m roots = .ok f) (α : String → Bool) :
    ∀ u ∈ roots.values, evalPickle f u α = denBy m.tbl u α := by
  obtain ⟨nodes, hst, hr⟩ := dumpPickle_stores hI h
  intro u hu
  exact hst.eval hI.wf.toWF hv α u (hr u hu)

theorem stores_resolvable {t : Tbl} {nodes : List Nat} {f : PickleFile} (hst : Stores t nodes f)
    (hr : ∀ u ∈ f.roots.values, u.natAbs = 1 ∨ u.natAbs ∈ nodes) : RootsResolvable f := by
  intro u hu
  by_cases h1 : u.natAbs = 1
  · exact Or.inl h1
  · rcases hr u hu with h | h
    · exact absurd h h1
    · obtain ⟨n, _, hf⟩ := hst.inn _ h h1
      exact Or.inr ⟨_, List.mem_of_find?_eq_some hf, rfl⟩

theorem dumpPickle_resolvable {m : Mgr} (hI : Inv m) {roots : Roots} {f : PickleFile}
    (h : dumpPickle m roots = .ok f) : RootsResolvable f := by
  obtain ⟨nodes, hst, hr⟩ := dumpPickle_stores hI h
  exact stores_resolvable hst (by rw [roots_container h]; exact hr)

/-! ### pickle round trips -/

theorem Forall2.imp_mem {α β : Type} {R S : α → β → Prop} :
    ∀ {l : List α} {l' : List β}, Forall2 R l l' → (∀ a ∈ l, ∀ b, R a b → S a b) → Forall2 S l l' := by
  intro l l' hl
  induction hl with
  | nil => intro _; exact .nil
  | cons a _ ih =>
    intro h
    exact .cons (h _ List.mem_cons_self _ a) (ih fun x hx => h x (List.mem_cons_of_mem _ hx))

theorem RootsRel.imp_mem {P Q : Int → Int → Prop} {a b : Roots} (hr : RootsRel P a b)
    (h : ∀ u ∈ a.values, ∀ r, P u r → Q u r) : RootsRel Q a b := by
  cases hr with
  | none => exact .none
  | list hl => exact .list (hl.imp_mem h)
  | dict hd =>
    refine .dict (hd.imp_mem ?_)
    intro x hx y hxy
    exact ⟨hxy.1, h _ (by simp [Roots.values]; exact ⟨x.1, hx⟩) _ hxy.2⟩

/-- the result of a load, compared with the functions that were dumped: same container
shape (list positions / dict keys; an empty list when no roots were named), each member a
node of the receiving manager that denotes — by variable name — the dumped function -/
def LoadedAs (src : Tbl) (roots : Roots) (tgt : Tbl) (roots' : Roots) : Prop :=
  RootsRel (fun u r => tgt.Mem r ∧ ∀ α, denBy tgt r α = denBy src u α) roots roots'

theorem OrderOK.toDmp {t : Tbl} (h : OrderOK t) : DmpVarsOK t :=
  ⟨h.inv, h.lt, fun l hl => by obtain ⟨v, hv⟩ := h.total l hl; simp [hv]⟩

theorem loadedAs_of_loadedFrom {src : Mgr} (hIs : Inv src) (hvs : DmpVarsOK src.tbl)
    {roots : Roots} {f : PickleFile} (hd : dumpPickle src roots = .ok f) {t : Tbl} {roots' : Roots}
    (h : LoadedFrom f t roots') : LoadedAs src.tbl roots t roots' := by
  unfold LoadedFrom at h
  rw [roots_container hd] at h
  apply h.imp_mem
  intro u hu r ⟨h1, h2⟩
  exact ⟨h1, fun α => by rw [h2 α, dumpPickle_eval hIs hvs hd α u hu]⟩

theorem toList_pairwise (t : Tbl) (hb : DmpVarsBij t) :
    t.vars.toList.Pairwise (fun a b => a.1 ≠ b.1 ∧ a.2 ≠ b.2) := by
  apply List.Pairwise.imp_of_mem _ (TreeMap.distinct_keys_toList (t := t.vars))
  intro a b ha hb' hne
  have h1 : a.1 ≠ b.1 := fun h => hne (by rw [h]; exact compare_self)
  refine ⟨h1, ?_⟩
  intro h2
  obtain ⟨a1, a2⟩ := a
  obtain ⟨b1, b2⟩ := b
  rw [TreeMap.mem_toList_iff_getElem?_eq_some] at ha hb'
  simp at h2
  subst h2
  have x := (hb a1 a2).mp ha
  have y := (hb b1 a2).mp hb'
  rw [x] at y
  cases y
  exact h1 rfl

/-- `sorted(levels) == list(range(n))` says: the levels are a permutation of `0..n-1` -/
theorem levelsPermutation_iff (vs : List (String × Nat)) :
    levelsPermutation vs = true ↔ (vs.map (·.2)).Perm (List.range vs.length) := by
  unfold levelsPermutation
  rw [beq_iff_eq]
  constructor
  · intro h; rw [← h]; exact (sortNat_perm _).symm
  · intro h
    have hn : (vs.map (·.2)).Nodup := h.nodup_iff.mpr List.nodup_range
    apply List.Perm.eq_of_pairwise (le := fun a b => a < b) _ (sortNat_strict hn) List.pairwise_lt_range
      ((sortNat_perm _).trans h)
    intro a b _ _ h1 h2; omega

/-- the pairs a manager with consistent, gap-free order tables writes -/
theorem levelsPermutation_toList (t : Tbl) (hv : DmpVarsOK t) : levelsPermutation t.vars.toList = true := by
  rw [levelsPermutation_iff]
  have hp := toList_pairwise t hv.bij
  have hn : (t.vars.toList.map (·.2)).Nodup := by
    rw [List.Nodup, List.pairwise_map]; exact hp.imp (fun h => h.2)
  apply (List.perm_ext_iff_of_nodup hn List.nodup_range).mpr
  intro l
  rw [List.mem_range, TreeMap.length_toList]
  constructor
  · intro h
    obtain ⟨⟨v, l'⟩, hm, rfl⟩ := List.mem_map.mp h
    rw [TreeMap.mem_toList_iff_getElem?_eq_some] at hm
    exact hv.contig v l' hm
  · intro h
    obtain ⟨v, hvl⟩ := Option.isSome_iff_exists.mp (hv.named l h)
    exact List.mem_map.mpr ⟨(v, l), TreeMap.mem_toList_iff_getElem?_eq_some.mpr ((hv.bij v l).mpr hvl), rfl⟩

theorem dumpPickle_levelsPerm {m : Mgr} (hv : DmpVarsOK m.tbl) {roots : Roots} {f : PickleFile}
    (h : dumpPickle m roots = .ok f) : levelsPermutation f.vars = true := by
  rw [(dumpPickle_parts h).1]; exact levelsPermutation_toList m.tbl hv

/-- C12, pickle, general form: dump `roots` (list, dict or `None`; constants allowed) of
`src`, load the content into `tgt` with either value of `levels`, whatever the variable
order of `tgt`.  The only hypotheses beyond the invariants: the loader accepts the
variables (it may refuse with `levels=True`) and leaves no level gap (F7). -/
theorem pickle_roundtrip
    (src : Mgr) (hIs : Inv src) (hvs : DmpVarsOK src.tbl)
    (roots : Roots) (f : PickleFile) (hd : dumpPickle src roots = .ok f)
    (levels : Bool) (tgt : Mgr) (hI : Inv tgt) (hb : DmpVarsBij tgt.tbl) (hc : tgt.ctx = false)
    (lm : List (Nat × Nat)) (m1 : Mgr)
    (hv : loadVars levels f.vars.length f.vars [] tgt = (.ok lm, m1))
    (hg : Contig m1.tbl) :
    ∃ roots' m', loadPickle f levels tgt = (.ok roots', m') ∧ Inv m' ∧ DmpVarsBij m'.tbl ∧
      (∀ u n, tgt.tbl.node? u = some n → m'.tbl.node? u = some n) ∧
      LoadedAs src.tbl roots m'.tbl roots' := by
  obtain ⟨roots', m', e, I, B, _, _, N, R⟩ :=
    pickle_load f levels tgt hI hb hc (dumpPickle_wf hIs hvs hd) (dumpPickle_resolvable hIs hd)
      lm m1 hv hg (fun _ => dumpPickle_levelsPerm hvs hd)
  exact ⟨roots', m', e, I, B, N, loadedAs_of_loadedFrom hIs hvs hd R⟩

/-- C12, pickle, `levels=False`: into ANY manager with a consistent order — other variable
order, extra variables, missing variables — the load cannot be refused and returns the
dumped functions.  (The case the fix 8564934 repaired.) -/
theorem pickle_roundtrip_any_order
    (src : Mgr) (hIs : Inv src) (hvs : DmpVarsOK src.tbl)
    (roots : Roots) (f : PickleFile) (hd : dumpPickle src roots = .ok f)
    (tgt : Mgr) (hI : Inv tgt) (hO : OrderOK tgt.tbl) (hc : tgt.ctx = false) :
    ∃ roots' m', loadPickle f false tgt = (.ok roots', m') ∧ Inv m' ∧ OrderOK m'.tbl ∧
      (∀ u n, tgt.tbl.node? u = some n → m'.tbl.node? u = some n) ∧
      LoadedAs src.tbl roots m'.tbl roots' := by
  have hwf := dumpPickle_wf hIs hvs hd
  obtain ⟨lm, m1, hv, O1⟩ := loadVars_false_total f.vars.length f.vars [] tgt hI hO hwf.bound
  obtain ⟨roots', m', e, I, B, G, _, N, R⟩ :=
    pickle_load f false tgt hI hO.bij hc hwf (dumpPickle_resolvable hIs hd) lm m1 hv O1.contig (fun h => by cases h)
  obtain ⟨_, _, C1, _⟩ := loadVars_spec Inv false f.vars.length f.vars
    (fun m var i j m' _ hJ h => addVar_inv hJ h) [] tgt lm m1 hv hI hO.bij
  refine ⟨roots', m', e, I, ?_, N, loadedAs_of_loadedFrom hIs hvs hd R⟩
  -- the order tables of `m'` are those of `m1` (only nodes were added)
  have hfr : m'.tbl.vars = m1.tbl.vars ∧ m'.tbl.l2v = m1.tbl.l2v ∧ m'.tbl.nvars = m1.tbl.nvars := by
    rw [loadPickle_of_compat f false tgt (fun h => by cases h)] at e
    unfold loadPickleBody at e
    rw [hv] at e
    dsimp only at e
    cases hla : loadAll f.succ lm (f.vars.length + f.succ.length + 2) f.succ {} m1 with
    | mk res m2 =>
      rw [hla] at e
      cases res with
      | error er => simp at e
      | ok umap =>
        simp only [Prod.mk.injEq] at e
        obtain ⟨_, rfl⟩ := e
        have hl : LMOK f.succ lm m1.nvars := by
          constructor
          intro k en he h1
          obtain ⟨var, hvar⟩ := hwf.lvls k en he h1
          obtain ⟨_, _, _, _, _, R1, D1, _⟩ := loadVars_spec Inv false f.vars.length f.vars
            (fun m var i j m' _ hJ h => addVar_inv hJ h) [] tgt lm m1 hv hI hO.bij
          obtain ⟨j, hj⟩ := Option.isSome_iff_exists.mp (D1 var en.lvl hvar)
          refine ⟨j, hj, ?_⟩
          rcases R1 _ _ hj with h | ⟨v, _, hv'⟩
          · simp at h
          · exact O1.lt v j hv'
        obtain ⟨I1, _⟩ := loadVars_spec Inv false f.vars.length f.vars
          (fun m var i j m' _ hJ h => addVar_inv hJ h) [] tgt lm m1 hv hI hO.bij
        obtain ⟨umap', m2', e2, _, F2, X2, _⟩ :=
          loadAll_spec LoadKeeps.trivial hwf.succ hl (fuel := f.vars.length + f.succ.length + 2) (by omega) f.succ {} m1
            (fun _ h => h) I1 True.intro (C1.trans hc) rfl (UOK.empty _ _ _ _)
        rw [hla] at e2
        simp only [Prod.mk.injEq] at e2
        obtain ⟨_, rfl⟩ := e2
        exact ⟨F2.vars, F2.l2v, X2.nvars.symm⟩
  obtain ⟨hv1, hv2, hv3⟩ := hfr
  refine ⟨?_, ?_, ?_⟩
  · intro v i; rw [hv1, hv2]; exact O1.inv v i
  · intro v i h; rw [hv1] at h; rw [hv3]; exact O1.lt v i h
  · intro i hi; rw [hv3] at hi; rw [hv2]; exact O1.total i hi

/-- when the receiving manager already declares the variables at the levels of the file,
the first loop of `_load_pickle` changes nothing -/
theorem loadVars_declared (levels : Bool) (n : Nat) :
    ∀ (vs : List (String × Nat)) (lm : List (Nat × Nat)) (m : Mgr),
      (∀ var i, (var, i) ∈ vs → m.tbl.vars[var]? = some i ∧ i < n) →
      ∃ lm', loadVars levels n vs lm m = (.ok lm', m) := by
  intro vs
  induction vs with
  | nil => intro lm m _; exact ⟨lm, rfl⟩
  | cons x rest ih =>
    intro lm m h
    obtain ⟨var, i⟩ := x
    obtain ⟨h1, h2⟩ := h var i List.mem_cons_self
    have hav : addVar var (if levels = true then some (i : Int) else none) m = (.ok i, m) := by
      cases levels <;> simp [addVar, bind, M.bind', M.get, h1, pure, M.pure']
    obtain ⟨lm', h'⟩ := ih ((i, i) :: lm) m (fun v k hk => h v k (List.mem_cons_of_mem _ hk))
    refine ⟨lm', ?_⟩
    rw [loadVars]
    simp only [h2, not_true_eq_false, if_false, hav]
    exact h'

/-- C12, pickle, into a manager that already declares the variables at the same levels
(in particular: into the SAME manager), either value of `levels` -/
theorem pickle_roundtrip_declared
    (src : Mgr) (hIs : Inv src) (hvs : DmpVarsOK src.tbl)
    (roots : Roots) (f : PickleFile) (hd : dumpPickle src roots = .ok f)
    (levels : Bool) (tgt : Mgr) (hI : Inv tgt) (hb : DmpVarsBij tgt.tbl) (hg : Contig tgt.tbl)
    (hc : tgt.ctx = false)
    (hdecl : ∀ (var : String) (i : Nat), src.tbl.vars[var]? = some i → tgt.tbl.vars[var]? = some i) :
    ∃ roots' m', loadPickle f levels tgt = (.ok roots', m') ∧ Inv m' ∧ DmpVarsBij m'.tbl ∧
      (∀ u n, tgt.tbl.node? u = some n → m'.tbl.node? u = some n) ∧
      LoadedAs src.tbl roots m'.tbl roots' := by
  obtain ⟨hvars, _, _⟩ := dumpPickle_parts hd
  have hlen : f.vars.length = src.tbl.nvars := by rw [hvars]; exact length_vars_toList _
  have hmem : ∀ var i, (var, i) ∈ f.vars → tgt.tbl.vars[var]? = some i ∧ i < f.vars.length := by
    intro var i h
    rw [hvars, TreeMap.mem_toList_iff_getElem?_eq_some] at h
    exact ⟨hdecl var i h, by rw [hlen]; exact hvs.contig var i h⟩
  obtain ⟨lm, hv⟩ := loadVars_declared levels f.vars.length f.vars [] tgt hmem
  exact pickle_roundtrip src hIs hvs roots f hd levels tgt hI hb hc lm tgt hv hg

/-- loading into the manager the file was dumped from -/
theorem pickle_roundtrip_same_manager (m : Mgr) (hI : Inv m) (hv : DmpVarsOK m.tbl)
    (hc : m.ctx = false) (roots : Roots) (f : PickleFile) (hd : dumpPickle m roots = .ok f)
    (levels : Bool) :
    ∃ roots' m', loadPickle f levels m = (.ok roots', m') ∧ Inv m' ∧ DmpVarsBij m'.tbl ∧
      (∀ u n, m.tbl.node? u = some n → m'.tbl.node? u = some n) ∧
      LoadedAs m.tbl roots m'.tbl roots' :=
  pickle_roundtrip_declared m hI hv roots f hd levels m hI hv.bij hv.contig hc (fun _ _ h => h)

/-- a manager without nodes (fresh, possibly with variables) -/
structure NodeFree (m : Mgr) : Prop where
  succ : ∀ u : Nat, m.tbl.succ[u]? = none
  pred : ∀ k : List Int, m.pred[k]? = none
  cache : ∀ k : List Int, m.cache[k]? = none
  free : 2 ≤ m.minFree
  ref1 : m.ref.contains 1 = true

theorem NodeFree.inv {m : Mgr} (h : NodeFree m) : Inv m := by
  have hn : ∀ u, m.tbl.node? u = none := h.succ
  refine ⟨⟨⟨?_, ?_, ?_, ?_, ?_, ?_, ?_, ?_⟩, ?_⟩, ?_, h.free, hn _, h.ref1, ?_, ?_⟩
  all_goals first
    | (intro u n hu; rw [hn] at hu; cases hu)
    | (intro u u' n hu; rw [hn] at hu; cases hu)
    | skip
  · intro n u; rw [h.pred, hn]; simp
  · intro g u v w hc; rw [h.cache] at hc; cases hc

/-! ### whole-manager pickle -/

theorem opt_ext {α : Type} {a b : Option α} (h : ∀ x, a = some x ↔ b = some x) : a = b := by
  cases a with
  | none =>
    cases b with
    | none => rfl
    | some y => exact absurd ((h y).mpr rfl) (by simp)
  | some x => exact ((h x).mp rfl).symm

/-- `dict(items)` of the items of a map is that map -/
theorem ofList_toList_getElem? {α β : Type} [Ord α] [TransOrd α] [LawfulEqOrd α] [BEq α] [LawfulBEqOrd α]
    (t : TreeMap α β) (k : α) : (TreeMap.ofList t.toList)[k]? = t[k]? := by
  cases h : t[k]? with
  | some v =>
    have hm : (k, v) ∈ t.toList := TreeMap.mem_toList_iff_getElem?_eq_some.mpr h
    exact TreeMap.getElem?_ofList_of_mem (k := k) compare_self TreeMap.distinct_keys_toList hm
  | none =>
    apply TreeMap.getElem?_ofList_of_contains_eq_false
    rw [Bool.eq_false_iff]
    intro hc
    rw [List.contains_iff_mem, List.mem_map] at hc
    obtain ⟨⟨k', v⟩, hkv, hk⟩ := hc
    simp at hk
    subst hk
    rw [TreeMap.mem_toList_iff_getElem?_eq_some] at hkv
    rw [h] at hkv
    cases hkv


theorem dmp_addVar_new (m : Mgr) (v : String) (l : Nat) (h1 : m.tbl.vars[v]? = none)
    (h2 : m.tbl.l2v[l]? = none) :
    addVar v (some (l : Int)) m = (.ok l, { m with tbl := { m.tbl with
      vars := m.tbl.vars.insert v l, l2v := m.tbl.l2v.insert l v } }) := by
  have hneg : ¬ ((l : Int) < 0) := by omega
  simp [addVar, bind, M.bind', M.get, h1, h2, hneg, M.set, pure, M.pure']

/-- fields other than the variable tables -/
structure SameRest (m m' : Mgr) : Prop where
  succ : m'.tbl.succ = m.tbl.succ
  pred : m'.pred = m.pred
  ref : m'.ref = m.ref
  minFree : m'.minFree = m.minFree
  cache : m'.cache = m.cache
  lastLen : m'.lastLen = m.lastLen
  ctx : m'.ctx = m.ctx
  roots : m'.roots = m.roots

theorem addVars_spec : ∀ (vs : List (String × Nat)) (m0 : Mgr),
    vs.Pairwise (fun a b => a.1 ≠ b.1 ∧ a.2 ≠ b.2) →
    (∀ v l, (v, l) ∈ vs → m0.tbl.vars[v]? = none ∧ m0.tbl.l2v[l]? = none) →
    ∃ m1, addVars vs m0 = (.ok (), m1) ∧
      (∀ (v : String) (l : Nat), m1.tbl.vars[v]? = some l ↔ (m0.tbl.vars[v]? = some l ∨ (v, l) ∈ vs)) ∧
      (∀ (l : Nat) (v : String), m1.tbl.l2v[l]? = some v ↔ (m0.tbl.l2v[l]? = some v ∨ (v, l) ∈ vs)) ∧
      SameRest m0 m1 := by
  intro vs
  induction vs with
  | nil =>
    intro m0 _ _
    exact ⟨m0, rfl, by simp, by simp, ⟨rfl, rfl, rfl, rfl, rfl, rfl, rfl, rfl⟩⟩
  | cons x rest ih =>
    intro m0 hp hfree
    obtain ⟨v, l⟩ := x
    obtain ⟨f1, f2⟩ := hfree v l List.mem_cons_self
    rw [List.pairwise_cons] at hp
    obtain ⟨hx, hp'⟩ := hp
    rw [addVars]
    dsimp only
    rw [dmp_addVar_new m0 v l f1 f2]
    dsimp only
    have hfree' : ∀ v' l', (v', l') ∈ rest →
        (m0.tbl.vars.insert v l)[v']? = none ∧ (m0.tbl.l2v.insert l v)[l']? = none := by
      intro v' l' hm
      obtain ⟨g1, g2⟩ := hfree v' l' (List.mem_cons_of_mem _ hm)
      obtain ⟨d1, d2⟩ := hx (v', l') hm
      rw [TreeMap.getElem?_insert, TreeMap.getElem?_insert]
      have c1 : compare v v' ≠ .eq := fun h => d1 (compare_eq_iff_eq.mp h)
      have c2 : compare l l' ≠ .eq := fun h => d2 (compare_eq_iff_eq.mp h)
      simp [c1, c2, g1, g2]
    obtain ⟨m1, e1, V1, L1, S1⟩ := ih ({ m0 with tbl := { m0.tbl with
      vars := m0.tbl.vars.insert v l, l2v := m0.tbl.l2v.insert l v } }) hp' hfree'
    refine ⟨m1, e1, ?_, ?_, ⟨S1.succ, S1.pred, S1.ref, S1.minFree, S1.cache, S1.lastLen, S1.ctx, S1.roots⟩⟩
    · intro v' l'
      rw [V1]
      show (m0.tbl.vars.insert v l)[v']? = some l' ∨ _ ↔ _
      rw [TreeMap.getElem?_insert]
      by_cases hv : v = v'
      · subst hv
        simp [f1]
        constructor
        · rintro (h | h)
          · exact Or.inl h.symm
          · exact Or.inr h
        · rintro (h | h)
          · exact Or.inl h.symm
          · exact Or.inr h
      · have c1 : compare v v' ≠ .eq := fun h => hv (compare_eq_iff_eq.mp h)
        have : ¬ (v' = v) := fun h => hv h.symm
        simp [c1, this]
    · intro l' v'
      rw [L1]
      show (m0.tbl.l2v.insert l v)[l']? = some v' ∨ _ ↔ _
      rw [TreeMap.getElem?_insert]
      by_cases hl : l = l'
      · subst hl
        simp [f2]
        constructor
        · rintro (h | h)
          · exact Or.inl h.symm
          · exact Or.inr h
        · rintro (h | h)
          · exact Or.inl h.symm
          · exact Or.inr h
      · have c1 : compare l l' ≠ .eq := fun h => hl (compare_eq_iff_eq.mp h)
        have : ¬ (l' = l) := fun h => hl h.symm
        simp [c1, this]


theorem validOrdering_toList (t : Tbl) (hv : DmpVarsOK t) : validOrdering t.vars.toList = true := by
  unfold validOrdering
  simp only [Bool.and_eq_true, List.all_eq_true, decide_eq_true_eq]
  rw [length_vars_toList]
  constructor
  · intro i hi
    rw [List.mem_range] at hi
    obtain ⟨x, hx⟩ := Option.isSome_iff_exists.mp (hv.named i hi)
    have := (hv.bij x i).mpr hx
    rw [List.contains_iff_mem, List.mem_map]
    exact ⟨(x, i), TreeMap.mem_toList_iff_getElem?_eq_some.mpr this, rfl⟩
  · intro k hk
    rw [List.mem_map] at hk
    obtain ⟨⟨v, l⟩, hm, rfl⟩ := hk
    exact hv.contig v l (TreeMap.mem_toList_iff_getElem?_eq_some.mp hm)

/-- the constructor called on the variable table of a manager rebuilds both views -/
theorem mkBDD_toList (t : Tbl) (hv : DmpVarsOK t) :
    ∃ m0, mkBDD t.vars.toList = .ok m0 ∧ (∀ v : String, m0.tbl.vars[v]? = t.vars[v]?) ∧
      (∀ l : Nat, m0.tbl.l2v[l]? = t.l2v[l]?) ∧ SameRest {} m0 := by
  obtain ⟨m1, e1, V1, L1, S1⟩ := addVars_spec t.vars.toList {} (toList_pairwise t hv.bij)
    (by intro v l _; exact ⟨by simp, by simp⟩)
  refine ⟨m1, ?_, ?_, ?_, S1⟩
  · unfold mkBDD
    rw [validOrdering_toList t hv, e1]
    rfl
  · intro v
    apply opt_ext
    intro l
    rw [V1, TreeMap.mem_toList_iff_getElem?_eq_some]
    simp
  · intro l
    apply opt_ext
    intro v
    rw [L1, TreeMap.mem_toList_iff_getElem?_eq_some, hv.bij]
    simp


/-- every key of the unique table is the key of a node triple -/
def PredShape (m : Mgr) : Prop := ∀ (k : List Int) (u : Nat), m.pred[k]? = some u → ∃ n : Nd, k = n.key

/-- `m'` reproduces the stored fields of `m`; the others are those of a new manager -/
structure MgrStored (m m' : Mgr) : Prop where
  vars : ∀ v : String, m'.tbl.vars[v]? = m.tbl.vars[v]?
  l2v : ∀ l : Nat, m'.tbl.l2v[l]? = m.tbl.l2v[l]?
  succ : ∀ u : Nat, m'.tbl.succ[u]? = m.tbl.succ[u]?
  pred : ∀ k : List Int, m'.pred[k]? = m.pred[k]?
  ref : ∀ u : Nat, m'.ref[u]? = m.ref[u]?
  minFree : m'.minFree = m.minFree
  roots : m'.roots = m.roots
  cache : ∀ k : List Int, m'.cache[k]? = none
  lastLen : m'.lastLen = none
  ctx : m'.ctx = false

theorem nd?_nodeEntry (x : Nat × Nd) : (dumpNodeEntry x).nd? = some x := by
  obtain ⟨u, n⟩ := x
  rfl

theorem filterMap_nd?_nodes (l : List (Nat × Nd)) : (l.map dumpNodeEntry).filterMap PEntry.nd? = l := by
  induction l with
  | nil => rfl
  | cons x xs ih => simp [List.filterMap_cons, nd?_nodeEntry, ih]

theorem filter_none_nodes (l : List (Nat × Nd)) :
    (l.map dumpNodeEntry).filter (fun e => e.nd?.isNone) = [] := by
  rw [List.filter_eq_nil_iff]
  intro e he
  rw [List.mem_map] at he
  obtain ⟨x, _, rfl⟩ := he
  simp [nd?_nodeEntry]

theorem predEntry_key (n : Nd) (u : Nat) :
    predEntry (n.key, u) = some ⟨u, n.lvl, some n.lo, some n.hi⟩ := by
  simp [predEntry, Nd.key]

theorem pred_roundtrip (l : List (List Int × Nat)) (h : ∀ x ∈ l, ∃ n : Nd, x.1 = n.key) :
    ((l.filterMap predEntry).filterMap PEntry.nd?).map (fun (x : Nat × Nd) => (x.2.key, x.1)) = l ∧
    (l.filterMap predEntry).filter (fun e => e.nd?.isNone) = [] := by
  induction l with
  | nil => exact ⟨rfl, rfl⟩
  | cons x xs ih =>
    obtain ⟨k, u⟩ := x
    obtain ⟨n, hn⟩ := h (k, u) List.mem_cons_self
    simp at hn
    subst hn
    obtain ⟨a, b⟩ := ih (fun y hy => h y (List.mem_cons_of_mem _ hy))
    constructor
    · rw [List.filterMap_cons, predEntry_key]
      simp only [List.filterMap_cons, PEntry.nd?, List.map_cons]
      rw [a]
    · rw [List.filterMap_cons, predEntry_key]
      have : (⟨u, n.lvl, some n.lo, some n.hi⟩ : PEntry).nd?.isNone = false := rfl
      simp only [List.filter_cons, this]
      exact b

/-- C12: a whole-manager pickle reproduces the manager (`loadManager (dumpManager m)` equals
`m` on every stored field; the computed table is empty and reordering is off, as in
any new manager) -/
theorem manager_roundtrip (m : Mgr) (hv : DmpVarsOK m.tbl) (hp : PredShape m) :
    ∃ m', loadManager (dumpManager m) = .ok m' ∧ MgrStored m m' := by
  obtain ⟨m0, e0, V0, L0, S0⟩ := mkBDD_toList m.tbl hv
  have hpl : ∀ x ∈ m.pred.toList, ∃ n : Nd, x.1 = n.key := by
    intro x hx
    obtain ⟨k, u⟩ := x
    exact hp k u (TreeMap.mem_toList_iff_getElem?_eq_some.mp hx)
  obtain ⟨pr1, pr2⟩ := pred_roundtrip m.pred.toList hpl
  have hterm : (⟨1, m.nvars, none, none⟩ : PEntry).nd? = none := rfl
  have hlen : (dumpManager m).vars.length = m.nvars := length_vars_toList _
  refine ⟨{ m0 with
      roots := m.roots
      pred := TreeMap.ofList m.pred.toList
      tbl := { m0.tbl with succ := TreeMap.ofList m.tbl.succ.toList }
      ref := TreeMap.ofList m.ref.toList
      minFree := m.minFree }, ?_, ?_⟩
  · unfold loadManager
    have e0' : mkBDD (dumpManager m).vars = .ok m0 := e0
    rw [e0']
    simp only [dumpManager, List.filter_cons, hterm, Option.isNone_none, if_true, filter_none_nodes,
      pr2, List.filterMap_cons, filterMap_nd?_nodes, pr1, hlen]
    simp [Mgr.nvars, Tbl.nvars]
  · refine ⟨V0, L0, ?_, ?_, ?_, rfl, rfl, ?_, ?_, ?_⟩
    · intro u; exact ofList_toList_getElem? _ _
    · intro k; exact ofList_toList_getElem? _ _
    · intro u; exact ofList_toList_getElem? _ _
    · intro k; show m0.cache[k]? = none; rw [S0.cache]; simp
    · show m0.lastLen = none; rw [S0.lastLen]
    · show m0.ctx = false; rw [S0.ctx]


deriving instance DecidableEq for Except

/-! ### the inputs on which the tree failed before the fix commits 8564934 / 58a79f8 -/

/-- a pickle of the empty manager written without roots / with the root TRUE -/
def fileNoRoots : PickleFile := { vars := [], succ := [⟨1, 0, none, none⟩], roots := .none }
def fileConstRoot : PickleFile := { vars := [], succ := [⟨1, 0, none, none⟩], roots := .list [1] }

theorem fileNoRoots_eq : dumpPickle {} .none = .ok fileNoRoots := by decide +kernel
theorem fileConstRoot_eq : dumpPickle {} (.list [1]) = .ok fileConstRoot := by decide +kernel

theorem wf_terminal_only (r : Roots) : PickleWF { vars := [], succ := [⟨1, 0, none, none⟩], roots := r } := by
  have hf : ∀ k e, PEntry.find [(⟨1, 0, none, none⟩ : PEntry)] k = some e → k = 1 := by
    intro k e h
    have := PEntry.find_id h
    have hm := List.mem_of_find?_eq_some h
    simp at hm
    subst hm
    exact this.symm
  refine ⟨?_, ⟨?_⟩, ?_, ?_⟩
  · intro var i h; simp at h
  · intro k e h h1; exact absurd (hf k e h) h1
  · intro var i h; simp at h
  · intro k e h h1; exact absurd (hf k e h) h1


theorem varsBij_empty : DmpVarsBij ({} : Mgr).tbl := by
  intro v l
  show ({} : TreeMap String Nat)[v]? = some l ↔ ({} : TreeMap Nat String)[l]? = some v
  simp

theorem contig_empty : Contig ({} : Mgr).tbl := by
  intro v l h
  have : ({} : TreeMap String Nat)[v]? = some l := h
  simp at this

theorem varsOK_empty : DmpVarsOK ({} : Mgr).tbl :=
  ⟨varsBij_empty, contig_empty, by
    intro l h
    have h0 : ({} : Mgr).tbl.nvars = 0 := by decide +kernel
    rw [h0] at h; omega⟩

/-- formerly F2: a pickle written without roots loads back as an empty list -/
theorem load_roots_none_ok : (loadPickle fileNoRoots true {}).1 = .ok (.list []) := by
  decide +kernel

/-- formerly F11: a constant root comes back as itself -/
theorem load_constant_root_ok : (loadPickle fileConstRoot true {}).1 = .ok (.list [1]) := by
  decide +kernel

/-! #### formerly F3: `levels=False` into another variable order -/

/-- the function `b ∧ a` dumped from a manager with order `b < a` -/
def fileBA : PickleFile :=
  { vars := [("a", 1), ("b", 0)]
    succ := [⟨1, 2, none, none⟩, ⟨2, 1, some (-1), some 1⟩, ⟨3, 0, some (-1), some 2⟩]
    roots := .list [3] }

/-- a fresh manager declaring `x < y` -/
def mgr2 (x y : String) : Mgr :=
  { tbl := { vars := (({} : TreeMap String Nat).insert x 0).insert y 1
             l2v := (({} : TreeMap Nat String).insert 0 x).insert 1 y } }

theorem mgr2_nodeFree (x y : String) : NodeFree (mgr2 x y) :=
  ⟨fun u => by show ({} : TreeMap Nat Nd)[u]? = none; simp,
   fun k => by show ({} : TreeMap (List Int) Nat)[k]? = none; simp,
   fun k => by show ({} : TreeMap (List Int) Int)[k]? = none; simp,
   by show 2 ≤ 2; decide,
   by show (({} : TreeMap Nat Nat).insert 1 1).contains 1 = true; decide +kernel⟩

theorem mgr2_vars (x y : String) (v : String) :
    (mgr2 x y).tbl.vars[v]? = if v = y then some 1 else if v = x then some 0 else none := by
  show ((({} : TreeMap String Nat).insert x 0).insert y 1)[v]? = _
  rw [TreeMap.getElem?_insert, TreeMap.getElem?_insert]
  by_cases h1 : v = y
  · subst h1; simp
  · have c1 : compare y v ≠ .eq := fun h => h1 (compare_eq_iff_eq.mp h).symm
    by_cases h2 : v = x
    · subst h2; simp [c1, h1]
    · have c2 : compare x v ≠ .eq := fun h => h2 (compare_eq_iff_eq.mp h).symm
      simp [c1, c2, h1, h2]

theorem mgr2_l2v (x y : String) (l : Nat) :
    (mgr2 x y).tbl.l2v[l]? = if l = 1 then some y else if l = 0 then some x else none := by
  show ((({} : TreeMap Nat String).insert 0 x).insert 1 y)[l]? = _
  rw [TreeMap.getElem?_insert, TreeMap.getElem?_insert]
  by_cases h1 : l = 1
  · subst h1; simp
  · have c1 : compare 1 l ≠ .eq := fun h => h1 (compare_eq_iff_eq.mp h).symm
    by_cases h2 : l = 0
    · subst h2; simp
    · have c2 : compare 0 l ≠ .eq := fun h => h2 (compare_eq_iff_eq.mp h).symm
      simp [c1, c2, h1, h2]

theorem mgr2_bij (x y : String) (hxy : x ≠ y) : DmpVarsBij (mgr2 x y).tbl := by
  intro v l
  rw [mgr2_vars, mgr2_l2v]
  by_cases h1 : v = y <;> by_cases h2 : v = x <;> by_cases h3 : l = 1 <;> by_cases h4 : l = 0 <;>
    simp_all <;> (intro h; first | omega | exact absurd h.symm ‹_› | exact absurd h ‹_›)

theorem mgr2_nvars (x y : String) (hxy : x ≠ y) : (mgr2 x y).tbl.nvars = 2 := by
  show ((({} : TreeMap String Nat).insert x 0).insert y 1).size = 2
  rw [TreeMap.size_insert, TreeMap.size_insert]
  have c : compare x y ≠ .eq := fun h => hxy (compare_eq_iff_eq.mp h)
  simp [TreeMap.contains_insert, c]

theorem mgr2_contig (x y : String) (hxy : x ≠ y) : Contig (mgr2 x y).tbl := by
  intro v l h
  rw [mgr2_vars] at h
  rw [mgr2_nvars x y hxy]
  split at h
  · cases h; decide
  · split at h
    · cases h; decide
    · cases h

abbrev mgrAB : Mgr := mgr2 "a" "b"
abbrev mgrBA : Mgr := mgr2 "b" "a"
theorem mgrAB_nodeFree : NodeFree mgrAB := mgr2_nodeFree _ _
theorem mgrAB_vars (v : String) :
    mgrAB.tbl.vars[v]? = if v = "b" then some 1 else if v = "a" then some 0 else none := mgr2_vars _ _ v
theorem mgrAB_bij : DmpVarsBij mgrAB.tbl := mgr2_bij _ _ (by decide)
theorem mgrAB_contig : Contig mgrAB.tbl := mgr2_contig _ _ (by decide)

theorem fileBA_wf : PickleWF fileBA := by
  have hf : ∀ k e, PEntry.find fileBA.succ k = some e → k ≠ 1 →
      (k = 2 ∧ e = ⟨2, 1, some (-1), some 1⟩) ∨ (k = 3 ∧ e = ⟨3, 0, some (-1), some 2⟩) := by
    intro k e h h1
    have hid := PEntry.find_id h
    have hm := List.mem_of_find?_eq_some h
    simp [fileBA] at hm
    rcases hm with hm | hm | hm
    · subst hm; exact absurd hid.symm h1
    · subst hm; exact Or.inl ⟨hid.symm, rfl⟩
    · subst hm; exact Or.inr ⟨hid.symm, rfl⟩
  refine ⟨?_, ⟨?_⟩, ?_, ?_⟩
  · intro var i h
    simp [fileBA] at h
    rcases h with ⟨rfl, rfl⟩ | ⟨rfl, rfl⟩ <;> decide
  · intro k e h h1
    rcases hf k e h h1 with ⟨rfl, rfl⟩ | ⟨rfl, rfl⟩
    · exact ⟨-1, 1, rfl, rfl, by decide, by decide, by decide, Or.inl rfl, Or.inl rfl,
        by decide, by decide⟩
    · exact ⟨-1, 2, rfl, rfl, by decide, by decide, by decide, Or.inl rfl, Or.inr (by decide),
        by decide, by decide⟩
  · intro var i h
    simp [fileBA] at h
    rcases h with ⟨rfl, rfl⟩ | ⟨rfl, rfl⟩ <;> decide
  · intro k e h h1
    rcases hf k e h h1 with ⟨rfl, rfl⟩ | ⟨rfl, rfl⟩
    · exact ⟨"a", by decide⟩
    · exact ⟨"b", by decide⟩

/-- formerly F3 (`b ∧ a` written under b < a, loaded with `levels=False` into a < b): the
loader now builds the ordered diagram of `a ∧ b` — node 4 on `a` over node 3 on `b` -/
theorem load_levels_false_ordered :
    (loadPickle fileBA false mgrAB).1 = .ok (.list [4]) ∧
    (loadPickle fileBA false mgrAB).2.tbl.node? 4 = some ⟨0, -1, 3⟩ ∧
    (loadPickle fileBA false mgrAB).2.tbl.node? 3 = some ⟨1, -1, 1⟩ := by
  decide +kernel

/-! ### JSON: the content `dump_json` writes -/

def JLine.entry (ln : JLine) : PEntry := ⟨ln.id, ln.lvl, some ln.lo, some ln.hi⟩

/-- the JSON content seen as a `vars / succ / roots` content (the terminal is implicit in
JSON: `"T"` / `"F"`) -/
def JsonFile.toPickle (f : JsonFile) : PickleFile :=
  { vars := f.levelOfVar
    succ := ⟨1, f.levelOfVar.length, none, none⟩ :: f.nodes.map JLine.entry
    roots := f.roots }

/-- semantics of a node id inside a JSON file, by variable name -/
def evalJson (f : JsonFile) (u : Int) (α : String → Bool) : Bool := evalPickle f.toPickle u α

/-- an edge of a node line points to a constant or to an EARLIER line -/
def EdgeOK (l : List JLine) (c : Int) : Prop := c.natAbs = 1 ∨ ∃ l' ∈ l, l'.id = c.natAbs

/-- children are written before parents (what `_make_node` relies on) -/
inductive ChildrenFirst : List JLine → Prop
  | nil : ChildrenFirst []
  | snoc {l : List JLine} {ln : JLine} :
      ChildrenFirst l → EdgeOK l ln.lo → EdgeOK l ln.hi → ChildrenFirst (l ++ [ln])

/-- invariant of the recursion of `_dump_bdd`: `cache` = ids of the lines written so far,
each line is the stored triple of its node, the set is closed under successors, children
come first -/
structure JOut (t : Tbl) (cache : List Nat) (out : List JLine) : Prop where
  order : ChildrenFirst out
  ids : ∀ k, k ∈ cache ↔ ∃ ln ∈ out, ln.id = k
  line : ∀ ln ∈ out, ln.id ≠ 1 ∧ t.succ[ln.id]? = some ⟨ln.lvl, ln.lo, ln.hi⟩
  closed : Closed t cache

theorem dumpJsonF_spec (t : Tbl) :
    ∀ f u cache out cache' out', dumpJsonF t f u cache out = .ok (cache', out') → JOut t cache out →
      JOut t cache' out' ∧ (∀ x ∈ cache, x ∈ cache') ∧ (u.natAbs = 1 ∨ u.natAbs ∈ cache') := by
  intro f
  induction f with
  | zero => intro u cache out cache' out' h; simp [dumpJsonF] at h
  | succ f ih =>
    intro u cache out cache' out' h hj
    rw [dumpJsonF] at h
    by_cases h1 : u.natAbs = 1
    · rw [if_pos h1] at h
      cases h
      exact ⟨hj, fun _ h => h, Or.inl h1⟩
    · rw [if_neg h1] at h
      dsimp only at h
      by_cases hc : cache.contains u.natAbs = true
      · rw [if_pos hc] at h
        cases h
        exact ⟨hj, fun _ h => h, Or.inr (by simpa using hc)⟩
      · rw [if_neg hc] at h
        cases hn : t.succ[u.natAbs]? with
        | none => simp [hn] at h
        | some n =>
          simp only [hn] at h
          cases e1 : dumpJsonF t f n.lo cache out with
          | error e => simp [e1] at h
          | ok r1 =>
            obtain ⟨c1, o1⟩ := r1
            simp only [e1] at h
            cases e2 : dumpJsonF t f n.hi c1 o1 with
            | error e => simp [e2] at h
            | ok r2 =>
              obtain ⟨c2, o2⟩ := r2
              simp only [e2] at h
              cases h
              obtain ⟨j1, s1, m1⟩ := ih _ _ _ _ _ e1 hj
              obtain ⟨j2, s2, m2⟩ := ih _ _ _ _ _ e2 j1
              have m1' : n.lo.natAbs = 1 ∨ n.lo.natAbs ∈ c2 := m1.imp id (s2 _)
              have toEdge : ∀ c : Int, (c.natAbs = 1 ∨ c.natAbs ∈ c2) → EdgeOK o2 c :=
                fun c hc => hc.imp id (fun h => (j2.ids _).mp h)
              refine ⟨⟨.snoc j2.order (toEdge _ m1') (toEdge _ m2), ?_, ?_, ?_⟩,
                fun x hx => List.mem_cons_of_mem _ (s2 x (s1 x hx)), Or.inr List.mem_cons_self⟩
              · intro k
                rw [List.mem_cons, j2.ids k]
                constructor
                · rintro (hk | ⟨ln, hl, hid⟩)
                  · exact ⟨_, List.mem_append_right _ (List.mem_singleton.mpr rfl), hk.symm⟩
                  · exact ⟨ln, List.mem_append_left _ hl, hid⟩
                · rintro ⟨ln, hl, hid⟩
                  rcases List.mem_append.mp hl with hl | hl
                  · exact Or.inr ⟨ln, hl, hid⟩
                  · rw [List.mem_singleton] at hl; subst hl; exact Or.inl hid.symm
              · intro ln hl
                rcases List.mem_append.mp hl with hl | hl
                · exact j2.line ln hl
                · rw [List.mem_singleton] at hl; subst hl; exact ⟨h1, hn⟩
              · apply j2.closed.mono (fun x hx => List.mem_cons_of_mem _ hx)
                intro r hr hnot _
                rcases List.mem_cons.mp hr with h' | h'
                · subst h'
                  exact ⟨n, hn, m1'.imp id (List.mem_cons_of_mem _), m2.imp id (List.mem_cons_of_mem _)⟩
                · exact absurd h' hnot

theorem dumpJsonRoots_spec (t : Tbl) :
    ∀ roots cache out cache' out', dumpJsonRoots t roots cache out = .ok (cache', out') →
      JOut t cache out →
      JOut t cache' out' ∧ (∀ x ∈ cache, x ∈ cache') ∧ (∀ u ∈ roots, u.natAbs = 1 ∨ u.natAbs ∈ cache') := by
  intro roots
  induction roots with
  | nil =>
    intro cache out cache' out' h hj
    simp [dumpJsonRoots] at h
    obtain ⟨rfl, rfl⟩ := h
    exact ⟨hj, fun _ h => h, by simp⟩
  | cons u rest ih =>
    intro cache out cache' out' h hj
    rw [dumpJsonRoots] at h
    cases e1 : dumpJsonF t (t.nvars + 2) u cache out with
    | error e => simp [e1] at h
    | ok r1 =>
      obtain ⟨c1, o1⟩ := r1
      simp only [e1] at h
      obtain ⟨j1, s1, m1⟩ := dumpJsonF_spec t _ _ _ _ _ _ e1 hj
      obtain ⟨j2, s2, m2⟩ := ih _ _ _ _ h j1
      refine ⟨j2, fun x hx => s2 x (s1 x hx), ?_⟩
      intro x hx
      rcases List.mem_cons.mp hx with h' | h'
      · subst h'; exact m1.imp id (s2 _)
      · exact m2 x h'

theorem dumpJson_parts {m : Mgr} {roots : Roots} {f : JsonFile} (h : dumpJson m roots = .ok f) :
    f.levelOfVar = m.tbl.vars.toList ∧ f.roots = roots ∧ roots ≠ .none ∧
    ∃ cache, dumpJsonRoots m.tbl roots.values [] [] = .ok (cache, f.nodes) := by
  unfold dumpJson at h
  cases roots with
  | none => simp at h
  | list l =>
    dsimp only at h
    split at h
    · cases h
    · split at h
      · cases h
      · cases e : dumpJsonRoots m.tbl (Roots.list l).values [] [] with
        | error er => simp [e] at h
        | ok r =>
          obtain ⟨c, o⟩ := r
          simp only [e] at h
          cases h
          exact ⟨rfl, rfl, by simp, c, rfl⟩
  | dict d =>
    dsimp only at h
    split at h
    · cases h
    · split at h
      · cases h
      · cases e : dumpJsonRoots m.tbl (Roots.dict d).values [] [] with
        | error er => simp [e] at h
        | ok r =>
          obtain ⟨c, o⟩ := r
          simp only [e] at h
          cases h
          exact ⟨rfl, rfl, by simp, c, rfl⟩

theorem find_lines (out : List JLine) (k : Nat) (h1 : k ≠ 1) (n : Nat) :
    PEntry.find (⟨1, n, none, none⟩ :: out.map JLine.entry) k =
      (out.find? (fun ln => ln.id == k)).map JLine.entry := by
  unfold PEntry.find
  rw [List.find?_cons]
  have : ((⟨1, n, none, none⟩ : PEntry).id == k) = false := by
    simp; exact fun h => h1 h.symm
  rw [this, List.find?_map]
  rfl

/-- the JSON content stores the variable table and a successor-closed set of nodes
containing the roots -/
theorem dumpJson_stores {m : Mgr} {roots : Roots} {f : JsonFile} (h : dumpJson m roots = .ok f) :
    ∃ nodes, Stores m.tbl nodes f.toPickle ∧ (∀ u ∈ roots.values, u.natAbs = 1 ∨ u.natAbs ∈ nodes) := by
  obtain ⟨hv, _, _, cache, hc⟩ := dumpJson_parts h
  obtain ⟨j, _, hr⟩ := dumpJsonRoots_spec m.tbl _ _ _ _ _ hc
    ⟨.nil, by simp, by simp, by intro r hr; simp at hr⟩
  refine ⟨cache, ⟨hv, j.closed, ?_, ?_⟩, hr⟩
  · intro k hk h1
    obtain ⟨ln, hl, hid⟩ := (j.ids k).mp hk
    have hex : (f.nodes.find? (fun ln => ln.id == k)).isSome := by
      rw [List.find?_isSome]; exact ⟨ln, hl, by simp [hid]⟩
    obtain ⟨ln', hln'⟩ := Option.isSome_iff_exists.mp hex
    have hid' : ln'.id = k := by simpa using List.find?_some hln'
    obtain ⟨_, hs⟩ := j.line ln' (List.mem_of_find?_eq_some hln')
    rw [hid'] at hs
    refine ⟨_, hs, ?_⟩
    show PEntry.find (_ :: f.nodes.map JLine.entry) k = _
    rw [find_lines _ _ h1, hln']
    simp [JLine.entry, hid']
  · intro k hk h1
    show PEntry.find (_ :: f.nodes.map JLine.entry) k = _
    rw [find_lines _ _ h1]
    have : f.nodes.find? (fun ln => ln.id == k) = none := by
      rw [List.find?_eq_none]
      intro ln hl hid
      exact hk ((j.ids k).mpr ⟨ln, hl, by simpa using hid⟩)
    rw [this]; rfl

/-- the JSON content `dump_json` writes is well formed and denotes, by variable name, what
the manager's references denote; the roots container is stored as given -/
theorem dumpJson_spec {m : Mgr} (hI : Inv m) (hv : DmpVarsOK m.tbl) {roots : Roots} {f : JsonFile}
    (h : dumpJson m roots = .ok f) :
    PickleWF f.toPickle ∧ f.roots = roots ∧
    ∀ α, ∀ u ∈ roots.values, evalJson f u α = denBy m.tbl u α := by
  obtain ⟨nodes, hst, hr⟩ := dumpJson_stores h
  exact ⟨hst.wf hI.wf.toWF hv, (dumpJson_parts h).2.1,
    fun α u hu => hst.eval hI.wf.toWF hv α u (hr u hu)⟩


/-! ### JSON: `load_json` -/

theorem M.dmp_bind_ok {α β : Type} {x : M α} {f : α → M β} {m m' : Mgr} {b : β}
    (h : (x >>= f) m = (.ok b, m')) : ∃ a m1, x m = (.ok a, m1) ∧ f a m1 = (.ok b, m') := by
  simp only [bind, M.bind'] at h
  cases hx : x m with
  | mk r m1 =>
    rw [hx] at h
    cases r with
    | error e => simp at h
    | ok a => exact ⟨a, m1, rfl, h⟩

theorem dropList_lastLen (us : List Int) (m : Mgr) : (dropList us m).lastLen = m.lastLen := by
  induction us generalizing m with
  | nil => rfl
  | cons u rest ih =>
    rw [dropList, ih]
    simp only [dmpDrop, decref]
    split
    · rfl
    · split <;> rfl

theorem dropOpt_lastLen (o : Option Int) (m : Mgr) : (dropOpt o m).lastLen = m.lastLen := by
  cases o with
  | none => rfl
  | some u =>
    simp only [dropOpt, dmpDrop, decref]
    split
    · rfl
    · split <;> rfl

/-- F10: `_load_json(load_order=True)` saves the *dict* returned by `configure` and passes it
back as the value of `reordering`: after a successful load dynamic reordering is ENABLED,
whatever it was before -/
theorem loadJson_loadOrder_enables_reordering (f : JsonFile) (m m' : Mgr) (r : Roots)
    (h : loadJson f true m = (.ok r, m')) : m'.lastLen.isSome = true := by
  unfold loadJson at h
  simp only [if_true] at h
  obtain ⟨_, m1, _, h⟩ := M.dmp_bind_ok h
  generalize jsonTry f true m1 = tr at h
  obtain ⟨rt, cache, prev, m6⟩ := tr
  cases rt with
  | error e =>
    unfold jsonFinish at h
    dsimp only at h
    split at h <;> simp at h
  | ok us =>
  unfold jsonFinish at h
  simp only [if_true] at h
  generalize (releaseFailed cache cache prev m6) = rl at h
  obtain ⟨rr, last, m7⟩ := rl
  dsimp only at h
  cases hfin : (liftE rr >>= fun _ => do
      dmpAssertConsistent
      let _ ← configure (some true)
      pure ()) m7 with
  | mk res m8 =>
    rw [hfin] at h
    cases res with
    | error e => simp at h
    | ok a =>
      simp only [Prod.mk.injEq] at h
      obtain ⟨_, hm⟩ := h
      subst hm
      rw [dropOpt_lastLen]
      obtain ⟨_, m9, _, h2⟩ := M.dmp_bind_ok hfin
      obtain ⟨_, m10, hac, h3⟩ := M.dmp_bind_ok h2
      obtain ⟨_, m11, hcf, h4⟩ := M.dmp_bind_ok h3
      simp only [pure, M.pure', Prod.mk.injEq] at h4
      obtain ⟨_, hm⟩ := h4
      subst hm
      simp only [configure, bind, M.bind', M.get, M.set, pure, M.pure'] at hcf
      simp only [Prod.mk.injEq] at hcf
      obtain ⟨_, hm⟩ := hcf
      subst hm
      rfl


theorem dumpJson_childrenFirst {m : Mgr} {roots : Roots} {f : JsonFile}
    (h : dumpJson m roots = .ok f) : ChildrenFirst f.nodes := by
  obtain ⟨_, _, _, cache, hc⟩ := dumpJson_parts h
  obtain ⟨j, _, _⟩ := dumpJsonRoots_spec m.tbl _ _ _ _ _ hc
    ⟨.nil, by simp, by simp, by intro r hr; simp at hr⟩
  exact j.order

end DD
