/-
  DDProofs.Total — the operations as TOTAL functions: whatever the arguments
  (unknown nodes, unknown operators, wrong arity, bad levels), the state after the
  call satisfies the invariant, extends the old node table and keeps the order.
  This is the core of C17 ("an operation that raises leaves everything intact").
-/
import DDProofs.ApplyProofs
open Std

namespace DD

/-- what every call, failed or not, must leave behind -/
structure Kept (m m' : Mgr) : Prop where
  inv : Inv m'
  ext : Ext m.tbl m'.tbl
  frame : Frame m m'

theorem Kept.refl {m : Mgr} (h : Inv m) : Kept m m := ⟨h, Ext.refl _, Frame.refl _⟩

theorem Kept.trans {a b c : Mgr} (h1 : Kept a b) (h2 : Kept b c) : Kept a c :=
  ⟨h2.inv, h1.ext.trans h2.ext, h1.frame.trans h2.frame⟩

/-- a held reference keeps its meaning across any `Kept` step -/
theorem Kept.den {m m' : Mgr} (h : Kept m m') (hI : Inv m) (u : Int) (hu : m.tbl.Mem u) :
    m'.tbl.Mem u ∧ ∀ a, den m'.tbl u a = den m.tbl u a :=
  ⟨h.ext.mem hu, fun a => den_ext h.ext hI.wf.toWF u a hu⟩

theorem levelOf?_none_of_not_mem (t : Tbl) (u : Int) (h : ¬ t.Mem u) : t.levelOf? u = none := by
  unfold Tbl.levelOf?
  have h1 : u.natAbs ≠ 1 := fun h1 => h (Or.inl h1)
  simp only [h1, if_false]
  have : t.succ[u.natAbs]? = none := by
    cases hh : t.succ[u.natAbs]? with
    | none => rfl
    | some n => exact absurd (Or.inr (by simp [Tbl.node?, hh])) h
  rw [this]; rfl

/-- `_ite` on ARBITRARY integers: a failure happens before anything is changed -/
theorem iteF_total (m : Mgr) (hI : Inv m) (g u v : Int) :
    Kept m (iteF (m.nvars + 2) g u v m).2 := by
  by_cases hall : m.tbl.Mem g ∧ m.tbl.Mem u ∧ m.tbl.Mem v
  · have h := iteF_spec (m.nvars + 2) m g u v hI hall.1 hall.2.1 hall.2.2 (by omega)
    generalize iteF (m.nvars + 2) g u v m = res at h
    obtain ⟨r, m'⟩ := res
    cases r with
    | ok r => exact ⟨h.inv, h.ext, h.frame⟩
    | error e => exact ⟨h.2.inv, h.2.ext, h.2.frame⟩
  · -- some operand is not a node: nothing happens
    have hsame : (iteF (m.nvars + 2) g u v m).2 = m := by
      show (iteF (m.nvars + 1 + 1) g u v m).2 = m
      unfold iteF
      by_cases hg1 : g = 1
      · simp [hg1]
      · simp only [hg1, if_false]
        by_cases hgm : g = -1
        · simp [hgm]
        · simp only [hgm, if_false]
          cases hc : m.cache[iteKey g u v]? with
          | some w =>
            exfalso
            have he := hI.cache g u v w hc
            exact hall ⟨he.mg, he.mu, he.mv⟩
          | none =>
            simp only
            by_cases hg : m.tbl.Mem g
            · by_cases hu : m.tbl.Mem u
              · have hv : ¬ m.tbl.Mem v := fun hv => hall ⟨hg, hu, hv⟩
                rw [levelOf?_none_of_not_mem _ _ hv]
                split <;> simp_all
              · rw [levelOf?_none_of_not_mem _ _ hu]
                split <;> simp_all
            · rw [levelOf?_none_of_not_mem _ _ hg]
    rw [hsame]
    exact Kept.refl hI

/-- public `ite` on arbitrary integers (reordering not enabled) -/
theorem ite_total (m : Mgr) (hI : Inv m) (hoff : m.lastLen = none) (g u v : Int) :
    Kept m (ite g u v m).2 := by
  have h : Kept { m with ctx := true } (iteF (m.nvars + 2) g u v { m with ctx := true }).2 :=
    iteF_total { m with ctx := true } (hI.setCtx true) g u v
  have hraw : iteRaw g u v { m with ctx := true } = iteF (m.nvars + 2) g u v { m with ctx := true } := by
    simp [iteRaw, bind, M.bind', M.get, Mgr.nvars]
  generalize hres : iteF (m.nvars + 2) g u v { m with ctx := true } = res at h
  obtain ⟨r, m1⟩ := res
  have hk : Kept m { m1 with ctx := m.ctx } := by
    have h' : Kept { m with ctx := true } m1 := h
    exact ⟨h'.inv.setCtx _, h'.ext,
      ⟨h'.frame.vars, h'.frame.l2v, h'.frame.lastLen, rfl, h'.frame.sched, h'.frame.roots⟩⟩
  cases r with
  | ok r =>
    have : ite g u v m = (.ok r, { m1 with ctx := m.ctx }) := by
      unfold ite; exact tryToReorder_ok _ m r m1 (by rw [hraw, hres])
    rw [this]; exact hk
  | error e =>
    by_cases hne : e = .needsReordering
    · -- impossible: the request cannot fire with `lastLen = none`
      exfalso
      subst hne
      by_cases hall : m.tbl.Mem g ∧ m.tbl.Mem u ∧ m.tbl.Mem v
      · have hs := iteF_spec (m.nvars + 2) { m with ctx := true } g u v (hI.setCtx true)
          hall.1 hall.2.1 hall.2.2 (by show m.nvars + 1 ≤ _; omega)
        rw [hres] at hs
        have := hs.2.armed.2
        simp [hoff] at this
      · -- an invalid operand gives KeyError, not the signal
        have : (iteF (m.nvars + 1 + 1) g u v { m with ctx := true }).1 ≠ .error .needsReordering := by
          unfold iteF
          by_cases hg1 : g = 1
          · simp [hg1]
          · simp only [hg1, if_false]
            by_cases hgm : g = -1
            · simp [hgm]
            · simp only [hgm, if_false]
              cases hc : m.cache[iteKey g u v]? with
              | some w =>
                exfalso
                have he := hI.cache g u v w hc
                exact hall ⟨he.mg, he.mu, he.mv⟩
              | none =>
                simp only
                by_cases hg : m.tbl.Mem g
                · by_cases hu : m.tbl.Mem u
                  · have hv : ¬ m.tbl.Mem v := fun hv => hall ⟨hg, hu, hv⟩
                    rw [show ({ m with ctx := true } : Mgr).tbl = m.tbl from rfl,
                      levelOf?_none_of_not_mem _ _ hv]
                    split <;> simp_all
                  · rw [show ({ m with ctx := true } : Mgr).tbl = m.tbl from rfl,
                      levelOf?_none_of_not_mem _ _ hu]
                    split <;> simp_all
                · rw [show ({ m with ctx := true } : Mgr).tbl = m.tbl from rfl,
                    levelOf?_none_of_not_mem _ _ hg]
                  simp
        have h2 : m.nvars + 1 + 1 = m.nvars + 2 := rfl
        rw [h2, hres] at this
        exact this rfl
    · have : ite g u v m = (.error e, { m1 with ctx := m.ctx }) := by
        unfold ite; exact tryToReorder_err _ m e m1 (by rw [hraw, hres]) hne
      rw [this]; exact hk

end DD

namespace DD

/-- the documented precondition of the raw `find_or_add`: the level is above both children
(the code does not check it; every other argument is checked) -/
def FoaGuard (m : Mgr) (i : Nat) (v w : Int) : Prop :=
  i < m.nvars → m.tbl.Mem v → m.tbl.Mem w → i < m.tbl.levelOf v ∧ i < m.tbl.levelOf w

/-- `find_or_add` on arbitrary arguments: rejected calls change nothing -/
theorem findOrAddCore_total (m : Mgr) (hI : Inv m) (i : Nat) (v w : Int) (hg : FoaGuard m i v w) :
    Kept m (findOrAddCore i v w m).2 := by
  by_cases h1 : i < m.nvars
  · by_cases h2 : m.tbl.Mem v
    · by_cases h3 : m.tbl.Mem w
      · obtain ⟨hlv, hlw⟩ := hg h1 h2 h3
        obtain ⟨r, m', he, hp⟩ := findOrAddCore_spec m hI i v w h1 h2 h3 hlv hlw
        rw [he]; exact ⟨hp.inv, hp.ext, hp.frame⟩
      · have : m.mem w = false := (Tbl.mem_false_iff _ _).mpr h3
        have hv : m.mem v = true := (Mgr.mem_iff _ _).mpr h2
        have : (findOrAddCore i v w m).2 = m := by
          unfold findOrAddCore; simp [Nat.not_le.mpr h1, hv, this]
        rw [this]; exact Kept.refl hI
    · have : m.mem v = false := (Tbl.mem_false_iff _ _).mpr h2
      have : (findOrAddCore i v w m).2 = m := by
        unfold findOrAddCore; simp [Nat.not_le.mpr h1, this]
      rw [this]; exact Kept.refl hI
  · have : (findOrAddCore i v w m).2 = m := by
      unfold findOrAddCore; simp [Nat.le_of_not_lt h1]
    rw [this]; exact Kept.refl hI

/-- `incref` / `decref` never touch the node table (an unknown node is a `KeyError`) -/
theorem incref_kept (m : Mgr) (hI : Inv m) (u : Int) : Kept m (incref u m).2 := by
  unfold incref
  cases h : m.ref[u.natAbs]? with
  | none => exact Kept.refl hI
  | some c =>
    refine ⟨⟨hI.wf, hI.pred, hI.freeGe, hI.free, ?_, ?_, hI.cache⟩, Ext.refl _, ⟨rfl, rfl, rfl, rfl, rfl, rfl⟩⟩
    · exact contains_insert_mono _ _ _ _ hI.refOne
    · intro k n hk; exact contains_insert_mono _ _ _ _ (hI.refDom k n hk)

theorem decref_kept (m : Mgr) (hI : Inv m) (u : Int) : Kept m (decref u m).2 := by
  unfold decref
  cases h : m.ref[u.natAbs]? with
  | none => exact Kept.refl hI
  | some c =>
    simp only
    split
    · exact Kept.refl hI
    · refine ⟨⟨hI.wf, hI.pred, hI.freeGe, hI.free, ?_, ?_, hI.cache⟩, Ext.refl _, ⟨rfl, rfl, rfl, rfl, rfl, rfl⟩⟩
      · exact contains_insert_mono _ _ _ _ hI.refOne
      · intro k n hk; exact contains_insert_mono _ _ _ _ (hI.refDom k n hk)

/-- `apply` with ANY operator string, arity and operands, for the aliases that do not quantify
(reordering not enabled): the manager is kept whether the call succeeds or is refused -/
theorem apply_total (m : Mgr) (hI : Inv m) (hoff : m.lastLen = none)
    (op : String) (u : Int) (v w : Option Int)
    (hnq : ∀ row, findRow op Gen.applyTable = some row → ∀ fa f b, row.templ ≠ .quant fa f b) :
    Kept m (apply op u v w m).2 := by
  unfold apply
  cases assertOperatorArity op v w with
  | error e => exact Kept.refl hI
  | ok _ =>
    simp only
    split
    · exact Kept.refl hI
    · split
      · exact Kept.refl hI
      · split
        · exact Kept.refl hI
        · cases hr : findRow op Gen.applyTable with
          | none => exact Kept.refl hI
          | some row =>
            simp only
            cases ht : row.templ with
            | neg => exact Kept.refl hI
            | notImpl => exact Kept.refl hI
            | bad => exact Kept.refl hI
            | quant fa f b => exact absurd ht (hnq row hr fa f b)
            | ite a b c =>
              simp only
              cases v with
              | none => exact Kept.refl hI
              | some vv =>
                simp only
                split
                · exact Kept.refl hI
                · split
                  · exact ite_total m hI hoff _ _ _
                  · exact Kept.refl hI
                  · exact Kept.refl hI
                  · exact Kept.refl hI

end DD
