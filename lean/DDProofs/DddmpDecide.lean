/-
  DDProofs.DddmpDecide — `DddmpFile.WF` is decidable (the header is computed, every clause of
  `DddmpBodyWF` is a bounded check over the node list): concrete files are shown well-formed
  by evaluation, for the non-vacuity examples of the C16 theorems.
-/
import DDProofs.DddmpFormat
open Std

namespace DD

instance decExSome {α : Type} (o : Option α) (P : α → Prop) [DecidablePred P] :
    Decidable (∃ k, o = some k ∧ P k) :=
  match o with
  | none => isFalse (by rintro ⟨k, h, _⟩; cases h)
  | some a =>
    if h : P a then isTrue ⟨a, rfl, h⟩
    else isFalse (by rintro ⟨k, hk, hp⟩; cases hk; exact h hp)

instance (f : DddmpFile) (i2p : List (DddmpTok × Int)) (k c : Int) : Decidable (DddmpChildOK f i2p k c) := by
  unfold DddmpChildOK; infer_instance

instance (n : DddmpNode) : Decidable n.IsTerm := by
  unfold DddmpNode.IsTerm; infer_instance

instance (f : DddmpFile) (i2p levels : List (DddmpTok × Int)) (n : DddmpNode) :
    Decidable (n.IsNode f i2p levels) := by
  unfold DddmpNode.IsNode; infer_instance

instance (f : DddmpFile) (i2p levels : List (DddmpTok × Int)) (nv : Int) :
    Decidable (DddmpBodyWF f i2p levels nv) :=
  decidable_of_iff (0 ≤ nv ∧ f.nnodes = some (f.nodes.length : Int) ∧ (f.nodes.map (·.u)).Nodup ∧
      (levels.map (·.1.show)).Nodup ∧ (levels.map (·.2)).Nodup ∧
      (∀ p ∈ levels, 0 ≤ p.2 ∧ p.2 ≤ nv) ∧ (∀ n ∈ f.nodes, n.IsTerm ∨ n.IsNode f i2p levels))
    ⟨fun ⟨a, b, c, d, e, g, h⟩ => ⟨a, b, c, d, e, g, h⟩,
     fun ⟨a, b, c, d, e, g, h⟩ => ⟨a, b, c, d, e, g, h⟩⟩

instance (f : DddmpFile) : Decidable f.WF :=
  match hh : dddmpHeader f, hn : f.nvars with
  | .ok (i2p, levels, roots), some nv =>
    if h : DddmpBodyWF f i2p levels nv ∧ ∀ ρ ∈ roots, ∃ x ∈ f.nodes, x.u = (ρ.natAbs : Int) then
      isTrue ⟨i2p, levels, roots, nv, hh, hn, h.1, h.2⟩
    else isFalse (by
      rintro ⟨i2p', levels', roots', nv', hh', hn', hb, hr⟩
      rw [hh] at hh'; rw [hn] at hn'
      cases hh'; cases hn'
      exact h ⟨hb, hr⟩)
  | .error _, _ => isFalse (by
      rintro ⟨i2p', levels', roots', nv', hh', -⟩
      rw [hh] at hh'; cases hh')
  | .ok _, none => isFalse (by
      rintro ⟨i2p', levels', roots', nv', -, hn', -⟩
      rw [hn] at hn'; cases hn')

end DD
