/-
  DDProofs.SwapSem — the semantic core of the adjacent-variable swap (C07), no model code.

  * `shannon_exchange` : the identity on functions behind the swap.
  * `cof t y v`        : the pair of cofactors of a reference w.r.t. level `y`
                         (what `_swap_cofactor` + the complement fix-up compute), with
                         `cof_spec` (Shannon expansion), `cof_inj` (a reference is determined
                         by its cofactor pair — canonicity), `cof_hi_pos`, `cof_fst_ne_snd`.
  * `Mk t i a b r`     : `r` is what `find_or_add(i, a, b)` returns in the table `t`
                         (structural: eliminated, found/created node, complement normalised).
  * `SwapRel t t' x pend` : the STRUCTURAL relation between the table before the swap of
                         levels `x`, `x+1` and a table during/after it (`pend` = the x-nodes that
                         depend on `x+1` and have not been rebuilt yet).
  * `swapRel_wf`, `swapRel_den` : if nothing is pending, the new table is reduced, ordered
                         (w.r.t. the NEW level assignment) and every old reference denotes the
                         old function read through the transposition of the two levels.
  * the facts the code asserts: `mk_pos` (`q ≥ 0`), `dep_p_ne_q` (`p ≠ q`).
-/
import DDProofs.Names
import DDProofs.Ext
open Std

namespace DD

/-! ### the identity on functions -/

/-- Shannon exchange: expanding first by `x` then by `y` equals expanding first by `y` then by `x`
with the two middle cofactors exchanged. -/
theorem shannon_exchange (bx by' f00 f01 f10 f11 : Bool) :
    (if bx then (if by' then f11 else f10) else (if by' then f01 else f00)) =
    (if by' then (if bx then f11 else f01) else (if bx then f10 else f00)) := by
  cases bx <;> cases by' <;> rfl

/-- `ite` on functions of assignments -/
def iteA (i : Nat) (g h : Asg → Bool) : Asg → Bool := fun a => if a i then g a else h a

/-- the same identity for functions of assignments: the node `(x, (y, f00, f01), (y, f10, f11))`
denotes the same function as `(y, (x, f00, f10), (x, f01, f11))` -/
theorem shannon_exchange_fun (x y : Nat) (f00 f01 f10 f11 : Asg → Bool) :
    iteA x (iteA y f11 f10) (iteA y f01 f00) = iteA y (iteA x f11 f01) (iteA x f10 f00) := by
  funext a
  simp only [iteA]
  exact shannon_exchange _ _ _ _ _ _

/-! ### cofactors with respect to the lower level -/

/-- cofactors `(low, high)` of the reference `v` w.r.t. level `y`, for `v` not above `y`:
the children (complemented when `v` is) if `v` is at level `y`, else `(v, v)`. -/
def cof (t : Tbl) (y : Nat) (v : Int) : Int × Int :=
  if v.natAbs = 1 then (v, v) else
  match t.node? v.natAbs with
  | none => (v, v)
  | some n => if n.lvl = y then (if v < 0 then (-n.lo, -n.hi) else (n.lo, n.hi)) else (v, v)

theorem cof_of_ne (t : Tbl) (y : Nat) (v : Int) (h : t.levelOf v ≠ y) : cof t y v = (v, v) := by
  unfold cof
  unfold Tbl.levelOf at h
  by_cases h1 : v.natAbs = 1
  · simp [h1]
  · simp only [h1, if_false] at h ⊢
    cases hn : t.node? v.natAbs with
    | none => rfl
    | some n =>
      rw [hn] at h
      simp only at h ⊢
      simp [h]

theorem cof_at (t : Tbl) (y : Nat) (v : Int) (n : Nd) (h1 : v.natAbs ≠ 1)
    (hn : t.node? v.natAbs = some n) (hl : n.lvl = y) :
    cof t y v = if v < 0 then (-n.lo, -n.hi) else (n.lo, n.hi) := by
  unfold cof
  simp [h1, hn, hl]

/-- a reference at level `y < nvars` is a stored node -/
theorem node_of_level (t : Tbl) (v : Int) (y : Nat) (hv : t.Mem v) (hl : t.levelOf v = y)
    (hyn : y < t.nvars) : v.natAbs ≠ 1 ∧ ∃ n, t.node? v.natAbs = some n ∧ n.lvl = y := by
  by_cases h1 : v.natAbs = 1
  · rw [levelOf_term t v h1] at hl; omega
  · rcases hv with hv | hv
    · exact absurd hv h1
    · obtain ⟨n, hn⟩ := Option.isSome_iff_exists.mp hv
      exact ⟨h1, n, hn, by rw [← hl, levelOf_node t v n h1 hn]⟩

/-- Shannon expansion of a reference by the level `y` not below it -/
theorem cof_spec (t : Tbl) (hw : WF t) (y : Nat) (v : Int) (hv : t.Mem v)
    (hy : y ≤ t.levelOf v) (hyn : y < t.nvars) :
    t.Mem (cof t y v).1 ∧ t.Mem (cof t y v).2 ∧
    y < t.levelOf (cof t y v).1 ∧ y < t.levelOf (cof t y v).2 ∧
    ∀ a, den t v a = if a y then den t (cof t y v).2 a else den t (cof t y v).1 a := by
  by_cases hl : t.levelOf v = y
  · obtain ⟨h1, n, hn, hny⟩ := node_of_level t v y hv hl hyn
    rw [cof_at t y v n h1 hn hny]
    have hlo := hw.lo_lt _ _ hn
    have hhi := hw.hi_lt _ _ hn
    by_cases hneg : v < 0
    · simp only [hneg, if_true]
      refine ⟨mem_neg (hw.lo_mem _ _ hn), mem_neg (hw.hi_mem _ _ hn),
        by rw [levelOf_neg]; omega, by rw [levelOf_neg]; omega, ?_⟩
      intro a
      rw [den_node t hw v n a h1 hn, den_neg t hw n.hi a (hw.hi_mem _ _ hn),
        den_neg t hw n.lo a (hw.lo_mem _ _ hn), hny]
      simp only [hneg, decide_true]
      split <;> simp
    · simp only [hneg, if_false]
      refine ⟨hw.lo_mem _ _ hn, hw.hi_mem _ _ hn, by omega, by omega, ?_⟩
      intro a
      rw [den_node t hw v n a h1 hn, hny]
      simp [hneg]
  · rw [cof_of_ne t y v hl]
    refine ⟨hv, hv, ?_, ?_, ?_⟩
    · show y < t.levelOf v; omega
    · show y < t.levelOf v; omega
    · intro a; split <;> rfl

/-- the two cofactors differ exactly when the reference is at level `y` -/
theorem cof_fst_ne_snd (t : Tbl) (hw : WF t) (y : Nat) (v : Int) (hv : t.Mem v)
    (hl : t.levelOf v = y) (hyn : y < t.nvars) : (cof t y v).1 ≠ (cof t y v).2 := by
  obtain ⟨h1, n, hn, hny⟩ := node_of_level t v y hv hl hyn
  rw [cof_at t y v n h1 hn hny]
  have := hw.lo_ne_hi _ _ hn
  split <;> simp only <;> omega

theorem cof_fst_eq_snd_iff (t : Tbl) (hw : WF t) (y : Nat) (v : Int) (hv : t.Mem v)
    (hyn : y < t.nvars) : (cof t y v).1 = (cof t y v).2 ↔ t.levelOf v ≠ y := by
  constructor
  · intro h hl; exact cof_fst_ne_snd t hw y v hv hl hyn h
  · intro h; rw [cof_of_ne t y v h]

/-- a reference is determined by its pair of cofactors (canonicity) -/
theorem cof_inj (t : Tbl) (hw : WFU t) (y : Nat) (v v' : Int) (hv : t.Mem v) (hv' : t.Mem v')
    (hy : y ≤ t.levelOf v) (hy' : y ≤ t.levelOf v') (hyn : y < t.nvars)
    (h : cof t y v = cof t y v') : v = v' := by
  apply (canonical t hw v v' hv hv').mp
  intro a
  rw [(cof_spec t hw.toWF y v hv hy hyn).2.2.2.2 a, (cof_spec t hw.toWF y v' hv' hy' hyn).2.2.2.2 a, h]

/-- the high cofactor of a regular reference is regular (this is why `q ≥ 0` in `swap`) -/
theorem cof_hi_pos (t : Tbl) (hw : WF t) (y : Nat) (v : Int) (hpos : 0 < v) : 0 < (cof t y v).2 := by
  unfold cof
  split
  · exact hpos
  · split
    · exact hpos
    · next n hn =>
      split
      · have : ¬ v < 0 := by omega
        simp only [this, if_false]
        exact hw.hi_pos _ _ hn
      · exact hpos

/-! ### what `find_or_add` returns, structurally -/

/-- `r` is the reference `find_or_add(i, a, b)` returns in the table `t`: `a` itself when the node
would be redundant, otherwise the (possibly complemented) number `k` of the stored node
`(i, ±a, |b|)` — the high edge is stored regular. -/
def Mk (t : Tbl) (i : Nat) (a b r : Int) : Prop :=
  (a = b ∧ r = a) ∨
  (a ≠ b ∧ ∃ k : Nat, 2 ≤ k ∧
    t.node? k = some ⟨i, if b < 0 then -a else a, if b < 0 then -b else b⟩ ∧
    r = (if b < 0 then -1 else 1) * (k : Int))

theorem Mk.mono {t t' : Tbl} {i : Nat} {a b r : Int}
    (h : ∀ k n, n.lvl = i → t.node? k = some n → t'.node? k = some n) (hm : Mk t i a b r) :
    Mk t' i a b r := by
  rcases hm with hm | ⟨hne, k, hk, hn, hr⟩
  · exact Or.inl hm
  · exact Or.inr ⟨hne, k, hk, h _ _ rfl hn, hr⟩

theorem Mk.pos {t : Tbl} {i : Nat} {a b r : Int} (hm : Mk t i a b r) (hb : 0 < b) : 0 < r := by
  rcases hm with ⟨h1, h2⟩ | ⟨hne, k, hk, hn, hr⟩
  · omega
  · have : ¬ b < 0 := by omega
    simp only [this, if_false] at hr
    omega

theorem Mk.mem {t : Tbl} {i : Nat} {a b r : Int} (hm : Mk t i a b r) (ha : t.Mem a) : t.Mem r := by
  rcases hm with ⟨h1, h2⟩ | ⟨hne, k, hk, hn, hr⟩
  · rw [h2]; exact ha
  · right
    have : r.natAbs = k := by split at hr <;> omega
    rw [this, hn]; rfl

theorem Mk.natAbs_node {t : Tbl} {i : Nat} {a b r : Int} (hm : Mk t i a b r) (hne : a ≠ b) :
    r.natAbs ≠ 1 ∧ ∃ n, t.node? r.natAbs = some n ∧ n.lvl = i := by
  rcases hm with ⟨h1, h2⟩ | ⟨_, k, hk, hn, hr⟩
  · exact absurd h1 hne
  · have : r.natAbs = k := by split at hr <;> omega
    rw [this]
    exact ⟨by omega, _, hn, rfl⟩

/-- the level of the result: `i` for a node, the level of `a` when eliminated -/
theorem Mk.lvl {t : Tbl} {i : Nat} {a b r : Int} (hm : Mk t i a b r) (ha : i < t.levelOf a) :
    i ≤ t.levelOf r := by
  by_cases hne : a = b
  · rcases hm with ⟨h1, h2⟩ | ⟨h, _⟩
    · rw [h2]; omega
    · exact absurd hne h
  · obtain ⟨h1, n, hn, hl⟩ := hm.natAbs_node hne
    rw [levelOf_node t r n h1 hn, hl]
    exact Nat.le_refl _

theorem Mk.lvl_eq {t : Tbl} {i : Nat} {a b r : Int} (hm : Mk t i a b r) (hne : a ≠ b) :
    t.levelOf r = i := by
  obtain ⟨h1, n, hn, hl⟩ := hm.natAbs_node hne
  rw [levelOf_node t r n h1 hn, hl]

/-- `find_or_add` is injective on pairs of references that are not themselves at level `i` -/
theorem Mk.inj {t : Tbl} {i : Nat} {a b a' b' r : Int} (h : Mk t i a b r) (h' : Mk t i a' b' r)
    (ha : t.levelOf a ≠ i) (ha' : t.levelOf a' ≠ i) : a = a' ∧ b = b' := by
  by_cases hne : a = b
  · by_cases hne' : a' = b'
    · rcases h with ⟨_, h2⟩ | ⟨h, _⟩
      · rcases h' with ⟨_, h2'⟩ | ⟨h', _⟩
        · omega
        · exact absurd hne' h'
      · exact absurd hne h
    · exfalso
      have hl := h'.lvl_eq hne'
      rcases h with ⟨_, h2⟩ | ⟨h, _⟩
      · rw [h2] at hl; exact ha hl
      · exact absurd hne h
  · by_cases hne' : a' = b'
    · exfalso
      have hl := h.lvl_eq hne
      rcases h' with ⟨_, h2⟩ | ⟨h', _⟩
      · rw [h2] at hl; exact ha' hl
      · exact absurd hne' h'
    · rcases h with ⟨h, _⟩ | ⟨_, k, hk, hn, hr⟩
      · exact absurd h hne
      · rcases h' with ⟨h', _⟩ | ⟨_, k', hk', hn', hr'⟩
        · exact absurd h' hne'
        · have hkk : k = k' := by
            split at hr <;> split at hr' <;> omega
          subst hkk
          rw [hn] at hn'
          have e := Option.some.inj hn'
          simp only [Nd.mk.injEq, true_and] at e
          obtain ⟨e1, e2⟩ := e
          by_cases hb : b < 0 <;> by_cases hb' : b' < 0 <;>
            simp only [hb, hb', if_true, if_false] at e1 e2 hr hr' <;> omega

/-- what the result denotes -/
theorem Mk.den {t : Tbl} (hw : WF t) {i : Nat} {a b r : Int} (hm : Mk t i a b r)
    (ha : t.Mem a) (hb : t.Mem b) (e : Asg) :
    den t r e = if e i then den t b e else den t a e := by
  rcases hm with ⟨h1, h2⟩ | ⟨hne, k, hk, hn, hr⟩
  · subst h1; subst h2; split <;> rfl
  · by_cases hneg : b < 0
    · simp only [hneg, if_true] at hn hr
      have hr' : r = -(k : Int) := by omega
      have hkm : t.Mem (k : Int) := Or.inr (by simp [hn])
      have h1 : ((k : Nat) : Int).natAbs ≠ 1 := by simp; omega
      have hn' : t.node? ((k : Nat) : Int).natAbs = some ⟨i, -a, -b⟩ := by simpa using hn
      rw [hr', den_neg t hw _ e hkm, den_node t hw (k : Int) _ e h1 hn']
      have : ¬ ((k : Int) < 0) := by omega
      simp only [this, decide_false, Bool.false_bne]
      rw [den_neg t hw b e hb, den_neg t hw a e ha]
      split <;> simp
    · simp only [hneg, if_false] at hn hr
      have hr' : r = (k : Int) := by omega
      have h1 : ((k : Nat) : Int).natAbs ≠ 1 := by simp; omega
      have hn' : t.node? ((k : Nat) : Int).natAbs = some ⟨i, a, b⟩ := by simpa using hn
      rw [hr', den_node t hw (k : Int) _ e h1 hn']
      have : ¬ ((k : Int) < 0) := by omega
      simp [this]

/-! ### the structural relation between the tables before and during/after the swap -/

/-- `t'` is the table `t` in which the levels `x` and `x+1` have been exchanged, except for the
nodes in `pend` (of these two levels), which still carry their old triple. -/
structure SwapRel (t t' : Tbl) (x : Nat) (pend : Nat → Prop) : Prop where
  nvars : t'.nvars = t.nvars
  /-- nodes of other levels are untouched -/
  other : ∀ u n, t.node? u = some n → n.lvl ≠ x → n.lvl ≠ x + 1 → t'.node? u = some n
  /-- nodes of the lower level moved up -/
  up : ∀ u n, t.node? u = some n → n.lvl = x + 1 → ¬ pend u → t'.node? u = some ⟨x, n.lo, n.hi⟩
  /-- upper nodes that do not depend on the lower variable were relabelled -/
  indep : ∀ u n, t.node? u = some n → n.lvl = x → t.levelOf n.lo ≠ x + 1 → t.levelOf n.hi ≠ x + 1 →
    ¬ pend u → t'.node? u = some ⟨x + 1, n.lo, n.hi⟩
  /-- upper nodes that depend on the lower variable and have been rebuilt -/
  dep : ∀ u n, t.node? u = some n → n.lvl = x → (t.levelOf n.lo = x + 1 ∨ t.levelOf n.hi = x + 1) →
    ¬ pend u →
    ∃ p q, t'.node? u = some ⟨x, p, q⟩ ∧
      Mk t' (x + 1) (cof t (x + 1) n.lo).1 (cof t (x + 1) n.hi).1 p ∧
      Mk t' (x + 1) (cof t (x + 1) n.lo).2 (cof t (x + 1) n.hi).2 q
  /-- … and those not yet rebuilt -/
  pending : ∀ u n, t.node? u = some n → pend u → t'.node? u = some n
  /-- nodes created by the swap: at the lower level, over references below both levels -/
  fresh : ∀ u n, t.node? u = none → t'.node? u = some n →
    2 ≤ u ∧ n.lvl = x + 1 ∧ t.Mem n.lo ∧ t.Mem n.hi ∧ x + 1 < t.levelOf n.lo ∧
      x + 1 < t.levelOf n.hi ∧ 0 < n.hi ∧ n.lo ≠ n.hi

namespace SwapRel

variable {t t' : Tbl} {x : Nat} {pend : Nat → Prop}

/-- every node number of the old table is still a node number -/
theorem node_some (h : SwapRel t t' x pend)
    {u : Nat} {n : Nd} (hn : t.node? u = some n) : ∃ n', t'.node? u = some n' := by
  by_cases hpd : pend u
  · exact ⟨_, h.pending u n hn hpd⟩
  by_cases h1 : n.lvl = x + 1
  · exact ⟨_, h.up u n hn h1 hpd⟩
  · by_cases h2 : n.lvl = x
    · by_cases h3 : t.levelOf n.lo = x + 1 ∨ t.levelOf n.hi = x + 1
      · obtain ⟨p, q, hh, _⟩ := h.dep u n hn h2 h3 hpd
        exact ⟨_, hh⟩
      · exact ⟨_, h.indep u n hn h2 (fun e => h3 (Or.inl e)) (fun e => h3 (Or.inr e)) hpd⟩
    · exact ⟨_, h.other u n hn h2 h1⟩

theorem mem (h : SwapRel t t' x pend) {c : Int} (hc : t.Mem c) : t'.Mem c := by
  rcases hc with hc | hc
  · exact Or.inl hc
  · obtain ⟨n, hn⟩ := Option.isSome_iff_exists.mp hc
    obtain ⟨n', hn'⟩ := h.node_some hn
    exact Or.inr (by rw [hn']; rfl)

/-- references strictly below both levels keep their level -/
theorem lvl_above (h : SwapRel t t' x pend) {c : Int} (hc : t.Mem c) (hl : x + 1 < t.levelOf c) :
    t'.levelOf c = t.levelOf c := by
  by_cases h1 : c.natAbs = 1
  · rw [levelOf_term t c h1, levelOf_term t' c h1, h.nvars]
  · rcases hc with hc | hc
    · exact absurd hc h1
    · obtain ⟨n, hn⟩ := Option.isSome_iff_exists.mp hc
      rw [levelOf_node t c n h1 hn] at hl ⊢
      have := h.other _ n hn (by omega) (by omega)
      rw [levelOf_node t' c n h1 this]

/-- levels never drop below `min (old level) x` -/
theorem lvl_min (h : SwapRel t t' x pend) {c : Int} (hc : t.Mem c) :
    min (t.levelOf c) x ≤ t'.levelOf c := by
  by_cases h1 : c.natAbs = 1
  · rw [levelOf_term t c h1, levelOf_term t' c h1, h.nvars]; omega
  · rcases hc with hc | hc
    · exact absurd hc h1
    · obtain ⟨n, hn⟩ := Option.isSome_iff_exists.mp hc
      rw [levelOf_node t c n h1 hn]
      by_cases hpd : pend c.natAbs
      · rw [levelOf_node t' c _ h1 (h.pending _ n hn hpd)]; omega
      by_cases h2 : n.lvl = x + 1
      · rw [levelOf_node t' c _ h1 (h.up _ n hn h2 hpd)]; simp; omega
      · by_cases h3 : n.lvl = x
        · by_cases h4 : t.levelOf n.lo = x + 1 ∨ t.levelOf n.hi = x + 1
          · obtain ⟨p, q, hh, _⟩ := h.dep _ n hn h3 h4 hpd
            rw [levelOf_node t' c _ h1 hh]; simp; omega
          · rw [levelOf_node t' c _ h1
              (h.indep _ n hn h3 (fun e => h4 (Or.inl e)) (fun e => h4 (Or.inr e)) hpd)]
            simp; omega
        · rw [levelOf_node t' c _ h1 (h.other _ n hn h3 h2)]; omega

end SwapRel

/-- the `p ≠ q` assertion of `swap`: for an upper node that depends on the lower variable the two
new children differ -/
theorem dep_p_ne_q {t t' : Tbl} (hw : WF t) {x : Nat} (hyn : x + 1 < t.nvars) {v w p q : Int}
    (hv : t.Mem v) (hw' : t.Mem w) (hlv : x + 1 ≤ t.levelOf v)
    (hdep : t.levelOf v = x + 1 ∨ t.levelOf w = x + 1)
    (hsame : ∀ c : Int, t.Mem c → x + 1 < t.levelOf c → t'.levelOf c = t.levelOf c)
    (hp : Mk t' (x + 1) (cof t (x + 1) v).1 (cof t (x + 1) w).1 p)
    (hq : Mk t' (x + 1) (cof t (x + 1) v).2 (cof t (x + 1) w).2 q) : p ≠ q := by
  intro he
  subst he
  obtain ⟨mv0, mv1, lv0, lv1, _⟩ := cof_spec t hw (x + 1) v hv hlv hyn
  have l0 : t'.levelOf (cof t (x + 1) v).1 ≠ x + 1 := by rw [hsame _ mv0 lv0]; omega
  have l1 : t'.levelOf (cof t (x + 1) v).2 ≠ x + 1 := by rw [hsame _ mv1 lv1]; omega
  obtain ⟨e1, e2⟩ := Mk.inj hp hq l0 l1
  rcases hdep with hd | hd
  · exact cof_fst_ne_snd t hw (x + 1) v hv hd hyn e1
  · exact cof_fst_ne_snd t hw (x + 1) w hw' hd hyn e2

/-- an upper node depends on the upper variable: its two children, hence their cofactor pairs,
differ -/
theorem cof_pairs_ne {t : Tbl} (hw : WFU t) {x : Nat} (hyn : x + 1 < t.nvars) {v w : Int}
    (hv : t.Mem v) (hw' : t.Mem w) (hlv : x + 1 ≤ t.levelOf v) (hlw : x + 1 ≤ t.levelOf w)
    (hne : v ≠ w) :
    ¬ ((cof t (x + 1) v).1 = (cof t (x + 1) w).1 ∧ (cof t (x + 1) v).2 = (cof t (x + 1) w).2) := by
  intro ⟨e1, e2⟩
  exact hne (cof_inj t hw (x + 1) v w hv hw' hlv hlw hyn (Prod.ext e1 e2))

/-! ### soundness of the relation when nothing is pending -/

section Sound

variable {t t' : Tbl} {x : Nat}

/-- children of an upper node are not above the lower level -/
theorem child_lvl_ge (hw : WF t) {u : Nat} {n : Nd} (hn : t.node? u = some n) (hl : n.lvl = x) :
    x + 1 ≤ t.levelOf n.lo ∧ x + 1 ≤ t.levelOf n.hi := by
  have := hw.lo_lt _ _ hn
  have := hw.hi_lt _ _ hn
  omega

/-- **The table after the swap is reduced and ordered w.r.t. the new level assignment** -/
theorem swapRel_wf (hw : WFU t) (hyn : x + 1 < t.nvars) (h : SwapRel t t' x (fun _ => False)) :
    WF t' := by
  have hW := hw.toWF
  have hmem : ∀ {c : Int}, t.Mem c → t'.Mem c := fun hc => h.mem hc
  have habove : ∀ c : Int, t.Mem c → x + 1 < t.levelOf c → t'.levelOf c = t.levelOf c :=
    fun c hc hl => h.lvl_above hc hl
  -- classify a node of the new table by its origin
  have classify : ∀ u n', t'.node? u = some n' →
      n'.lvl < t'.nvars ∧ t'.Mem n'.lo ∧ t'.Mem n'.hi ∧ n'.lvl < t'.levelOf n'.lo ∧
      n'.lvl < t'.levelOf n'.hi ∧ 2 ≤ u ∧ 0 < n'.hi ∧ n'.lo ≠ n'.hi := by
    intro u n' hn'
    rw [h.nvars]
    cases hn : t.node? u with
    | none =>
      obtain ⟨h2, hl, mlo, mhi, llo, lhi, hpos, hne⟩ := h.fresh u n' hn hn'
      refine ⟨by omega, hmem mlo, hmem mhi, ?_, ?_, h2, hpos, hne⟩
      · rw [habove _ mlo llo]; omega
      · rw [habove _ mhi lhi]; omega
    | some n =>
      have g2 := hW.ge_two _ _ hn
      have mlo := hW.lo_mem _ _ hn
      have mhi := hW.hi_mem _ _ hn
      have llo := hW.lo_lt _ _ hn
      have lhi := hW.hi_lt _ _ hn
      have hpos := hW.hi_pos _ _ hn
      have hne := hW.lo_ne_hi _ _ hn
      have hlt := hW.lvl_lt _ _ hn
      by_cases h1 : n.lvl = x + 1
      · have := h.up u n hn h1 (fun hf => hf)
        rw [this] at hn'; cases hn'
        simp only
        refine ⟨by omega, hmem mlo, hmem mhi, ?_, ?_, g2, hpos, hne⟩
        · rw [habove _ mlo (by omega)]; omega
        · rw [habove _ mhi (by omega)]; omega
      · by_cases h2 : n.lvl = x
        · by_cases h3 : t.levelOf n.lo = x + 1 ∨ t.levelOf n.hi = x + 1
          · obtain ⟨p, q, hh, hp, hq⟩ := h.dep u n hn h2 h3 (fun hf => hf)
            rw [hh] at hn'; cases hn'
            simp only
            obtain ⟨gl, gh⟩ := child_lvl_ge hW hn h2
            obtain ⟨mv0, mv1, lv0, lv1, _⟩ := cof_spec t hW (x + 1) n.lo mlo gl hyn
            obtain ⟨mw0, mw1, lw0, lw1, _⟩ := cof_spec t hW (x + 1) n.hi mhi gh hyn
            have lp := hp.lvl (by rw [habove _ mv0 lv0]; exact lv0)
            have lq := hq.lvl (by rw [habove _ mv1 lv1]; exact lv1)
            refine ⟨by omega, hp.mem (hmem mv0), hq.mem (hmem mv1), by omega, by omega, g2,
              hq.pos (cof_hi_pos t hW (x + 1) n.hi hpos), ?_⟩
            exact dep_p_ne_q hW hyn mlo mhi gl h3 habove hp hq
          · have hlo : t.levelOf n.lo ≠ x + 1 := fun e => h3 (Or.inl e)
            have hhi : t.levelOf n.hi ≠ x + 1 := fun e => h3 (Or.inr e)
            have := h.indep u n hn h2 hlo hhi (fun hf => hf)
            rw [this] at hn'; cases hn'
            simp only
            refine ⟨by omega, hmem mlo, hmem mhi, ?_, ?_, g2, hpos, hne⟩
            · rw [habove _ mlo (by omega)]; omega
            · rw [habove _ mhi (by omega)]; omega
        · have := h.other u n hn h2 h1
          rw [this] at hn'; cases hn'
          have m1 := h.lvl_min mlo
          have m2 := h.lvl_min mhi
          refine ⟨hlt, hmem mlo, hmem mhi, ?_, ?_, g2, hpos, hne⟩
          · by_cases hb : x + 1 < n'.lvl
            · rw [habove _ mlo (by omega)]; exact llo
            · omega
          · by_cases hb : x + 1 < n'.lvl
            · rw [habove _ mhi (by omega)]; exact lhi
            · omega
  exact ⟨fun u n hn => (classify u n hn).1, fun u n hn => (classify u n hn).2.1,
    fun u n hn => (classify u n hn).2.2.1, fun u n hn => (classify u n hn).2.2.2.1,
    fun u n hn => (classify u n hn).2.2.2.2.1, fun u n hn => (classify u n hn).2.2.2.2.2.1,
    fun u n hn => (classify u n hn).2.2.2.2.2.2.1, fun u n hn => (classify u n hn).2.2.2.2.2.2.2⟩

/-- **Every old reference denotes the old function read through the transposition** -/
theorem swapRel_den (hw : WFU t) (hyn : x + 1 < t.nvars) (h : SwapRel t t' x (fun _ => False))
    (hW' : WF t') :
    ∀ k u, t.Mem u → t.nvars ≤ k + t.levelOf u → ∀ b : Asg,
      den t' u (b.swp x (x + 1)) = den t u b := by
  have hW := hw.toWF
  have hmem : ∀ {c : Int}, t.Mem c → t'.Mem c := fun hc => h.mem hc
  intro k
  induction k with
  | zero =>
    intro u hu hk b
    by_cases h1 : u.natAbs = 1
    · rcases abs_one h1 with e | e <;> subst e
      · rw [den_one, den_one]
      · rw [den_neg_one, den_neg_one]
    · rcases hu with hu | hu
      · exact absurd hu h1
      · obtain ⟨n, hn⟩ := Option.isSome_iff_exists.mp hu
        have := levelOf_node t u n h1 hn
        have := hW.lvl_lt _ _ hn
        omega
  | succ k ih =>
    intro u hu hk b
    by_cases h1 : u.natAbs = 1
    · rcases abs_one h1 with e | e <;> subst e
      · rw [den_one, den_one]
      · rw [den_neg_one, den_neg_one]
    · rcases hu with hu | hu
      · exact absurd hu h1
      · obtain ⟨n, hn⟩ := Option.isSome_iff_exists.mp hu
        have hl := levelOf_node t u n h1 hn
        have mlo := hW.lo_mem _ _ hn
        have mhi := hW.hi_mem _ _ hn
        have llo := hW.lo_lt _ _ hn
        have lhi := hW.hi_lt _ _ hn
        have ihlo := ih n.lo mlo (by omega) b
        have ihhi := ih n.hi mhi (by omega) b
        rw [den_node t hW u n b h1 hn]
        by_cases c1 : n.lvl = x + 1
        · rw [den_node t' hW' u _ _ h1 (h.up _ n hn c1 (fun hf => hf)), ihlo, ihhi]
          simp [c1]
        · by_cases c2 : n.lvl = x
          · by_cases c3 : t.levelOf n.lo = x + 1 ∨ t.levelOf n.hi = x + 1
            · obtain ⟨p, q, hh, hp, hq⟩ := h.dep _ n hn c2 c3 (fun hf => hf)
              obtain ⟨gl, gh⟩ := child_lvl_ge hW hn c2
              obtain ⟨mv0, mv1, lv0, lv1, dv⟩ := cof_spec t hW (x + 1) n.lo mlo gl hyn
              obtain ⟨mw0, mw1, lw0, lw1, dw⟩ := cof_spec t hW (x + 1) n.hi mhi gh hyn
              rw [den_node t' hW' u _ _ h1 hh]
              simp only
              rw [hp.den hW' (hmem mv0) (hmem mw0), hq.den hW' (hmem mv1) (hmem mw1),
                ih _ mv0 (by omega) b, ih _ mv1 (by omega) b, ih _ mw0 (by omega) b,
                ih _ mw1 (by omega) b, dv b, dw b, c2]
              simp only [Asg.swp_apply, swp_left, swp_right]
              congr 1
              exact (shannon_exchange _ _ _ _ _ _).symm
            · have hlo : t.levelOf n.lo ≠ x + 1 := fun e => c3 (Or.inl e)
              have hhi : t.levelOf n.hi ≠ x + 1 := fun e => c3 (Or.inr e)
              rw [den_node t' hW' u _ _ h1 (h.indep _ n hn c2 hlo hhi (fun hf => hf)), ihlo, ihhi]
              simp [c2]
          · rw [den_node t' hW' u _ _ h1 (h.other _ n hn c2 c1), ihlo, ihhi]
            simp [swp_other c2 c1]

end Sound

end DD
