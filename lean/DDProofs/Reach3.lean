/-
  DDProofs.Reach3 — "for EVERY history", dynamic reordering switched ON and OFF in the history.

  `UOp3` = the operations `UOp2` of DDProofs.Reach2 (user operations, explicit reorderings,
  removal of variables; arbitrary arguments) plus `configure(reordering=b)`.  Once reordering is
  enabled, the decorated operations (`var`, `ite`, `apply`, `cofactor`, `quantify`, `compose`,
  `rename`, `let`) run with `_last_len` set: a reordering request may fire at any node creation,
  the attempt is aborted, the manager sifted, the body run again.

  Invariant `Good3` (no statement about `_last_len`): `Inv`, `OrderOK`, `RefExact` for the ghost
  ledger, not inside a context, no schedule left, no registered roots.  For `_last_len = None` it
  is `Good2`.  Guards (`OpGuard3`): those of `UOp2`, NOTHING else.  In particular NOT a guard:
  * "the operands are held" — for the invariant and for the references the user does hold it does
    not matter what the operands are (`*_total_dyn`, C17); that documented obligation of dynamic
    reordering only appears where the RESULT is described (DDProps.Histories2, `C09_every_history`);
  * "two variables are declared" — the C09 / C17 theorems about the decorator assume it (sifting
    one variable makes the code raise `ValueError`, C07 `sift_single_variable_raises`); with fewer
    variables a request that fired would end in that exception with reordering left DISABLED, in a
    state that is good all the same (`tryToReorder_few`).  Only `step3_switch` ("reordering is
    still enabled") excludes that situation (`SwitchSafe`).

    `step3_inv`      : `Good3 m ext → OpGuard3 m ext op → Good3 (runOp3 op m).2 (ledger3 op m ext)`
    `step3_heldSame` : every reference the user holds stays a node, same function by NAME
    `step3_switch`   : only `configure` changes whether reordering is enabled (`SwitchSafe`)
    `step3_noSignal` : the internal signal `_NeedsReordering` never reaches the user
    `reachable3_inv` : every state reached from the empty manager by a guarded history is `Good3`.
-/
import DDProofs.Reach2
import DDProofs.DynRejectedOps
import DDProofs.DynSift
open Std

namespace DD

/-! ### operations -/

inductive UOp3
  | op (o : UOp2)
  | configure (reordering : Bool)                 -- `bdd.configure(reordering=...)`
deriving Inhabited

def runOp3 : UOp3 → Mgr → Except Err Res × Mgr
  | .op o, m => runOp2 o m
  | .configure b, m => mapRes (fun _ => .unit) (configure (some b) m)

def ledger3 : UOp3 → Mgr → (Nat → Nat) → (Nat → Nat)
  | .op o, m, ext => ledger2 o m ext
  | .configure _, _, ext => ext

/-- the operations wrapped by the decorator `_try_to_reorder` -/
def UOp.decorated : UOp → Bool
  | .var _ | .ite _ _ _ | .apply _ _ _ _ | .neg _ | .cofactor _ _ | .quantify _ _ _
  | .compose _ _ | .rename _ _ | .let_ _ _ => true
  | _ => false

def UOp2.decorated : UOp2 → Bool
  | .base b => b.decorated
  | _ => false

/-- the obligations of `UOp2` — nothing else -/
def OpGuard3 (m : Mgr) (ext : Nat → Nat) : UOp3 → Prop
  | .op o => OpGuard2 m ext o
  | .configure _ => True

/-- the situation in which the C09 / C17 theorems about the decorator do not apply: reordering
enabled, a decorated operation, fewer than two declared variables.  (Sifting one variable makes
the code raise `ValueError`; a request cannot fire there in a natural run — at most two nodes
exist — but the model's trigger is abstract.)  The invariant survives it all the same
(`tryToReorder_few`); only "reordering is still enabled afterwards" needs its negation. -/
def SwitchSafe (m : Mgr) (op : UOp3) : Prop :=
  ∀ o, op = .op o → m.lastLen.isSome = true → o.decorated = true → 2 ≤ m.nvars

instance (m : Mgr) (ext : Nat → Nat) (op : UOp3) : Decidable (OpGuard3 m ext op) := by
  cases op <;> simp only [OpGuard3] <;> infer_instance

/-! ### the invariant -/

/-- what holds between two calls, whether dynamic reordering is enabled or not -/
structure Good3 (m : Mgr) (ext : Nat → Nat) : Prop where
  inv : Inv m
  order : OrderOK m.tbl
  exact : RefExact m ext
  ctx : m.ctx = false
  sched : m.sched = []
  roots : m.roots = []

theorem Good2.good3 {m : Mgr} {ext : Nat → Nat} (h : Good2 m ext) : Good3 m ext :=
  ⟨h.good.inv, h.good.order, h.good.exact, h.good.ctx, h.sched, h.roots⟩

theorem Good3.good2 {m : Mgr} {ext : Nat → Nat} (h : Good3 m ext) (hoff : m.lastLen = none) :
    Good2 m ext :=
  ⟨⟨h.inv, h.order, h.exact, hoff, h.ctx⟩, h.sched, h.roots⟩

theorem good2_iff_good3 (m : Mgr) (ext : Nat → Nat) : Good2 m ext ↔ (Good3 m ext ∧ m.lastLen = none) :=
  ⟨fun h => ⟨h.good3, h.good.off⟩, fun h => h.1.good2 h.2⟩

theorem Good3.init : Good3 ({} : Mgr) (fun _ => 0) := Good2.init.good3

theorem Good3.reorderInv {m : Mgr} {ext : Nat → Nat} (h : Good3 m ext) (sch : List SchedItem) :
    ReorderInv ext { m with sched := sch } :=
  ⟨h.inv.setSched sch, h.order, h.exact.congr rfl rfl, Or.inl h.ctx,
    fun r hr => by rw [show ({ m with sched := sch } : Mgr).roots = m.roots from rfl, h.roots] at hr; cases hr⟩

/-- with two variables: the state the C09 / C17 theorems about the decorator start from -/
theorem Good3.dynInv {m : Mgr} {ext : Nat → Nat} (h : Good3 m ext) (h2 : 2 ≤ m.nvars) : DynInv ext m :=
  ⟨h.inv, h.order, h.exact, h.ctx, h.sched, (fun r hr => by rw [h.roots] at hr; cases hr), h2⟩

theorem DynInv.good3 {m : Mgr} {ext : Nat → Nat} (h : DynInv ext m) (hr : m.roots = []) : Good3 m ext :=
  ⟨h.inv, h.order, h.refs, h.ctx, h.sched, hr⟩

/-- the constants are "held" by everybody: what is kept for held references is kept for them -/
theorem Held2.heldX {ext : Nat → Nat} {m m' : Mgr} (h : Held2 ext m m') {u : Int} (hu : HeldX ext u) :
    m'.tbl.Mem u ∧ ∀ σ, denN m'.tbl u σ = denN m.tbl u σ := by
  rcases hu with h1 | hpos
  · refine ⟨Or.inl h1, fun σ => ?_⟩
    unfold denN
    rw [den_term h1, den_term h1]
  · exact h u hpos

/-- what a step of a history establishes: invariant for the new ledger, held references kept by
name, the switch as it was, the internal signal not raised -/
structure Step3 (m : Mgr) (ext ext' : Nat → Nat) (res : Except Err Res × Mgr) : Prop where
  good : Good3 res.2 ext'
  held : Held2 ext m res.2
  switch : res.2.lastLen.isSome = m.lastLen.isSome
  noSignal : res.1 ≠ .error .needsReordering

/-! ### steps that do not depend on the switch -/

theorem mapRes_noSignal {α : Type} (f : α → Res) (x : Except Err α × Mgr)
    (h : x.1 ≠ .error .needsReordering) : (mapRes f x).1 ≠ .error .needsReordering := by
  obtain ⟨r, m⟩ := x
  cases r with
  | ok a => intro hh; cases hh
  | error e => exact fun hh => h (by cases hh; rfl)

/-- a step that only adds nodes, with exact counts for the new ledger -/
theorem step3_of_kept {α : Type} {m : Mgr} {ext ext' : Nat → Nat} (h : Good3 m ext) (f : α → Res)
    (x : Except Err α × Mgr) (k : Kept m x.2) (hr : RefExact x.2 ext')
    (hns : x.1 ≠ .error .needsReordering) : Step3 m ext ext' (mapRes f x) :=
  ⟨⟨k.inv, h.order.congr k.frame.vars k.frame.l2v, hr, by show x.2.ctx = false; rw [k.frame.ctx]; exact h.ctx,
      by show x.2.sched = []; rw [k.frame.sched]; exact h.sched,
      by show x.2.roots = []; rw [k.frame.roots]; exact h.roots⟩,
    held2_of_kept h.inv k ext h.exact, by show x.2.lastLen.isSome = _; rw [k.frame.lastLen],
    mapRes_noSignal f x hns⟩

/-- `add_var` never raises the signal -/
theorem addVar_noSignal (m : Mgr) (name : String) (level : Option Int) :
    (addVar name level m).1 ≠ .error .needsReordering := by
  cases hex : m.tbl.vars[name]? with
  | some vl =>
    cases level with
    | none => simp [addVar, bind, M.bind', M.get, hex, pure, M.pure']
    | some l =>
      by_cases hl : l = vl
      · simp [addVar, bind, M.bind', M.get, hex, pure, M.pure', hl]
      · simp [addVar, bind, M.bind', M.get, hex, hl, M.throw]
  | none =>
    by_cases hneg : level.getD (m.nvars : Int) < 0
    · simp [addVar, bind, M.bind', M.get, hex, hneg, M.throw]
    · cases hl : m.tbl.l2v[(level.getD (m.nvars : Int)).toNat]? with
      | some o => simp [addVar, bind, M.bind', M.get, hex, hneg, hl, M.throw]
      | none => simp [addVar, bind, M.bind', M.get, hex, hneg, hl, M.set, pure, M.pure']

theorem declare_step3 (m : Mgr) (ext : Nat → Nat) (h : Good3 m ext) (name : String)
    (level : Option Int)
    (hg : ∀ l : Int, level = some l → m.tbl.vars[name]? = none → l ≤ (m.nvars : Int)) :
    Step3 m ext ext (mapRes .lvl (addVar name level m)) := by
  obtain ⟨hs, hr, hheld⟩ := addVar_frame2 m ext h.inv h.order h.exact name level hg
  refine ⟨?_, hheld, ?_, mapRes_noSignal _ _ (addVar_noSignal m name level)⟩
  · show Good3 (addVar name level m).2 ext
    rcases addVar_cases m h.order name level hg with he | ⟨hnew, he⟩
    · rw [he]; exact h
    · rw [he]
      obtain ⟨hI, hO, -, -, -, -, -, -⟩ := addVar_new_spec m h.inv h.order name hnew _ rfl
      exact ⟨hI, hO, h.exact.congr_nodes (fun _ => rfl) rfl, h.ctx, h.sched, h.roots⟩
  · show (addVar name level m).2.lastLen.isSome = _
    rcases addVar_cases m h.order name level hg with he | ⟨-, he⟩ <;> rw [he] <;> rfl

/-- outside a context `find_or_add` does not call `_request_reordering` -/
theorem findOrAdd_noctx3 (m : Mgr) (hc : m.ctx = false) (i v w : Int) :
    findOrAdd i v w m = if i < 0 then (.error .value, m) else findOrAddCore i.toNat v w m := by
  unfold findOrAdd
  simp only [hc, Bool.false_eq_true, if_false]

theorem findOrAdd_step3 (m : Mgr) (ext : Nat → Nat) (h : Good3 m ext) (i v w : Int)
    (hg : 0 ≤ i → FoaGuard m i.toNat v w) :
    Step3 m ext ext (mapRes .ref (findOrAdd i v w m)) := by
  rw [findOrAdd_noctx3 m h.ctx]
  split
  · exact step3_of_kept h _ _ (Kept.refl h.inv) h.exact (by simp)
  · exact step3_of_kept h _ _ (findOrAddCore_total m h.inv _ v w (hg (by omega)))
      (findOrAddCore_refExact_of_closed m ext _ v w h.inv.wf.toWF.closed h.exact)
      (findOrAddCore_noNR m _ v w)

theorem incref_noSignal (u : Int) (m : Mgr) : (incref u m).1 ≠ .error .needsReordering := by
  unfold incref; split <;> simp

theorem decref_noSignal (u : Int) (m : Mgr) : (decref u m).1 ≠ .error .needsReordering := by
  unfold decref
  split
  · simp
  · split <;> simp

theorem incref_step3 (m : Mgr) (ext : Nat → Nat) (h : Good3 m ext) (u : Int) :
    Step3 m ext (if m.mem u then extInc ext u.natAbs else ext)
      (mapRes (fun _ => Res.unit) (incref u m)) := by
  refine step3_of_kept h _ _ (incref_kept m h.inv u) ?_ (incref_noSignal u m)
  by_cases hu : m.tbl.Mem u
  · have hm : m.mem u = true := (Mgr.mem_iff m u).mpr hu
    obtain ⟨c, -, he, hr'⟩ := incref_spec m ext u h.exact hu
    rw [he]
    simp only [hm, if_true]
    exact hr'
  · have hm : m.mem u = false := (Tbl.mem_false_iff _ _).mpr hu
    rw [incref_not_mem m u (ref_none_of_not_mem h.exact hu)]
    simp only [hm, Bool.false_eq_true, if_false]
    exact h.exact

theorem decref_step3 (m : Mgr) (ext : Nat → Nat) (h : Good3 m ext) (u : Int)
    (hg : m.tbl.Mem u → 0 < ext u.natAbs) :
    Step3 m ext (if m.mem u then extDec ext u.natAbs else ext)
      (mapRes (fun _ => Res.unit) (decref u m)) := by
  refine step3_of_kept h _ _ (decref_kept m h.inv u) ?_ (decref_noSignal u m)
  by_cases hu : m.tbl.Mem u
  · have hm : m.mem u = true := (Mgr.mem_iff m u).mpr hu
    obtain ⟨c, -, he, hr'⟩ := decref_spec m ext u h.exact (hg hu)
    rw [he]
    simp only [hm, if_true]
    exact hr'
  · have hm : m.mem u = false := (Tbl.mem_false_iff _ _).mpr hu
    rw [decref_not_mem m u (ref_none_of_not_mem h.exact hu)]
    simp only [hm, Bool.false_eq_true, if_false]
    exact h.exact

theorem collect_step3 (m : Mgr) (ext : Nat → Nat) (h : Good3 m ext) :
    Step3 m ext ext (mapRes (fun _ => Res.unit) (collectGarbage none m)) := by
  obtain ⟨m', he, hp⟩ := collectGarbage_spec m ext h.inv h.exact
  rw [he]
  refine ⟨⟨hp.inv, h.order.congr hp.sub.vars hp.sub.l2v, hp.refExact, ?_, ?_, ?_⟩, ?_, ?_, ?_⟩
  · show m'.ctx = false
    rw [hp.sub.ctx]; exact h.ctx
  · show m'.sched = []
    rw [hp.sub.sched]; exact h.sched
  · show m'.roots = []
    rw [hp.sub.roots]; exact h.roots
  · intro u hpos
    have hmem : m'.tbl.Mem u :=
      reach_survives hp.sub hp.inv.toInvS hp.refExact h.inv.toInvS (GcReach.root hpos)
    exact ⟨hmem, fun σ => denN_of_same_l2v hp.sub.l2v u σ (fun a => hp.den_eq u hmem a)⟩
  · show m'.lastLen.isSome = _
    rw [hp.sub.lastLen]
  · intro hh; cases hh

/-! ### the explicit reorderings and `undeclare_vars`, any setting of the switch -/

theorem withSched_noSignal {α : Type} (sch : List SchedItem) (f : M α) (g : α → Res) (m : Mgr)
    (h : (f { m with sched := sch }).1 ≠ .error .needsReordering) :
    (withSched sch f g m).1 ≠ .error .needsReordering :=
  mapRes_noSignal g _ h

/-- from C07's state predicate and relation to a step of the history -/
theorem step3_of_reorder {α : Type} (m : Mgr) (ext : Nat → Nat) (h : Good3 m ext) (sch : List SchedItem)
    (f : M α) (g : α → Res)
    (hk : KeepOr SchedErr (fun m' => ReorderInv ext m' ∧ ReorderRel ext { m with sched := sch } m')
      (f { m with sched := sch }))
    (hg : isSchedErr (f { m with sched := sch }).1 = false) :
    Step3 m ext ext (withSched sch f g m) ∧ ReorderRel ext m (withSched sch f g m).2 := by
  obtain ⟨hR, hrel⟩ := hk.sched (isSchedErr_false hg)
  have hns' := withSched_noSignal sch f g m hk.noSignal
  revert hns'
  show (withSched sch f g m).1 ≠ _ →
    Step3 m ext ext ((withSched sch f g m).1, { (f { m with sched := sch }).2 with sched := [] }) ∧
    ReorderRel ext m { (f { m with sched := sch }).2 with sched := [] }
  generalize (withSched sch f g m).1 = r1
  generalize (f { m with sched := sch }).2 = m' at hR hrel ⊢
  intro hns'
  have hl : m'.lastLen = m.lastLen := hrel.lastLen
  have hc : m'.ctx = m.ctx := hrel.ctx
  have hr : m'.roots = m.roots := hrel.roots
  have hG' : Good3 { m' with sched := [] } ext :=
    ⟨hR.inv.setSched [], hR.order, hR.refExact.congr rfl rfl, by show m'.ctx = false; rw [hc]; exact h.ctx,
      rfl, by show m'.roots = []; rw [hr]; exact h.roots⟩
  refine ⟨⟨hG', ?_, ?_, hns'⟩, ⟨hrel.held, hrel.names, hrel.nvars, hr, hc, hl, fun _ => rfl⟩⟩
  · intro u hu
    have hx : HeldX ext u := Or.inr hu
    exact ⟨hx.mem hG'.exact, fun σ =>
      heldX_denN_of_heldSame h.inv hR.inv h.exact hR.refExact hrel.held hx σ⟩
  · show m'.lastLen.isSome = _
    rw [hl]

/-- the three reordering calls, ANY arguments, any setting of the switch -/
theorem reorder_step3 (m : Mgr) (ext : Nat → Nat) (h : Good3 m ext) (op : UOp2) (hg : OpGuard2 m ext op)
    (hop : (∃ sch x y, op = .swap sch x y) ∨ (∃ sch, op = .sift sch) ∨ (∃ sch o, op = .reorderTo sch o)) :
    Step3 m ext ext (runOp2 op m) ∧ ReorderRel ext m (runOp2 op m).2 := by
  rcases hop with ⟨sch, x, y, rfl⟩ | ⟨sch, rfl⟩ | ⟨sch, o, rfl⟩
  · exact step3_of_reorder m ext h sch _ _ (swap_keep ext _ (h.reorderInv sch) x y) hg
  · exact step3_of_reorder m ext h sch _ _ (sift_keep ext _ (h.reorderInv sch)) hg
  · exact step3_of_reorder m ext h sch _ _ (reorderTo_keepR ext _ (h.reorderInv sch) o) hg

theorem undeclare_step3 (m : Mgr) (ext : Nat → Nat) (h : Good3 m ext) (vrs : List String) :
    Step3 m ext ext (mapRes (fun _ => Res.unit) (undeclareVars vrs m)) := by
  have hmem : ∀ u : Int, 0 < ext u.natAbs → m.tbl.Mem u := fun u hu => h.exact.mem_of_ext_pos hu
  rcases undeclare_cases m vrs with hbad | hok
  · rw [undeclare_refuses m vrs hbad]
    exact ⟨h, fun u hu => ⟨hmem u hu, fun _ => rfl⟩, rfl, fun hh => by cases hh⟩
  · obtain ⟨rm, m', f, hrun, -, -, -, -, hO', -, hI', hrl, hden, href, -, -, hroots⟩ :=
      undeclare_spec m h.inv h.order vrs hok
    have hrun2 := undeclare_ok m h.inv.wf.toWF h.order vrs hok
    rw [hrun2] at hrun
    obtain ⟨-, rfl⟩ := Prod.mk.inj hrun
    rw [hrun2]
    exact ⟨⟨hI', hO', h.exact.of_relabel hrl href, h.ctx, h.sched, h.roots⟩,
      fun u hu => hden u (hmem u hu), rfl, fun hh => by cases hh⟩

/-! ### `configure` -/

theorem configure_step3 (m : Mgr) (ext : Nat → Nat) (h : Good3 m ext) (b : Bool) :
    Good3 (configure (some b) m).2 ext ∧ Held2 ext m (configure (some b) m).2 ∧
    (configure (some b) m).2.lastLen.isSome = b ∧ (configure (some b) m).2.tbl = m.tbl ∧
    (configure (some b) m).1 = .ok m.lastLen.isSome := by
  have key : ∀ l : Option Nat, Good3 { m with lastLen := l } ext ∧ Held2 ext m { m with lastLen := l } :=
    fun l => ⟨⟨⟨h.inv.wf, h.inv.pred, h.inv.freeGe, h.inv.free, h.inv.refOne, h.inv.refDom, h.inv.cache⟩,
      h.order, h.exact.congr rfl rfl, h.ctx, h.sched, h.roots⟩,
      fun u hu => ⟨h.exact.mem_of_ext_pos hu, fun _ => rfl⟩⟩
  cases b with
  | true =>
    have he : configure (some true) m =
        (.ok m.lastLen.isSome, { m with lastLen := some (max Gen.reorderStarts m.len) }) := by
      simp only [configure, M.bind_eq, M.get_eq, M.set_eq, M.pure_eq]
    rw [he]
    exact ⟨(key _).1, (key _).2, rfl, rfl, rfl⟩
  | false =>
    have he : configure (some false) m = (.ok m.lastLen.isSome, { m with lastLen := none }) := by
      simp only [configure, M.bind_eq, M.get_eq, M.set_eq, M.pure_eq]
    rw [he]
    exact ⟨(key _).1, (key _).2, rfl, rfl, rfl⟩

/-! ### the decorated operations -/

/-- from what C17 states of a decorated call with arbitrary arguments (`DynTotal`) -/
theorem step3_of_dynTotal {α : Type} {m : Mgr} {ext : Nat → Nat} (h : Good3 m ext) (f : α → Res)
    (x : Except Err α × Mgr) (hd : DynTotal ext m x) : Step3 m ext ext (mapRes f x) :=
  ⟨hd.2.inv.good3 (hd.2.roots.trans h.roots), fun u hu => hd.2.held u (Or.inr hu), hd.2.enabled,
    mapRes_noSignal f x hd.1⟩

/-- with `_last_len = None`, `apply` with any operator, arity and operands never raises the signal -/
theorem apply_off_noSignal (ext : Nat → Nat) (op : String) (u : Int) (v w : Option Int) (m : Mgr)
    (h : Lite ext m) : (apply op u v w m).1 ≠ .error .needsReordering := by
  have same : ∀ e : Err, e ≠ .needsReordering →
      ((.error e, m) : Except Err Int × Mgr).1 ≠ .error .needsReordering :=
    fun e he hh => he (by cases hh; rfl)
  unfold apply
  split
  · next e heq =>
    refine same e ?_
    intro he; subst he
    unfold assertOperatorArity at heq
    repeat' split at heq
    all_goals simp at heq
  split
  · exact same _ (by simp)
  split
  · exact same _ (by simp)
  split
  · exact same _ (by simp)
  split
  · exact same _ (by simp)
  split
  · intro hh; cases hh
  · split
    · exact same _ (by simp)
    split
    · exact same _ (by simp)
    split
    · exact (ite_lite ext _ _ _ m h).2
    · exact same _ (fun he => by subst he; exact atomVal_noNR _ _ _ _ (by assumption))
    · exact same _ (fun he => by subst he; exact atomVal_noNR _ _ _ _ (by assumption))
    · exact same _ (fun he => by subst he; exact atomVal_noNR _ _ _ _ (by assumption))
  · split
    · exact same _ (by simp)
    split
    · split
      · next e heq => exact same e (fun he => by subst he; exact support_noNR _ _ heq)
      · exact (quantify_lite ext _ _ _ m h).2
    · exact same _ (fun he => by subst he; exact atomVal_noNR _ _ _ _ (by assumption))
    · exact same _ (fun he => by subst he; exact atomVal_noNR _ _ _ _ (by assumption))
  · exact same _ (by simp)
  · exact same _ (by simp)

/-- from the step of DDProofs.Reach2 (reordering not enabled) -/
theorem step3_of_off (m : Mgr) (ext : Nat → Nat) (h : Good3 m ext) (hoff : m.lastLen = none)
    (b : UOp) (hg : OpGuard m ext b) (hdec : b.decorated = true) :
    Step3 m ext ext (runOp b m) := by
  have h2 := h.good2 hoff
  have hl : ledger b m ext = ext := by cases b <;> first | rfl | cases hdec
  have hS := step2_inv m ext (.base b) h2 hg
  have hH := step2_heldSame m ext (.base b) h2 hg
  rw [show ledger2 (.base b) m ext = ext from hl] at hS
  refine ⟨hS.good3, hH, ?_, ?_⟩
  · show (runOp2 (.base b) m).2.lastLen.isSome = _
    rw [hS.good.off, hoff]
  · -- `Lite`: with `_last_len = None` the signal cannot be raised
    have hL := h2.good.lite
    cases b with
    | var name => exact mapRes_noSignal _ _ (var_lite ext name m hL).2
    | ite g u v => exact mapRes_noSignal _ _ (ite_lite ext g u v m hL).2
    | apply o u v w => exact mapRes_noSignal _ _ (apply_off_noSignal ext o u v w m hL)
    | neg u => exact mapRes_noSignal _ _ (apply_off_noSignal ext "not" u none none m hL)
    | cofactor u values => exact mapRes_noSignal _ _ (cofactor_lite ext u values m hL).2
    | quantify u qvars fa => exact mapRes_noSignal _ _ (quantify_lite ext u qvars fa m hL).2
    | compose f varSub => exact mapRes_noSignal _ _ (compose_lite ext f varSub m hL).2
    | rename u dvars => exact mapRes_noSignal _ _ (rename_lite ext u dvars m hL).2
    | let_ d u => exact mapRes_noSignal _ _ (letOp_lite ext d u m hL).2
    | _ => cases hdec

/-- a decorated operation with ANY arguments, two variables declared, whatever the switch: the
C17 theorems `*_total_dyn` -/
theorem step3_of_decorated (m : Mgr) (ext : Nat → Nat) (h : Good3 m ext) (h2 : 2 ≤ m.nvars)
    (b : UOp) (hdec : b.decorated = true) : Step3 m ext ext (runOp b m) := by
  have hD := h.dynInv h2
  have hS := siftContract ext
  cases b with
  | var name => exact step3_of_dynTotal h _ _ (var_total_dyn ext hS m hD name)
  | ite g u v => exact step3_of_dynTotal h _ _ (ite_total_dyn ext hS m hD g u v)
  | apply o u v w => exact step3_of_dynTotal h _ _ (apply_total_dyn ext hS m hD o u v w)
  | neg u => exact step3_of_dynTotal h _ _ (apply_total_dyn ext hS m hD "not" u none none)
  | cofactor u values => exact step3_of_dynTotal h _ _ (cofactor_total_dyn ext hS m hD u values)
  | quantify u qvars fa => exact step3_of_dynTotal h _ _ (quantify_total_dyn ext hS m hD u qvars fa)
  | compose f varSub => exact step3_of_dynTotal h _ _ (compose_total_dyn ext hS m hD f varSub)
  | rename u dvars => exact step3_of_dynTotal h _ _ (rename_total_dyn ext hS m hD u dvars)
  | let_ d u => exact step3_of_dynTotal h _ _ (letOp_total_dyn ext hS m hD d u)
  | _ => cases hdec

/-! ### the decorator with fewer than two variables

The C09 / C17 theorems start from `DynInv` (two variables).  With fewer, a request that fired
would make `reorder(bdd)` raise — after its collection, nothing else touched (`sift_few_vars`) —
and the decorator lets that exception through with `_last_len = None`.  The state is good all
the same and every held reference keeps its function: the history theorems need no guard. -/

theorem Good3.stepK {ext : Nat → Nat} {m m' : Mgr} (h : Good3 m ext) (hs : StepK m m') : Good3 m' ext :=
  ⟨hs.inv, h.order.frame hs.frame, (hs.keep ext h.exact).1, by rw [hs.frame.ctx]; exact h.ctx,
   by rw [hs.frame.sched]; exact h.sched, by rw [hs.frame.roots]; exact h.roots⟩

theorem held2_of_stepK {ext : Nat → Nat} {m m' : Mgr} (h : Good3 m ext) (hs : StepK m m') :
    Held2 ext m m' := fun u hu =>
  have hm := h.exact.mem_of_ext_pos hu
  ⟨hs.ext.mem hm, fun σ => hs.denN h.inv.wf.toWF hm σ⟩

/-- `reorder(bdd)` with fewer than two variables and no recorded schedule: it RAISES
(`ValueError` / `UnboundLocalError`), in a state that satisfies the reordering invariant -/
theorem sift_few_result (ext : Nat → Nat) (m : Mgr) (h : ReorderInv ext m) (hs : m.sched = [])
    (hfew : m.nvars < 2) :
    ∃ e mb, reorder none m = (.error e, mb) ∧ RejErr e ∧ ReorderInv ext mb ∧ ReorderRel ext m mb := by
  obtain ⟨mg, hrun, hp⟩ := collectGarbage_spec m ext h.inv h.refExact
  obtain ⟨hg, hrel⟩ := gcSub_keeps h hp.inv hp.refExact hp.sub
  have hn : mg.nvars < 2 := by rw [hrel.nvars]; exact hfew
  obtain ⟨e, mb, hres, -⟩ := sift_few_vars m mg hrun hg.order hn
  have hk := sift_keep ext m h
  have hns := isSchedErr_false (no_sched_report ext m h hs).2.1
  rw [hres] at hk hns
  rcases hk with he | ⟨hrej, hR, hrel'⟩
  · exact absurd (by rw [show e = Err.sched from he]) hns
  · exact ⟨e, mb, hres, hrej, hR, hrel'⟩

/-- first attempt aborted by a request, `reorder` raises: the exception reaches the caller -/
theorem tryToReorder_sift_err {α} (f : M α) (m m1 mb : Mgr) (e : Err) (hctx : m.ctx = false)
    (h1 : f { m with ctx := true } = (.error .needsReordering, m1))
    (h2 : reorder none { m1 with ctx := m.ctx, lastLen := none } = (.error e, mb)) :
    tryToReorder f m = (.error e, mb) := by
  unfold tryToReorder
  have hw1 : withCtx f m = (.ok none, { m1 with ctx := m.ctx }) := by
    unfold withCtx
    rw [h1]
    simp [hctx]
  simp only [bind, M.bind', hw1, M.modify]
  rw [h2]

/-- what every step of a history establishes, whatever the number of variables -/
def Few3 (m : Mgr) (ext : Nat → Nat) {α : Type} (res : Except Err α × Mgr) : Prop :=
  Good3 res.2 ext ∧ Held2 ext m res.2 ∧ res.1 ≠ .error .needsReordering

theorem Few3.same {α : Type} {m : Mgr} {ext : Nat → Nat} (h : Good3 m ext) (r : Except Err α)
    (hr : r ≠ .error .needsReordering) : Few3 m ext (r, m) :=
  ⟨h, fun u hu => ⟨h.exact.mem_of_ext_pos hu, fun _ => rfl⟩, hr⟩

theorem Few3.mapRes {α : Type} {m : Mgr} {ext : Nat → Nat} {x : Except Err α × Mgr} (h : Few3 m ext x)
    (f : α → Res) : Few3 m ext (mapRes f x) :=
  ⟨h.1, h.2.1, mapRes_noSignal f x h.2.2⟩

theorem Step3.few {m : Mgr} {ext : Nat → Nat} {res : Except Err Res × Mgr} (h : Step3 m ext ext res) :
    Few3 m ext res := ⟨h.good, h.held, h.noSignal⟩

/-- GENERIC: the decorator around a body that accepts arbitrary arguments (`TotE`), with fewer
than two variables declared, whatever the switch -/
theorem tryToReorder_few {α : Type} (ext : Nat → Nat) (f : M α)
    (hbody : ∀ m0 : Mgr, Inv m0 → m0.ctx = true → OrderOK m0.tbl → TotE m0 (f m0))
    (m : Mgr) (h : Good3 m ext) (hfew : m.nvars < 2) : Few3 m ext (tryToReorder f m) := by
  have h1 := hbody { m with ctx := true } (h.inv.setCtx true) rfl h.order
  generalize hres : f { m with ctx := true } = res at h1
  obtain ⟨r, m1⟩ := res
  have hs' : StepK m { m1 with ctx := m.ctx } := h1.1.ofCtx true
  cases r with
  | ok a =>
    rw [tryToReorder_ok f m a m1 hres]
    exact ⟨h.stepK hs', held2_of_stepK h hs', fun hh => by cases hh⟩
  | error e =>
    by_cases he : e = .needsReordering
    · subst he
      -- the request fired: `_last_len = None`, then `reorder(bdd)` raises
      have hG2 : Good3 { m1 with ctx := m.ctx, lastLen := none } ext := by
        have hg := h.stepK hs'
        exact ⟨⟨hg.inv.wf, hg.inv.pred, hg.inv.freeGe, hg.inv.free, hg.inv.refOne, hg.inv.refDom,
          hg.inv.cache⟩, hg.order, hg.exact.congr rfl rfl, hg.ctx, hg.sched, hg.roots⟩
      have hR2 : ReorderInv ext { m1 with ctx := m.ctx, lastLen := none } :=
        ⟨hG2.inv, hG2.order, hG2.exact, Or.inl hG2.ctx, fun r hr => by rw [hG2.roots] at hr; cases hr⟩
      have hn2 : ({ m1 with ctx := m.ctx, lastLen := none } : Mgr).nvars < 2 := by
        show m1.nvars < 2
        have : m1.nvars = m.nvars := hs'.nvars
        omega
      obtain ⟨e, mb, hsift, hrej, hRb, hrel⟩ := sift_few_result ext _ hR2 hG2.sched hn2
      rw [tryToReorder_sift_err f m m1 mb e h.ctx hres hsift]
      have hGb : Good3 mb ext :=
        ⟨hRb.inv, hRb.order, hRb.refExact, by rw [hrel.ctx]; exact hG2.ctx, hrel.sched hG2.sched,
          by rw [hrel.roots]; exact hG2.roots⟩
      refine ⟨hGb, fun u hu => ?_, fun hh => by cases hh; exact hrej.ne_signal rfl⟩
      have hx : HeldX ext u := Or.inr hu
      obtain ⟨-, hd1⟩ := held2_of_stepK h hs' u hu
      refine ⟨hx.mem hGb.exact, fun σ => ?_⟩
      rw [heldX_denN_of_heldSame hG2.inv hRb.inv hG2.exact hRb.refExact hrel.held hx σ]
      exact hd1 σ
    · rw [tryToReorder_err f m e m1 hres he]
      exact ⟨h.stepK hs', held2_of_stepK h hs', fun hh => by cases hh; exact he rfl⟩

theorem apply_few (ext : Nat → Nat) (m : Mgr) (h : Good3 m ext) (hfew : m.nvars < 2)
    (op : String) (u : Int) (v w : Option Int) : Few3 m ext (apply op u v w m) := by
  have same : ∀ e : Err, e ≠ .needsReordering →
      Few3 m ext ((.error e, m) : Except Err Int × Mgr) :=
    fun e he => Few3.same h _ (by simpa using he)
  unfold apply
  split
  · next e heq =>
    refine same e ?_
    intro he; subst he
    unfold assertOperatorArity at heq
    repeat' split at heq
    all_goals simp at heq
  split
  · exact same _ (by simp)
  split
  · exact same _ (by simp)
  split
  · exact same _ (by simp)
  split
  · exact same _ (by simp)
  split
  · exact Few3.same h _ (by simp)
  · split
    · exact same _ (by simp)
    split
    · exact same _ (by simp)
    split
    · exact tryToReorder_few ext _ (fun m0 hI _ _ => iteRaw_totE m0 hI _ _ _) m h hfew
    · exact same _ (fun he => by subst he; exact atomVal_noNR _ _ _ _ (by assumption))
    · exact same _ (fun he => by subst he; exact atomVal_noNR _ _ _ _ (by assumption))
    · exact same _ (fun he => by subst he; exact atomVal_noNR _ _ _ _ (by assumption))
  · split
    · exact same _ (by simp)
    split
    · split
      · next e heq => exact same e (fun he => by subst he; exact support_noNR _ _ heq)
      · exact tryToReorder_few ext _ (fun m0 hI hc _ => quantifyBody_totE m0 hI hc _ _ _) m h hfew
    · exact same _ (fun he => by subst he; exact atomVal_noNR _ _ _ _ (by assumption))
    · exact same _ (fun he => by subst he; exact atomVal_noNR _ _ _ _ (by assumption))
  · exact same _ (by simp)
  · exact same _ (by simp)

/-- a decorated operation with ANY arguments and fewer than two variables, whatever the switch -/
theorem decorated_few (m : Mgr) (ext : Nat → Nat) (h : Good3 m ext) (hfew : m.nvars < 2)
    (b : UOp) (hdec : b.decorated = true) : Few3 m ext (runOp b m) := by
  cases b with
  | var name =>
    refine Few3.mapRes ?_ _
    rw [var_eq]
    exact tryToReorder_few ext _ (fun m0 hI _ _ => varBody_totE m0 hI name) m h hfew
  | ite g u v =>
    exact Few3.mapRes (tryToReorder_few ext _ (fun m0 hI _ _ => iteRaw_totE m0 hI g u v) m h hfew) _
  | apply o u v w => exact Few3.mapRes (apply_few ext m h hfew o u v w) _
  | neg u => exact Few3.mapRes (apply_few ext m h hfew "not" u none none) _
  | cofactor u values =>
    exact Few3.mapRes (tryToReorder_few ext (cofactorBody u values)
      (fun m0 hI _ _ => cofactorBody_totE m0 hI u values) m h hfew) _
  | quantify u qvars fa =>
    exact Few3.mapRes (tryToReorder_few ext (quantifyBody u qvars fa)
      (fun m0 hI hc _ => quantifyBody_totE m0 hI hc u qvars fa) m h hfew) _
  | compose f varSub =>
    exact Few3.mapRes (tryToReorder_few ext (composeBody f varSub)
      (fun m0 hI hc _ => composeBody_totE m0 hI hc f varSub) m h hfew) _
  | rename u dvars =>
    exact Few3.mapRes (tryToReorder_few ext (renameBody u dvars)
      (fun m0 hI hc _ => renameBody_totE m0 hI hc u dvars) m h hfew) _
  | let_ d u =>
    refine Few3.mapRes ?_ _
    unfold letOp
    split
    · exact Few3.same h _ (by simp)
    · exact Few3.same h _ (by simp)
    · exact Few3.same h _ (by simp)
    · exact tryToReorder_few ext (cofactorBody u _)
        (fun m0 hI _ _ => cofactorBody_totE m0 hI u _) m h hfew
    · exact tryToReorder_few ext (composeBody u _)
        (fun m0 hI hc _ => composeBody_totE m0 hI hc u _) m h hfew
    · exact tryToReorder_few ext (renameBody u _)
        (fun m0 hI hc _ => renameBody_totE m0 hI hc u _) m h hfew
  | _ => cases hdec

/-! ### one step -/

theorem ledger_decorated (b : UOp) (m : Mgr) (ext : Nat → Nat) (hdec : b.decorated = true) :
    ledger b m ext = ext := by
  cases b <;> first | rfl | cases hdec

/-- every operation of `UOp2`, any setting of the switch -/
theorem step3_op (m : Mgr) (ext : Nat → Nat) (h : Good3 m ext) (o : UOp2)
    (hg2 : OpGuard2 m ext o) (hg3 : m.lastLen.isSome = true → o.decorated = true → 2 ≤ m.nvars) :
    Step3 m ext (ledger2 o m ext) (runOp2 o m) := by
  cases o with
  | base b =>
    cases hdec : b.decorated with
    | true =>
      show Step3 m ext (ledger b m ext) (runOp b m)
      rw [ledger_decorated b m ext hdec]
      by_cases hoff : m.lastLen = none
      · exact step3_of_off m ext h hoff b hg2 hdec
      · have hs : m.lastLen.isSome = true := by
          cases hl : m.lastLen with
          | none => exact absurd hl hoff
          | some l => rfl
        exact step3_of_decorated m ext h (hg3 hs hdec) b hdec
    | false =>
      cases b with
      | declare name level => exact declare_step3 m ext h name level (OpGuard.declare (ext := ext) hg2)
      | findOrAdd i v w => exact findOrAdd_step3 m ext h i v w hg2
      | incref u => exact incref_step3 m ext h u
      | decref u => exact decref_step3 m ext h u hg2
      | collectGarbage => exact collect_step3 m ext h
      | _ => cases hdec
  | swap sch x y => exact (reorder_step3 m ext h _ hg2 (Or.inl ⟨sch, x, y, rfl⟩)).1
  | sift sch => exact (reorder_step3 m ext h _ hg2 (Or.inr (Or.inl ⟨sch, rfl⟩))).1
  | reorderTo sch o => exact (reorder_step3 m ext h _ hg2 (Or.inr (Or.inr ⟨sch, o, rfl⟩))).1
  | undeclare vrs => exact undeclare_step3 m ext h vrs

/-- every operation of `UOp2`, any setting of the switch, ANY number of variables -/
theorem step3_op_few (m : Mgr) (ext : Nat → Nat) (h : Good3 m ext) (o : UOp2) (hg : OpGuard2 m ext o) :
    Good3 (runOp2 o m).2 (ledger2 o m ext) ∧ Held2 ext m (runOp2 o m).2 ∧
    (runOp2 o m).1 ≠ .error .needsReordering := by
  by_cases hsafe : m.lastLen.isSome = true → o.decorated = true → 2 ≤ m.nvars
  · have hs := step3_op m ext h o hg hsafe
    exact ⟨hs.good, hs.held, hs.noSignal⟩
  · have hen : m.lastLen.isSome = true := by
      by_cases hc : m.lastLen.isSome = true
      · exact hc
      · exact absurd (fun hh _ => absurd hh hc) hsafe
    have hdec : o.decorated = true := by
      by_cases hc : o.decorated = true
      · exact hc
      · exact absurd (fun _ hh => absurd hh hc) hsafe
    have hfew : m.nvars < 2 := by
      rcases Nat.lt_or_ge m.nvars 2 with hc | hc
      · exact hc
      · exact absurd (fun _ _ => hc) hsafe
    cases o with
    | base b =>
      have hf := decorated_few m ext h hfew b hdec
      show Good3 (runOp b m).2 (ledger b m ext) ∧ _
      rw [ledger_decorated b m ext hdec]
      exact hf
    | swap sch x y => cases hdec
    | sift sch => cases hdec
    | reorderTo sch o => cases hdec
    | undeclare vrs => cases hdec

/-- **`step3_inv`**: every operation with every argument, accepted or rejected, reordering
enabled or not, any number of variables — and `configure` itself — leads from a good state to a
good state -/
theorem step3_inv (m : Mgr) (ext : Nat → Nat) (op : UOp3) (h : Good3 m ext) (hg : OpGuard3 m ext op) :
    Good3 (runOp3 op m).2 (ledger3 op m ext) := by
  cases op with
  | op o => exact (step3_op_few m ext h o hg).1
  | configure b => exact (configure_step3 m ext h b).1

/-- every operation keeps every reference the user holds: still a node, same function BY NAME —
also when the call triggered a sifting of the manager -/
theorem step3_heldSame (m : Mgr) (ext : Nat → Nat) (op : UOp3) (h : Good3 m ext) (hg : OpGuard3 m ext op) :
    Held2 ext m (runOp3 op m).2 := by
  cases op with
  | op o => exact (step3_op_few m ext h o hg).2.1
  | configure b => exact (configure_step3 m ext h b).2.1

/-- the switch after a call, given the switch before it -/
def UOp3.switchAfter : UOp3 → Bool → Bool
  | .op _, old => old
  | .configure b, _ => b

/-- only `configure` changes whether dynamic reordering is enabled (F11: also a call that fails
in the retry after a sifting re-arms it) — outside the situation `SwitchSafe` excludes -/
theorem step3_switch (m : Mgr) (ext : Nat → Nat) (op : UOp3) (h : Good3 m ext) (hg : OpGuard3 m ext op)
    (hsafe : SwitchSafe m op) :
    (runOp3 op m).2.lastLen.isSome = op.switchAfter m.lastLen.isSome := by
  cases op with
  | op o => exact (step3_op m ext h o hg (hsafe o rfl)).switch
  | configure b => exact (configure_step3 m ext h b).2.2.1

/-- with two variables declared nothing is excluded -/
theorem switchSafe_of_two (m : Mgr) (op : UOp3) (h2 : 2 ≤ m.nvars) : SwitchSafe m op :=
  fun _ _ _ _ => h2

/-- the internal signal `_NeedsReordering` never reaches the user -/
theorem step3_noSignal (m : Mgr) (ext : Nat → Nat) (op : UOp3) (h : Good3 m ext) (hg : OpGuard3 m ext op) :
    (runOp3 op m).1 ≠ .error .needsReordering := by
  cases op with
  | op o => exact (step3_op_few m ext h o hg).2.2
  | configure b =>
    show (mapRes _ (configure (some b) m)).1 ≠ _
    exact mapRes_noSignal _ _ (by rw [(configure_step3 m ext h b).2.2.2.2]; intro hh; cases hh)

/-- the ledger entry of `k` changes only by the user's own `incref` / `decref` of `k` -/
theorem ledger3_eq (op : UOp3) (m : Mgr) (ext : Nat → Nat) (k : Nat)
    (h : ∀ v : Int, v.natAbs = k → op ≠ .op (.base (.incref v)) ∧ op ≠ .op (.base (.decref v))) :
    ledger3 op m ext k = ext k := by
  cases op with
  | op o =>
    exact ledger2_eq o m ext k (fun v hv =>
      ⟨fun hh => (h v hv).1 (by rw [hh]), fun hh => (h v hv).2 (by rw [hh])⟩)
  | configure b => rfl

/-- **`step3_held`**: across EVERY step — a decorated call that sifted the manager, an explicit
reordering, a collection, a rejected call — a reference `u` the user holds is a node before and
after, under the same number, denotes the same function of the variable NAMES, and its counter is
`stored edges + the user's references (+ 1 for the terminal)` for the ledger after the step -/
theorem step3_held (m : Mgr) (ext : Nat → Nat) (op : UOp3) (h : Good3 m ext) (hg : OpGuard3 m ext op)
    (u : Int) (hu : 0 < ext u.natAbs) :
    m.tbl.Mem u ∧ (runOp3 op m).2.tbl.Mem u ∧
    (∀ σ, denN (runOp3 op m).2.tbl u σ = denN m.tbl u σ) ∧
    (runOp3 op m).2.ref[u.natAbs]? =
      some (indeg (runOp3 op m).2.tbl u.natAbs + ledger3 op m ext u.natAbs +
        (if u.natAbs = 1 then 1 else 0)) := by
  obtain ⟨hm', hd⟩ := step3_heldSame m ext op h hg u hu
  exact ⟨h.exact.mem_of_ext_pos hu, hm', hd, (step3_inv m ext op h hg).exact.get hm'⟩

/-- a REJECTED call does not touch the user's ledger -/
theorem rejected3_ledger (m : Mgr) (ext : Nat → Nat) (op : UOp3) (h : Good3 m ext) (hg : OpGuard3 m ext op)
    (e : Err) (hrej : (runOp3 op m).1 = .error e) : ledger3 op m ext = ext := by
  cases op with
  | configure b => rfl
  | op o =>
    cases o with
    | base b =>
      cases b with
      | incref u =>
        by_cases hu : m.tbl.Mem u
        · exfalso
          obtain ⟨c, -, he, -⟩ := incref_spec m ext u h.exact hu
          have : (mapRes (fun _ => Res.unit) (incref u m)).1 = .error e := hrej
          simp only [mapRes, he] at this
          cases this
        · have hm : m.mem u = false := (Tbl.mem_false_iff _ _).mpr hu
          simp [ledger3, ledger2, ledger, hm]
      | decref u =>
        by_cases hu : m.tbl.Mem u
        · exfalso
          obtain ⟨c, -, he, -⟩ := decref_spec m ext u h.exact (hg hu)
          have : (mapRes (fun _ => Res.unit) (decref u m)).1 = .error e := hrej
          simp only [mapRes, he] at this
          cases this
        · have hm : m.mem u = false := (Tbl.mem_false_iff _ _).mpr hu
          simp [ledger3, ledger2, ledger, hm]
      | _ => rfl
    | _ => rfl

/-! ### histories -/

def step3 (op : UOp3) (s : St) : St := ⟨(runOp3 op s.m).2, ledger3 op s.m s.ext⟩

def run3 : List UOp3 → St → St
  | [], s => s
  | op :: ops, s => run3 ops (step3 op s)

def Ops3Guarded : List UOp3 → St → Prop
  | [], _ => True
  | op :: ops, s => OpGuard3 s.m s.ext op ∧ Ops3Guarded ops (step3 op s)

def results3 : List UOp3 → St → List (Except Err Res)
  | [], _ => []
  | op :: ops, s => (runOp3 op s.m).1 :: results3 ops (step3 op s)

instance decOps3Guarded : (ops : List UOp3) → (s : St) → Decidable (Ops3Guarded ops s)
  | [], _ => isTrue trivial
  | op :: ops, s => by
    unfold Ops3Guarded
    exact @instDecidableAnd _ _ _ (decOps3Guarded ops (step3 op s))

theorem run3_append (a b : List UOp3) (s : St) : run3 (a ++ b) s = run3 b (run3 a s) := by
  induction a generalizing s with
  | nil => rfl
  | cons op a ih => exact ih (step3 op s)

theorem ops3Guarded_append (a b : List UOp3) (s : St) :
    Ops3Guarded (a ++ b) s ↔ (Ops3Guarded a s ∧ Ops3Guarded b (run3 a s)) := by
  induction a generalizing s with
  | nil => simp [Ops3Guarded, run3]
  | cons op a ih =>
    simp only [List.cons_append, Ops3Guarded, run3, ih (step3 op s), and_assoc]

theorem run3_inv (ops : List UOp3) (s : St) (h : Good3 s.m s.ext) (hg : Ops3Guarded ops s) :
    Good3 (run3 ops s).m (run3 ops s).ext := by
  induction ops generalizing s with
  | nil => exact h
  | cons op ops ih => exact ih (step3 op s) (step3_inv s.m s.ext op h hg.1) hg.2

/-- **`reachable3_inv`**: every state reached from the empty manager by a guarded history in which
dynamic reordering is switched on and off at will is good -/
theorem reachable3_inv (ops : List UOp3) (hg : Ops3Guarded ops St.init) :
    Good3 (run3 ops St.init).m (run3 ops St.init).ext :=
  run3_inv ops St.init Good3.init hg

/-- a history without `configure` never enables reordering: it is a history of DDProofs.Reach2 -/
theorem run3_op (ops : List UOp2) (s : St) : run3 (ops.map .op) s = run2 ops s := by
  induction ops generalizing s with
  | nil => rfl
  | cons op ops ih => exact ih (step2 op s)

theorem ops3Guarded_op (ops : List UOp2) (s : St) (h : Good2 s.m s.ext) (hg : Ops2Guarded ops s) :
    Ops3Guarded (ops.map .op) s := by
  induction ops generalizing s with
  | nil => trivial
  | cons op ops ih =>
    exact ⟨hg.1, ih (step2 op s) (step2_inv s.m s.ext op h hg.1) hg.2⟩

/-- a reference the user holds and does not release stays a node and keeps its function of the
variable NAMES through ANY guarded continuation — automatic and explicit reorderings included -/
theorem run3_held (ops : List UOp3) (s : St) (h : Good3 s.m s.ext) (hg : Ops3Guarded ops s) (u : Int)
    (hheld : ∀ (pre post : List UOp3), ops = pre ++ post → 0 < (run3 pre s).ext u.natAbs) :
    (run3 ops s).m.tbl.Mem u ∧ ∀ σ, denN (run3 ops s).m.tbl u σ = denN s.m.tbl u σ := by
  induction ops generalizing s with
  | nil => exact ⟨h.exact.mem_of_ext_pos (hheld [] [] rfl), fun _ => rfl⟩
  | cons op ops ih =>
    have h0 : 0 < s.ext u.natAbs := hheld [] (op :: ops) rfl
    obtain ⟨-, hd1⟩ := step3_heldSame s.m s.ext op h hg.1 u h0
    obtain ⟨hm2, hd2⟩ := ih (step3 op s) (step3_inv s.m s.ext op h hg.1) hg.2
      (fun pre post he => hheld (op :: pre) post (by rw [he]; rfl))
    exact ⟨hm2, fun σ => (hd2 σ).trans (hd1 σ)⟩

/-- two references that agree as functions of the variable NAMES are the same reference -/
theorem canonical_by_name3 {m : Mgr} {ext : Nat → Nat} (h : Good3 m ext) (u v : Int)
    (hu : m.tbl.Mem u) (hv : m.tbl.Mem v) :
    (∀ σ, denN m.tbl u σ = denN m.tbl v σ) ↔ u = v := by
  constructor
  · intro hs
    exact (canonical _ h.inv.wf u v hu hv).mp (den_of_denN_tbl h.inv.wf.toWF h.order u v hu hv hs)
  · rintro rfl σ; rfl

end DD
