/-
  DDProofs.LexAll — the lexer reads back EVERY spelling of every token string.

  `Tok.spellings t` lists the texts of a token as the regenerated tables give them (every
  row of `Gen.spellings` whose token is `t`, every reserved word of `Gen.reserved`, the
  name / the digits themselves).  A `Layout` chooses, for each token of a token string, one
  of its spellings and the blank material (spaces, tabs, newlines, `(* … *)` comments,
  `\* …` line comments) that follows it.  `tokenize (spellWith L toks) = toks` whenever
  `layoutOk L toks`: the only demand on adjacent texts is `clash` (maximal munch), a
  decidable predicate on the text of a token and the ONE character that follows it.
-/
import DDProofs.LexProofs
namespace DD

/-! ### spellings of a token, from the regenerated tables -/

/-- the rows of `Gen.spellings` that lex to the token `t` -/
def rowSpellings (t : Tok) : List String :=
  (Gen.spellings.filter fun r => tokOfRow r.2.1 r.2.2 == some t).map (·.1)

/-- the reserved words of `Gen.reserved` with token type `ty` -/
def kwSpellings (ty : String) : List String :=
  (Gen.reserved.filter fun r => r.2 == ty).map (·.1)

/-- all texts of a token -/
def Tok.spellings : Tok → List String
  | .name s => [s]
  | .number d => [d]
  | .bad => []
  | .ite => kwSpellings "ITE"
  | .tt => kwSpellings "TRUE"
  | .ff => kwSpellings "FALSE"
  | .lparen => rowSpellings .lparen
  | .rparen => rowSpellings .rparen
  | .comma => rowSpellings .comma
  | .colon => rowSpellings .colon
  | .div => rowSpellings .div
  | .at => rowSpellings .at
  | .not => rowSpellings .not
  | .forall_ => rowSpellings .forall_
  | .exists_ => rowSpellings .exists_
  | .rename => rowSpellings .rename
  | .op o => rowSpellings (.op o)

/-- the alternatives the current source offers (re-checked on the regenerated tables) -/
theorem spellings_table :
    Tok.spellings (.op .and) = ["&&", "&", "/\\"] ∧ Tok.spellings (.op .or) = ["||", "|", "\\/"] ∧
    Tok.spellings .not = ["~", "!"] ∧ Tok.spellings (.op .implies) = ["=>", "->"] ∧
    Tok.spellings (.op .equiv) = ["<=>", "<->"] ∧ Tok.spellings (.op .xorHash) = ["#"] ∧
    Tok.spellings (.op .xorCaret) = ["^"] ∧ Tok.spellings (.op .minus) = ["-"] ∧
    Tok.spellings (.op .equals) = ["="] ∧ Tok.spellings .tt = ["TRUE", "True"] ∧
    Tok.spellings .ff = ["FALSE", "False"] ∧ Tok.spellings .ite = ["ite"] ∧
    Tok.spellings .forall_ = ["\\A"] ∧ Tok.spellings .exists_ = ["\\E"] ∧ Tok.spellings .rename = ["\\S"] ∧
    Tok.spellings .lparen = ["("] ∧ Tok.spellings .rparen = [")"] ∧ Tok.spellings .comma = [","] ∧
    Tok.spellings .colon = [":"] ∧ Tok.spellings .div = ["/"] ∧ Tok.spellings .at = ["@"] := by
  decide

/-- every row of the spelling table and every reserved word is a spelling of some token -/
theorem spellings_complete :
    (Gen.spellings.all fun r => match tokOfRow r.2.1 r.2.2 with
      | some t => t.spellings.contains r.1 | none => false) = true ∧
    (Gen.reserved.all fun r => (nameTok r.1).spellings.contains r.1) = true := by
  decide

/-! ### lexically well-formed tokens, with the character classes of the lexer itself -/

/-- `[A-Za-z_][A-Za-z0-9_']*` -/
def wordOk : List Char → Bool
  | c :: cs => isNameStart c && cs.all isNameChar
  | [] => false

/-- `\d+` (any Unicode decimal digits, as the `str` pattern matches them) -/
def digitsOk (d : List Char) : Bool := !d.isEmpty && d.all isDigitU

/-- tokens that have a text: a NAME that is not a reserved word, a nonempty digit string -/
def Tok.lexOk : Tok → Bool
  | .name s => wordOk s.toList && (Gen.reserved.lookup s).isNone
  | .number d => digitsOk d.toList
  | .bad => false
  | _ => true

/-! ### maximal munch: when the text of a token and the next character clash -/

/-- the characters that extend the text `a` towards a longer row of the spelling table -/
def extChars (a : List Char) : List Char :=
  Gen.spellings.filterMap fun r =>
    if isPrefixChars a r.1.toList then r.1.toList[a.length]? else none

/-- the token text `a` must not be followed directly by the character `y`:
a NAME would go on, a NUMBER would go on, `(` would open a comment, or a longer
operator spelling would be matched -/
def clash (a : List Char) (y : Char) : Bool :=
  match a with
  | [] => true
  | c :: _ =>
    if isNameStart c then isNameChar y
    else if isDigitU c then isDigitU y
    else (a == ['('] && y == '*') || (extChars a).contains y

/-- the operator spellings that can be extended, with the extending character: exactly these
five (and `(` before `*`) need care when nothing separates them from what follows -/
theorem clash_table :
    (Gen.spellings.filterMap fun r =>
      if (extChars r.1.toList).isEmpty then none else some (r.1, extChars r.1.toList)) =
    [("&", ['&']), ("/", ['\\']), ("=", ['>']), ("-", ['>']), ("|", ['|'])] := by decide

/-- `extChars` is exact for the current table: a spelling that extends another one is longer by
exactly one character (so "a longer row matches" and "the next character extends" coincide) -/
theorem ext_by_one :
    (Gen.spellings.all fun r1 => Gen.spellings.all fun r2 =>
      !(isPrefixChars r1.1.toList r2.1.toList && r1.1 != r2.1) ||
      r2.1.toList.length == r1.1.toList.length + 1) = true := by decide

/-! ### blanks -/

/-- one element of the material between tokens -/
inductive Blank
  | sp | tab | nl
  /-- `(*` body `*)` -/
  | block (body : List Char)
  /-- `\*` body, with the newline that ends it -/
  | line (body : List Char)
deriving Repr, DecidableEq

/-- the body of a `(* *)` comment contains `*)` -/
def hasClose : List Char → Bool
  | '*' :: ')' :: _ => true
  | _ :: cs => hasClose cs
  | [] => false

def Blank.chars : Blank → List Char
  | .sp => [' ']
  | .tab => ['\t']
  | .nl => ['\n']
  | .block b => '(' :: '*' :: (b ++ ['*', ')'])
  | .line b => '\\' :: '*' :: (b ++ ['\n'])

def Blank.first : Blank → Char
  | .sp => ' ' | .tab => '\t' | .nl => '\n' | .block _ => '(' | .line _ => '\\'

/-- the comment body does not end the comment early -/
def Blank.ok : Blank → Bool
  | .block b => !hasClose b
  | .line b => !b.contains '\n'
  | _ => true

def gapChars (g : List Blank) : List Char := g.flatMap Blank.chars

/-- a last `\* …` comment that runs to the end of the text (no newline) -/
def finChars : Option (List Char) → List Char
  | none => []
  | some b => '\\' :: '*' :: b

def finOk : Option (List Char) → Bool
  | none => true
  | some b => !b.contains '\n'

/-! ### pieces: a token, the spelling chosen for it, the blanks after it -/

structure Piece where
  tok : Tok
  text : String
  gap : List Blank
deriving Repr, DecidableEq

/-- the pieces, followed by the tail `tl` of the text -/
def piecesChars (tl : List Char) : List Piece → List Char
  | [] => tl
  | p :: ps => p.text.toList ++ (gapChars p.gap ++ piecesChars tl ps)

/-- the first character after a token text (`nx` = first character of the tail) -/
def nextChar (nx : Option Char) : List Blank → List Piece → Option Char
  | b :: _, _ => some b.first
  | [], p :: _ => p.text.toList.head?
  | [], [] => nx

def sepOk (a : List Char) : Option Char → Bool
  | none => true
  | some y => !clash a y

/-- every token has a text, the text is one of its spellings, the comments are closed where
they are meant to be, and no token text clashes with the character after it -/
def piecesOk (nx : Option Char) : List Piece → Bool
  | [] => true
  | p :: ps =>
    p.tok.lexOk && p.tok.spellings.contains p.text && p.gap.all Blank.ok &&
      sepOk p.text.toList (nextChar nx p.gap ps) && piecesOk nx ps


/-! ### character classes -/

theorem nameStart_not_ignore {c : Char} (h : isNameStart c = true) :
    Gen.lexIgnore.toList.contains c = false := by
  rw [lexIgnore_chars]
  simp only [List.contains_eq_mem, List.mem_cons, List.not_mem_nil, or_false, decide_eq_false_iff_not, not_or]
  constructor <;> (rintro rfl; exact absurd h (by decide))

theorem isDigitU_range {c : Char} (h : isDigitU c = true) :
    (48 ≤ c.toNat ∧ c.toNat < 58) ∨ 128 ≤ c.toNat := by
  simp only [isDigitU, digitVal?, Option.isSome_map] at h
  obtain ⟨z, hz⟩ := Option.isSome_iff_exists.mp h
  have hm := List.mem_of_find?_eq_some hz
  have hp := List.find?_some hz
  simp only [Bool.and_eq_true, decide_eq_true_eq] at hp
  have hall : ∀ z ∈ Gen.decimalZeros, z = 48 ∨ 128 ≤ z := by decide
  rcases hall z hm with h48 | hge
  · left; omega
  · right; omega

theorem char_isAlpha_lt {c : Char} (h : c.isAlpha = true) : 65 ≤ c.toNat ∧ c.toNat < 128 := by
  simp only [Char.isAlpha, Char.isUpper, Char.isLower, Bool.or_eq_true, Bool.and_eq_true, decide_eq_true_eq] at h
  simp only [Char.toNat]
  rcases h with ⟨h1, h2⟩ | ⟨h1, h2⟩
  · have := UInt32.le_iff_toNat_le.mp h1
    have := UInt32.le_iff_toNat_le.mp h2
    simp at *
    omega
  · have := UInt32.le_iff_toNat_le.mp h1
    have := UInt32.le_iff_toNat_le.mp h2
    simp at *
    omega

theorem nameStart_nameChar {c : Char} (h : isNameStart c = true) : isNameChar c = true := by
  simp only [isNameStart, isNameChar, Char.isAlphanum, Bool.or_eq_true, beq_iff_eq] at h ⊢
  rcases h with h | h
  · exact Or.inl (Or.inl (Or.inl h))
  · exact Or.inl (Or.inr h)

theorem digit_not_nameStart {c : Char} (h : isDigitU c = true) : isNameStart c = false := by
  have hr := isDigitU_range h
  cases hs : isNameStart c with
  | false => rfl
  | true =>
    simp only [isNameStart, Bool.or_eq_true, beq_iff_eq] at hs
    rcases hs with hs | rfl
    · have := char_isAlpha_lt hs; omega
    · exact absurd hr (by decide)

/-- first characters of the operator spellings: ASCII, not digits -/
theorem spell_first_plain :
    (Gen.spellings.all fun r => match r.1.toList with
      | x :: _ => (decide (x.toNat < 48) || decide (58 ≤ x.toNat)) && decide (x.toNat < 128)
      | [] => false) = true := by decide

theorem digit_no_spelling {c : Char} (h : isDigitU c = true) (cs : List Char) :
    longestSpelling (c :: cs) Gen.spellings none = none := by
  apply longestSpelling_none
  have hr := isDigitU_range h
  rw [List.all_eq_true]
  intro r hr'
  have := List.all_eq_true.mp spell_first_plain r hr'
  split at this
  · rename_i x xs hx
    rw [hx]
    simp only [Bool.and_eq_true, Bool.or_eq_true, decide_eq_true_eq] at this
    simp only [bne_iff_ne, ne_eq]
    rintro rfl
    omega
  · simp at this

theorem digit_facts {c : Char} (h : isDigitU c = true) :
    Gen.lexIgnore.toList.contains c = false ∧ (c == '\\') = false ∧ (c == '\n') = false ∧ (c == '(') = false := by
  have hr := isDigitU_range h
  rw [lexIgnore_chars]
  simp only [List.contains_eq_mem, List.mem_cons, List.not_mem_nil, or_false, decide_eq_false_iff_not, not_or,
    beq_eq_false_iff_ne, ne_eq]
  refine ⟨⟨?_, ?_⟩, ?_, ?_, ?_⟩ <;> (rintro rfl; exact absurd hr (by decide))

theorem tokenizeF_wordG (f : Nat) (c : Char) (cs : List Char) (hc : isNameStart c = true) :
    tokenizeF (f+1) (c :: cs) =
      nameTok (String.ofList ((c :: cs).takeWhile isNameChar)) ::
        tokenizeF f ((c :: cs).dropWhile isNameChar) := by
  have h2 := nameStart_not_ignore hc
  rw [tokenizeF]
  simp only [hc, h2, Bool.false_eq_true, if_false, if_true]

theorem tokenizeF_numberG (f : Nat) (c : Char) (cs : List Char) (hc : isDigitU c = true) :
    tokenizeF (f+1) (c :: cs) =
      .number (String.ofList ((c :: cs).takeWhile isDigitU)) ::
        tokenizeF f ((c :: cs).dropWhile isDigitU) := by
  obtain ⟨h1, h3, h4, h5⟩ := digit_facts hc
  have h2 := digit_not_nameStart hc
  rw [tokenizeF]
  simp only [h1, h2, h3, h4, h5, hc, digit_no_spelling hc cs, Bool.false_and,
    Bool.false_eq_true, if_false, if_true]

/-- what follows does not continue a run of `p`-characters -/
def stopsRun (p : Char → Bool) : List Char → Prop
  | [] => True
  | y :: _ => p y = false

theorem takeWhile_run (p : Char → Bool) (w k : List Char) (hw : ∀ x ∈ w, p x = true) (hk : stopsRun p k) :
    (w ++ k).takeWhile p = w ∧ (w ++ k).dropWhile p = k := by
  rw [List.takeWhile_append_of_pos hw, List.dropWhile_append_of_pos hw]
  cases k with
  | nil => simp
  | cons y k' => simp only [stopsRun] at hk; simp [List.takeWhile, List.dropWhile, hk]

theorem step_wordG (w : List Char) (hw : wordOk w = true) (f : Nat) (k : List Char) (hk : stopsRun isNameChar k) :
    tokenizeF (f+1) (w ++ k) = nameTok (String.ofList w) :: tokenizeF f k := by
  cases w with
  | nil => simp [wordOk] at hw
  | cons c cs =>
    simp only [wordOk, Bool.and_eq_true, List.all_eq_true] at hw
    have hall : ∀ x ∈ c :: cs, isNameChar x = true := by
      intro x hx
      rcases List.mem_cons.mp hx with rfl | hx
      · exact nameStart_nameChar hw.1
      · exact hw.2 x hx
    obtain ⟨ht, hd⟩ := takeWhile_run isNameChar (c :: cs) k hall hk
    rw [List.cons_append] at ht hd ⊢
    rw [tokenizeF_wordG f c _ hw.1, ht, hd]

theorem step_numberG (d : List Char) (hd : digitsOk d = true) (f : Nat) (k : List Char) (hk : stopsRun isDigitU k) :
    tokenizeF (f+1) (d ++ k) = .number (String.ofList d) :: tokenizeF f k := by
  cases d with
  | nil => simp [digitsOk] at hd
  | cons c cs =>
    simp only [digitsOk, List.isEmpty_cons, Bool.not_false, Bool.true_and, List.all_eq_true] at hd
    obtain ⟨ht, hdr⟩ := takeWhile_run isDigitU (c :: cs) k hd hk
    rw [List.cons_append] at ht hdr ⊢
    rw [tokenizeF_numberG f c _ (hd c (by simp)), ht, hdr]


/-! ### longest match over the spelling table -/

theorem isPrefixChars_append (a k : List Char) : isPrefixChars a (a ++ k) = true := by
  induction a with
  | nil => simp [isPrefixChars]
  | cons x a ih => simp [isPrefixChars, ih]

theorem isPrefixChars_length {l cs : List Char} (h : isPrefixChars l cs = true) : l.length ≤ cs.length := by
  induction l generalizing cs with
  | nil => simp
  | cons x l ih =>
    cases cs with
    | nil => simp [isPrefixChars] at h
    | cons y cs =>
      simp only [isPrefixChars, Bool.and_eq_true] at h
      have := ih h.2
      simp; omega

theorem isPrefixChars_same_len {l l' cs : List Char} (h : isPrefixChars l cs = true)
    (h' : isPrefixChars l' cs = true) (hl : l.length = l'.length) : l = l' := by
  induction l generalizing l' cs with
  | nil => cases l' with
    | nil => rfl
    | cons _ _ => simp at hl
  | cons x l ih =>
    cases l' with
    | nil => simp at hl
    | cons x' l' =>
      cases cs with
      | nil => simp [isPrefixChars] at h
      | cons y cs =>
        simp only [isPrefixChars, Bool.and_eq_true, beq_iff_eq] at h h'
        rw [h.1, h'.1, ih h.2 h'.2 (by simpa using hl)]

/-- a row longer than `a` that matches `a ++ y :: k` starts with `a ++ [y]` -/
theorem prefix_ext {s a : List Char} {y : Char} {k : List Char}
    (h : isPrefixChars s (a ++ y :: k) = true) (hl : a.length < s.length) :
    isPrefixChars a s = true ∧ s[a.length]? = some y := by
  induction a generalizing s with
  | nil =>
    cases s with
    | nil => simp at hl
    | cons x s =>
      simp only [List.nil_append, isPrefixChars, Bool.and_eq_true, beq_iff_eq] at h
      simp [isPrefixChars, h.1]
  | cons b a ih =>
    cases s with
    | nil => simp at hl
    | cons x s =>
      simp only [List.cons_append, isPrefixChars, Bool.and_eq_true, beq_iff_eq] at h
      have := ih h.2 (by simpa using hl)
      simp [isPrefixChars, h.1, this.1, this.2]

theorem longestSpelling_keep (cs : List Char) (row : String × String) (n : Nat) :
    ∀ tbl : List (String × String × String),
    (∀ r ∈ tbl, isPrefixChars r.1.toList cs = true → r.1.toList.length ≤ n) →
    longestSpelling cs tbl (some (row, n)) = some (row, n) := by
  intro tbl
  induction tbl with
  | nil => intro _; rfl
  | cons r tbl ih =>
    intro h
    obtain ⟨sp, ty, val⟩ := r
    simp only [longestSpelling]
    by_cases hp : isPrefixChars sp.toList cs = true
    · have := h (sp, ty, val) (by simp) hp
      simp only [hp, if_true]
      rw [if_neg (by simp at this ⊢; omega)]
      exact ih (fun r hr => h r (by simp [hr]))
    · simp only [hp, Bool.false_eq_true, if_false]
      exact ih (fun r hr => h r (by simp [hr]))

def bestBelow (n : Nat) : Option ((String × String) × Nat) → Prop
  | none => True
  | some (_, m) => m < n

theorem longestSpelling_find (cs : List Char) (row : String × String) (n : Nat) :
    ∀ (tbl : List (String × String × String)) (best : Option ((String × String) × Nat)),
    (∀ r ∈ tbl, isPrefixChars r.1.toList cs = true →
      r.1.toList.length ≤ n ∧ (r.1.toList.length = n → (r.2.1, r.2.2) = row)) →
    (∃ r ∈ tbl, isPrefixChars r.1.toList cs = true ∧ r.1.toList.length = n) →
    bestBelow n best →
    longestSpelling cs tbl best = some (row, n) := by
  intro tbl
  induction tbl with
  | nil => intro best _ hex _; obtain ⟨r, hr, _⟩ := hex; simp at hr
  | cons r tbl ih =>
    intro best h hex hb
    obtain ⟨sp, ty, val⟩ := r
    have hrest : ∀ r ∈ tbl, isPrefixChars r.1.toList cs = true →
        r.1.toList.length ≤ n ∧ (r.1.toList.length = n → (r.2.1, r.2.2) = row) :=
      fun r hr => h r (by simp [hr])
    simp only [longestSpelling]
    by_cases hp : isPrefixChars sp.toList cs = true
    · obtain ⟨hle, heq⟩ := h (sp, ty, val) (by simp) hp
      have hle' : sp.toList.length ≤ n := hle
      simp only [hp, if_true]
      have hex' : sp.toList.length < n →
          ∃ r ∈ tbl, isPrefixChars r.1.toList cs = true ∧ r.1.toList.length = n := by
        intro hlt
        obtain ⟨r0, hr0, hp0, hl0⟩ := hex
        rcases List.mem_cons.mp hr0 with rfl | hr0
        · have : sp.toList.length = n := hl0
          omega
        · exact ⟨r0, hr0, hp0, hl0⟩
      have hkeep := longestSpelling_keep cs row n tbl (fun r hr hpr => (hrest r hr hpr).1)
      cases best with
      | none =>
        by_cases hn : sp.toList.length = n
        · have hrow : (ty, val) = row := heq hn
          simp only [hrow, hn]
          exact hkeep
        · exact ih _ hrest (hex' (by omega)) (by simp only [bestBelow]; omega)
      | some b =>
        obtain ⟨rw', m⟩ := b
        simp only [bestBelow] at hb
        by_cases hm : m < sp.toList.length
        · simp only [hm, if_true]
          by_cases hn : sp.toList.length = n
          · have hrow : (ty, val) = row := heq hn
            simp only [hrow, hn]
            exact hkeep
          · exact ih _ hrest (hex' (by omega)) (by simp only [bestBelow]; omega)
        · simp only [hm, if_false]
          exact ih _ hrest (hex' (by omega)) (by simp only [bestBelow]; omega)
    · simp only [hp, Bool.false_eq_true, if_false]
      apply ih _ hrest
      · obtain ⟨r0, hr0, hp0, hl0⟩ := hex
        rcases List.mem_cons.mp hr0 with rfl | hr0
        · exact absurd hp0 hp
        · exact ⟨r0, hr0, hp0, hl0⟩
      · exact hb

/-! ### one token -/

/-- shape of the rows of the spelling table: the first character is neither ignored nor the
start of a NAME / NUMBER / newline; after `\` comes a character other than `*`; `(` stands alone -/
def rowShapeOk (r : String × String × String) : Bool :=
  match r.1.toList with
  | c :: rest =>
    !Gen.lexIgnore.toList.contains c && !isNameStart c && !isDigitU c && c != '\n' &&
      (c != '\\' || (match rest with | y :: _ => y != '*' | [] => false)) &&
      (c != '(' || rest.isEmpty)
  | [] => false

theorem rows_shape : Gen.spellings.all rowShapeOk = true := by decide

theorem spell_functional : ∀ r ∈ Gen.spellings, ∀ r' ∈ Gen.spellings, r.1 = r'.1 → r = r' := by decide

theorem clash_row {r : String × String × String} (hr : r ∈ Gen.spellings) (y : Char) :
    clash r.1.toList y = ((r.1.toList == ['('] && y == '*') || (extChars r.1.toList).contains y) := by
  have hs := List.all_eq_true.mp rows_shape r hr
  unfold rowShapeOk at hs
  split at hs
  · rename_i c rest hc
    simp only [Bool.and_eq_true, Bool.not_eq_true', bne_iff_ne, ne_eq, Bool.or_eq_true] at hs
    obtain ⟨⟨⟨⟨⟨h1, h2⟩, h3⟩, h4⟩, h5⟩, h6⟩ := hs
    rw [hc]
    simp only [clash, h2, h3, Bool.false_eq_true, if_false]
  · simp at hs

theorem mem_extChars {a s : List Char} {y : Char} {r : String × String × String} (hr : r ∈ Gen.spellings)
    (hs : r.1.toList = s) (hp : isPrefixChars a s = true) (hy : s[a.length]? = some y) : y ∈ extChars a := by
  simp only [extChars, List.mem_filterMap]
  refine ⟨r, hr, ?_⟩
  rw [hs, if_pos hp, hy]

/-- one step of the tokenizer on a row of the spelling table followed by `k` -/
theorem step_rowG {r : String × String × String} (hr : r ∈ Gen.spellings) (t : Tok)
    (ht : tokOfRow r.2.1 r.2.2 = some t) (f : Nat) (k : List Char)
    (hsep : sepOk r.1.toList k.head? = true) :
    tokenizeF (f+1) (r.1.toList ++ k) = t :: tokenizeF f k := by
  -- what `sepOk` says
  have hcl : ∀ y k', k = y :: k' → ¬ (r.1.toList = ['('] ∧ y = '*') ∧ y ∉ extChars r.1.toList := by
    intro y k' hk
    subst hk
    simp only [List.head?_cons, sepOk, Bool.not_eq_true', clash_row hr, Bool.or_eq_false_iff,
      Bool.and_eq_false_iff, beq_eq_false_iff_ne, ne_eq] at hsep
    refine ⟨fun ⟨h1, h2⟩ => ?_, ?_⟩
    · rcases hsep.1 with h | h
      · exact h h1
      · exact h h2
    · have := hsep.2
      simpa using this
  -- longest match
  have hls : longestSpelling (r.1.toList ++ k) Gen.spellings none =
      some ((r.2.1, r.2.2), r.1.toList.length) := by
    apply longestSpelling_find _ _ _ Gen.spellings none
    · intro r' hr' hp'
      have hle : r'.1.toList.length ≤ r.1.toList.length := by
        by_cases hlt : r.1.toList.length < r'.1.toList.length
        · cases k with
          | nil =>
            have := isPrefixChars_length hp'
            simp at this; omega
          | cons y k' =>
            obtain ⟨hp, hy⟩ := prefix_ext hp' hlt
            exact absurd (mem_extChars hr' rfl hp hy) (hcl y k' rfl).2
        · omega
      refine ⟨hle, fun heq => ?_⟩
      have e := isPrefixChars_same_len hp' (isPrefixChars_append _ _) heq
      have e' : r'.1 = r.1 := by
        rw [← String.ofList_toList (s := r'.1), ← String.ofList_toList (s := r.1), e]
      rw [spell_functional r' hr' r hr e']
    · exact ⟨r, hr, isPrefixChars_append _ _, rfl⟩
    · trivial
  -- the earlier rules do not apply
  have hs := List.all_eq_true.mp rows_shape r hr
  unfold rowShapeOk at hs
  split at hs
  · rename_i c rest hc
    simp only [Bool.and_eq_true, Bool.not_eq_true', bne_iff_ne, ne_eq, Bool.or_eq_true] at hs
    obtain ⟨⟨⟨⟨⟨h1, h2⟩, h3⟩, h4⟩, h5⟩, h6⟩ := hs
    rw [hc] at hls hcl ⊢
    have hpre : preOk (c :: (rest ++ k)) = true := by
      simp only [preOk, h1, h2, Bool.not_false, Bool.true_and, Bool.and_eq_true, Bool.not_eq_true',
        Bool.and_eq_false_iff, beq_eq_false_iff_ne, ne_eq]
      refine ⟨⟨?_, h4⟩, ?_⟩
      · by_cases hb : c = '\\'
        · right
          rcases h5 with h5 | h5
          · exact absurd hb h5
          · cases rest with
            | nil => simp at h5
            | cons y rest' => simp at h5 ⊢; exact h5
        · left; exact hb
      · by_cases hb : c = '('
        · right
          rcases h6 with h6 | h6
          · exact absurd hb h6
          · simp only [List.isEmpty_iff] at h6
            subst h6 hb
            cases k with
            | nil => simp
            | cons y k' =>
              have := (hcl y k' rfl).1
              simp at this ⊢
              exact this
        · left; exact hb
    have := tokenizeF_spelling f c (rest ++ k) _ _ _ t hpre hls ht
    simpa using this
  · simp at hs

theorem mem_rowSpellings {t : Tok} {sp : String} (h : sp ∈ rowSpellings t) :
    ∃ r ∈ Gen.spellings, tokOfRow r.2.1 r.2.2 = some t ∧ r.1 = sp := by
  simp only [rowSpellings, List.mem_map, List.mem_filter, beq_iff_eq] at h
  obtain ⟨r, ⟨hr, ht⟩, hs⟩ := h
  exact ⟨r, hr, ht, hs⟩

theorem reserved_ok :
    (Gen.reserved.all fun r => wordOk r.1.toList && Gen.reserved.lookup r.1 == some r.2) = true := by decide

theorem mem_kwSpellings {ty sp : String} (h : sp ∈ kwSpellings ty) :
    wordOk sp.toList = true ∧ Gen.reserved.lookup sp = some ty := by
  simp only [kwSpellings, List.mem_map, List.mem_filter, beq_iff_eq] at h
  obtain ⟨r, ⟨hr, ht⟩, hs⟩ := h
  have := List.all_eq_true.mp reserved_ok r hr
  simp only [Bool.and_eq_true, beq_iff_eq] at this
  subst hs ht
  exact this

theorem sepOk_word {w : List Char} (hw : wordOk w = true) {k : List Char} (h : sepOk w k.head? = true) :
    stopsRun isNameChar k := by
  cases w with
  | nil => simp [wordOk] at hw
  | cons c cs =>
    simp only [wordOk, Bool.and_eq_true] at hw
    cases k with
    | nil => trivial
    | cons y k' =>
      simp only [List.head?_cons, sepOk, clash, hw.1, if_true, Bool.not_eq_true'] at h
      exact h

theorem sepOk_digits {d : List Char} (hd : digitsOk d = true) {k : List Char} (h : sepOk d k.head? = true) :
    stopsRun isDigitU k := by
  cases d with
  | nil => simp [digitsOk] at hd
  | cons c cs =>
    simp only [digitsOk, List.isEmpty_cons, Bool.not_false, Bool.true_and, List.all_eq_true] at hd
    have hc := hd c (by simp)
    cases k with
    | nil => trivial
    | cons y k' =>
      simp only [List.head?_cons, sepOk, clash, digit_not_nameStart hc, hc, Bool.false_eq_true, if_false, if_true,
        Bool.not_eq_true'] at h
      exact h

theorem step_kw {ty sp : String} {t : Tok} (h : sp ∈ kwSpellings ty) (hn : ∀ s, Gen.reserved.lookup s = some ty → nameTok s = t)
    (f : Nat) (k : List Char) (hsep : sepOk sp.toList k.head? = true) :
    tokenizeF (f+1) (sp.toList ++ k) = t :: tokenizeF f k := by
  obtain ⟨hw, hl⟩ := mem_kwSpellings h
  rw [step_wordG _ hw f k (sepOk_word hw hsep), String.ofList_toList, hn sp hl]

theorem step_fixedG {t : Tok} {sp : String} (h : sp ∈ rowSpellings t) (f : Nat) (k : List Char)
    (hsep : sepOk sp.toList k.head? = true) :
    tokenizeF (f+1) (sp.toList ++ k) = t :: tokenizeF f k := by
  obtain ⟨r, hr, ht, rfl⟩ := mem_rowSpellings h
  exact step_rowG hr t ht f k hsep

/-- one step of the tokenizer: any spelling of any token, followed by anything that does not clash -/
theorem step_any (t : Tok) (sp : String) (hok : t.lexOk = true) (hsp : sp ∈ t.spellings)
    (f : Nat) (k : List Char) (hsep : sepOk sp.toList k.head? = true) :
    tokenizeF (f+1) (sp.toList ++ k) = t :: tokenizeF f k := by
  cases t with
  | name s =>
    simp only [Tok.spellings, List.mem_singleton] at hsp
    subst hsp
    simp only [Tok.lexOk, Bool.and_eq_true, Option.isNone_iff_eq_none] at hok
    rw [step_wordG _ hok.1 f k (sepOk_word hok.1 hsep), String.ofList_toList]
    simp [nameTok, hok.2]
  | number d =>
    simp only [Tok.spellings, List.mem_singleton] at hsp
    subst hsp
    simp only [Tok.lexOk] at hok
    rw [step_numberG _ hok f k (sepOk_digits hok hsep), String.ofList_toList]
  | bad => simp [Tok.lexOk] at hok
  | ite => exact step_kw hsp (fun s hs => by simp [nameTok, hs]) f k hsep
  | tt => exact step_kw hsp (fun s hs => by simp [nameTok, hs]) f k hsep
  | ff => exact step_kw hsp (fun s hs => by simp [nameTok, hs]) f k hsep
  | op o => exact step_fixedG hsp f k hsep
  | lparen => exact step_fixedG hsp f k hsep
  | rparen => exact step_fixedG hsp f k hsep
  | comma => exact step_fixedG hsp f k hsep
  | colon => exact step_fixedG hsp f k hsep
  | div => exact step_fixedG hsp f k hsep
  | «at» => exact step_fixedG hsp f k hsep
  | not => exact step_fixedG hsp f k hsep
  | forall_ => exact step_fixedG hsp f k hsep
  | exists_ => exact step_fixedG hsp f k hsep
  | rename => exact step_fixedG hsp f k hsep

/-- spellings are not empty -/
theorem spelling_ne_nil (t : Tok) (sp : String) (hok : t.lexOk = true) (hsp : sp ∈ t.spellings) :
    sp.toList ≠ [] := by
  have hrow : ∀ t', sp ∈ rowSpellings t' → sp.toList ≠ [] := by
    intro t' h
    obtain ⟨r, hr, _, rfl⟩ := mem_rowSpellings h
    have hs := List.all_eq_true.mp rows_shape r hr
    unfold rowShapeOk at hs
    split at hs
    · rename_i c rest hc; rw [hc]; simp
    · simp at hs
  have hkw : ∀ ty, sp ∈ kwSpellings ty → sp.toList ≠ [] := by
    intro ty h
    have := (mem_kwSpellings h).1
    intro e; rw [e] at this; simp [wordOk] at this
  cases t with
  | name s =>
    simp only [Tok.spellings, List.mem_singleton] at hsp
    subst hsp
    simp only [Tok.lexOk, Bool.and_eq_true] at hok
    intro e; rw [e] at hok; simp [wordOk] at hok
  | number d =>
    simp only [Tok.spellings, List.mem_singleton] at hsp
    subst hsp
    simp only [Tok.lexOk] at hok
    intro e; rw [e] at hok; simp [digitsOk] at hok
  | bad => simp [Tok.lexOk] at hok
  | ite => exact hkw _ hsp
  | tt => exact hkw _ hsp
  | ff => exact hkw _ hsp
  | op o => exact hrow _ hsp
  | lparen => exact hrow _ hsp
  | rparen => exact hrow _ hsp
  | comma => exact hrow _ hsp
  | colon => exact hrow _ hsp
  | div => exact hrow _ hsp
  | «at» => exact hrow _ hsp
  | not => exact hrow _ hsp
  | forall_ => exact hrow _ hsp
  | exists_ => exact hrow _ hsp
  | rename => exact hrow _ hsp


/-! ### blanks and comments -/

theorem closeComment_body (b k : List Char) (h : hasClose b = false) :
    closeComment (b ++ '*' :: ')' :: k) = some k := by
  fun_induction hasClose b with
  | case1 => simp at h
  | case2 c cs hne ih =>
    rw [List.cons_append, closeComment]
    · exact ih h
    · intro rest hc hcs
      cases cs with
      | nil => simp at hcs
      | cons x xs =>
        simp only [List.cons_append, List.cons.injEq] at hcs
        exact hne xs hc (by rw [hcs.1])
  | case3 => simp [closeComment]

theorem skipLine_body (b k : List Char) (h : b.contains '\n' = false) :
    skipLine (b ++ '\n' :: k) = '\n' :: k := by
  induction b with
  | nil => simp [skipLine]
  | cons c cs ih =>
    simp only [List.contains_cons, Bool.or_eq_false_iff] at h
    have hc : (c == '\n') = false := by
      have := h.1
      rw [Bool.beq_comm] at this
      exact this
    simp only [List.cons_append, skipLine, hc, Bool.false_eq_true, if_false]
    exact ih h.2

theorem skipLine_end (b : List Char) (h : b.contains '\n' = false) : skipLine b = [] := by
  induction b with
  | nil => simp [skipLine]
  | cons c cs ih =>
    simp only [List.contains_cons, Bool.or_eq_false_iff] at h
    have hc : (c == '\n') = false := by
      have := h.1
      rw [Bool.beq_comm] at this
      exact this
    simp only [skipLine, hc, Bool.false_eq_true, if_false]
    exact ih h.2

theorem tokenizeF_tab (f : Nat) (rest : List Char) :
    tokenizeF (f+1) ('\t' :: rest) = tokenizeF f rest := by
  have h : Gen.lexIgnore.toList.contains '\t' = true := by decide
  rw [tokenizeF]
  simp only [h, if_true]

theorem tokenizeF_newline (f : Nat) (rest : List Char) :
    tokenizeF (f+1) ('\n' :: rest) = tokenizeF f rest := by
  have h : Gen.lexIgnore.toList.contains '\n' = false := by decide
  have h2 : isNameStart '\n' = false := by decide
  have h3 : ('\n' == '\\') = false := by decide
  rw [tokenizeF]
  simp only [h, h2, h3, Bool.false_and, Bool.false_eq_true, if_false, beq_self_eq_true, if_true]

/-- `(*` … `*)`: the text up to the first `*)` is dropped, whatever follows -/
theorem tokenizeF_block (f : Nat) (b k : List Char) (hb : hasClose b = false) :
    tokenizeF (f+1) ('(' :: '*' :: (b ++ '*' :: ')' :: k)) = tokenizeF f k := by
  have h : Gen.lexIgnore.toList.contains '(' = false := by decide
  have h2 : isNameStart '(' = false := by decide
  have h3 : ('(' == '\\') = false := by decide
  have h4 : ('(' == '\n') = false := by decide
  rw [tokenizeF]
  simp only [h, h2, h3, h4, Bool.false_and, Bool.false_eq_true, if_false, beq_self_eq_true, List.head?_cons,
    Bool.true_and, if_true, List.tail_cons, closeComment_body b k hb]

/-- `\*` … : the rest of the line is dropped, whatever follows -/
theorem tokenizeF_lineComment (f : Nat) (cs : List Char) :
    tokenizeF (f+1) ('\\' :: '*' :: cs) = tokenizeF f (skipLine ('*' :: cs)) := by
  have h : Gen.lexIgnore.toList.contains '\\' = false := by decide
  have h2 : isNameStart '\\' = false := by decide
  rw [tokenizeF]
  simp only [h, h2, Bool.false_eq_true, if_false, beq_self_eq_true, List.head?_cons, Bool.true_and, if_true]

theorem skipLine_star (cs : List Char) : skipLine ('*' :: cs) = skipLine cs := by
  have : ('*' == '\n') = false := by decide
  simp only [skipLine, this, Bool.false_eq_true, if_false]

theorem star_no_spelling :
    (Gen.spellings.all fun r => match r.1.toList with | x :: _ => x != '*' | [] => false) = true := by decide

/-- the illegal character `*` -/
theorem tokenizeF_star (f : Nat) (cs : List Char) : tokenizeF (f+1) ('*' :: cs) = [.bad] := by
  have h : Gen.lexIgnore.toList.contains '*' = false := by decide
  have h2 : isNameStart '*' = false := by decide
  have h3 : ('*' == '\\') = false := by decide
  have h4 : ('*' == '\n') = false := by decide
  have h5 : ('*' == '(') = false := by decide
  have h6 : isDigitU '*' = false := by decide
  rw [tokenizeF]
  simp only [h, h2, h3, h4, h5, h6, longestSpelling_none '*' cs _ star_no_spelling, Bool.false_and,
    Bool.false_eq_true, if_false]

/-- an unterminated `(*`: the lexer reads `(`, then meets the illegal character `*` -/
theorem tokenizeF_open_comment (f : Nat) (b : List Char) (hb : closeComment b = none) :
    tokenizeF (f+2) ('(' :: '*' :: b) = [.lparen, .bad] := by
  have h : Gen.lexIgnore.toList.contains '(' = false := by decide
  have h2 : isNameStart '(' = false := by decide
  have h3 : ('(' == '\\') = false := by decide
  have h4 : ('(' == '\n') = false := by decide
  have hs := List.all_eq_true.mp singles_ok ('(', Tok.lparen) (by decide)
  simp only [Bool.and_eq_true, Bool.not_eq_true', beq_iff_eq] at hs
  have hl := longestSpelling_single '(' ('*' :: b) _ _ hs.1.1.2 hs.1.2
  have ht : tokOfRow (tokRowOf Tok.lparen).1 (tokRowOf Tok.lparen).2 = some Tok.lparen := hs.2
  rw [tokenizeF]
  simp only [h, h2, h3, h4, Bool.false_and, Bool.false_eq_true, if_false, beq_self_eq_true, List.head?_cons,
    Bool.true_and, if_true, List.tail_cons, hb, hl, ht, List.drop_succ_cons, List.drop_zero, tokenizeF_star]



/-! ### the round trip -/

theorem step_blank (g : Blank) (hg : g.ok = true) (k : List Char) (res : List Tok) (f : Nat)
    (hf : (g.chars ++ k).length < f) (hk : ∀ f', k.length < f' → tokenizeF f' k = res) :
    tokenizeF f (g.chars ++ k) = res := by
  obtain ⟨f0, rfl⟩ := fuel_succ hf
  cases g with
  | sp =>
    simp only [Blank.chars, List.cons_append, List.nil_append, List.length_cons] at hf ⊢
    rw [tokenizeF_space]; exact hk _ (by omega)
  | tab =>
    simp only [Blank.chars, List.cons_append, List.nil_append, List.length_cons] at hf ⊢
    rw [tokenizeF_tab]; exact hk _ (by omega)
  | nl =>
    simp only [Blank.chars, List.cons_append, List.nil_append, List.length_cons] at hf ⊢
    rw [tokenizeF_newline]; exact hk _ (by omega)
  | block b =>
    simp only [Blank.ok, Bool.not_eq_true'] at hg
    simp only [Blank.chars, List.cons_append, List.append_assoc, List.nil_append, List.length_cons,
      List.length_append] at hf ⊢
    rw [tokenizeF_block _ _ _ hg]; exact hk _ (by omega)
  | line b =>
    simp only [Blank.ok, Bool.not_eq_true'] at hg
    simp only [Blank.chars, List.cons_append, List.append_assoc, List.nil_append, List.length_cons,
      List.length_append] at hf ⊢
    rw [tokenizeF_lineComment, skipLine_star, skipLine_body _ _ hg]
    obtain ⟨f1, rfl⟩ : ∃ f1, f0 = f1 + 1 := ⟨f0 - 1, by omega⟩
    rw [tokenizeF_newline]; exact hk _ (by omega)

theorem step_gap : ∀ (g : List Blank), g.all Blank.ok = true → ∀ (k : List Char) (res : List Tok) (f : Nat),
    (gapChars g ++ k).length < f → (∀ f', k.length < f' → tokenizeF f' k = res) →
    tokenizeF f (gapChars g ++ k) = res
  | [], _, k, res, f, hf, hk => by simpa [gapChars] using hk f (by simpa [gapChars] using hf)
  | b :: g, hg, k, res, f, hf, hk => by
    simp only [List.all_cons, Bool.and_eq_true] at hg
    have e : gapChars (b :: g) ++ k = b.chars ++ (gapChars g ++ k) := by simp [gapChars]
    rw [e] at hf ⊢
    apply step_blank b hg.1 _ res f hf
    intro f' hf'
    exact step_gap g hg.2 k res f' hf' hk

theorem tokenizeF_fin (fin : Option (List Char)) (h : finOk fin = true) (f : Nat)
    (hf : (finChars fin).length < f) : tokenizeF f (finChars fin) = [] := by
  obtain ⟨f0, rfl⟩ := fuel_succ hf
  cases fin with
  | none => simp [finChars, tokenizeF]
  | some b =>
    simp only [finOk, Bool.not_eq_true'] at h
    simp only [finChars, List.length_cons] at hf ⊢
    rw [tokenizeF_lineComment, skipLine_star, skipLine_end _ h]
    obtain ⟨f1, rfl⟩ : ∃ f1, f0 = f1 + 1 := ⟨f0 - 1, by omega⟩
    simp [tokenizeF]

theorem Blank.chars_head (b : Blank) (k : List Char) : (b.chars ++ k).head? = some b.first := by
  cases b <;> simp [Blank.chars, Blank.first]

/-- `nextChar` is the first character of what follows the token text -/
theorem head_following (tl : List Char) (g : List Blank) (ps : List Piece)
    (h : piecesOk tl.head? ps = true) :
    (gapChars g ++ piecesChars tl ps).head? = nextChar tl.head? g ps := by
  cases g with
  | cons b g => simp only [gapChars, List.flatMap_cons, List.append_assoc, Blank.chars_head, nextChar]
  | nil =>
    cases ps with
    | nil => simp [gapChars, piecesChars, nextChar]
    | cons p ps =>
      simp only [piecesOk, Bool.and_eq_true, List.contains_eq_mem, decide_eq_true_eq] at h
      have hne := spelling_ne_nil p.tok p.text h.1.1.1.1 h.1.1.1.2
      cases hp : p.text.toList with
      | nil => exact absurd hp hne
      | cons c cs => simp [gapChars, piecesChars, nextChar, hp]

/-- the tokenizer on the pieces followed by any tail `tl` on which it answers `res` -/
theorem tokenizeF_pieces (tl : List Char) (res : List Tok)
    (htl : ∀ f', tl.length < f' → tokenizeF f' tl = res) :
    ∀ (ps : List Piece), piecesOk tl.head? ps = true →
    ∀ f, (piecesChars tl ps).length < f → tokenizeF f (piecesChars tl ps) = ps.map (·.tok) ++ res
  | [], _, f, hf => by simpa [piecesChars] using htl f (by simpa [piecesChars] using hf)
  | p :: ps, h, f, hf => by
    simp only [piecesOk, Bool.and_eq_true, List.contains_eq_mem, decide_eq_true_eq] at h
    obtain ⟨⟨⟨⟨hok, hsp⟩, hgap⟩, hsep⟩, hrest⟩ := h
    obtain ⟨f0, rfl⟩ := fuel_succ hf
    have hne := spelling_ne_nil p.tok p.text hok hsp
    have hlen : 0 < p.text.toList.length := List.length_pos_iff.mpr hne
    simp only [piecesChars, List.length_append] at hf ⊢
    rw [← head_following tl p.gap ps hrest] at hsep
    rw [step_any p.tok p.text hok hsp f0 _ hsep]
    simp only [List.map_cons, List.cons_append, List.cons.injEq, true_and]
    apply step_gap p.gap hgap _ _ f0 (by simp only [List.length_append]; omega)
    intro f' hf'
    exact tokenizeF_pieces tl res htl ps hrest f' hf'

/-- the text of a layout: leading blanks, then the pieces, then the tail -/
def layoutChars (lead : List Blank) (ps : List Piece) (tl : List Char) : List Char :=
  gapChars lead ++ piecesChars tl ps

theorem tokenize_layoutChars (lead : List Blank) (ps : List Piece) (tl : List Char) (res : List Tok)
    (hl : lead.all Blank.ok = true) (h : piecesOk tl.head? ps = true)
    (htl : ∀ f', tl.length < f' → tokenizeF f' tl = res) :
    tokenize (String.ofList (layoutChars lead ps tl)) = ps.map (·.tok) ++ res := by
  unfold tokenize
  rw [String.toList_ofList, ← String.length_toList, String.toList_ofList]
  apply step_gap lead hl _ _ _ (Nat.lt_succ_self _)
  intro f' hf'
  exact tokenizeF_pieces tl res htl ps h f' hf'

/-- LEXER ROUND TRIP: every spelling of every token, any blanks and comments before, between
and after the tokens (and a last `\* …` comment without newline); the only side condition is
`sepOk` (in `piecesOk`) on the character that follows each token text -/
theorem tokenize_pieces (lead : List Blank) (ps : List Piece) (fin : Option (List Char))
    (hl : lead.all Blank.ok = true) (hfin : finOk fin = true)
    (h : piecesOk (finChars fin).head? ps = true) :
    tokenize (String.ofList (layoutChars lead ps (finChars fin))) = ps.map (·.tok) := by
  have := tokenize_layoutChars lead ps (finChars fin) [] hl h (fun f' hf' => tokenizeF_fin fin hfin f' hf')
  simpa using this

/-- UNTERMINATED COMMENT: after any well-spelled tokens, `(*` without a closing `*)` is read as
`(` followed by an illegal character (the lexer raises on `*`) -/
theorem tokenize_open_comment (lead : List Blank) (ps : List Piece) (b : List Char)
    (hl : lead.all Blank.ok = true) (h : piecesOk (some '(') ps = true) (hb : closeComment b = none) :
    tokenize (String.ofList (layoutChars lead ps ('(' :: '*' :: b))) = ps.map (·.tok) ++ [.lparen, .bad] := by
  apply tokenize_layoutChars lead ps ('(' :: '*' :: b) _ hl h
  intro f' hf'
  obtain ⟨f1, rfl⟩ : ∃ f1, f' = f1 + 2 := ⟨f' - 2, by simp at hf'; omega⟩
  exact tokenizeF_open_comment f1 b hb


end DD
