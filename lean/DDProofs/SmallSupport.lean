/-
  DDProofs.SmallSupport — the structural support (`InSupp`, used by C03 / C04 / C11 / C13)
  and the semantic one (`dependsOn`, used by C10) are the same set; `support(u)` returns the
  names of exactly those levels; `is_essential(u, x)` agrees with `x ∈ support(u)`.
-/
import DDProofs.SatPick
import DDProofs.SatSupport
import DDProofs.Names
import DDProofs.Agree
import DDProofs.SubstWrappers
open Std

namespace DD

theorem inSupp_of_reach {t : Tbl} (hw : WF t) {a v : Nat} (h : Reach t a v) :
    ∀ (n : Nd), t.succ[v]? = some n → ∀ u : Int, u.natAbs = a → InSupp t u n.lvl := by
  induction h with
  | refl a =>
    intro n hn u hu
    have h2 := hw.ge_two a n hn
    exact InSupp.here (by omega) (by rw [hu]; exact hn)
  | @lo a v n' hn' _ ih =>
    intro n hn u hu
    have h2 := hw.ge_two a n' hn'
    exact InSupp.lo (by omega) (by rw [hu]; exact hn') (ih n hn n'.lo rfl)
  | @hi a v n' hn' _ ih =>
    intro n hn u hu
    have h2 := hw.ge_two a n' hn'
    exact InSupp.hi (by omega) (by rw [hu]; exact hn') (ih n hn n'.hi rfl)

theorem reach_of_inSupp {t : Tbl} {u : Int} {i : Nat} (h : InSupp t u i) :
    ∃ v n, Reach t u.natAbs v ∧ t.succ[v]? = some n ∧ n.lvl = i := by
  induction h with
  | @here u n _ hn => exact ⟨u.natAbs, n, Reach.refl _, hn, rfl⟩
  | lo _ hn _ ih =>
    obtain ⟨v, n', hr, h1, h2⟩ := ih
    exact ⟨v, n', Reach.lo hn hr, h1, h2⟩
  | hi _ hn _ ih =>
    obtain ⟨v, n', hr, h1, h2⟩ := ih
    exact ⟨v, n', Reach.hi hn hr, h1, h2⟩

/-- the level `i` labels a node reachable from `u` iff the function of `u` depends on `i` -/
theorem inSupp_iff_dependsOn {t : Tbl} (hw : WFU t) (u : Int) (hm : t.Mem u) (i : Nat) :
    InSupp t u i ↔ dependsOn t u i := by
  rw [dependsOn_iff_reach hw i u hm]
  constructor
  · exact reach_of_inSupp
  · rintro ⟨v, n, hr, hn, rfl⟩
    exact inSupp_of_reach hw.toWF hr n hn u rfl

theorem OrderOK.vars_of_nameOf {t : Tbl} (h : OrderOK t) {i : Nat} (hi : i < t.nvars) :
    t.vars[t.nameOf i]? = some i := by
  obtain ⟨v, hv, hv'⟩ := h.name_at hi
  simp only [Tbl.nameOf, hv, Option.getD_some]; exact hv'

/-- `support(u)` on a reachable state: succeeds with a list of DECLARED names whose levels are
exactly the structural support of `u` -/
theorem support_inSupp {t : Tbl} (hw : WFU t) (hO : OrderOK t) (u : Int) (hm : t.Mem u) :
    ∃ names, support t u = .ok names ∧ (∀ s, s ∈ names → t.vars.contains s = true) ∧
      (∀ j, j ∈ names.map (lvlOf t) ↔ InSupp t u j) ∧
      (∀ s, s ∈ names ↔ ∃ j, t.vars[s]? = some j ∧ dependsOn t u j) := by
  obtain ⟨ls, _, _, hdep, hs⟩ := support_spec' hw hO.toVarsOK u hm
  have hlt : ∀ i, i ∈ ls → i < t.nvars := fun i hi =>
    ((inSupp_iff_dependsOn hw u hm i).mpr ((hdep i).mp hi)).lt_nvars hw.toWF
  refine ⟨_, hs, ?_, ?_, ?_⟩
  · intro s hs'
    obtain ⟨i, hi, rfl⟩ := List.mem_map.mp hs'
    exact (vars_contains_iff _ _).mpr ⟨i, hO.vars_of_nameOf (hlt i hi)⟩
  · intro j
    rw [List.map_map]
    constructor
    · intro hj
      obtain ⟨i, hi, hij⟩ := List.mem_map.mp hj
      have : lvlOf t (t.nameOf i) = i := lvlOf_eq (hO.vars_of_nameOf (hlt i hi))
      simp only [Function.comp] at hij
      rw [this] at hij; subst hij
      exact (inSupp_iff_dependsOn hw u hm i).mpr ((hdep i).mp hi)
    · intro hj
      have hi := (hdep j).mpr ((inSupp_iff_dependsOn hw u hm j).mp hj)
      exact List.mem_map.mpr ⟨j, hi, lvlOf_eq (hO.vars_of_nameOf (hlt j hi))⟩
  · intro s
    constructor
    · intro hs'
      obtain ⟨i, hi, rfl⟩ := List.mem_map.mp hs'
      exact ⟨i, hO.vars_of_nameOf (hlt i hi), (hdep i).mp hi⟩
    · rintro ⟨j, hj, hd⟩
      have hi := (hdep j).mpr hd
      refine List.mem_map.mpr ⟨j, hi, ?_⟩
      have := (hO.inv s j).mp hj
      simp [Tbl.nameOf, this]

/-- `is_essential(u, x)` answers (without error) whether `x ∈ support(u)`; for an undeclared
`x` both say no -/
theorem isEssential_iff_support {t : Tbl} (hw : WFU t) (hO : OrderOK t) (u : Int) (hm : t.Mem u)
    (var : String) :
    ∃ b names, isEssential t u var = .ok b ∧ support t u = .ok names ∧ (b = true ↔ var ∈ names) := by
  obtain ⟨names, hs, _, _, hmem⟩ := support_inSupp hw hO u hm
  obtain ⟨h1, h2⟩ := isEssential_spec' hw u hm var
  cases hvar : t.vars[var]? with
  | none =>
    refine ⟨false, names, h1 hvar, hs, ?_⟩
    constructor
    · intro h; cases h
    · intro hin
      obtain ⟨j, hj, _⟩ := (hmem var).mp hin
      rw [hvar] at hj; cases hj
  | some i =>
    obtain ⟨b, hb, hbi⟩ := h2 i hvar (hO.lt var i hvar)
    refine ⟨b, names, hb, hs, hbi.trans ?_⟩
    rw [hmem var]
    constructor
    · intro hd; exact ⟨i, hvar, hd⟩
    · rintro ⟨j, hj, hd⟩
      rw [hvar] at hj; cases hj; exact hd

end DD
