/-
  DDProofs.ApiLevels — `BDD.levels(skip_terminals)`: for EVERY iteration order of the `_succ`
  dict, every stored node is yielded exactly once with its own triple, the terminal exactly when it
  is not skipped, nothing else, and the levels never increase along the sequence (bottom first).
-/
import DD.ApiCore
import DDProofs.Inv
open Std

namespace DD

/-- `ord` is a listing of the keys of `self._succ` — the terminal and every stored node — each
once: what `list(bdd._succ)` is, whatever the insertion history -/
structure SuccOrder (t : Tbl) (ord : List Nat) : Prop where
  nodup : ord.Nodup
  mem : ∀ u, u ∈ ord ↔ (u = 1 ∨ (t.node? u).isSome)

/-- the Boolean test the driver runs on a recorded order is that proposition -/
theorem succOrderOk_iff (t : Tbl) (ord : List Nat) : succOrderOk t ord = true ↔ SuccOrder t ord := by
  unfold succOrderOk
  simp only [Bool.and_eq_true, decide_eq_true_eq, List.all_eq_true, Bool.or_eq_true, beq_iff_eq,
    List.contains_eq_mem]
  constructor
  · rintro ⟨⟨⟨hnd, h1⟩, hall⟩, hkeys⟩
    refine ⟨hnd, fun u => ⟨fun hu => ?_, fun hu => ?_⟩⟩
    · rcases hall u hu with h | h
      · exact Or.inl h
      · right
        rw [TreeMap.contains_eq_isSome_getElem?] at h
        exact h
    · rcases hu with h | h
      · subst h; exact h1
      · apply hkeys
        rw [TreeMap.mem_keys, TreeMap.mem_iff_contains, TreeMap.contains_eq_isSome_getElem?]
        exact h
  · intro h
    refine ⟨⟨⟨h.nodup, (h.mem 1).mpr (Or.inl rfl)⟩, fun u hu => ?_⟩, fun u hu => ?_⟩
    · rcases (h.mem u).mp hu with h1 | h1
      · exact Or.inl h1
      · right
        rw [TreeMap.contains_eq_isSome_getElem?]
        exact h1
    · apply (h.mem u).mpr
      right
      rw [TreeMap.mem_keys, TreeMap.mem_iff_contains, TreeMap.contains_eq_isSome_getElem?] at hu
      exact hu

/-- the ascending listing (used when nothing was recorded) is one -/
theorem SuccOrder.ascending (t : Tbl) (hw : WF t) : SuccOrder t (1 :: t.succ.keys) := by
  refine ⟨?_, fun u => ?_⟩
  · rw [List.nodup_cons]
    refine ⟨fun h => ?_, ?_⟩
    · rw [TreeMap.mem_keys, TreeMap.mem_iff_contains, TreeMap.contains_eq_isSome_getElem?] at h
      obtain ⟨n, hn⟩ := Option.isSome_iff_exists.mp h
      have := hw.ge_two 1 n hn
      omega
    · exact (TreeMap.distinct_keys (t := t.succ)).imp (fun h => by simpa using h)
  · rw [List.mem_cons, TreeMap.mem_keys, TreeMap.mem_iff_contains, TreeMap.contains_eq_isSome_getElem?]
    rfl

/-! ### one tuple -/

theorem levelItem?_some {t : Tbl} {i u : Nat} {it : LevelItem} (h : levelItem? t i u = some it) :
    it.1 = u ∧ it.2.1 = i ∧
    ((u = 1 ∧ t.nvars = i ∧ it.2.2 = none) ∨
     (u ≠ 1 ∧ ∃ n, t.node? u = some n ∧ n.lvl = i ∧ it.2.2 = some (n.lo, n.hi))) := by
  unfold levelItem? at h
  by_cases h1 : u = 1
  · rw [if_pos h1] at h
    by_cases h2 : t.nvars = i
    · rw [if_pos h2] at h
      cases h
      exact ⟨h1.symm, rfl, Or.inl ⟨h1, h2, rfl⟩⟩
    · rw [if_neg h2] at h; cases h
  · rw [if_neg h1] at h
    cases hn : t.succ[u]? with
    | none => rw [hn] at h; cases h
    | some n =>
      rw [hn] at h
      simp only at h
      by_cases h2 : n.lvl = i
      · rw [if_pos h2] at h
        cases h
        exact ⟨rfl, rfl, Or.inr ⟨h1, n, hn, h2, rfl⟩⟩
      · rw [if_neg h2] at h; cases h

theorem levelItem?_node {t : Tbl} (hw : WF t) {u : Nat} {n : Nd} (hn : t.node? u = some n) :
    levelItem? t n.lvl u = some (u, n.lvl, some (n.lo, n.hi)) := by
  have h2 := hw.ge_two u n hn
  unfold levelItem?
  rw [if_neg (by omega)]
  have : t.succ[u]? = some n := hn
  rw [this]
  simp

theorem levelItem?_term (t : Tbl) : levelItem? t t.nvars 1 = some (1, t.nvars, none) := by
  simp [levelItem?]

/-! ### the whole sequence -/

theorem mem_levelsIter {t : Tbl} {skip : Bool} {ord : List Nat} {it : LevelItem} :
    it ∈ levelsIter t skip ord ↔
      ∃ i, i < (if skip then t.nvars else t.nvars + 1) ∧ ∃ u ∈ ord, levelItem? t i u = some it := by
  unfold levelsIter levelsAt
  simp only [List.mem_flatMap, List.mem_reverse, List.mem_range, List.mem_filterMap]

theorem range_reverse_pairwise (n : Nat) : (List.range n).reverse.Pairwise (fun a b => b < a) := by
  rw [List.pairwise_reverse]
  exact List.pairwise_lt_range

theorem levelsAt_fst (t : Tbl) (ord : List Nat) (i : Nat) :
    ((levelsAt t ord i).map (·.1)).Sublist ord := by
  unfold levelsAt
  induction ord with
  | nil => simp
  | cons u us ih =>
    rw [List.filterMap_cons]
    cases h : levelItem? t i u with
    | none => exact ih.trans (List.sublist_cons_self _ _)
    | some it =>
      simp only [List.map_cons]
      rw [(levelItem?_some h).1]
      exact ih.cons_cons _

/-- `levels(skip_terminals)`, for every iteration order of `_succ`: (1) every stored node is
yielded with its level and its two edges; (2) the terminal is yielded — as `(1, len(vars), None,
None)` — exactly when `skip_terminals` is false; (3) nothing else is yielded; (4) no node twice;
(5) levels never increase along the sequence: the bottom level (the terminal's) comes first, the
roots' level last -/
theorem levelsIter_spec (t : Tbl) (hw : WF t) (skip : Bool) (ord : List Nat) (ho : SuccOrder t ord) :
    (∀ u n, t.node? u = some n → (u, n.lvl, some (n.lo, n.hi)) ∈ levelsIter t skip ord) ∧
    ((1, t.nvars, none) ∈ levelsIter t skip ord ↔ skip = false) ∧
    (∀ it ∈ levelsIter t skip ord,
      (it = (1, t.nvars, none) ∧ skip = false) ∨
      ∃ n, t.node? it.1 = some n ∧ it = (it.1, n.lvl, some (n.lo, n.hi))) ∧
    ((levelsIter t skip ord).map (·.1)).Nodup ∧
    (levelsIter t skip ord).Pairwise (fun x y => y.2.1 ≤ x.2.1) := by
  refine ⟨fun u n hn => ?_, ?_, fun it hit => ?_, ?_, ?_⟩
  · rw [mem_levelsIter]
    refine ⟨n.lvl, ?_, u, (ho.mem u).mpr (Or.inr (by simp [hn])), levelItem?_node hw hn⟩
    have := hw.lvl_lt u n hn
    split <;> omega
  · rw [mem_levelsIter]
    constructor
    · rintro ⟨i, hi, u, _, hu⟩
      obtain ⟨h1, h2, h3⟩ := levelItem?_some hu
      simp only at h2
      cases skip with
      | false => rfl
      | true => simp only [if_true] at hi; omega
    · intro hs
      subst hs
      exact ⟨t.nvars, by simp, 1, (ho.mem 1).mpr (Or.inl rfl), levelItem?_term t⟩
  · rw [mem_levelsIter] at hit
    obtain ⟨i, hi, u, _, hu⟩ := hit
    obtain ⟨h1, h2, h3⟩ := levelItem?_some hu
    obtain ⟨a, b, c⟩ := it
    simp only at h1 h2 h3
    subst h1 h2
    rcases h3 with ⟨hu1, hnv, hc⟩ | ⟨_, n, hn, hl, hc⟩
    · left
      subst hu1 hc
      refine ⟨by rw [hnv], ?_⟩
      cases skip with
      | false => rfl
      | true => simp only [if_true] at hi; omega
    · right
      exact ⟨n, hn, by rw [hl, hc]⟩
  · unfold levelsIter
    rw [List.map_flatMap, List.Nodup, List.pairwise_flatMap]
    refine ⟨fun i _ => (levelsAt_fst t ord i).nodup ho.nodup, ?_⟩
    refine (range_reverse_pairwise _).imp ?_
    intro i j hji
    intro x hx y hx' he
    subst he
    simp only [levelsAt, List.mem_map, List.mem_filterMap] at hx hx'
    obtain ⟨it, ⟨u, _, hu⟩, rfl⟩ := hx
    obtain ⟨it', ⟨u', _, hu'⟩, he⟩ := hx'
    obtain ⟨h1, h2, h3⟩ := levelItem?_some hu
    obtain ⟨h1', h2', h3'⟩ := levelItem?_some hu'
    have huu : u = u' := by rw [← h1, ← h1', he]
    subst huu
    rcases h3 with ⟨hu1, hnv, _⟩ | ⟨hne, n, hn, hl, _⟩
    · rcases h3' with ⟨_, hnv', _⟩ | ⟨hne', _⟩
      · omega
      · exact hne' hu1
    · rcases h3' with ⟨hu1', _⟩ | ⟨_, n', hn', hl', _⟩
      · exact hne hu1'
      · rw [hn] at hn'
        cases hn'
        omega
  · unfold levelsIter
    rw [List.pairwise_flatMap]
    refine ⟨fun i _ => ?_, ?_⟩
    · apply List.pairwise_of_forall_mem_list
      intro x hx y hy
      simp only [levelsAt, List.mem_filterMap] at hx hy
      obtain ⟨u, _, hu⟩ := hx
      obtain ⟨u', _, hu'⟩ := hy
      rw [(levelItem?_some hu).2.1, (levelItem?_some hu').2.1]
      exact Nat.le_refl _
    · refine (range_reverse_pairwise _).imp ?_
      intro i j hji x hx y hy
      simp only [levelsAt, List.mem_filterMap] at hx hy
      obtain ⟨u, _, hu⟩ := hx
      obtain ⟨u', _, hu'⟩ := hy
      rw [(levelItem?_some hu).2.1, (levelItem?_some hu').2.1]
      omega

end DD
