/-
  DDProofs.GcSched — schedule independence of `collect_garbage` (C06, part 5), full and
  rooted.  The Python worklist is a `set`; `GcRun` pops ANY element.  We characterise the
  set of removed nodes of every run (`Dead`: the start worklist closed under "count-0
  cascades": a node whose stored parents are all removed and which the user does not hold),
  hence the final node table; everything else of the final state is determined by the node
  table (`RefExact`, `GcSub`), so any two runs end in the same state (`Mgr.Same`: equal
  field by field, maps compared by lookup).
-/
import DDProofs.GcSpec
open Std

namespace DD

/-- nodes removed by a collection started with the worklist `W` (all of count 0):
`W` itself and, transitively, every unheld node all of whose stored parents are removed -/
inductive Dead (t : Tbl) (ext : Nat → Nat) (W : Nat → Prop) : Nat → Prop
  | root {k : Nat} : W k → Dead t ext W k
  | cascade {k p : Nat} {x : Nd} : k ≠ 1 → ext k = 0 → t.node? p = some x →
      (x.lo.natAbs = k ∨ x.hi.natAbs = k) →
      (∀ q y, t.node? q = some y → (y.lo.natAbs = k ∨ y.hi.natAbs = k) → Dead t ext W q) →
      Dead t ext W k

/-- invariant of a run relative to its start state `m0` and start worklist `W` -/
structure GcMid (m0 : Mgr) (ext : Nat → Nat) (W : Nat → Prop) (m : Mgr) (work : List Nat) : Prop where
  inv : GcInv m ext work
  sub : GcSub m0 m
  cache : m.cache = m0.cache
  workDead : ∀ w ∈ work, Dead m0.tbl ext W w
  removedDead : ∀ k x, m0.tbl.node? k = some x → m.tbl.node? k = none → Dead m0.tbl ext W k
  pending : ∀ k, m.ref[k]? = some 0 →
    (W k ∨ ∃ p x, m0.tbl.node? p = some x ∧ m.tbl.node? p = none ∧ (x.lo.natAbs = k ∨ x.hi.natAbs = k)) →
    k ∈ work

theorem GcMid.init {m0 : Mgr} {ext : Nat → Nat} {W0 : List Nat} (hi : GcInv m0 ext W0) :
    GcMid m0 ext (· ∈ W0) m0 W0 := by
  refine ⟨hi, GcSub.refl m0, rfl, fun w hw => Dead.root hw, ?_, ?_⟩
  · intro k x h1 h2; rw [h1] at h2; cases h2
  · intro k _ h
    rcases h with h | ⟨p, x, h1, h2, -⟩
    · exact h
    · rw [h1] at h2; cases h2

theorem GcMid.step {m0 m : Mgr} {ext : Nat → Nat} {W : Nat → Prop} {work : List Nat}
    (hm : GcMid m0 ext W m work) {u : Nat} (hu : u ∈ work) {m' : Mgr} {work' : List Nat}
    (hstep : gcStep u (work.erase u) m = (.ok work', m')) : GcMid m0 ext W m' work' := by
  obtain ⟨n, m1, work1, hn, hrun1, hp, hi1, -⟩ := hm.inv.step hu
  rw [hstep] at hrun1
  cases hrun1
  have hn0 : m0.tbl.node? u = some n := hm.sub.sub _ _ hn
  have hone : ∀ c, m'.ref[1]? = some c → c ≠ 0 := by
    intro c hc h0; subst h0
    have := hp.refExact.cnt 1 0 hc; simp at this
  have hremoved : ∀ k x, m0.tbl.node? k = some x → m'.tbl.node? k = none → Dead m0.tbl ext W k := by
    intro k x hk hk'
    cases hmk : m.tbl.node? k with
    | none => exact hm.removedDead k x hk hmk
    | some y =>
      by_cases hku : k = u
      · rw [hku]; exact hm.workDead u hu
      · exfalso; rw [hp.removed.other k hku] at hmk; rw [hmk] at hk'; cases hk'
  refine ⟨hi1, hm.sub.step hp, hp.cache.trans hm.cache, ?_, hremoved, ?_⟩
  · intro w hw
    rcases (hp.work_mem w).mp hw with h | ⟨hch, hw1, hw0⟩
    · exact hm.workDead w ((hm.inv.nodup.mem_erase_iff).mp h).2
    · have hc := hp.refExact.cnt w 0 hw0
      have he0 : ext w = 0 := by omega
      have hi0 : indeg m'.tbl w = 0 := by omega
      refine Dead.cascade (p := u) (x := n) hw1 he0 hn0 (by rcases hch with h | h <;> simp [h]) ?_
      intro q y hq hedge
      cases hq' : m'.tbl.node? q with
      | none => exact hremoved q y hq hq'
      | some y' =>
        exfalso
        have : y' = y := by
          have := (hm.sub.step hp).sub q y' hq'; rw [hq] at this; cases this; rfl
        subst this
        rcases hedge with he | he
        · have := indeg_pos_of_lo hq'; rw [he] at this; omega
        · have := indeg_pos_of_hi hq'; rw [he] at this; omega
  · intro k hk hcond
    rw [hp.work_mem]
    by_cases hch : k = n.lo.natAbs ∨ k = n.hi.natAbs
    · refine Or.inr ⟨hch, ?_, hk⟩
      intro h1; subst h1; exact hone 0 hk rfl
    · left
      have he : edgeCount n k = 0 := by
        simp only [edgeCount]
        have h1 : ¬ n.lo.natAbs = k := fun h => hch (Or.inl h.symm)
        have h2 : ¬ n.hi.natAbs = k := fun h => hch (Or.inr h.symm)
        simp [h1, h2]
      have h0 := hp.ref_rel hm.inv.refExact hk
      rw [he] at h0
      have hku : k ≠ u := by
        intro hku; subst hku
        rcases (hp.refExact.dom k).mp (by simp [hk]) with h1 | h1
        · subst h1; exact hone 0 hk rfl
        · rw [hp.removed.old] at h1; simp at h1
      refine (hm.inv.nodup.mem_erase_iff).mpr ⟨hku, hm.pending k h0 ?_⟩
      rcases hcond with h | ⟨p, x, hpx, hp', hedge⟩
      · exact Or.inl h
      · right
        refine ⟨p, x, hpx, ?_, hedge⟩
        cases hmp : m.tbl.node? p with
        | none => rfl
        | some y =>
          exfalso
          have : y = x := by have := hm.sub.sub p y hmp; rw [hpx] at this; cases this; rfl
          subst this
          by_cases hpu : p = u
          · subst hpu
            rw [hn] at hmp; cases hmp
            exact hch (by rcases hedge with h | h <;> simp [h])
          · rw [hp.removed.other p hpu] at hmp; rw [hmp] at hp'; cases hp'

theorem GcRun.mid {m mf : Mgr} {work : List Nat} (hrun : GcRun m work mf) :
    ∀ {m0 : Mgr} {ext : Nat → Nat} {W : Nat → Prop}, GcMid m0 ext W m work → GcMid m0 ext W mf [] := by
  induction hrun with
  | done m => intro _ _ _ h; exact h
  | step hu hstep _ ih => intro _ _ _ h; exact ih (h.step hu hstep)

/-- the final node table of every run: the start table minus `Dead` -/
theorem GcMid.final_nodes {m0 mf : Mgr} {ext : Nat → Nat} {W : Nat → Prop}
    (h : GcMid m0 ext W mf []) (h0 : RefExact m0 ext) (hW : ∀ k, W k → m0.ref[k]? = some 0)
    (k : Nat) (x : Nd) :
    mf.tbl.node? k = some x ↔ (m0.tbl.node? k = some x ∧ ¬ Dead m0.tbl ext W k) := by
  have hr := h.inv.refExact
  -- a surviving node without surviving parents and without holder has count 0
  have hzero : ∀ k y, mf.tbl.node? k = some y → ext k = 0 →
      (∀ q z, m0.tbl.node? q = some z → (z.lo.natAbs = k ∨ z.hi.natAbs = k) → mf.tbl.node? q = none) →
      mf.ref[k]? = some 0 := by
    intro k y hk he hpar
    have hg := hr.get (u := (k : Int)) (Or.inr (by simp [hk]))
    simp only [Int.natAbs_natCast] at hg
    have hk2 := h.inv.invS.wf.ge_two _ _ hk
    have hi0 : indeg mf.tbl k = 0 := by
      cases hz : indeg mf.tbl k with
      | zero => rfl
      | succ z =>
        exfalso
        obtain ⟨q, z', hq, hedge⟩ := indeg_pos (t := mf.tbl) (u := k) (by omega)
        have := hpar q z' (h.sub.sub _ _ hq) hedge
        rw [hq] at this; cases this
    have : ¬ k = 1 := by omega
    rw [hg, hi0, he]; simp [this]
  have hdead : ∀ k, Dead m0.tbl ext W k → ∀ y, m0.tbl.node? k = some y → mf.tbl.node? k = none := by
    intro k hd
    induction hd with
    | @root k hw =>
      intro y hy
      cases hk : mf.tbl.node? k with
      | none => rfl
      | some y' =>
        exfalso
        have hc := h0.cnt k 0 (hW k hw)
        have := hzero k y' hk (by omega) (by
          intro q z hq hedge
          exfalso
          rcases hedge with he | he
          · have := indeg_pos_of_lo hq; rw [he] at this; omega
          · have := indeg_pos_of_hi hq; rw [he] at this; omega)
        have := h.pending k this (Or.inl hw)
        simp at this
    | @cascade k p x hk1 he hp hedge _ ih =>
      intro y hy
      cases hk : mf.tbl.node? k with
      | none => rfl
      | some y' =>
        exfalso
        have := hzero k y' hk he (fun q z hq hedge' => ih q z hq hedge' z hq)
        have := h.pending k this (Or.inr ⟨p, x, hp, ih p x hp hedge x hp, hedge⟩)
        simp at this
  constructor
  · intro hk
    refine ⟨h.sub.sub k x hk, fun hd => ?_⟩
    have := hdead k hd x (h.sub.sub k x hk)
    rw [hk] at this; cases this
  · rintro ⟨hk, hnd⟩
    cases hf : mf.tbl.node? k with
    | none => exact absurd (h.removedDead k x hk hf) hnd
    | some y => have := h.sub.sub k y hf; rw [hk] at this; cases this; rfl

/-! ### two states that agree on every field (maps compared by lookup) -/

structure Mgr.Same (a b : Mgr) : Prop where
  nodes : ∀ k, a.tbl.node? k = b.tbl.node? k
  vars : a.tbl.vars = b.tbl.vars
  l2v : a.tbl.l2v = b.tbl.l2v
  pred : ∀ key : List Int, a.pred[key]? = b.pred[key]?
  ref : ∀ k : Nat, a.ref[k]? = b.ref[k]?
  minFree : a.minFree = b.minFree
  cache : ∀ key : List Int, a.cache[key]? = b.cache[key]?
  lastLen : a.lastLen = b.lastLen
  ctx : a.ctx = b.ctx
  fireIn : a.fireIn = b.fireIn
  sched : a.sched = b.sched
  roots : a.roots = b.roots

/-- exact counts are determined by the node table -/
theorem RefExact.ref_unique {a b : Mgr} {ext : Nat → Nat} (ha : RefExact a ext) (hb : RefExact b ext)
    (hn : ∀ k, a.tbl.node? k = b.tbl.node? k) (k : Nat) : a.ref[k]? = b.ref[k]? := by
  have hi : indeg a.tbl k = indeg b.tbl k := indeg_congr hn k
  by_cases hmem : k = 1 ∨ (a.tbl.node? k).isSome
  · have ga := ha.get (u := (k : Int)) (by simpa [Tbl.Mem] using hmem)
    have gb := hb.get (u := (k : Int)) (by rw [hn] at hmem; simpa [Tbl.Mem] using hmem)
    simp only [Int.natAbs_natCast] at ga gb
    rw [ga, gb, hi]
  · have ea : a.ref[k]? = none := by
      cases hx : a.ref[k]? with
      | none => rfl
      | some c => exact absurd ((ha.dom k).mp (by simp [hx])) hmem
    have eb : b.ref[k]? = none := by
      cases hx : b.ref[k]? with
      | none => rfl
      | some c => rw [hn] at hmem; exact absurd ((hb.dom k).mp (by simp [hx])) hmem
    rw [ea, eb]

/-- the state after a collection is determined by the set of surviving nodes -/
theorem gc_state_unique {m a b : Mgr} {ext : Nat → Nat}
    (hsa : GcSub m a) (hsb : GcSub m b) (hia : InvS a) (hib : InvS b)
    (hra : RefExact a ext) (hrb : RefExact b ext)
    (hn : ∀ k, a.tbl.node? k = b.tbl.node? k) (hc : ∀ key : List Int, a.cache[key]? = b.cache[key]?) :
    Mgr.Same a b := by
  refine ⟨hn, hsa.vars.trans hsb.vars.symm, hsa.l2v.trans hsb.l2v.symm, ?_, hra.ref_unique hrb hn, ?_, hc,
    hsa.lastLen.trans hsb.lastLen.symm, hsa.ctx.trans hsb.ctx.symm, hsa.fireIn.trans hsb.fireIn.symm,
    hsa.sched.trans hsb.sched.symm, hsa.roots.trans hsb.roots.symm⟩
  · intro key
    by_cases hall : ∀ k x, m.tbl.node? k = some x → x.key = key → (a.tbl.node? k).isSome
    · rw [hsa.predKeep key hall, hsb.predKeep key (fun k x hk hx => by rw [← hn]; exact hall k x hk hx)]
    · have : ∃ k x, m.tbl.node? k = some x ∧ x.key = key ∧ a.tbl.node? k = none := by
        apply Classical.byContradiction
        intro hne
        apply hall
        intro k x hk hx
        cases ha : a.tbl.node? k with
        | none => exact absurd ⟨k, x, hk, hx, ha⟩ hne
        | some y => rfl
      obtain ⟨k, x, hk, hx, hak⟩ := this
      rw [← hx, hsa.predGone k x hk hak, hsb.predGone k x hk (by rw [← hn]; exact hak)]
  · have key : ∀ {a b : Mgr}, GcSub m a → GcSub m b → InvS b → (∀ k, a.tbl.node? k = b.tbl.node? k) →
        a.minFree ≤ b.minFree := by
      intro a b hsa hsb hib hn
      rcases hsb.minIs with h | h
      · rw [h]; exact hsa.minLe
      · obtain ⟨x, hx⟩ := Option.isSome_iff_exists.mp h
        exact hsa.minRemoved _ x hx (by rw [hn]; exact hib.free)
    exact Nat.le_antisymm (key hsa hsb hib hn) (key hsb hsa hia (fun k => (hn k).symm))

/-- SCHEDULE INDEPENDENCE: two runs of the collection loop (arbitrary pop orders) from the
same state and worklists with the same elements end, after the cache reset, in the same state -/
theorem gc_runs_agree {m mf1 mf2 : Mgr} {ext : Nat → Nat} {W1 W2 : List Nat}
    (h1 : GcInv m ext W1) (h2 : GcInv m ext W2) (hW : ∀ k, k ∈ W1 ↔ k ∈ W2)
    (r1 : GcRun m W1 mf1) (r2 : GcRun m W2 mf2) :
    Mgr.Same mf1 mf2 ∧ Mgr.Same (gcFinish mf1) (gcFinish mf2) := by
  have e1 := r1.mid (GcMid.init h1)
  have e2 := r2.mid (GcMid.init h2)
  have hWeq : (fun k => k ∈ W1) = (fun k => k ∈ W2) := funext fun k => propext (hW k)
  have hn : ∀ k, mf1.tbl.node? k = mf2.tbl.node? k := by
    intro k
    apply Option.ext
    intro x
    rw [e1.final_nodes h1.refExact (fun k hk => h1.zero k hk),
        e2.final_nodes h2.refExact (fun k hk => h2.zero k hk), hWeq]
  have hs := gc_state_unique e1.sub e2.sub e1.inv.invS e2.inv.invS e1.inv.refExact e2.inv.refExact hn
    (fun key => by rw [e1.cache, e2.cache])
  refine ⟨hs, ?_⟩
  exact ⟨hs.nodes, hs.vars, hs.l2v, hs.pred, hs.ref, hs.minFree, fun _ => rfl, hs.lastLen, hs.ctx, hs.fireIn,
    hs.sched, hs.roots⟩

/-- a run never gets stuck and never fails: whichever element is popped, the step succeeds -/
theorem gc_progress {m : Mgr} {ext : Nat → Nat} {work : List Nat} (hi : GcInv m ext work)
    {u : Nat} (hu : u ∈ work) :
    ∃ work' m', gcStep u (work.erase u) m = (.ok work', m') ∧ GcInv m' ext work' ∧
      m'.tbl.succ.size + 1 = m.tbl.succ.size := by
  obtain ⟨n, m', work', -, hrun, hp, hi', -⟩ := hi.step hu
  exact ⟨work', m', hrun, hi', hp.size⟩

/-- `gc_any_schedule`: every maximal run of `collect_garbage(roots)` under an arbitrary
`set.pop()` order ends in the state computed by the model (which pops the list head) -/
theorem gc_any_schedule (roots : Option (List Int)) (m : Mgr) (ext : Nat → Nat)
    (hi : Inv m) (hr : RefExact m ext)
    (hroots : ∀ r ∈ gcRoots roots m, (m.ref[r.natAbs]?).isSome) :
    ∃ m', collectGarbage roots m = (.ok (), m') ∧
      ∀ (W : List Nat) (mf : Mgr), W.Nodup →
        (∀ k, k ∈ W ↔ (m.ref[k]? = some 0 ∧ ∃ r ∈ gcRoots roots m, r.natAbs = k)) →
        GcRun m W mf → Mgr.Same (gcFinish mf) m' := by
  obtain ⟨unused, mf0, hrun, hgr, hinv, hmem⟩ := collectGarbage_run roots m ext hi.toInvS hr hroots
  refine ⟨gcFinish mf0, hrun, ?_⟩
  intro W mf hnd hW hr'
  have hinvW : GcInv m ext W := ⟨hi.toInvS, hr, fun w hw => ((hW w).mp hw).1, hnd⟩
  exact (gc_runs_agree hinvW hinv (fun k => by rw [hW, hmem]) hr' hgr).2

/-! ### rooted collection (`collect_garbage(roots)`, used by `swap`) -/

/-- what a collection (full or rooted) establishes -/
structure GcPost (m : Mgr) (ext : Nat → Nat) (W : Nat → Prop) (m' : Mgr) : Prop where
  inv : Inv m'
  refExact : RefExact m' ext
  sub : GcSub m m'
  cacheEmpty : m'.cache = {}
  /-- exactly the count-0 cascade from the start worklist is removed -/
  nodes : ∀ k x, m'.tbl.node? k = some x ↔ (m.tbl.node? k = some x ∧ ¬ Dead m.tbl ext W k)

/-- the start worklist of `collect_garbage(roots)`: the given roots whose count is 0
(every node, when `roots` is `None`) -/
def gcStart (roots : Option (List Int)) (m : Mgr) (k : Nat) : Prop :=
  m.ref[k]? = some 0 ∧ ∃ r ∈ gcRoots roots m, r.natAbs = k

/-- `collect_garbage(roots)`: terminates without error, removes exactly the count-0 cascade
from the roots, keeps the invariant and exact counts, empties the computed table -/
theorem collectGarbage_rooted_spec (roots : Option (List Int)) (m : Mgr) (ext : Nat → Nat)
    (hi : Inv m) (hr : RefExact m ext)
    (hroots : ∀ r ∈ gcRoots roots m, (m.ref[r.natAbs]?).isSome) :
    ∃ m', collectGarbage roots m = (.ok (), m') ∧ GcPost m ext (gcStart roots m) m' := by
  obtain ⟨unused, mf, hrun, hgr, hinv, hmem⟩ := collectGarbage_run roots m ext hi.toInvS hr hroots
  have e := hgr.mid (GcMid.init hinv)
  have hWeq : (fun k => k ∈ unused) = gcStart roots m := funext fun k => propext (hmem k)
  obtain ⟨a, b, c⟩ := gcFinish_post e.inv e.sub
  refine ⟨gcFinish mf, hrun, a, b, c, rfl, ?_⟩
  intro k x
  have := e.final_nodes hr (fun k hk => hinv.zero k hk) k x
  rw [hWeq] at this
  exact this

/-- a failing root lookup (`KeyError`) leaves the manager untouched -/
theorem collectGarbage_error (roots : Option (List Int)) (m : Mgr) (e : Err)
    (h : (unusedOf (gcRoots roots m) m).1 = .error e) : collectGarbage roots m = (.error e, m) := by
  rw [collectGarbage_eq]
  have hs := unusedOf_state m (gcRoots roots m)
  simp only [gcBody]
  revert h hs
  cases unusedOf (gcRoots roots m) m with
  | mk r m1 =>
    intro h hs
    simp only at h hs
    subst h; subst hs; rfl

/-- nothing reachable from a held node is ever in the removed set -/
theorem GcPost.reach_kept {m m' : Mgr} {ext : Nat → Nat} {W : Nat → Prop} (h : GcPost m ext W m')
    (h0 : InvS m) {u : Nat} (hu : GcReach m.tbl (GcHeld ext) u) : u = 1 ∨ (m'.tbl.node? u).isSome :=
  reach_survives h.sub h.inv.toInvS h.refExact h0 hu

/-- remaining references denote what they denoted -/
theorem GcPost.den_eq {m m' : Mgr} {ext : Nat → Nat} {W : Nat → Prop} (h : GcPost m ext W m')
    (u : Int) (hu : m'.tbl.Mem u) (a : Asg) : den m'.tbl u a = den m.tbl u a :=
  den_sub h.sub h.inv.wf.toWF u hu a

theorem GcFullPost.den_eq {m m' : Mgr} {ext : Nat → Nat} (h : GcFullPost m ext m')
    (u : Int) (hu : m'.tbl.Mem u) (a : Asg) : den m'.tbl u a = den m.tbl u a :=
  den_sub h.sub h.inv.wf.toWF u hu a

end DD
