/-
  DDProofs.MddCofPath — `cofactor` when every level it can meet is assigned (the use made of it by
  `bdd_to_mdd`: all bits of a zone at once): the recursion only follows edges.  For ANY setting of
  the reordering switches (`_last_len`, `_reordering_context`, the harness trigger) it returns
  normally, creates nothing, requests no reordering and leaves the manager exactly as it was.
-/
import DDProofs.Cofactor
import DDProofs.SubstWrappers
open Std

namespace DD

/-- what the path-following `_cofactor` returns for `u` (and what its memo holds): the
`CofEntry` facts, plus where the result hangs — it is `u` itself or a successor of a node whose
level is assigned and not above `u` -/
structure PathEntry (values : List (Nat × Bool)) (t : Tbl) (u r : Int) : Prop where
  ent : CofEntry values t u r
  par : r.natAbs = u.natAbs ∨ ∃ k n, t.node? k = some n ∧ (values.lookup n.lvl).isSome = true ∧
    t.levelOf u ≤ n.lvl ∧ (n.lo.natAbs = r.natAbs ∨ n.hi.natAbs = r.natAbs)

def PathMemo (values : List (Nat × Bool)) (t : Tbl) (c : HashMap Int Int) : Prop :=
  ∀ u r, c[u]? = some r → PathEntry values t u r

theorem PathMemo.empty (values : List (Nat × Bool)) (t : Tbl) : PathMemo values t {} := by
  intro u r h
  simp at h

theorem PathMemo.insert {values : List (Nat × Bool)} {t : Tbl} {c : HashMap Int Int}
    (h : PathMemo values t c) {u r : Int} (he : PathEntry values t u r) :
    PathMemo values t (c.insert u r) := by
  intro u' r' hc
  rw [HashMap.getElem?_insert] at hc
  split at hc
  · next heq =>
    have : u = u' := by simpa using heq
    subst this
    cases hc
    exact he
  · exact h u' r' hc

theorem dropWhile_sub {α} (p : α → Bool) : ∀ (l : List α) (a : α), a ∈ l.dropWhile p → a ∈ l := by
  intro l
  induction l with
  | nil => intro a h; simp at h
  | cons b l ih =>
    intro a h
    rw [List.dropWhile_cons] at h
    split at h
    · exact List.mem_cons_of_mem _ (ih a h)
    · exact h

theorem dropWhile_head_not {α} (p : α → Bool) : ∀ (l : List α), (l.dropWhile p).isEmpty = false →
    ∃ a, a ∈ l.dropWhile p ∧ p a = false := by
  intro l
  induction l with
  | nil => intro h; simp at h
  | cons b l ih =>
    intro h
    rw [List.dropWhile_cons] at h ⊢
    split
    · next hb => simp only [hb, if_true] at h; exact ih h
    · next hb => exact ⟨b, by simp, by simpa using hb⟩

/-- `_cofactor` when every level from `u` down to the last assigned level is assigned -/
theorem cofactorF_path (values : List (Nat × Bool)) :
    ∀ (f : Nat) (m : Mgr) (u : Int) (ordvar : List Nat) (cache : HashMap Int Int),
    WF m.tbl → m.tbl.Mem u → PathMemo values m.tbl cache →
    (∀ j, (values.lookup j).isSome = true → m.tbl.levelOf u ≤ j → j ∈ ordvar) →
    (∀ ℓ, m.tbl.levelOf u ≤ ℓ → (∃ j ∈ ordvar, ℓ ≤ j) → (values.lookup ℓ).isSome = true) →
    m.nvars + 1 ≤ f + m.tbl.levelOf u →
    ∃ r c', cofactorF values f u ordvar cache m = (.ok (r, c'), m) ∧
      PathMemo values m.tbl c' ∧ PathEntry values m.tbl u r := by
  intro f
  induction f with
  | zero =>
    intro m u ordvar cache hW hu _ _ _ hf
    have := levelOf_le m.tbl hW u
    have : m.nvars = m.tbl.nvars := rfl
    omega
  | succ f ih =>
    intro m u ordvar cache hW hu hmemo hord hcov hf
    unfold cofactorF
    by_cases h1 : u.natAbs = 1
    · simp only [h1, if_true]
      exact ⟨u, cache, rfl, hmemo, ⟨hu, hu, Nat.le_refl _, fun a => den_term_any _ u h1 _ _⟩, Or.inl rfl⟩
    · simp only [h1, if_false]
      cases hc : cache[u]? with
      | some r => exact ⟨r, cache, rfl, hmemo, hmemo u r hc⟩
      | none =>
        simp only
        obtain ⟨n, hn⟩ := mem_node hu h1
        have hn' : m.tbl.succ[u.natAbs]? = some n := hn
        rw [hn']
        simp only [node_succ_ne_zero hW hn, if_false]
        have hlu := levelOf_node m.tbl u n h1 hn
        have hlo := hW.lo_lt _ _ hn
        have hhi := hW.hi_lt _ _ hn
        have hnv : m.nvars = m.tbl.nvars := rfl
        have hord' : ∀ j, (values.lookup j).isSome = true → n.lvl ≤ j →
            j ∈ ordvar.dropWhile (· < n.lvl) := by
          intro j hj hle
          exact mem_dropWhile_of_not _ j ordvar (hord j hj (by omega)) (by simpa using hle)
        have hsub := dropWhile_sub (fun x => decide (x < n.lvl)) ordvar
        have hhead := dropWhile_head_not (fun x => decide (x < n.lvl)) ordvar
        generalize ordvar.dropWhile (· < n.lvl) = ov at hord' hsub hhead ⊢
        by_cases hemp : ov.isEmpty = true
        · simp only [hemp, if_true]
          refine ⟨u, cache, rfl, hmemo, ⟨hu, hu, Nat.le_refl _, ?_⟩, Or.inl rfl⟩
          intro a
          apply den_agree_ge m.tbl hW u hu
          intro i hi _
          simp only [ovr]
          cases hl : values.lookup i with
          | none => rfl
          | some b =>
            exfalso
            have := hord' i (by simp [hl]) (by omega)
            rw [List.isEmpty_iff.mp hemp] at this
            cases this
        · simp only [hemp, Bool.false_eq_true, if_false]
          -- this level is assigned
          obtain ⟨j0, hj0, hj0p⟩ := hhead (by simpa using hemp)
          have hj0ge : n.lvl ≤ j0 := by simpa using hj0p
          have hsome := hcov n.lvl (by omega) ⟨j0, hsub j0 hj0, hj0ge⟩
          obtain ⟨val, hl⟩ := Option.isSome_iff_exists.mp hsome
          rw [hl]
          simp only
          have hcm : m.tbl.Mem (if val then n.hi else n.lo) := by
            cases val
            · exact hW.lo_mem _ _ hn
            · exact hW.hi_mem _ _ hn
          have hcl : n.lvl < m.tbl.levelOf (if val then n.hi else n.lo) := by
            cases val
            · exact hlo
            · exact hhi
          obtain ⟨r0, c1, he1, hm1, hp1⟩ := ih m (if val then n.hi else n.lo) ov cache
            hW hcm hmemo (fun j hj hle => hord' j hj (by omega))
            (fun ℓ hℓ ⟨j, hj, hjl⟩ => hcov ℓ (by omega) ⟨j, hsub j hj, hjl⟩) (by omega)
          rw [he1]
          simp only
          have hent : PathEntry values m.tbl u (if u < 0 then -r0 else r0) := by
            refine ⟨⟨hu, mem_flip u hp1.ent.mr, ?_, ?_⟩, ?_⟩
            · rw [levelOf_flip, hlu]
              have := hp1.ent.lvl
              omega
            · intro a
              rw [den_flip m.tbl hW r0 u a hp1.ent.mr, hp1.ent.den a, den_node m.tbl hW u n _ h1 hn]
              have : ovr values a n.lvl = val := by simp [ovr, hl]
              rw [this]
              cases val <;> rfl
            · right
              have habs : (if u < 0 then -r0 else r0).natAbs = r0.natAbs := by
                split <;> simp
              rw [habs]
              rcases hp1.par with hp | ⟨k, nk, hk1, hk2, hk3, hk4⟩
              · refine ⟨u.natAbs, n, hn, by rw [hl]; rfl, by omega, ?_⟩
                cases val
                · left; simpa using hp.symm
                · right; simpa using hp.symm
              · exact ⟨k, nk, hk1, hk2, by omega, hk4⟩
          exact ⟨_, _, rfl, hm1.insert hent, hent⟩

theorem setCtx_back (m : Mgr) : ({ ({ m with ctx := true } : Mgr) with ctx := m.ctx } : Mgr) = m := by
  cases m; rfl

/-- `cofactor(u, d)` with declared names as keys when every level between `u` and the last
assigned level is assigned: returns normally, for any setting of the reordering switches, and the
manager is unchanged -/
theorem cofactor_path (m : Mgr) (hW : WF m.tbl) (u : Int) (hu : m.tbl.Mem u) (d : List (String × Bool))
    (hdecl : ∀ p, p ∈ d → m.tbl.vars.contains p.1 = true)
    (hcov : ∀ ℓ, m.tbl.levelOf u ≤ ℓ → (∃ p ∈ d, ℓ ≤ lvlOf m.tbl p.1) →
      (((d.map fun p => (lvlOf m.tbl p.1, p.2)).reverse).lookup ℓ).isSome = true) :
    ∃ r, cofactor u (d.map fun p => (Key.name p.1, p.2)) m = (.ok r, m) ∧
      PathEntry ((d.map fun p => (lvlOf m.tbl p.1, p.2)).reverse) m.tbl u r := by
  have hkeys : (d.map fun p => (Key.name p.1, p.2)).map (·.1) = (d.map (·.1)).map Key.name := by
    simp [List.map_map, Function.comp_def]
  have hlv : mapToLevelE m.tbl ((d.map fun p => (Key.name p.1, p.2)).map (·.1)) =
      .ok ((d.map (·.1)).map (lvlOf m.tbl)) := by
    rw [hkeys]
    apply mapToLevelE_names
    intro s hs
    obtain ⟨p, hp, rfl⟩ := List.mem_map.mp hs
    exact hdecl p hp
  have hzip : ((d.map (·.1)).map (lvlOf m.tbl)).zip ((d.map fun p => (Key.name p.1, p.2)).map (·.2)) =
      d.map fun p => (lvlOf m.tbl p.1, p.2) := by
    simp only [List.map_map, Function.comp_def]
    rw [List.zip_map']
  have hmemlv : ∀ j, j ∈ (d.map (·.1)).map (lvlOf m.tbl) ↔ ∃ p ∈ d, lvlOf m.tbl p.1 = j := by
    intro j
    simp only [List.map_map, List.mem_map, Function.comp_def]
  obtain ⟨r, c', he, _, hp⟩ := cofactorF_path ((d.map fun p => (lvlOf m.tbl p.1, p.2)).reverse)
    (m.nvars + 2) { m with ctx := true } u (sortNat (dedup ((d.map (·.1)).map (lvlOf m.tbl)))) {}
    hW hu (PathMemo.empty _ _)
    (fun j hj _ => (mem_ordvar j _).mpr (by
      have := lookup_zip_reverse_mem ((d.map (·.1)).map (lvlOf m.tbl))
        ((d.map fun p => (Key.name p.1, p.2)).map (·.2)) j (by rw [hzip]; exact hj)
      exact this))
    (fun ℓ hℓ ⟨j, hj, hjl⟩ => by
      have hj' := (mem_ordvar j _).mp hj
      obtain ⟨p, hp, hpj⟩ := (hmemlv j).mp hj'
      exact hcov ℓ hℓ ⟨p, hp, by omega⟩)
    (by show m.nvars + 1 ≤ _; omega)
  have hb : cofactorBody u (d.map fun p => (Key.name p.1, p.2)) { m with ctx := true } =
      (.ok r, { m with ctx := true }) := by
    unfold cofactorBody
    have hmem : ({ m with ctx := true } : Mgr).mem u = true := (Mgr.mem_iff m u).mpr hu
    simp only [hlv, hmem, Bool.not_true, Bool.false_eq_true, if_false]
    have : ({ m with ctx := true } : Mgr).nvars = m.nvars := rfl
    rw [this, hzip, he]
  have := tryToReorder_ok _ m r _ hb
  rw [setCtx_back] at this
  exact ⟨r, this, hp⟩

end DD
