/-
  DDProofs.SwapPop — the first two loops of `swap`: the iteration orders (any permutation of
  the nodes of a level — the schedule) and the removal of the unique-table entries of the two
  levels (`popLevel`), ending in the phase invariant `Mid` with every node of the two levels
  pending.
-/
import DDProofs.SwapMid
open Std

namespace DD

/-! ### the nodes of a level -/

theorem foldl_nodesAt (j : Nat) : ∀ (l : List (Nat × Nd)) (acc : List Nat),
    l.foldl (fun acc p => if p.2.lvl = j then acc ++ [p.1] else acc) acc =
      acc ++ (l.filter (fun p => decide (p.2.lvl = j))).map (·.1) := by
  intro l
  induction l with
  | nil => intro acc; simp
  | cons p rest ih =>
    intro acc
    simp only [List.foldl_cons, ih]
    by_cases h : p.2.lvl = j
    · simp [h]
    · simp [h]

theorem nodesAt_eq (t : Tbl) (j : Nat) :
    nodesAt t j = (t.succ.toList.filter (fun p => decide (p.2.lvl = j))).map (·.1) := by
  unfold nodesAt
  rw [TreeMap.foldl_eq_foldl_toList]
  rw [foldl_nodesAt j t.succ.toList []]
  simp

theorem mem_nodesAt (t : Tbl) (j u : Nat) :
    u ∈ nodesAt t j ↔ ∃ n, t.node? u = some n ∧ n.lvl = j := by
  rw [nodesAt_eq]
  simp only [List.mem_map, List.mem_filter, decide_eq_true_eq]
  constructor
  · rintro ⟨⟨k, n⟩, ⟨hm, hl⟩, rfl⟩
    exact ⟨n, TreeMap.mem_toList_iff_getElem?_eq_some.mp hm, hl⟩
  · rintro ⟨n, hn, hl⟩
    exact ⟨(u, n), ⟨TreeMap.mem_toList_iff_getElem?_eq_some.mpr hn, hl⟩, rfl⟩

theorem nodup_nodesAt (t : Tbl) (j : Nat) : (nodesAt t j).Nodup := by
  rw [nodesAt_eq]
  have h := TreeMap.distinct_keys_toList (t := t.succ)
  have h2 := h.filter (fun p => decide (p.2.lvl = j))
  unfold List.Nodup
  rw [List.pairwise_map]
  refine h2.imp ?_
  intro a b hab e
  apply hab
  rw [e]
  exact compare_self

/-! ### a permutation of a duplicate-free list is duplicate-free -/

theorem nodup_of_subset_length : ∀ (b a : List Nat), b.Nodup → b ⊆ a → a.length ≤ b.length → a.Nodup := by
  intro b
  induction b with
  | nil =>
    intro a _ _ hl
    have : a = [] := List.eq_nil_of_length_eq_zero (by simpa using hl)
    subst this; exact List.nodup_nil
  | cons x b' ih =>
    intro a hb hs hl
    rw [List.nodup_cons] at hb
    have hx : x ∈ a := hs List.mem_cons_self
    have hs' : b' ⊆ a.erase x := by
      intro z hz
      have hzx : z ≠ x := fun e => hb.1 (e ▸ hz)
      exact (List.mem_erase_of_ne hzx).2 (hs (List.mem_cons_of_mem _ hz))
    have hlen : (a.erase x).length = a.length - 1 := by rw [List.length_erase]; simp [hx]
    have hpos : 1 ≤ a.length := List.length_pos_of_mem hx
    have ih' := ih (a.erase x) hb.2 hs' (by simp only [List.length_cons] at hl; omega)
    have hxn : x ∉ a.erase x := by
      intro hmem
      have hsub : (x :: b') ⊆ a.erase x := by
        intro z hz
        rcases List.mem_cons.mp hz with rfl | hz
        · exact hmem
        · exact hs' hz
      have := List.Nodup.length_le_of_subset (List.nodup_cons.mpr hb) hsub
      simp only [List.length_cons] at this hl
      omega
    exact (List.perm_cons_erase hx).symm.nodup (List.nodup_cons.mpr ⟨hxn, ih'⟩)

theorem isPerm_spec {a b : List Nat} (h : isPerm a b = true) (hb : b.Nodup) :
    a.Nodup ∧ ∀ u, u ∈ a ↔ u ∈ b := by
  unfold isPerm at h
  simp only [Bool.and_eq_true, beq_iff_eq, List.all_eq_true, List.contains_iff_mem] at h
  obtain ⟨⟨hl, h1⟩, h2⟩ := h
  refine ⟨nodup_of_subset_length b a hb (fun z hz => h2 z hz) (by omega), fun u => ⟨h1 u, h2 u⟩⟩

/-- an iteration order of the nodes at level `j`: every node of the level exactly once -/
structure LevelOrder (t : Tbl) (j : Nat) (l : List Nat) : Prop where
  nodup : l.Nodup
  mem : ∀ u, u ∈ l ↔ ∃ n, t.node? u = some n ∧ n.lvl = j

theorem LevelOrder.default (t : Tbl) (j : Nat) : LevelOrder t j (nodesAt t j) :=
  ⟨nodup_nodesAt t j, mem_nodesAt t j⟩

/-- `takeSwapOrders` yields two level orders and only consumes the schedule; every other outcome
is the model's schedule-mismatch report -/
theorem takeSwapOrders_spec (x y : Nat) (m : Mgr) :
    OkOrSched (fun r m' => (∃ s, m' = { m with sched := s } ∧ (m.sched = [] → s = [])) ∧ LevelOrder m.tbl x r.1 ∧
      LevelOrder m.tbl y r.2) (takeSwapOrders x y m) := by
  unfold takeSwapOrders
  simp only [M.bind_eq, M.get_eq]
  cases hs : m.sched with
  | nil =>
    simp only
    exact ⟨⟨m.sched, rfl, fun _ => hs⟩, LevelOrder.default _ _, LevelOrder.default _ _⟩
  | cons it rest =>
    cases it with
    | sift names => exact rfl
    | swap lv =>
      simp only
      by_cases hp : (isPerm ((lv.lookup x).getD []) (nodesAt m.tbl x) &&
          isPerm ((lv.lookup y).getD []) (nodesAt m.tbl y)) = true
      · rw [if_pos hp]
        simp only [Bool.and_eq_true] at hp
        obtain ⟨n1, e1⟩ := isPerm_spec hp.1 (nodup_nodesAt _ _)
        obtain ⟨n2, e2⟩ := isPerm_spec hp.2 (nodup_nodesAt _ _)
        exact ⟨⟨rest, rfl, fun h => by cases h⟩, ⟨n1, fun u => (e1 u).trans (mem_nodesAt _ _ _)⟩,
          ⟨n2, fun u => (e2 u).trans (mem_nodesAt _ _ _)⟩⟩
      · rw [if_neg hp]; exact rfl

/-! ### `popLevel` -/

/-- the entry `levels[j][u] = (v, w)` -/
def trip (t : Tbl) (u : Nat) : Nat × Int × Int :=
  match t.node? u with
  | some n => (u, n.lo, n.hi)
  | none => (u, 0, 0)

theorem trip_fst (t : Tbl) (u : Nat) : (trip t u).1 = u := by
  unfold trip; split <;> rfl

theorem map_trip_fst (t : Tbl) (l : List Nat) : (l.map (trip t)).map (·.1) = l := by
  induction l with
  | nil => rfl
  | cons a r ih => simp [trip_fst, ih]

/-- the first loop of `swap` for one level: the unique-table entries of the listed nodes are
removed (no `KeyError`, no `AssertionError`), nothing else changes -/
theorem popLevel_spec (j : Nat) : ∀ (l : List Nat) (m : Mgr) (Out : Nat → Prop),
    (∀ n u, m.pred[n.key]? = some u ↔ (m.tbl.node? u = some n ∧ ¬ Out u)) →
    l.Nodup → (∀ u ∈ l, ¬ Out u ∧ ∃ n, m.tbl.node? u = some n ∧ n.lvl = j) →
    ∃ pr, popLevel j l m = (.ok (l.map (trip m.tbl)), { m with pred := pr }) ∧
      ∀ n u, pr[n.key]? = some u ↔ (m.tbl.node? u = some n ∧ ¬ (Out u ∨ u ∈ l)) := by
  intro l
  induction l with
  | nil =>
    intro m Out hp _ _
    refine ⟨m.pred, rfl, ?_⟩
    intro n u; rw [hp]; simp
  | cons u rest ih =>
    intro m Out hp hnd hl
    rw [List.nodup_cons] at hnd
    obtain ⟨hout, n, hn, hj⟩ := hl u List.mem_cons_self
    have hpu : m.pred[n.key]? = some u := (hp n u).mpr ⟨hn, hout⟩
    have hn' : m.tbl.succ[u]? = some n := hn
    -- the state after removing the entry of `u`
    let m1 : Mgr := { m with pred := m.pred.erase n.key }
    have hp1 : ∀ n' u', m1.pred[n'.key]? = some u' ↔
        (m1.tbl.node? u' = some n' ∧ ¬ ((fun k => Out k ∨ k = u) u')) := by
      intro n' u'
      show (m.pred.erase n.key)[n'.key]? = some u' ↔ (m.tbl.node? u' = some n' ∧ ¬ (Out u' ∨ u' = u))
      rw [TreeMap.getElem?_erase]
      by_cases hnn : n = n'
      · subst hnn
        simp only [compare_self, if_true]
        constructor
        · intro e; cases e
        · intro ⟨e1, e2⟩
          exfalso
          have := (hp n u').mpr ⟨e1, fun ho => e2 (Or.inl ho)⟩
          rw [hpu] at this
          exact e2 (Or.inr (Option.some.inj this).symm)
      · simp only [key_ne_of_ne hnn, if_false]
        rw [hp]
        constructor
        · intro ⟨e1, e2⟩
          refine ⟨e1, ?_⟩
          rintro (ho | rfl)
          · exact e2 ho
          · rw [hn] at e1; exact hnn (Option.some.inj e1)
        · intro ⟨e1, e2⟩
          exact ⟨e1, fun ho => e2 (Or.inl ho)⟩
    obtain ⟨pr, hrun, hpr⟩ := ih m1 (fun k => Out k ∨ k = u) hp1 hnd.2 (by
      intro k hk
      obtain ⟨ho, hh⟩ := hl k (List.mem_cons_of_mem _ hk)
      refine ⟨?_, hh⟩
      rintro (h1 | rfl)
      · exact ho h1
      · exact hnd.1 hk)
    refine ⟨pr, ?_, ?_⟩
    · unfold popLevel
      simp only [M.bind_eq, M.get_eq, hn', M.ofOption_some, hj, decide_true, M.assert_true, hpu,
        M.modify_eq]
      have : popLevel j rest { m with pred := m.pred.erase n.key } =
          (.ok (rest.map (trip m.tbl)), { m with pred := pr }) := hrun
      rw [this]
      simp only [M.pure_eq, List.map_cons]
      congr 2
      simp [trip, hn]
    · intro n' u'
      rw [hpr]
      show (m.tbl.node? u' = some n' ∧ _) ↔ _
      simp only [List.mem_cons]
      constructor
      · intro ⟨e1, e2⟩
        exact ⟨e1, fun hh => e2 (by rcases hh with h1 | h1 | h1 <;> simp [h1])⟩
      · intro ⟨e1, e2⟩
        exact ⟨e1, fun hh => e2 (by rcases hh with (h1 | h1) | h1 <;> simp [h1])⟩

/-- the nodes of the two levels -/
def AtLevels (t : Tbl) (x : Nat) (u : Nat) : Prop :=
  ∃ n, t.node? u = some n ∧ (n.lvl = x ∨ n.lvl = x + 1)

/-- **After the first loop**: both levels popped, all their nodes pending, table untouched -/
theorem popLevels_spec (m : Mgr) (hI : Inv m) (x : Nat) (ox oy : List Nat)
    (hox : LevelOrder m.tbl x ox) (hoy : LevelOrder m.tbl (x + 1) oy) :
    ∃ m1 m2, popLevel x ox m = (.ok (ox.map (trip m.tbl)), m1) ∧
      popLevel (x + 1) oy m1 = (.ok (oy.map (trip m.tbl)), m2) ∧ m2.tbl = m.tbl ∧ m2.ref = m.ref ∧
      Mid m m2 x (AtLevels m.tbl x) := by
  have hp0 : ∀ n u, m.pred[n.key]? = some u ↔ (m.tbl.node? u = some n ∧ ¬ (fun _ => False) u) := by
    intro n u; rw [hI.pred]; simp
  obtain ⟨pr1, hrun1, hpr1⟩ := popLevel_spec x ox m (fun _ => False) hp0 hox.nodup
    (fun u hu => ⟨fun h => h, (hox.mem u).mp hu⟩)
  obtain ⟨pr2, hrun2, hpr2⟩ := popLevel_spec (x + 1) oy { m with pred := pr1 }
    (fun k => False ∨ k ∈ ox) hpr1 hoy.nodup (by
      intro u hu
      obtain ⟨n, hn, hl⟩ := (hoy.mem u).mp hu
      refine ⟨?_, n, hn, hl⟩
      rintro (h | h)
      · exact h
      · obtain ⟨n', hn', hl'⟩ := (hox.mem u).mp h
        rw [hn] at hn'; cases hn'; omega)
  refine ⟨_, _, hrun1, hrun2, rfl, rfl, ?_⟩
  · have hW := hI.wf.toWF
    refine ⟨⟨rfl, fun u n hn _ _ => hn, ?_, ?_, ?_, fun u n hn _ => hn, ?_⟩, fun u hu => hu, ?_,
      hI.freeGe, hI.free, hI.refOne, hI.refDom, ⟨rfl, rfl, rfl, rfl, rfl, rfl⟩⟩
    · intro u n hn hl hp; exact absurd ⟨n, hn, Or.inr hl⟩ hp
    · intro u n hn hl _ _ hp; exact absurd ⟨n, hn, Or.inl hl⟩ hp
    · intro u n hn hl _ hp; exact absurd ⟨n, hn, Or.inl hl⟩ hp
    · intro u n hn hk
      have hk' : m.tbl.node? u = some n := hk
      rw [hn] at hk'; cases hk'
    · intro n u
      rw [hpr2]
      show (m.tbl.node? u = some n ∧ _) ↔ (m.tbl.node? u = some n ∧ _)
      constructor
      · intro ⟨e1, e2⟩
        refine ⟨e1, ?_⟩
        rintro ⟨n', hn', hl⟩
        rw [e1] at hn'; cases hn'
        rcases hl with hl | hl
        · exact e2 (Or.inl (Or.inr ((hox.mem u).mpr ⟨n, e1, hl⟩)))
        · exact e2 (Or.inr ((hoy.mem u).mpr ⟨n, e1, hl⟩))
      · intro ⟨e1, e2⟩
        refine ⟨e1, ?_⟩
        rintro ((h | h) | h)
        · exact h
        · obtain ⟨n', hn', hl⟩ := (hox.mem u).mp h
          exact e2 ⟨n', hn', Or.inl hl⟩
        · obtain ⟨n', hn', hl⟩ := (hoy.mem u).mp h
          exact e2 ⟨n', hn', Or.inr hl⟩

end DD
