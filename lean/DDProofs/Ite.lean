/-
  DDProofs.Ite — specification of `_ite` (with the computed table) and of
  `find_or_add` with the reordering request.
-/
import DDProofs.FindOrAdd
open Std

namespace DD

/-- outcome of an attempt aborted by a reordering request: only nodes were added -/
structure AbortPost (m m' : Mgr) : Prop where
  inv : Inv m'
  ext : Ext m.tbl m'.tbl
  frame : Frame m m'
  armed : m.ctx = true ∧ m.lastLen.isSome = true

/-- changing only the harness trigger keeps everything -/
theorem Inv.setFire {m : Mgr} (h : Inv m) (f : Option Nat) : Inv { m with fireIn := f } :=
  ⟨h.wf, h.pred, h.freeGe, h.free, h.refOne, h.refDom, h.cache⟩

theorem requestReordering_cases (m : Mgr) :
    (∃ f, requestReordering m = (.ok (), { m with fireIn := f })) ∨
    (∃ f, requestReordering m = (.error .needsReordering, { m with fireIn := f }) ∧
      m.lastLen.isSome = true) := by
  obtain ⟨tbl, pred, ref, minFree, cache, lastLen, ctx, fireIn, sched, roots⟩ := m
  unfold requestReordering
  cases lastLen with
  | none => left; exact ⟨fireIn, rfl⟩
  | some l =>
    cases fireIn with
    | some k =>
      simp only
      split
      · right; exact ⟨none, rfl, rfl⟩
      · left; exact ⟨some (k - 1), rfl⟩
    | none =>
      simp only
      split
      · right; exact ⟨none, rfl, rfl⟩
      · left; exact ⟨none, rfl⟩

/-- the guarantees of `find_or_add` relative to the state before the request -/
structure FoaPost' (m : Mgr) (i : Nat) (v w : Int) (r : Int) (m' : Mgr) : Prop where
  inv : Inv m'
  ext : Ext m.tbl m'.tbl
  mem : m'.tbl.Mem r
  lvl : i ≤ m'.tbl.levelOf r
  den : ∀ a, den m'.tbl r a = if a i then den m.tbl w a else den m.tbl v a
  frame : Frame m m'
  cacheSame : m'.cache = m.cache

theorem FoaPost.weaken {m : Mgr} {f : Option Nat} {i : Nat} {v w r : Int} {m' : Mgr}
    (h : FoaPost { m with fireIn := f } i v w r m') : FoaPost' m i v w r m' :=
  ⟨h.inv, h.ext, h.mem, h.lvl, h.den,
   ⟨h.frame.vars, h.frame.l2v, h.frame.lastLen, h.frame.ctx, h.frame.sched, h.frame.roots⟩,
   h.cacheSame⟩

theorem FoaPost.weaken0 {m : Mgr} {i : Nat} {v w r : Int} {m' : Mgr}
    (h : FoaPost m i v w r m') : FoaPost' m i v w r m' :=
  ⟨h.inv, h.ext, h.mem, h.lvl, h.den, h.frame, h.cacheSame⟩

/-- outcome of `find_or_add` with the request: result, or abort by a reordering request -/
def FoaOutcome (m : Mgr) (i : Nat) (v w : Int) : Except Err Int × Mgr → Prop
  | (.ok r, m') => FoaPost' m i v w r m'
  | (.error e, m') => e = .needsReordering ∧ AbortPost m m'

/-- `find_or_add` at a valid level, with the reordering request -/
theorem findOrAdd_spec (m : Mgr) (hI : Inv m) (i : Nat) (v w : Int)
    (hi : i < m.nvars) (hv : m.tbl.Mem v) (hw : m.tbl.Mem w)
    (hlv : i < m.tbl.levelOf v) (hlw : i < m.tbl.levelOf w) :
    FoaOutcome m i v w (findOrAdd (i : Int) v w m) := by
  unfold findOrAdd
  have hnn : ¬ ((i : Int) < 0) := by omega
  by_cases hc : m.ctx = true
  · rw [if_pos hc]
    rcases requestReordering_cases m with ⟨f, hr⟩ | ⟨f, hr, harm⟩
    · rw [hr]
      simp only [hnn, if_false, Int.toNat_natCast]
      obtain ⟨r, m', he, hp⟩ := findOrAddCore_spec { m with fireIn := f } (hI.setFire f) i v w hi hv hw hlv hlw
      rw [he]
      exact hp.weaken
    · rw [hr]
      exact ⟨rfl, hI.setFire f, Ext.refl _, ⟨rfl, rfl, rfl, rfl, rfl, rfl⟩, hc, harm⟩
  · rw [if_neg hc]
    simp only [hnn, if_false, Int.toNat_natCast]
    obtain ⟨r, m', he, hp⟩ := findOrAddCore_spec m hI i v w hi hv hw hlv hlw
    rw [he]
    exact hp.weaken0

/-! ### `_top_cofactor` -/

theorem levelOf_le' (t : Tbl) (hw : WF t) (u : Int) : t.levelOf u ≤ t.nvars := levelOf_le t hw u

/-- cofactors of a reference with respect to a level not below its own -/
theorem topCofactor_spec (t : Tbl) (hw : WF t) (u : Int) (hu : t.Mem u) (z : Nat)
    (hz : z ≤ t.levelOf u) (hzn : z < t.nvars) :
    ∃ u0 u1, topCofactor t u z = .ok (u0, u1) ∧ t.Mem u0 ∧ t.Mem u1 ∧
      z < t.levelOf u0 ∧ z < t.levelOf u1 ∧
      ∀ a, den t u a = if a z then den t u1 a else den t u0 a := by
  unfold topCofactor
  by_cases h1 : u.natAbs = 1
  · have hl : t.levelOf u = t.nvars := by simp [Tbl.levelOf, h1]
    refine ⟨u, u, by simp [h1], hu, hu, by omega, by omega, ?_⟩
    intro a; split <;> rfl
  · simp only [h1, if_false]
    rcases hu with hu | hu
    · exact absurd hu h1
    · obtain ⟨n, hn⟩ := Option.isSome_iff_exists.mp hu
      have hn' : t.succ[u.natAbs]? = some n := hn
      have hl : t.levelOf u = n.lvl := by simp [Tbl.levelOf, h1, hn]
      rw [hn']
      simp only
      by_cases hlt : z < n.lvl
      · simp only [hlt, if_true]
        refine ⟨u, u, rfl, Or.inr hu, Or.inr hu, by omega, by omega, ?_⟩
        intro a; split <;> rfl
      · have heq : n.lvl = z := by omega
        simp only [if_false, heq, ne_eq, not_true_eq_false]
        have hlo := hw.lo_lt _ _ hn
        have hhi := hw.hi_lt _ _ hn
        by_cases hneg : u < 0
        · simp only [hneg, if_true]
          refine ⟨-n.lo, -n.hi, by simp, mem_neg (hw.lo_mem _ _ hn), mem_neg (hw.hi_mem _ _ hn),
            by rw [levelOf_neg]; omega, by rw [levelOf_neg]; omega, ?_⟩
          intro a
          rw [den_node t hw u n a h1 hn, den_neg t hw n.hi a (hw.hi_mem _ _ hn),
            den_neg t hw n.lo a (hw.lo_mem _ _ hn), heq]
          simp only [hneg, decide_true]
          split <;> simp
        · simp only [hneg, if_false]
          refine ⟨n.lo, n.hi, by simp, hw.lo_mem _ _ hn, hw.hi_mem _ _ hn, by omega, by omega, ?_⟩
          intro a
          rw [den_node t hw u n a h1 hn, heq]
          simp [hneg]

/-! ### `_ite` -/

/-- what `_ite(g, u, v)` guarantees about its result -/
structure ItePost (m : Mgr) (g u v : Int) (r : Int) (m' : Mgr) : Prop where
  inv : Inv m'
  ext : Ext m.tbl m'.tbl
  mem : m'.tbl.Mem r
  lvl : min (m.tbl.levelOf g) (min (m.tbl.levelOf u) (m.tbl.levelOf v)) ≤ m'.tbl.levelOf r
  den : ∀ a, den m'.tbl r a = if den m.tbl g a then den m.tbl u a else den m.tbl v a
  frame : Frame m m'

/-- outcome of `_ite`: result, or abort by a reordering request -/
def IteOutcome (m : Mgr) (g u v : Int) : Except Err Int × Mgr → Prop
  | (.ok r, m') => ItePost m g u v r m'
  | (.error e, m') => e = .needsReordering ∧ AbortPost m m'

theorem iteKey_inj {g u v g' u' v' : Int} (h : iteKey g u v = iteKey g' u' v') :
    g = g' ∧ u = u' ∧ v = v' := by
  simpa [iteKey] using h

theorem abs_one_cases {u : Int} (h : u.natAbs = 1) : u = 1 ∨ u = -1 := by omega

end DD

namespace DD

/-- adding a sound entry to the computed table keeps the invariant -/
theorem Inv.cacheInsert {m : Mgr} (h : Inv m) (g u v w : Int)
    (he : CacheEntryOK m.tbl g u v w) :
    Inv { m with cache := m.cache.insert (iteKey g u v) w } := by
  refine ⟨h.wf, h.pred, h.freeGe, h.free, h.refOne, h.refDom, ?_⟩
  intro g' u' v' w' hc
  have hc' : (m.cache.insert (iteKey g u v) w)[iteKey g' u' v']? = some w' := hc
  rw [TreeMap.getElem?_insert] at hc'
  split at hc'
  · next heq =>
    have := iteKey_inj (LawfulEqOrd.eq_of_compare heq)
    obtain ⟨rfl, rfl, rfl⟩ := this
    cases hc'
    exact he
  · exact h.cache _ _ _ _ hc'

theorem min3_le_levelOf (t : Tbl) (hw : WF t) (g u v : Int) :
    min (t.levelOf g) (min (t.levelOf u) (t.levelOf v)) ≤ t.nvars := by
  have := levelOf_le t hw g
  omega

/-- `_ite`: for every fuel that covers the remaining levels, either the result is the
if-then-else of the operands (in an extended table that still satisfies the invariant),
or the attempt was aborted by a reordering request, having only added nodes. -/
theorem iteF_spec : ∀ (f : Nat) (m : Mgr) (g u v : Int), Inv m →
    m.tbl.Mem g → m.tbl.Mem u → m.tbl.Mem v →
    m.nvars + 1 ≤ f + min (m.tbl.levelOf g) (min (m.tbl.levelOf u) (m.tbl.levelOf v)) →
    IteOutcome m g u v (iteF f g u v m) := by
  intro f
  induction f with
  | zero =>
    intro m g u v hI hg hu hv hf
    have := min3_le_levelOf m.tbl hI.wf.toWF g u v
    have : m.nvars = m.tbl.nvars := rfl
    omega
  | succ f ih =>
    intro m g u v hI hg hu hv hf
    have hW := hI.wf.toWF
    unfold iteF
    by_cases hg1 : g = 1
    · subst hg1
      simp only [if_true]
      refine ⟨hI, Ext.refl _, hu, ?_, ?_, Frame.refl _⟩
      · omega
      · intro a; simp [den_one]
    · simp only [hg1, if_false]
      by_cases hgm1 : g = -1
      · subst hgm1
        simp only [if_true]
        refine ⟨hI, Ext.refl _, hv, ?_, ?_, Frame.refl _⟩
        · omega
        · intro a; simp [den_neg_one]
      · simp only [hgm1, if_false]
        cases hc : m.cache[iteKey g u v]? with
        | some w =>
          simp only
          have he := hI.cache g u v w hc
          exact ⟨hI, Ext.refl _, he.mw, he.lvl, he.den, Frame.refl _⟩
        | none =>
          simp only
          rw [Tbl.levelOf?_eq _ _ hg, Tbl.levelOf?_eq _ _ hu, Tbl.levelOf?_eq _ _ hv]
          simp only
          -- `g` is not terminal, so `z < nvars`
          have hgn : g.natAbs ≠ 1 := by
            intro h; rcases abs_one_cases h with h | h
            · exact hg1 h
            · exact hgm1 h
          have hlg : m.tbl.levelOf g < m.tbl.nvars := by
            rcases hg with hg' | hg'
            · exact absurd hg' hgn
            · obtain ⟨n, hn⟩ := Option.isSome_iff_exists.mp hg'
              have : m.tbl.levelOf g = n.lvl := by simp [Tbl.levelOf, hgn, hn]
              rw [this]; exact hW.lvl_lt _ _ hn
          generalize hz : min (m.tbl.levelOf g) (min (m.tbl.levelOf u) (m.tbl.levelOf v)) = z at hf ⊢
          have hzg : z ≤ m.tbl.levelOf g := by omega
          have hzu : z ≤ m.tbl.levelOf u := by omega
          have hzv : z ≤ m.tbl.levelOf v := by omega
          have hzn : z < m.tbl.nvars := by omega
          obtain ⟨g0, g1, hcg, mg0, mg1, lg0, lg1, dg⟩ := topCofactor_spec m.tbl hW g hg z hzg hzn
          obtain ⟨u0, u1, hcu, mu0, mu1, lu0, lu1, du⟩ := topCofactor_spec m.tbl hW u hu z hzu hzn
          obtain ⟨v0, v1, hcv, mv0, mv1, lv0, lv1, dv⟩ := topCofactor_spec m.tbl hW v hv z hzv hzn
          rw [hcg, hcu, hcv]
          simp only
          -- first recursive call
          have ih1 := ih m g0 u0 v0 hI mg0 mu0 mv0 (by
            have : m.nvars = m.tbl.nvars := rfl
            omega)
          generalize hr1 : iteF f g0 u0 v0 m = res1 at ih1 ⊢
          obtain ⟨r1, m1⟩ := res1
          cases r1 with
          | error e => simpa only [IteOutcome] using ih1
          | ok p =>
            simp only [IteOutcome] at ih1 ⊢
            have hI1 := ih1.inv
            have hW1 := hI1.wf.toWF
            have e1 := ih1.ext
            -- second recursive call, in the extended table
            have ih2 := ih m1 g1 u1 v1 hI1 (e1.mem mg1) (e1.mem mu1) (e1.mem mv1) (by
              rw [e1.levelOf mg1, e1.levelOf mu1, e1.levelOf mv1]
              have h1 : m1.nvars = m.tbl.nvars := e1.nvars.symm
              have h2 : m.nvars = m.tbl.nvars := rfl
              omega)
            generalize hr2 : iteF f g1 u1 v1 m1 = res2 at ih2 ⊢
            obtain ⟨r2, m2⟩ := res2
            cases r2 with
            | error e =>
              simp only [IteOutcome] at ih2 ⊢
              refine ⟨ih2.1, ih2.2.inv, e1.trans ih2.2.ext, ih1.frame.trans ih2.2.frame, ?_⟩
              have := ih2.2.armed
              rw [ih1.frame.ctx, ih1.frame.lastLen] at this
              exact this
            | ok q =>
              simp only [IteOutcome] at ih2 ⊢
              have hI2 := ih2.inv
              have hW2 := hI2.wf.toWF
              have e2 := ih2.ext
              have e12 := e1.trans e2
              have mp2 : m2.tbl.Mem p := e2.mem ih1.mem
              have lp : z < m2.tbl.levelOf p := by
                rw [e2.levelOf ih1.mem]
                have := ih1.lvl
                omega
              have lq : z < m2.tbl.levelOf q := by
                have := ih2.lvl
                rw [e1.levelOf mg1, e1.levelOf mu1, e1.levelOf mv1] at this
                omega
              have hfo := findOrAdd_spec m2 hI2 z p q (by
                  have : m2.nvars = m.tbl.nvars := e12.nvars.symm
                  omega) mp2 ih2.mem lp lq
              generalize hr3 : findOrAdd (z : Int) p q m2 = res3 at hfo ⊢
              obtain ⟨r3, m3⟩ := res3
              cases r3 with
              | error e =>
                simp only [IteOutcome, FoaOutcome] at hfo ⊢
                refine ⟨hfo.1, hfo.2.inv, e12.trans hfo.2.ext,
                  (ih1.frame.trans ih2.frame).trans hfo.2.frame, ?_⟩
                have := hfo.2.armed
                rw [ih2.frame.ctx, ih2.frame.lastLen, ih1.frame.ctx, ih1.frame.lastLen] at this
                exact this
              | ok w =>
                simp only [IteOutcome, FoaOutcome] at hfo ⊢
                have e3 := hfo.ext
                have e123 := e12.trans e3
                have hI3 := hfo.inv
                have hden : ∀ a, den m3.tbl w a =
                    if den m.tbl g a then den m.tbl u a else den m.tbl v a := by
                  intro a
                  rw [hfo.den a, ih2.den a, den_ext e2 hW1 p a ih1.mem, ih1.den a,
                    den_ext e1 hW g1 a mg1, den_ext e1 hW u1 a mu1, den_ext e1 hW v1 a mv1,
                    dg a, du a, dv a]
                  split <;> rfl
                have hlvl : z ≤ m3.tbl.levelOf w := hfo.lvl
                have hentry : CacheEntryOK m3.tbl g u v w := by
                  refine ⟨hgn, e123.mem hg, e123.mem hu, e123.mem hv, hfo.mem, ?_, ?_⟩
                  · rw [e123.levelOf hg, e123.levelOf hu, e123.levelOf hv, hz]; exact hlvl
                  · intro a
                    rw [hden a, den_ext e123 hW g a hg, den_ext e123 hW u a hu,
                      den_ext e123 hW v a hv]
                refine ⟨hI3.cacheInsert g u v w hentry, e123, hfo.mem, ?_, hden, ?_⟩
                · show min (m.tbl.levelOf g) (min (m.tbl.levelOf u) (m.tbl.levelOf v)) ≤ m3.tbl.levelOf w
                  rw [hz]; exact hlvl
                · have fr := (ih1.frame.trans ih2.frame).trans hfo.frame
                  exact ⟨fr.vars, fr.l2v, fr.lastLen, fr.ctx, fr.sched, fr.roots⟩

end DD
