/-
  DDProofs.AutoShutdown — `dd.bdd.BDD.__del__` when every `Function` is gone and garbage is
  still stored: the terminal's own reference is released FIRST, then the collection runs.
  After the release the state is not `RefExact` any more (its `+1` for the terminal is built in),
  so `collectGarbage_spec` does not apply directly.  Simulation: the collection never reads
  `ref[1]` to decide anything (the terminal is excluded from the worklist by `abs(u) != 1`) —
  it only decrements it; so the run on the state with `ref[1]` one lower mirrors, step by step,
  the run on the `RefExact` state, and ends with `ref[1]` one lower: 0.
-/
import DDProofs.AutoCore
open Std

namespace DD

/-- `m'` is `m` with the count of the terminal one lower (and `m` has it ≥ 1) -/
structure Sim1 (m m' : Mgr) : Prop where
  tbl : m'.tbl = m.tbl
  pred : m'.pred = m.pred
  minFree : m'.minFree = m.minFree
  cache : m'.cache = m.cache
  ref : ∀ k : Nat, k ≠ 1 → m'.ref[k]? = m.ref[k]?
  one : ∃ c, m.ref[(1 : Nat)]? = some (c + 1) ∧ m'.ref[(1 : Nat)]? = some c

theorem ref3_lookup (r : TreeMap Nat Nat) (u a b x y k : Nat) :
    (((r.erase u).insert a x).insert b y)[k]? =
      if b = k then some y else if a = k then some x else if u = k then none else r[k]? := by
  simp only [TreeMap.getElem?_insert, TreeMap.getElem?_erase, compare_eq_iff_eq]

theorem ref2_lookup (r : TreeMap Nat Nat) (u a x k : Nat) :
    ((r.erase u).insert a x)[k]? = if a = k then some x else if u = k then none else r[k]? := by
  simp only [TreeMap.getElem?_insert, TreeMap.getElem?_erase, compare_eq_iff_eq]

/-- one step of the collection on both states -/
theorem sim_step (m mt : Mgr) (ext : Nat → Nat) (u : Nat) (work : List Nat)
    (hs : InvS m) (hr : RefExact m ext) (h0 : m.ref[u]? = some 0) (hsim : Sim1 m mt) :
    ∃ work' m' mt', gcStep u work m = (.ok work', m') ∧ gcStep u work mt = (.ok work', mt') ∧
      Sim1 m' mt' := by
  have hW := hs.wf.toWF
  have hc0 := hr.cnt u 0 h0
  have hu1 : u ≠ 1 := by intro h; subst h; simp at hc0
  have hi0 : indeg m.tbl u = 0 := by omega
  have hnode : (m.tbl.node? u).isSome := by
    rcases (hr.dom u).mp (by simp [h0]) with h | h
    · exact absurd h hu1
    · exact h
  obtain ⟨n, hn⟩ := Option.isSome_iff_exists.mp hnode
  have hp : m.pred[n.key]? = some u := (hs.pred n u).mpr hn
  have hu2 := hW.ge_two _ _ hn
  have hf : 1 < min u m.minFree := by have := hs.freeGe; omega
  have hau : n.lo.natAbs ≠ u := fun he => by
    have := indeg_pos_of_lo hn; rw [he] at this; omega
  have hbu : n.hi.natAbs ≠ u := fun he => by
    have := indeg_pos_of_hi hn; rw [he] at this; omega
  have hpos := hW.hi_pos _ _ hn
  have hlne := hW.lo_ne_hi _ _ hn
  have ga := hr.get (hW.lo_mem _ _ hn)
  have gb := hr.get (hW.hi_mem _ _ hn)
  have ea := edgeCount_le_indeg hn n.lo.natAbs
  have eb := edgeCount_le_indeg hn n.hi.natAbs
  have e1 := edgeCount_le_indeg hn 1
  simp only [edgeCount, if_true] at ea eb
  obtain ⟨ra, hra⟩ : ∃ ra, indeg m.tbl n.lo.natAbs + ext n.lo.natAbs + (if n.lo.natAbs = 1 then 1 else 0) = ra + 1 :=
    ⟨indeg m.tbl n.lo.natAbs - 1 + ext n.lo.natAbs + (if n.lo.natAbs = 1 then 1 else 0), by omega⟩
  rw [hra] at ga
  obtain ⟨rb, hrb, hrbv⟩ : ∃ rb, ((m.ref.erase u).insert n.lo.natAbs ra)[n.hi.natAbs]? = some (rb + 1) ∧
      rb + edgeCount n n.hi.natAbs = indeg m.tbl n.hi.natAbs + ext n.hi.natAbs + (if n.hi.natAbs = 1 then 1 else 0) := by
    rw [TreeMap.getElem?_insert, TreeMap.getElem?_erase]
    by_cases hab : n.lo.natAbs = n.hi.natAbs
    · have : ra = (ra - 1) + 1 := by
        rw [hab] at ea hra; simp only [hab, if_true] at eb; omega
      refine ⟨ra - 1, by simp only [hab, compare_eq_iff_eq, if_true]; rw [← this], ?_⟩
      simp only [edgeCount, hab, if_true]
      rw [hab] at hra; omega
    · have hbu' : ¬ u = n.hi.natAbs := fun h => hbu h.symm
      refine ⟨indeg m.tbl n.hi.natAbs - 1 + ext n.hi.natAbs + (if n.hi.natAbs = 1 then 1 else 0), ?_, ?_⟩
      · simp only [hab, hbu', compare_eq_iff_eq, if_false, gb]
        congr 1; omega
      · simp only [edgeCount, hab, if_true, if_false]; omega
  have hrun := gcStep_run m u n work ra rb hu1 hn hp h0 hf hau hpos ga hrb
  -- the other state
  obtain ⟨c, hc1, hc2⟩ := hsim.one
  have hcv : c + 1 = indeg m.tbl 1 + ext 1 + 1 := by
    have := hr.cnt 1 (c + 1) hc1
    simpa using this
  have hce : edgeCount n 1 ≤ c := by omega
  have hnT : mt.tbl.succ[u]? = some n := by rw [hsim.tbl]; exact hn
  have hpT : mt.pred[n.key]? = some u := by rw [hsim.pred]; exact hp
  have h0T : mt.ref[u]? = some 0 := by rw [hsim.ref u hu1]; exact h0
  have hfT : 1 < min u mt.minFree := by rw [hsim.minFree]; exact hf
  -- counts of the children in the lowered state
  let da : Nat := if n.lo.natAbs = 1 then 1 else 0
  let db : Nat := if n.hi.natAbs = 1 then 1 else 0
  have hraT : mt.ref[n.lo.natAbs]? = some ((ra - da) + 1) ∧ da ≤ ra := by
    by_cases hl1 : n.lo.natAbs = 1
    · have hda : da = 1 := by simp [da, hl1]
      rw [hl1] at ga
      rw [hc1] at ga
      have hcr : c = ra := by cases ga; rfl
      simp only [edgeCount, hl1, if_true] at hce
      rw [hda, hl1, hc2]
      constructor
      · congr 1; omega
      · omega
    · have hda : da = 0 := by simp [da, hl1]
      rw [hda, hsim.ref _ hl1]
      exact ⟨by simpa using ga, Nat.zero_le _⟩
  have hrbT : ((mt.ref.erase u).insert n.lo.natAbs (ra - da))[n.hi.natAbs]? = some ((rb - db) + 1) ∧
      db ≤ rb := by
    rw [ref2_lookup] at hrb ⊢
    by_cases hab : n.lo.natAbs = n.hi.natAbs
    · simp only [hab, if_true] at hrb ⊢
      have hrr : ra = rb + 1 := by cases hrb; rfl
      by_cases hh1 : n.hi.natAbs = 1
      · have hda : da = 1 := by simp [da, hab, hh1]
        have hdb : db = 1 := by simp [db, hh1]
        have hl1 : n.lo.natAbs = 1 := by rw [hab]; exact hh1
        rw [hl1] at ga; rw [hc1] at ga
        have hcr : c = ra := by cases ga; rfl
        simp only [edgeCount, hl1, hh1, if_true] at hce
        rw [hda, hdb]
        constructor
        · congr 1; omega
        · omega
      · have hda : da = 0 := by simp [da, hab, hh1]
        have hdb : db = 0 := by simp [db, hh1]
        rw [hda, hdb]
        exact ⟨by simpa using hrb, Nat.zero_le _⟩
    · have hbu' : ¬ u = n.hi.natAbs := fun h => hbu h.symm
      simp only [hab, hbu', if_false] at hrb ⊢
      by_cases hh1 : n.hi.natAbs = 1
      · have hdb : db = 1 := by simp [db, hh1]
        rw [hh1] at hrb ⊢
        rw [hc1] at hrb
        have hcr : c = rb := by cases hrb; rfl
        have hl1 : ¬ n.lo.natAbs = 1 := fun h => hab (by rw [h, hh1])
        simp only [edgeCount, hl1, hh1, if_true, if_false] at hce
        rw [hdb, hc2]
        constructor
        · congr 1; omega
        · omega
      · have hdb : db = 0 := by simp [db, hh1]
        rw [hdb, hsim.ref _ hh1]
        exact ⟨by simpa using hrb, Nat.zero_le _⟩
  have hrunT := gcStep_run mt u n work (ra - da) (rb - db) hu1 hnT hpT h0T hfT hau hpos hraT.1 hrbT.1
  -- the same worklist
  have hwork : gcWork n work (ra - da) (rb - db) = gcWork n work ra rb := by
    unfold gcWork
    have hh : n.hi ≠ 1 → db = 0 := fun h => by
      have : ¬ n.hi.natAbs = 1 := fun h' => h (by omega)
      simp [db, this]
    have hl : n.lo.natAbs ≠ 1 → da = 0 := fun h => by simp [da, h]
    by_cases hl1 : n.lo.natAbs = 1
    · by_cases hh1 : n.hi = 1
      · simp [hl1, hh1]
      · simp [hl1, hh1, hh hh1]
    · have hda := hl hl1
      by_cases hh1 : n.hi = 1
      · have hne : ¬ (1 : Nat) = n.lo.natAbs := fun h => hl1 h.symm
        simp [hl1, hh1, hda, hne]
      · simp [hl1, hh1, hda, hh hh1]
  rw [hwork] at hrunT
  refine ⟨_, _, _, hrun, hrunT, ⟨?_, ?_, ?_, ?_, ?_, ?_⟩⟩
  · show ({ mt.tbl with succ := mt.tbl.succ.erase u } : Tbl) = { m.tbl with succ := m.tbl.succ.erase u }
    rw [hsim.tbl]
  · show mt.pred.erase n.key = m.pred.erase n.key
    rw [hsim.pred]
  · show min u mt.minFree = min u m.minFree
    rw [hsim.minFree]
  · exact hsim.cache
  · intro k hk
    show (((mt.ref.erase u).insert n.lo.natAbs (ra - da)).insert n.hi.natAbs (rb - db))[k]? =
      (((m.ref.erase u).insert n.lo.natAbs ra).insert n.hi.natAbs rb)[k]?
    rw [ref3_lookup, ref3_lookup]
    by_cases h1 : n.hi.natAbs = k
    · have : db = 0 := by simp [db, h1, hk]
      simp [h1, this]
    · by_cases h2 : n.lo.natAbs = k
      · have : da = 0 := by simp [da, h2, hk]
        simp [h1, h2, this]
      · simp only [h1, h2, if_false]
        split
        · rfl
        · exact hsim.ref k hk
  · -- the terminal
    show ∃ c', (((m.ref.erase u).insert n.lo.natAbs ra).insert n.hi.natAbs rb)[(1 : Nat)]? = some (c' + 1) ∧
      (((mt.ref.erase u).insert n.lo.natAbs (ra - da)).insert n.hi.natAbs (rb - db))[(1 : Nat)]? = some c'
    rw [ref3_lookup, ref3_lookup]
    have hu1' : ¬ u = 1 := hu1
    by_cases h1 : n.hi.natAbs = 1
    · have hdb : db = 1 := by simp [db, h1]
      refine ⟨rb - 1, ?_, ?_⟩
      · simp only [h1, if_true]; congr 1; have := hrbT.2; omega
      · simp only [h1, if_true, hdb]
    · by_cases h2 : n.lo.natAbs = 1
      · have hda : da = 1 := by simp [da, h2]
        refine ⟨ra - 1, ?_, ?_⟩
        · simp only [h1, h2, if_true, if_false]; congr 1; have := hraT.2; omega
        · simp only [h1, h2, if_true, if_false, hda]
      · refine ⟨c, ?_, ?_⟩
        · simp only [h1, h2, hu1', if_false]; exact hc1
        · simp only [h1, h2, hu1', if_false]; exact hc2

/-- the whole loop on both states -/
theorem sim_loop : ∀ (f : Nat) (m mt : Mgr) (ext : Nat → Nat) (work : List Nat), GcInv m ext work →
    Sim1 m mt → m.tbl.succ.size ≤ f →
    ∃ mf mtf, gcLoop f work m = (.ok (), mf) ∧ gcLoop f work mt = (.ok (), mtf) ∧ Sim1 mf mtf ∧
      GcRun m work mf := by
  intro f
  induction f with
  | zero =>
    intro m mt ext work hi hsim hf
    cases work with
    | nil => exact ⟨m, mt, rfl, rfl, hsim, GcRun.done m⟩
    | cons u rest =>
      exfalso
      obtain ⟨n, m', work', -, -, hp, -, -⟩ := hi.step (u := u) (by simp)
      have := hp.size; omega
  | succ f ih =>
    intro m mt ext work hi hsim hf
    cases work with
    | nil => exact ⟨m, mt, rfl, rfl, hsim, GcRun.done m⟩
    | cons u rest =>
      obtain ⟨n, m', work', -, hrun, hp, hi', -⟩ := hi.step (u := u) (by simp)
      rw [List.erase_cons_head] at hrun
      obtain ⟨w2, m2, mt2, hr2, hrt2, hsim2⟩ :=
        sim_step m mt ext u rest hi.invS hi.refExact (hi.zero u (by simp)) hsim
      rw [hrun] at hr2
      cases hr2
      obtain ⟨mf, mtf, hl, hlt, hsf, hrf⟩ := ih m' mt2 ext work' hi' hsim2 (by have := hp.size; omega)
      refine ⟨mf, mtf, ?_, ?_, hsf, GcRun.step (u := u) (by simp) (by rw [List.erase_cons_head]; exact hrun) hrf⟩
      · show (gcStep u rest >>= fun work => gcLoop f work) m = _
        simp only [bind, M.bind', hrun]
        exact hl
      · show (gcStep u rest >>= fun work => gcLoop f work) mt = _
        simp only [bind, M.bind', hrt2]
        exact hlt

/-- once every `Function` of a manager is gone, the manager's shutdown check
(`dd.bdd.BDD.__del__`) passes, WHATEVER garbage is still stored: the terminal's own reference is
released, the collection removes every node, and every count is zero — no hypothesis -/
theorem autoref_shutdown {off : Bool} (a : AMgr) (hi : AInv off a) (he : a.handles.isEmpty = true) :
    ∃ m', shutdown a.m = (.ok (), m') ∧ (∀ u : Nat, m'.tbl.node? u = none) ∧
      (∀ (k c : Nat), m'.ref[k]? = some c → c = 0) := by
  have hext0 : hext a = fun _ => 0 := funext fun k => hcount_of_isEmpty _ _ he
  have hr : RefExact a.m (fun _ => 0) := by rw [← hext0]; exact hi.counts
  have hI := hi.inv
  have hone : a.m.tbl.Mem (1 : Int) := Or.inl rfl
  have hr1 : a.m.ref[(1 : Nat)]? = some (indeg a.m.tbl 1 + 1) := by
    have := hr.get hone
    simpa using this
  have hd : decref 1 a.m = (.ok (), { a.m with ref := a.m.ref.insert 1 (indeg a.m.tbl 1) }) :=
    decref_eq a.m 1 _ hr1
  -- the lowered state and the simulation
  have hsim : Sim1 a.m { a.m with ref := a.m.ref.insert 1 (indeg a.m.tbl 1) } :=
    ⟨rfl, rfl, rfl, rfl, fun k hk => getElem?_insert_ne _ _ _ _ hk,
      ⟨indeg a.m.tbl 1, hr1, TreeMap.getElem?_insert_self⟩⟩
  generalize hmt : ({ a.m with ref := a.m.ref.insert 1 (indeg a.m.tbl 1) } : Mgr) = mt at hd hsim
  -- the worklist of the lowered state is a complete worklist of the exact state
  have hroots : ∀ r ∈ gcRoots none mt, (mt.ref[r.natAbs]?).isSome := by
    intro r hr'
    exact (gcRoots_none_mem mt r.natAbs).mp ⟨r, hr', rfl⟩
  obtain ⟨L, hL, hnd, hmem⟩ := unusedOf_spec mt _ hroots
  have hzero : ∀ w ∈ L, a.m.ref[w]? = some 0 := by
    intro w hw
    obtain ⟨r, _, _, h0, hw1⟩ := (hmem w).mp hw
    rw [← hsim.ref w hw1]; exact h0
  have hinv : GcInv a.m (fun _ => 0) L := ⟨hI.toInvS, hr, hzero, hnd⟩
  have hcomp : GcComplete a.m L := by
    intro k hk
    have hk1 : k ≠ 1 := by
      intro h; subst h
      rw [hr1] at hk; cases hk
    have hkt : mt.ref[k]? = some 0 := by rw [hsim.ref k hk1]; exact hk
    rw [hmem]
    obtain ⟨r, hr', hrk⟩ := (gcRoots_none_mem mt k).mpr (by rw [hkt]; rfl)
    exact ⟨r, hr', hrk, hkt, hk1⟩
  obtain ⟨mf, mtf, hl, hlt, hsf, hrun⟩ :=
    sim_loop (a.m.tbl.succ.size + 1) a.m mt (fun _ => 0) L hinv hsim (by omega)
  obtain ⟨hif, hsub, _, hnz⟩ := hrun.spec hinv
  obtain ⟨hIf, hRf, _⟩ := gcFinish_post hif hsub
  -- nothing is left on the exact side
  have hnone : ∀ u : Nat, (gcFinish mf).tbl.node? u = none :=
    no_nodes_of_no_ext (gcFinish mf) hIf
      (fun u n hn => by
        have h2 := hIf.wf.ge_two u n hn
        rw [hRf.lookup u, if_pos (Or.inr (by rw [hn]; rfl))]
        have : ¬ u = 1 := by omega
        simp [this])
      (fun u n _ => hnz hcomp u)
  have hnoneT : ∀ u : Nat, (gcFinish mtf).tbl.node? u = none := fun u => by
    show mtf.tbl.node? u = none
    rw [hsf.tbl]; exact hnone u
  have hzeroT : ∀ (k c : Nat), (gcFinish mtf).ref[k]? = some c → c = 0 := by
    intro k c hk
    have hk' : mtf.ref[k]? = some c := hk
    by_cases hk1 : k = 1
    · subst hk1
      obtain ⟨c0, h1, h2⟩ := hsf.one
      have hl1 := hRf.lookup 1
      rw [indeg_zero_of_no_nodes _ hnone 1] at hl1
      have : (gcFinish mf).ref[(1 : Nat)]? = some (c0 + 1) := h1
      rw [this] at hl1
      simp at hl1
      rw [h2] at hk'
      cases hk'
      omega
    · rw [hsf.ref k hk1] at hk'
      have hlk := hRf.lookup k
      have : (gcFinish mf).ref[k]? = some c := hk'
      rw [this, if_neg (by
        intro h
        rcases h with h | h
        · exact hk1 h
        · rw [hnone k] at h; cases h)] at hlk
      cases hlk
  -- the collection on the lowered state
  have hgc : collectGarbage none mt = (.ok (), gcFinish mtf) := by
    rw [collectGarbage_eq]
    have hsz : mt.tbl.succ.size = a.m.tbl.succ.size := by rw [hsim.tbl]
    simp only [gcBody, hL, hsz, hlt]
    have hs1 := hsub.size
    rw [if_pos (by
      show mtf.tbl.succ.size + 1 ≤ mt.tbl.succ.size + 1
      rw [hsf.tbl, hsz]; omega)]
  refine ⟨gcFinish mtf, ?_, hnoneT, hzeroT⟩
  have hany : ((gcFinish mtf).ref.toList.any (fun (kv : Nat × Nat) => kv.2 != 0)) = false := by
    rw [List.any_eq_false]
    intro kv hkv
    have := hzeroT kv.1 kv.2 (TreeMap.mem_toList_iff_getElem?_eq_some.mp hkv)
    simp [this]
  unfold shutdown
  change M.bind' (refOf 1) _ a.m = _
  unfold M.bind'
  rw [refOf_eq a.m 1 _ hr1]
  simp only
  change M.bind' (if indeg a.m.tbl 1 + 1 > 0 then decref 1 else pure ()) _ a.m = _
  unfold M.bind'
  rw [if_pos (by omega), hd]
  simp only
  change M.bind' (collectGarbage none) _ _ = _
  unfold M.bind'
  rw [hgc]
  simp only
  change M.bind' M.get _ _ = _
  unfold M.bind' M.get
  simp only
  unfold M.assert
  rw [hany]
  rfl

end DD
