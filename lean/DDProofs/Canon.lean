/-
  DDProofs.Canon — canonicity: two references of a reduced, ordered, unique table
  denote the same function iff they are equal (complemented edges included).
-/
import DDProofs.Sem
open Std

namespace DD

def upd (a : Asg) (i : Nat) (b : Bool) : Asg := fun j => if j = i then b else a j

@[simp] theorem upd_same (a : Asg) (i : Nat) (b : Bool) : upd a i b i = b := by simp [upd]
theorem upd_other (a : Asg) (i j : Nat) (b : Bool) (h : j ≠ i) : upd a i b j = a j := by simp [upd, h]

theorem abs_one {u : Int} (h : u.natAbs = 1) : u = 1 ∨ u = -1 := by omega

structure WFU (m : Tbl) : Prop extends WF m where
  unique : ∀ u u' n, m.node? u = some n → m.node? u' = some n → u = u'

/-- a reference whose level is above `i` does not depend on `i` -/
theorem den_indep (m : Tbl) (hw : WF m) :
    ∀ k u, m.Mem u → m.nvars ≤ k + m.levelOf u → ∀ i b a, i < m.levelOf u → den m u (upd a i b) = den m u a := by
  intro k
  induction k with
  | zero =>
    intro u hm hk i b a hi
    -- levelOf u ≥ nvars → terminal
    by_cases h1 : u.natAbs = 1
    · rcases abs_one h1 with h | h <;> subst h
      · simp [den_one]
      · exact (den_neg_one m _).trans (den_neg_one m _).symm
    · rcases hm with hm | hm
      · exact absurd hm h1
      · obtain ⟨n, hn⟩ := Option.isSome_iff_exists.mp hm
        have hl : m.levelOf u = n.lvl := by simp [Tbl.levelOf, h1, hn]
        have := hw.lvl_lt _ _ hn
        omega
  | succ k ih =>
    intro u hm hk i b a hi
    by_cases h1 : u.natAbs = 1
    · rcases abs_one h1 with h | h <;> subst h
      · simp [den_one]
      · exact (den_neg_one m _).trans (den_neg_one m _).symm
    · rcases hm with hm | hm
      · exact absurd hm h1
      · obtain ⟨n, hn⟩ := Option.isSome_iff_exists.mp hm
        have hl : m.levelOf u = n.lvl := by simp [Tbl.levelOf, h1, hn]
        rw [den_node m hw u n _ h1 hn, den_node m hw u n _ h1 hn]
        have h2 := hw.hi_lt _ _ hn
        have h3 := hw.lo_lt _ _ hn
        rw [ih n.hi (hw.hi_mem _ _ hn) (by omega) i b a (by omega),
            ih n.lo (hw.lo_mem _ _ hn) (by omega) i b a (by omega)]
        have : n.lvl ≠ i := by omega
        rw [upd_other _ _ _ _ this]

theorem den_indep' (m : Tbl) (hw : WF m) (u : Int) (hm : m.Mem u) (i : Nat) (b : Bool) (a : Asg)
    (hi : i < m.levelOf u) : den m u (upd a i b) = den m u a :=
  den_indep m hw m.nvars u hm (by omega) i b a hi

/-- regular references are true under the all-true assignment -/
theorem den_alltrue (m : Tbl) (hw : WF m) :
    ∀ k u, m.Mem u → m.nvars ≤ k + m.levelOf u → den m u (fun _ => true) = decide (0 < u) := by
  intro k
  induction k with
  | zero =>
    intro u hm hk
    by_cases h1 : u.natAbs = 1
    · rcases abs_one h1 with h | h <;> subst h
      · simp [den_one]
      · rw [den_neg_one]; simp
    · rcases hm with hm | hm
      · exact absurd hm h1
      · obtain ⟨n, hn⟩ := Option.isSome_iff_exists.mp hm
        have hl : m.levelOf u = n.lvl := by simp [Tbl.levelOf, h1, hn]
        have := hw.lvl_lt _ _ hn
        omega
  | succ k ih =>
    intro u hm hk
    by_cases h1 : u.natAbs = 1
    · rcases abs_one h1 with h | h <;> subst h
      · simp [den_one]
      · rw [den_neg_one]; simp
    · rcases hm with hm | hm
      · exact absurd hm h1
      · obtain ⟨n, hn⟩ := Option.isSome_iff_exists.mp hm
        have hl : m.levelOf u = n.lvl := by simp [Tbl.levelOf, h1, hn]
        rw [den_node m hw u n _ h1 hn]
        have h2 := hw.hi_lt _ _ hn
        simp only [if_true]
        rw [ih n.hi (hw.hi_mem _ _ hn) (by omega)]
        have hp := hw.hi_pos _ _ hn
        have hu0 : u ≠ 0 := by intro h; subst h; simp at h1; have := hw.ge_two _ _ hn; simp at this
        by_cases hneg : u < 0
        · have : ¬ (0 < u) := by omega
          simp [hneg, hp, this]
        · have : 0 < u := by omega
          simp [hneg, hp, this]


theorem levelOf_node (m : Tbl) (u : Int) (n : Nd) (h1 : u.natAbs ≠ 1) (hn : m.node? u.natAbs = some n) :
    m.levelOf u = n.lvl := by simp [Tbl.levelOf, h1, hn]

theorem levelOf_term (m : Tbl) (u : Int) (h1 : u.natAbs = 1) : m.levelOf u = m.nvars := by
  simp [Tbl.levelOf, h1]

/-- cofactor equations for a positive node -/
theorem den_hi_eq (m : Tbl) (hw : WF m) (u : Int) (n : Nd) (hpos : 0 < u) (h1 : u.natAbs ≠ 1)
    (hn : m.node? u.natAbs = some n) (a : Asg) :
    den m n.hi a = den m u (upd a n.lvl true) := by
  rw [den_node m hw u n _ h1 hn]
  have : ¬ u < 0 := by omega
  simp only [this, decide_false, Bool.false_bne, upd_same, if_true]
  exact (den_indep' m hw n.hi (hw.hi_mem _ _ hn) n.lvl true a (hw.hi_lt _ _ hn)).symm

theorem den_lo_eq (m : Tbl) (hw : WF m) (u : Int) (n : Nd) (hpos : 0 < u) (h1 : u.natAbs ≠ 1)
    (hn : m.node? u.natAbs = some n) (a : Asg) :
    den m n.lo a = den m u (upd a n.lvl false) := by
  rw [den_node m hw u n _ h1 hn]
  have : ¬ u < 0 := by omega
  simp only [this, decide_false, Bool.false_bne, upd_same]
  simp
  exact (den_indep' m hw n.lo (hw.lo_mem _ _ hn) n.lvl false a (hw.lo_lt _ _ hn)).symm

theorem mem_ne_zero' (m : Tbl) (hw : WF m) {u : Int} (h : m.Mem u) : u ≠ 0 := by
  intro h0; subst h0
  rcases h with h | h
  · simp at h
  · obtain ⟨n, hn⟩ := Option.isSome_iff_exists.mp h
    have := hw.ge_two _ _ hn
    simp at this

theorem mem_neg' {m : Tbl} {u : Int} (h : m.Mem u) : m.Mem (-u) := by
  unfold Tbl.Mem at *; simpa using h

theorem levelOf_neg' (m : Tbl) (u : Int) : m.levelOf (-u) = m.levelOf u := by
  unfold Tbl.levelOf; simp

abbrev CanonAt (m : Tbl) (k : Nat) : Prop :=
  ∀ u v, m.Mem u → m.Mem v → m.nvars ≤ k + min (m.levelOf u) (m.levelOf v) →
    (∀ a, den m u a = den m v a) → u = v

/-- a positive node is never constant-true-equal to the terminal -/
theorem canon_term_node (m : Tbl) (hw : WFU m) (k : Nat) (ih : CanonAt m k)
    (v : Int) (n : Nd) (hpos : 0 < v) (h1 : v.natAbs ≠ 1) (hn : m.node? v.natAbs = some n)
    (hb : m.nvars ≤ k + 1 + n.lvl) (he : ∀ a, den m v a = true) : False := by
  have hW := hw.toWF
  have hhi : n.hi = 1 := by
    apply ih n.hi 1 (hW.hi_mem _ _ hn) (Or.inl rfl)
    · have := hW.hi_lt _ _ hn
      have : m.levelOf 1 = m.nvars := levelOf_term m 1 rfl
      have := levelOf_le m hW n.hi
      omega
    · intro a; rw [den_hi_eq m hW v n hpos h1 hn a, he, den_one]
  have hlo : n.lo = 1 := by
    apply ih n.lo 1 (hW.lo_mem _ _ hn) (Or.inl rfl)
    · have := hW.lo_lt _ _ hn
      have : m.levelOf 1 = m.nvars := levelOf_term m 1 rfl
      have := levelOf_le m hW n.lo
      omega
    · intro a; rw [den_lo_eq m hW v n hpos h1 hn a, he, den_one]
  exact hW.lo_ne_hi _ _ hn (hlo.trans hhi.symm)

/-- a positive node at a strictly higher level cannot equal one that starts lower -/
theorem canon_lt (m : Tbl) (hw : WFU m) (k : Nat) (ih : CanonAt m k)
    (u v : Int) (n : Nd) (hpos : 0 < u) (h1 : u.natAbs ≠ 1) (hn : m.node? u.natAbs = some n)
    (hv : m.Mem v) (hlt : n.lvl < m.levelOf v)
    (hb : m.nvars ≤ k + 1 + n.lvl) (he : ∀ a, den m u a = den m v a) : False := by
  have hW := hw.toWF
  have : n.hi = n.lo := by
    apply ih n.hi n.lo (hW.hi_mem _ _ hn) (hW.lo_mem _ _ hn)
    · have := hW.hi_lt _ _ hn
      have := hW.lo_lt _ _ hn
      omega
    · intro a
      rw [den_hi_eq m hW u n hpos h1 hn a, den_lo_eq m hW u n hpos h1 hn a, he, he,
        den_indep' m hW v hv n.lvl true a hlt, den_indep' m hW v hv n.lvl false a hlt]
  exact hW.lo_ne_hi _ _ hn this.symm

theorem canon_pos (m : Tbl) (hw : WFU m) (k : Nat) (ih : CanonAt m k)
    (u v : Int) (hu : 0 < u) (hv : 0 < v) (hmu : m.Mem u) (hmv : m.Mem v)
    (hb : m.nvars ≤ k + 1 + min (m.levelOf u) (m.levelOf v))
    (he : ∀ a, den m u a = den m v a) : u = v := by
  have hW := hw.toWF
  by_cases hu1 : u.natAbs = 1
  · have hu' : u = 1 := by omega
    by_cases hv1 : v.natAbs = 1
    · omega
    · exfalso
      rcases hmv with h | h
      · exact hv1 h
      · obtain ⟨n, hn⟩ := Option.isSome_iff_exists.mp h
        have hl := levelOf_node m v n hv1 hn
        have hlu := levelOf_term m u hu1
        have := hW.lvl_lt _ _ hn
        refine canon_term_node m hw k ih v n hv hv1 hn (by omega) ?_
        intro a; rw [← he a, hu', den_one]
  · rcases hmu with h | h
    · exact absurd h hu1
    · obtain ⟨nu, hnu⟩ := Option.isSome_iff_exists.mp h
      have hlu := levelOf_node m u nu hu1 hnu
      have hltu := hW.lvl_lt _ _ hnu
      by_cases hv1 : v.natAbs = 1
      · exfalso
        have hv' : v = 1 := by omega
        have hlv := levelOf_term m v hv1
        refine canon_term_node m hw k ih u nu hu hu1 hnu (by omega) ?_
        intro a; rw [he a, hv', den_one]
      · rcases hmv with h' | h'
        · exact absurd h' hv1
        · obtain ⟨nv, hnv⟩ := Option.isSome_iff_exists.mp h'
          have hlv := levelOf_node m v nv hv1 hnv
          have hltv := hW.lvl_lt _ _ hnv
          rcases Nat.lt_trichotomy nu.lvl nv.lvl with hlt | heq | hgt
          · exfalso
            exact canon_lt m hw k ih u v nu hu hu1 hnu (Or.inr h') (by omega) (by omega) he
          · -- same level
            have hhi : nu.hi = nv.hi := by
              apply ih nu.hi nv.hi (hW.hi_mem _ _ hnu) (hW.hi_mem _ _ hnv)
              · have := hW.hi_lt _ _ hnu; have := hW.hi_lt _ _ hnv; omega
              · intro a
                rw [den_hi_eq m hW u nu hu hu1 hnu a, den_hi_eq m hW v nv hv hv1 hnv a, heq, he]
            have hlo : nu.lo = nv.lo := by
              apply ih nu.lo nv.lo (hW.lo_mem _ _ hnu) (hW.lo_mem _ _ hnv)
              · have := hW.lo_lt _ _ hnu; have := hW.lo_lt _ _ hnv; omega
              · intro a
                rw [den_lo_eq m hW u nu hu hu1 hnu a, den_lo_eq m hW v nv hv hv1 hnv a, heq, he]
            have hnd : nu = nv := by
              cases nu; cases nv; simp_all
            have := hw.unique _ _ _ hnu (hnd ▸ hnv)
            omega
          · exfalso
            exact canon_lt m hw k ih v u nv hv hv1 hnv (Or.inr h) (by omega) (by omega) (fun a => (he a).symm)

theorem canon_all (m : Tbl) (hw : WFU m) : ∀ k, CanonAt m k := by
  have hW := hw.toWF
  intro k
  induction k with
  | zero =>
    intro u v hmu hmv hb he
    have h1 := levelOf_le m hW u
    have h2 := levelOf_le m hW v
    have hs1 := den_alltrue m hW m.nvars u hmu (by omega)
    have hs2 := den_alltrue m hW m.nvars v hmv (by omega)
    rw [he] at hs1
    have hsign : decide (0 < u) = decide (0 < v) := hs1.symm.trans hs2
    have tu : u.natAbs = 1 := by
      by_cases hc : u.natAbs = 1
      · exact hc
      · exfalso
        rcases hmu with h | h
        · exact hc h
        · obtain ⟨n, hn⟩ := Option.isSome_iff_exists.mp h
          have := levelOf_node m u n hc hn
          have := hW.lvl_lt _ _ hn
          omega
    have tv : v.natAbs = 1 := by
      by_cases hc : v.natAbs = 1
      · exact hc
      · exfalso
        rcases hmv with h | h
        · exact hc h
        · obtain ⟨n, hn⟩ := Option.isSome_iff_exists.mp h
          have := levelOf_node m v n hc hn
          have := hW.lvl_lt _ _ hn
          omega
    rcases abs_one tu with h | h <;> rcases abs_one tv with h' | h' <;> subst h <;> subst h' <;> simp at hsign <;> rfl
  | succ k ih =>
    intro u v hmu hmv hb he
    have hs1 := den_alltrue m hW m.nvars u hmu (by have := levelOf_le m hW u; omega)
    have hs2 := den_alltrue m hW m.nvars v hmv (by have := levelOf_le m hW v; omega)
    rw [he] at hs1
    have hsign : decide (0 < u) = decide (0 < v) := hs1.symm.trans hs2
    have hu0 := mem_ne_zero' m hW hmu
    have hv0 := mem_ne_zero' m hW hmv
    by_cases hp : 0 < u
    · have hpv : 0 < v := by simpa [hp] using hsign
      exact canon_pos m hw k ih u v hp hpv hmu hmv (by omega) he
    · have hpv : ¬ 0 < v := by simpa [hp] using hsign
      have : -u = -v := by
        apply canon_pos m hw k ih (-u) (-v) (by omega) (by omega) (mem_neg' hmu) (mem_neg' hmv)
        · rw [levelOf_neg', levelOf_neg']; omega
        · intro a; rw [den_neg m hW u a hmu, den_neg m hW v a hmv, he]
      omega

theorem canonical (m : Tbl) (hw : WFU m) (u v : Int) (hu : m.Mem u) (hv : m.Mem v) :
    (∀ a, den m u a = den m v a) ↔ u = v := by
  constructor
  · exact canon_all m hw m.nvars u v hu hv (by omega)
  · intro h; subst h; intro a; rfl


end DD
