/-
  DDProofs.DynSchedOps — the instances of DDProofs.DynOps / DynOps2 / DynApply / DynCopy /
  DynCube / DynExpr / DynImageOps / DynImageKeys and of DDProofs.DynRejectedOps /
  DynRejectedExpr, re-derived for EVERY recorded schedule.

  Each existing instance is `tryToReorder_transparent` applied to a triple (body, `Pre`, `Doc`)
  with the operands `ops`; the hypotheses `hbody` / `hpre` / `hdoc` on the triple do not mention
  the schedule.  Here the SAME triples (same bodies, same `Pre`, same `Doc`, same `ops`, the
  same abort-aware lemmas `*_out` for `hbody`) are fed to `tryToReorder_transparentS`; the
  conclusion is `DynOutS ext Doc m (op … m)` from `DynInvS ext m`: the documented result with
  `DynPostS`, or the model's `.sched` report (only when a schedule was recorded).  Likewise the
  `*_total_dyn` theorems are `tryToReorder_total_dyn` applied to the `*_totE` lemmas; here
  `tryToReorder_total_dynS` is applied to the same lemmas.
-/
import DDProofs.DynSched
import DDProofs.DynApply
import DDProofs.DynCube
import DDProofs.DynExpr
import DDProofs.DynImageKeys
import DDProofs.DynRejectedExpr
open Std

namespace DD

/-! ### `ite`, `var`, `quantify`, `cofactor`, `compose`, `rename` -/

/-- `ite`, every schedule (triple of `ite_transparent`) -/
theorem ite_transparentS (ext : Nat → Nat) (m : Mgr) (hD : DynInvS ext m)
    (g u v : Int) (hg : HeldX ext g) (hu : HeldX ext u) (hv : HeldX ext v) :
    DynOutS ext (IteDoc g u v) m (ite g u v m) := by
  unfold ite
  refine tryToReorder_transparentS ext (siftContractS ext) (iteRaw g u v) [g, u, v]
    (fun _ => True) (IteDoc g u v) ?_ (fun _ _ _ _ => trivial) ?_ m hD ?_ trivial
  · intro m0 hI0 _ _ _ hmem
    have mg := hmem g (by simp)
    have mu := hmem u (by simp)
    have mv := hmem v (by simp)
    rw [iteRaw_eq]
    refine (iteF_out (m0.nvars + 2) m0 g u v hI0 mg mu mv (by omega)).mono ?_
    intro r m1 _ hp
    refine ⟨hp.mem, fun σ => ?_⟩
    have hl : m1.tbl.l2v = m0.tbl.l2v := hp.frame.l2v
    unfold denN Tbl.lift Tbl.nameOf
    rw [hl, hp.den]
  · intro t t' r t'' hB _ hd
    refine ⟨hd.1, fun σ => ?_⟩
    rw [hd.2 σ, (hB.ops g (by simp)).2 σ, (hB.ops u (by simp)).2 σ, (hB.ops v (by simp)).2 σ]
  · intro w hw
    simp only [List.mem_cons, List.not_mem_nil, or_false] at hw
    rcases hw with rfl | rfl | rfl
    · exact hg
    · exact hu
    · exact hv

/-- `var`, every schedule (triple of `var_transparent`) -/
theorem var_transparentS (ext : Nat → Nat) (m : Mgr) (hD : DynInvS ext m)
    (name : String) (hdecl : m.tbl.vars.contains name = true) :
    DynOutS ext (VarDoc name) m (var name m) := by
  rw [var_eq_dynVarBody]
  refine tryToReorder_transparentS ext (siftContractS ext) (dynVarBody name) []
    (fun t => t.vars.contains name = true)
    (VarDoc name) ?_ ?_ (fun _ _ _ _ _ _ hd => hd) m hD (fun _ h => by cases h) hdecl
  · intro m0 hI0 _ hO hpre _
    obtain ⟨j, hj⟩ := (vars_contains_iff m0.tbl name).mp hpre
    have hb : dynVarBody name m0 = findOrAdd (j : Int) (-1) 1 m0 := by
      simp [dynVarBody, bind, M.bind', M.get, hj]
    rw [hb]
    refine (varNode_out m0 hI0 j (hO.lt name j hj)).mono ?_
    intro g m1 hs ⟨hg, _, hd⟩
    refine ⟨hg, fun σ => ?_⟩
    unfold denN
    rw [hd]
    show σ (m1.tbl.nameOf j) = σ name
    have hl : m1.tbl.l2v = m0.tbl.l2v := hs.frame.l2v
    have : m1.tbl.nameOf j = name := by
      unfold Tbl.nameOf; rw [hl]; exact hO.nameOf_level hj
    rw [this]
  · intro t t' hB hpre
    rw [hB.names name]; exact hpre

/-- `quantify` / `exist` / `forall`, every schedule (triple of `quantify_transparent`) -/
theorem quantify_transparentS (ext : Nat → Nat) (m : Mgr) (hD : DynInvS ext m) (u : Int)
    (hu : HeldX ext u) (fa : Bool) (names : List String)
    (hdecl : ∀ s ∈ names, m.tbl.vars.contains s = true) :
    DynOutS ext (QuantDoc fa names u) m (quantify u (names.map Key.name) fa m) := by
  unfold quantify
  refine tryToReorder_transparentS ext (siftContractS ext)
    (quantifyBody u (names.map Key.name) fa) [u]
    (fun t => ∀ s ∈ names, t.vars.contains s = true) (QuantDoc fa names u) ?_ ?_ ?_ m hD ?_ hdecl
  · intro m0 hI0 hc hO hpre hmem
    exact quantifyBody_out m0 hI0 (Or.inl hc) hO u (hmem u (by simp)) fa names hpre
  · intro t t' hB hpre s hs
    rw [hB.names s]; exact hpre s hs
  · intro t t' r t'' hB _ hd
    refine ⟨hd.1, fun σ => ?_⟩
    rw [hd.2 σ]
    exact qsemN_congr fa names _ _ (fun τ => (hB.ops u (by simp)).2 τ) σ
  · intro w hw
    simp only [List.mem_cons, List.not_mem_nil, or_false] at hw
    subst hw; exact hu

/-- `cofactor`, every schedule (triple of `cofactor_transparent`) -/
theorem cofactor_transparentS (ext : Nat → Nat) (m : Mgr) (hD : DynInvS ext m) (u : Int)
    (hu : HeldX ext u) (vals : List (String × Bool))
    (hdecl : ∀ p ∈ vals, m.tbl.vars.contains p.1 = true) :
    DynOutS ext (CofDoc vals u) m (cofactor u (boolKeys vals) m) := by
  unfold cofactor
  refine tryToReorder_transparentS ext (siftContractS ext) (cofactorBody u (boolKeys vals)) [u]
    (fun t => ∀ p ∈ vals, t.vars.contains p.1 = true) (CofDoc vals u) ?_ ?_ ?_ m hD ?_ hdecl
  · intro m0 hI0 _ hO hpre hmem
    exact cofactorBody_out m0 hI0 hO u (hmem u (by simp)) vals hpre
  · intro t t' hB hpre p hp
    rw [hB.names p.1]; exact hpre p hp
  · intro t t' r t'' hB _ hd
    refine ⟨hd.1, fun σ => ?_⟩
    rw [hd.2 σ, (hB.ops u (by simp)).2]
  · intro w hw
    simp only [List.mem_cons, List.not_mem_nil, or_false] at hw
    subst hw; exact hu

/-- `compose`, every schedule (triple of `compose_transparent`) -/
theorem compose_transparentS (ext : Nat → Nat) (m : Mgr) (hD : DynInvS ext m) (f : Int)
    (hf : HeldX ext f) (varSub : List (String × Int))
    (hdecl : ∀ p ∈ varSub, m.tbl.vars.contains p.1 = true)
    (hheld : ∀ p ∈ varSub, HeldX ext p.2) :
    DynOutS ext (ComposeDoc varSub f) m (compose f varSub m) := by
  unfold compose
  refine tryToReorder_transparentS ext (siftContractS ext) (composeBody f varSub)
    (f :: varSub.map (·.2))
    (fun t => ∀ p ∈ varSub, t.vars.contains p.1 = true) (ComposeDoc varSub f) ?_ ?_ ?_ m hD ?_ hdecl
  · intro m0 hI0 hc hO hpre hmem
    exact composeBody_out m0 hI0 (Or.inl hc) hO f (hmem f List.mem_cons_self) varSub hpre
      (fun p hp => hmem p.2 (List.mem_cons_of_mem _ (List.mem_map.mpr ⟨p, hp, rfl⟩)))
  · intro t t' hB hpre p hp
    rw [hB.names p.1]; exact hpre p hp
  · intro t t' r t'' hB _ hd
    refine ⟨hd.1, fun σ => ?_⟩
    rw [hd.2 σ, (hB.ops f List.mem_cons_self).2]
    have : subN t' varSub σ = subN t varSub σ := by
      funext s
      unfold subN
      cases hl : varSub.lookup s with
      | none => rfl
      | some g =>
        have hg : g ∈ f :: varSub.map (·.2) :=
          List.mem_cons_of_mem _ (List.mem_map.mpr ⟨(s, g), lookup_some_mem s g _ hl, rfl⟩)
        exact (hB.ops g hg).2 σ
    rw [this]
  · intro w hw
    rcases List.mem_cons.mp hw with rfl | hw
    · exact hf
    · obtain ⟨p, hp, rfl⟩ := List.mem_map.mp hw
      exact hheld p hp

/-- `rename`, every schedule (triple of `rename_transparent`) -/
theorem rename_transparentS (ext : Nat → Nat) (m : Mgr) (hD : DynInvS ext m) (u : Int)
    (hu : HeldX ext u) (dvars : List (String × String))
    (hd : ∀ p ∈ dvars, m.tbl.vars.contains p.2 = true) :
    DynOutS ext (RenameDoc dvars u) m (rename u dvars m) := by
  unfold rename
  refine tryToReorder_transparentS ext (siftContractS ext) (renameBody u dvars) [u]
    (fun t => ∀ p ∈ dvars, t.vars.contains p.2 = true) (RenameDoc dvars u) ?_ ?_ ?_ m hD ?_ hd
  · intro m0 hI0 hc hO hpre hmem
    exact renameBody_out m0 hI0 (Or.inl hc) hO u (hmem u (by simp)) dvars hpre
  · intro t t' hB hpre p hp
    rw [hB.names p.2]; exact hpre p hp
  · intro t t' r t'' hB _ hdoc
    refine ⟨hdoc.1, fun σ => ?_⟩
    rw [hdoc.2 σ, (hB.ops u (by simp)).2]
  · intro w hw
    simp only [List.mem_cons, List.not_mem_nil, or_false] at hw
    subst hw; exact hu

/-! ### `apply` -/

/-- `apply(op, u, v)` for every binary propositional alias, every schedule: the call IS
`ite(xa, xb, xd)` on atoms of the operands (as in `apply_binary_transparent`) -/
theorem apply_binary_transparentS (ext : Nat → Nat) (m : Mgr)
    (hD : DynInvS ext m) (op : String) (c : Conn) (hc : docConn op = some c) (h2 : c.arity = 2)
    (hq1 : c ≠ .forall_) (hq2 : c ≠ .exists_) (hall : Gen.allOps.contains op = true)
    (u v : Int) (hu : HeldX ext u) (hv : HeldX ext v) :
    DynOutS ext (ConnDoc c u v) m (apply op u (some v) none m) := by
  have hI := hD.inv
  have hW := hI.wf.toWF
  have mu : m.tbl.Mem u := hu.mem hD.refs
  have mv : m.tbl.Mem v := hv.mem hD.refs
  obtain ⟨row, a, b, d, hrow, ht, hoa, hob, hod, hwa, hwb, hwd, htab⟩ :=
    table_binary op c hc h2 hq1 hq2 hall
  have hv' := vocab_complete
  unfold vocabComplete at hv'
  simp only [Bool.and_eq_true, List.all_eq_true] at hv'
  have hmem : op ∈ Gen.allOps := by simpa using hall
  have har := hv'.2 op hmem
  rw [hc] at har
  simp only [h2, Bool.and_eq_true, beq_iff_eq] at har
  have hun : Gen.unaryOps.contains op = false := by
    have := har.1.1; simpa using this.symm
  have hbi : Gen.binaryOps.contains op = true := by
    have := har.1.2; simpa using this.symm
  have harity : assertOperatorArity op (some v) none = .ok () := by
    unfold assertOperatorArity
    rw [hall, hun, hbi]
    rfl
  obtain ⟨xa, hxa, mxa, dxa⟩ := atomVal_den m.tbl hW u v 0 mu mv a hoa hwa
  obtain ⟨xb, hxb, mxb, dxb⟩ := atomVal_den m.tbl hW u v 0 mu mv b hob hwb
  obtain ⟨xd, hxd, mxd, dxd⟩ := atomVal_den m.tbl hW u v 0 mu mv d hod hwd
  have heq : apply op u (some v) none m = ite xa xb xd m := by
    unfold apply
    have hmu : m.mem u = true := (Mgr.mem_iff m u).mpr mu
    have hmv : m.mem v = true := (Mgr.mem_iff m v).mpr mv
    simp only [harity, hmu, hmv, optNotMem, Bool.not_true, Bool.false_eq_true, if_false, hrow, ht,
      hwa, hwb, hwd, Bool.or_self, Option.getD_none, hxa, hxb, hxd]
  rw [heq]
  refine (ite_transparentS ext m hD xa xb xd
    (atomVal_held2 hxa hwa hu hv) (atomVal_held2 hxb hwb hu hv) (atomVal_held2 hxd hwd hu hv)).mono ?_
  intro r t' hd
  refine ⟨hd.1, fun σ => ?_⟩
  rw [hd.2 σ]
  unfold denN
  rw [dxa _ false, dxb _ false, dxd _ false]
  exact htab _ _ _

/-- `apply('ite', u, v, w)`, every schedule -/
theorem apply_ite_transparentS (ext : Nat → Nat) (m : Mgr)
    (hD : DynInvS ext m) (op : String) (hc : docConn op = some .ite)
    (hall : Gen.allOps.contains op = true) (u v w : Int) (hu : HeldX ext u) (hv : HeldX ext v)
    (hw : HeldX ext w) :
    DynOutS ext (Ite3Doc u v w) m (apply op u (some v) (some w) m) := by
  have hI := hD.inv
  have hW := hI.wf.toWF
  have mu : m.tbl.Mem u := hu.mem hD.refs
  have mv : m.tbl.Mem v := hv.mem hD.refs
  have mw : m.tbl.Mem w := hw.mem hD.refs
  obtain ⟨row, a, b, d, hrow, ht, hoa, hob, hod, husesw, htab⟩ := table_ternary op hc hall
  have hv' := vocab_complete
  unfold vocabComplete at hv'
  simp only [Bool.and_eq_true, List.all_eq_true] at hv'
  have hmem : op ∈ Gen.allOps := by simpa using hall
  have har := hv'.2 op hmem
  rw [hc] at har
  simp only [Conn.arity, Bool.and_eq_true, beq_iff_eq] at har
  have hun : Gen.unaryOps.contains op = false := by
    have := har.1.1; simpa using this.symm
  have hbi : Gen.binaryOps.contains op = false := by
    have := har.1.2; simpa using this.symm
  have hte : Gen.ternaryOps.contains op = true := by
    have := har.2; simpa using this.symm
  have harity : assertOperatorArity op (some v) (some w) = .ok () := by
    unfold assertOperatorArity
    rw [hall, hun, hbi, hte]
    rfl
  obtain ⟨xa, hxa, mxa, dxa⟩ := atomVal_den3 m.tbl hW u v w mu mv mw a hoa
  obtain ⟨xb, hxb, mxb, dxb⟩ := atomVal_den3 m.tbl hW u v w mu mv mw b hob
  obtain ⟨xd, hxd, mxd, dxd⟩ := atomVal_den3 m.tbl hW u v w mu mv mw d hod
  have heq : apply op u (some v) (some w) m = ite xa xb xd m := by
    unfold apply
    have hmu : m.mem u = true := (Mgr.mem_iff m u).mpr mu
    have hmv : m.mem v = true := (Mgr.mem_iff m v).mpr mv
    have hmw : m.mem w = true := (Mgr.mem_iff m w).mpr mw
    simp only [harity, hmu, hmv, hmw, optNotMem, Bool.not_true, Bool.false_eq_true, if_false, hrow, ht,
      husesw, if_true, hxa, hxb, hxd]
  rw [heq]
  refine (ite_transparentS ext m hD xa xb xd
    (atomVal_held hxa hu hv hw) (atomVal_held hxb hu hv hw) (atomVal_held hxd hu hv hw)).mono ?_
  intro r t' hd
  refine ⟨hd.1, fun σ => ?_⟩
  rw [hd.2 σ]
  unfold denN
  rw [dxa, dxb, dxd]
  exact htab _ _ _

/-- `apply` with a quantifier alias, every schedule: the call IS `quantify(v, support(u), …)` -/
theorem apply_quant_transparentS (ext : Nat → Nat) (m : Mgr)
    (hD : DynInvS ext m) (op : String) (c : Conn) (hc : docConn op = some c)
    (hq : c = .forall_ ∨ c = .exists_) (hall : Gen.allOps.contains op = true)
    (u v : Int) (hu : m.tbl.Mem u) (hv : HeldX ext v)
    (names : List String) (hsupp : support m.tbl u = .ok names)
    (hdecl : ∀ s ∈ names, m.tbl.vars.contains s = true) :
    DynOutS ext (QuantDoc (decide (c = .forall_)) names v) m (apply op u (some v) none m) := by
  obtain ⟨row, hrow, ht⟩ := table_quant op c hc hq hall
  have hv' := vocab_complete
  unfold vocabComplete at hv'
  simp only [Bool.and_eq_true, List.all_eq_true] at hv'
  have hmem : op ∈ Gen.allOps := by simpa using hall
  have har := hv'.2 op hmem
  rw [hc] at har
  have h2 : c.arity = 2 := by rcases hq with h | h <;> subst h <;> rfl
  simp only [h2, Bool.and_eq_true, beq_iff_eq] at har
  have hun : Gen.unaryOps.contains op = false := by
    have := har.1.1; simpa using this.symm
  have hbi : Gen.binaryOps.contains op = true := by
    have := har.1.2; simpa using this.symm
  have harity : assertOperatorArity op (some v) none = .ok () := by
    unfold assertOperatorArity
    rw [hall, hun, hbi]
    rfl
  have mv : m.tbl.Mem v := hv.mem hD.refs
  have heq : apply op u (some v) none m =
      quantify v (names.map Key.name) (decide (c = .forall_)) m := by
    unfold apply
    have hmu : m.mem u = true := (Mgr.mem_iff m u).mpr hu
    have hmv : m.mem v = true := (Mgr.mem_iff m v).mpr mv
    simp only [harity, hmu, hmv, optNotMem, Bool.not_true, Bool.false_eq_true, if_false, hrow, ht,
      atomVal, hsupp]
  rw [heq]
  exact quantify_transparentS ext m hD v hv _ names hdecl

/-! ### `let` -/

theorem let_bools_transparentS (ext : Nat → Nat) (m : Mgr)
    (hD : DynInvS ext m) (u : Int) (hu : HeldX ext u) (vals : List (String × Bool))
    (hne : vals ≠ []) (hdecl : ∀ p ∈ vals, m.tbl.vars.contains p.1 = true) :
    DynOutS ext (CofDoc vals u) m (letOp (.bools (boolKeys vals)) u m) := by
  have : boolKeys vals ≠ [] := by
    intro h; apply hne
    cases vals with
    | nil => rfl
    | cons _ _ => simp [boolKeys] at h
  rw [letOp_bools _ this]
  exact cofactor_transparentS ext m hD u hu vals hdecl

theorem let_refs_transparentS (ext : Nat → Nat) (m : Mgr)
    (hD : DynInvS ext m) (f : Int) (hf : HeldX ext f) (varSub : List (String × Int))
    (hne : varSub ≠ []) (hdecl : ∀ p ∈ varSub, m.tbl.vars.contains p.1 = true)
    (hheld : ∀ p ∈ varSub, HeldX ext p.2) :
    DynOutS ext (ComposeDoc varSub f) m (letOp (.refs varSub) f m) := by
  rw [letOp_refs _ hne]
  exact compose_transparentS ext m hD f hf varSub hdecl hheld

theorem let_names_transparentS (ext : Nat → Nat) (m : Mgr)
    (hD : DynInvS ext m) (u : Int) (hu : HeldX ext u) (dvars : List (String × String))
    (hne : dvars ≠ []) (hd : ∀ p ∈ dvars, m.tbl.vars.contains p.2 = true) :
    DynOutS ext (RenameDoc dvars u) m (letOp (.names dvars) u m) := by
  rw [letOp_names _ hne]
  exact rename_transparentS ext m hD u hu dvars hd

/-! ### `cube`, `copy_bdd`, `add_expr` -/

/-- `cube`, every schedule (triple of `cube_transparent`) -/
theorem cube_transparentS (ext : Nat → Nat) (m : Mgr) (hD : DynInvS ext m)
    (dvars : List (String × Bool)) (hdecl : ∀ p ∈ dvars, m.tbl.vars.contains p.1 = true) :
    DynOutS ext (CubeDoc dvars) m (cube dvars m) := by
  rw [cube_eq]
  refine tryToReorder_transparentS ext (siftContractS ext) (cubeBody dvars) []
    (fun t => ∀ p ∈ dvars, t.vars.contains p.1 = true) (CubeDoc dvars)
    ?_ ?_ (fun _ _ _ _ _ _ hd => hd) m hD (fun _ h => by cases h) hdecl
  · intro m0 hI0 hc hO hpre _
    exact cubeBody_out m0 hI0 hc hO dvars hpre
  · intro t t' hB hpre p hp
    rw [hB.names p.1]; exact hpre p hp

/-- `copy_bdd` into a manager with dynamic reordering enabled, every schedule (triple of
`copyBdd_transparent`) -/
theorem copyBdd_transparentS (ext : Nat → Nat) (s : Tbl) (hS : WF s)
    (hOs : OrderOK s) (m : Mgr) (hD : DynInvS ext m) (u : Int) (hu : s.Mem u)
    (hsup : CopyPre s u m.tbl) :
    DynOutS ext (CopyDoc s u) m (copyBdd s u m) := by
  unfold copyBdd
  refine tryToReorder_transparentS ext (siftContractS ext) (copyBddBody s u) [] (CopyPre s u)
    (CopyDoc s u) ?_ ?_ (fun _ _ _ _ _ _ hd => hd) m hD (fun _ h => by cases h) hsup
  · intro m0 hI0 hc hO hpre _
    exact copyBddBody_out s hS hOs m0 hI0 (Or.inl hc) hO u hu hpre
  · intro t t' hB hpre i v hi hv
    rw [hB.names v]; exact hpre i v hi hv

/-- `add_expr`, every schedule (triple of `addExpr_transparent`) -/
theorem addExpr_transparentS (ext : Nat → Nat) (m : Mgr) (hD : DynInvS ext m)
    (s : String) (t : Ast) (hp : parse (tokenize s) = some t) (hM : Meaningful m.tbl t)
    (hheld : ∀ u ∈ t.atNodes, HeldX ext u) :
    DynOutS ext (ExprDoc t) m (addExpr s m) := by
  unfold addExpr
  rw [addExprToks_of_parse hp]
  refine tryToReorder_transparentS ext (siftContractS ext) (evalAst t) t.atNodes
    (fun T => Meaningful T t) (ExprDoc t) ?_ ?_ ?_ m hD hheld hM
  · intro m0 hI0 hc hO hpre _
    exact evalAst_out t m0 hI0 hc hO hpre
  · intro T T' hB hpre
    exact Meaningful.transfer hB.names t (fun u hu => (hB.ops u hu).1) hpre
  · intro T T' r T'' hB _ hdoc
    refine ⟨hdoc.1, fun σ => ?_⟩
    rw [hdoc.2 σ]
    apply evalFormula_congr t
    intro u hu τ
    rw [← denN_eq_asgOf hB.wf' hB.order' u (hB.ops u hu).1 τ,
      ← denN_eq_asgOf hB.wf hB.order u (hB.mem u hu) τ]
    exact (hB.ops u hu).2 τ

/-! ### `image`, `preimage` -/

/-- `image`, every schedule (triple of `image_transparent`) -/
theorem image_transparentS (ext : Nat → Nat) (m : Mgr) (hD : DynInvS ext m)
    (trans source : Int) (ht : HeldX ext trans) (hs : HeldX ext source) (fa : Bool)
    (l : List (String × String)) (qs : List String) (hpre : ImagePre trans source l qs m.tbl) :
    DynOutS ext (ImageDoc fa qs l trans source) m
      (image trans source (l.map fun p => (Key.name p.1, Key.name p.2)) (qs.map Key.name) fa m) := by
  rw [image_names_eq m rfl hD.order trans source fa l qs hpre.keys hpre.decl hpre.qdecl]
  refine tryToReorder_transparentS ext (siftContractS ext) _ [trans, source]
    (ImagePre trans source l qs) (ImageDoc fa qs l trans source) ?_ ?_ ?_ m hD ?_ hpre
  · intro m0 hI0 hc hO hp hmem
    exact imageBody_out m0 hI0 (Or.inl hc) hO trans source (hmem trans (by simp))
      (hmem source (by simp)) fa l qs hp
  · intro t t' hB hp
    exact hp.bridge hB
  · intro t t' r t'' hB _ hdoc
    refine ⟨hdoc.1, fun σ => ?_⟩
    rw [hdoc.2 σ]
    apply qsemN_congr
    intro τ
    rw [(hB.ops trans (by simp)).2 τ, (hB.ops source (by simp)).2 τ]
  · intro w hw
    simp only [List.mem_cons, List.not_mem_nil, or_false] at hw
    rcases hw with rfl | rfl
    · exact ht
    · exact hs

/-- `preimage` under its literal preconditions, every schedule (triple of
`preimage_literal_transparent`) -/
theorem preimage_literal_transparentS (ext : Nat → Nat) (m : Mgr)
    (hD : DynInvS ext m) (trans target : Int) (ht : HeldX ext trans) (hs : HeldX ext target)
    (fa : Bool) (l : List (String × String)) (qs : List String)
    (hpre : PreimagePreL l qs m.tbl) :
    DynOutS ext (PreimageDoc fa qs l trans target) m
      (preimage trans target (l.map fun p => (Key.name p.1, Key.name p.2)) (qs.map Key.name)
        fa m) := by
  rw [preimage_names_eq m rfl hD.order trans target fa l qs hpre.keys hpre.decl hpre.qdecl]
  refine tryToReorder_transparentS ext (siftContractS ext) _ [trans, target] (PreimagePreL l qs)
    (PreimageDoc fa qs l trans target) ?_ ?_ ?_ m hD ?_ hpre
  · intro m0 hI0 hc hO hp hmem
    exact preimageBody_out m0 hI0 hc hO trans target (hmem trans (by simp))
      (hmem target (by simp)) fa l qs hp
  · intro t t' hB hp
    exact hp.bridge hB
  · intro t t' r t'' hB _ hdoc
    refine ⟨hdoc.1, fun σ => ?_⟩
    rw [hdoc.2 σ]
    apply qsemN_congr
    intro τ
    rw [(hB.ops trans (by simp)).2 τ, (hB.ops target (by simp)).2]
  · intro w hw
    simp only [List.mem_cons, List.not_mem_nil, or_false] at hw
    rcases hw with rfl | rfl
    · exact ht
    · exact hs

/-- `preimage` (hypotheses of the earlier rounds), every schedule -/
theorem preimage_transparentS (ext : Nat → Nat) (m : Mgr)
    (hD : DynInvS ext m) (trans target : Int) (ht : HeldX ext trans) (hs : HeldX ext target)
    (fa : Bool) (l : List (String × String)) (qs : List String)
    (hpre : PreimagePreN target l qs m.tbl) :
    DynOutS ext (PreimageDoc fa qs l trans target) m
      (preimage trans target (l.map fun p => (Key.name p.1, Key.name p.2)) (qs.map Key.name)
        fa m) :=
  preimage_literal_transparentS ext m hD trans target ht hs fa l qs hpre.toL

/-- `image`, arguments as names or levels resolving to declared levels, every schedule -/
theorem image_keys_transparentS (ext : Nat → Nat) (m : Mgr)
    (hD : DynInvS ext m) (trans source : Int) (ht : HeldX ext trans) (hs : HeldX ext source)
    (fa : Bool) (rn : List (Key × Key)) (qvars : List Key) (q : List Nat)
    (hq : mapToLevelE m.tbl qvars = .ok q)
    (hov : renameOverlap (resolveRename m.tbl rn) = false)
    (hnl : renameNonLevel (resolveRename m.tbl rn) = false)
    (hlv : ∀ p, p ∈ intPairs (resolveRename m.tbl rn) →
      0 ≤ p.1 ∧ p.1 < (m.nvars : Int) ∧ 0 ≤ p.2 ∧ p.2 < (m.nvars : Int))
    (htg : ∀ p, p ∈ intPairs (resolveRename m.tbl rn) → ∀ l : Nat, p.2 = (l : Int) →
      l ∈ q ∨ (¬ dependsOn m.tbl trans l ∧ ¬ dependsOn m.tbl source l)) :
    DynOutS ext (ImageDoc fa (q.map m.tbl.nameOf)
        (namePairs m.tbl (intPairs (resolveRename m.tbl rn))) trans source) m
      (image trans source rn qvars fa m) := by
  have hpre := imagePre_of_levels m hD.inv hD.order trans source (ht.mem hD.refs) (hs.mem hD.refs)
    rn qvars q hq hov hnl hlv htg
  rw [image_keys_eq_names m hD.order trans source rn qvars fa q hq hnl hlv,
    ← image_names_eq m rfl hD.order trans source fa _ _ hpre.keys hpre.decl hpre.qdecl]
  exact image_transparentS ext m hD trans source ht hs fa _ _ hpre

/-- `preimage`, arguments as names or levels resolving to declared levels, every schedule -/
theorem preimage_keys_literal_transparentS (ext : Nat → Nat) (m : Mgr)
    (hD : DynInvS ext m) (trans target : Int) (ht : HeldX ext trans) (hs : HeldX ext target)
    (fa : Bool) (rn : List (Key × Key)) (qvars : List Key) (q : List Nat)
    (hq : mapToLevelE m.tbl qvars = .ok q)
    (hov : renameOverlap (resolveRename m.tbl rn) = false)
    (hnl : renameNonLevel (resolveRename m.tbl rn) = false)
    (hlv : ∀ p, p ∈ intPairs (resolveRename m.tbl rn) →
      0 ≤ p.1 ∧ p.1 < (m.nvars : Int) ∧ 0 ≤ p.2 ∧ p.2 < (m.nvars : Int)) :
    DynOutS ext (PreimageDoc fa (q.map m.tbl.nameOf)
        (namePairs m.tbl (intPairs (resolveRename m.tbl rn))) trans target) m
      (preimage trans target rn qvars fa m) := by
  have hpre := preimagePreL_of_levels m hD.order rn qvars q hq hov hnl hlv
  rw [preimage_keys_eq_names m hD.order trans target rn qvars fa q hq hnl hlv,
    ← preimage_names_eq m rfl hD.order trans target fa _ _ hpre.keys hpre.decl hpre.qdecl]
  exact preimage_literal_transparentS ext m hD trans target ht hs fa _ _ hpre

/-! ### ARBITRARY arguments (rejected calls), every schedule -/

theorem ite_total_dynS (ext : Nat → Nat) (m : Mgr) (hD : DynInvS ext m)
    (g u v : Int) : DynTotalS ext m (ite g u v m) :=
  tryToReorder_total_dynS ext (siftContractS ext) (iteRaw g u v)
    (fun m0 hI _ _ => iteRaw_totE m0 hI g u v) m hD

theorem var_total_dynS (ext : Nat → Nat) (m : Mgr) (hD : DynInvS ext m)
    (name : String) : DynTotalS ext m (var name m) := by
  rw [var_eq]
  exact tryToReorder_total_dynS ext (siftContractS ext) _
    (fun m0 hI _ _ => varBody_totE m0 hI name) m hD

theorem quantify_total_dynS (ext : Nat → Nat) (m : Mgr) (hD : DynInvS ext m)
    (u : Int) (qvars : List Key) (fa : Bool) : DynTotalS ext m (quantify u qvars fa m) :=
  tryToReorder_total_dynS ext (siftContractS ext) (quantifyBody u qvars fa)
    (fun m0 hI hc _ => quantifyBody_totE m0 hI hc u qvars fa) m hD

theorem cofactor_total_dynS (ext : Nat → Nat) (m : Mgr) (hD : DynInvS ext m)
    (u : Int) (values : List (Key × Bool)) : DynTotalS ext m (cofactor u values m) :=
  tryToReorder_total_dynS ext (siftContractS ext) (cofactorBody u values)
    (fun m0 hI _ _ => cofactorBody_totE m0 hI u values) m hD

theorem compose_total_dynS (ext : Nat → Nat) (m : Mgr) (hD : DynInvS ext m)
    (f : Int) (varSub : List (String × Int)) : DynTotalS ext m (compose f varSub m) :=
  tryToReorder_total_dynS ext (siftContractS ext) (composeBody f varSub)
    (fun m0 hI hc _ => composeBody_totE m0 hI hc f varSub) m hD

theorem rename_total_dynS (ext : Nat → Nat) (m : Mgr) (hD : DynInvS ext m)
    (u : Int) (dvars : List (String × String)) : DynTotalS ext m (rename u dvars m) :=
  tryToReorder_total_dynS ext (siftContractS ext) (renameBody u dvars)
    (fun m0 hI hc _ => renameBody_totE m0 hI hc u dvars) m hD

theorem letOp_total_dynS (ext : Nat → Nat) (m : Mgr) (hD : DynInvS ext m)
    (d : LetArg) (u : Int) : DynTotalS ext m (letOp d u m) := by
  unfold letOp
  split
  · exact DynTotalS.same hD _ (by simp)
  · exact DynTotalS.same hD _ (by simp)
  · exact DynTotalS.same hD _ (by simp)
  · exact cofactor_total_dynS ext m hD _ _
  · exact compose_total_dynS ext m hD _ _
  · exact rename_total_dynS ext m hD _ _

theorem cube_total_dynS (ext : Nat → Nat) (m : Mgr) (hD : DynInvS ext m)
    (dvars : List (String × Bool)) : DynTotalS ext m (cube dvars m) := by
  rw [cube_eq]
  exact tryToReorder_total_dynS ext (siftContractS ext) _
    (fun m0 hI hc _ => cubeBody_totE m0 hI hc dvars) m hD

theorem copyBdd_total_dynS (ext : Nat → Nat) (m : Mgr) (hD : DynInvS ext m)
    (src : Tbl) (u : Int) : DynTotalS ext m (copyBdd src u m) :=
  tryToReorder_total_dynS ext (siftContractS ext) (copyBddBody src u)
    (fun m0 hI hc _ => copyBddBody_totE src m0 hI hc u) m hD

theorem addExpr_total_dynS (ext : Nat → Nat) (m : Mgr) (hD : DynInvS ext m)
    (s : String) : DynTotalS ext m (addExpr s m) :=
  tryToReorder_total_dynS ext (siftContractS ext) (addExprToks (tokenize s))
    (fun m0 hI hc _ => addExprToks_totE (tokenize s) m0 hI hc) m hD

theorem apply_total_dynS (ext : Nat → Nat) (m : Mgr) (hD : DynInvS ext m)
    (op : String) (u : Int) (v w : Option Int) : DynTotalS ext m (apply op u v w m) := by
  have same : ∀ e : Err, e ≠ .needsReordering →
      DynTotalS ext m ((.error e, m) : Except Err Int × Mgr) :=
    fun e he => DynTotalS.same hD _ (by simpa using he)
  unfold apply
  split
  · next e heq =>
    refine same e ?_
    intro he; subst he
    unfold assertOperatorArity at heq
    repeat' split at heq
    all_goals simp at heq
  split
  · exact same _ (by simp)
  split
  · exact same _ (by simp)
  split
  · exact same _ (by simp)
  split
  · exact same _ (by simp)
  split
  · exact DynTotalS.same hD _ (by simp)
  · split
    · exact same _ (by simp)
    split
    · exact same _ (by simp)
    split
    · exact ite_total_dynS ext m hD _ _ _
    · exact same _ (fun he => by subst he; exact atomVal_noNR _ _ _ _ (by assumption))
    · exact same _ (fun he => by subst he; exact atomVal_noNR _ _ _ _ (by assumption))
    · exact same _ (fun he => by subst he; exact atomVal_noNR _ _ _ _ (by assumption))
  · split
    · exact same _ (by simp)
    split
    · split
      · next e heq => exact same e (fun he => by subst he; exact support_noNR _ _ heq)
      · exact quantify_total_dynS ext m hD _ _ _
    · exact same _ (fun he => by subst he; exact atomVal_noNR _ _ _ _ (by assumption))
    · exact same _ (fun he => by subst he; exact atomVal_noNR _ _ _ _ (by assumption))
  · exact same _ (by simp)
  · exact same _ (by simp)

end DD
