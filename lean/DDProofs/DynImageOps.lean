/-
  DDProofs.DynImageOps — `image` and `preimage` under dynamic reordering: instances of the generic
  transparency theorem (`tryToReorder_transparent`).  The module-level functions turn their
  arguments into variable NAMES before the decorated bodies `_image_of` / `_preimage_of` run, so
  the precondition and the documented result can be stated by name and survive a change of the
  variable order.

  * `image`: the documented result (C13: `rename(Q qvars. trans ∧ source)`) for ANY order, hence
    whatever sifting does.
  * `preimage`: the documented result (`Q qvars. trans ∧ rename(target)`) for ANY order as well:
    when the partners of the renaming are neighbours the body runs the recursion `_image`,
    otherwise (sifting moves single variables and may separate them: finding F4d) it renames the
    target, conjoins and quantifies (`preimageFallback`, DDProofs.DynPreimage).
-/
import DDProofs.DynImage
import DDProofs.DynPreimage
import DDProofs.DynOps2
import DDProofs.ImageWrap
open Std

namespace DD

/-! ### dependence on a variable, by name -/

/-- a name assignment with the value of one name replaced -/
def updN (σ : AsgN) (s : String) (x : Bool) : AsgN := fun s' => if s' = s then x else σ s'

/-- the function of `u` depends on the variable named `s` -/
def dependsOnN (t : Tbl) (u : Int) (s : String) : Prop :=
  ∃ σ, denN t u (updN σ s true) ≠ denN t u (updN σ s false)

theorem lift_updN {t : Tbl} (hO : OrderOK t) {s : String} (hs : t.vars.contains s = true)
    (σ : AsgN) (x : Bool) {i : Nat} (hi : i < t.nvars) :
    t.lift (updN σ s x) i = upd (t.lift σ) (lvlOf t s) x i := by
  show updN σ s x (t.nameOf i) = _
  unfold updN upd
  by_cases he : i = lvlOf t s
  · have : t.nameOf i = s := ((hO.lvlOf_eq_iff hs hi).mp he.symm).symm
    rw [if_pos this, if_pos he]
  · have : ¬ t.nameOf i = s := fun h => he ((hO.lvlOf_eq_iff hs hi).mpr h.symm).symm
    simp only [this, he, if_false]
    rfl

theorem lift_unlift {t : Tbl} (hO : OrderOK t) (b : Asg) (σ : AsgN) {i : Nat} (hi : i < t.nvars) :
    t.lift (unlift t b σ) i = b i := by
  show unlift t b σ (t.nameOf i) = b i
  simp [unlift, hO.vars_nameOf hi]

/-- dependence by name is dependence on the level of the name -/
theorem dependsOnN_iff {t : Tbl} (hw : WF t) (hO : OrderOK t) (u : Int) (hu : t.Mem u) (s : String)
    (hs : t.vars.contains s = true) : dependsOnN t u s ↔ dependsOn t u (lvlOf t s) := by
  constructor
  · rintro ⟨σ, hne⟩
    refine ⟨t.lift σ, ?_⟩
    intro he
    apply hne
    unfold denN
    rw [den_agree_ge t hw u hu _ _ (fun i _ hi => lift_updN hO hs σ true hi),
      den_agree_ge t hw u hu (t.lift (updN σ s false)) _ (fun i _ hi => lift_updN hO hs σ false hi)]
    exact he
  · rintro ⟨a, hne⟩
    refine ⟨unlift t a (fun _ => false), ?_⟩
    intro he
    apply hne
    unfold denN at he
    rw [den_agree_ge t hw u hu _ (upd a (lvlOf t s) true) (fun i _ hi => by
        rw [lift_updN hO hs _ true hi]
        unfold upd
        split
        · rfl
        · exact lift_unlift hO a _ hi),
      den_agree_ge t hw u hu (t.lift (updN _ s false)) (upd a (lvlOf t s) false) (fun i _ hi => by
        rw [lift_updN hO hs _ false hi]
        unfold upd
        split
        · rfl
        · exact lift_unlift hO a _ hi)] at he
    exact he

/-- dependence by name only looks at the function by name -/
theorem dependsOnN_congr {t t' : Tbl} {u : Int} (h : ∀ σ, denN t' u σ = denN t u σ) (s : String) :
    dependsOnN t' u s ↔ dependsOnN t u s := by
  unfold dependsOnN
  constructor
  · rintro ⟨σ, hne⟩; exact ⟨σ, by rw [← h, ← h]; exact hne⟩
  · rintro ⟨σ, hne⟩; exact ⟨σ, by rw [h, h]; exact hne⟩

/-! ### quantification: levels and names, for any function of the declared levels -/

/-- `F` only reads the declared levels -/
def LowOnly (t : Tbl) (F : Asg → Bool) : Prop :=
  ∀ b b' : Asg, (∀ i, i < t.nvars → b i = b' i) → F b = F b'

theorem qsem_congr_low {t : Tbl} {F : Asg → Bool} (hF : LowOnly t F) (fa : Bool) (Q : List Nat)
    (a a' : Asg) (h : ∀ i, i < t.nvars → a i = a' i) : qsem fa Q F a ↔ qsem fa Q F a' := by
  have key : ∀ a a' : Asg, (∀ i, i < t.nvars → a i = a' i) → ∀ b, AgreeOff Q b a →
      ∃ b', AgreeOff Q b' a' ∧ F b' = F b := by
    intro a a' h b hb
    refine ⟨fun i => if i < t.nvars then b i else a' i, ?_, ?_⟩
    · intro j hj
      by_cases hlt : j < t.nvars
      · simp only [hlt, if_true]
        rw [hb j hj]; exact h j hlt
      · simp [hlt]
    · apply hF
      intro i hi
      simp [hi]
  cases fa with
  | true =>
    simp only [qsem]
    constructor
    · intro hq b hb
      obtain ⟨b', hb', he⟩ := key a' a (fun i hi => (h i hi).symm) b hb
      rw [← he]; exact hq b' hb'
    · intro hq b hb
      obtain ⟨b', hb', he⟩ := key a a' h b hb
      rw [← he]; exact hq b' hb'
  | false =>
    simp only [qsem]
    constructor
    · rintro ⟨b, hb, hv⟩
      obtain ⟨b', hb', he⟩ := key a a' h b hb
      exact ⟨b', hb', by rw [he]; exact hv⟩
    · rintro ⟨b, hb, hv⟩
      obtain ⟨b', hb', he⟩ := key a' a (fun i hi => (h i hi).symm) b hb
      exact ⟨b', hb', by rw [he]; exact hv⟩

/-- quantification over levels, read on name assignments, is quantification over names (`qsem_lift`
for any function of the declared levels) -/
theorem qsem_lift_gen {t : Tbl} (hO : OrderOK t) {F : Asg → Bool} (hF : LowOnly t F) (fa : Bool)
    (names : List String) (hdecl : ∀ s ∈ names, t.vars.contains s = true) (σ : AsgN) :
    qsem fa (names.map (lvlOf t)) F (t.lift σ) ↔ qsemN fa names (fun τ => F (t.lift τ)) σ := by
  have toN : ∀ b, AgreeOff (names.map (lvlOf t)) b (t.lift σ) →
      ∃ τ : AsgN, (∀ s, s ∉ names → τ s = σ s) ∧ F (t.lift τ) = F b := by
    intro b hb
    refine ⟨unlift t b σ, ?_, hF _ _ (fun i hi => lift_unlift hO b σ hi)⟩
    intro s hs
    unfold unlift
    cases hv : t.vars[s]? with
    | none => rfl
    | some i =>
      simp only
      have hi : i ∉ names.map (lvlOf t) := by
        intro hmem
        obtain ⟨s', hs', he⟩ := List.mem_map.mp hmem
        obtain ⟨j, hj⟩ := (vars_contains_iff t s').mp (hdecl s' hs')
        rw [lvlOf_eq hj] at he
        subst he
        have e1 := hO.nameOf_level hj
        have e2 := hO.nameOf_level hv
        rw [e1] at e2
        subst e2
        exact hs hs'
      rw [hb i hi]
      show σ (t.nameOf i) = σ s
      rw [hO.nameOf_level hv]
  have ofN : ∀ τ : AsgN, (∀ s, s ∉ names → τ s = σ s) →
      ∃ b : Asg, AgreeOff (names.map (lvlOf t)) b (t.lift σ) ∧ F b = F (t.lift τ) := by
    intro τ hτ
    refine ⟨fun j => if j < t.nvars then t.lift τ j else t.lift σ j, ?_, ?_⟩
    · intro j hj
      by_cases hlt : j < t.nvars
      · simp only [hlt, if_true]
        show τ (t.nameOf j) = σ (t.nameOf j)
        apply hτ
        intro hmem
        exact hj (List.mem_map.mpr ⟨_, hmem, hO.lvlOf_nameOf hlt⟩)
      · simp [hlt]
    · apply hF
      intro i hi
      simp [hi]
  cases fa with
  | true =>
    simp only [qsem, qsemN]
    constructor
    · intro h τ hτ
      obtain ⟨b, hb, he⟩ := ofN τ hτ
      rw [← he]; exact h b hb
    · intro h b hb
      obtain ⟨τ, hτ, he⟩ := toN b hb
      rw [← he]; exact h τ hτ
  | false =>
    simp only [qsem, qsemN]
    constructor
    · intro ⟨b, hb, hv⟩
      obtain ⟨τ, hτ, he⟩ := toN b hb
      exact ⟨τ, hτ, by rw [he]; exact hv⟩
    · intro ⟨τ, hτ, hv⟩
      obtain ⟨b, hb, he⟩ := ofN τ hτ
      exact ⟨b, hb, by rw [he]; exact hv⟩

/-! ### the renaming: level pairs and name pairs -/

/-- `rename.get(s, s)` on names -/
def renN (l : List (String × String)) (s : String) : String := (l.lookup s).getD s

/-- the level pairs of a renaming given by declared names -/
def lvlPairs (t : Tbl) (l : List (String × String)) : List (Int × Int) :=
  l.map fun p => ((lvlOf t p.1 : Int), (lvlOf t p.2 : Int))

/-- looking a level up in the level pairs is looking its name up in the name pairs -/
theorem lookup_lvlPairs {t : Tbl} (hO : OrderOK t) {i : Nat} (hi : i < t.nvars) :
    ∀ l : List (String × String), (∀ p ∈ l, t.vars.contains p.1 = true) →
      (lvlPairs t l).lookup (i : Int) = (l.lookup (t.nameOf i)).map fun s => (lvlOf t s : Int) := by
  intro l
  induction l with
  | nil => intro _; rfl
  | cons p l ih =>
    intro h
    obtain ⟨s, s2⟩ := p
    have hs : t.vars.contains s = true := h (s, s2) List.mem_cons_self
    have ih' := ih (fun p hp => h p (List.mem_cons_of_mem _ hp))
    unfold lvlPairs at ih' ⊢
    rw [List.map_cons, List.lookup_cons, List.lookup_cons, ih']
    by_cases he : lvlOf t s = i
    · have hn : s = t.nameOf i := (hO.lvlOf_eq_iff hs hi).mp he
      have h1 : ((i : Int) == (lvlOf t s : Int)) = true := by simp [he]
      have h2 : (t.nameOf i == s) = true := by simp [← hn]
      simp only [h1, h2, Option.map_some]
    · have hne : ¬ s = t.nameOf i := fun e => he ((hO.lvlOf_eq_iff hs hi).mpr e)
      have h1 : ((i : Int) == (lvlOf t s : Int)) = false := by
        simp only [beq_eq_false_iff_ne, ne_eq]; omega
      have h2 : (t.nameOf i == s) = false := by
        simp only [beq_eq_false_iff_ne, ne_eq]; exact fun e => hne e.symm
      simp only [h1, h2]

/-- the name at the level a level is renamed to is the renamed name -/
theorem nameOf_renOf {t : Tbl} (hO : OrderOK t) (l : List (String × String))
    (hd : ∀ p ∈ l, t.vars.contains p.1 = true ∧ t.vars.contains p.2 = true) {i : Nat}
    (hi : i < t.nvars) : t.nameOf (renOf (lvlPairs t l) i) = renN l (t.nameOf i) := by
  unfold renOf renN
  rw [lookup_lvlPairs hO hi l (fun p hp => (hd p hp).1)]
  cases hl : l.lookup (t.nameOf i) with
  | none => simp
  | some s2 =>
    have hm := lookup_some_mem _ _ _ hl
    have hs2 := (hd _ hm).2
    obtain ⟨j, hj⟩ := (vars_contains_iff t s2).mp hs2
    simp only [Option.map_some, Option.getD_some, Int.toNat_natCast, lvlOf_eq hj]
    exact hO.nameOf_level hj

theorem mem_lvlPairs {t : Tbl} {l : List (String × String)} {x : Int × Int} (h : x ∈ lvlPairs t l) :
    ∃ p, p ∈ l ∧ x = ((lvlOf t p.1 : Int), (lvlOf t p.2 : Int)) := by
  unfold lvlPairs at h
  obtain ⟨p, hp, rfl⟩ := List.mem_map.mp h
  exact ⟨p, hp, rfl⟩

/-! ### `_image_args_by_name` on arguments that are declared names -/

theorem keyByName_declared {t : Tbl} (hO : OrderOK t) {s : String} (hs : t.vars.contains s = true) :
    keyByName t (.name s) = .name s := by
  obtain ⟨i, hi⟩ := (vars_contains_iff t s).mp hs
  have hl := (hO.inv s i).mp hi
  simp [keyByName, hi, hl]

/-- a renaming given by declared names with pairwise distinct keys is handed to the body as it
is -/
theorem renameByName_names {t : Tbl} (hO : OrderOK t) (l : List (String × String))
    (hkeys : (l.map (·.1)).Nodup)
    (hd : ∀ p ∈ l, t.vars.contains p.1 = true ∧ t.vars.contains p.2 = true) :
    renameByName t (l.map fun p => (Key.name p.1, Key.name p.2)) =
      l.map fun p => (Key.name p.1, Key.name p.2) := by
  rw [renameByName_eq, List.map_map]
  have : l.map ((fun p : Key × Key => (keyByName t p.1, keyByName t p.2)) ∘
      fun p : String × String => (Key.name p.1, Key.name p.2)) =
      l.map fun p => (Key.name p.1, Key.name p.2) := by
    apply List.map_congr_left
    intro p hp
    simp only [Function.comp]
    rw [keyByName_declared hO (hd p hp).1, keyByName_declared hO (hd p hp).2]
  rw [this]
  apply renameDictOf_nodup
  rw [List.map_map]
  have : ((·.1) ∘ fun p : String × String => (Key.name p.1, Key.name p.2)) = Key.name ∘ (·.1) := by
    funext p; rfl
  rw [this, ← List.map_map]
  exact List.Pairwise.map _ (fun a b hab he => hab (Key.name.inj he)) hkeys

/-- quantified variables given by declared names are handed to the body as they are -/
theorem qvarsByName_names {t : Tbl} (hO : OrderOK t) (qs : List String)
    (hqd : ∀ s ∈ qs, t.vars.contains s = true) :
    qvarsByName t (qs.map Key.name) = .ok (qs.map Key.name) := by
  unfold qvarsByName
  rw [mapToLevelE_names t qs hqd]
  simp only
  have : qs.map Key.name = (qs.map (lvlOf t)).map fun j => Key.name (t.nameOf j) := by
    rw [List.map_map]
    apply List.map_congr_left
    intro s hs
    obtain ⟨i, hi⟩ := (vars_contains_iff t s).mp (hqd s hs)
    simp only [Function.comp, lvlOf_eq hi, hO.nameOf_level hi]
  rw [this]
  apply mapME_ok
  intro j hj
  obtain ⟨s, hs, rfl⟩ := List.mem_map.mp hj
  obtain ⟨i, hi⟩ := (vars_contains_iff t s).mp (hqd s hs)
  have hl := (hO.inv s i).mp hi
  simp [lvlOf_eq hi, hl, Tbl.nameOf]

/-! ### `image` -/

/-- the body `_image_of` on arguments that pass its checks is the call of `_image` -/
theorem imageBody_eq_imageF (m : Mgr) (hI : Inv m) (hV : VarsBij m.tbl) (trans source : Int)
    (hu : m.tbl.Mem trans) (hv : m.tbl.Mem source) (rn : List (Key × Key)) (qvars : List Key)
    (fa : Bool) (q : List Nat) (hq : mapToLevelE m.tbl qvars = .ok q) (pairs : List (Int × Int))
    (hres : resolveRename m.tbl rn = pairs.map fun p => (Key.lvl p.1, Key.lvl p.2))
    (hov : ∀ p p', p ∈ pairs → p' ∈ pairs → p.2 ≠ p'.1)
    (hlv : ∀ p, p ∈ pairs → 0 ≤ p.1 ∧ p.1 < (m.nvars : Int) ∧ 0 ≤ p.2 ∧ p.2 < (m.nvars : Int))
    (htg : ∀ p, p ∈ pairs → ∀ l : Nat, p.2 = (l : Int) →
      l ∈ q ∨ (¬ dependsOn m.tbl trans l ∧ ¬ dependsOn m.tbl source l)) :
    imageBody trans source rn qvars fa m =
      match imageF (some pairs) none [] [] q fa (2 * m.nvars + 4) trans source {} m with
      | (.error e, m2) => (.error e, m2)
      | (.ok (r, _), m2) => (.ok r, m2) := by
  obtain ⟨s1, hs1, _, hd1⟩ := supportLevels_spec' hI.wf trans hu
  obtain ⟨s2, hs2, _, hd2⟩ := supportLevels_spec' hI.wf source hv
  have hbad : imageBadTargets (pairs.map (·.2)) q s1 s2 = [] := by
    apply imageBadTargets_nil
    intro x hx l hl
    obtain ⟨p, hp, rfl⟩ := List.mem_map.mp hx
    rcases htg p hp l hl with h | ⟨h1, h2⟩
    · exact Or.inl h
    · exact Or.inr ⟨fun h => h1 ((hd1 l).mp h), fun h => h2 ((hd2 l).mp h)⟩
  have hov' : renameOverlap (pairs.map fun p => (Key.lvl p.1, Key.lvl p.2)) = false :=
    (renameOverlap_lvls pairs).mpr hov
  unfold imageBody
  simp only [hq, hres, hov', Bool.false_eq_true, if_false, adjacentWarn_ok m hV pairs hlv, hs1, hs2,
    renameValues_map_lvl, hbad, List.isEmpty_nil, Bool.not_true, intPairs_map_lvl, badKeys_map_lvl]
  generalize imageF (some pairs) none [] [] q fa (2 * m.nvars + 4) trans source {} m = res
  rcases res with ⟨_ | ⟨_, _⟩, _⟩ <;> rfl

/-- what `image` asks of its arguments, by name: declared names, pairwise distinct keys, no key
is a value, every target quantified or outside the supports of both operands -/
structure ImagePre (trans source : Int) (l : List (String × String)) (qs : List String) (t : Tbl) :
    Prop where
  keys : (l.map (·.1)).Nodup
  decl : ∀ p ∈ l, t.vars.contains p.1 = true ∧ t.vars.contains p.2 = true
  qdecl : ∀ s ∈ qs, t.vars.contains s = true
  noOverlap : ∀ p p', p ∈ l → p' ∈ l → p.2 ≠ p'.1
  targets : ∀ p ∈ l, p.2 ∈ qs ∨ (¬ dependsOnN t trans p.2 ∧ ¬ dependsOnN t source p.2)

/-- documented result of `image(trans, source, rename, qvars, forall)`, by name: the quantified
conjunction, with every variable read at the name it is renamed to -/
def ImageDoc (fa : Bool) (qs : List String) (l : List (String × String)) (trans source : Int)
    (t : Tbl) (r : Int) (t' : Tbl) : Prop :=
  t'.Mem r ∧ ∀ σ, denN t' r σ = true ↔
    qsemN fa qs (fun τ => denN t trans τ && denN t source τ) (fun s => σ (renN l s))

theorem lvlOf_inj {t : Tbl} (hO : OrderOK t) {s s' : String} (hs : t.vars.contains s = true)
    (hs' : t.vars.contains s' = true) (he : lvlOf t s = lvlOf t s') : s = s' := by
  obtain ⟨i, hi⟩ := (vars_contains_iff _ _).mp hs
  obtain ⟨j, hj⟩ := (vars_contains_iff _ _).mp hs'
  rw [lvlOf_eq hi, lvlOf_eq hj] at he
  subst he
  exact hO.varsBij.inj hi hj

theorem resolveRename_lvlPairs {t : Tbl} (hO : OrderOK t) (l : List (String × String))
    (hkeys : (l.map (·.1)).Nodup)
    (hd : ∀ p ∈ l, t.vars.contains p.1 = true ∧ t.vars.contains p.2 = true) :
    resolveRename t (l.map fun p => (Key.name p.1, Key.name p.2)) =
      (lvlPairs t l).map fun p => (Key.lvl p.1, Key.lvl p.2) := by
  rw [(intPairs_resolveRename_names t hO.varsBij l hkeys hd).1]
  unfold lvlPairs
  rw [List.map_map]
  rfl

/-- body of `image` on declared names, inside a context: documented result by name, or abort -/
theorem imageBody_out (m0 : Mgr) (hI0 : Inv m0) (hq : Quiet m0) (hO : OrderOK m0.tbl)
    (trans source : Int) (hu : m0.tbl.Mem trans) (hv : m0.tbl.Mem source) (fa : Bool)
    (l : List (String × String)) (qs : List String) (hpre : ImagePre trans source l qs m0.tbl) :
    Outcome m0 (fun r m1 => ImageDoc fa qs l trans source m0.tbl r m1.tbl)
      (imageBody trans source (l.map fun p => (Key.name p.1, Key.name p.2)) (qs.map Key.name)
        fa m0) := by
  have hW := hI0.wf.toWF
  have hV := hO.varsBij
  have hnv : m0.nvars = m0.tbl.nvars := rfl
  generalize hpairs : lvlPairs m0.tbl l = pairs
  have hmem : ∀ x, x ∈ pairs → ∃ p, p ∈ l ∧ x = ((lvlOf m0.tbl p.1 : Int), (lvlOf m0.tbl p.2 : Int)) := by
    intro x hx
    rw [← hpairs] at hx
    exact mem_lvlPairs hx
  have hlv : ∀ p, p ∈ pairs →
      0 ≤ p.1 ∧ p.1 < (m0.nvars : Int) ∧ 0 ≤ p.2 ∧ p.2 < (m0.nvars : Int) := by
    intro x hx
    obtain ⟨p, hp, rfl⟩ := hmem x hx
    have h1 := hO.lvlOf_lt (hpre.decl p hp).1
    have h2 := hO.lvlOf_lt (hpre.decl p hp).2
    simp only
    omega
  rw [imageBody_eq_imageF m0 hI0 hV trans source hu hv _ _ fa (qs.map (lvlOf m0.tbl))
    (mapToLevelE_names m0.tbl qs hpre.qdecl) pairs
    (by rw [← hpairs]; exact resolveRename_lvlPairs hO l hpre.keys hpre.decl)
    (by
      intro x x' hx hx' he
      obtain ⟨p, hp, rfl⟩ := hmem x hx
      obtain ⟨p', hp', rfl⟩ := hmem x' hx'
      simp only at he
      exact hpre.noOverlap p p' hp hp'
        (lvlOf_inj hO (hpre.decl p hp).2 (hpre.decl p' hp').1 (by omega)))
    hlv
    (by
      intro x hx lv hlv'
      obtain ⟨p, hp, rfl⟩ := hmem x hx
      simp only at hlv'
      have : lvlOf m0.tbl p.2 = lv := by omega
      subst this
      rcases hpre.targets p hp with h | ⟨h1, h2⟩
      · exact Or.inl (List.mem_map.mpr ⟨p.2, h, rfl⟩)
      · exact Or.inr ⟨fun h => h1 ((dependsOnN_iff hW hO trans hu _ (hpre.decl p hp).2).mpr h),
          fun h => h2 ((dependsOnN_iff hW hO source hv _ (hpre.decl p hp).2).mpr h)⟩)]
  have hP : ImgOKs (some pairs) none [] [] (qs.map (lvlOf m0.tbl)) (renOf pairs) id
      (fun j => j < m0.nvars) m0.nvars :=
    ⟨fun z hz _ => ⟨renOf_eq pairs (fun p hp => (hlv p hp).2.2.1) z,
        renOf_lt pairs m0.nvars (fun p hp => (hlv p hp).2.2.2) z hz⟩,
      fun j hj => ⟨rfl, hj⟩, rfl, fun _ _ _ => rfl, fun _ _ => rfl⟩
  rcases (imageF_out (some pairs) none [] [] (qs.map (lvlOf m0.tbl)) fa (renOf pairs) id
    (fun j => j < m0.nvars) m0.nvars True hP (fun _ _ _ _ _ h => h) (2 * m0.nvars + 4) m0 trans
    source {} hI0 hq rfl hu hv (fun j hj => hj.lt_nvars hW) (IMemoC.empty _ _ _ _ _ _)
    (by omega)).cases with
    ⟨r, c, m1, he, hs, _, hp⟩ | ⟨m1, he, hs, ha⟩
  rotate_left
  · rw [he]; exact ⟨rfl, hs, ha⟩
  rw [he]
  refine ⟨hs, hp.mr, fun σ => ?_⟩
  have hl : m1.tbl.lift σ = m0.tbl.lift σ := by
    unfold Tbl.lift Tbl.nameOf; rw [hs.frame.l2v]
  have hF : LowOnly m0.tbl (fun b => den m0.tbl trans b && den m0.tbl source (fun j => b (id j))) := by
    intro b b' hb
    show (den m0.tbl trans b && den m0.tbl source b) = (den m0.tbl trans b' && den m0.tbl source b')
    rw [den_agree_ge m0.tbl hW trans hu b b' (fun i _ hi => hb i hi),
      den_agree_ge m0.tbl hW source hv b b' (fun i _ hi => hb i hi)]
  unfold denN
  rw [hp.den trivial, imgSem_ext hs.ext hW hu hv, hl]
  unfold imgSem
  rw [qsem_congr_low hF fa _ _ (m0.tbl.lift (fun s => σ (renN l s))) (fun i hi => by
    show σ (m0.tbl.nameOf (renOf pairs i)) = σ (renN l (m0.tbl.nameOf i))
    rw [← hpairs, nameOf_renOf hO l hpre.decl hi])]
  exact qsem_lift_gen hO hF fa qs hpre.qdecl _

theorem ImagePre.bridge {trans source : Int} {l : List (String × String)} {qs : List String}
    {t t' : Tbl} (hB : Bridge [trans, source] t t') (h : ImagePre trans source l qs t) :
    ImagePre trans source l qs t' := by
  refine ⟨h.keys, fun p hp => ?_, fun s hs => ?_, h.noOverlap, fun p hp => ?_⟩
  · rw [hB.names, hB.names]; exact h.decl p hp
  · rw [hB.names]; exact h.qdecl s hs
  · rcases h.targets p hp with h1 | ⟨h1, h2⟩
    · exact Or.inl h1
    · refine Or.inr ⟨fun hh => h1 ?_, fun hh => h2 ?_⟩
      · exact (dependsOnN_congr (hB.ops trans (by simp)).2 p.2).mp hh
      · exact (dependsOnN_congr (hB.ops source (by simp)).2 p.2).mp hh

/-- `image` with its arguments given by declared names is the decorated body on these names -/
theorem image_names_eq {t : Tbl} (m : Mgr) (hm : m.tbl = t) (hO : OrderOK t) (trans source : Int)
    (fa : Bool) (l : List (String × String)) (qs : List String) (hkeys : (l.map (·.1)).Nodup)
    (hd : ∀ p ∈ l, t.vars.contains p.1 = true ∧ t.vars.contains p.2 = true)
    (hqd : ∀ s ∈ qs, t.vars.contains s = true) :
    image trans source (l.map fun p => (Key.name p.1, Key.name p.2)) (qs.map Key.name) fa m =
      tryToReorder (imageBody trans source (l.map fun p => (Key.name p.1, Key.name p.2))
        (qs.map Key.name) fa) m := by
  subst hm
  unfold image
  rw [qvarsByName_names hO qs hqd, renameByName_names hO l hkeys hd]

/-- C09 for `image`: operands held by the user, renaming and quantified variables given by
declared names.  Whether or not a reordering request is served (at whichever `find_or_add`), the
result is the documented image relative to the operands as they were. -/
theorem image_transparent (ext : Nat → Nat) (hS : SiftContract ext) (m : Mgr) (hD : DynInv ext m)
    (trans source : Int) (ht : HeldX ext trans) (hs : HeldX ext source) (fa : Bool)
    (l : List (String × String)) (qs : List String) (hpre : ImagePre trans source l qs m.tbl) :
    ∃ r m', image trans source (l.map fun p => (Key.name p.1, Key.name p.2)) (qs.map Key.name)
        fa m = (.ok r, m') ∧ DynPostG ext (ImageDoc fa qs l trans source) m r m' := by
  rw [image_names_eq m rfl hD.order trans source fa l qs hpre.keys hpre.decl hpre.qdecl]
  refine tryToReorder_transparent ext hS _ [trans, source] (ImagePre trans source l qs)
    (ImageDoc fa qs l trans source) ?_ ?_ ?_ m hD ?_ hpre
  · intro m0 hI0 hc hO hp hmem
    exact imageBody_out m0 hI0 (Or.inl hc) hO trans source (hmem trans (by simp))
      (hmem source (by simp)) fa l qs hp
  · intro t t' hB hp
    exact hp.bridge hB
  · intro t t' r t'' hB _ hdoc
    refine ⟨hdoc.1, fun σ => ?_⟩
    rw [hdoc.2 σ]
    apply qsemN_congr
    intro τ
    rw [(hB.ops trans (by simp)).2 τ, (hB.ops source (by simp)).2 τ]
  · intro w hw
    simp only [List.mem_cons, List.not_mem_nil, or_false] at hw
    rcases hw with rfl | rfl
    · exact ht
    · exact hs

/-! ### `preimage` -/

theorem renameNeighbors_lvls (pairs : List (Int × Int)) :
    renameNeighbors (pairs.map fun p => (Key.lvl p.1, Key.lvl p.2)) = true ↔
      ∀ p, p ∈ pairs → (p.1 - p.2).natAbs = 1 := by
  unfold renameNeighbors
  rw [intPairs_map_lvl, List.all_eq_true]
  simp only [beq_iff_eq]

/-- the body `_preimage_of` on arguments that pass its check, the test `fused` holds: the call of
`_image` -/
theorem preimageBody_eq_imageF (m : Mgr) (hV : VarsBij m.tbl) (trans target : Int)
    (rn : List (Key × Key)) (qvars : List Key)
    (fa : Bool) (q : List Nat) (hq : mapToLevelE m.tbl qvars = .ok q) (pairs : List (Int × Int))
    (hres : resolveRename m.tbl rn = pairs.map fun p => (Key.lvl p.1, Key.lvl p.2))
    (hne : pairs ≠ [] → 0 < m.nvars)
    (hov : ∀ p p', p ∈ pairs → p' ∈ pairs → p.2 ≠ p'.1)
    (hf : preimageFused m.tbl (pairs.map fun p => (Key.lvl p.1, Key.lvl p.2)) target = .ok true) :
    preimageBody trans target rn qvars fa m =
      match imageF none (some pairs) [] [] q fa (2 * m.nvars + 4) trans target {} m with
      | (.error e, m2) => (.error (if e = .fuel then .runtime else e), m2)
      | (.ok (r, _), m2) => (.ok r, m2) := by
  have hov' : renameOverlap (pairs.map fun p => (Key.lvl p.1, Key.lvl p.2)) = false :=
    (renameOverlap_lvls pairs).mpr hov
  have hav := assertValidRename_ok m hV (pairs.map fun p => (Key.lvl p.1, Key.lvl p.2))
    (fun h => hne (fun hp => h (by rw [hp]; rfl))) hov'
  unfold preimageBody
  simp only [hq, hres, hav, hf, if_true, intPairs_map_lvl, badKeys_map_lvl]
  generalize imageF none (some pairs) [] [] q fa (2 * m.nvars + 4) trans target {} m = res
  rcases res with ⟨_ | ⟨_, _⟩, _⟩ <;> rfl

/-- the body `_preimage_of` on arguments that pass its check, the test `fused` fails (partners not
neighbours, two keys with the same value, or the target depends on a value): rename, conjoin,
quantify -/
theorem preimageBody_eq_fallback (m : Mgr) (hV : VarsBij m.tbl) (trans target : Int)
    (rn : List (Key × Key)) (qvars : List Key)
    (fa : Bool) (q : List Nat) (hq : mapToLevelE m.tbl qvars = .ok q) (pairs : List (Int × Int))
    (hres : resolveRename m.tbl rn = pairs.map fun p => (Key.lvl p.1, Key.lvl p.2))
    (hne : pairs ≠ [] → 0 < m.nvars)
    (hov : ∀ p p', p ∈ pairs → p' ∈ pairs → p.2 ≠ p'.1)
    (hf : preimageFused m.tbl (pairs.map fun p => (Key.lvl p.1, Key.lvl p.2)) target = .ok false) :
    preimageBody trans target rn qvars fa m =
      preimageFallback trans target (pairs.map fun p => (Key.lvl p.1, Key.lvl p.2)) q fa m := by
  have hov' : renameOverlap (pairs.map fun p => (Key.lvl p.1, Key.lvl p.2)) = false :=
    (renameOverlap_lvls pairs).mpr hov
  have hav := assertValidRename_ok m hV (pairs.map fun p => (Key.lvl p.1, Key.lvl p.2))
    (fun h => hne (fun hp => h (by rw [hp]; rfl))) hov'
  unfold preimageBody
  simp only [hq, hres, hav, hf, Bool.false_eq_true, if_false]

/-- the literal preconditions of `preimage`, by name: declared names, pairwise distinct keys, no
key is a value.  Nothing about the order, the shape of the renaming, or the target. -/
structure PreimagePreL (l : List (String × String)) (qs : List String) (t : Tbl) : Prop where
  keys : (l.map (·.1)).Nodup
  decl : ∀ p ∈ l, t.vars.contains p.1 = true ∧ t.vars.contains p.2 = true
  qdecl : ∀ s ∈ qs, t.vars.contains s = true
  noOverlap : ∀ p p', p ∈ l → p' ∈ l → p.2 ≠ p'.1

/-- what `preimage` asks of its arguments by name: declared names, pairwise distinct keys, no
key is a value, no two keys with the same value, the target independent of every value.  Nothing
is asked of the ORDER: when some partners are not neighbours (`AdjN` false) the body renames,
conjoins and quantifies instead of running `_image`. -/
structure PreimagePreN (target : Int) (l : List (String × String)) (qs : List String) (t : Tbl) :
    Prop where
  keys : (l.map (·.1)).Nodup
  decl : ∀ p ∈ l, t.vars.contains p.1 = true ∧ t.vars.contains p.2 = true
  qdecl : ∀ s ∈ qs, t.vars.contains s = true
  noOverlap : ∀ p p', p ∈ l → p' ∈ l → p.2 ≠ p'.1
  injective : ∀ p p', p ∈ l → p' ∈ l → p.2 = p'.2 → p.1 = p'.1
  indep : ∀ p ∈ l, ¬ dependsOnN t target p.2

theorem PreimagePreN.toL {target : Int} {l : List (String × String)} {qs : List String} {t : Tbl}
    (h : PreimagePreN target l qs t) : PreimagePreL l qs t := ⟨h.keys, h.decl, h.qdecl, h.noOverlap⟩

/-- in the order of `t` every renamed variable is a neighbour of its partner -/
def AdjN (t : Tbl) (l : List (String × String)) : Prop :=
  ∀ p ∈ l, ((lvlOf t p.1 : Int) - (lvlOf t p.2 : Int)).natAbs = 1

/-- documented result of `preimage(trans, target, rename, qvars, forall)`, by name:
`Q qvars. trans ∧ rename(target)` (the target read with every variable at its partner) -/
def PreimageDoc (fa : Bool) (qs : List String) (l : List (String × String)) (trans target : Int)
    (t : Tbl) (r : Int) (t' : Tbl) : Prop :=
  t'.Mem r ∧ ∀ σ, denN t' r σ = true ↔
    qsemN fa qs (fun τ => denN t trans τ && denN t target (fun s => τ (renN l s))) σ

/-- body of `preimage` on declared names, inside a context, ANY order (partners neighbours: the
recursion `_image`; otherwise rename, conjoin, quantify): the documented result by name, or
abort having only added nodes -/
theorem preimageBody_out (m0 : Mgr) (hI0 : Inv m0) (hc : m0.ctx = true) (hO : OrderOK m0.tbl)
    (trans target : Int) (hu : m0.tbl.Mem trans) (hv : m0.tbl.Mem target) (fa : Bool)
    (l : List (String × String)) (qs : List String) (hpre : PreimagePreL l qs m0.tbl) :
    Outcome m0 (fun r m1 => PreimageDoc fa qs l trans target m0.tbl r m1.tbl)
      (preimageBody trans target (l.map fun p => (Key.name p.1, Key.name p.2)) (qs.map Key.name)
        fa m0) := by
  have hW := hI0.wf.toWF
  have hV := hO.varsBij
  have hq : Quiet m0 := Or.inl hc
  have hnv : m0.nvars = m0.tbl.nvars := rfl
  generalize hpairs : lvlPairs m0.tbl l = pairs
  have hmem : ∀ x, x ∈ pairs → ∃ p, p ∈ l ∧ x = ((lvlOf m0.tbl p.1 : Int), (lvlOf m0.tbl p.2 : Int)) := by
    intro x hx
    rw [← hpairs] at hx
    exact mem_lvlPairs hx
  have hlv : ∀ p, p ∈ pairs →
      0 ≤ p.1 ∧ p.1 < (m0.nvars : Int) ∧ 0 ≤ p.2 ∧ p.2 < (m0.nvars : Int) := by
    intro x hx
    obtain ⟨p, hp, rfl⟩ := hmem x hx
    have h1 := hO.lvlOf_lt (hpre.decl p hp).1
    have h2 := hO.lvlOf_lt (hpre.decl p hp).2
    simp only
    omega
  have hresv : resolveRename m0.tbl (l.map fun p => (Key.name p.1, Key.name p.2)) =
      pairs.map fun p => (Key.lvl p.1, Key.lvl p.2) := by
    rw [← hpairs]; exact resolveRename_lvlPairs hO l hpre.keys hpre.decl
  have hne : pairs ≠ [] → 0 < m0.nvars := by
    intro hne
    cases hp : pairs with
    | nil => exact absurd hp hne
    | cons x _ =>
      have h := hlv x (by rw [hp]; exact List.mem_cons_self)
      omega
  have hov : ∀ p p', p ∈ pairs → p' ∈ pairs → p.2 ≠ p'.1 := by
    intro x x' hx hx' he
    obtain ⟨p, hp, rfl⟩ := hmem x hx
    obtain ⟨p', hp', rfl⟩ := hmem x' hx'
    simp only at he
    exact hpre.noOverlap p p' hp hp'
      (lvlOf_inj hO (hpre.decl p hp).2 (hpre.decl p' hp').1 (by omega))
  have hrlt : ∀ i, i < m0.tbl.nvars → renOf pairs i < m0.tbl.nvars := fun i hi =>
    renOf_lt pairs m0.nvars (fun p hp => (hlv p hp).2.2.2) i hi
  have hF : LowOnly m0.tbl (fun b => den m0.tbl trans b &&
      den m0.tbl target (fun j => b (renOf pairs j))) := by
    intro b b' hb
    show (den m0.tbl trans b && den m0.tbl target (fun j => b (renOf pairs j))) =
      (den m0.tbl trans b' && den m0.tbl target (fun j => b' (renOf pairs j)))
    rw [den_agree_ge m0.tbl hW trans hu b b' (fun i _ hi => hb i hi),
      den_agree_ge m0.tbl hW target hv (fun j => b (renOf pairs j)) (fun j => b' (renOf pairs j))
        (fun i _ hi => hb _ (hrlt i hi))]
  -- the statement by level implies the statement by name
  have hname : ∀ (r : Int) (m1 : Mgr), StepK m0 m1 → m1.tbl.Mem r →
      (∀ a, den m1.tbl r a = true ↔ qsem fa (qs.map (lvlOf m0.tbl))
        (fun b => den m0.tbl trans b && den m0.tbl target (fun j => b (renOf pairs j))) a) →
      PreimageDoc fa qs l trans target m0.tbl r m1.tbl := by
    intro r m1 hs hr hden
    refine ⟨hr, fun σ => ?_⟩
    have hl : m1.tbl.lift σ = m0.tbl.lift σ := by
      unfold Tbl.lift Tbl.nameOf; rw [hs.frame.l2v]
    unfold denN
    rw [hden, hl]
    refine (qsem_lift_gen hO hF fa qs hpre.qdecl σ).trans ?_
    apply qsemN_congr
    intro τ
    show (den m0.tbl trans (m0.tbl.lift τ) &&
        den m0.tbl target (fun j => m0.tbl.lift τ (renOf pairs j))) =
      (denN m0.tbl trans τ && denN m0.tbl target (fun s => τ (renN l s)))
    unfold denN
    congr 1
    apply den_agree_ge m0.tbl hW target hv
    intro i _ hi
    show τ (m0.tbl.nameOf (renOf pairs i)) = τ (renN l (m0.tbl.nameOf i))
    rw [← hpairs, nameOf_renOf hO l hpre.decl hi]
  obtain ⟨fused, hfused⟩ := preimageFused_ok hI0.wf
    (pairs.map fun p => (Key.lvl p.1, Key.lvl p.2)) target hv
  cases fused with
  | true =>
    -- the fused recursion `_image`: partners neighbours, renaming injective, target independent
    rw [preimageBody_eq_imageF m0 hV trans target _ _ fa (qs.map (lvlOf m0.tbl))
      (mapToLevelE_names m0.tbl qs hpre.qdecl) pairs hresv hne hov hfused]
    obtain ⟨hadj, hinj, s, hs, hdis⟩ := preimageFused_true hfused
    rw [intPairs_map_lvl] at hadj hinj hdis
    obtain ⟨s', hs', _, hdep⟩ := supportLevels_spec' hI0.wf target hv
    rw [hs] at hs'
    cases hs'
    have hterm : (pairs.lookup (m0.nvars : Int)).getD (m0.nvars : Int) = (m0.nvars : Int) := by
      cases hl : pairs.lookup (m0.nvars : Int) with
      | none => rfl
      | some x =>
        have := (hlv _ (lookup_some_mem _ _ _ hl)).2.1
        simp only at this
        omega
    have hP : ImgOKs none (some pairs) [] [] (qs.map (lvlOf m0.tbl)) id (renOf pairs)
        (fun j => InSupp m0.tbl target j) m0.nvars :=
      ⟨fun z hz _ => ⟨rfl, hz⟩,
        fun j hj => ⟨renOf_eq pairs (fun p hp => (hlv p hp).2.2.1) j,
          hrlt j (hj.lt_nvars hW)⟩,
        hterm, fun _ _ _ => rfl, fun _ _ => rfl⟩
    have hmono : True → MonoOn (renOf pairs) (fun j => InSupp m0.tbl target j) := by
      intro _
      refine renOf_mono pairs _ (fun p hp => (hlv p hp).2.2.1) hadj hinj ?_
      intro x hx j hj he
      exact hdis x hx j he ((hdep j).mpr (hj.dependsOn hI0.wf))
    rcases (imageF_out none (some pairs) [] [] (qs.map (lvlOf m0.tbl)) fa id (renOf pairs)
      (fun j => InSupp m0.tbl target j) m0.nvars True hP hmono (2 * m0.nvars + 4) m0 trans
      target {} hI0 hq rfl hu hv (fun _ h => h) (IMemoC.empty _ _ _ _ _ _)
      (by omega)).cases with
      ⟨r, c, m1, he, hs, _, hp⟩ | ⟨m1, he, hs, ha⟩
    rotate_left
    · rw [he]
      exact ⟨rfl, hs, ha⟩
    rw [he]
    refine ⟨hs, hname r m1 hs hp.mr ?_⟩
    intro a
    rw [hp.den trivial, imgSem_ext hs.ext hW hu hv]
    exact Iff.rfl
  | false =>
    -- rename, conjoin, quantify
    rw [preimageBody_eq_fallback m0 hV trans target _ _ fa (qs.map (lvlOf m0.tbl))
      (mapToLevelE_names m0.tbl qs hpre.qdecl) pairs hresv hne hov hfused]
    have hout := preimageFallback_out m0 hI0 hc trans target hu hv fa
      (pairs.map fun p => (Key.lvl p.1, Key.lvl p.2)) (qs.map (lvlOf m0.tbl))
      (badKeys_map_lvl pairs) (by rw [intPairs_map_lvl]; exact hlv)
      (by
        intro i hi
        obtain ⟨s, hs, rfl⟩ := List.mem_map.mp hi
        obtain ⟨j, hj⟩ := (vars_contains_iff _ _).mp (hpre.qdecl s hs)
        rw [lvlOf_eq hj, TreeMap.contains_eq_isSome_getElem?, (hO.inv s j).mp hj]
        rfl)
    rw [intPairs_map_lvl] at hout
    exact hout.mono (fun r m1 hs hp => hname r m1 hs hp.1 hp.2)

theorem PreimagePreL.bridge {ops : List Int} {l : List (String × String)} {qs : List String}
    {t t' : Tbl} (hB : Bridge ops t t') (h : PreimagePreL l qs t) : PreimagePreL l qs t' := by
  refine ⟨h.keys, fun p hp => ?_, fun s hs => ?_, h.noOverlap⟩
  · rw [hB.names, hB.names]; exact h.decl p hp
  · rw [hB.names]; exact h.qdecl s hs

theorem PreimagePreN.bridge {trans target : Int} {l : List (String × String)} {qs : List String}
    {t t' : Tbl} (hB : Bridge [trans, target] t t') (h : PreimagePreN target l qs t) :
    PreimagePreN target l qs t' := by
  refine ⟨h.keys, fun p hp => ?_, fun s hs => ?_, h.noOverlap, h.injective, fun p hp hh => ?_⟩
  · rw [hB.names, hB.names]; exact h.decl p hp
  · rw [hB.names]; exact h.qdecl s hs
  · exact h.indep p hp ((dependsOnN_congr (hB.ops target (by simp)).2 p.2).mp hh)

theorem preimage_names_eq {t : Tbl} (m : Mgr) (hm : m.tbl = t) (hO : OrderOK t) (trans target : Int)
    (fa : Bool) (l : List (String × String)) (qs : List String) (hkeys : (l.map (·.1)).Nodup)
    (hd : ∀ p ∈ l, t.vars.contains p.1 = true ∧ t.vars.contains p.2 = true)
    (hqd : ∀ s ∈ qs, t.vars.contains s = true) :
    preimage trans target (l.map fun p => (Key.name p.1, Key.name p.2)) (qs.map Key.name) fa m =
      tryToReorder (preimageBody trans target (l.map fun p => (Key.name p.1, Key.name p.2))
        (qs.map Key.name) fa) m := by
  subst hm
  unfold preimage
  rw [qvarsByName_names hO qs hqd, renameByName_names hO l hkeys hd]

/-- C09 for `preimage` under its LITERAL preconditions (declared names, pairwise distinct keys, no
key is a value — any order, any renaming, any target): operands held by the user.  Whether or not
a reordering request is served, and whatever sifting does to the partners, the result is the
documented preimage relative to the operands as they were. -/
theorem preimage_literal_transparent (ext : Nat → Nat) (hS : SiftContract ext) (m : Mgr)
    (hD : DynInv ext m) (trans target : Int) (ht : HeldX ext trans) (hs : HeldX ext target)
    (fa : Bool) (l : List (String × String)) (qs : List String)
    (hpre : PreimagePreL l qs m.tbl) :
    ∃ r m', preimage trans target (l.map fun p => (Key.name p.1, Key.name p.2)) (qs.map Key.name)
        fa m = (.ok r, m') ∧ DynPostG ext (PreimageDoc fa qs l trans target) m r m' := by
  rw [preimage_names_eq m rfl hD.order trans target fa l qs hpre.keys hpre.decl hpre.qdecl]
  refine tryToReorder_transparent ext hS _ [trans, target] (PreimagePreL l qs)
    (PreimageDoc fa qs l trans target) ?_ ?_ ?_ m hD ?_ hpre
  · intro m0 hI0 hc hO hp hmem
    exact preimageBody_out m0 hI0 hc hO trans target (hmem trans (by simp))
      (hmem target (by simp)) fa l qs hp
  · intro t t' hB hp
    exact hp.bridge hB
  · intro t t' r t'' hB _ hdoc
    refine ⟨hdoc.1, fun σ => ?_⟩
    rw [hdoc.2 σ]
    apply qsemN_congr
    intro τ
    rw [(hB.ops trans (by simp)).2 τ, (hB.ops target (by simp)).2]
  · intro w hw
    simp only [List.mem_cons, List.not_mem_nil, or_false] at hw
    rcases hw with rfl | rfl
    · exact ht
    · exact hs

/-- C09 for `preimage` (the hypotheses of the earlier rounds, which include the literal ones) -/
theorem preimage_transparent (ext : Nat → Nat) (hS : SiftContract ext) (m : Mgr)
    (hD : DynInv ext m) (trans target : Int) (ht : HeldX ext trans) (hs : HeldX ext target)
    (fa : Bool) (l : List (String × String)) (qs : List String)
    (hpre : PreimagePreN target l qs m.tbl) :
    ∃ r m', preimage trans target (l.map fun p => (Key.name p.1, Key.name p.2)) (qs.map Key.name)
        fa m = (.ok r, m') ∧ DynPostG ext (PreimageDoc fa qs l trans target) m r m' :=
  preimage_literal_transparent ext hS m hD trans target ht hs fa l qs hpre.toL

end DD
