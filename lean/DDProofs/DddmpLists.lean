/-
  DDProofs.DddmpLists — facts about the list-based Python dictionaries, the insertion
  sort and `set(...)` used by the model of `dd/dddmp.py` (`DD/Dddmp.lean`).
-/
import DD.Dddmp
open Std

namespace DD

/-! ### dictionaries -/

section Dict
variable {κ ν : Type} [DecidableEq κ]

theorem dictGet_dictSet_same (d : List (κ × ν)) (k : κ) (v : ν) :
    dictGet (dictSet d k v) k = some v := by
  induction d with
  | nil => simp [dictSet, dictGet]
  | cons p r ih =>
    obtain ⟨k', v'⟩ := p
    by_cases h : k' = k
    · simp [dictSet, dictGet, h]
    · simp [dictSet, dictGet, h, ih]

theorem dictGet_dictSet_ne (d : List (κ × ν)) (k k' : κ) (v : ν) (h : k' ≠ k) :
    dictGet (dictSet d k v) k' = dictGet d k' := by
  induction d with
  | nil => simp [dictSet, dictGet, Ne.symm h]
  | cons p r ih =>
    obtain ⟨k₀, v₀⟩ := p
    by_cases h0 : k₀ = k
    · subst h0
      simp [dictSet, dictGet, Ne.symm h]
    · by_cases h1 : k₀ = k'
      · subst h1
        simp [dictSet, dictGet, h]
      · simp [dictSet, dictGet, h0, h1, ih]

theorem dictSet_of_not_mem (d : List (κ × ν)) (k : κ) (v : ν) (h : k ∉ d.map (·.1)) :
    dictSet d k v = d ++ [(k, v)] := by
  induction d with
  | nil => rfl
  | cons p r ih =>
    obtain ⟨k₀, v₀⟩ := p
    simp only [List.map_cons, List.mem_cons, not_or] at h
    simp [dictSet, Ne.symm h.1, ih h.2]

theorem dictOf_go_nodup (l acc : List (κ × ν)) (h : ((acc ++ l).map (·.1)).Nodup) :
    l.foldl (fun d kv => dictSet d kv.1 kv.2) acc = acc ++ l := by
  induction l generalizing acc with
  | nil => simp
  | cons p r ih =>
    have hp : p.1 ∉ acc.map (·.1) := by
      intro hm
      rw [List.map_append, List.map_cons] at h
      have := (List.nodup_append.mp h).2.2 _ hm _ (List.mem_cons_self)
      exact this rfl
    rw [List.foldl_cons, dictSet_of_not_mem _ _ _ hp]
    have : acc ++ [(p.1, p.2)] ++ r = acc ++ p :: r := by simp
    rw [ih]
    · exact this
    · rw [this]; exact h

/-- a comprehension over distinct keys is the list of its items -/
theorem dictOf_nodup (l : List (κ × ν)) (h : (l.map (·.1)).Nodup) : dictOf l = l := by
  have := dictOf_go_nodup l [] (by simpa using h)
  simpa [dictOf] using this

theorem dictGet_of_mem (d : List (κ × ν)) (h : (d.map (·.1)).Nodup) {k : κ} {v : ν}
    (hm : (k, v) ∈ d) : dictGet d k = some v := by
  induction d with
  | nil => cases hm
  | cons p r ih =>
    obtain ⟨k₀, v₀⟩ := p
    simp only [List.map_cons, List.nodup_cons] at h
    rcases List.mem_cons.mp hm with he | hr
    · cases he
      simp [dictGet]
    · have : k₀ ≠ k := by
        intro e; subst e
        exact h.1 (List.mem_map.mpr ⟨(k₀, v), hr, rfl⟩)
      simp [dictGet, this, ih h.2 hr]

theorem dictGet_some_mem (d : List (κ × ν)) {k : κ} {v : ν} (h : dictGet d k = some v) :
    (k, v) ∈ d := by
  induction d with
  | nil => simp [dictGet] at h
  | cons p r ih =>
    obtain ⟨k₀, v₀⟩ := p
    by_cases h0 : k₀ = k
    · subst h0
      simp [dictGet] at h
      subst h
      exact List.mem_cons_self
    · simp [dictGet, h0] at h
      exact List.mem_cons_of_mem _ (ih h)

end Dict

/-! ### `sorted` -/

theorem insertInt_perm (a : Int) (l : List Int) : (insertInt a l).Perm (a :: l) := by
  induction l with
  | nil => exact List.Perm.refl _
  | cons b r ih =>
    unfold insertInt
    split
    · exact List.Perm.refl _
    · exact (List.Perm.cons b ih).trans (List.Perm.swap a b r)

theorem sortInts_perm (l : List Int) : (sortInts l).Perm l := by
  induction l with
  | nil => exact List.Perm.refl _
  | cons a r ih =>
    show (insertInt a (sortInts r)).Perm (a :: r)
    exact (insertInt_perm a _).trans (List.Perm.cons a ih)

theorem insertInt_sorted (a : Int) (l : List Int) (h : l.Pairwise (· ≤ ·)) :
    (insertInt a l).Pairwise (· ≤ ·) := by
  induction l with
  | nil => simp [insertInt]
  | cons b r ih =>
    unfold insertInt
    split
    · next hab =>
      refine List.Pairwise.cons ?_ h
      intro c hc
      rcases List.mem_cons.mp hc with rfl | hc
      · exact hab
      · exact Int.le_trans hab ((List.pairwise_cons.mp h).1 c hc)
    · next hab =>
      have hba : b ≤ a := by omega
      refine List.Pairwise.cons ?_ (ih (List.pairwise_cons.mp h).2)
      intro c hc
      have := (insertInt_perm a r).mem_iff.mp hc
      rcases List.mem_cons.mp this with rfl | hc
      · exact hba
      · exact (List.pairwise_cons.mp h).1 c hc

theorem sortInts_sorted (l : List Int) : (sortInts l).Pairwise (· ≤ ·) := by
  induction l with
  | nil => simp [sortInts]
  | cons a r ih => exact insertInt_sorted a _ ih

/-- in a sorted list without duplicates the positions are ordered as the values -/
theorem sorted_index_lt {l : List Int} (hs : l.Pairwise (· ≤ ·)) {i j : Nat} {a b : Int}
    (hi : l[i]? = some a) (hj : l[j]? = some b) (hab : a < b) : i < j := by
  rcases Nat.lt_or_ge i j with h | h
  · exact h
  · exfalso
    rcases Nat.eq_or_lt_of_le h with h | h
    · subst h
      rw [hi] at hj
      cases hj
      omega
    · obtain ⟨hj', ej⟩ := List.getElem?_eq_some_iff.mp hj
      obtain ⟨hi', ei⟩ := List.getElem?_eq_some_iff.mp hi
      have := List.pairwise_iff_getElem.mp hs j i hj' hi' h
      rw [ej, ei] at this
      omega

/-! ### `set(rootids)` -/

theorem mem_dedupInts (l : List Int) (a : Int) : a ∈ dedupInts l ↔ a ∈ l := by
  induction l with
  | nil => simp [dedupInts]
  | cons b r ih =>
    unfold dedupInts
    split
    · next h =>
      have hb : b ∈ r := by simpa using h
      rw [ih]
      constructor
      · exact List.mem_cons_of_mem _
      · intro h'
        rcases List.mem_cons.mp h' with rfl | h'
        · exact hb
        · exact h'
    · simp [ih]

/-! ### `mapM` in `Except` -/

theorem dddmp_mapM_ok {α β : Type} (f : α → Except Err β) (g : α → β) :
    ∀ l : List α, (∀ x ∈ l, f x = .ok (g x)) → l.mapM f = .ok (l.map g) := by
  intro l
  induction l with
  | nil => intro _; rfl
  | cons a r ih =>
    intro h
    rw [List.mapM_cons, h a List.mem_cons_self, ih (fun x hx => h x (List.mem_cons_of_mem _ hx))]
    rfl

theorem nodup_map_of_inj_on {α β : Type} (f : α → β) :
    ∀ l : List α, (∀ a ∈ l, ∀ b ∈ l, f a = f b → a = b) → l.Nodup → (l.map f).Nodup := by
  intro l
  induction l with
  | nil => intro _ _; simp
  | cons a r ih =>
    intro hinj hnd
    rw [List.nodup_cons] at hnd
    rw [List.map_cons, List.nodup_cons]
    refine ⟨?_, ih (fun x hx y hy => hinj x (List.mem_cons_of_mem _ hx) y (List.mem_cons_of_mem _ hy)) hnd.2⟩
    intro hm
    obtain ⟨b, hb, hfb⟩ := List.mem_map.mp hm
    have := hinj b (List.mem_cons_of_mem _ hb) a List.mem_cons_self hfb
    subst this
    exact hnd.1 hb

/-- pairs with distinct second components: the first component is determined -/
theorem fst_eq_of_snd_nodup {α β : Type} {l : List (α × β)} (h : (l.map (·.2)).Nodup)
    {a a' : α} {b : β} (h1 : (a, b) ∈ l) (h2 : (a', b) ∈ l) : a = a' := by
  induction l with
  | nil => cases h1
  | cons p r ih =>
    simp only [List.map_cons, List.nodup_cons] at h
    rcases List.mem_cons.mp h1 with e1 | m1
    · rcases List.mem_cons.mp h2 with e2 | m2
      · rw [← e2] at e1; exact (Prod.mk.inj e1).1
      · exfalso; apply h.1; rw [← e1]; exact List.mem_map.mpr ⟨(a', b), m2, rfl⟩
    · rcases List.mem_cons.mp h2 with e2 | m2
      · exfalso; apply h.1; rw [← e2]; exact List.mem_map.mpr ⟨(a, b), m1, rfl⟩
      · exact ih h.2 m1 m2

theorem snd_eq_of_fst_nodup {α β : Type} {l : List (α × β)} (h : (l.map (·.1)).Nodup)
    {a : α} {b b' : β} (h1 : (a, b) ∈ l) (h2 : (a, b') ∈ l) : b = b' := by
  induction l with
  | nil => cases h1
  | cons p r ih =>
    simp only [List.map_cons, List.nodup_cons] at h
    rcases List.mem_cons.mp h1 with e1 | m1
    · rcases List.mem_cons.mp h2 with e2 | m2
      · rw [← e2] at e1; exact (Prod.mk.inj e1).2
      · exfalso; apply h.1; rw [← e1]; exact List.mem_map.mpr ⟨(a, b'), m2, rfl⟩
    · rcases List.mem_cons.mp h2 with e2 | m2
      · exfalso; apply h.1; rw [← e2]; exact List.mem_map.mpr ⟨(a, b), m1, rfl⟩
      · exact ih h.2 m1 m2

theorem nodup_of_nodup_map {α β : Type} (f : α → β) :
    ∀ l : List α, (l.map f).Nodup → l.Nodup := by
  intro l
  induction l with
  | nil => intro _; simp
  | cons a r ih =>
    intro h
    rw [List.map_cons, List.nodup_cons] at h
    rw [List.nodup_cons]
    exact ⟨fun hm => h.1 (List.mem_map.mpr ⟨a, hm, rfl⟩), ih h.2⟩

theorem nodup_getElem?_inj {α : Type} {l : List α} (h : l.Nodup) {i j : Nat} {a : α}
    (hi : l[i]? = some a) (hj : l[j]? = some a) : i = j := by
  obtain ⟨hi', ei⟩ := List.getElem?_eq_some_iff.mp hi
  obtain ⟨hj', ej⟩ := List.getElem?_eq_some_iff.mp hj
  have hp : l.Pairwise (· ≠ ·) := h
  rcases Nat.lt_trichotomy i j with hlt | heq | hgt
  · exact absurd (ei.trans ej.symm) (List.pairwise_iff_getElem.mp hp i j hi' hj' hlt)
  · exact heq
  · exact absurd (ej.trans ei.symm) (List.pairwise_iff_getElem.mp hp j i hj' hi' hgt)

end DD
