/-
  DDProofs.CapacitySwap — what is NOT true at capacity (finding F22): `BDD.swap` calls
  `find_or_add` in the middle of its rewrite of two levels, so a `RuntimeError('full')` there
  leaves a manager that violates the invariant.  `swapG` is the text of `DD.swap` with
  `findOrAdd` abstracted (`swapG_findOrAdd`); `swapCap cap = swapG (findOrAddCap cap)`.
  Concrete refutation on a reachable manager: `swapCap_breaks_inv`.
-/
import DDProofs.CapacityIte
import DDProofs.Reach
open Std

namespace DD

theorem moveDepStepG_findOrAdd (x y u : Nat) (v w : Int) :
    moveDepStepG findOrAdd x y u v w = moveDepStep x y u v w := rfl

theorem moveDepG_findOrAdd (x y : Nat) (done : List Nat) :
    ∀ l, moveDepG findOrAdd x y done l = moveDep x y done l := by
  intro l
  induction l with
  | nil => rfl
  | cons a l ih =>
    obtain ⟨u, v, w⟩ := a
    unfold moveDepG moveDep
    rw [ih, moveDepStepG_findOrAdd]

/-- the layer instantiated with the capacity-free `find_or_add` is the model of `swap` -/
theorem swapG_findOrAdd : swapG findOrAdd = swap := by
  funext xa ya given
  have h1 : ∀ x y ox oy, swapNodesG findOrAdd x y ox oy = swapNodes x y ox oy := by
    intro x y ox oy
    unfold swapNodesG swapNodes
    simp only [moveDepG_findOrAdd]
  have h2 : ∀ x y o ox oy, swapWithG findOrAdd x y o ox oy = swapWith x y o ox oy := by
    intro x y o ox oy
    unfold swapWithG swapWith
    rw [h1]
  have h3 : ∀ x y, swapBodyG findOrAdd x y = swapBody x y := by
    intro x y
    unfold swapBodyG swapBody
    simp only [h2]
  unfold swapG swap
  simp only [h3]

/-! ### the refutation

`swapM`: variables `a < b < c`; nodes 3 = `b`, 4 = `c`, 5 = `ite(a, b, c)` held by the caller;
collected (`_min_free = 2`, `len = 4`).  `swap(0, 1)` must rebuild node 5 from two NEW nodes at
level 1 (`¬c` … `(1, -4, 1)` and `(1, 4, 1)`).  With `max_nodes = 7` the first is stored at 2
(6 is free), the second is refused at 6.  At that point node 3 has been moved to level 0, the
unique-table entries of nodes 3 and 5 were popped, the children of node 5 decref'ed. -/

def swapOps : List UOp :=
  [.declare "a" none, .declare "b" none, .declare "c" none,
   .var "a", .var "b", .var "c", .ite 2 3 4, .incref 5, .collectGarbage]

def swapSt : St := run swapOps St.init
def swapM : Mgr := swapSt.m

theorem swapM_good : GoodState swapM swapSt.ext := reachable_inv swapOps (by decide)

/-- F22: from a GOOD state, `swap` at capacity raises `RuntimeError` and leaves a manager that
does NOT satisfy the invariant (node 5 is stored but missing from the unique table; it sits at
level 0 above node 3, which is at level 0 too) — whereas the capacity-free `swap` succeeds -/
theorem swapCap_breaks_inv :
    raisedErr (swapCap 7 (.level 0) (.level 1) false swapM).1 = some .runtime ∧
    ¬ Inv (swapCap 7 (.level 0) (.level 1) false swapM).2 ∧
    raisedErr (swap (.level 0) (.level 1) false swapM).1 = none := by
  refine ⟨by decide +kernel, fun hI => ?_, by decide +kernel⟩
  have h : (swapCap 7 (.level 0) (.level 1) false swapM).2.tbl.node? 5 = some ⟨0, 4, 3⟩ ∧
      (swapCap 7 (.level 0) (.level 1) false swapM).2.pred[(⟨0, 4, 3⟩ : Nd).key]? = none := by
    decide +kernel
  have := (hI.pred _ _).mpr h.1
  rw [h.2] at this
  cases this

end DD
