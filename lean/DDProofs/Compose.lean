/-
  DDProofs.Compose — specification of `_compose` (substitution of a function for a single
  variable; memo keyed by the pair `(f, g)`; simultaneous descent on `min(i, k)`).
-/
import DDProofs.Copy
open Std

namespace DD

/-- the cofactors returned by `_top_cofactor` are not above the reference -/
theorem topCofactor_lvl (t : Tbl) (hw : WF t) (u : Int) (z : Nat) (u0 u1 : Int)
    (h : topCofactor t u z = .ok (u0, u1)) :
    t.levelOf u ≤ t.levelOf u0 ∧ t.levelOf u ≤ t.levelOf u1 := by
  unfold topCofactor at h
  by_cases h1 : u.natAbs = 1
  · simp only [h1, if_true] at h
    cases h
    exact ⟨Nat.le_refl _, Nat.le_refl _⟩
  · simp only [h1, if_false] at h
    cases hn : t.succ[u.natAbs]? with
    | none => rw [hn] at h; cases h
    | some n =>
      rw [hn] at h
      simp only at h
      have hl := levelOf_node t u n h1 hn
      have hlo := hw.lo_lt _ _ hn
      have hhi := hw.hi_lt _ _ hn
      split at h
      · cases h; exact ⟨Nat.le_refl _, Nat.le_refl _⟩
      · split at h
        · cases h
        · split at h
          · cases h
            rw [levelOf_neg, levelOf_neg]; omega
          · cases h
            omega

/-- what `_compose` guarantees about the reference it returns for `(f, g)` -/
structure KPost (j : Nat) (t : Tbl) (f g r : Int) : Prop where
  mf : t.Mem f
  mg : t.Mem g
  mr : t.Mem r
  lvl : min (t.levelOf f) (t.levelOf g) ≤ t.levelOf r
  den : ∀ a, den t r a = den t f (upd a j (den t g a))

def KMemo (j : Nat) (t : Tbl) (c : HashMap (Int × Int) Int) : Prop :=
  ∀ (f g r : Int), c[(f, g)]? = some r → KPost j t f g r

theorem KPost.ext {j : Nat} {m t : Tbl} (hw : WF m) (he : Ext m t) {f g r : Int}
    (h : KPost j m f g r) : KPost j t f g r := by
  refine ⟨he.mem h.mf, he.mem h.mg, he.mem h.mr, ?_, ?_⟩
  · rw [he.levelOf h.mf, he.levelOf h.mg, he.levelOf h.mr]; exact h.lvl
  · intro a
    rw [den_ext he hw r a h.mr, den_ext he hw g a h.mg, den_ext he hw f _ h.mf]
    exact h.den a

theorem KMemo.ext {j : Nat} {m t : Tbl} (hw : WF m) (he : Ext m t)
    {c : HashMap (Int × Int) Int} (h : KMemo j m c) : KMemo j t c :=
  fun f g r hc => (h f g r hc).ext hw he

theorem KMemo.empty (j : Nat) (t : Tbl) : KMemo j t {} := by
  intro f g r h
  simp at h

theorem KMemo.insert {j : Nat} {t : Tbl} {c : HashMap (Int × Int) Int}
    (h : KMemo j t c) {f g r : Int} (he : KPost j t f g r) :
    KMemo j t (c.insert (f, g) r) := by
  intro f' g' r' hc
  rw [HashMap.getElem?_insert] at hc
  split at hc
  · next heq =>
    have : (f, g) = (f', g') := by simpa using heq
    cases this
    cases hc
    exact he
  · exact h f' g' r' hc

/-- `_compose`: total when reordering is not enabled; the result denotes `f` with the variable
at level `j` replaced by `g`. -/
theorem composeF_spec (j : Nat) :
    ∀ (fu : Nat) (m : Mgr) (f g : Int) (cache : HashMap (Int × Int) Int),
    Inv m → m.lastLen = none → m.tbl.Mem f → m.tbl.Mem g → KMemo j m.tbl cache →
    2 * m.nvars + 1 ≤ fu + m.tbl.levelOf f + m.tbl.levelOf g →
    ∃ r c' m', composeF j fu f g cache m = (.ok (r, c'), m') ∧ Step m m' ∧
      KMemo j m'.tbl c' ∧ KPost j m'.tbl f g r := by
  intro fu
  induction fu with
  | zero =>
    intro m f g cache hI _ hf hg _ hfu
    have := levelOf_le m.tbl hI.wf.toWF f
    have := levelOf_le m.tbl hI.wf.toWF g
    have : m.nvars = m.tbl.nvars := rfl
    omega
  | succ fu ih =>
    intro m f g cache hI hoff hf hg hmemo hfu
    have hW := hI.wf.toWF
    have hnv : m.nvars = m.tbl.nvars := rfl
    unfold composeF
    by_cases h1 : f.natAbs = 1
    · simp only [h1, if_true]
      exact ⟨f, cache, m, rfl, Step.refl hI, hmemo, hf, hg, hf, Nat.min_le_left _ _,
        fun a => den_term_any _ f h1 _ _⟩
    · simp only [h1, if_false]
      cases hc : cache[(f, g)]? with
      | some r => exact ⟨r, cache, m, rfl, Step.refl hI, hmemo, hmemo f g r hc⟩
      | none =>
        simp only
        obtain ⟨n, hn⟩ := mem_node hf h1
        have hn' : m.tbl.succ[f.natAbs]? = some n := hn
        rw [hn']
        simp only [node_succ_ne_zero hW hn, if_false]
        have hlf := levelOf_node m.tbl f n h1 hn
        have hlo := hW.lo_lt _ _ hn
        have hhi := hW.hi_lt _ _ hn
        have hlom := hW.lo_mem _ _ hn
        have hhim := hW.hi_mem _ _ hn
        have hltn := hW.lvl_lt _ _ hn
        by_cases hjlt : j < n.lvl
        · -- `f` does not depend on the variable
          simp only [hjlt, if_true]
          refine ⟨f, cache, m, rfl, Step.refl hI, hmemo, hf, hg, hf, Nat.min_le_left _ _, ?_⟩
          intro a
          exact (den_indep' m.tbl hW f hf j _ a (by omega)).symm
        · simp only [hjlt, if_false]
          by_cases hjeq : n.lvl = j
          · -- the node of the variable: `ite(g, high, low)`
            simp only [hjeq, if_true]
            obtain ⟨r0, m1, he1, hp1⟩ := ite_spec_off m hI hoff g n.hi n.lo hg hhim hlom
            rw [he1]
            simp only
            have hs1 := hp1.step
            have hW1 := hp1.inv.wf.toWF
            have hn1 : m1.tbl.node? f.natAbs = some n := hs1.ext.nodes _ _ hn
            have hent : KPost j m1.tbl f g (if f < 0 then -r0 else r0) := by
              refine ⟨hs1.ext.mem hf, hs1.ext.mem hg, mem_flip f hp1.mem, ?_, ?_⟩
              · rw [levelOf_flip, hs1.ext.levelOf hf, hs1.ext.levelOf hg, hlf]
                have := hp1.lvl
                omega
              · intro a
                rw [den_flip m1.tbl hW1 r0 f a hp1.mem, hp1.den a,
                  den_node m1.tbl hW1 f n _ h1 hn1, hjeq, upd_same,
                  den_ext hs1.ext hW g a hg, den_ext hs1.ext hW n.hi _ hhim,
                  den_ext hs1.ext hW n.lo _ hlom,
                  den_indep' m.tbl hW n.hi hhim j _ a (by omega),
                  den_indep' m.tbl hW n.lo hlom j _ a (by omega)]
            exact ⟨_, _, m1, rfl, hs1, (hmemo.ext hW hs1.ext).insert hent, hent⟩
          · simp only [hjeq, if_false]
            have hnj : n.lvl < j := by omega
            rw [Tbl.levelOf?_eq _ _ hg]
            simp only
            generalize hz : min n.lvl (m.tbl.levelOf g) = z
            have hzf : z ≤ m.tbl.levelOf f := by omega
            have hzg : z ≤ m.tbl.levelOf g := by omega
            have hzn : z < m.tbl.nvars := by omega
            obtain ⟨f0, f1, hcf, mf0, mf1, lf0, lf1, df⟩ := topCofactor_spec m.tbl hW f hf z hzf hzn
            obtain ⟨g0, g1, hcg, mg0, mg1, lg0, lg1, dg⟩ := topCofactor_spec m.tbl hW g hg z hzg hzn
            obtain ⟨lf0', lf1'⟩ := topCofactor_lvl m.tbl hW f z f0 f1 hcf
            obtain ⟨lg0', lg1'⟩ := topCofactor_lvl m.tbl hW g z g0 g1 hcg
            rw [hcf, hcg]
            simp only
            obtain ⟨p, c1, m1, he1, hs1, hm1, hp1⟩ := ih m f0 g0 cache hI hoff mf0 mg0 hmemo
              (by omega)
            rw [he1]
            simp only
            have hW1 := hs1.inv.wf.toWF
            obtain ⟨q, c2, m2, he2, hs2, hm2, hp2⟩ := ih m1 f1 g1 c1 hs1.inv (hs1.off hoff)
              (hs1.ext.mem mf1) (hs1.ext.mem mg1) hm1
              (by rw [hs1.nvars, hs1.ext.levelOf mf1, hs1.ext.levelOf mg1]; omega)
            rw [he2]
            simp only
            have hW2 := hs2.inv.wf.toWF
            have hs12 := hs1.trans hs2
            have hp1_2 := hp1.ext hW1 hs2.ext
            have hlp : z < m2.tbl.levelOf p := by
              have := hp1_2.lvl
              rw [hs12.ext.levelOf mf0, hs12.ext.levelOf mg0] at this
              omega
            have hlq : z < m2.tbl.levelOf q := by
              have := hp2.lvl
              rw [hs12.ext.levelOf mf1, hs12.ext.levelOf mg1] at this
              omega
            obtain ⟨r, m3, he3, hp3⟩ := findOrAdd_off m2 hs2.inv (hs12.off hoff) z p q
              (by rw [hs12.nvars]; exact hzn) hp1_2.mr hp2.mr hlp hlq
            rw [he3]
            simp only
            have hs3 := hs12.trans hp3.step
            have hW3 := hp3.inv.wf.toWF
            have hp1_3 := hp1_2.ext hW2 hp3.ext
            have hp2_3 := hp2.ext hW2 hp3.ext
            have hzj : z ≠ j := by omega
            have hent : KPost j m3.tbl f g r := by
              refine ⟨hs3.ext.mem hf, hs3.ext.mem hg, hp3.mem, ?_, ?_⟩
              · rw [hs3.ext.levelOf hf, hs3.ext.levelOf hg]
                have := hp3.lvl
                omega
              · intro a
                rw [hp3.den a, ← den_ext hp3.ext hW2 q a hp2.mr,
                  ← den_ext hp3.ext hW2 p a hp1_2.mr, hp1_3.den a, hp2_3.den a,
                  den_ext hs3.ext hW f _ hf, den_ext hs3.ext hW g a hg,
                  den_ext hs3.ext hW f1 _ mf1, den_ext hs3.ext hW g1 a mg1,
                  den_ext hs3.ext hW f0 _ mf0, den_ext hs3.ext hW g0 a mg0,
                  df, dg a, upd_other _ _ _ _ hzj]
                cases a z <;> simp
            exact ⟨_, _, m3, rfl, hs3, (hm2.ext hW2 hp3.ext).insert hent, hent⟩

end DD
