/-
  DDProofs.SwapMid — the phase invariant `Mid` of `swap` and the generic steps that keep it.

  During the swap the manager is NOT consistent: the unique table lacks the entries of the
  nodes still to be processed (`pend`), and those nodes carry their old triple although the
  levels around them have already changed.  `Mid m0 m x pend` says that the node table of `m`
  is related to the table of the state `m0` before the swap by `SwapRel … pend`, that the
  unique table is in sync with exactly the non-pending nodes, and the bookkeeping facts
  (`min_free`, domain of `_ref`, untouched fields).

  Generic steps:  `Mid.setRef` (counter changes), `Mid.addFresh` (a `find_or_add` that creates a
  node at the lower level), `Mid.setNode` (one pending node gets its new triple and re-enters
  the unique table), `findOrAddCore_struct` (structural specification of `find_or_add` that needs
  no invariant on levels).
-/
import DD.Order
import DDProofs.SwapSem
import DDProofs.FindOrAdd
import DDProofs.MonadM
open Std

namespace DD

/-! ### classification of the nodes of the table during the swap -/

namespace SwapRel
variable {t t' : Tbl} {x : Nat} {pend : Nat → Prop}

/-- where a non-pending node of the current table comes from -/
theorem classify (h : SwapRel t t' x pend) {k : Nat} {n' : Nd} (hk : t'.node? k = some n')
    (hp : ¬ pend k) :
    (t.node? k = none ∧ 2 ≤ k ∧ n'.lvl = x + 1 ∧ t.Mem n'.lo ∧ t.Mem n'.hi ∧
        x + 1 < t.levelOf n'.lo ∧ x + 1 < t.levelOf n'.hi ∧ 0 < n'.hi ∧ n'.lo ≠ n'.hi) ∨
    (∃ n, t.node? k = some n ∧
      ((n.lvl ≠ x ∧ n.lvl ≠ x + 1 ∧ n' = n) ∨
       (n.lvl = x + 1 ∧ n' = ⟨x, n.lo, n.hi⟩) ∨
       (n.lvl = x ∧ t.levelOf n.lo ≠ x + 1 ∧ t.levelOf n.hi ≠ x + 1 ∧ n' = ⟨x + 1, n.lo, n.hi⟩) ∨
       (n.lvl = x ∧ (t.levelOf n.lo = x + 1 ∨ t.levelOf n.hi = x + 1) ∧ ∃ p q, n' = ⟨x, p, q⟩ ∧
          Mk t' (x + 1) (cof t (x + 1) n.lo).1 (cof t (x + 1) n.hi).1 p ∧
          Mk t' (x + 1) (cof t (x + 1) n.lo).2 (cof t (x + 1) n.hi).2 q))) := by
  cases hn : t.node? k with
  | none => exact Or.inl ⟨rfl, h.fresh k n' hn hk⟩
  | some n =>
    right
    refine ⟨n, rfl, ?_⟩
    by_cases h1 : n.lvl = x + 1
    · have := h.up k n hn h1 hp
      rw [this] at hk; cases hk
      exact Or.inr (Or.inl ⟨h1, rfl⟩)
    · by_cases h2 : n.lvl = x
      · by_cases h3 : t.levelOf n.lo = x + 1 ∨ t.levelOf n.hi = x + 1
        · obtain ⟨p, q, hh, hp', hq'⟩ := h.dep k n hn h2 h3 hp
          rw [hh] at hk; cases hk
          exact Or.inr (Or.inr (Or.inr ⟨h2, h3, p, q, rfl, hp', hq'⟩))
        · have hlo : t.levelOf n.lo ≠ x + 1 := fun e => h3 (Or.inl e)
          have hhi : t.levelOf n.hi ≠ x + 1 := fun e => h3 (Or.inr e)
          have := h.indep k n hn h2 hlo hhi hp
          rw [this] at hk; cases hk
          exact Or.inr (Or.inr (Or.inl ⟨h2, hlo, hhi, rfl⟩))
      · have := h.other k n hn h2 h1
        rw [this] at hk; cases hk
        exact Or.inl ⟨h2, h1, rfl⟩

end SwapRel

/-! ### the phase invariant -/

structure Mid (m0 m : Mgr) (x : Nat) (pend : Nat → Prop) : Prop where
  rel : SwapRel m0.tbl m.tbl x pend
  /-- only nodes of the two levels are ever pending -/
  pendOK : ∀ u, pend u → ∃ n, m0.tbl.node? u = some n ∧ (n.lvl = x ∨ n.lvl = x + 1)
  /-- the unique table holds exactly the non-pending nodes -/
  pred : ∀ (n : Nd) (u : Nat), m.pred[n.key]? = some u ↔ (m.tbl.node? u = some n ∧ ¬ pend u)
  freeGe : 2 ≤ m.minFree
  free : m.tbl.node? m.minFree = none
  refOne : m.ref.contains 1 = true
  refDom : ∀ u n, m.tbl.node? u = some n → m.ref.contains u = true
  frame : Frame m0 m

namespace Mid
variable {m0 m : Mgr} {x : Nat} {pend : Nat → Prop}

theorem congr {pend' : Nat → Prop} (h : Mid m0 m x pend) (he : ∀ k, pend k ↔ pend' k) :
    Mid m0 m x pend' := by
  have : pend = pend' := funext fun k => propext (he k)
  rw [← this]; exact h

theorem nvars (h : Mid m0 m x pend) : m.nvars = m0.nvars := h.rel.nvars

theorem mem0 (h : Mid m0 m x pend) {c : Int} (hc : m0.tbl.Mem c) : m.tbl.Mem c := h.rel.mem hc

theorem refMem (h : Mid m0 m x pend) {c : Int} (hc : m.tbl.Mem c) : m.ref.contains c.natAbs = true := by
  rcases hc with h1 | h1
  · rw [h1]; exact h.refOne
  · obtain ⟨n, hn⟩ := Option.isSome_iff_exists.mp h1
    exact h.refDom _ _ hn

/-- a pending node still carries its old triple -/
theorem pend_node (h : Mid m0 m x pend) {u : Nat} (hp : pend u) :
    ∃ n, m0.tbl.node? u = some n ∧ m.tbl.node? u = some n ∧ (n.lvl = x ∨ n.lvl = x + 1) := by
  obtain ⟨n, hn, hl⟩ := h.pendOK u hp
  exact ⟨n, hn, h.rel.pending u n hn hp, hl⟩

theorem ge_two (h : Mid m0 m x pend) (hw : WF m0.tbl) {k : Nat} {n : Nd} (hk : m.tbl.node? k = some n) :
    2 ≤ k := by
  cases hn : m0.tbl.node? k with
  | none => exact (h.rel.fresh k n hn hk).1
  | some n0 => exact hw.ge_two _ _ hn

end Mid

/-! ### counters -/

/-- only the counters changed, and their key set did not -/
structure RefOnly (m m' : Mgr) : Prop where
  tbl : m'.tbl = m.tbl
  pred : m'.pred = m.pred
  minFree : m'.minFree = m.minFree
  cache : m'.cache = m.cache
  lastLen : m'.lastLen = m.lastLen
  ctx : m'.ctx = m.ctx
  fireIn : m'.fireIn = m.fireIn
  sched : m'.sched = m.sched
  roots : m'.roots = m.roots
  keys : ∀ k, m'.ref.contains k = m.ref.contains k

theorem Mid.refOnly {m0 m m' : Mgr} {x : Nat} {pend : Nat → Prop} (h : Mid m0 m x pend)
    (hr : RefOnly m m') : Mid m0 m' x pend := by
  refine ⟨by rw [hr.tbl]; exact h.rel, h.pendOK, ?_, by rw [hr.minFree]; exact h.freeGe,
    by rw [hr.minFree, hr.tbl]; exact h.free, by rw [hr.keys]; exact h.refOne, ?_,
    ⟨by rw [hr.tbl]; exact h.frame.vars, by rw [hr.tbl]; exact h.frame.l2v,
     hr.lastLen.trans h.frame.lastLen, hr.ctx.trans h.frame.ctx, hr.sched.trans h.frame.sched,
     hr.roots.trans h.frame.roots⟩⟩
  · intro n u; rw [hr.pred, hr.tbl]; exact h.pred n u
  · intro u n hn; rw [hr.keys]; rw [hr.tbl] at hn; exact h.refDom u n hn

theorem decref_frame (m : Mgr) (u : Int) (h : m.ref.contains u.natAbs = true) :
    ∃ m', decref u m = (.ok (), m') ∧ RefOnly m m' := by
  rw [TreeMap.contains_eq_isSome_getElem?] at h
  obtain ⟨c, hc⟩ := Option.isSome_iff_exists.mp h
  unfold decref
  rw [hc]
  by_cases h0 : c = 0
  · exact ⟨m, by simp [h0], ⟨rfl, rfl, rfl, rfl, rfl, rfl, rfl, rfl, rfl, fun _ => rfl⟩⟩
  · refine ⟨{ m with ref := m.ref.insert u.natAbs (c - 1) }, by simp [h0],
      ⟨rfl, rfl, rfl, rfl, rfl, rfl, rfl, rfl, rfl, ?_⟩⟩
    intro k
    show (m.ref.insert u.natAbs (c - 1)).contains k = m.ref.contains k
    rw [TreeMap.contains_insert]
    by_cases hk : u.natAbs = k
    · subst hk
      rw [TreeMap.contains_eq_isSome_getElem?, hc]; simp
    · simp [hk]

theorem incref_frame (m : Mgr) (u : Int) (h : m.ref.contains u.natAbs = true) :
    ∃ m', incref u m = (.ok (), m') ∧ RefOnly m m' := by
  rw [TreeMap.contains_eq_isSome_getElem?] at h
  obtain ⟨c, hc⟩ := Option.isSome_iff_exists.mp h
  unfold incref
  rw [hc]
  refine ⟨{ m with ref := m.ref.insert u.natAbs (c + 1) }, rfl,
    ⟨rfl, rfl, rfl, rfl, rfl, rfl, rfl, rfl, rfl, ?_⟩⟩
  intro k
  show (m.ref.insert u.natAbs (c + 1)).contains k = m.ref.contains k
  rw [TreeMap.contains_insert]
  by_cases hk : u.natAbs = k
  · subst hk
    rw [TreeMap.contains_eq_isSome_getElem?, hc]; simp
  · simp [hk]

/-! ### `setNode` -/

theorem setNode_ok (u : Nat) (n : Nd) (m : Mgr) (h : m.pred.contains n.key = false) :
    setNode u n m = (.ok (), { m with tbl := { m.tbl with succ := m.tbl.succ.insert u n },
                                      pred := m.pred.insert n.key u }) := by
  unfold setNode
  simp only [M.bind_eq, M.get, M.assert, h, M.set]
  rfl

theorem key_ne_of_ne {a b : Nd} (h : a ≠ b) : compare a.key b.key ≠ .eq := by
  intro he
  exact h (Nd.key_inj (LawfulEqOrd.eq_of_compare he))

/-- **One pending node gets its new triple.**  If no non-pending node carries the triple `nd`,
`setNode u nd` succeeds (the `AssertionError` for a duplicate triple cannot fire), and if the
new triple is what `SwapRel` demands of the processed node, the phase invariant holds with `u`
no longer pending. -/
theorem Mid.setNode {m0 m : Mgr} {x : Nat} {pend : Nat → Prop} (h : Mid m0 m x pend)
    {u : Nat} (hu : pend u) (nd : Nd)
    (hfreshKey : ∀ k, m.tbl.node? k = some nd → pend k)
    (hrel : SwapRel m0.tbl { m.tbl with succ := m.tbl.succ.insert u nd } x (fun k => pend k ∧ k ≠ u)) :
    ∃ m', DD.setNode u nd m = (.ok (), m') ∧
      m' = { m with tbl := { m.tbl with succ := m.tbl.succ.insert u nd }, pred := m.pred.insert nd.key u } ∧
      Mid m0 m' x (fun k => pend k ∧ k ≠ u) := by
  have hnc : m.pred.contains nd.key = false := by
    rw [TreeMap.contains_eq_isSome_getElem?]
    cases hp : m.pred[nd.key]? with
    | none => rfl
    | some k =>
      exfalso
      obtain ⟨hk, hnp⟩ := (h.pred nd k).mp hp
      exact hnp (hfreshKey k hk)
  refine ⟨_, setNode_ok u nd m hnc, rfl, ?_⟩
  obtain ⟨nu, hnu0, hnu, _⟩ := h.pend_node hu
  have hne_free : m.minFree ≠ u := by
    intro e; rw [← e, h.free] at hnu; cases hnu
  refine ⟨hrel, fun k hk => h.pendOK k hk.1, ?_, h.freeGe, ?_, h.refOne, ?_,
    ⟨h.frame.vars, h.frame.l2v, h.frame.lastLen, h.frame.ctx, h.frame.sched, h.frame.roots⟩⟩
  · intro n k
    show (m.pred.insert nd.key u)[n.key]? = some k ↔
      (({ m.tbl with succ := m.tbl.succ.insert u nd } : Tbl).node? k = some n ∧ ¬ (pend k ∧ k ≠ u))
    rw [node?_insert, TreeMap.getElem?_insert]
    by_cases hn : nd = n
    · subst hn
      simp only [compare_self, if_true]
      constructor
      · intro e
        cases e
        exact ⟨by simp, fun hh => hh.2 rfl⟩
      · intro ⟨e1, e2⟩
        by_cases hku : u = k
        · rw [hku]
        · exfalso
          simp only [hku, if_false] at e1
          exact e2 ⟨hfreshKey k e1, fun e => hku e.symm⟩
    · simp only [key_ne_of_ne hn, if_false]
      rw [h.pred]
      constructor
      · intro ⟨e1, e2⟩
        have hku : u ≠ k := by intro e; subst e; exact e2 hu
        exact ⟨by simp [hku, e1], fun hh => e2 hh.1⟩
      · intro ⟨e1, e2⟩
        by_cases hku : u = k
        · simp only [hku, if_true] at e1
          exact absurd (Option.some.inj e1) hn
        · simp only [hku, if_false] at e1
          exact ⟨e1, fun hp => e2 ⟨hp, fun e => hku e.symm⟩⟩
  · show ({ m.tbl with succ := m.tbl.succ.insert u nd } : Tbl).node? m.minFree = none
    rw [node?_insert]
    have : ¬ u = m.minFree := fun e => hne_free e.symm
    simp [this, h.free]
  · intro k n hk
    have hk' : ({ m.tbl with succ := m.tbl.succ.insert u nd } : Tbl).node? k = some n := hk
    rw [node?_insert] at hk'
    split at hk'
    · subst_vars; exact h.refDom _ _ hnu
    · exact h.refDom _ _ hk'

/-! ### `find_or_add`, structurally -/

/-- the stored low child: complemented when the high child is -/
def normA (a b : Int) : Int := if b < 0 then -a else a
/-- the stored (regular) high child -/
def normB (b : Int) : Int := if b < 0 then -b else b
/-- the sign of the returned reference -/
def sgn (b : Int) : Int := if b < 0 then -1 else 1

/-- the state after `find_or_add` created the node `nd` at `min_free` -/
structure FoaNew (m : Mgr) (nd : Nd) (m' : Mgr) : Prop where
  tbl : m'.tbl = { m.tbl with succ := m.tbl.succ.insert m.minFree nd }
  pred : m'.pred = m.pred.insert nd.key m.minFree
  refMono : ∀ k, m.ref.contains k = true → m'.ref.contains k = true
  refNew : m'.ref.contains m.minFree = true
  freeGe : 2 ≤ m'.minFree
  free : m'.tbl.node? m'.minFree = none
  cache : m'.cache = m.cache
  lastLen : m'.lastLen = m.lastLen
  ctx : m'.ctx = m.ctx
  fireIn : m'.fireIn = m.fireIn
  sched : m'.sched = m.sched
  roots : m'.roots = m.roots

/-- `find_or_add(i, a, b)` needs no ordering invariant: with both children present, a valid
`min_free` and counters for all nodes it (1) returns `a` when `a = b`, (2) returns the signed
number found in the unique table, or (3) creates the normalised node at `min_free`. -/
theorem findOrAddCore_struct (m : Mgr) (i : Nat) (a b : Int) (hi : i < m.nvars)
    (ha : m.tbl.Mem a) (hb : m.tbl.Mem b) (hge : 2 ≤ m.minFree)
    (hfree : m.tbl.node? m.minFree = none)
    (href : ∀ c : Int, m.tbl.Mem c → m.ref.contains c.natAbs = true) :
    (a = b ∧ findOrAddCore i a b m = (.ok a, m)) ∨
    (a ≠ b ∧ ∃ k, m.pred[(⟨i, normA a b, normB b⟩ : Nd).key]? = some k ∧
      findOrAddCore i a b m = (.ok (sgn b * (k : Int)), m)) ∨
    (a ≠ b ∧ m.pred[(⟨i, normA a b, normB b⟩ : Nd).key]? = none ∧
      ∃ m', findOrAddCore i a b m = (.ok (sgn b * (m.minFree : Int)), m') ∧
        FoaNew m ⟨i, normA a b, normB b⟩ m') := by
  have hnv : ¬ m.nvars ≤ i := by omega
  have hma : m.mem a = true := (Mgr.mem_iff m a).mpr ha
  have hmb : m.mem b = true := (Mgr.mem_iff m b).mpr hb
  unfold findOrAddCore
  simp only [hnv, if_false, hma, hmb, Bool.not_true, Bool.false_eq_true]
  show _ ∨ _ ∨ _
  have hnorm : (normA a b = normB b) ↔ a = b := by
    unfold normA normB; split <;> omega
  by_cases hab : a = b
  · left
    refine ⟨hab, ?_⟩
    have : normA a b = normB b := hnorm.mpr hab
    unfold normA normB at this
    simp only [this, if_true]
    subst hab
    congr 1
    split <;> simp <;> omega
  · right
    have hne : ¬ (normA a b = normB b) := fun e => hab (hnorm.mp e)
    have hne' : ¬ ((if b < 0 then -a else a) = (if b < 0 then -b else b)) := hne
    simp only [hne', if_false]
    cases hp : m.pred[(⟨i, normA a b, normB b⟩ : Nd).key]? with
    | some k =>
      left
      refine ⟨hab, k, rfl, ?_⟩
      have hp' : m.pred[(⟨i, if b < 0 then -a else a, if b < 0 then -b else b⟩ : Nd).key]? = some k := hp
      rw [hp']
      rfl
    | none =>
      right
      refine ⟨hab, rfl, ?_⟩
      have hp' : m.pred[(⟨i, if b < 0 then -a else a, if b < 0 then -b else b⟩ : Nd).key]? = none := hp
      rw [hp']
      have hnle : ¬ m.minFree ≤ 1 := by omega
      have hnc : m.tbl.succ.contains m.minFree = false := not_contains_of_node?_none _ _ hfree
      simp only [hnle, if_false, hnc, Bool.false_eq_true]
      let t : Nd := ⟨i, normA a b, normB b⟩
      let u := m.minFree
      let succ' := m.tbl.succ.insert u t
      let m1 : Mgr := { m with
        tbl := { m.tbl with succ := succ' }
        pred := m.pred.insert t.key u
        ref := m.ref.insert u 0
        minFree := nextFree succ' (succ'.size + 2) u }
      have habs1 : (normA a b).natAbs = a.natAbs := by unfold normA; split <;> simp
      have habs2 : (normB b).natAbs = b.natAbs := by unfold normB; split <;> simp
      have hr1 : m1.ref.contains (normA a b).natAbs = true := by
        rw [habs1]; exact contains_insert_mono _ _ _ _ (href a ha)
      obtain ⟨c1, _, hinc1⟩ := incref_ok m1 (normA a b) hr1
      let m2 : Mgr := { m1 with ref := m1.ref.insert (normA a b).natAbs (c1 + 1) }
      have hr2 : m2.ref.contains (normB b).natAbs = true := by
        rw [habs2]
        exact contains_insert_mono _ _ _ _ (contains_insert_mono _ _ _ _ (href b hb))
      obtain ⟨c2, _, hinc2⟩ := incref_ok m2 (normB b) hr2
      let m3 : Mgr := { m2 with ref := m2.ref.insert (normB b).natAbs (c2 + 1) }
      refine ⟨m3, ?_, ?_⟩
      · show (match incref (normA a b) m1 with
              | (.error e, m2) => (Except.error e, m2)
              | (.ok _, m2) =>
                match incref (normB b) m2 with
                | (.error e, m3) => (Except.error e, m3)
                | (.ok _, m3) => (.ok (sgn b * ((u : Nat) : Int)), m3)) = _
        rw [hinc1]
        simp only
        rw [hinc2]
      · refine ⟨rfl, rfl, ?_, ?_, ?_, ?_, rfl, rfl, rfl, rfl, rfl, rfl⟩
        · intro k hk
          exact contains_insert_mono _ _ _ _ (contains_insert_mono _ _ _ _
            (contains_insert_mono _ _ _ _ hk))
        · exact contains_insert_mono _ _ _ _ (contains_insert_mono _ _ _ _
            (contains_insert_self' _ _ _))
        · show 2 ≤ nextFree succ' (succ'.size + 2) u
          exact Nat.le_trans hge (nextFree_ge _ _ _)
        · show ({ m.tbl with succ := succ' } : Tbl).node? (nextFree succ' (succ'.size + 2) u) = none
          exact node?_none_of_not_contains _ _ (nextFree_not_contains succ' u hge)

/-- the three outcomes all satisfy `Mk` in the resulting table -/
theorem mk_of_found {t : Tbl} {i : Nat} {a b : Int} {k : Nat} (hab : a ≠ b) (hk : 2 ≤ k)
    (hn : t.node? k = some ⟨i, normA a b, normB b⟩) : Mk t i a b (sgn b * (k : Int)) :=
  Or.inr ⟨hab, k, hk, hn, rfl⟩

/-- **A created node keeps the phase invariant.** -/
theorem Mid.addFresh {m0 m m' : Mgr} {x : Nat} {pend : Nat → Prop} (h : Mid m0 m x pend)
    {nd : Nd} (hf : FoaNew m nd m') (hnone : m.pred[nd.key]? = none)
    (hl : nd.lvl = x + 1) (mlo : m0.tbl.Mem nd.lo) (mhi : m0.tbl.Mem nd.hi)
    (llo : x + 1 < m0.tbl.levelOf nd.lo) (lhi : x + 1 < m0.tbl.levelOf nd.hi)
    (hpos : 0 < nd.hi) (hne : nd.lo ≠ nd.hi) : Mid m0 m' x pend := by
  have hnode : ∀ k, m'.tbl.node? k = if m.minFree = k then some nd else m.tbl.node? k := by
    intro k; rw [hf.tbl, node?_insert]
  have hold : ∀ k n, m.tbl.node? k = some n → m'.tbl.node? k = some n := by
    intro k n hk
    rw [hnode]
    have : m.minFree ≠ k := by intro e; rw [← e, h.free] at hk; cases hk
    simp [this, hk]
  have hnp : ¬ pend m.minFree := by
    intro hp
    obtain ⟨n, _, hn, _⟩ := h.pend_node hp
    rw [h.free] at hn; cases hn
  have hmk : ∀ a b r, Mk m.tbl (x + 1) a b r → Mk m'.tbl (x + 1) a b r :=
    fun a b r hm => hm.mono (fun k n _ hk => hold k n hk)
  refine ⟨⟨?_, ?_, ?_, ?_, ?_, ?_, ?_⟩, h.pendOK, ?_, hf.freeGe, hf.free, hf.refMono _ h.refOne, ?_,
    ⟨?_, ?_, hf.lastLen.trans h.frame.lastLen, hf.ctx.trans h.frame.ctx,
      hf.sched.trans h.frame.sched, hf.roots.trans h.frame.roots⟩⟩
  · show m'.tbl.nvars = m0.tbl.nvars
    rw [hf.tbl]; exact h.rel.nvars
  · intro u n hn h1 h2; exact hold _ _ (h.rel.other u n hn h1 h2)
  · intro u n hn h1 hp; exact hold _ _ (h.rel.up u n hn h1 hp)
  · intro u n hn h1 h2 h3 hp; exact hold _ _ (h.rel.indep u n hn h1 h2 h3 hp)
  · intro u n hn h1 h2 hp
    obtain ⟨p, q, hh, hp', hq'⟩ := h.rel.dep u n hn h1 h2 hp
    exact ⟨p, q, hold _ _ hh, hmk _ _ _ hp', hmk _ _ _ hq'⟩
  · intro u n hn hp; exact hold _ _ (h.rel.pending u n hn hp)
  · intro u n hn hk
    rw [hnode] at hk
    split at hk
    · cases hk; subst_vars
      exact ⟨h.freeGe, hl, mlo, mhi, llo, lhi, hpos, hne⟩
    · exact h.rel.fresh u n hn hk
  · intro n k
    rw [hf.pred, TreeMap.getElem?_insert, hnode]
    by_cases hn : nd = n
    · subst hn
      simp only [compare_self, if_true]
      constructor
      · intro e; cases e; exact ⟨by simp, hnp⟩
      · intro ⟨e1, e2⟩
        by_cases hk : m.minFree = k
        · rw [hk]
        · exfalso
          simp only [hk, if_false] at e1
          have := (h.pred nd k).mpr ⟨e1, e2⟩
          rw [hnone] at this; cases this
    · simp only [key_ne_of_ne hn, if_false]
      rw [h.pred]
      constructor
      · intro ⟨e1, e2⟩
        have : m.minFree ≠ k := by intro e; rw [← e, h.free] at e1; cases e1
        exact ⟨by simp [this, e1], e2⟩
      · intro ⟨e1, e2⟩
        by_cases hk : m.minFree = k
        · simp only [hk, if_true] at e1
          exact absurd (Option.some.inj e1) hn
        · simp only [hk, if_false] at e1
          exact ⟨e1, e2⟩
  · intro k n hk
    rw [hnode] at hk
    split at hk
    · subst_vars; exact hf.refNew
    · exact hf.refMono _ (h.refDom _ _ hk)
  · rw [hf.tbl]; exact h.frame.vars
  · rw [hf.tbl]; exact h.frame.l2v

end DD
